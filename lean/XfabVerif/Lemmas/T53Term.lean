/-
T5.3, termination: for a POSITIVE DEFINITE reciprocal form (`Form.posDef`, Sylvester's criterion) and non-zero step
directions, the three nested `while` loops of `genhkl_base` terminate — in the model: there is a fuel `F₀` such that for
every fuel `F ≥ F₀` no loop is cut (`fuelOkSeg` / `fuelOk`), so the fuel-indexed model lists ARE what the real loops visit.

Proof: `Q ≥ 0` and `Q(d) > 0` (LDLᵀ decomposition, `T53.ldl`); if `a = p + d` and `b = p + m·d` both pass the stop test
`Q ≤ M` then, by the parallelogram identity, `(m−1)²·Q(d) = Q(b − a) ≤ 2Q(a) + 2Q(b) ≤ 4M`, which bounds `m`
independently of the start `p` of the loop; a loop that made `L − 1 ≥ 1` steps passed the test at its first and its last
step.
-/
import XfabVerif.Lemmas.T53
import Mathlib.Algebra.Order.Archimedean.Basic

set_option linter.unusedVariables false
set_option linter.style.longLine false
set_option linter.unusedSimpArgs false

namespace T53

open Hkl C05

/-! ### positive definiteness -/

theorem posDef_iff (G : Form) : G.posDef = true ↔
    0 < G.g11 ∧ 0 < G.g11 * G.g22 - G.g12 * G.g12 ∧
    0 < G.g11 * (G.g22 * G.g33 - G.g23 * G.g23) - G.g12 * (G.g12 * G.g33 - G.g23 * G.g13)
          + G.g13 * (G.g12 * G.g23 - G.g22 * G.g13) := by
  simp only [Form.posDef, Bool.and_eq_true, decide_eq_true_eq, and_assoc]

/-- LDLᵀ: `g11·D₂·Q(v) = D₂·(g11 v₁ + g12 v₂ + g13 v₃)² + (D₂ v₂ + E v₃)² + g11·det·v₃²` -/
theorem ldl (G : Form) (v : V) :
    G.g11 * (G.g11 * G.g22 - G.g12 * G.g12) * G.q v =
      (G.g11 * G.g22 - G.g12 * G.g12) * (G.g11 * v.1 + G.g12 * v.2.1 + G.g13 * v.2.2) ^ 2 +
      ((G.g11 * G.g22 - G.g12 * G.g12) * v.2.1 + (G.g11 * G.g23 - G.g12 * G.g13) * v.2.2) ^ 2 +
      G.g11 * (G.g11 * (G.g22 * G.g33 - G.g23 * G.g23) - G.g12 * (G.g12 * G.g33 - G.g23 * G.g13)
          + G.g13 * (G.g12 * G.g23 - G.g22 * G.g13)) * (v.2.2 : Rat) ^ 2 := by
  simp only [Form.q]; ring

theorem q_nonneg (G : Form) (hpd : G.posDef = true) (v : V) : 0 ≤ G.q v := by
  obtain ⟨h1, h2, h3⟩ := (posDef_iff G).1 hpd
  have e := ldl G v
  have p : 0 < G.g11 * (G.g11 * G.g22 - G.g12 * G.g12) := mul_pos h1 h2
  have r1 := mul_nonneg (le_of_lt h2) (sq_nonneg (G.g11 * v.1 + G.g12 * v.2.1 + G.g13 * v.2.2))
  have r2 := sq_nonneg ((G.g11 * G.g22 - G.g12 * G.g12) * v.2.1 + (G.g11 * G.g23 - G.g12 * G.g13) * v.2.2)
  have r3 := mul_nonneg (le_of_lt (mul_pos h1 h3)) (sq_nonneg (v.2.2 : Rat))
  by_contra hneg
  have : G.g11 * (G.g11 * G.g22 - G.g12 * G.g12) * G.q v < 0 := mul_neg_of_pos_of_neg p (not_le.1 hneg)
  linarith

theorem q_pos (G : Form) (hpd : G.posDef = true) (v : V) (hv : v ≠ (0, 0, 0)) : 0 < G.q v := by
  obtain ⟨h1, h2, h3⟩ := (posDef_iff G).1 hpd
  rcases lt_or_eq_of_le (q_nonneg G hpd v) with h | h
  · exact h
  · exfalso
    have e := ldl G v
    rw [← h, mul_zero] at e
    have r1 := mul_nonneg (le_of_lt h2) (sq_nonneg (G.g11 * v.1 + G.g12 * v.2.1 + G.g13 * v.2.2))
    have r2 := sq_nonneg ((G.g11 * G.g22 - G.g12 * G.g12) * v.2.1 + (G.g11 * G.g23 - G.g12 * G.g13) * v.2.2)
    have r3 := mul_nonneg (le_of_lt (mul_pos h1 h3)) (sq_nonneg (v.2.2 : Rat))
    have z3 : G.g11 * (G.g11 * (G.g22 * G.g33 - G.g23 * G.g23) - G.g12 * (G.g12 * G.g33 - G.g23 * G.g13)
          + G.g13 * (G.g12 * G.g23 - G.g22 * G.g13)) * (v.2.2 : Rat) ^ 2 = 0 := by linarith
    have z2 : ((G.g11 * G.g22 - G.g12 * G.g12) * v.2.1 + (G.g11 * G.g23 - G.g12 * G.g13) * v.2.2) ^ 2 = 0 := by linarith
    have z1 : (G.g11 * G.g22 - G.g12 * G.g12) * (G.g11 * v.1 + G.g12 * v.2.1 + G.g13 * v.2.2) ^ 2 = 0 := by linarith
    have v3 : (v.2.2 : Rat) = 0 := by
      rcases mul_eq_zero.1 z3 with h' | h'
      · exact absurd h' (ne_of_gt (mul_pos h1 h3))
      · exact pow_eq_zero_iff (two_ne_zero) |>.1 h'
    have v2 : (v.2.1 : Rat) = 0 := by
      have := pow_eq_zero_iff (two_ne_zero) |>.1 z2
      rw [v3, mul_zero, add_zero] at this
      rcases mul_eq_zero.1 this with h' | h'
      · exact absurd h' (ne_of_gt h2)
      · exact h'
    have v1 : (v.1 : Rat) = 0 := by
      rcases mul_eq_zero.1 z1 with h' | h'
      · exact absurd h' (ne_of_gt h2)
      · have := pow_eq_zero_iff (two_ne_zero) |>.1 h'
        rw [v3, v2, mul_zero, mul_zero, add_zero, add_zero] at this
        rcases mul_eq_zero.1 this with h'' | h''
        · exact absurd h'' (ne_of_gt h1)
        · exact h''
    apply hv
    obtain ⟨a, b, c⟩ := v
    simp only [Prod.mk.injEq]
    exact ⟨Int.cast_eq_zero.1 v1, Int.cast_eq_zero.1 v2, Int.cast_eq_zero.1 v3⟩

/-! ### two points of a line inside the shell are close -/

/-- parallelogram identity: `n²·Q(d) + Q(2a + n·d) = 2·Q(a) + 2·Q(a + n·d)` -/
theorem parallelogram (G : Form) (a d : V) (n : Int) :
    (n : Rat) ^ 2 * G.q d + G.q (vadd (vadd a a) (vsmul n d)) = 2 * G.q a + 2 * G.q (vadd a (vsmul n d)) := by
  simp only [Form.q, vadd, vsmul]; push_cast; ring

theorem stepN_eq (p d : V) (m : Nat) : stepN p d m = vadd (vadd p d) (vsmul ((m : Int) - 1) d) := by
  simp only [stepN, vadd, vsmul, Prod.mk.injEq]
  refine ⟨?_, ?_, ?_⟩ <;> ring

/-- a bound, uniform in the start `p`, on the number of steps between two points of a line that pass the stop test -/
def StepBound (q : V → Rat) (M : Rat) (d : V) (N : Nat) : Prop :=
  ∀ (p : V) (m : Nat), 1 ≤ m → q (vadd p d) ≤ M → q (stepN p d m) ≤ M → m ≤ N

theorem stepBound_exists (G : Form) (hpd : G.posDef = true) (M : Rat) (d : V) (hd : d ≠ (0, 0, 0)) :
    ∃ N : Nat, StepBound G.q M d N := by
  have hc := q_pos G hpd d hd
  obtain ⟨N, hN⟩ := exists_nat_ge (4 * M / G.q d + 1)
  refine ⟨N, fun p m hm ha hb => ?_⟩
  rw [stepN_eq] at hb
  have hpar := parallelogram G (vadd p d) d ((m : Int) - 1)
  have hnn := q_nonneg G hpd (vadd (vadd (vadd p d) (vadd p d)) (vsmul ((m : Int) - 1) d))
  obtain ⟨k, rfl⟩ : ∃ k, m = k + 1 := ⟨m - 1, by omega⟩
  have hk : ((((k + 1 : Nat) : Int) - 1 : Int) : Rat) = (k : Rat) := by push_cast; ring
  rw [hk] at hpar
  have h1 : (k : Rat) ^ 2 * G.q d ≤ 4 * M := by linarith
  have h2 : (k : Rat) ≤ (k : Rat) ^ 2 := by
    have : k ≤ k * k := Nat.le_mul_self k
    have : (k : Rat) ≤ ((k * k : Nat) : Rat) := Nat.cast_le.2 this
    rw [Nat.cast_mul] at this
    rw [sq]; exact this
  have h3 : (k : Rat) * G.q d ≤ 4 * M := le_trans (mul_le_mul_of_nonneg_right h2 (le_of_lt hc)) h1
  have h4 : (k : Rat) ≤ 4 * M / G.q d := (le_div_iff₀ hc).2 h3
  have h5 : ((k + 1 : Nat) : Rat) ≤ N := by push_cast; linarith
  exact Nat.cast_le.1 h5

/-! ### the loops are short -/

theorem row_get (q : V → Rat) (M : Rat) (d : V) : ∀ (fuel : Nat) (p : V) (i : Nat),
    i < (row q M d fuel p).length → 1 ≤ i → q (stepN p d i) ≤ M
  | 0, p, i, h, _ => by simp [row] at h
  | fuel + 1, p, i, h, hi => by
    simp only [row] at h
    by_cases hle : q (vadd p d) ≤ M
    · simp only [hle, if_true, List.length_cons] at h
      obtain ⟨j, rfl⟩ : ∃ j, i = j + 1 := ⟨i - 1, by omega⟩
      rw [stepN_succ]
      rcases Nat.eq_zero_or_pos j with rfl | hj
      · rw [stepN_zero]; exact hle
      · exact row_get q M d fuel (vadd p d) j (by omega) hj
    · simp only [hle, if_false, List.length_cons, List.length_nil] at h
      omega

theorem plane_get (q : V → Rat) (M : Rat) (d1 d2 : V) (F : Nat) : ∀ (fuel : Nat) (p : V) (i : Nat),
    i < (plane q M d1 d2 F fuel p).length → 1 ≤ i → q (stepN p d2 i) ≤ M
  | 0, p, i, h, _ => by simp [plane] at h
  | fuel + 1, p, i, h, hi => by
    simp only [plane] at h
    by_cases hle : q (vadd p d2) ≤ M
    · simp only [hle, if_true, List.length_cons] at h
      obtain ⟨j, rfl⟩ : ∃ j, i = j + 1 := ⟨i - 1, by omega⟩
      rw [stepN_succ]
      rcases Nat.eq_zero_or_pos j with rfl | hj
      · rw [stepN_zero]; exact hle
      · exact plane_get q M d1 d2 F fuel (vadd p d2) j (by omega) hj
    · simp only [hle, if_false, List.length_cons, List.length_nil] at h
      omega

theorem cone_get (q : V → Rat) (M : Rat) (d1 d2 d3 : V) (F : Nat) : ∀ (fuel : Nat) (p : V) (i : Nat),
    i < (cone q M d1 d2 d3 F fuel p).length → 1 ≤ i → q (stepN p d3 i) ≤ M
  | 0, p, i, h, _ => by simp [cone] at h
  | fuel + 1, p, i, h, hi => by
    simp only [cone] at h
    by_cases hle : q (vadd p d3) ≤ M
    · simp only [hle, if_true, List.length_cons] at h
      obtain ⟨j, rfl⟩ : ∃ j, i = j + 1 := ⟨i - 1, by omega⟩
      rw [stepN_succ]
      rcases Nat.eq_zero_or_pos j with rfl | hj
      · rw [stepN_zero]; exact hle
      · exact cone_get q M d1 d2 d3 F fuel (vadd p d3) j (by omega) hj
    · simp only [hle, if_false, List.length_cons, List.length_nil] at h
      omega

/-- a loop whose test is bounded by `N` steps has at most `N + 1` iterations, whatever the fuel -/
theorem len_le_of_get {q : V → Rat} {M : Rat} {d p : V} {N L : Nat} (hb : StepBound q M d N)
    (hget : ∀ i, i < L → 1 ≤ i → q (stepN p d i) ≤ M) : L ≤ N + 1 := by
  by_contra hcon
  have h1 := hget 1 (by omega) (Nat.le_refl _)
  rw [stepN_one] at h1
  have := hb p (L - 1) (by omega) h1 (hget (L - 1) (by omega) (by omega))
  omega

theorem row_len_le {q : V → Rat} {M : Rat} {d : V} {N : Nat} (hb : StepBound q M d N) (fuel : Nat) (p : V) :
    (row q M d fuel p).length ≤ N + 1 := len_le_of_get hb (row_get q M d fuel p)

theorem plane_len_le {q : V → Rat} {M : Rat} {d1 d2 : V} {N : Nat} (hb : StepBound q M d2 N) (F fuel : Nat) (p : V) :
    (plane q M d1 d2 F fuel p).length ≤ N + 1 := len_le_of_get hb (plane_get q M d1 d2 F fuel p)

theorem cone_len_le {q : V → Rat} {M : Rat} {d1 d2 d3 : V} {N : Nat} (hb : StepBound q M d3 N) (F fuel : Nat) (p : V) :
    (cone q M d1 d2 d3 F fuel p).length ≤ N + 1 := len_le_of_get hb (cone_get q M d1 d2 d3 F fuel p)

theorem plane_rows (q : V → Rat) (M : Rat) (d1 d2 : V) (F : Nat) : ∀ (fuel : Nat) (p : V) (r : List V),
    r ∈ plane q M d1 d2 F fuel p → ∃ p', r = row q M d1 F p'
  | 0, p, r, h => by simp [plane] at h
  | fuel + 1, p, r, h => by
    simp only [plane, List.mem_cons] at h
    rcases h with rfl | h
    · exact ⟨p, rfl⟩
    · split at h
      · exact plane_rows q M d1 d2 F fuel _ r h
      · simp at h

theorem cone_planes (q : V → Rat) (M : Rat) (d1 d2 d3 : V) (F : Nat) : ∀ (fuel : Nat) (p : V) (pl : List (List V)),
    pl ∈ cone q M d1 d2 d3 F fuel p → ∃ p', pl = plane q M d1 d2 F F p'
  | 0, p, pl, h => by simp [cone] at h
  | fuel + 1, p, pl, h => by
    simp only [cone, List.mem_cons] at h
    rcases h with rfl | h
    · exact ⟨p, rfl⟩
    · split at h
      · exact cone_planes q M d1 d2 d3 F fuel _ pl h
      · simp at h

/-- with step bounds for the three directions, every fuel above the largest bound `+ 1` suffices -/
theorem fuelOkSeg_of_bounds (q : V → Rat) (M : Rat) (sg : Segment) (N1 N2 N3 : Nat) (h1 : StepBound q M sg.d1 N1)
    (h2 : StepBound q M sg.d2 N2) (h3 : StepBound q M sg.d3 N3) (F : Nat) (hF1 : N1 + 1 < F) (hF2 : N2 + 1 < F)
    (hF3 : N3 + 1 < F) : fuelOkSeg q M F sg = true := by
  rw [fuelOkSeg_iff]
  refine ⟨lt_of_le_of_lt (cone_len_le h3 F F sg.s) hF3, fun pl hpl => ?_⟩
  obtain ⟨p', rfl⟩ := cone_planes q M sg.d1 sg.d2 sg.d3 F F sg.s pl hpl
  refine ⟨lt_of_le_of_lt (plane_len_le h2 F F p') hF2, fun r hr => ?_⟩
  obtain ⟨p'', rfl⟩ := plane_rows q M sg.d1 sg.d2 F F p' r hr
  exact lt_of_le_of_lt (row_len_le h1 F p'') hF1

/-- the three step directions are non-zero -/
def dirsOkB (sg : Segment) : Bool := sg.d1 != (0, 0, 0) && sg.d2 != (0, 0, 0) && sg.d3 != (0, 0, 0)

/-- **termination, one segment**: positive definite form, non-zero directions ⇒ every sufficiently large fuel suffices -/
theorem fuelOkSeg_eventually (G : Form) (hpd : G.posDef = true) (M : Rat) (sg : Segment) (hd : dirsOkB sg = true) :
    ∃ F0 : Nat, ∀ F, F0 ≤ F → fuelOkSeg G.q M F sg = true := by
  simp only [dirsOkB, Bool.and_eq_true, bne_iff_ne, ne_eq] at hd
  obtain ⟨N1, h1⟩ := stepBound_exists G hpd M sg.d1 hd.1.1
  obtain ⟨N2, h2⟩ := stepBound_exists G hpd M sg.d2 hd.1.2
  obtain ⟨N3, h3⟩ := stepBound_exists G hpd M sg.d3 hd.2
  exact ⟨N1 + N2 + N3 + 2, fun F hF => fuelOkSeg_of_bounds G.q M sg N1 N2 N3 h1 h2 h3 F (by omega) (by omega) (by omega)⟩

/-- **termination, all segments** -/
theorem fuelOk_eventually_segs (G : Form) (hpd : G.posDef = true) (M : Rat) : ∀ (segs : List Segment),
    (∀ sg ∈ segs, dirsOkB sg = true) → ∃ F0 : Nat, ∀ F, F0 ≤ F → ∀ sg ∈ segs, fuelOkSeg G.q M F sg = true
  | [], _ => ⟨0, fun F _ sg h => by cases h⟩
  | sg :: segs, hd => by
    obtain ⟨F1, h1⟩ := fuelOkSeg_eventually G hpd M sg (hd sg List.mem_cons_self)
    obtain ⟨F2, h2⟩ := fuelOk_eventually_segs G hpd M segs (fun s hs => hd s (List.mem_cons_of_mem _ hs))
    refine ⟨F1 + F2, fun F hF s hs => ?_⟩
    rcases List.mem_cons.1 hs with rfl | hs
    · exact h1 F (by omega)
    · exact h2 F (by omega) s hs

/-- kernel-decided on the generated rules: no step direction of the 14 rules is zero -/
theorem rules_dirs_ok : (Tools.segmRules.all fun r => r.segs.all dirsOkB) = true := by decide

/-- **termination of `genhkl_base`** (model): for a positive definite form and the segments of either module there is a
    fuel `F₀` such that for every fuel `F ≥ F₀` no loop of any segment is cut by the fuel -/
theorem fuelOk_eventually (x : Input) (segs : List Segment) (hcfg : x.cfg = toolsCfg ∨ x.cfg = laueCfg)
    (hs : x.segments = some segs) (hpd : x.G.posDef = true) :
    ∃ F0 : Nat, ∀ F, F0 ≤ F → fuelOk { x with fuel := F } segs = true := by
  have hs' : segmentsFor Tools.segmRules x.tbl.laue x.tbl.cellChoice = some segs := by
    rcases hcfg with h | h <;> simpa [Input.segments, h, toolsCfg, laueCfg] using hs
  obtain ⟨r, hr, rfl, _⟩ := segmentsFor_rule _ _ _ _ hs'
  have hd := rules_dirs_ok
  simp only [List.all_eq_true] at hd
  obtain ⟨F0, h0⟩ := fuelOk_eventually_segs x.G hpd x.M r.segs (hd r hr)
  refine ⟨F0, fun F hF => ?_⟩
  rw [fuelOk_iff]
  exact h0 F hF

end T53
