/-
The traversal of `genhkl_base` never visits a point twice (helper for C05 "none repeated" / C06 "exactly one").

For a segment whose direction matrix `D = (d₁; d₂; d₃)` is non-singular the three nested loops visit their points in
strictly increasing lexicographic order of the coordinates `(n₃, n₂, n₁)` of `x = s + n₃d₃ + n₂d₂ + n₁d₁`
(read off with the rows of the adjugate: `wᵢ·dⱼ = det D · δᵢⱼ`), whatever the quadratic form, the bound and the fuel.
With the disjointness of the cones of different segments (`T54.SegsDisjoint`, part of T5.4) the whole list of
visited points, hence the rows of `genhkl_unique`, have no repetition.
-/
import XfabVerif.Lemmas.T54

set_option linter.unusedVariables false
set_option linter.style.longLine false
set_option linter.unusedSimpArgs false

namespace T54

open Hkl C05

def dot (a b : V) : Int := a.1 * b.1 + a.2.1 * b.2.1 + a.2.2 * b.2.2

def cross (a b : V) : V :=
  (a.2.1 * b.2.2 - a.2.2 * b.2.1, a.2.2 * b.1 - a.1 * b.2.2, a.1 * b.2.1 - a.2.1 * b.1)

/-- determinant of the direction matrix of a segment -/
def det (sg : Segment) : Int := dot sg.d1 (cross sg.d2 sg.d3)

theorem dot_vadd (w p d : V) : dot w (vadd p d) = dot w p + dot w d := by
  simp only [dot, vadd]; ring

theorem dot_vsmul (w d : V) (n : Int) : dot w (vsmul n d) = n * dot w d := by
  simp only [dot, vsmul]; ring

/-- lexicographic order on the coordinates read off by `w3`, `w2`, `w1` -/
def Lex (w1 w2 w3 : V) (x y : V) : Prop :=
  dot w3 x < dot w3 y ∨ (dot w3 x = dot w3 y ∧ (dot w2 x < dot w2 y ∨ (dot w2 x = dot w2 y ∧ dot w1 x < dot w1 y)))

theorem Lex.ne {w1 w2 w3 x y : V} (h : Lex w1 w2 w3 x y) : x ≠ y := by
  rintro rfl
  rcases h with h | ⟨_, h | ⟨_, h⟩⟩ <;> exact absurd h (Int.lt_irrefl _)

/-- hypotheses on the three functionals (satisfied by `det D` times the rows of the adjugate) -/
structure Reads (w1 w2 w3 d1 d2 d3 : V) : Prop where
  h11 : 0 < dot w1 d1
  h21 : dot w2 d1 = 0
  h22 : 0 < dot w2 d2
  h31 : dot w3 d1 = 0
  h32 : dot w3 d2 = 0
  h33 : 0 < dot w3 d3

section loops

variable {w1 w2 w3 d1 d2 d3 : V} (H : Reads w1 w2 w3 d1 d2 d3) (q : V → Rat) (M : Rat)

include H

theorem row_coords (fuel : Nat) (p x : V) (hx : x ∈ row q M d1 fuel p) :
    dot w3 x = dot w3 p ∧ dot w2 x = dot w2 p ∧ dot w1 p ≤ dot w1 x := by
  obtain ⟨n, rfl⟩ := row_mem q M d1 fuel p x hx
  simp only [dot_vadd, dot_vsmul, H.h31, H.h21, Int.mul_zero, Int.add_zero, true_and]
  have := Int.mul_nonneg (Int.natCast_nonneg n) (Int.le_of_lt H.h11)
  omega

theorem row_pairwise : ∀ (fuel : Nat) (p : V), (row q M d1 fuel p).Pairwise (Lex w1 w2 w3)
  | 0, p => by simp [row]
  | fuel + 1, p => by
    simp only [row]
    refine List.Pairwise.cons (fun b hb => ?_) ?_
    · split at hb
      · obtain ⟨e3, e2, e1⟩ := row_coords H q M fuel _ b hb
        rw [dot_vadd] at e3 e2 e1
        refine Or.inr ⟨by rw [e3, H.h31]; simp, Or.inr ⟨by rw [e2, H.h21]; simp, ?_⟩⟩
        have := H.h11
        omega
      · simp at hb
    · split
      · exact row_pairwise fuel _
      · exact List.Pairwise.nil

theorem plane_coords (F : Nat) (fuel : Nat) (p : V) (r : List V) (x : V) (hr : r ∈ plane q M d1 d2 F fuel p) (hx : x ∈ r) :
    dot w3 x = dot w3 p ∧ dot w2 p ≤ dot w2 x := by
  obtain ⟨n2, n1, rfl⟩ := plane_mem q M d1 d2 F fuel p r x hr hx
  simp only [dot_vadd, dot_vsmul, H.h31, H.h32, H.h21, Int.mul_zero, Int.add_zero, true_and]
  have := Int.mul_nonneg (Int.natCast_nonneg n2) (Int.le_of_lt H.h22)
  omega

theorem plane_pairwise (F : Nat) : ∀ (fuel : Nat) (p : V), (plane q M d1 d2 F fuel p).flatten.Pairwise (Lex w1 w2 w3)
  | 0, p => by simp [plane]
  | fuel + 1, p => by
    simp only [plane, List.flatten_cons, List.pairwise_append]
    refine ⟨row_pairwise H q M F p, ?_, fun a ha b hb => ?_⟩
    · split
      · exact plane_pairwise F fuel _
      · simp
    · split at hb
      · obtain ⟨a3, a2, _⟩ := row_coords H q M F p a ha
        obtain ⟨r, hr, hbr⟩ := List.mem_flatten.1 hb
        obtain ⟨b3, b2⟩ := plane_coords H q M F fuel _ r b hr hbr
        rw [dot_vadd] at b3 b2
        refine Or.inr ⟨by rw [a3, b3, H.h32]; simp, Or.inl ?_⟩
        have := H.h22
        omega
      · simp at hb

theorem cone_coords (F : Nat) (fuel : Nat) (p : V) (pl : List (List V)) (r : List V) (x : V)
    (hp : pl ∈ cone q M d1 d2 d3 F fuel p) (hr : r ∈ pl) (hx : x ∈ r) : dot w3 p ≤ dot w3 x := by
  obtain ⟨n3, n2, n1, rfl⟩ := cone_mem q M d1 d2 d3 F fuel p pl r x hp hr hx
  simp only [dot_vadd, dot_vsmul, H.h31, H.h32, Int.mul_zero, Int.add_zero]
  have := Int.mul_nonneg (Int.natCast_nonneg n3) (Int.le_of_lt H.h33)
  omega

theorem cone_pairwise (F : Nat) : ∀ (fuel : Nat) (p : V), (cone q M d1 d2 d3 F fuel p).flatten.flatten.Pairwise (Lex w1 w2 w3)
  | 0, p => by simp [cone]
  | fuel + 1, p => by
    simp only [cone, List.flatten_cons, List.flatten_append, List.pairwise_append]
    refine ⟨plane_pairwise H q M F F p, ?_, fun a ha b hb => ?_⟩
    · split
      · exact cone_pairwise F fuel _
      · simp
    · split at hb
      · obtain ⟨r, hr, har⟩ := List.mem_flatten.1 ha
        obtain ⟨a3, _⟩ := plane_coords H q M F F p r a hr har
        obtain ⟨r', hr', hbr⟩ := List.mem_flatten.1 hb
        obtain ⟨pl, hpl, hrpl⟩ := List.mem_flatten.1 hr'
        have b3 := cone_coords H q M F fuel _ pl r' b hpl hrpl hbr
        rw [dot_vadd] at b3
        refine Or.inl ?_
        have := H.h33
        omega
      · simp at hb

end loops

/-- the functionals: `det D` times the rows of the adjugate of `D` -/
theorem reads_of_det (sg : Segment) (hd : det sg ≠ 0) :
    Reads (vsmul (det sg) (cross sg.d2 sg.d3)) (vsmul (det sg) (cross sg.d3 sg.d1)) (vsmul (det sg) (cross sg.d1 sg.d2))
      sg.d1 sg.d2 sg.d3 := by
  have hpos : 0 < det sg * det sg := by
    rcases Int.lt_or_gt_of_ne hd with h | h
    · exact Int.mul_pos_of_neg_of_neg h h
    · exact Int.mul_pos h h
  obtain ⟨s, ⟨a1, a2, a3⟩, ⟨b1, b2, b3⟩, ⟨c1, c2, c3⟩⟩ := sg
  simp only [det, dot, cross, vsmul] at hpos ⊢
  refine ⟨?_, ?_, ?_, ?_, ?_, ?_⟩ <;> simp only [dot]
  · refine lt_of_lt_of_eq hpos ?_; ring
  · ring
  · refine lt_of_lt_of_eq hpos ?_; ring
  · ring
  · ring
  · refine lt_of_lt_of_eq hpos ?_; ring

/-- the loops of one segment with non-singular direction matrix visit no point twice -/
theorem visitSeg_nodup (q : V → Rat) (M : Rat) (F : Nat) (sg : Segment) (hd : det sg ≠ 0) : (visitSeg q M F sg).Nodup := by
  have h := cone_pairwise (reads_of_det sg hd) q M F F sg.s
  exact h.imp Lex.ne

/-- no point is visited twice, over all segments: non-singular direction matrices and disjoint cones -/
theorem visited_nodup (x : Input) (segs : List Segment) (hdet : ∀ sg ∈ segs, det sg ≠ 0) (hdis : SegsDisjoint segs) :
    (visited x segs).Nodup := by
  unfold visited
  rw [List.nodup_flatten]
  refine ⟨fun l hl => ?_, ?_⟩
  · obtain ⟨sg, hsg, rfl⟩ := List.mem_map.1 hl
    exact visitSeg_nodup _ _ _ sg (hdet sg hsg)
  · rw [List.pairwise_map]
    refine hdis.imp ?_
    intro a b hab y hya hyb
    exact hab y.1 y.2.1 y.2.2 (inSeg_of_visited _ _ _ a y hya) (inSeg_of_visited _ _ _ b y hyb)

/-- the rows of `genhkl_unique` have no repetition -/
theorem unique_rows_nodup (x : Input) (segs : List Segment) (hdet : ∀ sg ∈ segs, det sg ≠ 0) (hdis : SegsDisjoint segs) :
    ((genhklUnique x segs).map (·.1)).Nodup := by
  have hp : ((genhklUnique x segs).map (·.1)).Perm ((baseRows x segs).map (·.1)) := (List.mergeSort_perm _ _).map _
  rw [hp.nodup_iff]
  unfold baseRows
  rw [emit_eq, List.map_map]
  have : ((fun (p : V × Rat) => p.1) ∘ fun p => (p, x.G.q p)) = id := by funext p; rfl
  rw [this, List.map_id]
  exact ((visited_nodup x segs hdet hdis).sublist (List.tail_sublist _)).sublist List.filter_sublist

/-- every direction matrix of the rule table is non-singular (Boolean form, to be decided on the generated rules) -/
def detOkB (rules : List SegRule) : Bool := rules.all fun r => r.segs.all fun sg => det sg != 0

theorem segmentsFor_mem (rules : List SegRule) (L C : String) (segs : List Segment)
    (h : segmentsFor rules L C = some segs) : ∃ r ∈ rules, r.segs = segs := by
  unfold segmentsFor at h
  have key : ∀ (rs : List SegRule) (acc : Option (List Segment)),
      rs.foldl (fun acc r => if ruleMatches r.laue r.cc L C then some r.segs else acc) acc = some segs →
      acc = some segs ∨ ∃ r ∈ rs, r.segs = segs := by
    intro rs
    induction rs with
    | nil => intro acc h; exact Or.inl h
    | cons r rs ih =>
      intro acc h
      rw [List.foldl_cons] at h
      rcases ih _ h with h' | ⟨r', hr', e⟩
      · split at h'
        · exact Or.inr ⟨r, List.mem_cons_self, by cases h'; rfl⟩
        · exact Or.inl h'
      · exact Or.inr ⟨r', List.mem_cons_of_mem _ hr', e⟩
  rcases key rules none h with h' | h'
  · cases h'
  · exact h'

theorem det_ne_of_detOk {rules : List SegRule} (hok : detOkB rules = true) {L C : String} {segs : List Segment}
    (h : segmentsFor rules L C = some segs) : ∀ sg ∈ segs, det sg ≠ 0 := by
  obtain ⟨r, hr, rfl⟩ := segmentsFor_mem rules L C segs h
  simp only [detOkB, List.all_eq_true, bne_iff_ne] at hok
  exact hok r hr

end T54
