/-
Core-only hand model (M3) of `xfab.structure.build_atomlist`: `remove_esd`, `CIFopen` (choice of the data
block), `CIFread` (parsed CIF block ↦ cell / sgname / dispersion / atoms) and `PDBread` (fixed-column parser).

What is modelled and what is a parameter
* A CIF file is what PyCifRW hands over: a list of blocks `(name, block)`, a block being a finite map
  `data name ↦ string | list of strings` (`Val.str` for an item outside a loop, `Val.loop` for a loop column).
  PyCifRW's grammar is outside the model.  PyCifRW stores block names and data names lower-cased and looks
  them up case-insensitively, so the model uses the lower-cased spelling of every data name.
* Numbers stay decimal STRINGS.  `float(s)` is modelled by `isFloat s` (does `float` accept it?) and the value is
  the string itself: wherever the result type has a `String` for a number, the Python value is `float` of it.
  The accepted grammar is Python's decimal float literal (optional surrounding white space, sign, digits with an
  optional '.', optional exponent); `inf`/`nan`/underscore literals are rejected by the model (not generated).
* `B → U`: the model returns the token and the flag `b = true` meaning "divided by 8π²".
* PDB: `pos = scalemat · [x, y, z, 1]` is returned symbolically (`Pos.scaled` = the 3×4 matrix of tokens and the
  three coordinate tokens).
* The computed site multiplicity is the parameter `mult : Pos → String → Nat`; `Multi.computed p sg n` records the
  arguments it was called with and its value `n = mult p sg`.
* Characters: ASCII white space / ASCII case mapping (Python uses the Unicode tables).
-/

namespace CifPdb

/-! ## characters, raw strings -/

/-- `\s` of `re.sub("\s+", "", ·)` and the separators of `str.split()` (ASCII part) -/
def isWs (c : Char) : Bool :=
  let n := c.toNat            -- blank, \t, \n, \r, \x0b, \x0c (compared as code points: cheap in the kernel)
  n == 32 || n == 9 || n == 10 || n == 13 || n == 11 || n == 12

def removeWsL (l : List Char) : List Char := l.filter (fun c => !isWs c)

/-- `re.sub("\s+", "", s)` -/
def removeWs (s : String) : String := String.ofList (removeWsL s.toList)

def stripL (l : List Char) : List Char := ((l.dropWhile isWs).reverse.dropWhile isWs).reverse

def splitWsAux : List Char → List Char → List (List Char)
  | [], cur => if cur.isEmpty then [] else [cur.reverse]
  | c :: cs, cur =>
    if isWs c then (if cur.isEmpty then splitWsAux cs [] else cur.reverse :: splitWsAux cs [])
    else splitWsAux cs (c :: cur)

/-- `s.split()` -/
def splitWsL (l : List Char) : List (List Char) := splitWsAux l []

def splitWs (s : String) : List String := (splitWsL s.toList).map String.ofList

/-- ASCII `A`–`Z` ↦ `a`–`z` (= `Char.toLower`, written on code points: cheap in the kernel) -/
def lowerC (c : Char) : Char :=
  let n := c.toNat
  if 65 ≤ n && n ≤ 90 then Char.ofNat (n + 32) else c

/-- ASCII `a`–`z` ↦ `A`–`Z` (= `Char.toUpper`) -/
def upperC (c : Char) : Char :=
  let n := c.toNat
  if 97 ≤ n && n ≤ 122 then Char.ofNat (n - 32) else c

def lowerL (l : List Char) : List Char := l.map lowerC
def upperL (l : List Char) : List Char := l.map upperC
def lower (s : String) : String := String.ofList (lowerL s.toList)
def upper (s : String) : String := String.ofList (upperL s.toList)

/-- Python slice `l[i:j]` for `0 ≤ i ≤ j` -/
def sliceL (l : List Char) (i j : Nat) : List Char := (l.drop i).take (j - i)
def slice (s : String) (i j : Nat) : String := String.ofList (sliceL s.toList i j)

/-- `a.find(c)`; `none` is Python's `-1` -/
def findChar (c : Char) : List Char → Option Nat
  | [] => none
  | x :: xs => if x == c then some 0 else (findChar c xs).map (· + 1)

/-- `s.find(p) == 0` -/
def startsWith (s p : String) : Bool := p.toList.isPrefixOf s.toList

/-- `s.index(p)` for strings (first position of the substring) -/
def subIndexL (p : List Char) : List Char → Option Nat
  | [] => if p.isEmpty then some 0 else none
  | x :: xs => if p.isPrefixOf (x :: xs) then some 0 else (subIndexL p xs).map (· + 1)

/-! ## `float(·)` on decimal strings -/

def dropSign : List Char → List Char
  | '+' :: r => r
  | '-' :: r => r
  | l => l

/-- `[+-]? (digits [. digits?] | . digits) ([eE] [+-]? digits)?` -/
def isFloatBody (l : List Char) : Bool :=
  let l := dropSign l
  let ip := l.takeWhile Char.isDigit
  let r := l.dropWhile Char.isDigit
  let fp := match r with
    | '.' :: r' => r'.takeWhile Char.isDigit
    | _ => []
  let r := match r with
    | '.' :: r' => r'.dropWhile Char.isDigit
    | _ => r
  (!ip.isEmpty || !fp.isEmpty) &&
  match r with
  | [] => true
  | e :: r' => (e == 'e' || e == 'E') && (let d := dropSign r'; !d.isEmpty && d.all Char.isDigit)

/-- does Python's `float` accept the string (white space around the literal is allowed) -/
def isFloat (s : String) : Bool := isFloatBody (stripL s.toList)

inductive Err
  | keyError | valueError | indexError | typeError | attributeError | unboundLocalError | exception | ioError
  deriving DecidableEq, Repr

def Err.name : Err → String
  | .keyError => "KeyError" | .valueError => "ValueError" | .indexError => "IndexError"
  | .typeError => "TypeError" | .attributeError => "AttributeError"
  | .unboundLocalError => "UnboundLocalError" | .exception => "Exception" | .ioError => "IOError"

/-- `float(s)`: the value is denoted by the string itself -/
def pyFloat (s : String) : Except Err String :=
  if isFloat s then .ok s else .error .valueError

/-! ## `remove_esd` -/

/-- the part of `a` that `remove_esd` passes to `float`: `a` if `a.find('(') == -1`, else `a[:a.find('(')]` -/
def esdCut (a : String) : String :=
  match findChar '(' a.toList with
  | none => a
  | some i => String.ofList (a.toList.take i)

/-- `build_atomlist.remove_esd` -/
def removeEsd (a : String) : Except Err String := pyFloat (esdCut a)

/-! ## parsed CIF blocks -/

inductive Val
  | str (s : String)
  | loop (l : List String)
  deriving DecidableEq, Repr

abbrev Block := List (String × Val)

/-- the Python sequence behind `v[i]` / `len(v)`: a string is the sequence of its one-character strings -/
def Val.items : Val → List String
  | .str s => s.toList.map String.singleton
  | .loop l => l

def Val.len (v : Val) : Nat := v.items.length

/-- `v[i]` -/
def Val.get (v : Val) (i : Nat) : Except Err String :=
  match v.items[i]? with
  | some s => .ok s
  | none => .error .indexError

/-- `cifblk[tag]` -/
def Block.get (b : Block) (tag : String) : Except Err Val :=
  match b.lookup tag with
  | some v => .ok v
  | none => .error .keyError

def Block.has (b : Block) (tag : String) : Bool := (b.lookup tag).isSome

/-- `remove_esd(cifblk[tag])` -/
def cifScalar (b : Block) (tag : String) : Except Err String := do
  match (← b.get tag) with
  | .str s => removeEsd s
  | .loop _ => .error .attributeError          -- 'list' object has no attribute 'find'

/-- `cifblk[tag][i]` -/
def cifItem (b : Block) (tag : String) (i : Nat) : Except Err String := do
  (← b.get tag).get i

/-- `remove_esd(cifblk[tag][i])` -/
def cifNum (b : Block) (tag : String) (i : Nat) : Except Err String := do
  removeEsd (← cifItem b tag i)

/-! ## result type (mirrors `atomlist`) -/

inductive Pos
  /-- CIF: `[x, y, z]` -/
  | frac (x y z : String)
  /-- PDB: `numpy.dot(scalemat, [x, y, z, 1])`, `scalemat` 3×4 row-major -/
  | scaled (m : List (List String)) (x y z : String)
  deriving DecidableEq, Repr

inductive Adp
  /-- `adp = 0.0` (no adp type) -/
  | zero
  /-- scalar; `b = true`: the token is a B value, `adp = float(tok)/(8π²)` -/
  | iso (tok : String) (b : Bool)
  /-- six values in the order 11, 22, 33, 23, 13, 12 -/
  | ani (toks : List String) (b : Bool)
  deriving DecidableEq, Repr

inductive Occ
  | tok (s : String)
  /-- `occ = 1.0` -/
  | default
  deriving DecidableEq, Repr

inductive Multi
  /-- the file's value -/
  | tok (s : String)
  /-- `multiplicity(pos, sgname)`; `n = mult pos sgname` -/
  | computed (p : Pos) (sg : String) (n : Nat)
  deriving DecidableEq, Repr

structure Atom where
  label : String
  atomtype : String
  pos : Pos
  adpType : Option String
  adp : Adp
  occ : Occ
  multi : Multi
  deriving DecidableEq, Repr

abbrev Disp := List (String × Option (String × String))

structure AtomList where
  cell : List String
  sgname : String
  dispersion : Disp
  atoms : List Atom
  deriving DecidableEq, Repr

/-- `d[k] = v` on an insertion-ordered dict -/
def dictSet {β : Type} (d : List (String × β)) (k : String) (v : β) : List (String × β) :=
  if d.any (fun e => e.1 == k) then d.map (fun e => if e.1 == k then (k, v) else e) else d ++ [(k, v)]

/-! ## `CIFread` -/

def cifCell (b : Block) : Except Err (List String) := do
  let a ← cifScalar b "_cell_length_a"
  let b' ← cifScalar b "_cell_length_b"
  let c ← cifScalar b "_cell_length_c"
  let al ← cifScalar b "_cell_angle_alpha"
  let be ← cifScalar b "_cell_angle_beta"
  let ga ← cifScalar b "_cell_angle_gamma"
  pure [a, b', c, al, be, ga]

/-- `sub("\s+", "", cifblk['_symmetry_space_group_name_H-M'])` -/
def cifSgname (b : Block) : Except Err String := do
  match (← b.get "_symmetry_space_group_name_h-m") with
  | .str s => pure (removeWs s)
  | .loop _ => .error .typeError

/-- the `try: [remove_esd(real[i]), remove_esd(imag[i])] except: None` of the dispersion loop -/
def dispEntry (b : Block) (i : Nat) : Option (String × String) :=
  match (do
      let re ← cifNum b "_atom_type_scat_dispersion_real" i
      let im ← cifNum b "_atom_type_scat_dispersion_imag" i
      pure (re, im) : Except Err (String × String)) with
  | .ok p => some p
  | .error _ => none

def cifDispersion (b : Block) : Except Err Disp :=
  match b.lookup "_atom_type_symbol" with
  | some syms => pure (syms.items.zipIdx.foldl (fun d (si : String × Nat) => dictSet d (upper si.1) (dispEntry b si.2)) [])
  | none => do
    let st ← b.get "_atom_site_type_symbol"
    pure (st.items.foldl (fun d s => dictSet d (upper s) none) [])

/-- `try: adp_type = cifblk['_atom_site_adp_type'][i] except: adp_type = None` -/
def cifAdpType (b : Block) (i : Nat) : Option String :=
  match cifItem b "_atom_site_adp_type" i with
  | .ok s => some s
  | .error _ => none

/-- `try: occ = remove_esd(cifblk['_atom_site_occupancy'][i]) except: occ = 1.0` -/
def cifOcc (b : Block) (i : Nat) : Occ :=
  match cifNum b "_atom_site_occupancy" i with
  | .ok s => .tok s
  | .error _ => .default

/-- multiplicity: `_atom_site_symmetry_multiplicity`, else `_atom_site_symetry_multiplicity` (old SHELXL),
    else computed -/
def cifMulti (mult : Pos → String → Nat) (b : Block) (sg : String) (i : Nat) (x y z : String) : Except Err Multi :=
  if b.has "_atom_site_symmetry_multiplicity" then do
    pure (.tok (← cifNum b "_atom_site_symmetry_multiplicity" i))
  else if b.has "_atom_site_symetry_multiplicity" then do
    pure (.tok (← cifNum b "_atom_site_symetry_multiplicity" i))
  else
    pure (.computed (.frac x y z) sg (mult (.frac x y z) sg))

/-- `cifblk['_atom_site_aniso_label'].index(label)` -/
def anisoIndex (b : Block) (label : String) : Except Err Nat := do
  match (← b.get "_atom_site_aniso_label") with
  | .loop l => match l.idxOf? label with
    | some k => pure k
    | none => .error .valueError
  | .str s => match subIndexL label.toList s.toList with
    | some k => pure k
    | none => .error .valueError

/-- the six aniso values in the order 11, 22, 33, 23, 13, 12; `p` is `"_atom_site_aniso_u_"` or `"_atom_site_aniso_b_"` -/
def cifAniso (b : Block) (p : String) (k : Nat) : Except Err (List String) := do
  let a11 ← cifNum b (p ++ "11") k
  let a22 ← cifNum b (p ++ "22") k
  let a33 ← cifNum b (p ++ "33") k
  let a23 ← cifNum b (p ++ "23") k
  let a13 ← cifNum b (p ++ "13") k
  let a12 ← cifNum b (p ++ "12") k
  pure [a11, a22, a33, a23, a13, a12]

/-- the `if adp_type == None … elif 'Biso' … 'Bani' … 'Uiso' … 'Uani'` chain; returns the stored adp_type and adp.
    With any other adp_type Python keeps the `adp` of the previous atom (`prev`), or raises UnboundLocalError. -/
def cifAdp (b : Block) (i : Nat) (label : String) (ty : Option String) (prev : Option Adp) :
    Except Err (Option String × Adp) :=
  match ty with
  | none => pure (none, .zero)
  | some t =>
    if t = "Biso" then do
      pure (some "Uiso", .iso (← cifNum b "_atom_site_b_iso_or_equiv" i) true)
    else if t = "Bani" then do
      let k ← anisoIndex b label
      pure (some "Uani", .ani (← cifAniso b "_atom_site_aniso_b_" k) true)
    else if t = "Uiso" then do
      pure (some "Uiso", .iso (← cifNum b "_atom_site_u_iso_or_equiv" i) false)
    else if t = "Uani" then do
      let k ← anisoIndex b label
      pure (some "Uani", .ani (← cifAniso b "_atom_site_aniso_u_" k) false)
    else match prev with
      | some a => pure (some t, a)
      | none => .error .unboundLocalError

/-- body of the atom loop for index `i` -/
def cifAtom (mult : Pos → String → Nat) (b : Block) (sg : String) (i : Nat) (prev : Option Adp) : Except Err Atom := do
  let label ← cifItem b "_atom_site_label" i
  let ty ← cifItem b "_atom_site_type_symbol" i
  let x ← cifNum b "_atom_site_fract_x" i
  let y ← cifNum b "_atom_site_fract_y" i
  let z ← cifNum b "_atom_site_fract_z" i
  let adpType := cifAdpType b i
  let occ := cifOcc b i
  let multi ← cifMulti mult b sg i x y z
  let ta ← cifAdp b i label adpType prev
  pure { label := label, atomtype := upper ty, pos := .frac x y z, adpType := ta.1, adp := ta.2, occ := occ, multi := multi }

/-- atoms `n - k, …, n - 1` (`k` = number of iterations left) -/
def cifAtomsFrom (mult : Pos → String → Nat) (b : Block) (sg : String) (n : Nat) :
    Nat → Option Adp → Except Err (List Atom)
  | 0, _ => pure []
  | k + 1, prev => do
    let a ← cifAtom mult b sg (n - (k + 1)) prev
    let rest ← cifAtomsFrom mult b sg n k (some a.adp)
    pure (a :: rest)

/-- `build_atomlist.CIFread(cifblk = b)` on a fresh `build_atomlist` -/
def cifread (mult : Pos → String → Nat) (b : Block) : Except Err AtomList := do
  let cell ← cifCell b
  let sg ← cifSgname b
  let disp ← cifDispersion b
  let n := (← b.get "_atom_site_type_symbol").len
  let atoms ← cifAtomsFrom mult b sg n n none
  pure { cell := cell, sgname := sg, dispersion := disp, atoms := atoms }

/-! ## `CIFopen`: choice of the data block -/

/-- `blocks.index('global')` when present -/
def chooseBlock (blocks : List String) (name : Option String) : Except Err String :=
  match name with
  | some nm => pure nm
  | none =>
    if blocks.length > 1 then
      if blocks.length == 2 && blocks.contains "global" then
        -- blocks[abs(blocks.index('global') - 1)]
        match blocks with
        | [b0, b1] => if b0 == "global" then pure b1 else pure b0
        | _ => .error .exception
      else .error .exception
    else match blocks with
      | b0 :: _ => pure b0
      | [] => .error .indexError

/-- `CIFopen(ciffile, cifblkname)`; `file` = blocks in file order with lower-cased names -/
def cifopen (file : List (String × Block)) (name : Option String) : Except Err Block := do
  let nm ← chooseBlock (file.map Prod.fst) name
  match file.lookup nm with
  | some b => pure b
  | none => .error .ioError

/-- `CIFread(ciffile, cifblkname)` -/
def cifreadFile (mult : Pos → String → Nat) (file : List (String × Block)) (name : Option String) : Except Err AtomList := do
  cifread mult (← cifopen file name)

/-! ## `PDBread` -/

/-- the seven fields of one CRYST1 record -/
def pdbCryst1 (line : String) : Except Err (List String × String) := do
  let a ← pyFloat (slice line 6 15)
  let b ← pyFloat (slice line 15 24)
  let c ← pyFloat (slice line 24 33)
  let al ← pyFloat (slice line 33 40)
  let be ← pyFloat (slice line 40 47)
  let ga ← pyFloat (slice line 47 54)
  pure ([a, b, c, al, be, ga], slice line 55 66)

/-- first loop: the last CRYST1 record wins -/
def pdbCrystLoop : List String → Option (List String × String) → Except Err (Option (List String × String))
  | [], st => pure st
  | l :: ls, st =>
    if startsWith l "CRYST1" then do
      let r ← pdbCryst1 l
      pdbCrystLoop ls (some r)
    else pdbCrystLoop ls st

/-- symbol normalisation: the full concatenation lower-cased if it is a key of `sgdic`, else without the tokens `'1'` -/
def pdbSymbol (keys : List String) (field : String) : String :=
  let toks := splitWsL field.toList
  let full := String.ofList (lowerL toks.flatten)
  if keys.contains full then full
  else String.ofList (lowerL (toks.filter (fun t => t != ['1'])).flatten)

def zeroScale : List (List String) := List.replicate 3 (List.replicate 4 "0.0")

/-- `scalemat[r, c] = v` with numpy's bounds check (`r` already non-negative) -/
def scaleSet (m : List (List String)) (r c : Nat) (v : String) : Except Err (List (List String)) :=
  if r < 3 && c < 4 then pure (m.set r ((m.getD r []).set c v)) else .error .indexError

/-- `int(scale[0][-1]) - 1` as a numpy row index of a 3-row array (`-1` is the last row) -/
def scaleRow (tok0 : List Char) : Except Err Nat :=
  match tok0.getLast? with
  | none => .error .indexError
  | some d =>
    if d.isDigit then
      let v := d.toNat - '0'.toNat
      if v == 0 then pure 2 else pure (v - 1)     -- rows ≥ 3 fail in `scaleSet`
    else .error .valueError

def scaleCols (m : List (List String)) (r : Nat) : List String → Nat → Except Err (List (List String))
  | [], _ => pure m
  | t :: ts, c => do
    let v ← pyFloat t
    let m' ← scaleSet m r c v
    scaleCols m' r ts (c + 1)

/-- one SCALEn record -/
def pdbScaleLine (m : List (List String)) (line : String) : Except Err (List (List String)) :=
  match splitWsL line.toList with
  | [] => .error .indexError
  | t0 :: ts =>
    match scaleRow t0 with
    | .error e => .error e
    | .ok r =>
      -- with no value tokens nothing is assigned, so a bad row index goes unnoticed
      scaleCols m r (ts.map String.ofList) 0

def pdbScaleLoop : List String → List (List String) → Except Err (List (List String))
  | [], m => pure m
  | l :: ls, m =>
    if startsWith l "SCALE" then do
      let m' ← pdbScaleLine m l
      pdbScaleLoop ls m'
    else pdbScaleLoop ls m

/-- the raw fixed-column fields of an ATOM/HETATM record:
    label `[12:16]`, element `[76:78]`, x `[30:38]`, y `[38:46]`, z `[46:54]`, occupancy `[54:60]`, B `[60:66]` -/
structure PdbFields where
  label : String
  element : String
  x : String
  y : String
  z : String
  occ : String
  b : String
  deriving DecidableEq, Repr

def pdbAtomFields (line : String) : PdbFields :=
  { label := slice line 12 16, element := slice line 76 78, x := slice line 30 38, y := slice line 38 46,
    z := slice line 46 54, occ := slice line 54 60, b := slice line 60 66 }

def isAtomLine (l : String) : Bool := startsWith l "ATOM" || startsWith l "HETATM"

def pdbAtom (keys : List String) (mult : Pos → String → Nat) (sg : String) (m : List (List String)) (line : String) :
    Except Err Atom := do
  let f := pdbAtomFields line
  let x ← pyFloat f.x
  let y ← pyFloat f.y
  let z ← pyFloat f.z
  let b ← pyFloat f.b
  let occ ← pyFloat f.occ
  -- multiplicity(pos, sgname) looks the symbol up in sgdic
  if keys.contains sg then
    pure { label := removeWs f.label, atomtype := upper (removeWs f.element), pos := .scaled m x y z,
           adpType := some "Uiso", adp := .iso b true, occ := .tok occ,
           multi := .computed (.scaled m x y z) sg (mult (.scaled m x y z) sg) }
  else .error .keyError

def pdbAtomLoop (keys : List String) (mult : Pos → String → Nat) (sg : String) (m : List (List String)) :
    List String → Except Err (List Atom)
  | [] => pure []
  | l :: ls =>
    if isAtomLine l then do
      let a ← pdbAtom keys mult sg m l
      let rest ← pdbAtomLoop keys mult sg m ls
      pure (a :: rest)
    else pdbAtomLoop keys mult sg m ls

/-- `build_atomlist.PDBread` on the lines of the file (`readlines()`, line ends included);
    `keys` = the keys of `sg.sgdic` -/
def pdbread (keys : List String) (mult : Pos → String → Nat) (lines : List String) : Except Err AtomList := do
  match (← pdbCrystLoop lines none) with
  | none => .error .unboundLocalError
  | some (cell, field) =>
    let sg := pdbSymbol keys field
    let m ← pdbScaleLoop lines zeroScale
    let atoms ← pdbAtomLoop keys mult sg m lines
    pure { cell := cell, sgname := sg,
           dispersion := atoms.foldl (fun d a => dictSet d a.atomtype none) [],
           atoms := atoms }

/-! ## a formatter in the strict column layout (used by `pdb_roundtrip`) -/

/-- right-justify in a field of width `w` (no truncation, like `%8.3f`) -/
def padLeft (w : Nat) (l : List Char) : List Char := List.replicate (w - l.length) ' ' ++ l
def padRight (w : Nat) (l : List Char) : List Char := l ++ List.replicate (w - l.length) ' '

/-- an ATOM record: serial 1, residue `UNK A 1`; `name` is the 4-column atom name field, `x y z` the `%8.3f`,
    `occ b` the `%6.2f` decimal strings, `el` the element (right-justified in columns 77–78) -/
def fmtHead : List Char := "ATOM      1 ".toList          -- columns 1-12
def fmtMid : List Char := " UNK A   1    ".toList         -- columns 17-30
def fmtGap : List Char := List.replicate 10 ' '            -- columns 67-76
def fmtTail : List Char := "  \n".toList                   -- columns 79-80 and the line end

def formatAtomL (name x y z occ b el : List Char) : List Char :=
  fmtHead ++ padRight 4 name ++ fmtMid ++ padLeft 8 x ++ padLeft 8 y ++ padLeft 8 z
    ++ padLeft 6 occ ++ padLeft 6 b ++ fmtGap ++ padLeft 2 el ++ fmtTail

def formatAtom (name x y z occ b el : String) : String :=
  String.ofList (formatAtomL name.toList x.toList y.toList z.toList occ.toList b.toList el.toList)

end CifPdb
