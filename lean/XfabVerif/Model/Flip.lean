/-
Hand model (core Lean only) of the image re-orientation functions of xfab/detector.py

    trans_orientation(img, o11, o12, o21, o22, flipdir='forward')
    image_flipping   (img, o11, o12, o21, o22, flipdir='forward')

and of the orientation test + integer arithmetic of

    xy_to_detyz(coor, o11, o12, o21, o22, dety_size, detz_size)
    detyz_to_xy(coor, o11, o12, o21, o22, dety_size, detz_size)

An image is a 2-D numpy array `img` with `img.shape = (nx, ny)`, modelled as its shape and its index function
`px i j = img[i, j]`; only `i < nx`, `j < ny` are meaningful (`Img.Eqv` compares exactly those).  The three
numpy primitives are index maps:

    numpy.transpose(a)[i, j] = a[j, i]                 shape (ny, nx)
    numpy.fliplr(a)[i, j]    = a[i, ny - 1 - j]        (reverses axis 1)
    numpy.flipud(a)[i, j]    = a[nx - 1 - i, j]        (reverses axis 0)

The same definitions are executable: `Img.ofList` / `Img.toList` convert from and to the row-major value list
used by lean/FlipDriver.lean, which is compared with numpy on every run (harness/props/c11.py).

`Except Nat` models `raise ValueError('detector orientation makes no sense <site>')`: the Python has three
raise sites per function, the model keeps the site number.
-/

namespace Flip

structure Img (α : Type) where
  nx : Nat                 -- img.shape[0]
  ny : Nat                 -- img.shape[1]
  px : Nat → Nat → α       -- img[i, j]

namespace Img
variable {α : Type}

/-- numpy.transpose -/
def transpose (a : Img α) : Img α := ⟨a.ny, a.nx, fun i j => a.px j i⟩
/-- numpy.fliplr: reverse the second axis -/
def fliplr (a : Img α) : Img α := ⟨a.nx, a.ny, fun i j => a.px i (a.ny - 1 - j)⟩
/-- numpy.flipud: reverse the first axis -/
def flipud (a : Img α) : Img α := ⟨a.nx, a.ny, fun i j => a.px (a.nx - 1 - i) j⟩

/-- equality of arrays: same shape, same value at every in-range index -/
def Eqv (a b : Img α) : Prop :=
  a.nx = b.nx ∧ a.ny = b.ny ∧ ∀ i j, i < a.nx → j < a.ny → a.px i j = b.px i j

/-- row-major list of the values, `img.ravel()` -/
def toList (a : Img α) : List α :=
  (List.range a.nx).flatMap fun i => (List.range a.ny).map fun j => a.px i j

/-- `numpy.array(vals).reshape(nx, ny)`; out-of-range indices read `dflt` (never looked at) -/
def ofList (nx ny : Nat) (vals : List α) (dflt : α) : Img α :=
  let arr := vals.toArray
  ⟨nx, ny, fun i j => arr.getD (i * ny + j) dflt⟩

end Img

/-- `flipdir`: the Python tests `flipdir == 'forward'`, every other value takes the `else` (= inverse) branch -/
inductive Dir where
  | forward
  | inverse
  deriving Repr, DecidableEq

def Dir.ofString (s : String) : Dir := if s = "forward" then .forward else .inverse

variable {α : Type}

/-- detector.trans_orientation, statement by statement -/
def transOrientation (img : Img α) (o11 o12 o21 o22 : Int) (flipdir : Dir) : Except Nat (Img α) :=
  if o11.natAbs = 1 then
    if o22.natAbs ≠ 1 ∨ o12 ≠ 0 ∨ o21 ≠ 0 then
      .error 1                                   -- raise ValueError('... makes no sense 1')
    else
      let img := img.transpose                   -- img = n.transpose(img)
      let img :=
        if o11 = -1 then
          (match flipdir with
           | .forward => img.fliplr
           | .inverse => img.flipud)
        else img
      let img :=
        if o22 = -1 then
          (match flipdir with
           | .forward => img.flipud
           | .inverse => img.fliplr)
        else img
      .ok img
  else if o12.natAbs = 1 then
    if o21.natAbs ≠ 1 ∨ o11 ≠ 0 ∨ o22 ≠ 0 then
      .error 2                                   -- raise ValueError('... makes no sense 2')
    else
      let img := if o12 = -1 then img.fliplr else img
      let img := if o21 = -1 then img.flipud else img
      .ok img
  else
    .error 3                                     -- raise ValueError('... makes no sense 3')

/-- detector.image_flipping, statement by statement -/
def imageFlipping (img : Img α) (o11 o12 o21 o22 : Int) (flipdir : Dir) : Except Nat (Img α) :=
  if o11.natAbs = 1 then
    if o22.natAbs ≠ 1 ∨ o12 ≠ 0 ∨ o21 ≠ 0 then
      .error 1
    else
      let img := if o11 = -1 then img.flipud else img
      let img := if o22 = -1 then img.fliplr else img
      .ok img
  else if o12.natAbs = 1 then
    if o21.natAbs ≠ 1 ∨ o11 ≠ 0 ∨ o22 ≠ 0 then
      .error 2
    else
      let img := img.transpose
      let img :=
        if o12 = -1 then
          (match flipdir with
           | .forward => img.flipud
           | .inverse => img.fliplr)
        else img
      let img :=
        if o21 = -1 then
          (match flipdir with
           | .forward => img.fliplr
           | .inverse => img.flipud)
        else img
      .ok img
  else
    .error 3

/-- the orientation test at the head of xy_to_detyz and detyz_to_xy (`if / elif / else`) -/
def coorCheck (o11 o12 o21 o22 : Int) : Except Nat Unit :=
  if o11.natAbs = 1 then
    if o22.natAbs ≠ 1 ∨ o12 ≠ 0 ∨ o21 ≠ 0 then .error 1 else .ok ()
  else if o12.natAbs = 1 then
    if o21.natAbs ≠ 1 ∨ o11 ≠ 0 ∨ o22 ≠ 0 then .error 2 else .ok ()
  else
    .error 3

/-- numpy.clip(v, lo, hi) = minimum(maximum(v, lo), hi) -/
def clip (v lo hi : Int) : Int := min (max v lo) hi

/-- detector.xy_to_detyz on integer pixel coordinates `(x, y)` and integer sizes: returns `(dety, detz)`.
    omat = [[o11,o12],[o21,o22]]; det_size = [detz_size-1, dety_size-1];
    coor = omat·coor − clip(omat·det_size, −max(det_size), 0); return (coor[1], coor[0]) -/
def xyToDetyz (o11 o12 o21 o22 : Int) (dety_size detz_size : Int) (x y : Int) : Except Nat (Int × Int) :=
  match coorCheck o11 o12 o21 o22 with
  | .error e => .error e
  | .ok () =>
    let s0 := detz_size - 1
    let s1 := dety_size - 1
    let m := max s0 s1
    let c0 := (o11 * x + o12 * y) - clip (o11 * s0 + o12 * s1) (-m) 0
    let c1 := (o21 * x + o22 * y) - clip (o21 * s0 + o22 * s1) (-m) 0
    .ok (c1, c0)

/-- detector.detyz_to_xy on integer `(dety, detz)`: returns `(x, y)`.
    coor = (detz, dety); coor = omat⁻¹ · (coor + clip(omat·det_size, −max(det_size), 0)).
    For an accepted matrix det(omat) = ±1, so omat⁻¹ = det · adj(omat) is an integer matrix
    (numpy.linalg.inv returns exactly that; compared numerically on every run). -/
def detyzToXy (o11 o12 o21 o22 : Int) (dety_size detz_size : Int) (dety detz : Int) : Except Nat (Int × Int) :=
  match coorCheck o11 o12 o21 o22 with
  | .error e => .error e
  | .ok () =>
    let s0 := detz_size - 1
    let s1 := dety_size - 1
    let m := max s0 s1
    let v0 := detz + clip (o11 * s0 + o12 * s1) (-m) 0
    let v1 := dety + clip (o21 * s0 + o22 * s1) (-m) 0
    let det := o11 * o22 - o12 * o21
    let i00 := det * o22
    let i01 := det * (-o12)
    let i10 := det * (-o21)
    let i11 := det * o11
    .ok (i00 * v0 + i01 * v1, i10 * v0 + i11 * v1)

/-- the eight orientation matrices of "3DXRD and TotalCryst Geometry", as (o11, o12, o21, o22) -/
def validOrientations : List (Int × Int × Int × Int) :=
  [(1, 0, 0, 1), (-1, 0, 0, 1), (1, 0, 0, -1), (-1, 0, 0, -1),
   (0, 1, 1, 0), (0, -1, -1, 0), (0, -1, 1, 0), (0, 1, -1, 0)]

def isListed (o11 o12 o21 o22 : Int) : Bool := validOrientations.contains (o11, o12, o21, o22)

def isOk {ε β : Type} : Except ε β → Bool
  | .ok _ => true
  | .error _ => false

end Flip
