/-
Core-only checker for "a space-group NAME describes the operations of the table it resolves to" (property C04, names clause).

A key of `xfab.sg.sgdic` is a Hermann–Mauguin symbol: a lattice letter and one symmetry element per symmetry direction of the
crystal system (International Tables A, 2.2.4).  `harness/gen_names.py` reads every key (tokenisation, directions) and writes, for
each element, a WITNESS: the index of an operation of the exported table, a lattice translation to add to it, and the direction.
The witnesses are untrusted; `rowOk` re-checks every claim in integer arithmetic (translations in 24ths):

* lattice letter: the translations of the operations with rotation part `1` are exactly the centring vectors of the letter;
* rotation `N_k`:  the witness has `det R = 1`, `R` of order exactly `N`, `R d = d`, turns by +360°/N about `d` (sign of
  `det [d, v, R v]`), and `(1/N) Σ_j R^j (t + ℓ)` is `k/N` of the shortest lattice vector along `d` modulo that vector;
* rotoinversion `-N`: `det R = -1`, `-R` of order `N` about `d` (`-1`: `R = -1`);
* reflection `m a b c n d e`: `det R = -1`, `-R` a two-fold about `d`, glide vector `(u + R u)/2` (`u = t + ℓ`) equal to
  `0`, `a/2`, `b/2`, `c/2`, a half face / body diagonal, a quarter diagonal; `e`: two witnesses with two different axial glides;
* the rotation parts of the witnesses GENERATE a group with as many elements as the table has distinct rotation parts
  (the symbol names the whole point group, not a subgroup of it).

`Proofs/C04Names.lean` decides `rowOk` in the kernel for every row of the generated certificate table.
-/
import XfabVerif.Model.SgModel

namespace HM
open Sg

abbrev V3 := Int × Int × Int

structure Elem where
  kind : Nat            -- 0 rotation, 1 rotoinversion, 2 reflection, 3 the place holder `1` (nothing named)
  n : Nat               -- order N
  k : Nat               -- screw numerator
  glide : Nat           -- reflection: 0 m, 1 a, 2 b, 3 c, 4 n, 5 d, 6 e
  d : V3                -- direction
  mden : Nat            -- the shortest lattice vector along d is d / mden
  op : Nat              -- witness operation (index into the table)
  l : V3                -- lattice translation added to it, in 24ths
  op2 : Nat             -- second witness (only for e)
  l2 : V3

structure Row where
  key : String
  lattice : Nat         -- 0 P, 1 A, 2 B, 3 C, 4 I, 5 F, 6 R on hexagonal axes
  elems : List Elem

def mulV (a : Op) (v : V3) : V3 :=
  (a.r11 * v.1 + a.r12 * v.2.1 + a.r13 * v.2.2, a.r21 * v.1 + a.r22 * v.2.1 + a.r23 * v.2.2,
   a.r31 * v.1 + a.r32 * v.2.1 + a.r33 * v.2.2)

def rotOnly (a : Op) : Op := { a with t1 := 0, t2 := 0, t3 := 0 }

def mulR (a b : Op) : Op := rotOnly (comp (rotOnly a) (rotOnly b))

def isId (a : Op) : Bool := rotEq a one

def det (a : Op) : Int :=
  a.r11 * (a.r22 * a.r33 - a.r23 * a.r32) - a.r12 * (a.r21 * a.r33 - a.r23 * a.r31) + a.r13 * (a.r21 * a.r32 - a.r22 * a.r31)

def powR (a : Op) : Nat → Op
  | 0 => rotOnly one
  | j + 1 => mulR (powR a j) a

/-- `R` has order exactly `N` (`N ≤ 6`) -/
def hasOrder (a : Op) (N : Nat) : Bool :=
  decide (0 < N) && isId (powR a N) && (List.range N).all fun j => j == 0 || !isId (powR a j)

def centring : Nat → List V3
  | 0 => [(0, 0, 0)]
  | 1 => [(0, 0, 0), (0, 12, 12)]
  | 2 => [(0, 0, 0), (12, 0, 12)]
  | 3 => [(0, 0, 0), (12, 12, 0)]
  | 4 => [(0, 0, 0), (12, 12, 12)]
  | 5 => [(0, 0, 0), (0, 12, 12), (12, 0, 12), (12, 12, 0)]
  | 6 => [(0, 0, 0), (16, 8, 8), (8, 16, 16)]
  | _ => []

def mod24 (v : V3) : V3 := (v.1 % 24, v.2.1 % 24, v.2.2 % 24)

def veq (a b : V3) : Bool := a.1 == b.1 && a.2.1 == b.2.1 && a.2.2 == b.2.2

/-- `v` (24ths) is a lattice vector of the lattice named by the letter -/
def isLattice (lat : Nat) (v : V3) : Bool := (centring lat).any fun c => veq (mod24 v) c

def latticeOk (lat : Nat) (G : List Op) : Bool :=
  let ts : List V3 := (G.filter isId).map fun a => (a.t1, a.t2, a.t3)
  ts.all (fun t => isLattice lat t) && (centring lat).all (fun c => ts.any fun t => veq t c)

def add3 (a b : V3) : V3 := (a.1 + b.1, a.2.1 + b.2.1, a.2.2 + b.2.2)

def cross (a b : V3) : V3 :=
  (a.2.1 * b.2.2 - a.2.2 * b.2.1, a.2.2 * b.1 - a.1 * b.2.2, a.1 * b.2.1 - a.2.1 * b.1)

def dot3 (a b : V3) : Int := a.1 * b.1 + a.2.1 * b.2.1 + a.2.2 * b.2.2

def isZero (v : V3) : Bool := veq v (0, 0, 0)

/-- first basis vector not parallel to `d` -/
def aux (d : V3) : V3 :=
  if !isZero (cross d (1, 0, 0)) then (1, 0, 0) else if !isZero (cross d (0, 1, 0)) then (0, 1, 0) else (0, 0, 1)

/-- `d / m` is a lattice vector, and no `d / m'` with a larger `m' ∈ {2,3,4,6}` is -/
def shortestAlong (lat : Nat) (d : V3) (m : Nat) : Bool :=
  let frac (q : Nat) : Option V3 :=
    let qi : Int := q
    if (24 * d.1) % qi == 0 && (24 * d.2.1) % qi == 0 && (24 * d.2.2) % qi == 0
    then some ((24 * d.1) / qi, (24 * d.2.1) / qi, (24 * d.2.2) / qi) else none
  let isLat (q : Nat) : Bool := match frac q with | some v => isLattice lat v | none => false
  decide (0 < m) && isLat m && [2, 3, 4, 6].all fun q => decide (q ≤ m) || !isLat q

def sumPow (a : Op) (N : Nat) (u : V3) : V3 :=
  (List.range N).foldl (fun acc j => add3 acc (mulV (powR a j) u)) (0, 0, 0)

def rotationOk (lat : Nat) (G : List Op) (e : Elem) : Bool :=
  let a := getOp G e.op
  let u : V3 := add3 (a.t1, a.t2, a.t3) e.l
  let w := sumPow a e.n u                         -- N · (screw vector), in 24ths
  let N : Int := e.n
  let m : Int := e.mden
  let k : Int := e.k
  let comp1 (wi di : Int) : Bool := di == 0 || (wi * m - 24 * k * di) % (N * 24 * di) == 0
  decide (e.op < G.length) && isLattice lat e.l && !isZero e.d &&
  det a == 1 && hasOrder a e.n && veq (mulV a e.d) e.d &&
  (decide (e.n ≤ 2) || decide (0 < dot3 e.d (cross (aux e.d) (mulV a (aux e.d))))) &&
  shortestAlong lat e.d e.mden && decide (e.k < e.n) &&
  isZero (cross w e.d) &&
  comp1 w.1 e.d.1 && comp1 w.2.1 e.d.2.1 && comp1 w.2.2 e.d.2.2

def rotoinversionOk (G : List Op) (e : Elem) : Bool :=
  let a := getOp G e.op
  let m := negRot a
  decide (e.op < G.length) && det a == -1 &&
  (if e.n == 1 then isId m else hasOrder m e.n && veq (mulV m e.d) e.d && !isZero e.d)

/-- twice the glide vector, in 24ths, of witness `(op, l)` as a reflection perpendicular to `d`; `none` when it is not one -/
def glide2 (lat : Nat) (G : List Op) (d : V3) (op : Nat) (l : V3) : Option V3 :=
  let a := getOp G op
  let m := negRot a
  if decide (op < G.length) && isLattice lat l && !isZero d && det a == -1 && hasOrder m 2 && veq (mulV m d) d then
    let u : V3 := add3 (a.t1, a.t2, a.t3) l
    some (add3 u (mulV a u))
  else none

def axial (g : V3) : Nat :=      -- 1 a/2, 2 b/2, 3 c/2, 0 otherwise
  if veq g (24, 0, 0) then 1 else if veq g (0, 24, 0) then 2 else if veq g (0, 0, 24) then 3 else 0

def nonzeroCount (v : V3) : Nat :=
  (if v.1 == 0 then 0 else 1) + (if v.2.1 == 0 then 0 else 1) + (if v.2.2 == 0 then 0 else 1)

def reflectionOk (lat : Nat) (G : List Op) (e : Elem) : Bool :=
  match glide2 lat G e.d e.op e.l with
  | none => false
  | some g =>
    let unit (x : Int) : Bool := x == 0 || x == 24 || x == -24
    let quarter (x : Int) : Bool := x % 12 == 0
    let oddq (x : Int) : Nat := if x % 24 == 12 then 1 else 0
    match e.glide with
    | 0 => isZero g
    | 1 => axial g == 1
    | 2 => axial g == 2
    | 3 => axial g == 3
    | 4 => unit g.1 && unit g.2.1 && unit g.2.2 && nonzeroCount g == (if nonzeroCount e.d == 1 then 2 else 3)
    | 5 => quarter g.1 && quarter g.2.1 && quarter g.2.2 && decide (2 ≤ oddq g.1 + oddq g.2.1 + oddq g.2.2)
    | 6 => (match glide2 lat G e.d e.op2 e.l2 with
            | none => false
            | some g' => axial g != 0 && axial g' != 0 && axial g != axial g')
    | _ => false

def elemOk (lat : Nat) (G : List Op) (e : Elem) : Bool :=
  match e.kind with
  | 0 => rotationOk lat G e
  | 1 => rotoinversionOk G e
  | 2 => reflectionOk lat G e
  | 3 => true
  | _ => false

def insertKey (ks : List Nat) (k : Nat) : List Nat := if ks.contains k then ks else k :: ks

/-- closure of a set of rotation parts under right multiplication by the generators (`fuel` rounds) -/
def closure (gens : List Op) : Nat → List Op → List Op
  | 0, S => S
  | fuel + 1, S =>
    let S' := S.foldl (fun acc s => gens.foldl (fun acc' g =>
      let p := mulR s g
      if acc'.any (fun x => rotEq x p) then acc' else acc' ++ [p]) acc) S
    if S'.length == S.length then S else closure gens fuel S'

def witnessRots (G : List Op) (es : List Elem) : List Op :=
  es.foldl (fun acc e =>
    if e.kind == 3 then acc
    else
      let acc := acc ++ [rotOnly (getOp G e.op)]
      if e.kind == 2 && e.glide == 6 then acc ++ [rotOnly (getOp G e.op2)] else acc) []

def distinctRots (G : List Op) : Nat :=
  (G.foldl (fun acc a => insertKey acc (rotKey a)) []).length

def rowOk (t : SgTable) (r : Row) : Bool :=
  let G := opsOf t
  latticeOk r.lattice G && r.elems.all (elemOk r.lattice G) &&
  (closure (witnessRots G r.elems) 48 [rotOnly one]).length == distinctRots G

end HM
