/-
Core-only executable model (M3) of the reflection generator of `xfab/tools.py` / `xfab/laue.py`:
`genhkl_base` (traversal exactly as coded), `genhkl_unique`, `genhkl_all`.

Everything is exact: `sin(theta)/lambda` of `h` is `sqrt (Q h) / 2` with the reciprocal quadratic form
`Q h = h G* hᵀ` given by six rationals, so every comparison of the Python code is a comparison of rationals:

  `sintl h <= sintlmax * scale`            ⇔  `Q h ≤ 4 * scale² * max²`      (the stop tests, `M`)
  `sintlmin < sintl h <= sintlmax`         ⇔  `4 * min² < Q h ≤ 4 * max²`    (emission; `sintlmin ≥ 0`)

The model is parametrised by a `Cfg` (the generated `sysabs`, `segm` rules and scale rule of one module), a
space-group table, the form, `min²`, `max²` and a fuel.  The three nested `while` loops are `row` / `plane` / `cone`;
each returns the visited points in visiting order; `fuelOk` says that no loop ran out of fuel (then the lists are
what the real, terminating loops visit).  The `nref` bookkeeping is modelled literally in `emit`
(theorem `emit_eq` in `Proofs/C05.lean`: its only effect is to skip the very first visited point, `000`).

The fourth column of the Python rows is `stl = sqrt(Q)/2`; the model carries `Q` itself (monotone in `stl`).
numpy's `argsort` (quicksort, not stable) leaves the order inside a class of equal `stl` unspecified; the model
uses a stable merge sort, the harness compares as multisets.
`n.unique(..., return_index=True)` on random-weighted sums = removal of repeated rows keeping first occurrences
(for weights that separate distinct rows, i.e. almost surely); in `genhkl_all` the rows of one family then come in
the order of the random sums, the model keeps first-occurrence order, the harness compares as multisets.
-/
import XfabVerif.Gen.Sysabs
import XfabVerif.Gen.Segm
import XfabVerif.Model.SgModel
import XfabVerif.Gen.Sg.All

namespace Hkl

abbrev V := Int × Int × Int

def vadd (a b : V) : V := (a.1 + b.1, a.2.1 + b.2.1, a.2.2 + b.2.2)

def vsmul (n : Int) (a : V) : V := (n * a.1, n * a.2.1, n * a.2.2)

/-- reciprocal metric `G*` as six rationals -/
structure Form where
  g11 : Rat
  g22 : Rat
  g33 : Rat
  g23 : Rat
  g13 : Rat
  g12 : Rat

/-- `Q h = h G* hᵀ = 4 sintl(h)²` -/
def Form.q (G : Form) (v : V) : Rat :=
  let h : Rat := v.1
  let k : Rat := v.2.1
  let l : Rat := v.2.2
  G.g11 * h * h + G.g22 * k * k + G.g33 * l * l + 2 * (G.g23 * k * l + G.g13 * h * l + G.g12 * h * k)

/-- Sylvester's criterion -/
def Form.posDef (G : Form) : Bool :=
  decide (0 < G.g11) && decide (0 < G.g11 * G.g22 - G.g12 * G.g12) &&
  decide (0 < G.g11 * (G.g22 * G.g33 - G.g23 * G.g23) - G.g12 * (G.g12 * G.g33 - G.g23 * G.g13)
            + G.g13 * (G.g12 * G.g23 - G.g22 * G.g13))

/-- what one Python module contributes (generated) -/
structure Cfg where
  sysabs : Int → Int → Int → List Int → String → String → Int
  rules : List SegRule
  scaleDefault : Int × Nat
  scaleRules : List ScaleRule

def toolsCfg : Cfg :=
  { sysabs := Tools.sysabs, rules := Tools.segmRules, scaleDefault := Tools.scaleDefault, scaleRules := Tools.scaleRules }

def laueCfg : Cfg :=
  { sysabs := Laue.sysabs, rules := Laue.segmRules, scaleDefault := Laue.scaleDefault, scaleRules := Laue.scaleRules }

/-- the test `Laue_class == laue [and cell_choice ==/!= c]` -/
def ruleMatches (laue : String) (cc : Option (Bool × String)) (laueClass cellChoice : String) : Bool :=
  laueClass == laue &&
  (match cc with
   | none => true
   | some (true, c) => cellChoice == c
   | some (false, c) => cellChoice != c)

/-- sequential `if`s: the last matching rule wins; `none` = `segm is None` (`return False`) -/
def segmentsFor (rules : List SegRule) (laueClass cellChoice : String) : Option (List Segment) :=
  rules.foldl (fun acc r => if ruleMatches r.laue r.cc laueClass cellChoice then some r.segs else acc) none

def scaleFor (dflt : Int × Nat) (rules : List ScaleRule) (laueClass cellChoice : String) : Rat :=
  let p := rules.foldl (fun acc r => if ruleMatches r.laue r.cc laueClass cellChoice then (r.num, r.den) else acc) dflt
  mkRat p.1 p.2

/-! ### the three nested loops -/

/-- innermost `while htest == 0`: visit `p`, step by `d` while the next point passes `Q ≤ M` -/
def row (q : V → Rat) (M : Rat) (d : V) : Nat → V → List V
  | 0, _ => []
  | fuel + 1, p => p :: (if q (vadd p d) ≤ M then row q M d fuel (vadd p d) else [])

/-- `while ktest == 0`: the row from `p`, then `p + d2` while it passes -/
def plane (q : V → Rat) (M : Rat) (d1 d2 : V) (F : Nat) : Nat → V → List (List V)
  | 0, _ => []
  | fuel + 1, p => row q M d1 F p :: (if q (vadd p d2) ≤ M then plane q M d1 d2 F fuel (vadd p d2) else [])

/-- `while ltest == 0` -/
def cone (q : V → Rat) (M : Rat) (d1 d2 d3 : V) (F : Nat) : Nat → V → List (List (List V))
  | 0, _ => []
  | fuel + 1, p => plane q M d1 d2 F F p :: (if q (vadd p d3) ≤ M then cone q M d1 d2 d3 F fuel (vadd p d3) else [])

def segCone (q : V → Rat) (M : Rat) (F : Nat) (sg : Segment) : List (List (List V)) :=
  cone q M sg.d1 sg.d2 sg.d3 F F sg.s

/-- points visited by the loops of one segment, in visiting order -/
def visitSeg (q : V → Rat) (M : Rat) (F : Nat) (sg : Segment) : List V :=
  (segCone q M F sg).flatten.flatten

/-- no loop of the segment was cut by the fuel (every loop ran fewer than `F` iterations) -/
def fuelOkSeg (q : V → Rat) (M : Rat) (F : Nat) (sg : Segment) : Bool :=
  let c := segCone q M F sg
  decide (c.length < F) && c.all fun pl => decide (pl.length < F) && pl.all fun r => decide (r.length < F)

/-! ### emission with the `nref` counter, literally -/

structure EmitState where
  nref : Nat
  acc : List (V × Rat)

/-- body of the innermost loop before the step: `nref = nref + 1; if nref != 1: if sysabs == 0: (if in shell: append)
    else: nref = nref - 1` -/
def emitStep (q : V → Rat) (absent : V → Int) (lo hi : Rat) (st : EmitState) (p : V) : EmitState :=
  let nref := st.nref + 1
  if nref != 1 then
    if absent p == 0 then
      if lo < q p && q p ≤ hi then { nref := nref, acc := st.acc ++ [(p, q p)] } else { nref := nref, acc := st.acc }
    else { nref := nref - 1, acc := st.acc }
  else { nref := nref, acc := st.acc }

def emit (q : V → Rat) (absent : V → Int) (lo hi : Rat) (visited : List V) : List (V × Rat) :=
  (visited.foldl (emitStep q absent lo hi) { nref := 0, acc := [] }).acc

def leQ (a b : V × Rat) : Bool := decide (a.2 ≤ b.2)

/-! ### genhkl_base / genhkl_unique / genhkl_all -/

structure Input where
  cfg : Cfg
  tbl : SgTable
  G : Form
  min2 : Rat      -- sintlmin²
  max2 : Rat      -- sintlmax²
  fuel : Nat

def Input.scale (x : Input) : Rat := scaleFor x.cfg.scaleDefault x.cfg.scaleRules x.tbl.laue x.tbl.cellChoice

/-- `(2 * sintl_scale * sintlmax)²` -/
def Input.M (x : Input) : Rat := 4 * x.scale * x.scale * x.max2

def Input.absent (x : Input) (p : V) : Int :=
  x.cfg.sysabs p.1 p.2.1 p.2.2 x.tbl.syscond x.tbl.crystalSystem x.tbl.cellChoice

def Input.segments (x : Input) : Option (List Segment) := segmentsFor x.cfg.rules x.tbl.laue x.tbl.cellChoice

/-- all visited points, segment after segment -/
def visited (x : Input) (segs : List Segment) : List V :=
  (segs.map (visitSeg x.G.q x.M x.fuel)).flatten

/-- rows of `genhkl_base` before sorting -/
def baseRows (x : Input) (segs : List Segment) : List (V × Rat) :=
  emit x.G.q x.absent (4 * x.min2) (4 * x.max2) (visited x segs)

/-- `genhkl_base(..., output_stl=True)` = `genhkl_unique(..., output_stl=True)`; second component is `Q = 4 stl²` -/
def genhklUnique (x : Input) (segs : List Segment) : List (V × Rat) :=
  (baseRows x segs).mergeSort leQ

def fuelOk (x : Input) (segs : List Segment) : Bool :=
  segs.all (fuelOkSeg x.G.q x.M x.fuel)

/-- a rotation as its three rows -/
abbrev Rot := V × V × V

def rotOf (o : SgOp) : Rot := ((o.r11, o.r12, o.r13), (o.r21, o.r22, o.r23), (o.r31, o.r32, o.r33))

def vneg (a : V) : V := (-a.1, -a.2.1, -a.2.2)

def rotNeg (r : Rot) : Rot := (vneg r.1, vneg r.2.1, vneg r.2.2)

/-- row vector times matrix: `n.dot(refl[:3], R)` -/
def rmul (h : V) (r : Rot) : V :=
  (h.1 * r.1.1 + h.2.1 * r.2.1.1 + h.2.2 * r.2.2.1,
   h.1 * r.1.2.1 + h.2.1 * r.2.1.2.1 + h.2.2 * r.2.2.2.1,
   h.1 * r.1.2.2 + h.2.1 * r.2.1.2.2 + h.2.2 * r.2.2.2.2)

/-- remove repeated entries keeping first occurrences (`n.unique(..., return_index=True)` + `n.sort(rows)`) -/
def dedupFirst {α : Type} [DecidableEq α] : List α → List α
  | [] => []
  | x :: xs => x :: (dedupFirst xs).filter (fun y => y ≠ x)

/-- `Rots`: `concatenate((rot[:nuniq], -rot[:nuniq]))` without repetitions -/
def rots (t : SgTable) : List Rot :=
  let P := (t.ops.take t.nuniq).map rotOf
  dedupFirst (P ++ P.map rotNeg)

/-- the rows `genhkl_all` appends for one row of `genhkl_base` -/
def expand (R : List Rot) (h : V) : List V := dedupFirst (R.map (rmul h))

def genhklAll (x : Input) (segs : List Segment) : List (V × Rat) :=
  (genhklUnique x segs).flatMap fun r => (expand (rots x.tbl) r.1).map fun h => (h, r.2)

/-! ### canonical output for the driver -/

def lexLe (a b : V) : Bool :=
  decide (a.1 < b.1) || (a.1 == b.1 && (decide (a.2.1 < b.2.1) || (a.2.1 == b.2.1 && decide (a.2.2 ≤ b.2.2))))

def lookupTable (key : String) : Option SgTable := (Sg.allTables.find? (fun p => p.1 == key)).map (·.2)

end Hkl
