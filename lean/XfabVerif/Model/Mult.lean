/-
Core-only executable model of `xfab.structure.multiplicity(position, sgname | sgno, cell_choice)`.

Python (xfab/structure.py):

    lp[i] = rot[i]·position + trans[i]                 for i < nsymop
    lpu = [lp[0]] ; multi = 1
    for i in 1 .. nsymop-1:
        for j in range(multi):
            t = lp[i] - lpu[j]
            if sum(|t - round t|) < 1e-5: break                 # equal modulo a lattice translation
            elif j == multi-1: lpu.append(lp[i]); multi += 1   # new point
    return multi

Exact model: a position is three integer numerators over a common denominator `d` (the caller chooses `d` with
`24 ∣ d`, so that the table translations `t/24` are `(d/24)·t / d`).  Two points are equal modulo the lattice iff
their numerators are congruent modulo `d`.  `scan` is the greedy loop of the code: it walks the images in table
order and keeps the first representative of each class, comparing only with the representatives kept so far.
The tolerance test of the code is related to the exact congruence by `C15.tolerance_sound` (Proofs/C15.lean).
-/
import XfabVerif.Model.SgModel

namespace Mult

/-- numerators of a fractional position over a common denominator -/
structure Pos where
  x : Int
  y : Int
  z : Int
deriving DecidableEq, Repr

/-- `R·p + t` in numerators over `d`; the translation `t/24` becomes `(d/24)·t` -/
def act (d : Nat) (a : Sg.Op) (p : Pos) : Pos :=
  let s : Int := ((d / 24 : Nat) : Int)
  { x := a.r11 * p.x + a.r12 * p.y + a.r13 * p.z + s * a.t1
    y := a.r21 * p.x + a.r22 * p.y + a.r23 * p.z + s * a.t2
    z := a.r31 * p.x + a.r32 * p.y + a.r33 * p.z + s * a.t3 }

/-- equality modulo lattice translations: every coordinate of the difference is an integer
    (`Σ_k |t_k − round t_k| = 0` in exact arithmetic) -/
def eqv (d : Nat) (p q : Pos) : Bool :=
  (p.x - q.x) % (d : Int) == 0 && (p.y - q.y) % (d : Int) == 0 && (p.z - q.z) % (d : Int) == 0

/-- canonical representative modulo the lattice: numerators reduced to `[0,d)` -/
def reduce (d : Nat) (p : Pos) : Pos :=
  { x := p.x % (d : Int), y := p.y % (d : Int), z := p.z % (d : Int) }

/-- one iteration of the outer loop: `lp[i]` is skipped when it equals (mod lattice) a kept point,
    otherwise it is appended to `lpu` -/
def step (d : Nat) (kept : List Pos) (q : Pos) : List Pos :=
  if kept.any (fun r => eqv d q r) then kept else kept ++ [q]

/-- the greedy scan of the code: `lpu` after the loop (`[]` only for an empty list of images, where the code raises) -/
def scan (d : Nat) : List Pos → List Pos
  | [] => []
  | q :: qs => qs.foldl (step d) [q]

/-- `lp` -/
def images (d : Nat) (G : List Sg.Op) (p : Pos) : List Pos := G.map fun a => act d a p

/-- `multi` for a list of operations -/
def count (d : Nat) (G : List Sg.Op) (p : Pos) : Nat := (scan d (images d G p)).length

/-- the operations the code visits: the first `nsymop` rows of `rot`/`trans`;
    `none` when the code raises IndexError (`nsymop = 0`: `lp[0]`; `nsymop > len(rot)`: `rot[i]`) -/
def usedOps? (t : SgTable) : Option (List Sg.Op) :=
  if t.nsymop = 0 ∨ (Sg.opsOf t).length < t.nsymop then none else some ((Sg.opsOf t).take t.nsymop)

/-- `multiplicity(position = (p.x/d, p.y/d, p.z/d), <setting t>)` -/
def multiplicity (t : SgTable) (d : Nat) (p : Pos) : Option Nat :=
  (usedOps? t).map fun G => count d G p

/-- the site-symmetry operations among `G`: those that fix the position modulo the lattice -/
def stabiliser (d : Nat) (G : List Sg.Op) (p : Pos) : List Sg.Op := G.filter fun a => eqv d (act d a p) p

end Mult
