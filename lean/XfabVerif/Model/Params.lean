/-
Core-only executable model of `xfab/parameters.py` (class `parameters`), property C19.

Strings are `Str = List Char` (the code points of the Python `str`); the driver converts at the boundary.
A `float` is carried as an opaque token (`Val.flt tok`): the model never does float arithmetic.  A token
coming from the API is the Python `repr` of the float; a token produced by `dumbtypecheck` from a string `s`
is `s` stripped of whitespace and underscores, so that `float(tok)` is the float that Python computed.

### What the string → number recogniser covers
ASCII strings only (the driver answers `bad` for code points ≥ 128: CPython additionally accepts Unicode
decimal digits and Unicode whitespace there, which is not modelled).  On ASCII the grammars of CPython 3.12
`float(str)` and `int(str)` (base 10) are modelled completely:
* both strip leading/trailing `' ' \t \n \x0b \x0c \r`  (NOT `\x1c..\x1f`, which only `str.strip` removes);
* underscores: every `_` must stand directly between two digits, else `ValueError`;
* `int`:    `[+-]? digit+`
* `float`:  `[+-]? ( digit+ ('.' digit*)? | '.' digit+ ) ( [eE] [+-]? digit+ )?`  or
            `[+-]? ( inf | infinity | nan )`  (case-insensitive);  no hex, no `nan(...)`, no inner blanks.
* `value.lstrip().rstrip()` strips `' ' \t \n \x0b \x0c \r \x1c \x1d \x1e \x1f`.
Not modelled: `sys.int_info.default_max_str_digits` (4300) — the driver rejects strings > 4000 characters.
`abs(vi - vf) < 1e-9` in `dumbtypecheck`: Python evaluates `vi - vf` as `float(vi) - vf`; `float(str)` and
`float(int)` are both correctly rounded (half-even) images of the same integer, so the difference is exactly `0.0`
(also for |vi| > 2^53, e.g. `'9007199254740993'` stays the int 2^53+1) and the int branch is taken.  When the
integer rounds to ≥ 2^1024 (`|vi| ≥ 2^1024 − 2^970`, `vf = ±inf`) `float(vi)` raises `OverflowError`, which the code
catches and treats as "is an int".  Hence: whenever `int(value)` succeeds the result is that int; the float branch
after a successful `int()` is dead code and is not modelled (the correspondence run would expose it).
-/

namespace Params

abbrev Str := List Char

inductive Val where
  | int (n : Int)
  | flt (tok : Str)
  | str (s : Str)
deriving DecidableEq, Repr, Inhabited

/-! ## association lists behaving like an insertion-ordered Python dict -/

def lookup {α : Type} (k : Str) : List (Str × α) → Option α
  | [] => none
  | (k', v) :: t => if k' = k then some v else lookup k t

/-- `d[k] = v`: overwrite in place when the key exists, else append -/
def setKV {α : Type} (k : Str) (v : α) : List (Str × α) → List (Str × α)
  | [] => [(k, v)]
  | (k', v') :: t => if k' = k then (k', v) :: t else (k', v') :: setKV k v t

/-- `d.update(kvs)` / successive assignments -/
def setMany {α : Type} (ps : List (Str × α)) (kvs : List (Str × α)) : List (Str × α) :=
  kvs.foldl (fun acc kv => setKV kv.1 kv.2 acc) ps

/-! ## character classes, strip -/

/-- `Py_ISSPACE`: what `float(str)` / `int(str)` skip at both ends of an ASCII string -/
def isFloatSpace (c : Char) : Bool :=
  c = ' ' || c = '\t' || c = '\n' || c = '\x0b' || c = '\x0c' || c = '\r'

/-- `str.isspace` on ASCII: what `str.lstrip()/rstrip()` remove -/
def isStrSpace (c : Char) : Bool :=
  isFloatSpace c || c = '\x1c' || c = '\x1d' || c = '\x1e' || c = '\x1f'

def isDigit (c : Char) : Bool := decide (48 ≤ c.toNat) && decide (c.toNat ≤ 57)

def digitVal (c : Char) : Nat := c.toNat - 48

def rstrip (p : Char → Bool) (l : Str) : Str := (l.reverse.dropWhile p).reverse

def strip (p : Char → Bool) (l : Str) : Str := rstrip p (l.dropWhile p)

/-! ## decimal integers: Python `str(int)` and the digits of `int(str)` -/

def digitChar : Nat → Char
  | 0 => '0' | 1 => '1' | 2 => '2' | 3 => '3' | 4 => '4'
  | 5 => '5' | 6 => '6' | 7 => '7' | 8 => '8' | _ => '9'

def natDigitsAux : Nat → Nat → Str → Str
  | 0, _, acc => acc
  | fuel + 1, n, acc =>
    if n < 10 then digitChar n :: acc else natDigitsAux fuel (n / 10) (digitChar (n % 10) :: acc)

def natDigits (n : Nat) : Str := natDigitsAux (n + 1) n []

/-- Python `str(n)` for an int -/
def showInt : Int → Str
  | .ofNat n => natDigits n
  | .negSucc n => '-' :: natDigits (n + 1)

def parseNat (l : Str) : Nat := l.foldl (fun a c => a * 10 + digitVal c) 0

/-- (negative?, rest) -/
def splitSign : Str → Bool × Str
  | [] => (false, [])
  | c :: t => if c = '-' then (true, t) else if c = '+' then (false, t) else (false, c :: t)

/-- `_Py_string_to_number_with_underscores` / the scan loop of `_PyLong_FromString`: remove underscores,
    fail unless every underscore stands between two digits (`prev` = previous character, `'\x00'` at start) -/
def deUnderscoreAux (prev : Char) : Str → Option Str
  | [] => if prev = '_' then none else some []
  | c :: t =>
    if c = '_' then (if isDigit prev then deUnderscoreAux '_' t else none)
    else if prev = '_' ∧ isDigit c = false then none
    else (deUnderscoreAux c t).map (c :: ·)

def deUnderscore (l : Str) : Option Str := deUnderscoreAux '\x00' l

/-- `int(s)` on a string already stripped of `Py_ISSPACE` -/
def intCore (s : Str) : Option Int :=
  match deUnderscore s with
  | none => none
  | some u =>
    let sd := splitSign u
    if sd.2 ≠ [] ∧ sd.2.all isDigit = true then
      some (if sd.1 then - (parseNat sd.2 : Int) else (parseNat sd.2 : Int))
    else none

/-- unsigned decimal float literal: `digit* ('.' digit*)?` with at least one digit, optional exponent -/
def floatBody (l : Str) : Bool :=
  let ip := l.takeWhile isDigit
  let r1 := l.dropWhile isDigit
  let fr : Str × Str := match r1 with
    | [] => ([], [])
    | c :: t => if c = '.' then (t.takeWhile isDigit, t.dropWhile isDigit) else ([], c :: t)
  if ip = [] ∧ fr.1 = [] then false
  else match fr.2 with
    | [] => true
    | e :: t => (e = 'e' || e = 'E') && (
        let d := (splitSign t).2
        -- a sign must be the first character of `t`; `splitSign` removed at most that one
        decide (d ≠ []) && d.all isDigit)

def infNanWords : List Str :=
  [['i', 'n', 'f'], ['i', 'n', 'f', 'i', 'n', 'i', 't', 'y'], ['n', 'a', 'n']]

/-- `float(s)` on a string already stripped of `Py_ISSPACE`: the canonical token (underscores removed) -/
def floatCore (s : Str) : Option Str :=
  match deUnderscore s with
  | none => none
  | some u =>
    let b := (splitSign u).2
    if floatBody b = true ∨ b.map Char.toLower ∈ infNanWords then some u else none

/-- Python `float(s)` succeeds ↔ `some tok`, and then `float(tok) == float(s)` bit for bit -/
def pyFloat (s : Str) : Option Str := floatCore (strip isFloatSpace s)

/-- Python `int(s)` (base 10) succeeds with value `n` ↔ `some n` -/
def pyInt (s : Str) : Option Int := intCore (strip isFloatSpace s)

inductive Class where
  | int (n : Int)
  | flt (tok : Str)
  | text (s : Str)
deriving DecidableEq, Repr

/-- the body of `dumbtypecheck` for one string value -/
def classify (s : Str) : Class :=
  match pyFloat s with
  | none => .text (strip isStrSpace s)          -- "it really is a string": value.lstrip().rstrip()
  | some tok =>
    match pyInt s with
    | none => .flt tok                           -- "it really is a float"
    | some n => .int n                           -- abs(vi - vf) < 1e-9, or OverflowError caught: "use int"

/-- `dumbtypecheck` on one value: strings are classified, ints and floats keep their type -/
def coerceVal : Val → Val
  | .str s =>
    match classify s with
    | .int n => .int n
    | .flt t => .flt t
    | .text t => .str t
  | v => v

/-- `dumbtypecheck` over `list(self.parameters.items())`: every value is re-assigned under its own name, so keys and
    order stay -/
def dumbList (l : List (Str × Val)) : List (Str × Val) := l.map fun kv => (kv.1, coerceVal kv.2)

/-! ## the object -/

structure State where
  params : List (Str × Val) := []
  varylist : List Str := []
  variableList : List Str := []
  canVary : List (Str × Bool) := []
  stepsizes : List (Str × Option Val) := []
deriving Repr

def init : State := {}

inductive Err where
  | assertion | key
deriving DecidableEq, Repr

inductive Op where
  | addpar (name : Str) (value : Val) (vary canVary : Bool) (stepsize : Option Val)
  | set (name : Str) (value : Val)
  | setParameters (d : List (Str × Val))
  | setVarylist (vl : List Str)
  | setVariableValues (vs : List Val)
  | updateOther (obj : List (Str × Val))
  | updateYourself (obj : List (Str × Val))
  | load (text : Str)
deriving Repr

def addpar (st : State) (name : Str) (value : Val) (vary canVary : Bool) (stepsize : Option Val) : State :=
  { params := setKV name value st.params
    canVary := setKV name canVary st.canVary
    varylist := if vary = true ∧ name ∉ st.varylist then st.varylist ++ [name] else st.varylist
    variableList := if canVary = true ∧ name ∉ st.variableList then st.variableList ++ [name] else st.variableList
    stepsizes := if canVary = true ∧ name ∉ st.variableList then setKV name stepsize st.stepsizes else st.stepsizes }

def get (st : State) (k : Str) : Option Val := lookup k st.params

def getParameters (st : State) : List (Str × Val) := st.params

def getAll (ps : List (Str × Val)) : List Str → Option (List Val)
  | [] => some []
  | k :: t =>
    match lookup k ps, getAll ps t with
    | some v, some vs => some (v :: vs)
    | _, _ => none

/-- `[self.parameters[name] for name in self.varylist]`; `none` = `KeyError` -/
def getVariableValues (st : State) : Option (List Val) := getAll st.params st.varylist

/-- `[self.stepsizes[name] for name in self.varylist]`; `none` = `KeyError` -/
def getVariableStepsizes (st : State) : Option (List (Option Val)) :=
  st.varylist.foldr (fun k acc => match lookup k st.stepsizes, acc with
    | some v, some vs => some (v :: vs)
    | _, _ => none) (some [])

def varylistOk (st : State) (vl : List Str) : Bool :=
  vl.all (fun v => (lookup v st.params).isSome && decide (v ∈ st.variableList))

/-- `update_yourself`: every existing key that is an attribute of `obj` takes the attribute's value -/
def updateYourself (ps obj : List (Str × Val)) : List (Str × Val) :=
  ps.map (fun kv => (kv.1, match lookup kv.1 obj with | some w => w | none => kv.2))

/-- `update_other`: the attributes of `obj` after the call -/
def updateOther (ps obj : List (Str × Val)) : List (Str × Val) :=
  obj.map (fun aw => (aw.1, match lookup aw.1 ps with | some v => v | none => aw.2))

/-! ### file format -/

def strLe : Str → Str → Bool
  | [], _ => true
  | _ :: _, [] => false
  | a :: s, b :: t => if a.toNat < b.toNat then true else if b.toNat < a.toNat then false else strLe s t

def insertSorted (k : Str) : List Str → List Str
  | [] => [k]
  | h :: t => if strLe k h then k :: h :: t else h :: insertSorted k t

def sortKeys : List Str → List Str
  | [] => []
  | h :: t => insertSorted h (sortKeys t)

def showVal : Val → Str
  | .int n => showInt n
  | .flt t => t
  | .str s => s

/-- `keys.sort(); for key in keys: (key, self.parameters[key])` -/
def saveLines (ps : List (Str × Val)) : List (Str × Val) :=
  (sortKeys (ps.map Prod.fst)).filterMap (fun k => (lookup k ps).map (fun v => (k, v)))

/-- `"%s %s\n" % (key, str(value))` -/
def renderLine (kv : Str × Val) : Str := kv.1 ++ ' ' :: (showVal kv.2 ++ ['\n'])

def renderLines : List (Str × Val) → Str
  | [] => []
  | kv :: t => renderLine kv ++ renderLines t

/-- contents of the file written by `saveparameters` (float tokens verbatim) -/
def saveText (st : State) : Str := renderLines (saveLines st.params)

/-- text-mode reading with universal newlines: `\r\n` and `\r` become `\n`
    (`afterCR`: the previous character was a `\r`, already translated, so a `\n` now is swallowed) -/
def univNlAux (afterCR : Bool) : Str → Str
  | [] => []
  | c :: t =>
    if c = '\r' then '\n' :: univNlAux true t
    else if c = '\n' ∧ afterCR = true then univNlAux false t
    else c :: univNlAux false t

def univNl (l : Str) : Str := univNlAux false l

/-- `readlines()`: lines keep their `\n`; a last line without `\n` is kept if non-empty -/
def readlines : Str → List Str
  | [] => []
  | c :: t =>
    if c = '\n' then [c] :: readlines t
    else match readlines t with
      | [] => [[c]]
      | l :: ls => (c :: l) :: ls

/-- `line.split(" ")` -/
def splitSp : Str → List Str
  | [] => [[]]
  | c :: t =>
    if c = ' ' then [] :: splitSp t
    else match splitSp t with
      | [] => [[c]]
      | f :: fs => (c :: f) :: fs

/-- `name.replace("-", "_")` -/
def fixName (s : Str) : Str := s.map (fun c => if c = '-' then '_' else c)

/-- one iteration of the loop of `loadparameters` -/
def loadLine (ps : List (Str × Val)) (line : Str) : List (Str × Val) :=
  match splitSp line with
  | [name, value] => setKV (fixName name) (.str value) ps
  | _ => ps

def loadLines (ps : List (Str × Val)) (text : Str) : List (Str × Val) :=
  (readlines (univNl text)).foldl loadLine ps

/-! ### one API call -/

def step (st : State) : Op → State × Option Err
  | .addpar name value vary canVary stepsize => (addpar st name value vary canVary stepsize, none)
  | .set name value => ({ st with params := setKV name value st.params }, none)
  | .setParameters d => ({ st with params := dumbList (setMany st.params d) }, none)
  | .setVarylist vl =>
    if varylistOk st vl then ({ st with varylist := vl }, none) else (st, some .assertion)
  | .setVariableValues vs =>
    if vs.length = st.varylist.length then
      ({ st with params := setMany st.params (st.varylist.zip vs) }, none)
    else (st, some .assertion)
  | .updateOther _ => (st, none)
  | .updateYourself obj => ({ st with params := updateYourself st.params obj }, none)
  | .load text => ({ st with params := dumbList (loadLines st.params text) }, none)

/-- run a history (a rejected call = `AssertionError` leaves the object unchanged) -/
def run (st : State) : List Op → State × List (Option Err)
  | [] => (st, [])
  | o :: os => ((run (step st o).1 os).1, (step st o).2 :: (run (step st o).1 os).2)

end Params
