/-
Hand model (M3) of `xfab.tools.ub_to_u_b` / `xfab.laue.ub_to_u_b` (identical code in both modules), which the
symbolic tracer cannot translate because it calls `numpy.linalg.qr`.

  (U, B) = numpy.linalg.qr(UB)          -- modelled by modified Gram–Schmidt (`mgs`)
  three sign fix-ups, one per diagonal entry of B   -- modelled EXACTLY (`normalise`)
  checks._check_rotation_matrix(U)      -- modelled (`checkRotation`): raise ValueError

Core Lean only (no Mathlib).  Matrices are row-major `Array Float` of size 9.

Why a different QR algorithm is a faithful model: theorem `qr_unique` (Proofs/C02.lean) shows that the output of
the sign normalisation does not depend on which QR factorisation was used, as long as it satisfies the QR contract
(QᵀQ = 1, R upper triangular, QR = M); `normalise` below is the Float twin of `C02.normalise`.  LAPACK's
Householder QR and this Gram–Schmidt QR therefore agree after normalisation up to rounding (~ 1e-16·cond).
-/
namespace QRModel

abbrev Mat := Array Float

def get (m : Mat) (i j : Nat) : Float := m[3 * i + j]!
def set (m : Mat) (i j : Nat) (v : Float) : Mat := m.set! (3 * i + j) v

structure V3 where
  x : Float
  y : Float
  z : Float

def col (m : Mat) (j : Nat) : V3 := ⟨get m 0 j, get m 1 j, get m 2 j⟩
def dot (a b : V3) : Float := a.x * b.x + a.y * b.y + a.z * b.z
def norm (a : V3) : Float := Float.sqrt (dot a a)
def axpy (a : V3) (s : Float) (b : V3) : V3 := ⟨a.x - s * b.x, a.y - s * b.y, a.z - s * b.z⟩   -- a - s b
def scale (a : V3) (s : Float) : V3 := ⟨a.x / s, a.y / s, a.z / s⟩

/-- modified Gram–Schmidt QR of a 3×3 matrix: returns `(Q, R)` with `R` upper triangular (non-negative diagonal) -/
def mgs (m : Mat) : Mat × Mat :=
  let m0 := col m 0
  let m1 := col m 1
  let m2 := col m 2
  let r00 := norm m0
  let q0 := scale m0 r00
  let r01 := dot q0 m1
  let v1 := axpy m1 r01 q0
  let r11 := norm v1
  let q1 := scale v1 r11
  let r02 := dot q0 m2
  let v2 := axpy m2 r02 q0
  let r12 := dot q1 v2
  let v2' := axpy v2 r12 q1
  let r22 := norm v2'
  let q2 := scale v2' r22
  (#[q0.x, q1.x, q2.x, q0.y, q1.y, q2.y, q0.z, q1.z, q2.z],
   #[r00, r01, r02, 0.0, r11, r12, 0.0, 0.0, r22])

/-- the three `if B[i,i] < 0:` blocks of `ub_to_u_b`, statement by statement -/
def normalise (U0 B0 : Mat) : Mat × Mat := Id.run do
  let mut U := U0
  let mut B := B0
  if get B 0 0 < 0 then
    B := set B 0 0 (-(get B 0 0))
    B := set B 0 1 (-(get B 0 1))
    B := set B 0 2 (-(get B 0 2))
    U := set U 0 0 (-(get U 0 0))
    U := set U 1 0 (-(get U 1 0))
    U := set U 2 0 (-(get U 2 0))
  if get B 1 1 < 0 then
    B := set B 1 1 (-(get B 1 1))
    B := set B 1 2 (-(get B 1 2))
    U := set U 0 1 (-(get U 0 1))
    U := set U 1 1 (-(get U 1 1))
    U := set U 2 1 (-(get U 2 1))
  if get B 2 2 < 0 then
    B := set B 2 2 (-(get B 2 2))
    U := set U 0 2 (-(get U 0 2))
    U := set U 1 2 (-(get U 1 2))
    U := set U 2 2 (-(get U 2 2))
  return (U, B)

/-- `numpy.allclose(a, b, rtol=1e-5, atol)` on scalars (false on NaN) -/
def allclose (a b atol : Float) : Bool := (a - b).abs <= atol + 1e-5 * b.abs

def det3 (A : Mat) : Float :=
  get A 0 0 * (get A 1 1 * get A 2 2 - get A 1 2 * get A 2 1)
  - get A 0 1 * (get A 1 0 * get A 2 2 - get A 1 2 * get A 2 0)
  + get A 0 2 * (get A 1 0 * get A 2 1 - get A 1 1 * get A 2 0)

/-- `checks._check_rotation_matrix`: `allclose(UᵀU, 1, atol=1e-6)` and `allclose(det U, 1)` -/
def checkRotation (U : Mat) : Bool :=
  let orth := (List.range 3).all fun i => (List.range 3).all fun j =>
    allclose (dot (col U i) (col U j)) (if i == j then 1.0 else 0.0) 1e-6
  orth && allclose (det3 U) 1.0 1e-8

/-- post-processing of a given QR pair (what `ub_to_u_b` does after `numpy.linalg.qr`); `none` = raise ValueError -/
def post (Q R : Mat) : Option (Mat × Mat) :=
  let (U, B) := normalise Q R
  if checkRotation U then some (U, B) else none

/-- executable model of `ub_to_u_b`; `none` = raise ValueError -/
def ub_to_u_b (m : Mat) : Option (Mat × Mat) :=
  let (Q, R) := mgs m
  post Q R

end QRModel
