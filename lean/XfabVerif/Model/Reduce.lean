/-
Core-only executable model of the SELECTION made by `reduce_cell(unit_cell, uvw = 3)` (xfab/tools.py, xfab/laue.py).

Python:

    a_mat = form_a_mat(unit_cell)
    for i in arange(-uvw, uvw): for j in arange(-uvw, uvw): for k in arange(-uvw, uvw):     # +uvw is excluded
        res = concatenate((res, [[i, j, k, norm(dot(a_mat, [i, j, k]))]]))
    res = res[argsort(res[:, 3]), :]                              # quicksort: NOT stable
    red_a_mat[0] = dot(a_mat, res[1, :3])                         # entry 0 is (0,0,0)
    for i in range(2, len(res)):                                  # first later entry not collinear with it
        tmp = dot(a_mat, res[i, :3]); kryds = cross(tmp, red_a_mat[0])
        if sum(abs(kryds)) > 0.00001: red_a_mat[1] = tmp; break
    for j in range(i, len(res)):                                  # starts AT the second vector's own index i
        tmp = dot(a_mat, res[j, :3]); dist = dot(kryds, tmp) / norm(kryds)
        if dist > 0.00001: red_a_mat[2] = tmp; break             # positive side of  v2 × v1  (kryds = tmp × row0)
    return a_to_cell(red_a_mat)                                   # rows = vectors, but a_to_cell reads columns

Exact model.  The metric tensor `G = AᵀA` is given as a symmetric integer matrix over an implicit common positive
denominator (`Metric`; `Metric.ofRats` brings six rationals to that form).  Lengths are compared through the
squares `Q(v) = vᵀGv` (an integer).  Because `det A > 0`, the two Cartesian tests of the code are (with the
thresholds `1e-5` replaced by `0`) tests on the integer index vectors:
    `cross(A m, A m₁) ≠ 0  ↔  m × m₁ ≠ 0`         and       `sign (cross(A m₂, A m₁) · A m) = sign ((m₂ × m₁) · m)`
(proved in Proofs/C18.lean, `cartesian_tests_exact`); the harness keeps its inputs away from the thresholds.

Ties.  `argsort` (quicksort / SIMD sort, platform dependent) leaves the order of equal lengths unspecified, and
`v` and `-v` ALWAYS have equal length, so ties cannot be avoided by the choice of inputs.  The model therefore has
both
  * `select`      the outcome for the canonical tie-break (stable merge sort = ties in the enumeration order), and
  * `admissible`  the list of ALL outcomes that some order of the tied entries produces.  It needs no sorting:
                  v₁ ∈ argmin Q over non-zero candidates, v₂ ∈ argmin Q over candidates not collinear with v₁,
                  v₃ ∈ argmin Q over candidates on the positive side of `v₂ × v₁`.
`C18.selectFrom_mem_admissible` proves that the code's three loops, run on ANY permutation of the candidates that
is sorted by length, produce a member of `admissible`; the harness accepts the implementation's answer iff it is
the answer of one admissible outcome (and reports how often it is the canonical one).

Output: the selected index vectors `M` (rows), the true Gram matrix `M G Mᵀ`, and the cell the code actually
returns, i.e. the cell of the Gram matrix `VᵀV = A MᵀM Aᵀ` of the ROW-stacked `V = M Aᵀ`, in exact form: with
`G = UᵀDU` (`U` unit upper triangular, `D` diagonal; `A = D^½ U`), `(VᵀV)ᵢⱼ = √(dᵢdⱼ)·(U MᵀM Uᵀ)ᵢⱼ`, so the squared
lengths `a'² b'² c'²` are rational and the cosines are `Rᵢⱼ/√(RᵢᵢRⱼⱼ)` with `R = U MᵀM Uᵀ` rational: `coded`
returns `a'², b'², c'²` and the signed squares `sgn·cos²` of `α', β', γ'`.
-/

namespace Reduce

/-- integer index vector `(u, v, w)` / integer 3-vector -/
structure Vec where
  x : Int
  y : Int
  z : Int
deriving DecidableEq, Repr

def Vec.zero : Vec := ⟨0, 0, 0⟩

def dot (a b : Vec) : Int := a.x * b.x + a.y * b.y + a.z * b.z

def cross (a b : Vec) : Vec :=
  ⟨a.y * b.z - a.z * b.y, a.z * b.x - a.x * b.z, a.x * b.y - a.y * b.x⟩

/-- symmetric integer metric (numerators over a common positive denominator `den`):
    `xx = g₀₀, yy = g₁₁, zz = g₂₂, yz = g₁₂, xz = g₀₂, xy = g₀₁` -/
structure Metric where
  xx : Int
  yy : Int
  zz : Int
  yz : Int
  xz : Int
  xy : Int
  den : Nat := 1
deriving DecidableEq, Repr

/-- bilinear form `aᵀ G b` (numerator) -/
def bil (g : Metric) (a b : Vec) : Int :=
  a.x * (g.xx * b.x + g.xy * b.y + g.xz * b.z)
  + a.y * (g.xy * b.x + g.yy * b.y + g.yz * b.z)
  + a.z * (g.xz * b.x + g.yz * b.y + g.zz * b.z)

/-- squared length `vᵀ G v` (numerator) -/
def qform (g : Metric) (v : Vec) : Int := bil g v v

/-- `arange(-uvw, uvw)` -/
def rng (uvw : Nat) : List Int := (List.range (2 * uvw)).map fun (n : Nat) => Int.ofNat n - Int.ofNat uvw

/-- the candidates in the code's enumeration order (i outermost, k innermost) -/
def candidates (uvw : Nat) : List Vec :=
  (rng uvw).flatMap fun i => (rng uvw).flatMap fun j => (rng uvw).map fun k => (⟨i, j, k⟩ : Vec)

/-- length comparison used for sorting -/
def le (g : Metric) (a b : Vec) : Bool := decide (qform g a ≤ qform g b)

/-- canonical sort: stable, ties stay in enumeration order -/
def sorted (g : Metric) (uvw : Nat) : List Vec := (candidates uvw).mergeSort (le g)

/-- the code's collinearity test `sum(abs(cross(tmp, row0))) > 1e-5`, exact -/
def notCollinear (v1 v : Vec) : Bool := decide (cross v v1 ≠ Vec.zero)

/-- the code's `dist > 1e-5` test, exact: `(v₂ × v₁) · v > 0` -/
def positiveSide (v1 v2 v : Vec) : Bool := decide (0 < dot (cross v2 v1) v)

/-- the suffix of a list starting at the first element that satisfies `p` (the `for … break` loop) -/
def dropUntil {α : Type} (p : α → Bool) : List α → List α
  | [] => []
  | x :: xs => if p x then x :: xs else dropUntil p xs

structure Sel where
  v1 : Vec
  v2 : Vec
  v3 : Vec
deriving DecidableEq, Repr

/-- the three loops of the code on an already sorted list `res`.
    `none`: a loop ran to its end without `break` (the code then returns a cell containing nan). -/
def selectFrom (res : List Vec) : Option Sel :=
  match res with
  | _ :: v1 :: rest =>                                   -- red_a_mat[0] = res[1]
    match dropUntil (notCollinear v1) rest with          -- for i in range(2, len(res))
    | v2 :: rest2 =>
      match (v2 :: rest2).find? (positiveSide v1 v2) with   -- for j in range(i, len(res)): starts at v2 itself
      | some v3 => some ⟨v1, v2, v3⟩
      | none => none
    | [] => none
  | _ => none

/-- canonical outcome (ties in enumeration order) -/
def select (g : Metric) (uvw : Nat) : Option Sel := selectFrom (sorted g uvw)

/-- all elements of `l` with minimal `q` -/
def argmins (q : Vec → Int) (l : List Vec) : List Vec :=
  match l with
  | [] => []
  | x :: xs =>
    let m := xs.foldl (fun m v => if q v < m then q v else m) (q x)
    l.filter fun v => q v == m

/-- every outcome that some order of the tied entries can produce -/
def admissible (g : Metric) (uvw : Nat) : List Sel :=
  let cs := candidates uvw
  (argmins (qform g) (cs.filter fun v => decide (v ≠ Vec.zero))).flatMap fun v1 =>
    (argmins (qform g) (cs.filter (notCollinear v1))).flatMap fun v2 =>
      (argmins (qform g) (cs.filter (positiveSide v1 v2))).map fun v3 => (⟨v1, v2, v3⟩ : Sel)

/-- determinant of the matrix with rows `v1, v2, v3` -/
def Sel.det (s : Sel) : Int := dot s.v1 (cross s.v2 s.v3)

/-! ### exact rationals for the output -/

structure Q where
  num : Int
  den : Nat
deriving DecidableEq, Repr

/-- normalised fraction (`den = 0` is kept as `0/0` and printed as such) -/
def Q.mk' (n : Int) (d : Int) : Q :=
  if d == 0 then ⟨0, 0⟩ else
  let s : Int := if d < 0 then -1 else 1
  let g := Nat.gcd n.natAbs d.natAbs
  ⟨s * n / (g : Int), d.natAbs / g⟩

def Q.toString (q : Q) : String := s!"{q.num}/{q.den}"

/-- true Gram matrix `M G Mᵀ` of the selected vectors: `g₀₀ g₁₁ g₂₂ g₁₂ g₀₂ g₀₁` -/
def trueGram (g : Metric) (s : Sel) : List Q :=
  [bil g s.v1 s.v1, bil g s.v2 s.v2, bil g s.v3 s.v3, bil g s.v2 s.v3, bil g s.v1 s.v3, bil g s.v1 s.v2].map
    fun n => Q.mk' n g.den

/-- leading principal minors `p₁ p₂ p₃` of the numerator matrix -/
def minors (g : Metric) : Int × Int × Int :=
  (g.xx, g.xx * g.yy - g.xy * g.xy,
   g.xx * (g.yy * g.zz - g.yz * g.yz) - g.xy * (g.xy * g.zz - g.yz * g.xz) + g.xz * (g.xy * g.yz - g.yy * g.xz))

def posDef (g : Metric) : Bool :=
  let (p1, p2, p3) := minors g
  decide (0 < p1) && decide (0 < p2) && decide (0 < p3) && decide (0 < g.den)

/-- what the code returns, exactly: `[a'², b'², c'², sgn·cos²α', sgn·cos²β', sgn·cos²γ']` of the cell of
    `VᵀV = A MᵀM Aᵀ`.  With `W = !![p₁, g₀₁, g₀₂; 0, p₂, g₀₀g₁₂ − g₀₁g₀₂; 0, 0, 1]` (integer multiple of the rows of the
    unit upper triangular factor), `Y = W Mᵀ`, `T = Y Yᵀ`:
    `a'² = T₀₀/(p₁·den)`, `b'² = T₁₁/(p₁p₂·den)`, `c'² = p₃T₂₂/(p₂·den)`, `cos α' = T₁₂/√(T₁₁T₂₂)` etc. -/
def coded (g : Metric) (s : Sel) : List Q :=
  let (p1, p2, p3) := minors g
  let w0 : Vec := ⟨p1, g.xy, g.xz⟩
  let w1 : Vec := ⟨0, p2, g.xx * g.yz - g.xy * g.xz⟩
  let w2 : Vec := ⟨0, 0, 1⟩
  let y (w : Vec) : Vec := ⟨dot w s.v1, dot w s.v2, dot w s.v3⟩
  let y0 := y w0; let y1 := y w1; let y2 := y w2
  let t00 := dot y0 y0; let t11 := dot y1 y1; let t22 := dot y2 y2
  let t12 := dot y1 y2; let t02 := dot y0 y2; let t01 := dot y0 y1
  let d : Int := g.den
  let scos (t tii tjj : Int) : Q := Q.mk' (t * (t.natAbs : Int)) (tii * tjj)
  [Q.mk' t00 (p1 * d), Q.mk' t11 (p1 * p2 * d), Q.mk' (p3 * t22) (p2 * d),
   scos t12 t11 t22, scos t02 t00 t22, scos t01 t00 t11]

/-- six rationals `(n, d)` in the order `g₀₀ g₁₁ g₂₂ g₁₂ g₀₂ g₀₁` → metric over the common denominator -/
def Metric.ofRats (r : List (Int × Nat)) : Option Metric :=
  match r with
  | [a, b, c, d, e, f] =>
    if r.any (fun p => p.2 == 0) then none else
    let L := r.foldl (fun l p => Nat.lcm l p.2) 1
    let sc (p : Int × Nat) : Int := p.1 * ((L / p.2 : Nat) : Int)
    some { xx := sc a, yy := sc b, zz := sc c, yz := sc d, xz := sc e, xy := sc f, den := L }
  | _ => none


/-! ### executable sufficient test that the search range contains every lattice vector shorter than `v₃`
(`Minkowski3.ball_of_check`, `C18.ballInBox_of_check`) -/

/-- diagonal cofactors of the metric numerator matrix -/
def cof00 (g : Metric) : Int := g.yy * g.zz - g.yz * g.yz
def cof11 (g : Metric) : Int := g.xx * g.zz - g.xz * g.xz
def cof22 (g : Metric) : Int := g.xx * g.yy - g.xy * g.xy
/-- determinant of the numerator matrix = third leading minor -/
def det (g : Metric) : Int := (minors g).2.2

/-- `q(w)·cofᵢᵢ ≥ wᵢ²·det G` for a positive definite form, so `q(v₃)·cofᵢᵢ ≤ uvw²·det G` forces `|wᵢ| < uvw` whenever `q(w) < q(v₃)` -/
def ballCheck (g : Metric) (uvw : Nat) (s : Sel) : Bool :=
  decide (qform g s.v3 * cof00 g ≤ (uvw : Int) ^ 2 * det g) &&
  decide (qform g s.v3 * cof11 g ≤ (uvw : Int) ^ 2 * det g) &&
  decide (qform g s.v3 * cof22 g ≤ (uvw : Int) ^ 2 * det g)

end Reduce
