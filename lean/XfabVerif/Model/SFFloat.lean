/-
Core-only executable Float model of the whole `xfab.structure.StructureFactor(hkl, ucell, sgname, atoms, disper)`.

Python (xfab/structure.py):

    mysg = sg.sg(sgname = sgname) ; stl = tools.sintl(ucell, hkl)
    Freal = 0.0 ; Fimg = 0.0
    for i in range(noatoms):
        (expij / betaij by adp_type 'Uiso' | 'Uani' | anything else) ; f = FormFactor(atomtype, stl)
        fp, fpp = 0.0, 0.0   if disper == None or disper[atomtype] == None   else disper[atomtype]
        for j in range(mysg.nsymop):
            ... Freal = Freal + expij*(c*(f+fp)-s*fpp)*site_pop ; Fimg = Fimg + expij*(s*(f+fp)+c*fpp)*site_pop
    return [Freal, Fimg]

The per-(atom, operation) summand is NOT re-modelled here: it is the generated Float twin
`Structure.sf_term_{Uiso,Uani,none}[_disp]F` of `Gen/StructureFloat.lean` (traced from the Python source by
harness/gen_numeric.py).  This file only adds the double loop in the accumulation order of the code
(atoms outer, the first `nsymop` operations of the table inner, `F = F + term` starting from `0.0`), the
selection of the twin (adp kind × "dispersion pair present"), and the conversion of the exported table
(`Gen/Sg/*`, verbatim copy of xfab/sglib.py):  rotation entries `Float.ofInt`, translation
`Float.ofInt t / 1000000.0` with `t` the tabulated 6-digit decimal in micro-units (the correctly rounded
quotient is bit-identical to the Python literal `0.333333`; it is NOT snapped to 24ths, because the code uses
the decimals), `nsymop = Float.ofNat t.nsymop`.

Line protocol (`SFFloat.step`, one request per line, one answer line per request).  Tokens are separated by
blanks.  `<F>` = a Float as the decimal uint64 of its IEEE-754 bit pattern (`check.f2b` / `XF.ofBitsStr`),
`<N>` = a plain decimal natural number.

    <key> <F h> <F k> <F l> <F a> <F b> <F c> <F alpha> <F beta> <F gamma> <N natoms> ATOM*natoms

    ATOM (24 tokens) =
        <N variant>            0 = 'Uiso', 1 = 'Uani', 2 = neither (adp_type None / any other string)
        <F x> <F y> <F z>      fractional position
        <F occ> <F symmulti>
        <F d0> ... <F d8>      the atomlib.formfactor row of the atom type (a1..a4, b1..b4, c)
        <F u0> ... <F u5>      adp: variant 1: [U11,U22,U33,U23,U13,U12]; variant 0: u0 = Uiso (u1..u5 are
                               transported but ignored; the harness sends 0); variant 2: ignored (harness sends 0)
        <N hasdisp>            1 = the code takes the `else` branch (disper is a dict and disper[atomtype] is a
                               pair) -> `_disp` twin with fp, fpp;  0 = `disper == None or disper[atomtype] == None`
                               -> plain twin
        <F fp> <F fpp>         always present; ignored when hasdisp = 0

    `<key>` is a setting key of `Sg.allTables` ("n1" .. "n230", "n146r", ...).  Total token count
    = 11 + 24 * natoms, exactly.

Answers:
    ok <F Freal> <F Fimg>
    raise:IndexError      table with `nsymop > len(rot)` and at least one atom (the code indexes `mysg.rot[j]`
                          out of range); does not occur for the exported tables (C04 checks `nsymop = len(ops)`)
    bad                   unknown key, wrong token count, non-numeric token, bit pattern ≥ 2^64,
                          variant ∉ {0,1,2}, hasdisp ∉ {0,1}.   Nothing is ever defaulted silently.
-/
import XfabVerif.Gen.StructureFloat
import XfabVerif.Model.SgModel
import XfabVerif.Gen.Sg.All

namespace SFFloat

/-- one entry of the atom list as the code reads it -/
structure Atom where
  variant : Nat                    -- 0 Uiso, 1 Uani, 2 neither
  pos : XF.Vec 3
  occ : Float
  symmulti : Float
  data : XF.Vec 9                  -- atomlib.formfactor[atomtype]
  adp : XF.Vec 6
  disp : Option (Float × Float)    -- `some (fp, fpp)` iff the code reads `disper[atomtype][0..1]`

def rotF (o : SgOp) : XF.Mat 3 3 :=
  XF.matL [[Float.ofInt o.r11, Float.ofInt o.r12, Float.ofInt o.r13],
           [Float.ofInt o.r21, Float.ofInt o.r22, Float.ofInt o.r23],
           [Float.ofInt o.r31, Float.ofInt o.r32, Float.ofInt o.r33]]

/-- the tabulated 6-digit decimal, not snapped -/
def transF (o : SgOp) : XF.Vec 3 :=
  XF.vecL [Float.ofInt o.t1 / 1000000.0, Float.ofInt o.t2 / 1000000.0, Float.ofInt o.t3 / 1000000.0]

/-- the summand `[ΔFreal, ΔFimg]` of atom `a` and operation `o`: one of the six traced twins -/
def term (hkl : XF.Vec 3) (ucell : XF.Vec 6) (nsymop : Float) (a : Atom) (o : SgOp) : XF.Vec 2 :=
  let R := rotF o
  let t := transF o
  match a.variant, a.disp with
  | 0, none => Structure.sf_term_UisoF hkl ucell a.data a.pos a.occ a.symmulti nsymop R t (a.adp 0)
  | 0, some (fp, fpp) => Structure.sf_term_Uiso_dispF hkl ucell a.data a.pos a.occ a.symmulti nsymop R t (a.adp 0) fp fpp
  | 1, none => Structure.sf_term_UaniF hkl ucell a.data a.pos a.occ a.symmulti nsymop R t a.adp
  | 1, some (fp, fpp) => Structure.sf_term_Uani_dispF hkl ucell a.data a.pos a.occ a.symmulti nsymop R t a.adp fp fpp
  | _, none => Structure.sf_term_noneF hkl ucell a.data a.pos a.occ a.symmulti nsymop R t
  | _, some (fp, fpp) => Structure.sf_term_none_dispF hkl ucell a.data a.pos a.occ a.symmulti nsymop R t fp fpp

/-- inner loop `for j in range(nsymop)`: `F = F + term`, in table order -/
def addAtom (hkl : XF.Vec 3) (ucell : XF.Vec 6) (nsymop : Float) (ops : List SgOp) (acc : Float × Float) (a : Atom) :
    Float × Float :=
  ops.foldl (fun (f : Float × Float) o =>
    let d := term hkl ucell nsymop a o
    (f.1 + d 0, f.2 + d 1)) acc

/-- the double sum over `ops` (the operations the code visits), starting from `(0.0, 0.0)` -/
def sumOver (ops : List SgOp) (nsymop : Float) (hkl : XF.Vec 3) (ucell : XF.Vec 6) (atoms : List Atom) : Float × Float :=
  atoms.foldl (addAtom hkl ucell nsymop ops) (0.0, 0.0)

/-- `StructureFactor`; `none` = the code raises IndexError (`nsymop` exceeds the table and the atom list is not empty) -/
def structureFactor (t : SgTable) (hkl : XF.Vec 3) (ucell : XF.Vec 6) (atoms : List Atom) : Option (Float × Float) :=
  if t.ops.length < t.nsymop && !atoms.isEmpty then none
  else some (sumOver (t.ops.take t.nsymop) (Float.ofNat t.nsymop) hkl ucell atoms)

/-! ### line protocol -/

def two64 : Nat := 18446744073709551616

def fl (n : Nat) : Float := Float.ofBits (UInt64.ofNat n)

/-- the Floats are decoded once per request (`fl` on every token); a vector is the slice `f[off .. off+n)`
    (the caller has checked the total length, so the slice has exactly `n` entries) -/
def vecAt {n : Nat} (f : Array Float) (off : Nat) : XF.Vec n := XF.vecL (f.extract off (off + n)).toList

/-- number of tokens of an ATOM block -/
def atomTokens : Nat := 24

/-- decode the atom block starting at `off` (the caller has checked the total length); `a` = the tokens as naturals,
    `f` = the same tokens read as Float bit patterns -/
def parseAtom (a : Array Nat) (f : Array Float) (off : Nat) : Option Atom :=
  let variant := a.getD off 99
  let hasdisp := a.getD (off + 21) 99
  if variant > 2 || hasdisp > 1 then none else
  some { variant := variant
         pos := vecAt f (off + 1)
         occ := f.getD (off + 4) 0.0
         symmulti := f.getD (off + 5) 0.0
         data := vecAt f (off + 6)
         adp := vecAt f (off + 15)
         disp := if hasdisp == 1 then some (f.getD (off + 22) 0.0, f.getD (off + 23) 0.0) else none }

def parseAtoms (a : Array Nat) (f : Array Float) (natoms : Nat) : Option (List Atom) :=
  (List.range natoms).mapM fun i => parseAtom a f (10 + atomTokens * i)

def lookup (key : String) : Option SgTable :=
  (Sg.allTables.find? fun kt => kt.1 == key).map (·.2)

/-- answer of one request line; `find` resolves the setting key (the driver passes a hash map built once from
    `Sg.allTables`; `step` uses the list itself) -/
def stepWith (find : String → Option SgTable) (line : String) : String :=
  match (line.trimAscii.toString.splitOn " ").filter (· ≠ "") with
  | [] => "bad"
  | key :: rest =>
    match find key, rest.mapM (fun s => s.toNat?) with
    | some t, some numsL =>
      let a := numsL.toArray
      if a.size < 10 then "bad" else
      let natoms := a.getD 9 0
      if a.size != 10 + atomTokens * natoms then "bad" else
      if a.any (fun x => x ≥ two64) then "bad" else
      let f := a.map fl
      match parseAtoms a f natoms with
      | none => "bad"
      | some atoms =>
        match structureFactor t (vecAt f 0) (vecAt f 3) atoms with
        | some (fr, fi) => "ok " ++ XF.toBitsStr fr ++ " " ++ XF.toBitsStr fi
        | none => "raise:IndexError"
    | _, _ => "bad"

def step (line : String) : String := stepWith lookup line

end SFFloat
