/-
Core-only model of `xfab.sg.sg.__init__` (lookup of a space-group table by number or by name), on code points
(`List Nat`) so that the table-wide facts are kernel-decidable.  ASCII input only: Python's
`re.sub("\s+","",name).lower()` on non-ASCII text is outside the model (the driver answers `bad`).
-/
import XfabVerif.Gen.Sg.Names

namespace Sg

/-- ASCII code points matched by Python's `\s` -/
def isWsN (c : Nat) : Bool :=
  c == 32 || c == 9 || c == 10 || c == 13 || c == 11 || c == 12 || c == 28 || c == 29 || c == 30 || c == 31

def lowerN (c : Nat) : Nat := if 65 ≤ c ∧ c ≤ 90 then c + 32 else c

/-- `sub("\s+", "", sgname).lower()` -/
def normaliseN (s : List Nat) : List Nat := (s.filter fun c => !isWsN c).map lowerN

def dicLookupN (key : List Nat) : Option Nat := (dicL.find? fun kv => kv.1 == key).map (·.2)

def findSetting (no : Nat) (wantR : Bool) : Option Nat :=
  let rec go : List (Nat × Bool × List Nat) → Nat → Option Nat
    | [], _ => none
    | (n, r, _) :: rest, i => if n == no && r == wantR then some i else go rest (i + 1)
  go settingsL 0

/-- index (into `Sg.allTables` / `Sg.settingsL`) of the table built by `SgN(cell_choice=cc)`: the rhombohedral
setting when asked for and tabulated, else the standard one -/
def tableIdxFor (no : Nat) (ccR : Bool) : Option Nat :=
  if ccR then (findSetting no true).orElse (fun _ => findSetting no false) else findSetting no false

/-- is the key of the form `r…r` (Python: `key[0]=="r" and key[-1]=="r"`) -/
def rrKey (key : List Nat) : Bool := key.head? == some 114 && key.getLast? == some 114

/-- lookup by name. `none` = KeyError (name not in `sgdic`); `some none` = class missing in sglib;
`some (some i)` = table index -/
def lookupNameN (name : List Nat) (ccR : Bool) : Option (Option Nat) :=
  let key := normaliseN name
  match dicLookupN key with
  | none => none
  | some no => some (tableIdxFor no (rrKey key || ccR))

def lookupNoN (no : Nat) (ccR : Bool) : Option Nat := tableIdxFor no ccR

def settingAt (i : Nat) : Option (Nat × Bool × List Nat) := settingsL[i]?

/-- Boolean facts about one dictionary entry (kernel-decided for all entries in Proofs/C04Names) -/
def keyOk (kv : List Nat × Nat) : Bool :=
  let rr := rrKey kv.1
  normaliseN kv.1 == kv.1 &&
  (match tableIdxFor kv.2 rr with
   | some i => (match settingAt i with
       | some (n, r, _) => n == kv.2 && r == rr     -- right number; `r…r` ⇒ rhombohedral, otherwise standard/hexagonal
       | none => false)
   | none => false)

/-- a table's own name, normalised, is a dictionary key of the same class -/
def nameOk (s : Nat × Bool × List Nat) : Bool := dicLookupN (normaliseN s.2.2) == some s.1

end Sg
