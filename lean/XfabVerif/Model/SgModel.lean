/-
Core-only executable model of the space-group tables of `xfab/sglib.py` (exported verbatim by
`harness/gen_tables.py`) and the Boolean certificate checker used by the C04 obligations.

A table operation keeps the rotation as nine integers and the translation exactly as the file states it,
in micro-units (0.333333 ↦ 333333).  `snap` maps a translation component to 24ths; `snapOk` states that
the decimal is within 5·10⁻⁷ of that 24th.  Composition and equality are modulo lattice translations.
-/

structure SgOp where
  r11 : Int
  r12 : Int
  r13 : Int
  r21 : Int
  r22 : Int
  r23 : Int
  r31 : Int
  r32 : Int
  r33 : Int
  t1 : Int
  t2 : Int
  t3 : Int

structure SgTable where
  no : Nat
  name : String
  crystalSystem : String
  laue : String
  nsymop : Nat
  nuniq : Nat
  cellChoice : String
  syscond : List Int
  ops : List SgOp

namespace Sg

/-- rotation as nine integers, translation in 24ths reduced to [0,24) -/
structure Op where
  r11 : Int
  r12 : Int
  r13 : Int
  r21 : Int
  r22 : Int
  r23 : Int
  r31 : Int
  r32 : Int
  r33 : Int
  t1 : Int
  t2 : Int
  t3 : Int

def snap (t : Int) : Int := (24 * t + 500000) / 1000000

/-- the tabulated decimal is within 5·10⁻⁷ of `snap t / 24` (|24 t − 10⁶ k| ≤ 12 in micro-units) and lies in [0,1) -/
def snapOk (t : Int) : Bool :=
  let k := snap t
  decide (24 * t - 1000000 * k ≤ 12) && decide (1000000 * k - 24 * t ≤ 12) && decide (0 ≤ k) && decide (k < 24)

def ofSg (o : SgOp) : Op :=
  { r11 := o.r11, r12 := o.r12, r13 := o.r13, r21 := o.r21, r22 := o.r22, r23 := o.r23,
    r31 := o.r31, r32 := o.r32, r33 := o.r33, t1 := snap o.t1 % 24, t2 := snap o.t2 % 24, t3 := snap o.t3 % 24 }

def one : Op :=
  { r11 := 1, r12 := 0, r13 := 0, r21 := 0, r22 := 1, r23 := 0, r31 := 0, r32 := 0, r33 := 1, t1 := 0, t2 := 0, t3 := 0 }

/-- (R₁,t₁)∘(R₂,t₂) = (R₁R₂, R₁t₂ + t₁), translation modulo the lattice -/
def comp (a b : Op) : Op :=
  { r11 := a.r11 * b.r11 + a.r12 * b.r21 + a.r13 * b.r31
    r12 := a.r11 * b.r12 + a.r12 * b.r22 + a.r13 * b.r32
    r13 := a.r11 * b.r13 + a.r12 * b.r23 + a.r13 * b.r33
    r21 := a.r21 * b.r11 + a.r22 * b.r21 + a.r23 * b.r31
    r22 := a.r21 * b.r12 + a.r22 * b.r22 + a.r23 * b.r32
    r23 := a.r21 * b.r13 + a.r22 * b.r23 + a.r23 * b.r33
    r31 := a.r31 * b.r11 + a.r32 * b.r21 + a.r33 * b.r31
    r32 := a.r31 * b.r12 + a.r32 * b.r22 + a.r33 * b.r32
    r33 := a.r31 * b.r13 + a.r32 * b.r23 + a.r33 * b.r33
    t1 := (a.r11 * b.t1 + a.r12 * b.t2 + a.r13 * b.t3 + a.t1) % 24
    t2 := (a.r21 * b.t1 + a.r22 * b.t2 + a.r23 * b.t3 + a.t2) % 24
    t3 := (a.r31 * b.t1 + a.r32 * b.t2 + a.r33 * b.t3 + a.t3) % 24 }

def rotEq (a b : Op) : Bool :=
  a.r11 == b.r11 && a.r12 == b.r12 && a.r13 == b.r13 && a.r21 == b.r21 && a.r22 == b.r22 && a.r23 == b.r23 &&
  a.r31 == b.r31 && a.r32 == b.r32 && a.r33 == b.r33

def opEq (a b : Op) : Bool :=
  rotEq a b && a.t1 == b.t1 && a.t2 == b.t2 && a.t3 == b.t3

def negRot (a : Op) : Op :=
  { a with r11 := -a.r11, r12 := -a.r12, r13 := -a.r13, r21 := -a.r21, r22 := -a.r22, r23 := -a.r23,
           r31 := -a.r31, r32 := -a.r32, r33 := -a.r33 }

/-- injective key of an operation with entries in {-1,0,1} and translations in [0,24) -/
def key (a : Op) : Nat :=
  let d (x : Int) : Nat := (x + 1).toNat
  let e (x : Int) : Nat := x.toNat
  ((((((((((d a.r11 * 3 + d a.r12) * 3 + d a.r13) * 3 + d a.r21) * 3 + d a.r22) * 3 + d a.r23) * 3 + d a.r31) * 3
    + d a.r32) * 3 + d a.r33) * 24 + e a.t1) * 24 + e a.t2) * 24 + e a.t3

def entriesOk (a : Op) : Bool :=
  let ok (x : Int) : Bool := x == -1 || x == 0 || x == 1
  ok a.r11 && ok a.r12 && ok a.r13 && ok a.r21 && ok a.r22 && ok a.r23 && ok a.r31 && ok a.r32 && ok a.r33

def opsOf (t : SgTable) : List Op := t.ops.map ofSg

def allSnapOk (t : SgTable) : Bool :=
  t.ops.all fun o => snapOk o.t1 && snapOk o.t2 && snapOk o.t3

def pairwiseNe : List Nat → Bool
  | [] => true
  | x :: xs => xs.all (fun y => x != y) && pairwiseNe xs

/-- certificate (untrusted, produced by the exporter) -/
structure Cert where
  idIdx : Nat
  gens : List Nat                 -- indices of a generating set
  prod : List (List Nat)          -- prod[i][k] = index of ops[i] ∘ ops[gens[k]]
  parent : List (Nat × Nat)       -- parent[i] = (p, k): ops[i] = ops[p] ∘ ops[gens[k]]   (ignored for idIdx)
  depth : List Nat                -- depth[idIdx] = 0, depth[parent i] < depth[i]
  inv : List Nat                  -- ops[i] ∘ ops[inv[i]] = one

def getOp (G : List Op) (i : Nat) : Op := G.getD i one

def checkProd (G : List Op) (c : Cert) : Bool :=
  (List.range G.length).all fun i =>
    let row := c.prod.getD i []
    row.length == c.gens.length &&
    (List.range c.gens.length).all fun k =>
      let j := row.getD k 0
      decide (j < G.length) && opEq (comp (getOp G i) (getOp G (c.gens.getD k 0))) (getOp G j)

def checkTree (G : List Op) (c : Cert) : Bool :=
  decide (c.idIdx < G.length) && opEq (getOp G c.idIdx) one && c.depth.getD c.idIdx 1 == 0 &&
  c.depth.length == G.length && c.parent.length == G.length &&
  (List.range G.length).all fun i =>
    i == c.idIdx ||
    (let pk := c.parent.getD i (0, 0)
     decide (pk.1 < G.length) && decide (pk.2 < c.gens.length) &&
     decide (c.depth.getD pk.1 0 < c.depth.getD i 0) &&
     opEq (comp (getOp G pk.1) (getOp G (c.gens.getD pk.2 0))) (getOp G i))

def checkInv (G : List Op) (c : Cert) : Bool :=
  c.inv.length == G.length &&
  (List.range G.length).all fun i =>
    let j := c.inv.getD i 0
    decide (j < G.length) && opEq (comp (getOp G i) (getOp G j)) one

def checkGens (G : List Op) (c : Cert) : Bool :=
  c.gens.all fun g => decide (g < G.length)

/-- the group part: identity, no duplicates, closure (by certificate), inverses -/
def checkGroup (t : SgTable) (c : Cert) : Bool :=
  let G := opsOf t
  G.length == t.nsymop && allSnapOk t && G.all entriesOk && pairwiseNe (G.map key) &&
  checkGens G c && checkProd G c && checkTree G c && checkInv G c

/-! ### metadata -/

def laueOrder (s : String) : Nat :=
  if s == "-1" then 2 else if s == "2/m" then 4 else if s == "mmm" then 8 else if s == "4/m" then 8
  else if s == "4/mmm" then 16 else if s == "-3" then 6 else if s == "-3m" then 12 else if s == "-3m1" then 12
  else if s == "-31m" then 12 else if s == "6/m" then 12 else if s == "6/mmm" then 24 else if s == "m-3" then 24
  else if s == "m-3m" then 48 else 0

def laueSystemOk (laue cs : String) : Bool :=
  if cs == "triclinic" then laue == "-1"
  else if cs == "monoclinic" then laue == "2/m"
  else if cs == "orthorhombic" then laue == "mmm"
  else if cs == "tetragonal" then laue == "4/m" || laue == "4/mmm"
  else if cs == "trigonal" then laue == "-3" || laue == "-3m" || laue == "-3m1" || laue == "-31m"
  else if cs == "hexagonal" then laue == "6/m" || laue == "6/mmm"
  else if cs == "cubic" then laue == "m-3" || laue == "m-3m"
  else false

def rotKey (a : Op) : Nat := key { a with t1 := 0, t2 := 0, t3 := 0 }

def dedup : List Nat → List Nat
  | [] => []
  | x :: xs => if xs.contains x then dedup xs else x :: dedup xs

/-- symmetric 3×3 integer matrix as six numbers g11 g22 g33 g23 g13 g12 -/
structure Sym6 where
  g11 : Int
  g22 : Int
  g33 : Int
  g23 : Int
  g13 : Int
  g12 : Int

/-- `RᵀGR = G` -/
def preserves (a : Op) (g : Sym6) : Bool :=
  let G (i j : Nat) : Int :=
    match i, j with
    | 0, 0 => g.g11 | 1, 1 => g.g22 | 2, 2 => g.g33
    | 1, 2 => g.g23 | 2, 1 => g.g23 | 0, 2 => g.g13 | 2, 0 => g.g13 | 0, 1 => g.g12 | 1, 0 => g.g12
    | _, _ => 0
  let R (i j : Nat) : Int :=
    match i, j with
    | 0, 0 => a.r11 | 0, 1 => a.r12 | 0, 2 => a.r13
    | 1, 0 => a.r21 | 1, 1 => a.r22 | 1, 2 => a.r23
    | 2, 0 => a.r31 | 2, 1 => a.r32 | 2, 2 => a.r33
    | _, _ => 0
  let e (i j : Nat) : Int :=
    (List.range 3).foldl (fun acc k => (List.range 3).foldl (fun acc2 l => acc2 + R k i * G k l * R l j) acc) 0
  (List.range 3).all fun i => (List.range 3).all fun j => e i j == G i j

/-- basis of the linear space of metric tensors conforming to the crystal system / setting -/
def metricBasis (cs cellChoice : String) : List Sym6 :=
  if cs == "triclinic" then
    [⟨1,0,0,0,0,0⟩, ⟨0,1,0,0,0,0⟩, ⟨0,0,1,0,0,0⟩, ⟨0,0,0,1,0,0⟩, ⟨0,0,0,0,1,0⟩, ⟨0,0,0,0,0,1⟩]
  else if cs == "monoclinic" then [⟨1,0,0,0,0,0⟩, ⟨0,1,0,0,0,0⟩, ⟨0,0,1,0,0,0⟩, ⟨0,0,0,0,1,0⟩]
  else if cs == "orthorhombic" then [⟨1,0,0,0,0,0⟩, ⟨0,1,0,0,0,0⟩, ⟨0,0,1,0,0,0⟩]
  else if cs == "tetragonal" then [⟨1,1,0,0,0,0⟩, ⟨0,0,1,0,0,0⟩]
  else if cs == "trigonal" || cs == "hexagonal" then
    if cellChoice == "rhombohedral" then [⟨1,1,1,0,0,0⟩, ⟨0,0,0,1,1,1⟩]
    else [⟨2,2,0,0,0,-1⟩, ⟨0,0,1,0,0,0⟩]
  else if cs == "cubic" then [⟨1,1,1,0,0,0⟩]
  else []

def checkMeta (t : SgTable) : Bool :=
  let G := opsOf t
  let uniq := G.take t.nuniq
  let rk := G.map rotKey
  let urk := uniq.map rotKey
  decide (0 < t.nuniq) && decide (t.nuniq ≤ t.nsymop) &&
  pairwiseNe urk &&                                        -- first nuniq rotations distinct
  rk.all (fun k => urk.contains k) &&                     -- ... and they exhaust the rotation parts
  t.nsymop == t.nuniq * (G.filter fun a => rotEq a one).length &&   -- nsymop = nuniq × #centrings
  (dedup (urk ++ (uniq.map fun a => rotKey (negRot a)))).length == laueOrder t.laue &&
  laueSystemOk t.laue t.crystalSystem &&
  t.syscond.length == 26 &&
  !(metricBasis t.crystalSystem t.cellChoice).isEmpty &&
  uniq.all fun a => (metricBasis t.crystalSystem t.cellChoice).all fun g => preserves a g

def checkTable (t : SgTable) (c : Cert) : Bool := checkGroup t c && checkMeta t

end Sg
