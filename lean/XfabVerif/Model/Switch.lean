/-
Hand model (core Lean only) of the package-wide check switch of xfab:

    xfab/checks.py   class _checkState            (the state machine modelled here)
    xfab/__init__.py CHECKS = _checkState()        (one object, created at import: initial state `True`)

    def __init__(self):            self._run_checks = True
    @property activated            return self._run_checks and __debug__
    @activated.setter(value)       if value is not True and value is not False: raise ValueError(...)
                                   else: self._run_checks = value

`is not True` / `is not False` are IDENTITY tests against the two singletons: 1, 0, 1.0, "True", None and even
`numpy.True_` / `numpy.bool_(False)` are all rejected, the state is left unchanged.

`__debug__` is modelled as the constant `true` (the interpreter is not run with `-O`; the harness asserts this
before comparing, see harness/props/c20.py).
-/

namespace Switch

/-- the Python values the harness assigns to `CHECKS.activated` -/
inductive PyVal where
  | pyTrue                      -- the singleton True
  | pyFalse                     -- the singleton False
  | pyNone
  | int (n : Int)               -- 0, 1, 2, -1 ...  (1 == True but `1 is not True`)
  | float (repr : String)       -- 1.0, 0.0
  | str (s : String)            -- "True", "False", ""
  | npBool (b : Bool)           -- numpy.True_ / numpy.False_  (== True/False, but different objects)
  deriving Repr, DecidableEq

/-- `value is True` ↦ some true, `value is False` ↦ some false, every other object ↦ none -/
def PyVal.asBool? : PyVal → Option Bool
  | .pyTrue => some true
  | .pyFalse => some false
  | _ => none

/-- the object state: the attribute `_run_checks` -/
structure State where
  runChecks : Bool
  deriving Repr, DecidableEq

/-- `_checkState.__init__` -/
def init : State := ⟨true⟩

/-- the interpreter constant `__debug__` (no `-O`) -/
def debug : Bool := true

/-- the property getter: `self._run_checks and __debug__` -/
def activated (s : State) : Bool := s.runChecks && debug

inductive Outcome where
  | ok
  | valueError
  deriving Repr, DecidableEq

/-- the property setter, same test as the Python:
`if value is not True and value is not False: raise ValueError else: self._run_checks = value` -/
def assign (s : State) (v : PyVal) : State × Outcome :=
  if v ≠ PyVal.pyTrue ∧ v ≠ PyVal.pyFalse then
    (s, Outcome.valueError)
  else
    (⟨v == PyVal.pyTrue⟩, Outcome.ok)

/-- a whole history of assignments (exceptions caught by the caller), final state -/
def run (s : State) : List PyVal → State
  | [] => s
  | v :: vs => run (assign s v).1 vs

/-- the trace the driver prints: outcome and value of `activated` after each assignment -/
def trace (s : State) : List PyVal → List (Outcome × Bool)
  | [] => []
  | v :: vs => let r := assign s v; (r.2, activated r.1) :: trace r.1 vs

/-- parse one token of the driver protocol; `none` = bad request -/
def parseVal (t : String) : Option PyVal :=
  if t = "True" then some .pyTrue
  else if t = "False" then some .pyFalse
  else if t = "None" then some .pyNone
  else if t = "np:True" then some (.npBool true)
  else if t = "np:False" then some (.npBool false)
  else if t.startsWith "int:" then (t.drop 4).toString.toInt?.map PyVal.int
  else if t.startsWith "float:" then some (.float (t.drop 6).toString)
  else if t.startsWith "str:" then some (.str (t.drop 4).toString)
  else none

end Switch
