/-
Core-only exact model of the point-group tables of `xfab/symmetry.py` (property C12).

* `Symm.Z3` is the ring ℤ[√3] as pairs `⟨a, b⟩ = a + b·√3` (exact integer arithmetic).
  An entry of a rotation matrix of the trigonal / hexagonal systems is `(a + b·√3) / den` with one small
  common denominator `den` per table (`den = 2` there, `1` elsewhere): the tables are stored *scaled by `den`*,
  so that all arithmetic stays in ℤ[√3] and no division is ever needed.
* `Symm.Mat α` is a 3×3 matrix as nine fields (row major); product, transpose, trace, determinant, equality.
* `Symm.isGroup z d G`: Boolean check that the list `G` of matrices *scaled by `d`* is a group:
  no duplicates, contains the (scaled) identity, closed (full n² table: for all A B ∃ C, A·B = d·C),
  two-sided inverses in the list.  `Symm.allProper z d G`: every matrix satisfies AᵀA = d²·I and det A = d³.
  `Symm.pairB d Rs Ps E`: index-wise pairing `R·E·P = d·E` of a rotation table with a permutation table.

The interpretation into `Matrix (Fin 3) (Fin 3) ℝ` (with `√3 = Real.sqrt 3`) and the soundness lemmas are in
`XfabVerif/Proofs/C12.lean`.  The tables themselves are generated: `XfabVerif/Gen/Symmetry.lean`.
-/
namespace Symm

/-- `a + b·√3`, a, b integers -/
structure Z3 where
  a : Int
  b : Int

namespace Z3

def add (x y : Z3) : Z3 := ⟨x.a + y.a, x.b + y.b⟩
def sub (x y : Z3) : Z3 := ⟨x.a - y.a, x.b - y.b⟩
def neg (x : Z3) : Z3 := ⟨-x.a, -x.b⟩
/-- (a + b√3)(c + d√3) = (ac + 3bd) + (ad + bc)√3 -/
def mul (x y : Z3) : Z3 := ⟨x.a * y.a + 3 * (x.b * y.b), x.a * y.b + x.b * y.a⟩
def ofInt (n : Int) : Z3 := ⟨n, 0⟩
def beq (x y : Z3) : Bool := x.a == y.a && x.b == y.b

instance : Add Z3 := ⟨add⟩
instance : Sub Z3 := ⟨sub⟩
instance : Neg Z3 := ⟨neg⟩
instance : Mul Z3 := ⟨mul⟩
instance : BEq Z3 := ⟨beq⟩

theorem beq_iff (x y : Z3) : (x == y) = true ↔ x = y := by
  cases x; cases y
  show (Z3.beq _ _) = true ↔ _
  simp [Z3.beq]

instance : LawfulBEq Z3 where
  eq_of_beq {x y} h := (beq_iff x y).1 h
  rfl {x} := (beq_iff x x).2 rfl

/-- Float value, for the model driver only -/
def toFloat (x : Z3) : Float := Float.ofInt x.a + Float.ofInt x.b * Float.sqrt 3.0

end Z3

/-- 3×3 matrix, row major -/
structure Mat (α : Type) where
  m00 : α
  m01 : α
  m02 : α
  m10 : α
  m11 : α
  m12 : α
  m20 : α
  m21 : α
  m22 : α

namespace Mat
variable {α : Type}

def mul [Add α] [Mul α] (A B : Mat α) : Mat α :=
  { m00 := A.m00 * B.m00 + A.m01 * B.m10 + A.m02 * B.m20
    m01 := A.m00 * B.m01 + A.m01 * B.m11 + A.m02 * B.m21
    m02 := A.m00 * B.m02 + A.m01 * B.m12 + A.m02 * B.m22
    m10 := A.m10 * B.m00 + A.m11 * B.m10 + A.m12 * B.m20
    m11 := A.m10 * B.m01 + A.m11 * B.m11 + A.m12 * B.m21
    m12 := A.m10 * B.m02 + A.m11 * B.m12 + A.m12 * B.m22
    m20 := A.m20 * B.m00 + A.m21 * B.m10 + A.m22 * B.m20
    m21 := A.m20 * B.m01 + A.m21 * B.m11 + A.m22 * B.m21
    m22 := A.m20 * B.m02 + A.m21 * B.m12 + A.m22 * B.m22 }

def transpose (A : Mat α) : Mat α :=
  { m00 := A.m00, m01 := A.m10, m02 := A.m20
    m10 := A.m01, m11 := A.m11, m12 := A.m21
    m20 := A.m02, m21 := A.m12, m22 := A.m22 }

def trace [Add α] (A : Mat α) : α := A.m00 + A.m11 + A.m22

/-- same expansion as Mathlib's `Matrix.det_fin_three` -/
def det [Add α] [Sub α] [Mul α] (A : Mat α) : α :=
  A.m00 * A.m11 * A.m22 - A.m00 * A.m12 * A.m21 - A.m01 * A.m10 * A.m22
    + A.m01 * A.m12 * A.m20 + A.m02 * A.m10 * A.m21 - A.m02 * A.m11 * A.m20

/-- every entry multiplied by `d` -/
def scale [Mul α] (d : α) (A : Mat α) : Mat α :=
  { m00 := d * A.m00, m01 := d * A.m01, m02 := d * A.m02
    m10 := d * A.m10, m11 := d * A.m11, m12 := d * A.m12
    m20 := d * A.m20, m21 := d * A.m21, m22 := d * A.m22 }

/-- `d` on the diagonal, `z` (zero) elsewhere -/
def diag (z d : α) : Mat α :=
  { m00 := d, m01 := z, m02 := z, m10 := z, m11 := d, m12 := z, m20 := z, m21 := z, m22 := d }

def map {β : Type} (f : α → β) (A : Mat α) : Mat β :=
  { m00 := f A.m00, m01 := f A.m01, m02 := f A.m02
    m10 := f A.m10, m11 := f A.m11, m12 := f A.m12
    m20 := f A.m20, m21 := f A.m21, m22 := f A.m22 }

def toList (A : Mat α) : List α := [A.m00, A.m01, A.m02, A.m10, A.m11, A.m12, A.m20, A.m21, A.m22]

def beq [BEq α] (A B : Mat α) : Bool :=
  A.m00 == B.m00 && A.m01 == B.m01 && A.m02 == B.m02 &&
  A.m10 == B.m10 && A.m11 == B.m11 && A.m12 == B.m12 &&
  A.m20 == B.m20 && A.m21 == B.m21 && A.m22 == B.m22

end Mat

/-- no two entries of the list are equal -/
def nodupB {α : Type} [BEq α] : List (Mat α) → Bool
  | [] => true
  | A :: l => l.all (fun B => !(Mat.beq A B)) && nodupB l

/-- closure: for all A, B in the list there is C in the list with A·B = d·C (matrices are stored scaled by d) -/
def closedB {α : Type} [Add α] [Mul α] [BEq α] (d : α) (G : List (Mat α)) : Bool :=
  G.all fun A => G.all fun B => G.any fun C => Mat.beq (Mat.mul A B) (Mat.scale d C)

/-- two-sided inverses in the list: A·B = B·A = d²·I -/
def inversesB {α : Type} [Add α] [Mul α] [BEq α] (z d : α) (G : List (Mat α)) : Bool :=
  G.all fun A => G.any fun B => Mat.beq (Mat.mul A B) (Mat.diag z (d * d)) && Mat.beq (Mat.mul B A) (Mat.diag z (d * d))

/-- the list of matrices scaled by `d` is a group of matrices (`z` is the zero of the scalars) -/
def isGroup {α : Type} [Add α] [Mul α] [BEq α] (z d : α) (G : List (Mat α)) : Bool :=
  nodupB G && G.any (fun A => Mat.beq A (Mat.diag z d)) && closedB d G && inversesB z d G

/-- AᵀA = d²·I and det A = d³ : the matrix A/d is a proper rotation -/
def isProper {α : Type} [Add α] [Sub α] [Mul α] [BEq α] (z d : α) (A : Mat α) : Bool :=
  Mat.beq (Mat.mul (Mat.transpose A) A) (Mat.diag z (d * d)) && (Mat.det A == d * d * d)

def allProper {α : Type} [Add α] [Sub α] [Mul α] [BEq α] (z d : α) (G : List (Mat α)) : Bool :=
  G.all (isProper z d)

/-- determinant ±1 for every matrix of an (unscaled) integer table -/
def allUnimodular (G : List (Mat Int)) : Bool :=
  G.all fun A => Mat.det A == 1 || Mat.det A == -1

/-- pairing check on one matrix `E` over ℤ[√3]: the tables have equal length and `R·E·P = d·E` for every pair
`(R, P)` standing at the same index (`R` stored scaled by `d`, `P` an integer matrix) -/
def pairB (d : Z3) (Rs : List (Mat Z3)) (Ps : List (Mat Int)) (E : Mat Z3) : Bool :=
  Rs.length == Ps.length &&
    (Rs.zip Ps).all fun RP => Mat.beq (Mat.mul (Mat.mul RP.1 E) (Mat.map Z3.ofInt RP.2)) (Mat.scale d E)

end Symm
