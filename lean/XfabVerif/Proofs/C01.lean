/-
C01 — unit-cell matrices of xfab.tools / xfab.laue (generated models `Tools.*`, `Laue.*`).

For every geometrically valid cell (`Spec.ValidCell`): A and B are upper triangular with positive diagonal,
AᵀA = G (direct metric), BᵀB·G = k²·1 (k = 2π in tools, 1 in laue), det A = V, V² = det G, V > 0,
sintl = |B·hkl| / (2k), and the inverse maps (a_to_cell, b_to_cell, cell_invert∘cell_invert, form_a_mat_inv)
return the original cell / the true inverse.

Structure: `namespace C01` holds the algebra over abstract reals (a b c, cos/sin of the angles, S = √D) and
`rfl`-bridges to the generated definitions; the property theorems follow at top level.  The Laue definitions
`cell_volume, form_a_mat, form_a_mat_inv, a_to_cell, cell_invert, sintl` are syntactically equal to the Tools
ones (bridged by `rfl`, which breaks if either Python source changes); `Tools.form_b_mat = 2π • Laue.form_b_mat`.

Finding: the naive duality `B Aᵀ = k·1` does NOT hold for this code (both A and B are upper triangular,
i.e. written in different Cartesian frames); what holds is that `B Aᵀ / k` is a proper rotation.
-/
import XfabVerif.Gen.ToolsReal
import XfabVerif.Gen.LaueReal
import XfabVerif.Spec.Basic
set_option linter.unusedVariables false
set_option linter.style.longLine false
open Matrix
noncomputable section
namespace C01

structure Trig (ca cb cg sa sb sg S : ℝ) : Prop where
  ea : sa ^ 2 + ca ^ 2 = 1
  eb : sb ^ 2 + cb ^ 2 = 1
  eg : sg ^ 2 + cg ^ 2 = 1
  sa_pos : 0 < sa
  sb_pos : 0 < sb
  sg_pos : 0 < sg
  S_pos : 0 < S
  S_sq : S ^ 2 = 1 - ca ^ 2 - cb ^ 2 - cg ^ 2 + 2 * ca * cb * cg

lemma trig_of_valid {cell : Fin 6 → ℝ} (h : Spec.ValidCell cell) :
    Trig (Real.cos (Spec.rad (cell 3))) (Real.cos (Spec.rad (cell 4))) (Real.cos (Spec.rad (cell 5)))
      (Real.sin (Spec.rad (cell 3))) (Real.sin (Spec.rad (cell 4))) (Real.sin (Spec.rad (cell 5)))
      (Real.sqrt (Spec.gramD cell)) where
  ea := Real.sin_sq_add_cos_sq _
  eb := Real.sin_sq_add_cos_sq _
  eg := Real.sin_sq_add_cos_sq _
  sa_pos := Spec.sin_rad_pos h.al
  sb_pos := Spec.sin_rad_pos h.be
  sg_pos := Spec.sin_rad_pos h.ga
  S_pos := Real.sqrt_pos.mpr h.gram
  S_sq := Real.sq_sqrt h.gram.le

lemma cell_volume_eq (cell : Fin 6 → ℝ) :
    Tools.cell_volume cell = cell 0 * cell 1 * cell 2 * Real.sqrt (Spec.gramD cell) := by
  unfold Tools.cell_volume Spec.gramD Spec.rad
  simp only []
  congr 2
  ring

def Amat (a b c ca cb cg sb sg V : ℝ) : Matrix (Fin 3) (Fin 3) ℝ :=
  !![a, b * cg, c * cb;
     0, b * sg, -c * sb * ((cb * cg - ca) / (sb * sg));
     0, 0, c * sb * (V / (a * b * c * sb * sg))]

def Gmat (a b c ca cb cg : ℝ) : Matrix (Fin 3) (Fin 3) ℝ :=
  !![a * a, a * b * cg, a * c * cb;
     a * b * cg, b * b, b * c * ca;
     a * c * cb, b * c * ca, c * c]

lemma formA_eq (cell : Fin 6 → ℝ) : Tools.form_a_mat cell =
    Amat (cell 0) (cell 1) (cell 2) (Real.cos (Spec.rad (cell 3))) (Real.cos (Spec.rad (cell 4)))
      (Real.cos (Spec.rad (cell 5))) (Real.sin (Spec.rad (cell 4))) (Real.sin (Spec.rad (cell 5)))
      (Tools.cell_volume cell) := rfl

lemma metric_eq (cell : Fin 6 → ℝ) : Spec.metric cell =
    Gmat (cell 0) (cell 1) (cell 2) (Real.cos (Spec.rad (cell 3))) (Real.cos (Spec.rad (cell 4)))
      (Real.cos (Spec.rad (cell 5))) := rfl

variable {a b c ca cb cg sa sb sg S : ℝ}

lemma Amat_upper (ha : 0 < a) (hb : 0 < b) (hc : 0 < c) (T : Trig ca cb cg sa sb sg S) :
    Spec.IsUpperPos (Amat a b c ca cb cg sb sg (a * b * c * S)) := by
  obtain ⟨ea, eb, eg, hsa, hsb, hsg, hS, hS2⟩ := T
  refine ⟨rfl, rfl, rfl, ?_, ?_, ?_⟩
  · exact ha
  · show 0 < b * sg
    positivity
  · show 0 < c * sb * (a * b * c * S / (a * b * c * sb * sg))
    positivity

lemma Amat_gram (ha : 0 < a) (hb : 0 < b) (hc : 0 < c) (T : Trig ca cb cg sa sb sg S) :
    (Amat a b c ca cb cg sb sg (a * b * c * S))ᵀ * Amat a b c ca cb cg sb sg (a * b * c * S)
      = Gmat a b c ca cb cg := by
  obtain ⟨ea, eb, eg, hsa, hsb, hsg, hS, hS2⟩ := T
  have ha' := ha.ne'; have hb' := hb.ne'; have hc' := hc.ne'
  have hsb' := hsb.ne'; have hsg' := hsg.ne'
  ext i j; fin_cases i <;> fin_cases j <;>
    simp [Amat, Gmat, Matrix.mul_apply, Fin.sum_univ_three] <;> field_simp
  all_goals first
    | ring1
    | linear_combination eg
    | linear_combination hS2 + (cb ^ 2 - 1) * eg

lemma Amat_det (ha : 0 < a) (hb : 0 < b) (hc : 0 < c) (T : Trig ca cb cg sa sb sg S) :
    (Amat a b c ca cb cg sb sg (a * b * c * S)).det = a * b * c * S := by
  obtain ⟨ea, eb, eg, hsa, hsb, hsg, hS, hS2⟩ := T
  have ha' := ha.ne'; have hb' := hb.ne'; have hc' := hc.ne'
  have hsb' := hsb.ne'; have hsg' := hsg.ne'
  simp [Amat, Matrix.det_fin_three]
  field_simp

lemma Gmat_det (T : Trig ca cb cg sa sb sg S) :
    (Gmat a b c ca cb cg).det = (a * b * c * S) ^ 2 := by
  obtain ⟨ea, eb, eg, hsa, hsb, hsg, hS, hS2⟩ := T
  simp [Gmat, Matrix.det_fin_three]
  rw [mul_pow, hS2]; ring


/-! ### B -/
def Bmat (a b c ca cb cg sa sb sg V : ℝ) : Matrix (Fin 3) (Fin 3) ℝ :=
  !![b * c * sa / V, a * c * sb / V * ((ca * cb - cg) / (sa * sb)), a * b * sg / V * ((ca * cg - cb) / (sa * sg));
     0, a * c * sb / V * (V / (a * b * c * sa * sb)), -(a * b * sg / V) * (V / (a * b * c * sa * sg)) * ca;
     0, 0, a * b * sg / V * (V / (a * b * c * sa * sg)) * sa]

lemma formB_laue_eq (cell : Fin 6 → ℝ) : Laue.form_b_mat cell =
    Bmat (cell 0) (cell 1) (cell 2) (Real.cos (Spec.rad (cell 3))) (Real.cos (Spec.rad (cell 4)))
      (Real.cos (Spec.rad (cell 5))) (Real.sin (Spec.rad (cell 3))) (Real.sin (Spec.rad (cell 4)))
      (Real.sin (Spec.rad (cell 5))) (Tools.cell_volume cell) := rfl

lemma formB_tools_eq_smul (cell : Fin 6 → ℝ) :
    Tools.form_b_mat cell = (2 * Real.pi) • Laue.form_b_mat cell := by
  have hV : Laue.cell_volume = Tools.cell_volume := rfl
  unfold Tools.form_b_mat Laue.form_b_mat
  simp only [hV]
  ext i j; fin_cases i <;> fin_cases j <;> simp <;> ring1

/-- inverse of `Bmat` (a lower-Cholesky-like factor of the metric) -/
def Nmat (a b c ca cb cg sa S : ℝ) : Matrix (Fin 3) (Fin 3) ℝ :=
  !![a * S / sa, -a * (ca * cb - cg) / sa, a * cb;
     0, b * sa, b * ca;
     0, 0, c]

lemma Bmat_mul_Nmat (ha : 0 < a) (hb : 0 < b) (hc : 0 < c) (T : Trig ca cb cg sa sb sg S) :
    Bmat a b c ca cb cg sa sb sg (a * b * c * S) * Nmat a b c ca cb cg sa S = 1 := by
  obtain ⟨ea, eb, eg, hsa, hsb, hsg, hS, hS2⟩ := T
  have ha' := ha.ne'; have hb' := hb.ne'; have hc' := hc.ne'
  have hsa' := hsa.ne'; have hsb' := hsb.ne'; have hsg' := hsg.ne'; have hS' := hS.ne'
  ext i j; fin_cases i <;> fin_cases j <;>
    simp [Bmat, Nmat, Matrix.mul_apply, Fin.sum_univ_three] <;> field_simp <;>
    first
    | ring1
    | linear_combination cb * ea

lemma Nmat_mul_transpose (ha : 0 < a) (hb : 0 < b) (hc : 0 < c) (T : Trig ca cb cg sa sb sg S) :
    Nmat a b c ca cb cg sa S * (Nmat a b c ca cb cg sa S)ᵀ = Gmat a b c ca cb cg := by
  obtain ⟨ea, eb, eg, hsa, hsb, hsg, hS, hS2⟩ := T
  have hsa' := hsa.ne'
  ext i j; fin_cases i <;> fin_cases j <;>
    simp [Gmat, Nmat, Matrix.mul_apply, Fin.sum_univ_three] <;> field_simp
  all_goals first
    | ring1
    | linear_combination ea
    | linear_combination hS2 + (cb ^ 2 - 1) * ea


lemma Nmat_mul_Bmat (ha : 0 < a) (hb : 0 < b) (hc : 0 < c) (T : Trig ca cb cg sa sb sg S) :
    Nmat a b c ca cb cg sa S * Bmat a b c ca cb cg sa sb sg (a * b * c * S) = 1 :=
  mul_eq_one_comm.mp (Bmat_mul_Nmat ha hb hc T)

lemma Bmat_gram (ha : 0 < a) (hb : 0 < b) (hc : 0 < c) (T : Trig ca cb cg sa sb sg S) :
    (Bmat a b c ca cb cg sa sb sg (a * b * c * S))ᵀ * Bmat a b c ca cb cg sa sb sg (a * b * c * S)
      * Gmat a b c ca cb cg = 1 := by
  rw [← Nmat_mul_transpose ha hb hc T, Matrix.mul_assoc, ← Matrix.mul_assoc _ (Nmat a b c ca cb cg sa S),
    Bmat_mul_Nmat ha hb hc T, Matrix.one_mul, ← Matrix.transpose_mul, Nmat_mul_Bmat ha hb hc T,
    Matrix.transpose_one]

lemma Bmat_upper (ha : 0 < a) (hb : 0 < b) (hc : 0 < c) (T : Trig ca cb cg sa sb sg S) :
    Spec.IsUpperPos (Bmat a b c ca cb cg sa sb sg (a * b * c * S)) := by
  obtain ⟨ea, eb, eg, hsa, hsb, hsg, hS, hS2⟩ := T
  refine ⟨rfl, rfl, rfl, ?_, ?_, ?_⟩
  · show 0 < b * c * sa / (a * b * c * S)
    positivity
  · show 0 < a * c * sb / (a * b * c * S) * (a * b * c * S / (a * b * c * sa * sb))
    positivity
  · show 0 < a * b * sg / (a * b * c * S) * (a * b * c * S / (a * b * c * sa * sg)) * sa
    positivity

/-- reciprocal metric tensor (explicit inverse of `Gmat`), `D` the Gram determinant factor -/
def Gstar (a b c ca cb cg D : ℝ) : Matrix (Fin 3) (Fin 3) ℝ :=
  !![(1 - ca ^ 2) / (a ^ 2 * D), (ca * cb - cg) / (a * b * D), (ca * cg - cb) / (a * c * D);
     (ca * cb - cg) / (a * b * D), (1 - cb ^ 2) / (b ^ 2 * D), (cb * cg - ca) / (b * c * D);
     (ca * cg - cb) / (a * c * D), (cb * cg - ca) / (b * c * D), (1 - cg ^ 2) / (c ^ 2 * D)]

lemma Gmat_mul_Gstar {D : ℝ} (ha : 0 < a) (hb : 0 < b) (hc : 0 < c) (hD : 0 < D)
    (hDdef : D = 1 - ca ^ 2 - cb ^ 2 - cg ^ 2 + 2 * ca * cb * cg) :
    Gmat a b c ca cb cg * Gstar a b c ca cb cg D = 1 := by
  have ha' := ha.ne'; have hb' := hb.ne'; have hc' := hc.ne'; have hD' := hD.ne'
  ext i j; fin_cases i <;> fin_cases j <;>
    simp [Gmat, Gstar, Matrix.mul_apply, Fin.sum_univ_three] <;> field_simp <;>
    first
    | ring1
    | (rw [hDdef]; ring1)

lemma Bmat_gram' (ha : 0 < a) (hb : 0 < b) (hc : 0 < c) (T : Trig ca cb cg sa sb sg S) :
    (Bmat a b c ca cb cg sa sb sg (a * b * c * S))ᵀ * Bmat a b c ca cb cg sa sb sg (a * b * c * S)
      = Gstar a b c ca cb cg (S ^ 2) := by
  have hD : 0 < S ^ 2 := by have := T.S_pos; positivity
  have h1 := Bmat_gram ha hb hc T
  have h2 := Gmat_mul_Gstar (a := a) (b := b) (c := c) ha hb hc hD T.S_sq
  calc _ = (Bmat a b c ca cb cg sa sb sg (a * b * c * S))ᵀ * Bmat a b c ca cb cg sa sb sg (a * b * c * S)
            * (Gmat a b c ca cb cg * Gstar a b c ca cb cg (S ^ 2)) := by rw [h2, Matrix.mul_one]
    _ = _ := by rw [← Matrix.mul_assoc, h1, Matrix.one_mul]


/-! ### sintl -/
def P1 (a b c ca cb cg h k l : ℝ) : ℝ :=
  h * h / a ^ 2 * (1 - ca ^ 2) + k * k / b ^ 2 * (1 - cb ^ 2) + l * l / c ^ 2 * (1 - cg ^ 2)
    + 2 * h * k * (ca * cb - cg) / (a * b) + 2 * h * l * (ca * cg - cb) / (a * c)
    + 2 * k * l * (cb * cg - ca) / (b * c)

lemma sintl_eq_def (cell : Fin 6 → ℝ) (hkl : Fin 3 → ℝ) : Tools.sintl cell hkl =
    Real.sqrt (P1 (cell 0) (cell 1) (cell 2) (Real.cos (Spec.rad (cell 3))) (Real.cos (Spec.rad (cell 4)))
      (Real.cos (Spec.rad (cell 5))) (hkl 0) (hkl 1) (hkl 2)) /
    (2 * Real.sqrt (1 - (Real.cos (Spec.rad (cell 3)) ^ 2 + Real.cos (Spec.rad (cell 4)) ^ 2
      + Real.cos (Spec.rad (cell 5)) ^ 2)
      + 2 * Real.cos (Spec.rad (cell 3)) * Real.cos (Spec.rad (cell 4)) * Real.cos (Spec.rad (cell 5)))) := rfl

lemma mulVec_dot_self (B : Matrix (Fin 3) (Fin 3) ℝ) (v : Fin 3 → ℝ) :
    (B *ᵥ v) ⬝ᵥ (B *ᵥ v) = v ⬝ᵥ ((Bᵀ * B) *ᵥ v) := by
  conv_rhs => rw [← Matrix.mulVec_mulVec, Matrix.dotProduct_mulVec, Matrix.vecMul_transpose]

lemma dot_self_nonneg (v : Fin 3 → ℝ) : 0 ≤ v ⬝ᵥ v :=
  Finset.sum_nonneg fun i _ => mul_self_nonneg _

lemma P1_eq {D : ℝ} (ha : 0 < a) (hb : 0 < b) (hc : 0 < c) (hD : 0 < D) (v : Fin 3 → ℝ) :
    P1 a b c ca cb cg (v 0) (v 1) (v 2) = D * (v ⬝ᵥ (Gstar a b c ca cb cg D *ᵥ v)) := by
  have ha' := ha.ne'; have hb' := hb.ne'; have hc' := hc.ne'; have hD' := hD.ne'
  simp [P1, Gstar, dotProduct, Matrix.mulVec, Fin.sum_univ_three]
  field_simp
  ring

/-- abstract `sintl`: `(√P1 / (2 √D))² = |B v|² / 4` -/
lemma sintl_core (ha : 0 < a) (hb : 0 < b) (hc : 0 < c) (T : Trig ca cb cg sa sb sg S) (v : Fin 3 → ℝ) :
    (Real.sqrt (P1 a b c ca cb cg (v 0) (v 1) (v 2)) /
      (2 * Real.sqrt (1 - (ca ^ 2 + cb ^ 2 + cg ^ 2) + 2 * ca * cb * cg))) ^ 2 =
    (Bmat a b c ca cb cg sa sb sg (a * b * c * S) *ᵥ v) ⬝ᵥ
      (Bmat a b c ca cb cg sa sb sg (a * b * c * S) *ᵥ v) / 4 := by
  have hD : 0 < S ^ 2 := by have := T.S_pos; positivity
  have e2 : 1 - (ca ^ 2 + cb ^ 2 + cg ^ 2) + 2 * ca * cb * cg = S ^ 2 := by rw [T.S_sq]; ring
  have hP := P1_eq (ca := ca) (cb := cb) (cg := cg) ha hb hc hD v
  rw [← Bmat_gram' ha hb hc T, ← mulVec_dot_self] at hP
  have hnn := dot_self_nonneg (Bmat a b c ca cb cg sa sb sg (a * b * c * S) *ᵥ v)
  generalize (Bmat a b c ca cb cg sa sb sg (a * b * c * S) *ᵥ v) ⬝ᵥ
      (Bmat a b c ca cb cg sa sb sg (a * b * c * S) *ᵥ v) = X at hP hnn ⊢
  have hS' := T.S_pos.ne'
  rw [e2, div_pow, mul_pow, Real.sq_sqrt hD.le, Real.sq_sqrt (by rw [hP]; positivity), hP]
  field_simp
  ring


/-! ### key identities -/
section keys
variable (T : Trig ca cb cg sa sb sg S)
include T

lemma keyA : S ^ 2 + (cb * cg - ca) ^ 2 = (sb * sg) ^ 2 := by
  obtain ⟨ea, eb, eg, hsa, hsb, hsg, hS, hS2⟩ := T
  linear_combination (-sg ^ 2) * eb + (cb ^ 2 - 1) * eg + hS2

lemma keyB : S ^ 2 + (ca * cg - cb) ^ 2 = (sa * sg) ^ 2 := by
  obtain ⟨ea, eb, eg, hsa, hsb, hsg, hS, hS2⟩ := T
  linear_combination (-sg ^ 2) * ea + (ca ^ 2 - 1) * eg + hS2

lemma keyC : S ^ 2 + (ca * cb - cg) ^ 2 = (sa * sb) ^ 2 := by
  obtain ⟨ea, eb, eg, hsa, hsb, hsg, hS, hS2⟩ := T
  linear_combination (-sb ^ 2) * ea + (ca ^ 2 - 1) * eb + hS2

lemma keyD : (sa * sb * sg) ^ 2 - sa ^ 2 * (cb * cg - ca) ^ 2 - sb ^ 2 * (ca * cg - cb) ^ 2
    - sg ^ 2 * (ca * cb - cg) ^ 2 + 2 * (cb * cg - ca) * (ca * cg - cb) * (ca * cb - cg) = (S ^ 2) ^ 2 := by
  obtain ⟨ea, eb, eg, hsa, hsb, hsg, hS, hS2⟩ := T
  linear_combination (-(ca - cb * cg - sb * sg) * (ca - cb * cg + sb * sg)) * ea
    + (-ca ^ 2 * cg ^ 2 - ca ^ 2 * sg ^ 2 + 2 * ca * cb * cg - cb ^ 2 + sg ^ 2) * eb
    + (-ca ^ 2 + 2 * ca * cb * cg - cb ^ 2 - cg ^ 2 + 1) * eg
    + (-S ^ 2 + ca ^ 2 - 2 * ca * cb * cg + cb ^ 2 + cg ^ 2 - 1) * hS2

lemma keyEa : (ca * cg - cb) * (ca * cb - cg) - (cb * cg - ca) * sa ^ 2 = ca * S ^ 2 := by
  obtain ⟨ea, eb, eg, hsa, hsb, hsg, hS, hS2⟩ := T
  linear_combination (ca - cb * cg) * ea - ca * hS2

lemma keyEb : (cb * cg - ca) * (ca * cb - cg) - (ca * cg - cb) * sb ^ 2 = cb * S ^ 2 := by
  obtain ⟨ea, eb, eg, hsa, hsb, hsg, hS, hS2⟩ := T
  linear_combination (-ca * cg + cb) * eb - cb * hS2

lemma keyEg : (cb * cg - ca) * (ca * cg - cb) - (ca * cb - cg) * sg ^ 2 = cg * S ^ 2 := by
  obtain ⟨ea, eb, eg, hsa, hsb, hsg, hS, hS2⟩ := T
  linear_combination (-ca * cb + cg) * eg - cg * hS2

/-- the reciprocal angles' cos / sin and the reciprocal Gram factor again satisfy `Trig` -/
lemma recip_trig :
    Trig ((cb * cg - ca) / (sb * sg)) ((ca * cg - cb) / (sa * sg)) ((ca * cb - cg) / (sa * sb))
      (S / (sb * sg)) (S / (sa * sg)) (S / (sa * sb)) (S ^ 2 / (sa * sb * sg)) := by
  have kA := keyA T; have kB := keyB T; have kC := keyC T; have kD := keyD T
  obtain ⟨ea, eb, eg, hsa, hsb, hsg, hS, hS2⟩ := T
  have hsa' := hsa.ne'; have hsb' := hsb.ne'; have hsg' := hsg.ne'
  refine ⟨?_, ?_, ?_, by positivity, by positivity, by positivity, by positivity, ?_⟩
  · rw [div_pow, div_pow, ← add_div, kA]; exact div_self (by positivity)
  · rw [div_pow, div_pow, ← add_div, kB]; exact div_self (by positivity)
  · rw [div_pow, div_pow, ← add_div, kC]; exact div_self (by positivity)
  · rw [div_pow, ← kD]
    field_simp

end keys


/-! ### inverse maps -/
/-- a cell given by lengths and the *cosines* of its angles (angles stored in degrees) -/
def cellOf (a b c x y z : ℝ) : Fin 6 → ℝ :=
  ![a, b, c, Real.arccos x * 180 / Real.pi, Real.arccos y * 180 / Real.pi, Real.arccos z * 180 / Real.pi]

lemma arccos_cos_rad {t : ℝ} (h : 0 < t ∧ t < 180) :
    Real.arccos (Real.cos (Spec.rad t)) * 180 / Real.pi = t := by
  rw [Real.arccos_cos (Spec.rad_mem h).1.le (Spec.rad_mem h).2.le]
  unfold Spec.rad
  have := Real.pi_pos.ne'
  field_simp

lemma rad_arccos (x : ℝ) : Spec.rad (Real.arccos x * 180 / Real.pi) = Real.arccos x := by
  unfold Spec.rad
  have := Real.pi_pos.ne'
  field_simp

lemma cellOf_cos {cell : Fin 6 → ℝ} (h : Spec.ValidCell cell) :
    cellOf (cell 0) (cell 1) (cell 2) (Real.cos (Spec.rad (cell 3))) (Real.cos (Spec.rad (cell 4)))
      (Real.cos (Spec.rad (cell 5))) = cell := by
  funext i
  fin_cases i
  · rfl
  · rfl
  · rfl
  · exact arccos_cos_rad h.al
  · exact arccos_cos_rad h.be
  · exact arccos_cos_rad h.ga

lemma a_to_cell_of_gram {A : Matrix (Fin 3) (Fin 3) ℝ} {x y z : ℝ} (ha : 0 < a) (hb : 0 < b) (hc : 0 < c)
    (h : Aᵀ * A = Gmat a b c x y z) : Tools.a_to_cell A = cellOf a b c x y z := by
  have ha' := ha.ne'; have hb' := hb.ne'; have hc' := hc.ne'
  have e00 : (Aᵀ * A) 0 0 = a * a := by rw [h]; rfl
  have e11 : (Aᵀ * A) 1 1 = b * b := by rw [h]; rfl
  have e22 : (Aᵀ * A) 2 2 = c * c := by rw [h]; rfl
  have e12 : (Aᵀ * A) 1 2 = b * c * x := by rw [h]; rfl
  have e02 : (Aᵀ * A) 0 2 = a * c * y := by rw [h]; rfl
  have e01 : (Aᵀ * A) 0 1 = a * b * z := by rw [h]; rfl
  have f12 : b * c * x / b / c = x := by field_simp
  have f02 : a * c * y / a / c = y := by field_simp
  have f01 : a * b * z / a / b = z := by field_simp
  unfold Tools.a_to_cell cellOf
  simp only [e00, e11, e22, e12, e02, e01, Real.sqrt_mul_self ha.le, Real.sqrt_mul_self hb.le,
    Real.sqrt_mul_self hc.le, f12, f02, f01]

lemma cell_invert_eq (cell : Fin 6 → ℝ) : Tools.cell_invert cell =
    cellOf (cell 1 * cell 2 * Real.sin (Spec.rad (cell 3)) / Tools.cell_volume cell)
      (cell 0 * cell 2 * Real.sin (Spec.rad (cell 4)) / Tools.cell_volume cell)
      (cell 0 * cell 1 * Real.sin (Spec.rad (cell 5)) / Tools.cell_volume cell)
      ((Real.cos (Spec.rad (cell 4)) * Real.cos (Spec.rad (cell 5)) - Real.cos (Spec.rad (cell 3))) /
        (Real.sin (Spec.rad (cell 4)) * Real.sin (Spec.rad (cell 5))))
      ((Real.cos (Spec.rad (cell 3)) * Real.cos (Spec.rad (cell 5)) - Real.cos (Spec.rad (cell 4))) /
        (Real.sin (Spec.rad (cell 3)) * Real.sin (Spec.rad (cell 5))))
      ((Real.cos (Spec.rad (cell 3)) * Real.cos (Spec.rad (cell 4)) - Real.cos (Spec.rad (cell 5))) /
        (Real.sin (Spec.rad (cell 3)) * Real.sin (Spec.rad (cell 4)))) := rfl

lemma abs_lt_one_of_trig {s x : ℝ} (h : s ^ 2 + x ^ 2 = 1) (hs : 0 < s) : -1 < x ∧ x < 1 := by
  have : x ^ 2 < 1 := by nlinarith [sq_pos_of_pos hs]
  constructor <;> nlinarith

lemma validCell_cellOf {x y z : ℝ} (ha : 0 < a) (hb : 0 < b) (hc : 0 < c)
    (hx : -1 < x ∧ x < 1) (hy : -1 < y ∧ y < 1) (hz : -1 < z ∧ z < 1)
    (hD : 0 < 1 - x ^ 2 - y ^ 2 - z ^ 2 + 2 * x * y * z) : Spec.ValidCell (cellOf a b c x y z) := by
  have hp := Real.pi_pos
  have ang : ∀ w : ℝ, -1 < w ∧ w < 1 → 0 < Real.arccos w * 180 / Real.pi ∧ Real.arccos w * 180 / Real.pi < 180 := by
    intro w hw
    have h1 := Real.arccos_pos.mpr hw.2
    have h2 := Real.arccos_lt_pi.mpr hw.1
    constructor
    · positivity
    · rw [div_lt_iff₀ hp]; nlinarith
  refine ⟨ha, hb, hc, ang x hx, ang y hy, ang z hz, ?_⟩
  show 0 < 1 - Real.cos (Spec.rad (Real.arccos x * 180 / Real.pi)) ^ 2
    - Real.cos (Spec.rad (Real.arccos y * 180 / Real.pi)) ^ 2
    - Real.cos (Spec.rad (Real.arccos z * 180 / Real.pi)) ^ 2
    + 2 * Real.cos (Spec.rad (Real.arccos x * 180 / Real.pi)) * Real.cos (Spec.rad (Real.arccos y * 180 / Real.pi))
      * Real.cos (Spec.rad (Real.arccos z * 180 / Real.pi))
  rw [rad_arccos, rad_arccos, rad_arccos, Real.cos_arccos hx.1.le hx.2.le, Real.cos_arccos hy.1.le hy.2.le,
    Real.cos_arccos hz.1.le hz.2.le]
  exact hD


lemma cell_invert_cellOf {x y z sx sy sz R : ℝ} (ha : 0 < a) (hb : 0 < b) (hc : 0 < c)
    (T : Trig x y z sx sy sz R) :
    Tools.cell_invert (cellOf a b c x y z) =
      cellOf (b * c * sx / (a * b * c * R)) (a * c * sy / (a * b * c * R)) (a * b * sz / (a * b * c * R))
        ((y * z - x) / (sy * sz)) ((x * z - y) / (sx * sz)) ((x * y - z) / (sx * sy)) := by
  have hx := abs_lt_one_of_trig T.ea T.sa_pos
  have hy := abs_lt_one_of_trig T.eb T.sb_pos
  have hz := abs_lt_one_of_trig T.eg T.sg_pos
  have c3 : Real.cos (Spec.rad (cellOf a b c x y z 3)) = x := by
    show Real.cos (Spec.rad (Real.arccos x * 180 / Real.pi)) = x
    rw [rad_arccos, Real.cos_arccos hx.1.le hx.2.le]
  have c4 : Real.cos (Spec.rad (cellOf a b c x y z 4)) = y := by
    show Real.cos (Spec.rad (Real.arccos y * 180 / Real.pi)) = y
    rw [rad_arccos, Real.cos_arccos hy.1.le hy.2.le]
  have c5 : Real.cos (Spec.rad (cellOf a b c x y z 5)) = z := by
    show Real.cos (Spec.rad (Real.arccos z * 180 / Real.pi)) = z
    rw [rad_arccos, Real.cos_arccos hz.1.le hz.2.le]
  have s3 : Real.sin (Spec.rad (cellOf a b c x y z 3)) = sx := by
    show Real.sin (Spec.rad (Real.arccos x * 180 / Real.pi)) = sx
    rw [rad_arccos, Real.sin_arccos, show 1 - x ^ 2 = sx ^ 2 by linarith [T.ea], Real.sqrt_sq T.sa_pos.le]
  have s4 : Real.sin (Spec.rad (cellOf a b c x y z 4)) = sy := by
    show Real.sin (Spec.rad (Real.arccos y * 180 / Real.pi)) = sy
    rw [rad_arccos, Real.sin_arccos, show 1 - y ^ 2 = sy ^ 2 by linarith [T.eb], Real.sqrt_sq T.sb_pos.le]
  have s5 : Real.sin (Spec.rad (cellOf a b c x y z 5)) = sz := by
    show Real.sin (Spec.rad (Real.arccos z * 180 / Real.pi)) = sz
    rw [rad_arccos, Real.sin_arccos, show 1 - z ^ 2 = sz ^ 2 by linarith [T.eg], Real.sqrt_sq T.sg_pos.le]
  have hG : Spec.gramD (cellOf a b c x y z) = R ^ 2 := by
    unfold Spec.gramD
    rw [c3, c4, c5]
    exact T.S_sq.symm
  have hV : Tools.cell_volume (cellOf a b c x y z) = a * b * c * R := by
    rw [cell_volume_eq, hG, Real.sqrt_sq T.S_pos.le]
    rfl
  rw [cell_invert_eq, c3, c4, c5, s3, s4, s5, hV]
  rfl

/-- the reciprocal of the reciprocal data is the original data -/
lemma recip_recip (ha : 0 < a) (hb : 0 < b) (hc : 0 < c) (T : Trig ca cb cg sa sb sg S) :
    cellOf
      ((a * c * sb / (a * b * c * S)) * (a * b * sg / (a * b * c * S)) * (S / (sb * sg)) /
        ((b * c * sa / (a * b * c * S)) * (a * c * sb / (a * b * c * S)) * (a * b * sg / (a * b * c * S)) *
          (S ^ 2 / (sa * sb * sg))))
      ((b * c * sa / (a * b * c * S)) * (a * b * sg / (a * b * c * S)) * (S / (sa * sg)) /
        ((b * c * sa / (a * b * c * S)) * (a * c * sb / (a * b * c * S)) * (a * b * sg / (a * b * c * S)) *
          (S ^ 2 / (sa * sb * sg))))
      ((b * c * sa / (a * b * c * S)) * (a * c * sb / (a * b * c * S)) * (S / (sa * sb)) /
        ((b * c * sa / (a * b * c * S)) * (a * c * sb / (a * b * c * S)) * (a * b * sg / (a * b * c * S)) *
          (S ^ 2 / (sa * sb * sg))))
      (((ca * cg - cb) / (sa * sg) * ((ca * cb - cg) / (sa * sb)) - (cb * cg - ca) / (sb * sg)) /
        (S / (sa * sg) * (S / (sa * sb))))
      (((cb * cg - ca) / (sb * sg) * ((ca * cb - cg) / (sa * sb)) - (ca * cg - cb) / (sa * sg)) /
        (S / (sb * sg) * (S / (sa * sb))))
      (((cb * cg - ca) / (sb * sg) * ((ca * cg - cb) / (sa * sg)) - (ca * cb - cg) / (sa * sb)) /
        (S / (sb * sg) * (S / (sa * sg))))
    = cellOf a b c ca cb cg := by
  have kEa := keyEa T; have kEb := keyEb T; have kEg := keyEg T
  obtain ⟨ea, eb, eg, hsa, hsb, hsg, hS, hS2⟩ := T
  have ha' := ha.ne'; have hb' := hb.ne'; have hc' := hc.ne'
  have hsa' := hsa.ne'; have hsb' := hsb.ne'; have hsg' := hsg.ne'; have hS' := hS.ne'
  congr 1
  · field_simp
  · field_simp
  · field_simp
  · field_simp
    linear_combination kEa
  · field_simp
    linear_combination kEb
  · field_simp
    linear_combination kEg

lemma Gstar_eq_Gmat (ha : 0 < a) (hb : 0 < b) (hc : 0 < c) (T : Trig ca cb cg sa sb sg S) :
    Gstar a b c ca cb cg (S ^ 2) =
      Gmat (b * c * sa / (a * b * c * S)) (a * c * sb / (a * b * c * S)) (a * b * sg / (a * b * c * S))
        ((cb * cg - ca) / (sb * sg)) ((ca * cg - cb) / (sa * sg)) ((ca * cb - cg) / (sa * sb)) := by
  obtain ⟨ea, eb, eg, hsa, hsb, hsg, hS, hS2⟩ := T
  have ha' := ha.ne'; have hb' := hb.ne'; have hc' := hc.ne'
  have hsa' := hsa.ne'; have hsb' := hsb.ne'; have hsg' := hsg.ne'; have hS' := hS.ne'
  ext i j; fin_cases i <;> fin_cases j <;>
    simp [Gmat, Gstar] <;> field_simp
  all_goals first
    | linear_combination -ea
    | linear_combination -eb
    | linear_combination -eg

lemma Bmat_det (ha : 0 < a) (hb : 0 < b) (hc : 0 < c) (T : Trig ca cb cg sa sb sg S) :
    (Bmat a b c ca cb cg sa sb sg (a * b * c * S)).det = 1 / (a * b * c * S) := by
  obtain ⟨ea, eb, eg, hsa, hsb, hsg, hS, hS2⟩ := T
  have ha' := ha.ne'; have hb' := hb.ne'; have hc' := hc.ne'
  have hsa' := hsa.ne'; have hsb' := hsb.ne'; have hsg' := hsg.ne'; have hS' := hS.ne'
  simp [Bmat, Matrix.det_fin_three]
  field_simp

end C01

/-! ## Property theorems -/
open C01

variable {cell : Fin 6 → ℝ}

private lemma laue_vol : Laue.cell_volume = Tools.cell_volume := rfl
private lemma laue_formA : Laue.form_a_mat = Tools.form_a_mat := rfl
private lemma laue_formAinv : Laue.form_a_mat_inv = Tools.form_a_mat_inv := rfl
private lemma laue_a_to_cell : Laue.a_to_cell = Tools.a_to_cell := rfl
private lemma laue_cell_invert : Laue.cell_invert = Tools.cell_invert := rfl
private lemma laue_sintl : Laue.sintl = Tools.sintl := rfl
private lemma laue_b_to_cell (B : Matrix (Fin 3) (Fin 3) ℝ) :
    Laue.b_to_cell B = Tools.cell_invert (Tools.a_to_cell B) := rfl
private lemma tools_b_to_cell (B : Matrix (Fin 3) (Fin 3) ℝ) :
    Tools.b_to_cell B = Tools.cell_invert (Tools.a_to_cell ((2 * Real.pi)⁻¹ • B)) := rfl

/-- abbreviations: the abstract matrices instantiated at a cell -/
private lemma formA_eq' (cell : Fin 6 → ℝ) : Tools.form_a_mat cell =
    Amat (cell 0) (cell 1) (cell 2) (Real.cos (Spec.rad (cell 3))) (Real.cos (Spec.rad (cell 4)))
      (Real.cos (Spec.rad (cell 5))) (Real.sin (Spec.rad (cell 4))) (Real.sin (Spec.rad (cell 5)))
      (cell 0 * cell 1 * cell 2 * Real.sqrt (Spec.gramD cell)) := by
  rw [formA_eq, cell_volume_eq]

private lemma formB_eq' (cell : Fin 6 → ℝ) : Laue.form_b_mat cell =
    Bmat (cell 0) (cell 1) (cell 2) (Real.cos (Spec.rad (cell 3))) (Real.cos (Spec.rad (cell 4)))
      (Real.cos (Spec.rad (cell 5))) (Real.sin (Spec.rad (cell 3))) (Real.sin (Spec.rad (cell 4)))
      (Real.sin (Spec.rad (cell 5))) (cell 0 * cell 1 * cell 2 * Real.sqrt (Spec.gramD cell)) := by
  rw [formB_laue_eq, cell_volume_eq]

/-- C01.1 (tools): A is upper triangular with positive diagonal. -/
theorem formA_upper_tools (h : Spec.ValidCell cell) : Spec.IsUpperPos (Tools.form_a_mat cell) := by
  rw [formA_eq']; exact Amat_upper h.a_pos h.b_pos h.c_pos (trig_of_valid h)

/-- C01.1 (laue): A is upper triangular with positive diagonal. -/
theorem formA_upper_laue (h : Spec.ValidCell cell) : Spec.IsUpperPos (Laue.form_a_mat cell) := by
  rw [laue_formA]; exact formA_upper_tools h

/-- C01.1 (tools): positive diagonal of A. -/
theorem formA_diag_pos_tools (h : Spec.ValidCell cell) :
    0 < Tools.form_a_mat cell 0 0 ∧ 0 < Tools.form_a_mat cell 1 1 ∧ 0 < Tools.form_a_mat cell 2 2 :=
  (formA_upper_tools h).2.2.2

/-- C01.1 (laue): positive diagonal of A. -/
theorem formA_diag_pos_laue (h : Spec.ValidCell cell) :
    0 < Laue.form_a_mat cell 0 0 ∧ 0 < Laue.form_a_mat cell 1 1 ∧ 0 < Laue.form_a_mat cell 2 2 :=
  (formA_upper_laue h).2.2.2

/-- C01.2 (tools): AᵀA is the direct metric tensor. -/
theorem formA_gram_tools (h : Spec.ValidCell cell) :
    (Tools.form_a_mat cell)ᵀ * Tools.form_a_mat cell = Spec.metric cell := by
  rw [formA_eq', metric_eq]; exact Amat_gram h.a_pos h.b_pos h.c_pos (trig_of_valid h)

/-- C01.2 (laue): AᵀA is the direct metric tensor. -/
theorem formA_gram_laue (h : Spec.ValidCell cell) :
    (Laue.form_a_mat cell)ᵀ * Laue.form_a_mat cell = Spec.metric cell := by
  rw [laue_formA]; exact formA_gram_tools h

/-- C01.3 (laue): B is upper triangular with positive diagonal. -/
theorem formB_upper_laue (h : Spec.ValidCell cell) : Spec.IsUpperPos (Laue.form_b_mat cell) := by
  rw [formB_eq']; exact Bmat_upper h.a_pos h.b_pos h.c_pos (trig_of_valid h)

/-- C01.3 (tools): B is upper triangular with positive diagonal. -/
theorem formB_upper_tools (h : Spec.ValidCell cell) : Spec.IsUpperPos (Tools.form_b_mat cell) := by
  obtain ⟨h1, h2, h3, h4, h5, h6⟩ := formB_upper_laue h
  have hp : 0 < 2 * Real.pi := by positivity
  rw [formB_tools_eq_smul]
  refine ⟨?_, ?_, ?_, ?_, ?_, ?_⟩ <;> simp only [Matrix.smul_apply, smul_eq_mul]
  · rw [h1, mul_zero]
  · rw [h2, mul_zero]
  · rw [h3, mul_zero]
  · exact mul_pos hp h4
  · exact mul_pos hp h5
  · exact mul_pos hp h6

/-- C01.3 (tools): positive diagonal of B. -/
theorem formB_diag_pos_tools (h : Spec.ValidCell cell) :
    0 < Tools.form_b_mat cell 0 0 ∧ 0 < Tools.form_b_mat cell 1 1 ∧ 0 < Tools.form_b_mat cell 2 2 :=
  (formB_upper_tools h).2.2.2

/-- C01.3 (laue): positive diagonal of B. -/
theorem formB_diag_pos_laue (h : Spec.ValidCell cell) :
    0 < Laue.form_b_mat cell 0 0 ∧ 0 < Laue.form_b_mat cell 1 1 ∧ 0 < Laue.form_b_mat cell 2 2 :=
  (formB_upper_laue h).2.2.2

/-- C01.4 (laue): BᵀB is the reciprocal metric tensor: BᵀB·G = 1. -/
theorem formB_gram_laue (h : Spec.ValidCell cell) :
    (Laue.form_b_mat cell)ᵀ * Laue.form_b_mat cell * Spec.metric cell = 1 := by
  rw [formB_eq', metric_eq]; exact Bmat_gram h.a_pos h.b_pos h.c_pos (trig_of_valid h)

/-- C01.4 (tools): BᵀB is (2π)² times the reciprocal metric tensor: BᵀB·G = (2π)²·1. -/
theorem formB_gram_tools (h : Spec.ValidCell cell) :
    (Tools.form_b_mat cell)ᵀ * Tools.form_b_mat cell * Spec.metric cell = ((2 * Real.pi) ^ 2) • (1 : Matrix (Fin 3) (Fin 3) ℝ) := by
  rw [formB_tools_eq_smul, Matrix.transpose_smul, Matrix.smul_mul, Matrix.mul_smul, Matrix.smul_mul,
    Matrix.smul_mul, smul_smul, formB_gram_laue h, sq]

/-- C01.5 (tools): det A is the cell volume. -/
theorem det_formA_tools (h : Spec.ValidCell cell) :
    Matrix.det (Tools.form_a_mat cell) = Tools.cell_volume cell := by
  rw [formA_eq', cell_volume_eq]; exact Amat_det h.a_pos h.b_pos h.c_pos (trig_of_valid h)

/-- C01.5 (laue): det A is the cell volume. -/
theorem det_formA_laue (h : Spec.ValidCell cell) :
    Matrix.det (Laue.form_a_mat cell) = Laue.cell_volume cell := by
  rw [laue_formA, laue_vol]; exact det_formA_tools h

/-- C01.5 (tools): the squared volume is the determinant of the metric tensor. -/
theorem cell_volume_sq_tools (h : Spec.ValidCell cell) :
    Tools.cell_volume cell ^ 2 = Matrix.det (Spec.metric cell) := by
  rw [cell_volume_eq, metric_eq, Gmat_det (trig_of_valid h)]

/-- C01.5 (laue): the squared volume is the determinant of the metric tensor. -/
theorem cell_volume_sq_laue (h : Spec.ValidCell cell) :
    Laue.cell_volume cell ^ 2 = Matrix.det (Spec.metric cell) := by
  rw [laue_vol]; exact cell_volume_sq_tools h

/-- C01.5 (tools): the volume of a valid cell is positive. -/
theorem cell_volume_pos_tools (h : Spec.ValidCell cell) : 0 < Tools.cell_volume cell := by
  rw [cell_volume_eq]
  have := h.a_pos; have := h.b_pos; have := h.c_pos; have := (trig_of_valid h).S_pos
  positivity

/-- C01.5 (laue): the volume of a valid cell is positive. -/
theorem cell_volume_pos_laue (h : Spec.ValidCell cell) : 0 < Laue.cell_volume cell := by
  rw [laue_vol]; exact cell_volume_pos_tools h

/-- C01.6 (laue): sin(θ)/λ squared is |B·hkl|²/4. -/
theorem sintl_sq_laue (h : Spec.ValidCell cell) (hkl : Fin 3 → ℝ) :
    Laue.sintl cell hkl ^ 2 =
      (Laue.form_b_mat cell *ᵥ hkl) ⬝ᵥ (Laue.form_b_mat cell *ᵥ hkl) / (4 * (1 : ℝ) ^ 2) := by
  rw [laue_sintl, sintl_eq_def, formB_eq', one_pow, mul_one]
  exact sintl_core h.a_pos h.b_pos h.c_pos (trig_of_valid h) hkl

/-- C01.6 (tools): sin(θ)/λ squared is |B·hkl|²/(4·(2π)²). -/
theorem sintl_sq_tools (h : Spec.ValidCell cell) (hkl : Fin 3 → ℝ) :
    Tools.sintl cell hkl ^ 2 =
      (Tools.form_b_mat cell *ᵥ hkl) ⬝ᵥ (Tools.form_b_mat cell *ᵥ hkl) / (4 * (2 * Real.pi) ^ 2) := by
  have hL := sintl_sq_laue h hkl
  rw [laue_sintl, one_pow, mul_one] at hL
  have hp : (2 * Real.pi) ≠ 0 := by positivity
  rw [hL, formB_tools_eq_smul, Matrix.smul_mulVec, smul_dotProduct, dotProduct_smul, smul_eq_mul, smul_eq_mul]
  field_simp

/-- C01.6 (tools): sin(θ)/λ is non-negative. -/
theorem sintl_nonneg_tools (cell : Fin 6 → ℝ) (hkl : Fin 3 → ℝ) : 0 ≤ Tools.sintl cell hkl := by
  rw [sintl_eq_def]
  exact div_nonneg (Real.sqrt_nonneg _) (mul_nonneg (by norm_num) (Real.sqrt_nonneg _))

/-- C01.6 (laue): sin(θ)/λ is non-negative. -/
theorem sintl_nonneg_laue (cell : Fin 6 → ℝ) (hkl : Fin 3 → ℝ) : 0 ≤ Laue.sintl cell hkl := by
  rw [laue_sintl]; exact sintl_nonneg_tools cell hkl

/-- C01.6 (tools): sin(θ)/λ = |B·hkl| / (4π). -/
theorem sintl_eq_tools (h : Spec.ValidCell cell) (hkl : Fin 3 → ℝ) :
    Tools.sintl cell hkl =
      Real.sqrt ((Tools.form_b_mat cell *ᵥ hkl) ⬝ᵥ (Tools.form_b_mat cell *ᵥ hkl)) / (2 * (2 * Real.pi)) := by
  have hp : (0 : ℝ) ≤ 2 * (2 * Real.pi) := by positivity
  rw [← Real.sqrt_sq (sintl_nonneg_tools cell hkl), sintl_sq_tools h hkl,
    show (4 : ℝ) * (2 * Real.pi) ^ 2 = (2 * (2 * Real.pi)) ^ 2 by ring,
    Real.sqrt_div' _ (sq_nonneg _), Real.sqrt_sq hp]

/-- C01.6 (laue): sin(θ)/λ = |B·hkl| / 2. -/
theorem sintl_eq_laue (h : Spec.ValidCell cell) (hkl : Fin 3 → ℝ) :
    Laue.sintl cell hkl =
      Real.sqrt ((Laue.form_b_mat cell *ᵥ hkl) ⬝ᵥ (Laue.form_b_mat cell *ᵥ hkl)) / (2 * 1) := by
  rw [← Real.sqrt_sq (sintl_nonneg_laue cell hkl), sintl_sq_laue h hkl,
    show (4 : ℝ) * 1 ^ 2 = (2 * 1) ^ 2 by ring,
    Real.sqrt_div' _ (sq_nonneg _), Real.sqrt_sq (by norm_num)]

/-- C01.9 (tools): `form_a_mat_inv` is a left inverse of `form_a_mat`. -/
theorem formAinv_mul_tools (h : Spec.ValidCell cell) :
    Tools.form_a_mat_inv cell * Tools.form_a_mat cell = 1 := by
  show (Tools.form_a_mat cell)⁻¹ * Tools.form_a_mat cell = 1
  apply Matrix.nonsing_inv_mul
  rw [det_formA_tools h]
  exact (cell_volume_pos_tools h).ne'.isUnit

/-- C01.9 (tools): `form_a_mat_inv` is a right inverse of `form_a_mat`. -/
theorem formA_mul_inv_tools (h : Spec.ValidCell cell) :
    Tools.form_a_mat cell * Tools.form_a_mat_inv cell = 1 :=
  mul_eq_one_comm.mp (formAinv_mul_tools h)

/-- C01.9 (laue): `form_a_mat_inv` is a left inverse of `form_a_mat`. -/
theorem formAinv_mul_laue (h : Spec.ValidCell cell) :
    Laue.form_a_mat_inv cell * Laue.form_a_mat cell = 1 := by
  rw [laue_formAinv, laue_formA]; exact formAinv_mul_tools h

/-- C01.9 (laue): `form_a_mat_inv` is a right inverse of `form_a_mat`. -/
theorem formA_mul_inv_laue (h : Spec.ValidCell cell) :
    Laue.form_a_mat cell * Laue.form_a_mat_inv cell = 1 :=
  mul_eq_one_comm.mp (formAinv_mul_laue h)

/-- C01.7 (tools): `a_to_cell` recovers the six cell parameters from A. -/
theorem a_to_cell_formA_tools (h : Spec.ValidCell cell) :
    Tools.a_to_cell (Tools.form_a_mat cell) = cell := by
  have hg := formA_gram_tools h
  rw [metric_eq] at hg
  rw [a_to_cell_of_gram h.a_pos h.b_pos h.c_pos hg, cellOf_cos h]

/-- C01.7 (laue): `a_to_cell` recovers the six cell parameters from A. -/
theorem a_to_cell_formA_laue (h : Spec.ValidCell cell) :
    Laue.a_to_cell (Laue.form_a_mat cell) = cell := by
  rw [laue_a_to_cell, laue_formA]; exact a_to_cell_formA_tools h

/-- explicit reciprocal cell of a valid cell -/
private lemma cell_invert_valid_eq (h : Spec.ValidCell cell) :
    Tools.cell_invert cell =
      cellOf (cell 1 * cell 2 * Real.sin (Spec.rad (cell 3)) / (cell 0 * cell 1 * cell 2 * Real.sqrt (Spec.gramD cell)))
        (cell 0 * cell 2 * Real.sin (Spec.rad (cell 4)) / (cell 0 * cell 1 * cell 2 * Real.sqrt (Spec.gramD cell)))
        (cell 0 * cell 1 * Real.sin (Spec.rad (cell 5)) / (cell 0 * cell 1 * cell 2 * Real.sqrt (Spec.gramD cell)))
        ((Real.cos (Spec.rad (cell 4)) * Real.cos (Spec.rad (cell 5)) - Real.cos (Spec.rad (cell 3))) /
          (Real.sin (Spec.rad (cell 4)) * Real.sin (Spec.rad (cell 5))))
        ((Real.cos (Spec.rad (cell 3)) * Real.cos (Spec.rad (cell 5)) - Real.cos (Spec.rad (cell 4))) /
          (Real.sin (Spec.rad (cell 3)) * Real.sin (Spec.rad (cell 5))))
        ((Real.cos (Spec.rad (cell 3)) * Real.cos (Spec.rad (cell 4)) - Real.cos (Spec.rad (cell 5))) /
          (Real.sin (Spec.rad (cell 3)) * Real.sin (Spec.rad (cell 4)))) := by
  rw [cell_invert_eq, cell_volume_eq]

/-- C01.8 (tools): the reciprocal cell of a valid cell is again a valid cell. -/
theorem cell_invert_valid_tools (h : Spec.ValidCell cell) : Spec.ValidCell (Tools.cell_invert cell) := by
  have T := trig_of_valid h
  have R := recip_trig T
  have ha := h.a_pos; have hb := h.b_pos; have hc := h.c_pos
  have h1 := T.sa_pos; have h2 := T.sb_pos; have h3 := T.sg_pos; have h4 := T.S_pos
  rw [cell_invert_valid_eq h]
  apply validCell_cellOf (by positivity) (by positivity) (by positivity)
    (abs_lt_one_of_trig R.ea R.sa_pos) (abs_lt_one_of_trig R.eb R.sb_pos) (abs_lt_one_of_trig R.eg R.sg_pos)
  rw [← R.S_sq]
  have := R.S_pos
  positivity

/-- C01.8 (laue): the reciprocal cell of a valid cell is again a valid cell. -/
theorem cell_invert_valid_laue (h : Spec.ValidCell cell) : Spec.ValidCell (Laue.cell_invert cell) := by
  rw [laue_cell_invert]; exact cell_invert_valid_tools h

/-- C01.8 (tools): the reciprocal cell of the reciprocal cell is the original cell. -/
theorem cell_invert_invol_tools (h : Spec.ValidCell cell) :
    Tools.cell_invert (Tools.cell_invert cell) = cell := by
  have T := trig_of_valid h
  have R := recip_trig T
  have ha := h.a_pos; have hb := h.b_pos; have hc := h.c_pos
  have h1 := T.sa_pos; have h2 := T.sb_pos; have h3 := T.sg_pos; have h4 := T.S_pos
  rw [cell_invert_valid_eq h, cell_invert_cellOf (by positivity) (by positivity) (by positivity) R,
    recip_recip ha hb hc T, cellOf_cos h]

/-- C01.8 (laue): the reciprocal cell of the reciprocal cell is the original cell. -/
theorem cell_invert_invol_laue (h : Spec.ValidCell cell) :
    Laue.cell_invert (Laue.cell_invert cell) = cell := by
  rw [laue_cell_invert]; exact cell_invert_invol_tools h

/-- `a_to_cell` applied to the (2π-free) B matrix gives the reciprocal cell. -/
private lemma a_to_cell_formB (h : Spec.ValidCell cell) :
    Tools.a_to_cell (Laue.form_b_mat cell) = Tools.cell_invert cell := by
  have T := trig_of_valid h
  have ha := h.a_pos; have hb := h.b_pos; have hc := h.c_pos
  have h1 := T.sa_pos; have h2 := T.sb_pos; have h3 := T.sg_pos; have h4 := T.S_pos
  have hg := Bmat_gram' ha hb hc T
  rw [Gstar_eq_Gmat ha hb hc T, ← formB_eq'] at hg
  rw [a_to_cell_of_gram (by positivity) (by positivity) (by positivity) hg, cell_invert_valid_eq h]

/-- C01.7 (laue): `b_to_cell` recovers the six cell parameters from B. -/
theorem b_to_cell_formB_laue (h : Spec.ValidCell cell) :
    Laue.b_to_cell (Laue.form_b_mat cell) = cell := by
  rw [laue_b_to_cell, a_to_cell_formB h, cell_invert_invol_tools h]

/-- C01.7 (tools): `b_to_cell` recovers the six cell parameters from B. -/
theorem b_to_cell_formB_tools (h : Spec.ValidCell cell) :
    Tools.b_to_cell (Tools.form_b_mat cell) = cell := by
  have hp : (2 * Real.pi) ≠ 0 := by positivity
  rw [tools_b_to_cell, formB_tools_eq_smul, smul_smul, inv_mul_cancel₀ hp, one_smul, a_to_cell_formB h,
    cell_invert_invol_tools h]

/-- C01.4 (laue): determinant of B is the reciprocal volume. -/
theorem det_formB_laue (h : Spec.ValidCell cell) :
    Matrix.det (Laue.form_b_mat cell) = 1 / Laue.cell_volume cell := by
  rw [formB_eq', laue_vol, cell_volume_eq]; exact Bmat_det h.a_pos h.b_pos h.c_pos (trig_of_valid h)

/-- C01.4 (tools): determinant of B is (2π)³ over the volume. -/
theorem det_formB_tools (h : Spec.ValidCell cell) :
    Matrix.det (Tools.form_b_mat cell) = (2 * Real.pi) ^ 3 / Tools.cell_volume cell := by
  have := det_formB_laue h
  rw [laue_vol] at this
  rw [formB_tools_eq_smul, Matrix.det_smul, this, Fintype.card_fin]
  ring

/-- C01.4 duality (laue): the relation that actually holds between A and B: `B Aᵀ` is a proper rotation
(NOT the identity: A and B are both upper triangular, i.e. expressed in different Cartesian frames). -/
theorem formB_mul_formAT_rot_laue (h : Spec.ValidCell cell) :
    Spec.IsRot (Laue.form_b_mat cell * (Laue.form_a_mat cell)ᵀ) := by
  constructor
  · have h1 := formB_gram_laue h
    rw [← formA_gram_laue h, ← Matrix.mul_assoc] at h1
    have h2 := mul_eq_one_comm.mp h1
    rw [Matrix.transpose_mul, Matrix.transpose_transpose, ← h2]
    simp only [Matrix.mul_assoc]
  · rw [Matrix.det_mul, Matrix.det_transpose, det_formB_laue h, det_formA_laue h]
    exact one_div_mul_cancel (cell_volume_pos_laue h).ne'

/-- C01.4 duality (tools): `B Aᵀ / 2π` is a proper rotation. -/
theorem formB_mul_formAT_rot_tools (h : Spec.ValidCell cell) :
    Spec.IsRot ((2 * Real.pi)⁻¹ • (Tools.form_b_mat cell * (Tools.form_a_mat cell)ᵀ)) := by
  have hp : (2 * Real.pi) ≠ 0 := by positivity
  have := formB_mul_formAT_rot_laue h
  rw [laue_formA] at this
  rwa [formB_tools_eq_smul, Matrix.smul_mul, smul_smul, inv_mul_cancel₀ hp, one_smul]

/-- C01.4 duality (laue), Gram form: `(B Aᵀ)ᵀ (B Aᵀ) = 1`. -/
theorem formB_mul_formAT_orth_laue (h : Spec.ValidCell cell) :
    (Laue.form_b_mat cell * (Laue.form_a_mat cell)ᵀ)ᵀ * (Laue.form_b_mat cell * (Laue.form_a_mat cell)ᵀ) = 1 :=
  (formB_mul_formAT_rot_laue h).1

/-- C01.4 duality (tools), Gram form: `(B Aᵀ)ᵀ (B Aᵀ) = (2π)² • 1`. -/
theorem formB_mul_formAT_orth_tools (h : Spec.ValidCell cell) :
    (Tools.form_b_mat cell * (Tools.form_a_mat cell)ᵀ)ᵀ * (Tools.form_b_mat cell * (Tools.form_a_mat cell)ᵀ)
      = ((2 * Real.pi) ^ 2) • (1 : Matrix (Fin 3) (Fin 3) ℝ) := by
  have := formB_mul_formAT_orth_laue h
  rw [laue_formA] at this
  rw [formB_tools_eq_smul, Matrix.smul_mul, Matrix.transpose_smul, Matrix.smul_mul, Matrix.mul_smul, smul_smul,
    this, sq]

/-! ### a concrete valid cell (hypotheses are satisfiable) and the relation that does NOT hold -/

private lemma cos_rad_90 : Real.cos (Spec.rad 90) = 0 := by
  rw [show Spec.rad 90 = Real.pi / 2 by unfold Spec.rad; ring, Real.cos_pi_div_two]

private lemma cos_rad_60 : Real.cos (Spec.rad 60) = 1 / 2 := by
  rw [show Spec.rad 60 = Real.pi / 3 by unfold Spec.rad; ring, Real.cos_pi_div_three]

/-- `[4, 5, 6, 90°, 90°, 60°]` is a valid cell: the hypothesis of all theorems above is satisfiable. -/
theorem validCell_example : Spec.ValidCell ![4, 5, 6, 90, 90, 60] := by
  refine ⟨by show (0 : ℝ) < 4; norm_num, by show (0 : ℝ) < 5; norm_num, by show (0 : ℝ) < 6; norm_num,
    by show (0 : ℝ) < 90 ∧ (90 : ℝ) < 180; norm_num, by show (0 : ℝ) < 90 ∧ (90 : ℝ) < 180; norm_num,
    by show (0 : ℝ) < 60 ∧ (60 : ℝ) < 180; norm_num, ?_⟩
  show 0 < 1 - Real.cos (Spec.rad 90) ^ 2 - Real.cos (Spec.rad 90) ^ 2 - Real.cos (Spec.rad 60) ^ 2
    + 2 * Real.cos (Spec.rad 90) * Real.cos (Spec.rad 90) * Real.cos (Spec.rad 60)
  rw [cos_rad_90, cos_rad_60]
  norm_num

example : Tools.b_to_cell (Tools.form_b_mat ![4, 5, 6, 90, 90, 60]) = ![4, 5, 6, 90, 90, 60] :=
  b_to_cell_formB_tools validCell_example
example : Laue.cell_invert (Laue.cell_invert ![4, 5, 6, 90, 90, 60]) = ![4, 5, 6, 90, 90, 60] :=
  cell_invert_invol_laue validCell_example

/-- C01.4 (negative result): the naive duality `B Aᵀ = k·1` does NOT hold for this code (k = 1, laue). -/
theorem formB_mul_formAT_ne_one_laue :
    ∃ cell, Spec.ValidCell cell ∧ Laue.form_b_mat cell * (Laue.form_a_mat cell)ᵀ ≠ 1 := by
  refine ⟨![4, 5, 6, 90, 90, 60], validCell_example, fun heq => ?_⟩
  obtain ⟨h10, -, -, -, h11, -⟩ := formB_upper_laue validCell_example
  have e := congrFun (congrFun heq 1) 0
  have a01 : Laue.form_a_mat ![4, 5, 6, 90, 90, 60] 0 1 = 5 * Real.cos (Spec.rad 60) := rfl
  have a02 : Laue.form_a_mat ![4, 5, 6, 90, 90, 60] 0 2 = 6 * Real.cos (Spec.rad 90) := rfl
  rw [Matrix.mul_apply, Fin.sum_univ_three] at e
  simp only [Matrix.transpose_apply, h10, a01, a02, cos_rad_90, cos_rad_60, Matrix.one_apply] at e
  norm_num at e
  linarith

/-- C01.4 (negative result): the naive duality `B Aᵀ = 2π·1` does NOT hold for this code (tools). -/
theorem formB_mul_formAT_ne_smul_one_tools :
    ∃ cell, Spec.ValidCell cell ∧
      Tools.form_b_mat cell * (Tools.form_a_mat cell)ᵀ ≠ (2 * Real.pi) • (1 : Matrix (Fin 3) (Fin 3) ℝ) := by
  obtain ⟨cell, hv, hne⟩ := formB_mul_formAT_ne_one_laue
  refine ⟨cell, hv, fun heq => hne ?_⟩
  have hp : (2 * Real.pi) ≠ 0 := by positivity
  rw [formB_tools_eq_smul, Matrix.smul_mul] at heq
  rw [laue_formA]
  have := congrArg (fun M => (2 * Real.pi)⁻¹ • M) heq
  simpa [smul_smul, inv_mul_cancel₀ hp] using this
