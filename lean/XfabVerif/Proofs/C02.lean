/-
C02 — U / B / UBI conversions of xfab.tools / xfab.laue (generated models `Tools.*`, `Laue.*`):
`u_to_ubi, ubi_to_cell, ubi_to_u, ubi_to_rod` (traced) and `ub_to_u_b, ubi_to_u_b` (NOT traced: they call
`numpy.linalg.qr`; modelled here by the QR contract + the sign normalisation `C02.normalise`, Float twin in
`Model/QR.lean`).  k = 2π in tools, 1 in laue.

For every proper rotation `U` (`Spec.IsRot`) and valid cell (`Spec.ValidCell`):
  1. `ubi_mul_g_*`              UBI·(U·B·h) = k·h for every real (in particular integer) h
  2. `ubi_to_cell_u_to_ubi_*`   ubi_to_cell (u_to_ubi U cell) = cell
  3. `ubi_to_u_u_to_ubi_*`      ubi_to_u (u_to_ubi U cell) = U       (+ `ubi_to_rod_u_to_ubi_*`, `ubi_to_u_b_u_to_ubi_*`)
  4. `form_a_mat_a_to_cell_*`, `form_b_mat_b_to_cell_*`   Cholesky uniqueness: every upper-triangular matrix with positive
     diagonal IS the A (resp. B) matrix of the valid cell extracted from it; `hcell_*`: the hypotheses left open in C13
  5. `normalise_spec`, `qr_unique`, `normalise_unique`, `ub_to_u_b_recovers`: any matrix with det > 0 is split by
     `ub_to_u_b` into the unique proper rotation times upper-triangular-with-positive-diagonal factorisation,
     whatever QR routine (satisfying the contract) is used underneath.

Structure: `namespace C02` holds helper lemmas / definitions, the property theorems are at top level.
The tools UBI equals the laue UBI as a matrix (`C02.tools_u_to_ubi_eq_laue`): the two factors 2π cancel.
-/
import XfabVerif.Gen.ToolsReal
import XfabVerif.Gen.LaueReal
import XfabVerif.Spec.Basic
import XfabVerif.Proofs.C01
set_option linter.unusedVariables false
set_option linter.style.longLine false
set_option linter.unusedSimpArgs false
open Matrix
noncomputable section
namespace C02

abbrev M3 := Matrix (Fin 3) (Fin 3) ℝ

/-! ### upper-triangular algebra -/

lemma upper_det {B : M3} (h : Spec.IsUpperPos B) : B.det = B 0 0 * B 1 1 * B 2 2 := by
  obtain ⟨h10, h20, h21, -, -, -⟩ := h
  rw [Matrix.det_fin_three, h10, h20, h21]; ring

lemma upper_det_pos {B : M3} (h : Spec.IsUpperPos B) : 0 < B.det := by
  rw [upper_det h]
  obtain ⟨-, -, -, h0, h1, h2⟩ := h
  positivity

lemma ext3 {A B : M3} (h00 : A 0 0 = B 0 0) (h01 : A 0 1 = B 0 1) (h02 : A 0 2 = B 0 2)
    (h10 : A 1 0 = B 1 0) (h11 : A 1 1 = B 1 1) (h12 : A 1 2 = B 1 2)
    (h20 : A 2 0 = B 2 0) (h21 : A 2 1 = B 2 1) (h22 : A 2 2 = B 2 2) : A = B := by
  ext i j; fin_cases i <;> fin_cases j <;> assumption

lemma pos_eq_of_mul_self {x y : ℝ} (hx : 0 < x) (hy : 0 < y) (h : x * x = y * y) : x = y := by
  have : (x - y) * (x + y) = 0 := by linear_combination h
  rcases mul_eq_zero.mp this with h1 | h1
  · linarith
  · linarith

/-- Cholesky uniqueness: an upper-triangular matrix with positive diagonal is determined by its Gram matrix. -/
lemma upper_eq_of_gram {A B : M3} (hA : Spec.IsUpperPos A) (hB : Spec.IsUpperPos B)
    (h : Aᵀ * A = Bᵀ * B) : A = B := by
  obtain ⟨a10, a20, a21, a0, a1, a2⟩ := hA
  obtain ⟨b10, b20, b21, b0, b1, b2⟩ := hB
  have e := fun i j => congrFun (congrFun h i) j
  have e00 := e 0 0; have e01 := e 0 1; have e02 := e 0 2
  have e11 := e 1 1; have e12 := e 1 2; have e22 := e 2 2
  simp only [Matrix.mul_apply, Fin.sum_univ_three, Matrix.transpose_apply, a10, a20, a21, b10, b20, b21,
    mul_zero, zero_mul, add_zero, zero_add] at e00 e01 e02 e11 e12 e22
  have f00 : A 0 0 = B 0 0 := pos_eq_of_mul_self a0 b0 e00
  have f01 : A 0 1 = B 0 1 := by
    rw [f00] at e01; exact mul_left_cancel₀ b0.ne' e01
  have f02 : A 0 2 = B 0 2 := by
    rw [f00] at e02; exact mul_left_cancel₀ b0.ne' e02
  have f11 : A 1 1 = B 1 1 := by
    rw [f01] at e11; exact pos_eq_of_mul_self a1 b1 (by linarith)
  have f12 : A 1 2 = B 1 2 := by
    rw [f01, f02, f11] at e12
    have : B 1 1 * A 1 2 = B 1 1 * B 1 2 := by linarith
    exact mul_left_cancel₀ b1.ne' this
  have f22 : A 2 2 = B 2 2 := by
    rw [f02, f12] at e22; exact pos_eq_of_mul_self a2 b2 (by linarith)
  exact ext3 f00 f01 f02 (a10.trans b10.symm) f11 f12 (a20.trans b20.symm) (a21.trans b21.symm) f22

/-! ### the sign normalisation of `ub_to_u_b` -/

/-- `if B[0,0] < 0:` negate row 0 of B and column 0 of U -/
def flip0 (p : M3 × M3) : M3 × M3 :=
  if p.2 0 0 < 0 then
    (!![-p.1 0 0, p.1 0 1, p.1 0 2; -p.1 1 0, p.1 1 1, p.1 1 2; -p.1 2 0, p.1 2 1, p.1 2 2],
     !![-p.2 0 0, -p.2 0 1, -p.2 0 2; p.2 1 0, p.2 1 1, p.2 1 2; p.2 2 0, p.2 2 1, p.2 2 2])
  else p

/-- `if B[1,1] < 0:` negate B[1,1], B[1,2] (not B[1,0]) and column 1 of U -/
def flip1 (p : M3 × M3) : M3 × M3 :=
  if p.2 1 1 < 0 then
    (!![p.1 0 0, -p.1 0 1, p.1 0 2; p.1 1 0, -p.1 1 1, p.1 1 2; p.1 2 0, -p.1 2 1, p.1 2 2],
     !![p.2 0 0, p.2 0 1, p.2 0 2; p.2 1 0, -p.2 1 1, -p.2 1 2; p.2 2 0, p.2 2 1, p.2 2 2])
  else p

/-- `if B[2,2] < 0:` negate B[2,2] (only) and column 2 of U -/
def flip2 (p : M3 × M3) : M3 × M3 :=
  if p.2 2 2 < 0 then
    (!![p.1 0 0, p.1 0 1, -p.1 0 2; p.1 1 0, p.1 1 1, -p.1 1 2; p.1 2 0, p.1 2 1, -p.1 2 2],
     !![p.2 0 0, p.2 0 1, p.2 0 2; p.2 1 0, p.2 1 1, p.2 1 2; p.2 2 0, p.2 2 1, -p.2 2 2])
  else p

/-- the post-processing of `ub_to_u_b` applied to the output `(Q, R)` of `numpy.linalg.qr` -/
def normalise (Q R : M3) : M3 × M3 := flip2 (flip1 (flip0 (Q, R)))

def sg (x : ℝ) : ℝ := if x < 0 then -1 else 1

lemma sg_mul_self (x : ℝ) : sg x * sg x = 1 := by unfold sg; split_ifs <;> norm_num

lemma sg_mul_pos {x : ℝ} (h : x ≠ 0) : 0 < sg x * x := by
  unfold sg; split_ifs with h1
  · linarith
  · have := lt_of_le_of_ne (not_lt.mp h1) h.symm; linarith

/-- the diagonal sign matrix -/
def Dg (R : M3) : M3 := Matrix.diagonal ![sg (R 0 0), sg (R 1 1), sg (R 2 2)]

lemma normalise_eq (Q R : M3) (h10 : R 1 0 = 0) (h20 : R 2 0 = 0) (h21 : R 2 1 = 0) :
    normalise Q R = (Q * Dg R, Dg R * R) := by
  by_cases h0 : R 0 0 < 0 <;> by_cases h1 : R 1 1 < 0 <;> by_cases h2 : R 2 2 < 0 <;>
    simp [normalise, flip0, flip1, flip2, Dg, sg, h0, h1, h2] <;>
    constructor <;> ext i j <;> fin_cases i <;> fin_cases j <;>
    simp [Matrix.mul_apply, Fin.sum_univ_three, Matrix.diagonal, h10, h20, h21]

lemma Dg_mul_Dg (R : M3) : Dg R * Dg R = 1 := by
  unfold Dg
  rw [Matrix.diagonal_mul_diagonal, ← Matrix.diagonal_one]
  congr 1
  funext i; fin_cases i <;> simp [sg_mul_self]

lemma Dg_transpose (R : M3) : (Dg R)ᵀ = Dg R := Matrix.diagonal_transpose _

lemma Dg_mul_apply (R : M3) (i j : Fin 3) :
    (Dg R * R) i j = (![sg (R 0 0), sg (R 1 1), sg (R 2 2)] : Fin 3 → ℝ) i * R i j := by
  unfold Dg; rw [Matrix.diagonal_mul]

/-- orthonormal with positive determinant has determinant one -/
lemma det_eq_one_of_orth {U : M3} (h : Uᵀ * U = 1) (hpos : 0 < U.det) : U.det = 1 := by
  have := congrArg Matrix.det h
  rw [Matrix.det_mul, Matrix.det_transpose, Matrix.det_one] at this
  nlinarith

lemma normalise_spec_aux (M Q R : M3) (hQ : Qᵀ * Q = 1) (h10 : R 1 0 = 0) (h20 : R 2 0 = 0) (h21 : R 2 1 = 0)
    (hQR : Q * R = M) (hdet : 0 < M.det) :
    (Q * Dg R) * (Dg R * R) = M ∧ (Q * Dg R)ᵀ * (Q * Dg R) = 1 ∧ (Q * Dg R).det = 1 ∧
      Spec.IsUpperPos (Dg R * R) := by
  have hprod : (Q * Dg R) * (Dg R * R) = M := by
    rw [Matrix.mul_assoc, ← Matrix.mul_assoc (Dg R), Dg_mul_Dg, Matrix.one_mul, hQR]
  have horth : (Q * Dg R)ᵀ * (Q * Dg R) = 1 := by
    rw [Matrix.transpose_mul, Matrix.mul_assoc, ← Matrix.mul_assoc Qᵀ, hQ, Matrix.one_mul, Dg_transpose, Dg_mul_Dg]
  have hdR : R.det = R 0 0 * R 1 1 * R 2 2 := by
    rw [Matrix.det_fin_three, h10, h20, h21]; ring
  have hne : R 0 0 * R 1 1 * R 2 2 ≠ 0 := by
    intro h0
    rw [← hQR, Matrix.det_mul, hdR, h0, mul_zero] at hdet
    exact lt_irrefl _ hdet
  have r0 : R 0 0 ≠ 0 := fun h => hne (by rw [h]; ring)
  have r1 : R 1 1 ≠ 0 := fun h => hne (by rw [h]; ring)
  have r2 : R 2 2 ≠ 0 := fun h => hne (by rw [h]; ring)
  have hup : Spec.IsUpperPos (Dg R * R) := by
    refine ⟨?_, ?_, ?_, ?_, ?_, ?_⟩ <;> rw [Dg_mul_apply]
    · rw [h10, mul_zero]
    · rw [h20, mul_zero]
    · rw [h21, mul_zero]
    · exact sg_mul_pos r0
    · exact sg_mul_pos r1
    · exact sg_mul_pos r2
  refine ⟨hprod, horth, ?_, hup⟩
  apply det_eq_one_of_orth horth
  have h1 := upper_det_pos hup
  have h2 : (Q * Dg R).det * (Dg R * R).det = M.det := by rw [← Matrix.det_mul, hprod]
  by_contra hcon
  have : (Q * Dg R).det * (Dg R * R).det ≤ 0 := mul_nonpos_of_nonpos_of_nonneg (not_lt.mp hcon) h1.le
  linarith

end C02

/-! ## Property theorems -/
open C02

/-- C02.5 (QR split, existence): given any pair `(Q, R)` satisfying the `numpy.linalg.qr` contract for a matrix `M`
with positive determinant, the sign normalisation of `ub_to_u_b` returns a proper rotation `U` and an
upper-triangular `B` with positive diagonal whose product is `M`. -/
theorem normalise_spec (M Q R : Matrix (Fin 3) (Fin 3) ℝ) (hQ : Qᵀ * Q = 1)
    (h10 : R 1 0 = 0) (h20 : R 2 0 = 0) (h21 : R 2 1 = 0) (hQR : Q * R = M) (hdet : 0 < M.det) :
    (normalise Q R).1 * (normalise Q R).2 = M ∧ (normalise Q R).1ᵀ * (normalise Q R).1 = 1 ∧
      (normalise Q R).1.det = 1 ∧ Spec.IsUpperPos (normalise Q R).2 := by
  rw [normalise_eq Q R h10 h20 h21]
  exact normalise_spec_aux M Q R hQ h10 h20 h21 hQR hdet

/-- C02.5 (QR split, uniqueness): the factorisation into an orthonormal matrix times an upper-triangular matrix
with positive diagonal is unique. -/
theorem qr_unique (U₁ B₁ U₂ B₂ : Matrix (Fin 3) (Fin 3) ℝ) (hU₁ : U₁ᵀ * U₁ = 1) (hU₂ : U₂ᵀ * U₂ = 1)
    (hB₁ : Spec.IsUpperPos B₁) (hB₂ : Spec.IsUpperPos B₂) (h : U₁ * B₁ = U₂ * B₂) : U₁ = U₂ ∧ B₁ = B₂ := by
  have hg : B₁ᵀ * B₁ = B₂ᵀ * B₂ := by
    have e1 : (U₁ * B₁)ᵀ * (U₁ * B₁) = B₁ᵀ * B₁ := by
      rw [Matrix.transpose_mul, Matrix.mul_assoc, ← Matrix.mul_assoc U₁ᵀ, hU₁, Matrix.one_mul]
    have e2 : (U₂ * B₂)ᵀ * (U₂ * B₂) = B₂ᵀ * B₂ := by
      rw [Matrix.transpose_mul, Matrix.mul_assoc, ← Matrix.mul_assoc U₂ᵀ, hU₂, Matrix.one_mul]
    rw [← e1, ← e2, h]
  have hB : B₁ = B₂ := upper_eq_of_gram hB₁ hB₂ hg
  refine ⟨?_, hB⟩
  have hu : IsUnit B₂.det := (upper_det_pos hB₂).ne'.isUnit
  rw [hB] at h
  have := congrArg (· * B₂⁻¹) h
  simpa [Matrix.mul_nonsing_inv_cancel_right _ _ hu] using this

/-- C02.5 (QR split, "the unique"): whatever QR pair is used, the output of the normalisation is THE factorisation of
`M` into a proper rotation times an upper-triangular matrix with positive diagonal. -/
theorem normalise_unique (M Q R U B : Matrix (Fin 3) (Fin 3) ℝ) (hQ : Qᵀ * Q = 1)
    (h10 : R 1 0 = 0) (h20 : R 2 0 = 0) (h21 : R 2 1 = 0) (hQR : Q * R = M) (hdet : 0 < M.det)
    (hU : Spec.IsRot U) (hB : Spec.IsUpperPos B) (hUB : U * B = M) : normalise Q R = (U, B) := by
  obtain ⟨h1, h2, h3, h4⟩ := normalise_spec M Q R hQ h10 h20 h21 hQR hdet
  obtain ⟨e1, e2⟩ := qr_unique _ _ _ _ h2 hU.1 h4 hB (h1.trans hUB.symm)
  exact Prod.ext e1 e2

/-- C02.5 (QR split, recovery): for a proper rotation `U` and an upper-triangular `B` with positive diagonal, ANY
output `(Q, R)` of a QR routine applied to `U * B` is normalised by `ub_to_u_b` to exactly `(U, B)`. -/
theorem ub_to_u_b_recovers (U B Q R : Matrix (Fin 3) (Fin 3) ℝ) (hU : Spec.IsRot U) (hB : Spec.IsUpperPos B)
    (hQ : Qᵀ * Q = 1) (h10 : R 1 0 = 0) (h20 : R 2 0 = 0) (h21 : R 2 1 = 0) (hQR : Q * R = U * B) :
    normalise Q R = (U, B) := by
  have hdet : 0 < (U * B).det := by
    rw [Matrix.det_mul, hU.2, one_mul]; exact upper_det_pos hB
  obtain ⟨h1, h2, h3, h4⟩ := normalise_spec (U * B) Q R hQ h10 h20 h21 hQR hdet
  obtain ⟨e1, e2⟩ := qr_unique _ _ _ _ h2 hU.1 h4 hB h1
  exact Prod.ext e1 e2

/-- the QR contract is satisfiable with negative diagonal entries of `R` (so that all three sign flips fire) -/
example : normalise (-1) (-(!![2, 1, 3; 0, 5, 7; 0, 0, 11] : Matrix (Fin 3) (Fin 3) ℝ)) =
    ((1 : Matrix (Fin 3) (Fin 3) ℝ), !![2, 1, 3; 0, 5, 7; 0, 0, 11]) := by
  apply ub_to_u_b_recovers
  · exact ⟨by simp, by simp⟩
  · exact ⟨rfl, rfl, rfl, by show (0 : ℝ) < 2; norm_num, by show (0 : ℝ) < 5; norm_num, by show (0 : ℝ) < 11; norm_num⟩
  · simp
  · simp
  · simp
  · simp
  · simp

/-! ## UBI: helpers -/
namespace C02

lemma two_pi_ne : (2 * Real.pi) ≠ 0 := by positivity

lemma laue_a_to_cell : Laue.a_to_cell = Tools.a_to_cell := rfl
lemma laue_formA : Laue.form_a_mat = Tools.form_a_mat := rfl
lemma laue_cell_invert : Laue.cell_invert = Tools.cell_invert := rfl
lemma laue_ubi_to_cell (ubi : M3) : Laue.ubi_to_cell ubi = Tools.a_to_cell ubiᵀ := rfl
lemma tools_ubi_to_cell (ubi : M3) : Tools.ubi_to_cell ubi = Tools.a_to_cell ubiᵀ := rfl
lemma laue_u_to_ubi (U : M3) (cell : Fin 6 → ℝ) : Laue.u_to_ubi U cell = (U * Laue.form_b_mat cell)⁻¹ := rfl
lemma tools_u_to_ubi (U : M3) (cell : Fin 6 → ℝ) :
    Tools.u_to_ubi U cell = (2 * Real.pi) • (U * Tools.form_b_mat cell)⁻¹ := rfl
lemma laue_ubi_to_u (ubi : M3) :
    Laue.ubi_to_u ubi = (Laue.form_b_mat (Laue.ubi_to_cell ubi) * ubi)ᵀ := rfl
lemma tools_ubi_to_u (ubi : M3) :
    Tools.ubi_to_u ubi = (2 * Real.pi)⁻¹ • (Tools.form_b_mat (Tools.ubi_to_cell ubi) * ubi)ᵀ := rfl

lemma isUnit_det_UB {U B : M3} (hU : Spec.IsRot U) (hB : Spec.IsUpperPos B) : IsUnit (U * B).det := by
  rw [Matrix.det_mul, hU.2, one_mul]; exact (upper_det_pos hB).ne'.isUnit

lemma inv_smul_real {k : ℝ} (hk : k ≠ 0) (A : M3) (h : IsUnit A.det) : (k • A)⁻¹ = k⁻¹ • A⁻¹ := by
  apply Matrix.inv_eq_left_inv
  rw [Matrix.smul_mul, Matrix.mul_smul, smul_smul, inv_mul_cancel₀ hk, one_smul, Matrix.nonsing_inv_mul _ h]

/-- the tools UBI (with its two factors 2π) is the same matrix as the laue UBI -/
lemma tools_u_to_ubi_eq_laue {U : M3} {cell : Fin 6 → ℝ} (hU : Spec.IsRot U) (h : Spec.ValidCell cell) :
    Tools.u_to_ubi U cell = Laue.u_to_ubi U cell := by
  rw [tools_u_to_ubi, laue_u_to_ubi, C01.formB_tools_eq_smul, Matrix.mul_smul,
    inv_smul_real two_pi_ne _ (isUnit_det_UB hU (formB_upper_laue h)), smul_smul, mul_inv_cancel₀ two_pi_ne, one_smul]

/-- `ubi·ubiᵀ` is the direct metric tensor -/
lemma ubi_gram {U B G : M3} (hU : Spec.IsRot U) (hB : Spec.IsUpperPos B) (hG : Bᵀ * B * G = 1) :
    (((U * B)⁻¹)ᵀ)ᵀ * ((U * B)⁻¹)ᵀ = G := by
  have e1 : (U * B)ᵀ * (U * B) = Bᵀ * B := by
    rw [Matrix.transpose_mul, Matrix.mul_assoc, ← Matrix.mul_assoc Uᵀ, hU.1, Matrix.one_mul]
  rw [Matrix.transpose_transpose, Matrix.transpose_nonsing_inv, ← Matrix.mul_inv_rev, e1]
  exact Matrix.inv_eq_right_inv hG

/-- `B (U B)⁻¹ = Uᵀ` -/
lemma b_mul_ubi {U B : M3} (hU : Spec.IsRot U) (hB : Spec.IsUpperPos B) : B * (U * B)⁻¹ = Uᵀ := by
  have hb : IsUnit B.det := (upper_det_pos hB).ne'.isUnit
  have hu : U⁻¹ = Uᵀ := Matrix.inv_eq_left_inv hU.1
  rw [Matrix.mul_inv_rev, ← Matrix.mul_assoc, Matrix.mul_nonsing_inv _ hb, Matrix.one_mul, hu]

end C02

open C02

variable {cell : Fin 6 → ℝ} {U : Matrix (Fin 3) (Fin 3) ℝ}

/-- C02.1 (laue): the rows of UBI are the real-space lattice vectors: `UBI·(U·B·hkl) = hkl`. -/
theorem ubi_mul_g_laue (hU : Spec.IsRot U) (h : Spec.ValidCell cell) (hkl : Fin 3 → ℝ) :
    Laue.u_to_ubi U cell *ᵥ ((U * Laue.form_b_mat cell) *ᵥ hkl) = hkl := by
  rw [laue_u_to_ubi, Matrix.mulVec_mulVec, Matrix.nonsing_inv_mul _ (isUnit_det_UB hU (formB_upper_laue h)),
    Matrix.one_mulVec]

/-- C02.1 (tools): the rows of UBI are the real-space lattice vectors: `UBI·(U·B·hkl) = 2π·hkl`. -/
theorem ubi_mul_g_tools (hU : Spec.IsRot U) (h : Spec.ValidCell cell) (hkl : Fin 3 → ℝ) :
    Tools.u_to_ubi U cell *ᵥ ((U * Tools.form_b_mat cell) *ᵥ hkl) = (2 * Real.pi) • hkl := by
  rw [tools_u_to_ubi, Matrix.smul_mulVec, Matrix.mulVec_mulVec,
    Matrix.nonsing_inv_mul _ (isUnit_det_UB hU (formB_upper_tools h)), Matrix.one_mulVec]

/-- C02.2 (laue): decomposing the UBI built from `U` and a valid cell returns the same cell. -/
theorem ubi_to_cell_u_to_ubi_laue (hU : Spec.IsRot U) (h : Spec.ValidCell cell) :
    Laue.ubi_to_cell (Laue.u_to_ubi U cell) = cell := by
  have hg := ubi_gram hU (formB_upper_laue h) (formB_gram_laue h)
  rw [C01.metric_eq] at hg
  rw [laue_ubi_to_cell, laue_u_to_ubi, C01.a_to_cell_of_gram h.a_pos h.b_pos h.c_pos hg, C01.cellOf_cos h]

/-- C02.2 (tools): decomposing the UBI built from `U` and a valid cell returns the same cell. -/
theorem ubi_to_cell_u_to_ubi_tools (hU : Spec.IsRot U) (h : Spec.ValidCell cell) :
    Tools.ubi_to_cell (Tools.u_to_ubi U cell) = cell := by
  rw [tools_u_to_ubi_eq_laue hU h]
  exact ubi_to_cell_u_to_ubi_laue hU h

/-- C02.3 (laue): decomposing the UBI built from a proper rotation `U` and a valid cell returns the same `U`. -/
theorem ubi_to_u_u_to_ubi_laue (hU : Spec.IsRot U) (h : Spec.ValidCell cell) :
    Laue.ubi_to_u (Laue.u_to_ubi U cell) = U := by
  rw [laue_ubi_to_u, ubi_to_cell_u_to_ubi_laue hU h, laue_u_to_ubi, b_mul_ubi hU (formB_upper_laue h),
    Matrix.transpose_transpose]

/-- C02.3 (tools): decomposing the UBI built from a proper rotation `U` and a valid cell returns the same `U`. -/
theorem ubi_to_u_u_to_ubi_tools (hU : Spec.IsRot U) (h : Spec.ValidCell cell) :
    Tools.ubi_to_u (Tools.u_to_ubi U cell) = U := by
  rw [tools_ubi_to_u, ubi_to_cell_u_to_ubi_tools hU h, tools_u_to_ubi, Matrix.mul_smul,
    b_mul_ubi hU (formB_upper_tools h), Matrix.transpose_smul, Matrix.transpose_transpose, smul_smul,
    inv_mul_cancel₀ two_pi_ne, one_smul]

/-! ## Cholesky uniqueness for the cell matrices (the facts C13 left as hypotheses) -/
namespace C02

lemma ratio_bounds {g b c : ℝ} (hb : 0 < b) (hc : 0 < c) (h : g * g < (b * b) * (c * c)) :
    -1 < g / b / c ∧ g / b / c < 1 := by
  have hbc : 0 < b * c := mul_pos hb hc
  have h2 : g ^ 2 < (b * c) ^ 2 := by nlinarith
  have h3 := abs_lt_of_sq_lt_sq h2 hbc.le
  rw [abs_lt] at h3
  rw [div_div]
  constructor
  · rw [lt_div_iff₀ hbc]; linarith
  · rw [div_lt_one hbc]; exact h3.2

lemma upper_cell_data {p q r s t u a b c : ℝ} (hp : 0 < p) (hs : 0 < s) (hu : 0 < u)
    (ha : 0 < a) (hb : 0 < b) (hc : 0 < c)
    (ha2 : a * a = p * p) (hb2 : b * b = q * q + s * s) (hc2 : c * c = r * r + t * t + u * u) :
    (-1 < (q * r + s * t) / b / c ∧ (q * r + s * t) / b / c < 1) ∧
    (-1 < p * r / a / c ∧ p * r / a / c < 1) ∧
    (-1 < p * q / a / b ∧ p * q / a / b < 1) ∧
    0 < 1 - ((q * r + s * t) / b / c) ^ 2 - (p * r / a / c) ^ 2 - (p * q / a / b) ^ 2
        + 2 * ((q * r + s * t) / b / c) * (p * r / a / c) * (p * q / a / b) := by
  have hsu := mul_pos hs hu
  have hpu := mul_pos hp hu
  have hps := mul_pos hp hs
  refine ⟨ratio_bounds hb hc ?_, ratio_bounds ha hc ?_, ratio_bounds ha hb ?_, ?_⟩
  · rw [hb2, hc2]
    nlinarith [sq_nonneg (q * t - s * r), sq_nonneg (q * u), mul_pos hsu hsu]
  · rw [ha2, hc2]
    nlinarith [sq_nonneg (p * t), mul_pos hpu hpu]
  · rw [ha2, hb2]
    nlinarith [mul_pos hps hps]
  · have ha' := ha.ne'; have hb' := hb.ne'; have hc' := hc.ne'
    have key : 1 - ((q * r + s * t) / b / c) ^ 2 - (p * r / a / c) ^ 2 - (p * q / a / b) ^ 2
        + 2 * ((q * r + s * t) / b / c) * (p * r / a / c) * (p * q / a / b)
        = ((a * a) * (b * b) * (c * c) - (a * a) * (q * r + s * t) ^ 2 - (b * b) * (p * r) ^ 2
            - (c * c) * (p * q) ^ 2 + 2 * (q * r + s * t) * (p * r) * (p * q)) / ((a * a) * (b * b) * (c * c)) := by
      field_simp
    rw [key]
    apply div_pos _ (by positivity)
    rw [ha2, hb2, hc2]
    have : (p * p) * (q * q + s * s) * (r * r + t * t + u * u) - (p * p) * (q * r + s * t) ^ 2
        - (q * q + s * s) * (p * r) ^ 2 - (r * r + t * t + u * u) * (p * q) ^ 2
        + 2 * (q * r + s * t) * (p * r) * (p * q) = (p * s * u) ^ 2 := by ring
    rw [this]; positivity

end C02

namespace C02

/-- Gram matrix of an upper-triangular matrix, written out -/
lemma gram_upper_eq {A : M3} (hA : Spec.IsUpperPos A) :
    Aᵀ * A = !![A 0 0 * A 0 0, A 0 0 * A 0 1, A 0 0 * A 0 2;
                A 0 0 * A 0 1, A 0 1 * A 0 1 + A 1 1 * A 1 1, A 0 1 * A 0 2 + A 1 1 * A 1 2;
                A 0 0 * A 0 2, A 0 1 * A 0 2 + A 1 1 * A 1 2, A 0 2 * A 0 2 + A 1 2 * A 1 2 + A 2 2 * A 2 2] := by
  obtain ⟨a10, a20, a21, -, -, -⟩ := hA
  ext i j; fin_cases i <;> fin_cases j <;>
    simp [Matrix.mul_apply, Fin.sum_univ_three, a10, a20, a21] <;> ring

/-- an upper-triangular `A` with positive diagonal: `a_to_cell A` is a valid cell whose metric is `AᵀA` -/
lemma a_to_cell_upper {A : M3} (hA : Spec.IsUpperPos A) :
    Spec.ValidCell (Tools.a_to_cell A) ∧ Spec.metric (Tools.a_to_cell A) = Aᵀ * A := by
  have hgram := gram_upper_eq hA
  obtain ⟨a10, a20, a21, hp, hs, hu⟩ := hA
  have e00 : (Aᵀ * A) 0 0 = A 0 0 * A 0 0 := by rw [hgram]; rfl
  have e01 : (Aᵀ * A) 0 1 = A 0 0 * A 0 1 := by rw [hgram]; rfl
  have e02 : (Aᵀ * A) 0 2 = A 0 0 * A 0 2 := by rw [hgram]; rfl
  have e11 : (Aᵀ * A) 1 1 = A 0 1 * A 0 1 + A 1 1 * A 1 1 := by rw [hgram]; rfl
  have e12 : (Aᵀ * A) 1 2 = A 0 1 * A 0 2 + A 1 1 * A 1 2 := by rw [hgram]; rfl
  have e22 : (Aᵀ * A) 2 2 = A 0 2 * A 0 2 + A 1 2 * A 1 2 + A 2 2 * A 2 2 := by rw [hgram]; rfl
  have hcell : Tools.a_to_cell A = C01.cellOf
      (Real.sqrt (A 0 0 * A 0 0)) (Real.sqrt (A 0 1 * A 0 1 + A 1 1 * A 1 1))
      (Real.sqrt (A 0 2 * A 0 2 + A 1 2 * A 1 2 + A 2 2 * A 2 2))
      ((A 0 1 * A 0 2 + A 1 1 * A 1 2) / Real.sqrt (A 0 1 * A 0 1 + A 1 1 * A 1 1) /
        Real.sqrt (A 0 2 * A 0 2 + A 1 2 * A 1 2 + A 2 2 * A 2 2))
      (A 0 0 * A 0 2 / Real.sqrt (A 0 0 * A 0 0) / Real.sqrt (A 0 2 * A 0 2 + A 1 2 * A 1 2 + A 2 2 * A 2 2))
      (A 0 0 * A 0 1 / Real.sqrt (A 0 0 * A 0 0) / Real.sqrt (A 0 1 * A 0 1 + A 1 1 * A 1 1)) := by
    unfold Tools.a_to_cell C01.cellOf
    simp only [e00, e01, e02, e11, e12, e22]
  have h00 : 0 < A 0 0 * A 0 0 := mul_pos hp hp
  have h11 : 0 < A 0 1 * A 0 1 + A 1 1 * A 1 1 := by nlinarith [mul_self_nonneg (A 0 1), mul_pos hs hs]
  have h22 : 0 < A 0 2 * A 0 2 + A 1 2 * A 1 2 + A 2 2 * A 2 2 := by
    nlinarith [mul_self_nonneg (A 0 2), mul_self_nonneg (A 1 2), mul_pos hu hu]
  have ha2 := Real.mul_self_sqrt h00.le
  have hb2 := Real.mul_self_sqrt h11.le
  have hc2 := Real.mul_self_sqrt h22.le
  have ha := Real.sqrt_pos.mpr h00
  have hb := Real.sqrt_pos.mpr h11
  have hc := Real.sqrt_pos.mpr h22
  rw [hcell, hgram]
  generalize Real.sqrt (A 0 0 * A 0 0) = a at *
  generalize Real.sqrt (A 0 1 * A 0 1 + A 1 1 * A 1 1) = b at *
  generalize Real.sqrt (A 0 2 * A 0 2 + A 1 2 * A 1 2 + A 2 2 * A 2 2) = c at *
  obtain ⟨hx, hy, hz, hD⟩ := upper_cell_data hp hs hu ha hb hc ha2 hb2 hc2
  have hv := C01.validCell_cellOf ha hb hc hx hy hz hD
  refine ⟨hv, ?_⟩
  generalize hxd : (A 0 1 * A 0 2 + A 1 1 * A 1 2) / b / c = x at *
  generalize hyd : A 0 0 * A 0 2 / a / c = y at *
  generalize hzd : A 0 0 * A 0 1 / a / b = z at *
  have c3 : Real.cos (Spec.rad (C01.cellOf a b c x y z 3)) = x := by
    show Real.cos (Spec.rad (Real.arccos x * 180 / Real.pi)) = x
    rw [C01.rad_arccos, Real.cos_arccos hx.1.le hx.2.le]
  have c4 : Real.cos (Spec.rad (C01.cellOf a b c x y z 4)) = y := by
    show Real.cos (Spec.rad (Real.arccos y * 180 / Real.pi)) = y
    rw [C01.rad_arccos, Real.cos_arccos hy.1.le hy.2.le]
  have c5 : Real.cos (Spec.rad (C01.cellOf a b c x y z 5)) = z := by
    show Real.cos (Spec.rad (Real.arccos z * 180 / Real.pi)) = z
    rw [C01.rad_arccos, Real.cos_arccos hz.1.le hz.2.le]
  rw [C01.metric_eq, c3, c4, c5]
  have ha' := ha.ne'; have hb' := hb.ne'; have hc' := hc.ne'
  have k01 : a * b * z = A 0 0 * A 0 1 := by rw [← hzd]; field_simp
  have k02 : a * c * y = A 0 0 * A 0 2 := by rw [← hyd]; field_simp
  have k12 : b * c * x = A 0 1 * A 0 2 + A 1 1 * A 1 2 := by rw [← hxd]; field_simp
  exact ext3 (show a * a = _ from ha2) (show a * b * z = _ from k01) (show a * c * y = _ from k02)
    (show a * b * z = _ from k01) (show b * b = _ from hb2) (show b * c * x = _ from k12)
    (show a * c * y = _ from k02) (show b * c * x = _ from k12) (show c * c = _ from hc2)

end C02

open C02

/-- C02.4 (tools, Cholesky uniqueness for A): every upper-triangular matrix with positive diagonal is the A matrix
of the valid cell that `a_to_cell` extracts from it. -/
theorem form_a_mat_a_to_cell_tools :
    ∀ A : Matrix (Fin 3) (Fin 3) ℝ, Spec.IsUpperPos A →
      Spec.ValidCell (Tools.a_to_cell A) ∧ Tools.form_a_mat (Tools.a_to_cell A) = A := by
  intro A hA
  obtain ⟨hv, hm⟩ := a_to_cell_upper hA
  refine ⟨hv, upper_eq_of_gram (formA_upper_tools hv) hA ?_⟩
  rw [formA_gram_tools hv, hm]

/-- C02.4 (laue, Cholesky uniqueness for A). -/
theorem form_a_mat_a_to_cell_laue :
    ∀ A : Matrix (Fin 3) (Fin 3) ℝ, Spec.IsUpperPos A →
      Spec.ValidCell (Laue.a_to_cell A) ∧ Laue.form_a_mat (Laue.a_to_cell A) = A := by
  rw [laue_a_to_cell, laue_formA]; exact form_a_mat_a_to_cell_tools

/-- C02.4 (laue, Cholesky uniqueness for B): every upper-triangular matrix with positive diagonal is the B matrix
of the valid cell that `b_to_cell` extracts from it. -/
theorem form_b_mat_b_to_cell_laue :
    ∀ B : Matrix (Fin 3) (Fin 3) ℝ, Spec.IsUpperPos B →
      Spec.ValidCell (Laue.b_to_cell B) ∧ Laue.form_b_mat (Laue.b_to_cell B) = B := by
  intro B hB
  have hb : Laue.b_to_cell B = Tools.cell_invert (Tools.a_to_cell B) := rfl
  obtain ⟨hvs, hAs⟩ := form_a_mat_a_to_cell_tools B hB
  have hvc := cell_invert_valid_tools hvs
  have hBc := formB_upper_laue hvc
  obtain ⟨hv2, hA2⟩ := form_a_mat_a_to_cell_tools _ hBc
  have h1 : Tools.cell_invert (Tools.a_to_cell (Laue.form_b_mat (Tools.cell_invert (Tools.a_to_cell B))))
      = Tools.cell_invert (Tools.a_to_cell B) := b_to_cell_formB_laue hvc
  have h2 : Tools.a_to_cell (Laue.form_b_mat (Tools.cell_invert (Tools.a_to_cell B))) = Tools.a_to_cell B := by
    rw [← cell_invert_invol_tools hv2, h1, cell_invert_invol_tools hvs]
  rw [hb]
  refine ⟨hvc, ?_⟩
  rw [← hA2, h2, hAs]

/-- C02.4 (tools, Cholesky uniqueness for B). -/
theorem form_b_mat_b_to_cell_tools :
    ∀ B : Matrix (Fin 3) (Fin 3) ℝ, Spec.IsUpperPos B →
      Spec.ValidCell (Tools.b_to_cell B) ∧ Tools.form_b_mat (Tools.b_to_cell B) = B := by
  intro B hB
  have hb : Tools.b_to_cell B = Laue.b_to_cell ((2 * Real.pi)⁻¹ • B) := rfl
  have hk : 0 < (2 * Real.pi)⁻¹ := by positivity
  have hB' : Spec.IsUpperPos ((2 * Real.pi)⁻¹ • B) := by
    obtain ⟨h1, h2, h3, h4, h5, h6⟩ := hB
    refine ⟨?_, ?_, ?_, ?_, ?_, ?_⟩ <;> simp only [Matrix.smul_apply, smul_eq_mul]
    · rw [h1, mul_zero]
    · rw [h2, mul_zero]
    · rw [h3, mul_zero]
    · exact mul_pos hk h4
    · exact mul_pos hk h5
    · exact mul_pos hk h6
  obtain ⟨hv, he⟩ := form_b_mat_b_to_cell_laue _ hB'
  rw [hb]
  refine ⟨hv, ?_⟩
  rw [C01.formB_tools_eq_smul, he, smul_smul, mul_inv_cancel₀ two_pi_ne, one_smul]

/-- C02.4 (laue): the hypothesis `hcell` of the C13 theorems: the B matrix recomputed from the cell of
`(U B)⁻¹` is `B`, for every proper rotation `U` and every upper-triangular `B` with positive diagonal. -/
theorem hcell_laue (U B : Matrix (Fin 3) (Fin 3) ℝ) (hU : Spec.IsRot U) (hB : Spec.IsUpperPos B) :
    Laue.form_b_mat (Laue.ubi_to_cell ((U * B)⁻¹)) = B := by
  obtain ⟨hv, hb⟩ := form_b_mat_b_to_cell_laue B hB
  have := ubi_to_cell_u_to_ubi_laue (U := U) hU hv
  rw [laue_u_to_ubi, hb] at this
  rw [this, hb]

/-- C02.4 (tools): the hypothesis `hcell` of the C13 theorems, tools convention `UBI = 2π (U B)⁻¹`. -/
theorem hcell_tools (U B : Matrix (Fin 3) (Fin 3) ℝ) (hU : Spec.IsRot U) (hB : Spec.IsUpperPos B) :
    Tools.form_b_mat (Tools.ubi_to_cell ((2 * Real.pi) • (U * B)⁻¹)) = B := by
  obtain ⟨hv, hb⟩ := form_b_mat_b_to_cell_tools B hB
  have := ubi_to_cell_u_to_ubi_tools (U := U) hU hv
  rw [tools_u_to_ubi, hb] at this
  rw [this, hb]

/-- C02.4 (laue): `hcell` in the form used by C13 for `B = form_b_mat cell'`. -/
theorem hcell_of_cell_laue (U : Matrix (Fin 3) (Fin 3) ℝ) (cell' : Fin 6 → ℝ) (hU : Spec.IsRot U)
    (h : Spec.ValidCell cell') :
    Laue.form_b_mat (Laue.ubi_to_cell (Laue.u_to_ubi U cell')) = Laue.form_b_mat cell' := by
  rw [ubi_to_cell_u_to_ubi_laue hU h]

/-- C02.4 (tools): `hcell` in the form used by C13 for `B = form_b_mat cell'`. -/
theorem hcell_of_cell_tools (U : Matrix (Fin 3) (Fin 3) ℝ) (cell' : Fin 6 → ℝ) (hU : Spec.IsRot U)
    (h : Spec.ValidCell cell') :
    Tools.form_b_mat (Tools.ubi_to_cell (Tools.u_to_ubi U cell')) = Tools.form_b_mat cell' := by
  rw [ubi_to_cell_u_to_ubi_tools hU h]

/-- C02.3 (laue): the Rodrigues vector of the UBI is the Rodrigues vector of `U`. -/
theorem ubi_to_rod_u_to_ubi_laue (hU : Spec.IsRot U) (h : Spec.ValidCell cell) :
    Laue.ubi_to_rod (Laue.u_to_ubi U cell) = Laue.u_to_rod U := by
  simp only [Laue.ubi_to_rod, ubi_to_u_u_to_ubi_laue hU h]
  cases Laue.u_to_rod U <;> simp

/-- C02.3 (tools): the Rodrigues vector of the UBI is the Rodrigues vector of `U`. -/
theorem ubi_to_rod_u_to_ubi_tools (hU : Spec.IsRot U) (h : Spec.ValidCell cell) :
    Tools.ubi_to_rod (Tools.u_to_ubi U cell) = Tools.u_to_rod U := by
  simp only [Tools.ubi_to_rod, ubi_to_u_u_to_ubi_tools hU h]
  cases Tools.u_to_rod U <;> simp

/-- C02.3/5 (laue) `ubi_to_u_b`: the matrix handed to `ub_to_u_b` is `inv(ubi) = U·B`, hence ANY QR output for it is
normalised to `(U, B)`: decomposing the UBI returns the same `U` and the same `B`. -/
theorem ubi_to_u_b_u_to_ubi_laue (Q R : Matrix (Fin 3) (Fin 3) ℝ) (hU : Spec.IsRot U) (h : Spec.ValidCell cell)
    (hQ : Qᵀ * Q = 1) (h10 : R 1 0 = 0) (h20 : R 2 0 = 0) (h21 : R 2 1 = 0)
    (hQR : Q * R = (Laue.u_to_ubi U cell)⁻¹) :
    normalise Q R = (U, Laue.form_b_mat cell) := by
  apply ub_to_u_b_recovers U _ Q R hU (formB_upper_laue h) hQ h10 h20 h21
  rw [hQR, laue_u_to_ubi, Matrix.nonsing_inv_nonsing_inv _ (isUnit_det_UB hU (formB_upper_laue h))]

/-- C02.3/5 (tools) `ubi_to_u_b`: the matrix handed to `ub_to_u_b` is `2π·inv(ubi) = U·B`. -/
theorem ubi_to_u_b_u_to_ubi_tools (Q R : Matrix (Fin 3) (Fin 3) ℝ) (hU : Spec.IsRot U) (h : Spec.ValidCell cell)
    (hQ : Qᵀ * Q = 1) (h10 : R 1 0 = 0) (h20 : R 2 0 = 0) (h21 : R 2 1 = 0)
    (hQR : Q * R = (2 * Real.pi) • (Tools.u_to_ubi U cell)⁻¹) :
    normalise Q R = (U, Tools.form_b_mat cell) := by
  apply ub_to_u_b_recovers U _ Q R hU (formB_upper_tools h) hQ h10 h20 h21
  have hu := isUnit_det_UB hU (formB_upper_tools h)
  rw [hQR, tools_u_to_ubi, inv_smul_real two_pi_ne _ ((Matrix.isUnit_nonsing_inv_det_iff).mpr hu),
    Matrix.nonsing_inv_nonsing_inv _ hu, smul_smul, mul_inv_cancel₀ two_pi_ne, one_smul]

/-! ### the hypotheses are satisfiable -/

example : Tools.ubi_to_u (Tools.u_to_ubi (Spec.Rz 1) ![4, 5, 6, 90, 90, 60]) = Spec.Rz 1 :=
  ubi_to_u_u_to_ubi_tools (Spec.Rz_isRot 1) validCell_example
example : Laue.ubi_to_cell (Laue.u_to_ubi (Spec.Rx 2 * Spec.Rz 1) ![4, 5, 6, 90, 90, 60]) = ![4, 5, 6, 90, 90, 60] :=
  ubi_to_cell_u_to_ubi_laue ((Spec.Rx_isRot 2).mul (Spec.Rz_isRot 1)) validCell_example
