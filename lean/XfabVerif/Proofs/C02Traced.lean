/-
C02 — `ub_to_u_b` tied by TRANSLATION.

`numpy.linalg.qr` is an external call.  The tracer (harness/gen_numeric.py) executes the real `ub_to_u_b` with the result of that
call replaced by two symbolic matrices, which become extra parameters `(Q, R)` of the generated definitions
`Tools.ub_to_u_b UB Q R` / `Laue.ub_to_u_b UB Q R`: everything the function does AFTER the factorisation is generated from the
source.  What is assumed about `(Q, R)` is exactly the QR contract (`QᵀQ = 1`, `R` upper triangular, `Q·R = UB`), as hypotheses; the
harness checks that contract on numpy's output on every case and feeds numpy's own `(Q, R)` to the Float twin (bit-identical result).

* `ub_to_u_b_traced_*`     the generated definition IS the sign normalisation `C02.normalise` the C02 theorems are stated for;
* `ub_to_u_b_spec_*`       for every `UB` with positive determinant and every factorisation satisfying the contract, the code returns
                            `(U, B)` with `U·B = UB`, `U` a proper rotation, `B` upper triangular with positive diagonal;
* `ub_to_u_b_unique_*`     … and that pair is the only one: any `(U', B')` with those properties is what the code returns
                            (independently of which QR routine produced `(Q, R)`);
* `ub_to_u_b_of_ub_*`      for `UB = U·B` the code returns exactly `(U, B)`.
-/
import XfabVerif.Proofs.C02

namespace C02
open Matrix

theorem ub_to_u_b_traced_tools (UB Q R : M3) : Tools.ub_to_u_b UB Q R = normalise Q R := by
  simp only [Tools.ub_to_u_b, normalise, flip0, flip1, flip2]
  by_cases h0 : R 0 0 < 0 <;> by_cases h1 : R 1 1 < 0 <;> by_cases h2 : R 2 2 < 0 <;>
    simp [h0, h1, h2] <;> (try constructor) <;> (ext i j; fin_cases i <;> fin_cases j <;> simp)

theorem ub_to_u_b_traced_laue (UB Q R : M3) : Laue.ub_to_u_b UB Q R = normalise Q R := by
  simp only [Laue.ub_to_u_b, normalise, flip0, flip1, flip2]
  by_cases h0 : R 0 0 < 0 <;> by_cases h1 : R 1 1 < 0 <;> by_cases h2 : R 2 2 < 0 <;>
    simp [h0, h1, h2] <;> (try constructor) <;> (ext i j; fin_cases i <;> fin_cases j <;> simp)

/-- C02 (split of any UB with positive determinant), on the generated definition -/
theorem ub_to_u_b_spec_tools (UB Q R : M3) (hQ : Qᵀ * Q = 1) (h10 : R 1 0 = 0) (h20 : R 2 0 = 0) (h21 : R 2 1 = 0)
    (hQR : Q * R = UB) (hdet : 0 < UB.det) :
    (Tools.ub_to_u_b UB Q R).1 * (Tools.ub_to_u_b UB Q R).2 = UB ∧ (Tools.ub_to_u_b UB Q R).1ᵀ * (Tools.ub_to_u_b UB Q R).1 = 1 ∧
      (Tools.ub_to_u_b UB Q R).1.det = 1 ∧ Spec.IsUpperPos (Tools.ub_to_u_b UB Q R).2 := by
  rw [ub_to_u_b_traced_tools]
  exact normalise_spec UB Q R hQ h10 h20 h21 hQR hdet

theorem ub_to_u_b_spec_laue (UB Q R : M3) (hQ : Qᵀ * Q = 1) (h10 : R 1 0 = 0) (h20 : R 2 0 = 0) (h21 : R 2 1 = 0)
    (hQR : Q * R = UB) (hdet : 0 < UB.det) :
    (Laue.ub_to_u_b UB Q R).1 * (Laue.ub_to_u_b UB Q R).2 = UB ∧ (Laue.ub_to_u_b UB Q R).1ᵀ * (Laue.ub_to_u_b UB Q R).1 = 1 ∧
      (Laue.ub_to_u_b UB Q R).1.det = 1 ∧ Spec.IsUpperPos (Laue.ub_to_u_b UB Q R).2 := by
  rw [ub_to_u_b_traced_laue]
  exact normalise_spec UB Q R hQ h10 h20 h21 hQR hdet

/-- C02 (uniqueness): the code returns THE pair (proper rotation, upper triangular with positive diagonal) whose product is UB -/
theorem ub_to_u_b_unique_tools (UB Q R U B : M3) (hQ : Qᵀ * Q = 1) (h10 : R 1 0 = 0) (h20 : R 2 0 = 0) (h21 : R 2 1 = 0)
    (hQR : Q * R = UB) (hdet : 0 < UB.det) (hU : Spec.IsRot U) (hB : Spec.IsUpperPos B) (hUB : U * B = UB) :
    Tools.ub_to_u_b UB Q R = (U, B) := by
  rw [ub_to_u_b_traced_tools]
  exact normalise_unique UB Q R U B hQ h10 h20 h21 hQR hdet hU hB hUB

theorem ub_to_u_b_unique_laue (UB Q R U B : M3) (hQ : Qᵀ * Q = 1) (h10 : R 1 0 = 0) (h20 : R 2 0 = 0) (h21 : R 2 1 = 0)
    (hQR : Q * R = UB) (hdet : 0 < UB.det) (hU : Spec.IsRot U) (hB : Spec.IsUpperPos B) (hUB : U * B = UB) :
    Laue.ub_to_u_b UB Q R = (U, B) := by
  rw [ub_to_u_b_traced_laue]
  exact normalise_unique UB Q R U B hQ h10 h20 h21 hQR hdet hU hB hUB

/-- C02: decomposing `U·B` gives back `U` and `B` -/
theorem ub_to_u_b_of_ub_tools (U B Q R : M3) (hU : Spec.IsRot U) (hB : Spec.IsUpperPos B)
    (hQ : Qᵀ * Q = 1) (h10 : R 1 0 = 0) (h20 : R 2 0 = 0) (h21 : R 2 1 = 0) (hQR : Q * R = U * B) :
    Tools.ub_to_u_b (U * B) Q R = (U, B) := by
  rw [ub_to_u_b_traced_tools]
  exact ub_to_u_b_recovers U B Q R hU hB hQ h10 h20 h21 hQR

theorem ub_to_u_b_of_ub_laue (U B Q R : M3) (hU : Spec.IsRot U) (hB : Spec.IsUpperPos B)
    (hQ : Qᵀ * Q = 1) (h10 : R 1 0 = 0) (h20 : R 2 0 = 0) (h21 : R 2 1 = 0) (hQR : Q * R = U * B) :
    Laue.ub_to_u_b (U * B) Q R = (U, B) := by
  rw [ub_to_u_b_traced_laue]
  exact ub_to_u_b_recovers U B Q R hU hB hQ h10 h20 h21 hQR

/-! ### the hypotheses are satisfiable: `Q = -1`, `R = -UB` is a QR pair of an upper triangular `UB` with positive diagonal -/

example : Tools.ub_to_u_b ((1 : M3) * !![2, 1, 3; 0, 5, 7; 0, 0, 11]) (-1) (-(!![2, 1, 3; 0, 5, 7; 0, 0, 11] : M3)) =
    ((1 : M3), !![2, 1, 3; 0, 5, 7; 0, 0, 11]) := by
  apply ub_to_u_b_of_ub_tools
  · exact ⟨by simp, by simp⟩
  · exact ⟨rfl, rfl, rfl, by show (0 : ℝ) < 2; norm_num, by show (0 : ℝ) < 5; norm_num, by show (0 : ℝ) < 11; norm_num⟩
  · simp
  · simp
  · simp
  · simp
  · simp

end C02
