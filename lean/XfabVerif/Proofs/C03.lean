/-
C03: rotation constructors of xfab.tools / xfab.laue and their inverses.
-/
import XfabVerif.Gen.ToolsReal
import XfabVerif.Gen.LaueReal
import XfabVerif.Spec.Basic

set_option linter.unusedVariables false
set_option linter.style.longLine false
set_option linter.unusedSimpArgs false

open Matrix Spec

noncomputable section

namespace C03

/-! ### Bridges: the Laue twins of the rotation functions are definitionally the Tools ones -/

theorem laue_euler_to_u : Laue.euler_to_u = Tools.euler_to_u := rfl
theorem laue_form_omega_mat : Laue.form_omega_mat = Tools.form_omega_mat := rfl
theorem laue_form_omega_mat_general : Laue.form_omega_mat_general = Tools.form_omega_mat_general := rfl
theorem laue_detect_tilt : Laue.detect_tilt = Tools.detect_tilt := rfl
theorem laue_quart_to_omega : Laue.quart_to_omega = Tools.quart_to_omega := rfl
theorem laue_rod_to_u : Laue.rod_to_u = Tools.rod_to_u := rfl
theorem laue_u_to_rod : Laue.u_to_rod = Tools.u_to_rod := rfl
theorem laue_arctan2 : Laue._arctan2 = Tools._arctan2 := rfl
theorem laue_u_to_euler : Laue.u_to_euler = Tools.u_to_euler := rfl

end C03

open C03

/-! ### 1. Euler -/

/-- C03: `euler_to_u φ1 Φ φ2 = Rz φ1 · Rx Φ · Rz φ2` (Bunge). -/
theorem euler_to_u_eq (φ1 Φ φ2 : ℝ) : Tools.euler_to_u φ1 Φ φ2 = Rz φ1 * Rx Φ * Rz φ2 := by
  ext i j; fin_cases i <;> fin_cases j <;>
    simp [Tools.euler_to_u, Rz, Rx, Matrix.mul_apply, Fin.sum_univ_three] <;> ring

/-- C03: `euler_to_u` is a proper rotation for all real angles. -/
theorem euler_to_u_isRot (φ1 Φ φ2 : ℝ) : IsRot (Tools.euler_to_u φ1 Φ φ2) := by
  rw [euler_to_u_eq]; exact ((Rz_isRot _).mul (Rx_isRot _)).mul (Rz_isRot _)

/-- C03 (laue): `euler_to_u φ1 Φ φ2 = Rz φ1 · Rx Φ · Rz φ2`. -/
theorem euler_to_u_eq_laue (φ1 Φ φ2 : ℝ) : Laue.euler_to_u φ1 Φ φ2 = Rz φ1 * Rx Φ * Rz φ2 := by
  rw [laue_euler_to_u]; exact euler_to_u_eq _ _ _

/-- C03 (laue): `euler_to_u` is a proper rotation. -/
theorem euler_to_u_isRot_laue (φ1 Φ φ2 : ℝ) : IsRot (Laue.euler_to_u φ1 Φ φ2) := by
  rw [laue_euler_to_u]; exact euler_to_u_isRot _ _ _

/-! ### 2. omega matrices -/

/-- C03: `form_omega_mat ω = Rz ω`. -/
theorem form_omega_mat_eq (ω : ℝ) : Tools.form_omega_mat ω = Rz ω := rfl

/-- C03: `form_omega_mat ω` is a proper rotation. -/
theorem form_omega_mat_isRot (ω : ℝ) : IsRot (Tools.form_omega_mat ω) := by
  rw [form_omega_mat_eq]; exact Rz_isRot _

/-- C03: `form_omega_mat_general ω χ w = Rx χ · Ry w · Rz ω`. -/
theorem form_omega_mat_general_eq (ω χ w : ℝ) :
    Tools.form_omega_mat_general ω χ w = Rx χ * Ry w * Rz ω := by
  simp only [Tools.form_omega_mat_general, form_omega_mat_eq, Matrix.mul_assoc]
  rfl

/-- C03: `form_omega_mat_general` is a proper rotation. -/
theorem form_omega_mat_general_isRot (ω χ w : ℝ) : IsRot (Tools.form_omega_mat_general ω χ w) := by
  rw [form_omega_mat_general_eq]; exact ((Rx_isRot _).mul (Ry_isRot _)).mul (Rz_isRot _)

/-- C03 (laue): `form_omega_mat ω = Rz ω`. -/
theorem form_omega_mat_eq_laue (ω : ℝ) : Laue.form_omega_mat ω = Rz ω := rfl

/-- C03 (laue): `form_omega_mat ω` is a proper rotation. -/
theorem form_omega_mat_isRot_laue (ω : ℝ) : IsRot (Laue.form_omega_mat ω) := by
  rw [form_omega_mat_eq_laue]; exact Rz_isRot _

/-- C03 (laue): `form_omega_mat_general ω χ w = Rx χ · Ry w · Rz ω`. -/
theorem form_omega_mat_general_eq_laue (ω χ w : ℝ) :
    Laue.form_omega_mat_general ω χ w = Rx χ * Ry w * Rz ω := by
  rw [laue_form_omega_mat_general]; exact form_omega_mat_general_eq _ _ _

/-- C03 (laue): `form_omega_mat_general` is a proper rotation. -/
theorem form_omega_mat_general_isRot_laue (ω χ w : ℝ) :
    IsRot (Laue.form_omega_mat_general ω χ w) := by
  rw [laue_form_omega_mat_general]; exact form_omega_mat_general_isRot _ _ _

/-! ### 3. detector tilt -/

/-- C03: `detect_tilt tx ty tz = Rx tx · Ry ty · Rz tz`. -/
theorem detect_tilt_eq (tx ty tz : ℝ) : Tools.detect_tilt tx ty tz = Rx tx * Ry ty * Rz tz := by
  simp only [Tools.detect_tilt, Matrix.mul_assoc]
  rfl

/-- C03: `detect_tilt` is a proper rotation. -/
theorem detect_tilt_isRot (tx ty tz : ℝ) : IsRot (Tools.detect_tilt tx ty tz) := by
  rw [detect_tilt_eq]; exact ((Rx_isRot _).mul (Ry_isRot _)).mul (Rz_isRot _)

/-- C03 (laue): `detect_tilt tx ty tz = Rx tx · Ry ty · Rz tz`. -/
theorem detect_tilt_eq_laue (tx ty tz : ℝ) : Laue.detect_tilt tx ty tz = Rx tx * Ry ty * Rz tz := by
  rw [laue_detect_tilt]; exact detect_tilt_eq _ _ _

/-- C03 (laue): `detect_tilt` is a proper rotation. -/
theorem detect_tilt_isRot_laue (tx ty tz : ℝ) : IsRot (Laue.detect_tilt tx ty tz) := by
  rw [laue_detect_tilt]; exact detect_tilt_isRot _ _ _

/-! ### 4. quaternion omega -/

/-- C03: `quart_to_omega w wx wy = P · Rz(w·π/180) · Pᵀ`, `P = Rx wx · Ry wy` (`w` in degrees). -/
theorem quart_to_omega_eq (w wx wy : ℝ) :
    Tools.quart_to_omega w wx wy
      = (Rx wx * Ry wy) * Rz (w * Real.pi / 180) * (Rx wx * Ry wy)ᵀ := by
  have h2 : w * Real.pi / 180 = 2 * (w * Real.pi / 360) := by ring
  rw [h2]
  simp only [Tools.quart_to_omega]
  generalize w * Real.pi / 360 = h
  have hx : Real.cos wx ^ 2 = 1 - Real.sin wx ^ 2 := by linarith [Real.sin_sq_add_cos_sq wx]
  have hy : Real.cos wy ^ 2 = 1 - Real.sin wy ^ 2 := by linarith [Real.sin_sq_add_cos_sq wy]
  have hh : Real.cos h ^ 2 = 1 - Real.sin h ^ 2 := by linarith [Real.sin_sq_add_cos_sq h]
  ext i j; fin_cases i <;> fin_cases j <;>
    simp [Rz, Rx, Ry, Matrix.mul_apply, Fin.sum_univ_three,
      Matrix.mulVec, dotProduct, Matrix.transpose_apply, Real.cos_two_mul, Real.sin_two_mul] <;>
    ring_nf <;> simp only [hx, hy, hh] <;> ring

/-- C03: `quart_to_omega` is a proper rotation. -/
theorem quart_to_omega_isRot (w wx wy : ℝ) : IsRot (Tools.quart_to_omega w wx wy) := by
  rw [quart_to_omega_eq]
  have hP := (Rx_isRot wx).mul (Ry_isRot wy)
  exact (hP.mul (Rz_isRot _)).mul hP.transpose

/-- C03 (laue): `quart_to_omega w wx wy = P · Rz(w·π/180) · Pᵀ`, `P = Rx wx · Ry wy`. -/
theorem quart_to_omega_eq_laue (w wx wy : ℝ) :
    Laue.quart_to_omega w wx wy
      = (Rx wx * Ry wy) * Rz (w * Real.pi / 180) * (Rx wx * Ry wy)ᵀ := by
  rw [laue_quart_to_omega]; exact quart_to_omega_eq _ _ _

/-- C03 (laue): `quart_to_omega` is a proper rotation. -/
theorem quart_to_omega_isRot_laue (w wx wy : ℝ) : IsRot (Laue.quart_to_omega w wx wy) := by
  rw [laue_quart_to_omega]; exact quart_to_omega_isRot _ _ _

/-! ### 5. Rodrigues vector → U -/

namespace C03

/-- the skew matrix `[u]ₓ` of the cross product `v ↦ u × v` -/
def crossMat (u : Fin 3 → ℝ) : Matrix (Fin 3) (Fin 3) ℝ :=
  !![0, -u 2, u 1; u 2, 0, -u 0; -u 1, u 0, 0]

/-- sanity: `crossMat u` really is the (right-handed) cross product with `u` -/
theorem crossMat_mulVec (u v : Fin 3 → ℝ) : crossMat u *ᵥ v = crossProduct u v := by
  ext i; fin_cases i <;>
    simp [crossMat, Matrix.mulVec, dotProduct, Fin.sum_univ_three, crossProduct] <;> ring

/-- active right-handed rotation about the unit axis `u` by the angle `θ` (Rodrigues formula) -/
def axisAngle (u : Fin 3 → ℝ) (θ : ℝ) : Matrix (Fin 3) (Fin 3) ℝ :=
  Real.cos θ • (1 : Matrix (Fin 3) (Fin 3) ℝ) + (1 - Real.cos θ) • vecMulVec u u
    + Real.sin θ • crossMat u

lemma one_add_dot_pos (r : Fin 3 → ℝ) : 0 < 1 + r ⬝ᵥ r := by
  have : 0 ≤ r ⬝ᵥ r := by
    simp only [dotProduct, Fin.sum_univ_three]
    nlinarith [mul_self_nonneg (r 0), mul_self_nonneg (r 1), mul_self_nonneg (r 2)]
  linarith

end C03

/-- C03: closed form of `rod_to_u`: the transpose of `((1−n²) I + 2 r rᵀ + 2 [r]ₓ)/(1+n²)`, `n² = r·r`. -/
theorem rod_to_u_formula (r : Fin 3 → ℝ) :
    Tools.rod_to_u r =
      ((1 / (1 + r ⬝ᵥ r)) • ((1 - r ⬝ᵥ r) • (1 : Matrix (Fin 3) (Fin 3) ℝ)
        + (2 : ℝ) • vecMulVec r r + (2 : ℝ) • C03.crossMat r))ᵀ := by
  ext i j; fin_cases i <;> fin_cases j <;>
    simp [Tools.rod_to_u, C03.crossMat, vecMulVec, Matrix.transpose_apply, Matrix.one_apply] <;> ring

/-- C03: `rod_to_u r` is a proper rotation for every real vector `r`. -/
theorem rod_to_u_isRot (r : Fin 3 → ℝ) : IsRot (Tools.rod_to_u r) := by
  have hpos := C03.one_add_dot_pos r
  have hne : 1 + r ⬝ᵥ r ≠ 0 := ne_of_gt hpos
  simp only [dotProduct, Fin.sum_univ_three] at hne
  constructor
  · ext i j; fin_cases i <;> fin_cases j <;>
      simp [Tools.rod_to_u, Matrix.mul_apply, Fin.sum_univ_three, Matrix.transpose_apply,
        dotProduct] <;> field_simp <;> ring
  · simp [Tools.rod_to_u, Matrix.det_fin_three, dotProduct, Fin.sum_univ_three]
    field_simp
    ring

/-- C03: `rod_to_u 0 = 1`. -/
theorem rod_to_u_zero : Tools.rod_to_u 0 = 1 := by
  ext i j; fin_cases i <;> fin_cases j <;> simp [Tools.rod_to_u]

namespace C03

lemma cos_two_arctan (t : ℝ) : Real.cos (2 * Real.arctan t) = (1 - t ^ 2) / (1 + t ^ 2) := by
  have hpos : (0 : ℝ) < 1 + t ^ 2 := by positivity
  rw [Real.cos_two_mul, Real.cos_sq_arctan]
  field_simp
  ring

lemma sin_two_arctan (t : ℝ) : Real.sin (2 * Real.arctan t) = 2 * t / (1 + t ^ 2) := by
  have hpos : (0 : ℝ) < 1 + t ^ 2 := by positivity
  have hs : Real.sqrt (1 + t ^ 2) ^ 2 = 1 + t ^ 2 := Real.sq_sqrt hpos.le
  have hs0 : Real.sqrt (1 + t ^ 2) ≠ 0 := (Real.sqrt_pos.mpr hpos).ne'
  rw [Real.sin_two_mul, Real.sin_arctan, Real.cos_arctan]
  field_simp
  rw [hs]

end C03

/-- C03: axis/angle reading of `rod_to_u`: for `r ≠ 0` the transpose of `rod_to_u r` (library is passive) is the
active right-handed rotation about `u = r/|r|` by `θ = 2·arctan |r|`. -/
theorem rod_to_u_axis_angle (r : Fin 3 → ℝ) (hr : r ≠ 0) :
    (Tools.rod_to_u r)ᵀ
      = C03.axisAngle ((1 / Real.sqrt (r ⬝ᵥ r)) • r) (2 * Real.arctan (Real.sqrt (r ⬝ᵥ r))) := by
  have hpos : 0 < r ⬝ᵥ r := by
    have h0 : 0 ≤ r ⬝ᵥ r := by
      simp only [dotProduct, Fin.sum_univ_three]
      nlinarith [mul_self_nonneg (r 0), mul_self_nonneg (r 1), mul_self_nonneg (r 2)]
    rcases h0.lt_or_eq with h | h
    · exact h
    · exfalso; apply hr
      simp only [dotProduct, Fin.sum_univ_three] at h
      ext i; fin_cases i <;> simp <;>
        nlinarith [mul_self_nonneg (r 0), mul_self_nonneg (r 1), mul_self_nonneg (r 2)]
  rw [rod_to_u_formula, Matrix.transpose_transpose]
  unfold C03.axisAngle
  rw [C03.cos_two_arctan, C03.sin_two_arctan, Real.sq_sqrt hpos.le]
  set n2 := r ⬝ᵥ r with hn2
  set S := Real.sqrt n2 with hS
  have hS2 : S ^ 2 = n2 := Real.sq_sqrt hpos.le
  have hS0 : S ≠ 0 := (Real.sqrt_pos.mpr hpos).ne'
  have h1 : (1 : ℝ) + n2 ≠ 0 := by linarith
  have hn0 : n2 ≠ 0 := hpos.ne'
  ext i j; fin_cases i <;> fin_cases j <;>
    simp [C03.crossMat, vecMulVec, Matrix.one_apply] <;> field_simp <;>
    rw [hS2] <;> ring

/-- C03: the unit-axis claim used in `rod_to_u_axis_angle`: `r/|r|` has norm one. -/
theorem rod_axis_unit (r : Fin 3 → ℝ) (hr : r ≠ 0) :
    ((1 / Real.sqrt (r ⬝ᵥ r)) • r) ⬝ᵥ ((1 / Real.sqrt (r ⬝ᵥ r)) • r) = 1 := by
  have h0 : 0 ≤ r ⬝ᵥ r := by
    simp only [dotProduct, Fin.sum_univ_three]
    nlinarith [mul_self_nonneg (r 0), mul_self_nonneg (r 1), mul_self_nonneg (r 2)]
  have hpos : 0 < r ⬝ᵥ r := by
    rcases h0.lt_or_eq with h | h
    · exact h
    · exfalso; apply hr
      simp only [dotProduct, Fin.sum_univ_three] at h
      ext i; fin_cases i <;> simp <;>
        nlinarith [mul_self_nonneg (r 0), mul_self_nonneg (r 1), mul_self_nonneg (r 2)]
  have hS0 : Real.sqrt (r ⬝ᵥ r) ≠ 0 := (Real.sqrt_pos.mpr hpos).ne'
  rw [smul_dotProduct, dotProduct_smul, smul_eq_mul, smul_eq_mul]
  field_simp
  rw [Real.sq_sqrt h0]

/-! ### 6. `u_to_rod ∘ rod_to_u = id` -/

namespace C03

lemma rod_to_u_trace (r : Fin 3 → ℝ) :
    1 + Tools.rod_to_u r 0 0 + Tools.rod_to_u r 1 1 + Tools.rod_to_u r 2 2 = 4 / (1 + r ⬝ᵥ r) := by
  have hne : 1 + r ⬝ᵥ r ≠ 0 := ne_of_gt (one_add_dot_pos r)
  simp only [dotProduct, Fin.sum_univ_three] at hne ⊢
  simp [Tools.rod_to_u, dotProduct, Fin.sum_univ_three]
  field_simp
  ring

end C03

/-- C03: `u_to_rod (rod_to_u r) = some r` whenever the trace guard `|1+tr U| < 1e-16` is not hit,
i.e. exactly when `1 + r·r ≤ 4e16`. -/
theorem u_to_rod_rod_to_u_sharp (r : Fin 3 → ℝ) (h : 1 + r ⬝ᵥ r ≤ 4e16) :
    Tools.u_to_rod (Tools.rod_to_u r) = some r := by
  have hpos := C03.one_add_dot_pos r
  have htr := C03.rod_to_u_trace r
  have hguard : ¬ |1 + Tools.rod_to_u r 0 0 + Tools.rod_to_u r 1 1 + Tools.rod_to_u r 2 2|
      < (1e-16 : ℝ) := by
    rw [htr, abs_of_pos (by positivity), not_lt, le_div_iff₀ hpos]
    norm_num at h ⊢
    linarith
  unfold Tools.u_to_rod
  simp only []
  rw [if_neg hguard, htr]
  congr 1
  have hne : 1 + r ⬝ᵥ r ≠ 0 := ne_of_gt hpos
  simp only [dotProduct, Fin.sum_univ_three] at hne
  ext i; fin_cases i <;>
    simp [Tools.rod_to_u, dotProduct, Fin.sum_univ_three] <;> field_simp <;> ring

/-- C03: `u_to_rod (rod_to_u r) = some r` for `r·r < 1e16` (covers `|r| ≤ 1e3`). -/
theorem u_to_rod_rod_to_u (r : Fin 3 → ℝ) (h : r ⬝ᵥ r < 1e16) :
    Tools.u_to_rod (Tools.rod_to_u r) = some r := by
  apply u_to_rod_rod_to_u_sharp
  norm_num at h ⊢
  linarith

example : Tools.u_to_rod (Tools.rod_to_u ![1, -2, 3]) = some ![1, -2, 3] :=
  u_to_rod_rod_to_u _ (by simp [dotProduct, Fin.sum_univ_three]; norm_num)

/-- C03 (finding): in exact arithmetic the trace guard of `u_to_rod` rejects `rod_to_u r` for huge `r`
(`1 + r·r > 4e16`, i.e. rotation angle within ~1e-8 rad of 180°). -/
theorem u_to_rod_rod_to_u_none (r : Fin 3 → ℝ) (h : 4e16 < 1 + r ⬝ᵥ r) :
    Tools.u_to_rod (Tools.rod_to_u r) = none := by
  have hpos := C03.one_add_dot_pos r
  have htr := C03.rod_to_u_trace r
  have hguard : |1 + Tools.rod_to_u r 0 0 + Tools.rod_to_u r 1 1 + Tools.rod_to_u r 2 2|
      < (1e-16 : ℝ) := by
    rw [htr, abs_of_pos (by positivity), div_lt_iff₀ hpos]
    norm_num at h ⊢
    linarith
  unfold Tools.u_to_rod
  simp only []
  rw [if_pos hguard]

/-! #### laue twins of 5 and 6 -/

/-- C03 (laue): closed form of `rod_to_u`. -/
theorem rod_to_u_formula_laue (r : Fin 3 → ℝ) :
    Laue.rod_to_u r =
      ((1 / (1 + r ⬝ᵥ r)) • ((1 - r ⬝ᵥ r) • (1 : Matrix (Fin 3) (Fin 3) ℝ)
        + (2 : ℝ) • vecMulVec r r + (2 : ℝ) • C03.crossMat r))ᵀ := by
  rw [laue_rod_to_u]; exact rod_to_u_formula r

/-- C03 (laue): `rod_to_u r` is a proper rotation for every real vector `r`. -/
theorem rod_to_u_isRot_laue (r : Fin 3 → ℝ) : IsRot (Laue.rod_to_u r) := by
  rw [laue_rod_to_u]; exact rod_to_u_isRot r

/-- C03 (laue): `rod_to_u 0 = 1`. -/
theorem rod_to_u_zero_laue : Laue.rod_to_u 0 = 1 := by
  rw [laue_rod_to_u]; exact rod_to_u_zero

/-- C03 (laue): axis/angle reading of `rod_to_u`. -/
theorem rod_to_u_axis_angle_laue (r : Fin 3 → ℝ) (hr : r ≠ 0) :
    (Laue.rod_to_u r)ᵀ
      = C03.axisAngle ((1 / Real.sqrt (r ⬝ᵥ r)) • r) (2 * Real.arctan (Real.sqrt (r ⬝ᵥ r))) := by
  rw [laue_rod_to_u]; exact rod_to_u_axis_angle r hr

/-- C03 (laue): `u_to_rod (rod_to_u r) = some r` when `1 + r·r ≤ 4e16`. -/
theorem u_to_rod_rod_to_u_sharp_laue (r : Fin 3 → ℝ) (h : 1 + r ⬝ᵥ r ≤ 4e16) :
    Laue.u_to_rod (Laue.rod_to_u r) = some r := by
  rw [laue_rod_to_u, laue_u_to_rod]; exact u_to_rod_rod_to_u_sharp r h

/-- C03 (laue): `u_to_rod (rod_to_u r) = some r` for `r·r < 1e16`. -/
theorem u_to_rod_rod_to_u_laue (r : Fin 3 → ℝ) (h : r ⬝ᵥ r < 1e16) :
    Laue.u_to_rod (Laue.rod_to_u r) = some r := by
  rw [laue_rod_to_u, laue_u_to_rod]; exact u_to_rod_rod_to_u r h

/-- C03 (laue, finding): the trace guard rejects `rod_to_u r` for `1 + r·r > 4e16`. -/
theorem u_to_rod_rod_to_u_none_laue (r : Fin 3 → ℝ) (h : 4e16 < 1 + r ⬝ᵥ r) :
    Laue.u_to_rod (Laue.rod_to_u r) = none := by
  rw [laue_rod_to_u, laue_u_to_rod]; exact u_to_rod_rod_to_u_none r h
