/-
C03: rotation constructors of xfab.tools / xfab.laue and their inverses.

Contents (every statement is proved for `Tools.*`; the `_laue` twins follow from the bridges `C03.laue_* : Laue.f = Tools.f := rfl`,
which break as soon as the two modules stop being line-by-line identical):
 1. `euler_to_u_eq`, `euler_to_u_isRot`                       Bunge  Rz φ1 · Rx Φ · Rz φ2
 2. `form_omega_mat_eq/_isRot`, `form_omega_mat_general_eq/_isRot`   Rz ω,  Rx χ · Ry w · Rz ω
 3. `detect_tilt_eq/_isRot`                                   Rx · Ry · Rz
 4. `quart_to_omega_eq/_isRot`                                P · Rz(w°) · Pᵀ,  P = Rx wx · Ry wy
 5. `rod_to_u_formula`, `rod_to_u_isRot`, `rod_to_u_zero`, `rod_to_u_axis_angle`, `rod_axis_unit`
 6. `u_to_rod_rod_to_u(_sharp)`; finding `u_to_rod_rod_to_u_none` (guard fires iff 1 + r·r > 4e16)
 7. `rod_to_u_u_to_rod`, `rod_to_u_u_to_rod_exists`           full strength, every proper rotation
 8. `arctan2_range`, `arctan2_spec`, `arctan2_correct`, `arctan2_approx`, `u_to_euler_range`,
    `euler_roundtrip_generic` (exact, no zeroing), `euler_roundtrip_generic_approx` (4e-8, always),
    `euler_roundtrip_lock0`, `euler_roundtrip_lockpi` (1e-6, at and near lock, every proper rotation),
    `u_to_euler_roundtrip`, `u_to_euler_inverts` (all proper rotations, never raises, range, 1e-6),
    `u_to_euler_euler_to_u_exact` (recovers the angles themselves), `euler_roundtrip_lock0_exact/_lockpi_exact`,
    finding `euler_roundtrip_lock0_not_exact` (the `1e-8` relative zeroing in `_arctan2` makes the exact round trip false).
-/
import XfabVerif.Gen.ToolsReal
import XfabVerif.Gen.LaueReal
import XfabVerif.Spec.Basic
import Mathlib.Analysis.SpecialFunctions.Trigonometric.Bounds

set_option linter.unusedVariables false
set_option linter.style.longLine false
set_option linter.unusedSimpArgs false

open Matrix Spec

noncomputable section

namespace C03

/-! ### Bridges: the Laue twins of the rotation functions are definitionally the Tools ones -/

lemma laue_euler_to_u : Laue.euler_to_u = Tools.euler_to_u := rfl
lemma laue_form_omega_mat : Laue.form_omega_mat = Tools.form_omega_mat := rfl
lemma laue_form_omega_mat_general : Laue.form_omega_mat_general = Tools.form_omega_mat_general := rfl
lemma laue_detect_tilt : Laue.detect_tilt = Tools.detect_tilt := rfl
lemma laue_quart_to_omega : Laue.quart_to_omega = Tools.quart_to_omega := rfl
lemma laue_rod_to_u : Laue.rod_to_u = Tools.rod_to_u := rfl
lemma laue_u_to_rod : Laue.u_to_rod = Tools.u_to_rod := rfl
lemma laue_arctan2 : Laue._arctan2 = Tools._arctan2 := rfl
lemma laue_u_to_euler : Laue.u_to_euler = Tools.u_to_euler := rfl

end C03

open C03

/-! ### 1. Euler -/

/-- C03: `euler_to_u φ1 Φ φ2 = Rz φ1 · Rx Φ · Rz φ2` (Bunge). -/
theorem euler_to_u_eq (φ1 Φ φ2 : ℝ) : Tools.euler_to_u φ1 Φ φ2 = Rz φ1 * Rx Φ * Rz φ2 := by
  ext i j; fin_cases i <;> fin_cases j <;>
    simp [Tools.euler_to_u, Rz, Rx, Matrix.mul_apply, Fin.sum_univ_three] <;> ring

/-- C03: `euler_to_u` is a proper rotation for all real angles. -/
theorem euler_to_u_isRot (φ1 Φ φ2 : ℝ) : IsRot (Tools.euler_to_u φ1 Φ φ2) := by
  rw [euler_to_u_eq]; exact ((Rz_isRot _).mul (Rx_isRot _)).mul (Rz_isRot _)

/-- C03 (laue): `euler_to_u φ1 Φ φ2 = Rz φ1 · Rx Φ · Rz φ2`. -/
theorem euler_to_u_eq_laue (φ1 Φ φ2 : ℝ) : Laue.euler_to_u φ1 Φ φ2 = Rz φ1 * Rx Φ * Rz φ2 := by
  rw [laue_euler_to_u]; exact euler_to_u_eq _ _ _

/-- C03 (laue): `euler_to_u` is a proper rotation. -/
theorem euler_to_u_isRot_laue (φ1 Φ φ2 : ℝ) : IsRot (Laue.euler_to_u φ1 Φ φ2) := by
  rw [laue_euler_to_u]; exact euler_to_u_isRot _ _ _

/-! ### 2. omega matrices -/

/-- C03: `form_omega_mat ω = Rz ω`. -/
theorem form_omega_mat_eq (ω : ℝ) : Tools.form_omega_mat ω = Rz ω := by
  -- entrywise (not `rfl`): tolerates `let`-bound `cos ω`/`sin ω` and re-associated entries
  ext i j; fin_cases i <;> fin_cases j <;> simp [Tools.form_omega_mat, Rz]

/-- C03: `form_omega_mat ω` is a proper rotation. -/
theorem form_omega_mat_isRot (ω : ℝ) : IsRot (Tools.form_omega_mat ω) := by
  rw [form_omega_mat_eq]; exact Rz_isRot _

/-- C03: `form_omega_mat_general ω χ w = Rx χ · Ry w · Rz ω`. -/
theorem form_omega_mat_general_eq (ω χ w : ℝ) :
    Tools.form_omega_mat_general ω χ w = Rx χ * Ry w * Rz ω := by
  -- the inline `phi_x`, `phi_y` literals are identified with `Rx`, `Ry` entrywise (not by `rfl`), so
  -- the names/number of `let`s and the association of the product do not matter
  simp only [Tools.form_omega_mat_general, form_omega_mat_eq]
  ext i j; fin_cases i <;> fin_cases j <;>
    simp [Rx, Ry, Rz, Matrix.mul_apply, Fin.sum_univ_three] <;> ring

/-- C03: `form_omega_mat_general` is a proper rotation. -/
theorem form_omega_mat_general_isRot (ω χ w : ℝ) : IsRot (Tools.form_omega_mat_general ω χ w) := by
  rw [form_omega_mat_general_eq]; exact ((Rx_isRot _).mul (Ry_isRot _)).mul (Rz_isRot _)

/-- C03 (laue): `form_omega_mat ω = Rz ω`. -/
theorem form_omega_mat_eq_laue (ω : ℝ) : Laue.form_omega_mat ω = Rz ω := by
  ext i j; fin_cases i <;> fin_cases j <;> simp [Laue.form_omega_mat, Rz]

/-- C03 (laue): `form_omega_mat ω` is a proper rotation. -/
theorem form_omega_mat_isRot_laue (ω : ℝ) : IsRot (Laue.form_omega_mat ω) := by
  rw [form_omega_mat_eq_laue]; exact Rz_isRot _

/-- C03 (laue): `form_omega_mat_general ω χ w = Rx χ · Ry w · Rz ω`. -/
theorem form_omega_mat_general_eq_laue (ω χ w : ℝ) :
    Laue.form_omega_mat_general ω χ w = Rx χ * Ry w * Rz ω := by
  rw [laue_form_omega_mat_general]; exact form_omega_mat_general_eq _ _ _

/-- C03 (laue): `form_omega_mat_general` is a proper rotation. -/
theorem form_omega_mat_general_isRot_laue (ω χ w : ℝ) :
    IsRot (Laue.form_omega_mat_general ω χ w) := by
  rw [laue_form_omega_mat_general]; exact form_omega_mat_general_isRot _ _ _

/-! ### 3. detector tilt -/

/-- C03: `detect_tilt tx ty tz = Rx tx · Ry ty · Rz tz`. -/
theorem detect_tilt_eq (tx ty tz : ℝ) : Tools.detect_tilt tx ty tz = Rx tx * Ry ty * Rz tz := by
  ext i j; fin_cases i <;> fin_cases j <;>
    simp [Tools.detect_tilt, Tools.form_omega_mat, Rx, Ry, Rz, Matrix.mul_apply, Fin.sum_univ_three] <;>
    first | done | ring

/-- C03: `detect_tilt` is a proper rotation. -/
theorem detect_tilt_isRot (tx ty tz : ℝ) : IsRot (Tools.detect_tilt tx ty tz) := by
  rw [detect_tilt_eq]; exact ((Rx_isRot _).mul (Ry_isRot _)).mul (Rz_isRot _)

/-- C03 (laue): `detect_tilt tx ty tz = Rx tx · Ry ty · Rz tz`. -/
theorem detect_tilt_eq_laue (tx ty tz : ℝ) : Laue.detect_tilt tx ty tz = Rx tx * Ry ty * Rz tz := by
  rw [laue_detect_tilt]; exact detect_tilt_eq _ _ _

/-- C03 (laue): `detect_tilt` is a proper rotation. -/
theorem detect_tilt_isRot_laue (tx ty tz : ℝ) : IsRot (Laue.detect_tilt tx ty tz) := by
  rw [laue_detect_tilt]; exact detect_tilt_isRot _ _ _

/-! ### 4. quaternion omega -/

/-- C03: `quart_to_omega w wx wy = P · Rz(w·π/180) · Pᵀ`, `P = Rx wx · Ry wy` (`w` in degrees). -/
theorem quart_to_omega_eq (w wx wy : ℝ) :
    Tools.quart_to_omega w wx wy
      = (Rx wx * Ry wy) * Rz (w * Real.pi / 180) * (Rx wx * Ry wy)ᵀ := by
  have h2 : w * Real.pi / 180 = 2 * (w * Real.pi / 360) := by ring
  rw [h2]
  simp only [Tools.quart_to_omega]
  generalize w * Real.pi / 360 = h
  have hx : Real.cos wx ^ 2 = 1 - Real.sin wx ^ 2 := by linarith [Real.sin_sq_add_cos_sq wx]
  have hy : Real.cos wy ^ 2 = 1 - Real.sin wy ^ 2 := by linarith [Real.sin_sq_add_cos_sq wy]
  have hh : Real.cos h ^ 2 = 1 - Real.sin h ^ 2 := by linarith [Real.sin_sq_add_cos_sq h]
  ext i j; fin_cases i <;> fin_cases j <;>
    simp [Rz, Rx, Ry, Matrix.mul_apply, Fin.sum_univ_three,
      Matrix.mulVec, dotProduct, Matrix.transpose_apply, Real.cos_two_mul, Real.sin_two_mul] <;>
    ring_nf <;> simp only [hx, hy, hh] <;> ring

/-- C03: `quart_to_omega` is a proper rotation. -/
theorem quart_to_omega_isRot (w wx wy : ℝ) : IsRot (Tools.quart_to_omega w wx wy) := by
  rw [quart_to_omega_eq]
  have hP := (Rx_isRot wx).mul (Ry_isRot wy)
  exact (hP.mul (Rz_isRot _)).mul hP.transpose

/-- C03 (laue): `quart_to_omega w wx wy = P · Rz(w·π/180) · Pᵀ`, `P = Rx wx · Ry wy`. -/
theorem quart_to_omega_eq_laue (w wx wy : ℝ) :
    Laue.quart_to_omega w wx wy
      = (Rx wx * Ry wy) * Rz (w * Real.pi / 180) * (Rx wx * Ry wy)ᵀ := by
  rw [laue_quart_to_omega]; exact quart_to_omega_eq _ _ _

/-- C03 (laue): `quart_to_omega` is a proper rotation. -/
theorem quart_to_omega_isRot_laue (w wx wy : ℝ) : IsRot (Laue.quart_to_omega w wx wy) := by
  rw [laue_quart_to_omega]; exact quart_to_omega_isRot _ _ _

/-! ### 5. Rodrigues vector → U -/

namespace C03

/-- the skew matrix `[u]ₓ` of the cross product `v ↦ u × v` -/
def crossMat (u : Fin 3 → ℝ) : Matrix (Fin 3) (Fin 3) ℝ :=
  !![0, -u 2, u 1; u 2, 0, -u 0; -u 1, u 0, 0]

/-- sanity: `crossMat u` really is the (right-handed) cross product with `u` -/
lemma crossMat_mulVec (u v : Fin 3 → ℝ) : crossMat u *ᵥ v = crossProduct u v := by
  ext i; fin_cases i <;>
    simp [crossMat, Matrix.mulVec, dotProduct, Fin.sum_univ_three, crossProduct] <;> ring

/-- active right-handed rotation about the unit axis `u` by the angle `θ` (Rodrigues formula) -/
def axisAngle (u : Fin 3 → ℝ) (θ : ℝ) : Matrix (Fin 3) (Fin 3) ℝ :=
  Real.cos θ • (1 : Matrix (Fin 3) (Fin 3) ℝ) + (1 - Real.cos θ) • vecMulVec u u
    + Real.sin θ • crossMat u

lemma one_add_dot_pos (r : Fin 3 → ℝ) : 0 < 1 + r ⬝ᵥ r := by
  have : 0 ≤ r ⬝ᵥ r := by
    simp only [dotProduct, Fin.sum_univ_three]
    nlinarith [mul_self_nonneg (r 0), mul_self_nonneg (r 1), mul_self_nonneg (r 2)]
  linarith

end C03

/-- C03: closed form of `rod_to_u`: the transpose of `((1−n²) I + 2 r rᵀ + 2 [r]ₓ)/(1+n²)`, `n² = r·r`. -/
theorem rod_to_u_formula (r : Fin 3 → ℝ) :
    Tools.rod_to_u r =
      ((1 / (1 + r ⬝ᵥ r)) • ((1 - r ⬝ᵥ r) • (1 : Matrix (Fin 3) (Fin 3) ℝ)
        + (2 : ℝ) • vecMulVec r r + (2 : ℝ) • C03.crossMat r))ᵀ := by
  ext i j; fin_cases i <;> fin_cases j <;>
    simp [Tools.rod_to_u, C03.crossMat, vecMulVec, Matrix.transpose_apply, Matrix.one_apply] <;> ring

/-- C03: `rod_to_u r` is a proper rotation for every real vector `r`. -/
theorem rod_to_u_isRot (r : Fin 3 → ℝ) : IsRot (Tools.rod_to_u r) := by
  have hpos := C03.one_add_dot_pos r
  have hne : 1 + r ⬝ᵥ r ≠ 0 := ne_of_gt hpos
  simp only [dotProduct, Fin.sum_univ_three] at hne
  constructor
  · ext i j; fin_cases i <;> fin_cases j <;>
      simp [Tools.rod_to_u, Matrix.mul_apply, Fin.sum_univ_three, Matrix.transpose_apply,
        dotProduct] <;> field_simp <;> ring
  · simp [Tools.rod_to_u, Matrix.det_fin_three, dotProduct, Fin.sum_univ_three]
    field_simp
    ring

/-- C03: `rod_to_u 0 = 1`. -/
theorem rod_to_u_zero : Tools.rod_to_u 0 = 1 := by
  ext i j; fin_cases i <;> fin_cases j <;> simp [Tools.rod_to_u]

namespace C03

lemma cos_two_arctan (t : ℝ) : Real.cos (2 * Real.arctan t) = (1 - t ^ 2) / (1 + t ^ 2) := by
  have hpos : (0 : ℝ) < 1 + t ^ 2 := by positivity
  rw [Real.cos_two_mul, Real.cos_sq_arctan]
  field_simp
  ring

lemma sin_two_arctan (t : ℝ) : Real.sin (2 * Real.arctan t) = 2 * t / (1 + t ^ 2) := by
  have hpos : (0 : ℝ) < 1 + t ^ 2 := by positivity
  have hs : Real.sqrt (1 + t ^ 2) ^ 2 = 1 + t ^ 2 := Real.sq_sqrt hpos.le
  have hs0 : Real.sqrt (1 + t ^ 2) ≠ 0 := (Real.sqrt_pos.mpr hpos).ne'
  rw [Real.sin_two_mul, Real.sin_arctan, Real.cos_arctan]
  field_simp
  rw [hs]

end C03

/-- C03: axis/angle reading of `rod_to_u`: for `r ≠ 0` the transpose of `rod_to_u r` (library is passive) is the
active right-handed rotation about `u = r/|r|` by `θ = 2·arctan |r|`. -/
theorem rod_to_u_axis_angle (r : Fin 3 → ℝ) (hr : r ≠ 0) :
    (Tools.rod_to_u r)ᵀ
      = C03.axisAngle ((1 / Real.sqrt (r ⬝ᵥ r)) • r) (2 * Real.arctan (Real.sqrt (r ⬝ᵥ r))) := by
  have hpos : 0 < r ⬝ᵥ r := by
    have h0 : 0 ≤ r ⬝ᵥ r := by
      simp only [dotProduct, Fin.sum_univ_three]
      nlinarith [mul_self_nonneg (r 0), mul_self_nonneg (r 1), mul_self_nonneg (r 2)]
    rcases h0.lt_or_eq with h | h
    · exact h
    · exfalso; apply hr
      simp only [dotProduct, Fin.sum_univ_three] at h
      ext i; fin_cases i <;> simp <;>
        nlinarith [mul_self_nonneg (r 0), mul_self_nonneg (r 1), mul_self_nonneg (r 2)]
  rw [rod_to_u_formula, Matrix.transpose_transpose]
  unfold C03.axisAngle
  rw [C03.cos_two_arctan, C03.sin_two_arctan, Real.sq_sqrt hpos.le]
  set n2 := r ⬝ᵥ r with hn2
  set S := Real.sqrt n2 with hS
  have hS2 : S ^ 2 = n2 := Real.sq_sqrt hpos.le
  have hS0 : S ≠ 0 := (Real.sqrt_pos.mpr hpos).ne'
  have h1 : (1 : ℝ) + n2 ≠ 0 := by linarith
  have hn0 : n2 ≠ 0 := hpos.ne'
  ext i j; fin_cases i <;> fin_cases j <;>
    simp [C03.crossMat, vecMulVec, Matrix.one_apply] <;> field_simp <;>
    rw [hS2] <;> ring

/-- C03: the unit-axis claim used in `rod_to_u_axis_angle`: `r/|r|` has norm one. -/
theorem rod_axis_unit (r : Fin 3 → ℝ) (hr : r ≠ 0) :
    ((1 / Real.sqrt (r ⬝ᵥ r)) • r) ⬝ᵥ ((1 / Real.sqrt (r ⬝ᵥ r)) • r) = 1 := by
  have h0 : 0 ≤ r ⬝ᵥ r := by
    simp only [dotProduct, Fin.sum_univ_three]
    nlinarith [mul_self_nonneg (r 0), mul_self_nonneg (r 1), mul_self_nonneg (r 2)]
  have hpos : 0 < r ⬝ᵥ r := by
    rcases h0.lt_or_eq with h | h
    · exact h
    · exfalso; apply hr
      simp only [dotProduct, Fin.sum_univ_three] at h
      ext i; fin_cases i <;> simp <;>
        nlinarith [mul_self_nonneg (r 0), mul_self_nonneg (r 1), mul_self_nonneg (r 2)]
  have hS0 : Real.sqrt (r ⬝ᵥ r) ≠ 0 := (Real.sqrt_pos.mpr hpos).ne'
  rw [smul_dotProduct, dotProduct_smul, smul_eq_mul, smul_eq_mul]
  field_simp
  rw [Real.sq_sqrt h0]

/-! ### 6. `u_to_rod ∘ rod_to_u = id` -/

/-- closes a leaf of an unfolded decision tree against its readable form: `none = none` / `some v = some v'`
syntactically, or entrywise up to `ring`, or the leaf sits under contradictory guards -/
macro "c03_euler_leaf" : tactic => `(tactic|
  first
    | rfl
    | (simp only [Option.some.injEq]; ext i; fin_cases i <;> simp <;> ring1)
    | (exfalso; linarith)
    | (exfalso; ring_nf at *; first | contradiction | linarith | (simp_all; done) | (simp_all; linarith)))

namespace C03

set_option linter.unusedTactic false in
set_option linter.unreachableTactic false in
/-- readable form of the generated `u_to_rod`; the only place where `Tools.u_to_rod` is unfolded -/
lemma u_to_rod_eq (U : Matrix (Fin 3) (Fin 3) ℝ) : Tools.u_to_rod U =
    if |1 + U 0 0 + U 1 1 + U 2 2| < (1e-16 : ℝ) then none
    else some ![(U 1 2 - U 2 1) * (1 / (1 + U 0 0 + U 1 1 + U 2 2)),
                (U 2 0 - U 0 2) * (1 / (1 + U 0 0 + U 1 1 + U 2 2)),
                (U 0 1 - U 1 0) * (1 / (1 + U 0 0 + U 1 1 + U 2 2))] := by
  unfold Tools.u_to_rod
  simp only []
  -- (`simp only []` already closes the goal when the generated tree coincides with the readable form)
  all_goals (split_ifs <;> c03_euler_leaf)

lemma rod_to_u_trace (r : Fin 3 → ℝ) :
    1 + Tools.rod_to_u r 0 0 + Tools.rod_to_u r 1 1 + Tools.rod_to_u r 2 2 = 4 / (1 + r ⬝ᵥ r) := by
  have hne : 1 + r ⬝ᵥ r ≠ 0 := ne_of_gt (one_add_dot_pos r)
  simp only [dotProduct, Fin.sum_univ_three] at hne ⊢
  simp [Tools.rod_to_u, dotProduct, Fin.sum_univ_three]
  field_simp
  ring

end C03

/-- C03: `u_to_rod (rod_to_u r) = some r` whenever the trace guard `|1+tr U| < 1e-16` is not hit,
i.e. exactly when `1 + r·r ≤ 4e16`. -/
theorem u_to_rod_rod_to_u_sharp (r : Fin 3 → ℝ) (h : 1 + r ⬝ᵥ r ≤ 4e16) :
    Tools.u_to_rod (Tools.rod_to_u r) = some r := by
  have hpos := C03.one_add_dot_pos r
  have htr := C03.rod_to_u_trace r
  have hguard : ¬ |1 + Tools.rod_to_u r 0 0 + Tools.rod_to_u r 1 1 + Tools.rod_to_u r 2 2|
      < (1e-16 : ℝ) := by
    rw [htr, abs_of_pos (by positivity), not_lt, le_div_iff₀ hpos]
    norm_num at h ⊢
    linarith
  rw [C03.u_to_rod_eq, if_neg hguard, htr]
  congr 1
  have hne : 1 + r ⬝ᵥ r ≠ 0 := ne_of_gt hpos
  simp only [dotProduct, Fin.sum_univ_three] at hne
  ext i; fin_cases i <;>
    simp [Tools.rod_to_u, dotProduct, Fin.sum_univ_three] <;> field_simp <;> ring

/-- C03: `u_to_rod (rod_to_u r) = some r` for `r·r < 1e16` (covers `|r| ≤ 1e3`). -/
theorem u_to_rod_rod_to_u (r : Fin 3 → ℝ) (h : r ⬝ᵥ r < 1e16) :
    Tools.u_to_rod (Tools.rod_to_u r) = some r := by
  apply u_to_rod_rod_to_u_sharp
  norm_num at h ⊢
  linarith

example : Tools.u_to_rod (Tools.rod_to_u ![1, -2, 3]) = some ![1, -2, 3] :=
  u_to_rod_rod_to_u _ (by simp [dotProduct, Fin.sum_univ_three]; norm_num)

/-- C03 (finding): in exact arithmetic the trace guard of `u_to_rod` rejects `rod_to_u r` for huge `r`
(`1 + r·r > 4e16`, i.e. rotation angle within ~1e-8 rad of 180°). -/
theorem u_to_rod_rod_to_u_none (r : Fin 3 → ℝ) (h : 4e16 < 1 + r ⬝ᵥ r) :
    Tools.u_to_rod (Tools.rod_to_u r) = none := by
  have hpos := C03.one_add_dot_pos r
  have htr := C03.rod_to_u_trace r
  have hguard : |1 + Tools.rod_to_u r 0 0 + Tools.rod_to_u r 1 1 + Tools.rod_to_u r 2 2|
      < (1e-16 : ℝ) := by
    rw [htr, abs_of_pos (by positivity), div_lt_iff₀ hpos]
    norm_num at h ⊢
    linarith
  rw [C03.u_to_rod_eq, if_pos hguard]

/-! #### laue twins of 5 and 6 -/

/-- C03 (laue): closed form of `rod_to_u`. -/
theorem rod_to_u_formula_laue (r : Fin 3 → ℝ) :
    Laue.rod_to_u r =
      ((1 / (1 + r ⬝ᵥ r)) • ((1 - r ⬝ᵥ r) • (1 : Matrix (Fin 3) (Fin 3) ℝ)
        + (2 : ℝ) • vecMulVec r r + (2 : ℝ) • C03.crossMat r))ᵀ := by
  rw [laue_rod_to_u]; exact rod_to_u_formula r

/-- C03 (laue): `rod_to_u r` is a proper rotation for every real vector `r`. -/
theorem rod_to_u_isRot_laue (r : Fin 3 → ℝ) : IsRot (Laue.rod_to_u r) := by
  rw [laue_rod_to_u]; exact rod_to_u_isRot r

/-- C03 (laue): `rod_to_u 0 = 1`. -/
theorem rod_to_u_zero_laue : Laue.rod_to_u 0 = 1 := by
  rw [laue_rod_to_u]; exact rod_to_u_zero

/-- C03 (laue): axis/angle reading of `rod_to_u`. -/
theorem rod_to_u_axis_angle_laue (r : Fin 3 → ℝ) (hr : r ≠ 0) :
    (Laue.rod_to_u r)ᵀ
      = C03.axisAngle ((1 / Real.sqrt (r ⬝ᵥ r)) • r) (2 * Real.arctan (Real.sqrt (r ⬝ᵥ r))) := by
  rw [laue_rod_to_u]; exact rod_to_u_axis_angle r hr

/-- C03 (laue): `u_to_rod (rod_to_u r) = some r` when `1 + r·r ≤ 4e16`. -/
theorem u_to_rod_rod_to_u_sharp_laue (r : Fin 3 → ℝ) (h : 1 + r ⬝ᵥ r ≤ 4e16) :
    Laue.u_to_rod (Laue.rod_to_u r) = some r := by
  rw [laue_rod_to_u, laue_u_to_rod]; exact u_to_rod_rod_to_u_sharp r h

/-- C03 (laue): `u_to_rod (rod_to_u r) = some r` for `r·r < 1e16`. -/
theorem u_to_rod_rod_to_u_laue (r : Fin 3 → ℝ) (h : r ⬝ᵥ r < 1e16) :
    Laue.u_to_rod (Laue.rod_to_u r) = some r := by
  rw [laue_rod_to_u, laue_u_to_rod]; exact u_to_rod_rod_to_u r h

/-- C03 (laue, finding): the trace guard rejects `rod_to_u r` for `1 + r·r > 4e16`. -/
theorem u_to_rod_rod_to_u_none_laue (r : Fin 3 → ℝ) (h : 4e16 < 1 + r ⬝ᵥ r) :
    Laue.u_to_rod (Laue.rod_to_u r) = none := by
  rw [laue_rod_to_u, laue_u_to_rod]; exact u_to_rod_rod_to_u_none r h

/-! ### 8a. `_arctan2` and the range of `u_to_euler` -/


/-- C03 (helper): readable form of the generated `_arctan2` decision tree. -/
theorem arctan2_eq (y x : ℝ) : Tools._arctan2 y x =
    if |x| < 1e-8 * max |x| |y| then
      (if |y| < 1e-8 * max |x| |y| then none
       else if 0 < y then some (Real.pi / 2) else if y < 0 then some (-Real.pi / 2) else none)
    else if |y| < 1e-8 * max |x| |y| then
      (if 0 < x then some (Real.arctan (0 / x))
       else if x < 0 then some (Real.arctan (0 / x) + Real.pi) else none)
    else if 0 < x then some (Real.arctan (y / x))
    else if x < 0 then
      (if 0 ≤ y then some (Real.arctan (y / x) + Real.pi) else some (Real.arctan (y / x) - Real.pi))
    else if 0 < y then some (Real.pi / 2) else if y < 0 then some (-Real.pi / 2) else none := by
  unfold Tools._arctan2
  simp only [gt_iff_lt, ge_iff_le]
  -- every leaf is `some a = some b` (closed up to ring-normalisation, so that `-π/2`, `-(π/2)`,
  -- a hoisted `half_pi`, ... are all accepted), `none = none`, or sits under contradictory guards.
  split_ifs <;> first
    | rfl
    | (simp only [Option.some.injEq]; ring1)
    | (exfalso; linarith)
    | (exfalso
       rcases lt_trichotomy x 0 with hx | hx | hx <;> rcases lt_trichotomy y 0 with hy | hy | hy <;>
         first | linarith | contradiction)

namespace C03


lemma sqrt_one_add_div_sq {x y : ℝ} (hx : x ≠ 0) :
    Real.sqrt (1 + (y / x) ^ 2) = Real.sqrt (x ^ 2 + y ^ 2) / |x| := by
  have : 1 + (y / x) ^ 2 = (x ^ 2 + y ^ 2) / x ^ 2 := by field_simp
  rw [this, Real.sqrt_div (by positivity), Real.sqrt_sq_eq_abs]

lemma cos_arctan_div {x y : ℝ} (hx : x ≠ 0) :
    Real.cos (Real.arctan (y / x)) = |x| / Real.sqrt (x ^ 2 + y ^ 2) := by
  rw [Real.cos_arctan, sqrt_one_add_div_sq hx, one_div, inv_div]

lemma sin_arctan_div {x y : ℝ} (hx : x ≠ 0) :
    Real.sin (Real.arctan (y / x)) = (y / x) * |x| / Real.sqrt (x ^ 2 + y ^ 2) := by
  rw [Real.sin_arctan, sqrt_one_add_div_sq hx]
  have h1 : |x| ≠ 0 := abs_ne_zero.mpr hx
  have h2 : Real.sqrt (x ^ 2 + y ^ 2) ≠ 0 := by
    apply (Real.sqrt_pos.mpr _).ne'
    positivity
  field_simp

/-- the value of `x` that `_arctan2 y x` actually uses after its relative zeroing -/
def zx (y x : ℝ) : ℝ := if |x| < 1e-8 * max |x| |y| then 0 else x
/-- the value of `y` that `_arctan2 y x` actually uses after its relative zeroing -/
def zy (y x : ℝ) : ℝ := if |y| < 1e-8 * max |x| |y| then 0 else y

end C03

/-- C03: `_arctan2` result range: `(-π, π]`. -/
theorem arctan2_range {y x t : ℝ} (h : Tools._arctan2 y x = some t) : -Real.pi < t ∧ t ≤ Real.pi := by
  have hp := Real.pi_pos
  rw [arctan2_eq] at h
  have hlo := Real.neg_pi_div_two_lt_arctan (y / x)
  have hhi := Real.arctan_lt_pi_div_two (y / x)
  split_ifs at h with h1 h2 h3 h4 h5 h6 h7 h8 h9 h10 h11 h12 <;>
    simp only [Option.some.injEq] at h <;> subst h
  · constructor <;> linarith
  · constructor <;> linarith
  · simp; constructor <;> linarith
  · simp; linarith
  · constructor <;> linarith
  · have : y / x ≤ 0 := div_nonpos_of_nonneg_of_nonpos h10 h9.le
    have := Real.arctan_le_zero.mpr this
    constructor <;> linarith
  · have : 0 < y / x := div_pos_of_neg_of_neg (not_le.mp h10) h9
    have := Real.arctan_pos.mpr this
    constructor <;> linarith
  · constructor <;> linarith
  · constructor <;> linarith

namespace C03


lemma sqrt_zero_sq_add (y : ℝ) : Real.sqrt ((0:ℝ) ^ 2 + y ^ 2) = |y| := by
  rw [zero_pow two_ne_zero, zero_add, Real.sqrt_sq_eq_abs]
lemma sqrt_sq_add_zero (x : ℝ) : Real.sqrt (x ^ 2 + (0:ℝ) ^ 2) = |x| := by
  rw [zero_pow two_ne_zero, add_zero, Real.sqrt_sq_eq_abs]

end C03

/-- C03: `_arctan2` never fails away from the origin; its result `t ∈ (-π, π]` is the polar angle of the
(relatively zeroed) point `(zx, zy)`. -/
theorem arctan2_spec {y x : ℝ} (h : x ≠ 0 ∨ y ≠ 0) :
    ∃ t, Tools._arctan2 y x = some t ∧ -Real.pi < t ∧ t ≤ Real.pi ∧
      Real.cos t = zx y x / Real.sqrt (zx y x ^ 2 + zy y x ^ 2) ∧
      Real.sin t = zy y x / Real.sqrt (zx y x ^ 2 + zy y x ^ 2) := by
  have hp := Real.pi_pos
  have hm : 0 < max |x| |y| := by
    rcases h with h | h
    · exact lt_max_of_lt_left (abs_pos.mpr h)
    · exact lt_max_of_lt_right (abs_pos.mpr h)
  have hnot : ¬ (|x| < 1e-8 * max |x| |y| ∧ |y| < 1e-8 * max |x| |y|) := by
    rintro ⟨h1, h2⟩
    have := max_lt h1 h2
    nlinarith
  suffices H : ∃ t, Tools._arctan2 y x = some t ∧
      Real.cos t = zx y x / Real.sqrt (zx y x ^ 2 + zy y x ^ 2) ∧
      Real.sin t = zy y x / Real.sqrt (zx y x ^ 2 + zy y x ^ 2) by
    obtain ⟨t, h1, h2, h3⟩ := H
    exact ⟨t, h1, (arctan2_range h1).1, (arctan2_range h1).2, h2, h3⟩
  rw [arctan2_eq]
  unfold zx zy
  by_cases h1 : |x| < 1e-8 * max |x| |y|
  · have h2 : ¬ |y| < 1e-8 * max |x| |y| := fun h2 => hnot ⟨h1, h2⟩
    have hy : y ≠ 0 := by
      rintro rfl
      apply h2
      have := hm
      simp only [abs_zero] at this ⊢
      linarith
    rw [if_pos h1, if_neg h2, if_pos h1, if_neg h2, sqrt_zero_sq_add]
    rcases lt_or_gt_of_ne hy with hy' | hy'
    · rw [if_neg (not_lt.mpr hy'.le), if_pos hy']
      refine ⟨_, rfl, ?_, ?_⟩
      · rw [neg_div, Real.cos_neg, Real.cos_pi_div_two, zero_div]
      · rw [neg_div, Real.sin_neg, Real.sin_pi_div_two, abs_of_neg hy', div_neg, div_self hy]
    · rw [if_pos hy']
      refine ⟨_, rfl, ?_, ?_⟩
      · rw [Real.cos_pi_div_two, zero_div]
      · rw [Real.sin_pi_div_two, abs_of_pos hy', div_self hy]
  · rw [if_neg h1, if_neg h1]
    have hx : x ≠ 0 := by
      rintro rfl
      apply h1
      have := hm
      simp only [abs_zero] at this ⊢
      linarith
    by_cases h2 : |y| < 1e-8 * max |x| |y|
    · rw [if_pos h2, if_pos h2, sqrt_sq_add_zero, zero_div, Real.arctan_zero]
      rcases lt_or_gt_of_ne hx with hx' | hx'
      · rw [if_neg (not_lt.mpr hx'.le), if_pos hx']
        refine ⟨_, rfl, ?_, ?_⟩
        · rw [zero_add, Real.cos_pi, abs_of_neg hx', div_neg, div_self hx]
        · rw [zero_add, Real.sin_pi, zero_div]
      · rw [if_pos hx']
        refine ⟨_, rfl, ?_, ?_⟩
        · rw [Real.cos_zero, abs_of_pos hx', div_self hx]
        · rw [Real.sin_zero, zero_div]
    · rw [if_neg h2, if_neg h2]
      have hS : Real.sqrt (x ^ 2 + y ^ 2) ≠ 0 := by
        apply (Real.sqrt_pos.mpr _).ne'
        positivity
      rcases lt_or_gt_of_ne hx with hx' | hx'
      · rw [if_neg (not_lt.mpr hx'.le), if_pos hx']
        by_cases hy : 0 ≤ y
        · rw [if_pos hy]
          refine ⟨_, rfl, ?_, ?_⟩
          · rw [Real.cos_add_pi, cos_arctan_div hx, abs_of_neg hx']; ring
          · rw [Real.sin_add_pi, sin_arctan_div hx, abs_of_neg hx']; field_simp
        · rw [if_neg hy]
          refine ⟨_, rfl, ?_, ?_⟩
          · rw [Real.cos_sub_pi, cos_arctan_div hx, abs_of_neg hx']; ring
          · rw [Real.sin_sub_pi, sin_arctan_div hx, abs_of_neg hx']; field_simp
      · rw [if_pos hx']
        refine ⟨_, rfl, ?_, ?_⟩
        · rw [cos_arctan_div hx, abs_of_pos hx']
        · rw [sin_arctan_div hx, abs_of_pos hx']; field_simp

namespace C03


lemma wrap_range {t : ℝ} (h1 : -Real.pi < t) (h2 : t ≤ Real.pi) :
    (0 ≤ (if t < 0 then t + 2 * Real.pi else t)) ∧ (if t < 0 then t + 2 * Real.pi else t) ≤ 2 * Real.pi := by
  have hp := Real.pi_pos
  split_ifs with h
  · constructor <;> linarith
  · constructor <;> linarith

end C03

namespace C03
/-- `phi + 2π if phi < 0` -/
def wrap (t : ℝ) : ℝ := if t < 0 then t + 2 * Real.pi else t

end C03

/-- C03 (helper): readable form of the generated `u_to_euler`. -/
theorem u_to_euler_eq (U : Matrix (Fin 3) (Fin 3) ℝ) : Tools.u_to_euler U =
    if |Real.arccos (U 2 2)| < 1e-8 then
      (Tools._arctan2 (-(U 0 1)) (U 0 0)).map fun t => ![wrap t, Real.arccos (U 2 2), 0]
    else if |Real.arccos (U 2 2) - Real.pi| < 1e-8 then
      (Tools._arctan2 (U 0 1) (U 0 0)).map fun t => ![wrap t, Real.arccos (U 2 2), 0]
    else
      (Tools._arctan2 (U 0 2) (-(U 1 2))).bind fun t1 =>
        (Tools._arctan2 (U 2 0) (U 2 1)).map fun t2 => ![wrap t1, Real.arccos (U 2 2), wrap t2] := by
  unfold Tools.u_to_euler wrap
  simp only []
  -- leaves: `some ![..] = some ![..]`, compared entrywise up to ring normalisation (so `t + 2*π`,
  -- `t + two_pi`, `2*π + t` are all accepted), or contradictory `t < 0` guards
  split_ifs
  · cases Tools._arctan2 (-(U 0 1)) (U 0 0) with
    | none => rfl
    | some t => simp only [Option.map_some]; split_ifs <;> c03_euler_leaf
  · cases Tools._arctan2 (U 0 1) (U 0 0) with
    | none => rfl
    | some t => simp only [Option.map_some]; split_ifs <;> c03_euler_leaf
  · cases Tools._arctan2 (U 0 2) (-(U 1 2)) with
    | none => rfl
    | some t =>
      cases Tools._arctan2 (U 2 0) (U 2 1) with
      | none => rfl
      | some t2 => simp only [Option.map_some, Option.bind_some]; split_ifs <;> c03_euler_leaf


/-- C03: `u_to_euler` returns angles in `[0,2π] × [0,π] × [0,2π]`. -/
theorem u_to_euler_range {U : Matrix (Fin 3) (Fin 3) ℝ} {e : Fin 3 → ℝ}
    (h : Tools.u_to_euler U = some e) :
    (0 ≤ e 0 ∧ e 0 ≤ 2 * Real.pi) ∧ (0 ≤ e 1 ∧ e 1 ≤ Real.pi) ∧ (0 ≤ e 2 ∧ e 2 ≤ 2 * Real.pi) := by
  have hp := Real.pi_pos
  have hP0 := Real.arccos_nonneg (U 2 2)
  have hP1 := Real.arccos_le_pi (U 2 2)
  have W : ∀ {y x t : ℝ}, Tools._arctan2 y x = some t → 0 ≤ wrap t ∧ wrap t ≤ 2 * Real.pi :=
    fun ht => wrap_range (arctan2_range ht).1 (arctan2_range ht).2
  -- argue on the readable form only: independent of the shape of the generated decision tree
  rw [u_to_euler_eq] at h
  split_ifs at h
  · obtain ⟨t, ht, rfl⟩ := Option.map_eq_some_iff.mp h
    have := W ht
    refine ⟨⟨?_, ?_⟩, ⟨?_, ?_⟩, ⟨?_, ?_⟩⟩ <;> simp <;> linarith
  · obtain ⟨t, ht, rfl⟩ := Option.map_eq_some_iff.mp h
    have := W ht
    refine ⟨⟨?_, ?_⟩, ⟨?_, ?_⟩, ⟨?_, ?_⟩⟩ <;> simp <;> linarith
  · obtain ⟨t1, ht1, h'⟩ := Option.bind_eq_some_iff.mp h
    obtain ⟨t2, ht2, rfl⟩ := Option.map_eq_some_iff.mp h'
    have := W ht1
    have := W ht2
    refine ⟨⟨?_, ?_⟩, ⟨?_, ?_⟩, ⟨?_, ?_⟩⟩ <;> simp <;> linarith


/-! ### 7. `rod_to_u ∘ u_to_rod = id` on proper rotations -/

namespace C03

/-- the 21 scalar relations satisfied by the entries of a proper rotation:
column orthonormality, row orthonormality, and `U = cof U`. -/
structure RotRel (U : Matrix (Fin 3) (Fin 3) ℝ) : Prop where
  c00 : U 0 0 * U 0 0 + U 1 0 * U 1 0 + U 2 0 * U 2 0 = 1
  c11 : U 0 1 * U 0 1 + U 1 1 * U 1 1 + U 2 1 * U 2 1 = 1
  c22 : U 0 2 * U 0 2 + U 1 2 * U 1 2 + U 2 2 * U 2 2 = 1
  c01 : U 0 0 * U 0 1 + U 1 0 * U 1 1 + U 2 0 * U 2 1 = 0
  c02 : U 0 0 * U 0 2 + U 1 0 * U 1 2 + U 2 0 * U 2 2 = 0
  c12 : U 0 1 * U 0 2 + U 1 1 * U 1 2 + U 2 1 * U 2 2 = 0
  r00 : U 0 0 * U 0 0 + U 0 1 * U 0 1 + U 0 2 * U 0 2 = 1
  r11 : U 1 0 * U 1 0 + U 1 1 * U 1 1 + U 1 2 * U 1 2 = 1
  r22 : U 2 0 * U 2 0 + U 2 1 * U 2 1 + U 2 2 * U 2 2 = 1
  r01 : U 0 0 * U 1 0 + U 0 1 * U 1 1 + U 0 2 * U 1 2 = 0
  r02 : U 0 0 * U 2 0 + U 0 1 * U 2 1 + U 0 2 * U 2 2 = 0
  r12 : U 1 0 * U 2 0 + U 1 1 * U 2 1 + U 1 2 * U 2 2 = 0
  k00 : U 0 0 = U 1 1 * U 2 2 - U 1 2 * U 2 1
  k01 : U 0 1 = U 1 2 * U 2 0 - U 1 0 * U 2 2
  k02 : U 0 2 = U 1 0 * U 2 1 - U 1 1 * U 2 0
  k10 : U 1 0 = U 0 2 * U 2 1 - U 0 1 * U 2 2
  k11 : U 1 1 = U 0 0 * U 2 2 - U 0 2 * U 2 0
  k12 : U 1 2 = U 0 1 * U 2 0 - U 0 0 * U 2 1
  k20 : U 2 0 = U 0 1 * U 1 2 - U 0 2 * U 1 1
  k21 : U 2 1 = U 0 2 * U 1 0 - U 0 0 * U 1 2
  k22 : U 2 2 = U 0 0 * U 1 1 - U 0 1 * U 1 0

lemma rotRel {U : Matrix (Fin 3) (Fin 3) ℝ} (h : IsRot U) : RotRel U := by
  obtain ⟨h1, h2⟩ := h
  have h3 : U * Uᵀ = 1 := mul_eq_one_comm.mp h1
  have h4 : Uᵀ = U.adjugate := by
    have := Matrix.inv_eq_left_inv h1
    rw [Matrix.inv_def, h2] at this
    simpa using this.symm
  have c := fun i j => congrFun (congrFun h1 i) j
  have r := fun i j => congrFun (congrFun h3 i) j
  have k := fun i j => congrFun (congrFun h4 i) j
  simp only [Matrix.mul_apply, Fin.sum_univ_three, Matrix.transpose_apply, Matrix.one_apply] at c r
  simp only [Matrix.adjugate_fin_three, Matrix.transpose_apply, Matrix.of_apply] at k
  constructor
  · simpa using c 0 0
  · simpa using c 1 1
  · simpa using c 2 2
  · simpa using c 0 1
  · simpa using c 0 2
  · simpa using c 1 2
  · simpa using r 0 0
  · simpa using r 1 1
  · simpa using r 2 2
  · simpa using r 0 1
  · simpa using r 0 2
  · simpa using r 1 2
  · have := k 0 0; simp at this; linarith
  · have := k 1 0; simp at this; linarith
  · have := k 2 0; simp at this; linarith
  · have := k 0 1; simp at this; linarith
  · have := k 1 1; simp at this; linarith
  · have := k 2 1; simp at this; linarith
  · have := k 0 2; simp at this; linarith
  · have := k 1 2; simp at this; linarith
  · have := k 2 2; simp at this; linarith

end C03

/-- C03: `rod_to_u` inverts `u_to_rod` on every proper rotation on which `u_to_rod` does not raise. -/
theorem rod_to_u_u_to_rod {U : Matrix (Fin 3) (Fin 3) ℝ} (hU : IsRot U) {r : Fin 3 → ℝ}
    (h : Tools.u_to_rod U = some r) : Tools.rod_to_u r = U := by
  have R := C03.rotRel hU
  rw [C03.u_to_rod_eq] at h
  split_ifs at h with hg
  simp only [Option.some.injEq] at h
  subst h
  set T := 1 + U 0 0 + U 1 1 + U 2 2 with hT
  have hT0 : T ≠ 0 := by
    intro h0; apply hg; rw [h0]; norm_num
  -- key quadratic facts
  have q : (U 1 2 - U 2 1)^2 + (U 2 0 - U 0 2)^2 + (U 0 1 - U 1 0)^2 = 4 * T - T^2 := by
    simp only [hT]
    linarith [R.c00, R.c11, R.c22, R.k00, R.k11, R.k22]
  have q00 : (U 1 2 - U 2 1)^2 = T * (1 + U 0 0 - U 1 1 - U 2 2) := by
    simp only [hT]
    linarith [R.c00, R.c11, R.c22, R.k00, R.k11, R.k22, R.r00, R.r11, R.r22]
  have q11 : (U 2 0 - U 0 2)^2 = T * (1 - U 0 0 + U 1 1 - U 2 2) := by
    simp only [hT]
    linarith [R.c00, R.c11, R.c22, R.k00, R.k11, R.k22, R.r00, R.r11, R.r22]
  have q22 : (U 0 1 - U 1 0)^2 = T * (1 - U 0 0 - U 1 1 + U 2 2) := by
    simp only [hT]
    linarith [R.c00, R.c11, R.c22, R.k00, R.k11, R.k22, R.r00, R.r11, R.r22]
  have q01 : (U 1 2 - U 2 1) * (U 2 0 - U 0 2) = T * (U 0 1 + U 1 0) := by
    simp only [hT]
    linarith [R.c01, R.r01, R.k01, R.k10]
  have q02 : (U 1 2 - U 2 1) * (U 0 1 - U 1 0) = T * (U 0 2 + U 2 0) := by
    simp only [hT]
    linarith [R.c02, R.r02, R.k02, R.k20]
  have q12 : (U 2 0 - U 0 2) * (U 0 1 - U 1 0) = T * (U 1 2 + U 2 1) := by
    simp only [hT]
    linarith [R.c12, R.r12, R.k12, R.k21]
  have hD : T ^ 2 + (U 1 2 - U 2 1)^2 + (U 2 0 - U 0 2)^2 + (U 0 1 - U 1 0)^2 ≠ 0 := by
    have : T ^ 2 + (U 1 2 - U 2 1)^2 + (U 2 0 - U 0 2)^2 + (U 0 1 - U 1 0)^2 = 4 * T := by linarith
    rw [this]; exact mul_ne_zero (by norm_num) hT0
  ext i j; fin_cases i <;> fin_cases j <;>
    simp [Tools.rod_to_u, dotProduct, Fin.sum_univ_three] <;> field_simp
  · linear_combination (-1 - U 0 0) * q + 2 * q00 + (2 * T) * hT
  · linear_combination (-U 0 1) * q + 2 * q01
  · linear_combination (-U 0 2) * q + 2 * q02
  · linear_combination (-U 1 0) * q + 2 * q01
  · linear_combination (-1 - U 1 1) * q + 2 * q11 + (2 * T) * hT
  · linear_combination (-U 1 2) * q + 2 * q12
  · linear_combination (-U 2 0) * q + 2 * q02
  · linear_combination (-U 2 1) * q + 2 * q12
  · linear_combination (-1 - U 2 2) * q + 2 * q22 + (2 * T) * hT

/-- C03: for every proper rotation whose trace guard is not hit (`1e-16 ≤ |1 + tr U|`, i.e. rotation angle
not within ~1e-8 rad of 180°) `u_to_rod` returns a (finite) vector that rebuilds `U` exactly. -/
theorem rod_to_u_u_to_rod_exists {U : Matrix (Fin 3) (Fin 3) ℝ} (hU : IsRot U)
    (hg : (1e-16 : ℝ) ≤ |1 + U 0 0 + U 1 1 + U 2 2|) :
    ∃ r, Tools.u_to_rod U = some r ∧ Tools.rod_to_u r = U := by
  have : ∃ r, Tools.u_to_rod U = some r := by
    rw [C03.u_to_rod_eq, if_neg (not_lt.mpr hg)]
    exact ⟨_, rfl⟩
  obtain ⟨r, hr⟩ := this
  exact ⟨r, hr, rod_to_u_u_to_rod hU hr⟩

/-- C03 (laue): `rod_to_u` inverts `u_to_rod` on every proper rotation on which `u_to_rod` does not raise. -/
theorem rod_to_u_u_to_rod_laue {U : Matrix (Fin 3) (Fin 3) ℝ} (hU : IsRot U) {r : Fin 3 → ℝ}
    (h : Laue.u_to_rod U = some r) : Laue.rod_to_u r = U := by
  rw [laue_rod_to_u]; rw [laue_u_to_rod] at h; exact rod_to_u_u_to_rod hU h

/-- C03 (laue): existence form of the Rodrigues round trip. -/
theorem rod_to_u_u_to_rod_exists_laue {U : Matrix (Fin 3) (Fin 3) ℝ} (hU : IsRot U)
    (hg : (1e-16 : ℝ) ≤ |1 + U 0 0 + U 1 1 + U 2 2|) :
    ∃ r, Laue.u_to_rod U = some r ∧ Laue.rod_to_u r = U := by
  rw [laue_rod_to_u, laue_u_to_rod]; exact rod_to_u_u_to_rod_exists hU hg

example : ∃ r, Tools.u_to_rod (Rz 1) = some r ∧ Tools.rod_to_u r = Rz 1 := by
  apply rod_to_u_u_to_rod_exists (Rz_isRot 1)
  have h1 : 0 ≤ Real.cos 1 := Real.cos_nonneg_of_neg_pi_div_two_le_of_le (by linarith [Real.pi_pos]) (by linarith [Real.two_le_pi])
  simp [Rz]
  rw [abs_of_nonneg (by linarith)]
  norm_num; linarith

/-! ### 8b. Euler round trips -/

namespace C03

/-- `euler_to_u` as a function of the cosines and sines of its angles -/
def eulerMat (c1 s1 K σ c2 s2 : ℝ) : Matrix (Fin 3) (Fin 3) ℝ :=
  !![c1 * c2 - s1 * s2 * K, -c1 * s2 - s1 * c2 * K, s1 * σ;
     s1 * c2 + c1 * s2 * K, -s1 * s2 + c1 * c2 * K, -c1 * σ;
     s2 * σ, c2 * σ, K]

lemma euler_to_u_eq_eulerMat (a b c : ℝ) : Tools.euler_to_u a b c =
    eulerMat (Real.cos a) (Real.sin a) (Real.cos b) (Real.sin b) (Real.cos c) (Real.sin c) := by
  ext i j; fin_cases i <;> fin_cases j <;>
    simp [Tools.euler_to_u, Tools.form_omega_mat, eulerMat, Matrix.mul_apply, Fin.sum_univ_three] <;>
    first | done | ring

lemma cos_wrap (t : ℝ) : Real.cos (wrap t) = Real.cos t := by
  unfold wrap; split_ifs <;> simp [Real.cos_add_two_pi]
lemma sin_wrap (t : ℝ) : Real.sin (wrap t) = Real.sin t := by
  unfold wrap; split_ifs <;> simp [Real.sin_add_two_pi]

/-- entries of a proper rotation lie in `[-1, 1]`; here the one we need -/
lemma RotRel.abs_22 {U : Matrix (Fin 3) (Fin 3) ℝ} (R : RotRel U) : -1 ≤ U 2 2 ∧ U 2 2 ≤ 1 := by
  have := R.c22
  constructor <;> nlinarith [mul_self_nonneg (U 0 2), mul_self_nonneg (U 1 2)]

/-- exact algebraic reconstruction of a proper rotation from its third row and column -/
lemma eulerMat_rebuild {U : Matrix (Fin 3) (Fin 3) ℝ} (R : RotRel U) {σ : ℝ} (hσ : σ ≠ 0)
    (hσ2 : σ ^ 2 = 1 - U 2 2 ^ 2) :
    eulerMat (-(U 1 2) / σ) (U 0 2 / σ) (U 2 2) σ (U 2 1 / σ) (U 2 0 / σ) = U := by
  ext i j; fin_cases i <;> fin_cases j <;> simp [eulerMat] <;> field_simp
  · linear_combination (-U 0 0) * hσ2 - R.k00 - U 2 2 * R.k11
  · linear_combination (-U 0 1) * hσ2 - R.k01 + U 2 2 * R.k10
  · linear_combination (-U 1 0) * hσ2 - R.k10 + U 2 2 * R.k01
  · linear_combination (-U 1 1) * hσ2 - R.k11 - U 2 2 * R.k00


/-- for a proper rotation: `Φ = arccos U₂₂` has `cos Φ = U₂₂`, `sin Φ ≥ 0`, `sin² Φ = 1 - U₂₂²` -/
lemma RotRel.arccos_facts {U : Matrix (Fin 3) (Fin 3) ℝ} (R : RotRel U) :
    Real.cos (Real.arccos (U 2 2)) = U 2 2 ∧ 0 ≤ Real.sin (Real.arccos (U 2 2)) ∧
      Real.sin (Real.arccos (U 2 2)) ^ 2 = 1 - U 2 2 ^ 2 := by
  obtain ⟨h1, h2⟩ := R.abs_22
  have hc := Real.cos_arccos h1 h2
  refine ⟨hc, Real.sin_nonneg_of_nonneg_of_le_pi (Real.arccos_nonneg _) (Real.arccos_le_pi _), ?_⟩
  have := Real.sin_sq_add_cos_sq (Real.arccos (U 2 2))
  rw [hc] at this
  linarith

end C03

/-- C03: away from gimbal lock and when `_arctan2`'s relative zeroing does not fire, `u_to_euler` succeeds on every
proper rotation and `euler_to_u` rebuilds the input exactly. -/
theorem euler_roundtrip_generic {U : Matrix (Fin 3) (Fin 3) ℝ} (hU : IsRot U)
    (h0 : ¬ |Real.arccos (U 2 2)| < 1e-8) (hπ : ¬ |Real.arccos (U 2 2) - Real.pi| < 1e-8)
    (hz1x : ¬ |-(U 1 2)| < 1e-8 * max |-(U 1 2)| |U 0 2|)
    (hz1y : ¬ |U 0 2| < 1e-8 * max |-(U 1 2)| |U 0 2|)
    (hz2x : ¬ |U 2 1| < 1e-8 * max |U 2 1| |U 2 0|)
    (hz2y : ¬ |U 2 0| < 1e-8 * max |U 2 1| |U 2 0|) :
    ∃ e, Tools.u_to_euler U = some e ∧ Tools.euler_to_u (e 0) (e 1) (e 2) = U := by
  have R := rotRel hU
  obtain ⟨hcos, hsin0, hsin2⟩ := R.arccos_facts
  set Φ := Real.arccos (U 2 2) with hΦ
  have hΦ0 : 0 ≤ Φ := Real.arccos_nonneg _
  have hΦπ : Φ ≤ Real.pi := Real.arccos_le_pi _
  have hΦpos : 0 < Φ := by
    rw [abs_of_nonneg hΦ0, not_lt] at h0
    have : (0:ℝ) < 1e-8 := by norm_num
    linarith
  have hΦlt : Φ < Real.pi := by
    rw [abs_of_nonpos (by linarith), not_lt] at hπ
    have : (0:ℝ) < 1e-8 := by norm_num
    linarith
  have hσ : 0 < Real.sin Φ := Real.sin_pos_of_pos_of_lt_pi hΦpos hΦlt
  set σ := Real.sin Φ with hσdef
  have hρ1 : Real.sqrt ((-(U 1 2)) ^ 2 + U 0 2 ^ 2) = σ := by
    have : (-(U 1 2)) ^ 2 + U 0 2 ^ 2 = σ ^ 2 := by rw [hsin2]; linarith [R.c22]
    rw [this, Real.sqrt_sq hσ.le]
  have hρ2 : Real.sqrt (U 2 1 ^ 2 + U 2 0 ^ 2) = σ := by
    have : U 2 1 ^ 2 + U 2 0 ^ 2 = σ ^ 2 := by rw [hsin2]; linarith [R.r22]
    rw [this, Real.sqrt_sq hσ.le]
  have hne1 : -(U 1 2) ≠ 0 ∨ U 0 2 ≠ 0 := by
    by_contra hcon
    rw [not_or, not_not, not_not] at hcon
    rw [hcon.1, hcon.2] at hρ1
    simp at hρ1
    linarith
  have hne2 : U 2 1 ≠ 0 ∨ U 2 0 ≠ 0 := by
    by_contra hcon
    rw [not_or, not_not, not_not] at hcon
    rw [hcon.1, hcon.2] at hρ2
    simp at hρ2
    linarith
  obtain ⟨t1, ht1, -, -, hc1, hs1⟩ := arctan2_spec hne1
  obtain ⟨t2, ht2, -, -, hc2, hs2⟩ := arctan2_spec hne2
  simp only [zx, zy, if_neg hz1x, if_neg hz1y, hρ1] at hc1 hs1
  simp only [zx, zy, if_neg hz2x, if_neg hz2y, hρ2] at hc2 hs2
  refine ⟨![wrap t1, Φ, wrap t2], ?_, ?_⟩
  · rw [u_to_euler_eq, if_neg h0, if_neg hπ, ht1, ht2]
    rfl
  · simp only [Matrix.cons_val_zero, Matrix.cons_val_one, Matrix.cons_val_two, Matrix.head_cons,
      Matrix.tail_cons]
    rw [euler_to_u_eq_eulerMat, cos_wrap, sin_wrap, cos_wrap, sin_wrap, hc1, hs1, hc2, hs2, hcos]
    exact eulerMat_rebuild R hσ.ne' hsin2

namespace C03

lemma abs_le_sqrt_left (x y : ℝ) : |x| ≤ Real.sqrt (x ^ 2 + y ^ 2) := by
  rw [← Real.sqrt_sq_eq_abs]; exact Real.sqrt_le_sqrt (by nlinarith [sq_nonneg y])
lemma abs_le_sqrt_right (x y : ℝ) : |y| ≤ Real.sqrt (x ^ 2 + y ^ 2) := by
  rw [← Real.sqrt_sq_eq_abs]; exact Real.sqrt_le_sqrt (by nlinarith [sq_nonneg x])
lemma sqrt_le_abs_add (x y : ℝ) : Real.sqrt (x ^ 2 + y ^ 2) ≤ |x| + |y| := by
  rw [show x ^ 2 + y ^ 2 = |x| ^ 2 + |y| ^ 2 by rw [sq_abs, sq_abs]]
  apply Real.sqrt_le_iff.mpr
  constructor
  · positivity
  · nlinarith [abs_nonneg x, abs_nonneg y]

/-- if `|x| ≤ ε ρ` then the unit vector `(0, sign y)` is within `ε` of `(x, y)/ρ` (second component) -/
lemma sign_approx {x y ε : ℝ} (hy : y ≠ 0) (hx : |x| ≤ ε * Real.sqrt (x ^ 2 + y ^ 2)) :
    |y / |y| - y / Real.sqrt (x ^ 2 + y ^ 2)| ≤ ε := by
  set ρ := Real.sqrt (x ^ 2 + y ^ 2) with hρ
  have h1 := abs_le_sqrt_right x y
  have h2 := sqrt_le_abs_add x y
  have hy' : 0 < |y| := abs_pos.mpr hy
  have hρ0 : 0 < ρ := lt_of_lt_of_le hy' h1
  have key : |y / |y| - y / ρ| = (ρ - |y|) / ρ := by
    rcases lt_or_gt_of_ne hy with h | h
    · rw [abs_of_neg h] at *
      have : y / -y - y / ρ = -((ρ - -y) / ρ) := by field_simp; ring
      rw [this, abs_neg, abs_of_nonneg (div_nonneg (by linarith) hρ0.le)]
    · rw [abs_of_pos h] at *
      have : y / y - y / ρ = (ρ - y) / ρ := by field_simp
      rw [this, abs_of_nonneg (div_nonneg (by linarith) hρ0.le)]
  rw [key, div_le_iff₀ hρ0]
  linarith


end C03

/-- C03: `_arctan2 y x` never fails away from the origin and returns the polar angle of `(x, y)` up to the `1e-8`
relative zeroing: its cosine and sine are within `1e-8` of `x/ρ`, `y/ρ`. -/
theorem arctan2_approx {y x : ℝ} (h : x ≠ 0 ∨ y ≠ 0) :
    ∃ t, Tools._arctan2 y x = some t ∧
      |Real.cos t - x / Real.sqrt (x ^ 2 + y ^ 2)| ≤ 1e-8 ∧
      |Real.sin t - y / Real.sqrt (x ^ 2 + y ^ 2)| ≤ 1e-8 := by
  obtain ⟨t, ht, -, -, hc, hs⟩ := arctan2_spec h
  refine ⟨t, ht, ?_⟩
  set ρ := Real.sqrt (x ^ 2 + y ^ 2) with hρ
  have hxρ := abs_le_sqrt_left x y
  have hyρ := abs_le_sqrt_right x y
  have hρ0 : 0 < ρ := by
    rcases h with h | h
    · exact lt_of_lt_of_le (abs_pos.mpr h) hxρ
    · exact lt_of_lt_of_le (abs_pos.mpr h) hyρ
  have hmax : max |x| |y| ≤ ρ := max_le hxρ hyρ
  have e8 : (0:ℝ) < 1e-8 := by norm_num
  unfold zx zy at hc hs
  by_cases h1 : |x| < 1e-8 * max |x| |y|
  · have hx' : |x| ≤ 1e-8 * ρ := by nlinarith
    have h2 : ¬ |y| < 1e-8 * max |x| |y| := by
      intro h2
      have := max_lt h1 h2
      nlinarith [lt_of_lt_of_le hρ0 (le_trans (sqrt_le_abs_add x y) (by
        have := le_max_left |x| |y|; have := le_max_right |x| |y|; linarith : |x| + |y| ≤ 2 * max |x| |y|))]
    have hy : y ≠ 0 := by
      rintro rfl
      apply h2
      have hx0 : x ≠ 0 := by rcases h with h | h; exact h; exact absurd rfl h
      have : 0 < |x| := abs_pos.mpr hx0
      have := le_max_left |x| |(0:ℝ)|
      rw [abs_zero] at *
      nlinarith
    rw [if_pos h1, if_neg h2, sqrt_zero_sq_add] at hc hs
    rw [hc, hs, zero_div, zero_sub, abs_neg, abs_div, abs_of_pos hρ0]
    refine ⟨?_, sign_approx hy hx'⟩
    rw [div_le_iff₀ hρ0]; exact hx'
  · rw [if_neg h1] at hc hs
    by_cases h2 : |y| < 1e-8 * max |x| |y|
    · have hy' : |y| ≤ 1e-8 * ρ := by nlinarith
      have hx : x ≠ 0 := by
        rintro rfl
        apply h1
        have hy0 : y ≠ 0 := by rcases h with h | h; exact absurd rfl h; exact h
        have : 0 < |y| := abs_pos.mpr hy0
        have := le_max_right |(0:ℝ)| |y|
        rw [abs_zero] at *
        nlinarith
      rw [if_pos h2, sqrt_sq_add_zero] at hc hs
      rw [hc, hs, zero_div, zero_sub, abs_neg, abs_div, abs_of_pos hρ0]
      refine ⟨?_, ?_⟩
      · have := @sign_approx y x 1e-8 hx (by rw [add_comm]; exact hy')
        rwa [add_comm] at this
      · rw [div_le_iff₀ hρ0]; exact hy'
    · rw [if_neg h2] at hc hs
      refine ⟨?_, ?_⟩
      · rw [hc, hρ, sub_self, abs_zero]; exact e8.le
      · rw [hs, hρ, sub_self, abs_zero]; exact e8.le


namespace C03

lemma prod_bound {a b ε : ℝ} (ha : |a| ≤ 1) (hb : |b| ≤ ε) : |a * b| ≤ ε := by
  rw [abs_mul]; nlinarith [abs_nonneg a, abs_nonneg b]

lemma mul_approx {a A b B ε : ℝ} (ha : |a| ≤ 1) (hB : |B| ≤ 1) (h1 : |a - A| ≤ ε) (h2 : |b - B| ≤ ε) :
    |a * b - A * B| ≤ 2 * ε := by
  have : a * b - A * B = a * (b - B) + B * (a - A) := by ring
  rw [this]
  linarith [abs_add_le (a * (b - B)) (B * (a - A)), prod_bound ha h2, prod_bound hB h1]

lemma mul_approx3 {a A b B K ε : ℝ} (ha : |a| ≤ 1) (hB : |B| ≤ 1) (hK : |K| ≤ 1) (h1 : |a - A| ≤ ε)
    (h2 : |b - B| ≤ ε) : |a * b * K - A * B * K| ≤ 2 * ε := by
  have : a * b * K - A * B * K = K * (a * b - A * B) := by ring
  rw [this]
  exact prod_bound hK (mul_approx ha hB h1 h2)

/-- `eulerMat` is 4-Lipschitz (entrywise, sup norm) in the cos/sin of the first and third angle -/
lemma eulerMat_lipschitz {c1 s1 c2 s2 C1 S1 C2 S2 K σ ε : ℝ}
    (hc1 : |c1| ≤ 1) (hs1 : |s1| ≤ 1) (hc2 : |c2| ≤ 1) (hs2 : |s2| ≤ 1)
    (hC1 : |C1| ≤ 1) (hS1 : |S1| ≤ 1) (hC2 : |C2| ≤ 1) (hS2 : |S2| ≤ 1)
    (hK : |K| ≤ 1) (hσ : |σ| ≤ 1)
    (d1 : |c1 - C1| ≤ ε) (d2 : |s1 - S1| ≤ ε) (d3 : |c2 - C2| ≤ ε) (d4 : |s2 - S2| ≤ ε) (i j : Fin 3) :
    |eulerMat c1 s1 K σ c2 s2 i j - eulerMat C1 S1 K σ C2 S2 i j| ≤ 4 * ε := by
  have hε : 0 ≤ ε := le_trans (abs_nonneg _) d1
  fin_cases i <;> fin_cases j <;> simp [eulerMat]
  · have := mul_approx hc1 hC2 d1 d3
    have := mul_approx3 hs1 hS2 hK d2 d4
    have := abs_sub (c1 * c2 - C1 * C2) (s1 * s2 * K - S1 * S2 * K)
    rw [show c1 * c2 - s1 * s2 * K - (C1 * C2 - S1 * S2 * K)
      = (c1 * c2 - C1 * C2) - (s1 * s2 * K - S1 * S2 * K) by ring]
    linarith
  · have := mul_approx hc1 hS2 d1 d4
    have := mul_approx3 hs1 hC2 hK d2 d3
    have := abs_add_le (c1 * s2 - C1 * S2) (s1 * c2 * K - S1 * C2 * K)
    rw [show -(c1 * s2) - s1 * c2 * K - (-(C1 * S2) - S1 * C2 * K)
      = -((c1 * s2 - C1 * S2) + (s1 * c2 * K - S1 * C2 * K)) by ring, abs_neg]
    linarith
  · rw [show s1 * σ - S1 * σ = σ * (s1 - S1) by ring]
    linarith [prod_bound hσ d2]
  · have := mul_approx hs1 hC2 d2 d3
    have := mul_approx3 hc1 hS2 hK d1 d4
    have := abs_add_le (s1 * c2 - S1 * C2) (c1 * s2 * K - C1 * S2 * K)
    rw [show s1 * c2 + c1 * s2 * K - (S1 * C2 + C1 * S2 * K)
      = (s1 * c2 - S1 * C2) + (c1 * s2 * K - C1 * S2 * K) by ring]
    linarith
  · have := mul_approx hs1 hS2 d2 d4
    have := mul_approx3 hc1 hC2 hK d1 d3
    have := abs_sub (c1 * c2 * K - C1 * C2 * K) (s1 * s2 - S1 * S2)
    rw [show -(s1 * s2) + c1 * c2 * K - (-(S1 * S2) + C1 * C2 * K)
      = (c1 * c2 * K - C1 * C2 * K) - (s1 * s2 - S1 * S2) by ring]
    linarith
  · rw [show -(c1 * σ) + C1 * σ = -(σ * (c1 - C1)) by ring, abs_neg]
    linarith [prod_bound hσ d1]
  · rw [show s2 * σ - S2 * σ = σ * (s2 - S2) by ring]
    linarith [prod_bound hσ d4]
  · rw [show c2 * σ - C2 * σ = σ * (c2 - C2) by ring]
    linarith [prod_bound hσ d3]
  · linarith


lemma abs_div_sqrt_le_one_left (x y : ℝ) : |x / Real.sqrt (x ^ 2 + y ^ 2)| ≤ 1 := by
  rw [abs_div, abs_of_nonneg (Real.sqrt_nonneg _)]
  apply div_le_one_of_le₀ _ (Real.sqrt_nonneg _)
  rw [← Real.sqrt_sq_eq_abs]; exact Real.sqrt_le_sqrt (by nlinarith [sq_nonneg y])
lemma abs_div_sqrt_le_one_right (x y : ℝ) : |y / Real.sqrt (x ^ 2 + y ^ 2)| ≤ 1 := by
  rw [add_comm]; exact abs_div_sqrt_le_one_left y x

/-- entrywise error of the gimbal-lock branch (`κ = 1`: `Φ ≈ 0`, `κ = -1`: `Φ ≈ π`) -/
lemma lock_bound {U : Matrix (Fin 3) (Fin 3) ℝ} (R : RotRel U) {κ σ y c1 s1 : ℝ}
    (hκ : κ ^ 2 = 1) (hy : y = -κ * U 0 1) (hK : |U 2 2 - κ| ≤ 1e-16)
    (hσ0 : 0 ≤ σ) (hσ1 : σ ≤ 1e-8) (hσ2 : σ ^ 2 = 1 - U 2 2 ^ 2)
    (hc : |c1| ≤ 1) (hs : |s1| ≤ 1)
    (d1 : |c1 - U 0 0 / Real.sqrt (U 0 0 ^ 2 + y ^ 2)| ≤ 1e-8)
    (d2 : |s1 - y / Real.sqrt (U 0 0 ^ 2 + y ^ 2)| ≤ 1e-8) (i j : Fin 3) :
    |eulerMat c1 s1 (U 2 2) σ 1 0 i j - U i j| ≤ 1e-6 := by
  have hσsq : σ ^ 2 ≤ 1e-16 := by
    have := pow_le_pow_left₀ hσ0 hσ1 2
    norm_num at this ⊢; linarith only [this]
  have hK1 : |U 2 2| ≤ 1 := abs_le.mpr R.abs_22
  -- small entries
  have s02 : U 0 2 ^ 2 ≤ σ ^ 2 := by linarith only [hσ2, R.c22, sq_nonneg (U 1 2)]
  have b02 : |U 0 2| ≤ σ := abs_le_of_sq_le_sq s02 hσ0
  have b12 : |U 1 2| ≤ σ :=
    abs_le_of_sq_le_sq (by linarith only [hσ2, R.c22, sq_nonneg (U 0 2)]) hσ0
  have b20 : |U 2 0| ≤ σ :=
    abs_le_of_sq_le_sq (by linarith only [hσ2, R.r22, sq_nonneg (U 2 1)]) hσ0
  have b21 : |U 2 1| ≤ σ :=
    abs_le_of_sq_le_sq (by linarith only [hσ2, R.r22, sq_nonneg (U 2 0)]) hσ0
  -- ρ close to 1
  set ρ := Real.sqrt (U 0 0 ^ 2 + y ^ 2) with hρ
  have hy2 : y ^ 2 = U 0 1 ^ 2 := by rw [hy]; linear_combination (U 0 1 ^ 2) * hκ
  have hρ2 : ρ ^ 2 = 1 - U 0 2 ^ 2 := by
    rw [hρ, Real.sq_sqrt (by positivity), hy2]; linarith only [R.r00]
  have hρ0 : 0 ≤ ρ := Real.sqrt_nonneg _
  have hU02sq : U 0 2 ^ 2 ≤ 1e-16 := le_trans s02 hσsq
  have hρ1 : ρ ≤ 1 :=
    (abs_le_of_sq_le_sq' (by linarith only [hρ2, sq_nonneg (U 0 2)] : ρ ^ 2 ≤ 1 ^ 2) zero_le_one).2
  have hρlow : 1 - ρ ≤ 1e-16 := by
    have := mul_nonneg hρ0 (sub_nonneg.2 hρ1)
    linarith only [this, hρ2, hU02sq]
  have hρabs : |1 - ρ| ≤ 1e-16 := by rw [abs_of_nonneg (by linarith)]; exact hρlow
  have e1 : |U 0 0 / ρ - U 0 0| ≤ 1e-16 := by
    have : U 0 0 / ρ - U 0 0 = (U 0 0 / ρ) * (1 - ρ) := by
      have : ρ ≠ 0 := by intro h; rw [h] at hρlow; norm_num at hρlow
      field_simp
    rw [this]; exact prod_bound (abs_div_sqrt_le_one_left _ _) hρabs
  have e2 : |y / ρ - y| ≤ 1e-16 := by
    have : y / ρ - y = (y / ρ) * (1 - ρ) := by
      have : ρ ≠ 0 := by intro h; rw [h] at hρlow; norm_num at hρlow
      field_simp
    rw [this]; exact prod_bound (abs_div_sqrt_le_one_right _ _) hρabs
  have a1 : |c1 - U 0 0| ≤ 2e-8 := by
    have := abs_add_le (c1 - U 0 0 / ρ) (U 0 0 / ρ - U 0 0)
    rw [show c1 - U 0 0 / ρ + (U 0 0 / ρ - U 0 0) = c1 - U 0 0 by ring] at this
    linarith
  have a2 : |s1 - y| ≤ 2e-8 := by
    have := abs_add_le (s1 - y / ρ) (y / ρ - y)
    rw [show s1 - y / ρ + (y / ρ - y) = s1 - y by ring] at this
    linarith
  have hU01 : |U 0 1| ≤ 1 := by
    apply abs_le_of_sq_le_sq _ zero_le_one
    linarith only [R.r00, sq_nonneg (U 0 0), sq_nonneg (U 0 2)]
  have hσle1 : |σ| ≤ 1 := by rw [abs_of_nonneg hσ0]; linarith
  -- product terms
  have p1 := prod_bound hK1 a2      -- |U 2 2 * (s1 - y)| ≤ 2e-8
  have p2 := prod_bound hU01 hK     -- |U01 * (U 2 2 - κ)| ≤ 1e-16
  have p3 := prod_bound hK1 a1      -- |U 2 2 * (c1 - U00)|
  have p4 : |U 0 2 * U 2 1| ≤ 1e-8 := by
    have h1 : |U 0 2| ≤ 1 := by linarith
    exact prod_bound h1 (by linarith)
  have p5 : |U 0 2 * U 2 0| ≤ 1e-8 := by
    have h1 : |U 0 2| ≤ 1 := by linarith
    exact prod_bound h1 (by linarith)
  have p6 := prod_bound hs hσle1 |>.trans (le_refl _)
  have p7 : |s1 * σ| ≤ 1e-8 := by
    have : |σ| ≤ 1e-8 := by rw [abs_of_nonneg hσ0]; exact hσ1
    exact prod_bound hs this
  have p8 : |c1 * σ| ≤ 1e-8 := by
    have : |σ| ≤ 1e-8 := by rw [abs_of_nonneg hσ0]; exact hσ1
    exact prod_bound hc this
  have hκK : U 2 2 * κ - 1 = κ * (U 2 2 - κ) := by linear_combination hκ
  have hκabs : |κ| ≤ 1 := by
    apply abs_le_of_sq_le_sq _ zero_le_one
    rw [hκ]; norm_num
  have p9 := prod_bound hκabs p2   -- |κ * (U01 * (K - κ))| ≤ 1e-16
  obtain ⟨a1l, a1u⟩ := abs_le.mp a1
  obtain ⟨a2l, a2u⟩ := abs_le.mp a2
  obtain ⟨p1l, p1u⟩ := abs_le.mp p1
  obtain ⟨p2l, p2u⟩ := abs_le.mp p2
  obtain ⟨p3l, p3u⟩ := abs_le.mp p3
  obtain ⟨p4l, p4u⟩ := abs_le.mp p4
  obtain ⟨p5l, p5u⟩ := abs_le.mp p5
  obtain ⟨p7l, p7u⟩ := abs_le.mp p7
  obtain ⟨p8l, p8u⟩ := abs_le.mp p8
  obtain ⟨p9l, p9u⟩ := abs_le.mp p9
  obtain ⟨b02l, b02u⟩ := abs_le.mp b02
  obtain ⟨b12l, b12u⟩ := abs_le.mp b12
  obtain ⟨b20l, b20u⟩ := abs_le.mp b20
  obtain ⟨b21l, b21u⟩ := abs_le.mp b21
  have i01 : -(s1 * U 2 2) - U 0 1 = -(U 2 2 * (s1 - y)) + κ * (U 0 1 * (U 2 2 - κ)) := by
    rw [hy]; linear_combination (U 0 1) * hκ
  have i10 : s1 - U 1 0 = (s1 - y) + U 0 1 * (U 2 2 - κ) - U 0 2 * U 2 1 := by
    rw [hy]; linear_combination (-1 : ℝ) * R.k10
  have i11 : c1 * U 2 2 - U 1 1 = U 2 2 * (c1 - U 0 0) + U 0 2 * U 2 0 := by
    linear_combination (-1 : ℝ) * R.k11
  fin_cases i <;> fin_cases j <;> simp [eulerMat]
  · rw [abs_le]; constructor <;> linarith only [a1l, a1u]
  · rw [i01, abs_le]; constructor <;> linarith only [p1l, p1u, p9l, p9u]
  · rw [abs_le]; constructor <;> linarith only [p7l, p7u, b02l, b02u, hσ1]
  · rw [i10, abs_le]; constructor <;> linarith only [a2l, a2u, p2l, p2u, p4l, p4u]
  · rw [i11, abs_le]; constructor <;> linarith only [p3l, p3u, p5l, p5u]
  · rw [abs_le]; constructor <;> linarith only [p8l, p8u, b12l, b12u, hσ1]
  · rw [abs_le]; constructor <;> linarith only [b20l, b20u, hσ1]
  · rw [abs_le]; constructor <;> linarith only [b21l, b21u, hσ1, hσ0]
  · norm_num

end C03

namespace C03

lemma near_one {K σ : ℝ} (hK0 : 0 ≤ K) (h2 : σ ^ 2 = 1 - K ^ 2) (hσ : σ ^ 2 ≤ 1e-16) :
    |K - 1| ≤ 1e-16 := by
  have hK1 : K ≤ 1 :=
    (abs_le_of_sq_le_sq' (by linarith only [h2, sq_nonneg σ] : K ^ 2 ≤ 1 ^ 2) zero_le_one).2
  have := mul_nonneg hK0 (sub_nonneg.2 hK1)
  rw [abs_of_nonpos (by linarith only [hK1])]
  linarith only [this, h2, hσ]

lemma near_neg_one {K σ : ℝ} (hK0 : K ≤ 0) (h2 : σ ^ 2 = 1 - K ^ 2) (hσ : σ ^ 2 ≤ 1e-16) :
    |K - -1| ≤ 1e-16 := by
  have := @near_one (-K) σ (by linarith only [hK0]) (by rw [h2]; ring) hσ
  rw [show K - -1 = -(-K - 1) by ring, abs_neg]; exact this

end C03

/-- C03: away from the two gimbal-lock branches `u_to_euler` succeeds on every proper rotation and `euler_to_u`
rebuilds the input to within `4e-8` entrywise (the `1e-8` relative zeroing in `_arctan2` is the only error). -/
theorem euler_roundtrip_generic_approx {U : Matrix (Fin 3) (Fin 3) ℝ} (hU : IsRot U)
    (h0 : ¬ |Real.arccos (U 2 2)| < 1e-8) (hπ : ¬ |Real.arccos (U 2 2) - Real.pi| < 1e-8) :
    ∃ e, Tools.u_to_euler U = some e ∧
      ∀ i j, |Tools.euler_to_u (e 0) (e 1) (e 2) i j - U i j| ≤ 4e-8 := by
  have R := rotRel hU
  obtain ⟨hcos, hsin0, hsin2⟩ := R.arccos_facts
  set Φ := Real.arccos (U 2 2) with hΦ
  have hΦ0 : 0 ≤ Φ := Real.arccos_nonneg _
  have hΦπ : Φ ≤ Real.pi := Real.arccos_le_pi _
  have hΦpos : 0 < Φ := by
    rw [abs_of_nonneg hΦ0, not_lt] at h0
    have : (0:ℝ) < 1e-8 := by norm_num
    linarith
  have hΦlt : Φ < Real.pi := by
    rw [abs_of_nonpos (by linarith), not_lt] at hπ
    have : (0:ℝ) < 1e-8 := by norm_num
    linarith
  have hσ : 0 < Real.sin Φ := Real.sin_pos_of_pos_of_lt_pi hΦpos hΦlt
  set σ := Real.sin Φ with hσdef
  have hρ1 : Real.sqrt ((-(U 1 2)) ^ 2 + U 0 2 ^ 2) = σ := by
    have : (-(U 1 2)) ^ 2 + U 0 2 ^ 2 = σ ^ 2 := by rw [hsin2]; linarith [R.c22]
    rw [this, Real.sqrt_sq hσ.le]
  have hρ2 : Real.sqrt (U 2 1 ^ 2 + U 2 0 ^ 2) = σ := by
    have : U 2 1 ^ 2 + U 2 0 ^ 2 = σ ^ 2 := by rw [hsin2]; linarith [R.r22]
    rw [this, Real.sqrt_sq hσ.le]
  have hne1 : -(U 1 2) ≠ 0 ∨ U 0 2 ≠ 0 := by
    by_contra hcon
    rw [not_or, not_not, not_not] at hcon
    rw [hcon.1, hcon.2] at hρ1
    simp at hρ1
    linarith
  have hne2 : U 2 1 ≠ 0 ∨ U 2 0 ≠ 0 := by
    by_contra hcon
    rw [not_or, not_not, not_not] at hcon
    rw [hcon.1, hcon.2] at hρ2
    simp at hρ2
    linarith
  obtain ⟨t1, ht1, hc1, hs1⟩ := arctan2_approx hne1
  obtain ⟨t2, ht2, hc2, hs2⟩ := arctan2_approx hne2
  have B1 := abs_div_sqrt_le_one_left (-(U 1 2)) (U 0 2)
  have B2 := abs_div_sqrt_le_one_right (-(U 1 2)) (U 0 2)
  have B3 := abs_div_sqrt_le_one_left (U 2 1) (U 2 0)
  have B4 := abs_div_sqrt_le_one_right (U 2 1) (U 2 0)
  rw [hρ1] at hc1 hs1 B1 B2
  rw [hρ2] at hc2 hs2 B3 B4
  refine ⟨![wrap t1, Φ, wrap t2], ?_, ?_⟩
  · rw [u_to_euler_eq, if_neg h0, if_neg hπ, ht1, ht2]
    rfl
  · intro i j
    simp only [Matrix.cons_val_zero, Matrix.cons_val_one, Matrix.cons_val_two, Matrix.head_cons,
      Matrix.tail_cons]
    rw [euler_to_u_eq_eulerMat, cos_wrap, sin_wrap, cos_wrap, sin_wrap, hcos]
    have hreb := eulerMat_rebuild R hσ.ne' hsin2
    have := eulerMat_lipschitz (Real.abs_cos_le_one t1) (Real.abs_sin_le_one t1)
      (Real.abs_cos_le_one t2) (Real.abs_sin_le_one t2) B1 B2 B3 B4 (abs_le.mpr R.abs_22)
      (abs_le.mpr ⟨by linarith [Real.neg_one_le_sin Φ], Real.sin_le_one Φ⟩) hc1 hs1 hc2 hs2 i j
    rw [hreb] at this
    norm_num at this ⊢
    linarith

namespace C03

/-- shared core of the two gimbal-lock branches -/
lemma lock_core {U : Matrix (Fin 3) (Fin 3) ℝ} (R : RotRel U) {κ y : ℝ}
    (hκ : κ ^ 2 = 1) (hy : y = -κ * U 0 1) (hK : |U 2 2 - κ| ≤ 1e-16)
    (hσ1 : Real.sin (Real.arccos (U 2 2)) ≤ 1e-8) :
    ∃ t, Tools._arctan2 y (U 0 0) = some t ∧
      ∀ i j, |Tools.euler_to_u (wrap t) (Real.arccos (U 2 2)) 0 i j - U i j| ≤ 1e-6 := by
  obtain ⟨hcos, hsin0, hsin2⟩ := R.arccos_facts
  have hσsq : Real.sin (Real.arccos (U 2 2)) ^ 2 ≤ 1e-16 := by
    have := pow_le_pow_left₀ hsin0 hσ1 2
    norm_num at this ⊢; linarith only [this]
  have hy2 : y ^ 2 = U 0 1 ^ 2 := by rw [hy]; linear_combination (U 0 1 ^ 2) * hκ
  have hne : U 0 0 ≠ 0 ∨ y ≠ 0 := by
    by_contra hcon
    rw [not_or, not_not, not_not] at hcon
    have h1 : U 0 1 ^ 2 = 0 := by rw [← hy2, hcon.2]; ring
    have h2 : U 0 2 ^ 2 ≤ Real.sin (Real.arccos (U 2 2)) ^ 2 := by
      linarith only [hsin2, R.c22, sq_nonneg (U 1 2)]
    have := R.r00
    rw [hcon.1] at this
    norm_num at hσsq
    nlinarith
  obtain ⟨t, ht, hc, hs⟩ := arctan2_approx hne
  refine ⟨t, ht, fun i j => ?_⟩
  rw [euler_to_u_eq_eulerMat, cos_wrap, sin_wrap, hcos, Real.cos_zero, Real.sin_zero]
  exact lock_bound R hκ hy hK hsin0 hσ1 hsin2 (Real.abs_cos_le_one t) (Real.abs_sin_le_one t) hc hs i j

end C03

/-- C03: at and arbitrarily near the `Φ = 0` gimbal lock (`arccos U₂₂ < 1e-8`) `u_to_euler` succeeds on every proper
rotation and `euler_to_u` rebuilds the input to within `1e-6` entrywise. -/
theorem euler_roundtrip_lock0 {U : Matrix (Fin 3) (Fin 3) ℝ} (hU : IsRot U)
    (h0 : |Real.arccos (U 2 2)| < 1e-8) :
    ∃ e, Tools.u_to_euler U = some e ∧
      ∀ i j, |Tools.euler_to_u (e 0) (e 1) (e 2) i j - U i j| ≤ 1e-6 := by
  have R := rotRel hU
  obtain ⟨hcos, hsin0, hsin2⟩ := R.arccos_facts
  have hΦ0 : 0 ≤ Real.arccos (U 2 2) := Real.arccos_nonneg _
  rw [abs_of_nonneg hΦ0] at h0
  have hσ1 : Real.sin (Real.arccos (U 2 2)) ≤ 1e-8 := le_trans (Real.sin_le hΦ0) h0.le
  have hσsq : Real.sin (Real.arccos (U 2 2)) ^ 2 ≤ 1e-16 := by
    have := pow_le_pow_left₀ hsin0 hσ1 2
    norm_num at this ⊢; linarith only [this]
  have hK0 : 0 ≤ U 2 2 := by
    rw [← hcos]
    apply Real.cos_nonneg_of_neg_pi_div_two_le_of_le
    · linarith [Real.pi_pos]
    · have := Real.two_le_pi
      norm_num at h0
      linarith
  have hK := near_one hK0 hsin2 hσsq
  obtain ⟨t, ht, hb⟩ := lock_core R (κ := 1) (y := -(U 0 1)) (by norm_num) (by ring) hK hσ1
  refine ⟨![wrap t, Real.arccos (U 2 2), 0], ?_, ?_⟩
  · rw [u_to_euler_eq, if_pos (by rw [abs_of_nonneg hΦ0]; exact h0), ht]
    rfl
  · intro i j
    simp only [Matrix.cons_val_zero, Matrix.cons_val_one, Matrix.cons_val_two, Matrix.head_cons,
      Matrix.tail_cons]
    exact hb i j

/-- C03: at and arbitrarily near the `Φ = π` gimbal lock (`|arccos U₂₂ - π| < 1e-8`) `u_to_euler` succeeds on every
proper rotation and `euler_to_u` rebuilds the input to within `1e-6` entrywise. -/
theorem euler_roundtrip_lockpi {U : Matrix (Fin 3) (Fin 3) ℝ} (hU : IsRot U)
    (hπ : |Real.arccos (U 2 2) - Real.pi| < 1e-8) :
    ∃ e, Tools.u_to_euler U = some e ∧
      ∀ i j, |Tools.euler_to_u (e 0) (e 1) (e 2) i j - U i j| ≤ 1e-6 := by
  have R := rotRel hU
  obtain ⟨hcos, hsin0, hsin2⟩ := R.arccos_facts
  have hΦ0 : 0 ≤ Real.arccos (U 2 2) := Real.arccos_nonneg _
  have hΦπ : Real.arccos (U 2 2) ≤ Real.pi := Real.arccos_le_pi _
  have hπ' := hπ
  rw [abs_of_nonpos (by linarith)] at hπ'
  have two := Real.two_le_pi
  have h0 : ¬ |Real.arccos (U 2 2)| < 1e-8 := by
    rw [abs_of_nonneg hΦ0, not_lt]
    norm_num at hπ' ⊢
    linarith
  have hσ1 : Real.sin (Real.arccos (U 2 2)) ≤ 1e-8 := by
    rw [← Real.sin_pi_sub]
    exact le_trans (Real.sin_le (by linarith)) (by linarith)
  have hσsq : Real.sin (Real.arccos (U 2 2)) ^ 2 ≤ 1e-16 := by
    have := pow_le_pow_left₀ hsin0 hσ1 2
    norm_num at this ⊢; linarith only [this]
  have hK0 : U 2 2 ≤ 0 := by
    rw [← hcos]
    apply Real.cos_nonpos_of_pi_div_two_le_of_le
    · norm_num at hπ'
      linarith
    · linarith
  have hK := near_neg_one hK0 hsin2 hσsq
  obtain ⟨t, ht, hb⟩ := lock_core R (κ := -1) (y := U 0 1) (by norm_num) (by ring) hK hσ1
  refine ⟨![wrap t, Real.arccos (U 2 2), 0], ?_, ?_⟩
  · rw [u_to_euler_eq, if_neg h0, if_pos hπ, ht]
    rfl
  · intro i j
    simp only [Matrix.cons_val_zero, Matrix.cons_val_one, Matrix.cons_val_two, Matrix.head_cons,
      Matrix.tail_cons]
    exact hb i j

/-- C03: `u_to_euler` inverts `euler_to_u` on EVERY proper rotation (generic, at, and arbitrarily near gimbal lock):
it never raises and the returned angles rebuild the input matrix to within `1e-6` entrywise. -/
theorem u_to_euler_roundtrip {U : Matrix (Fin 3) (Fin 3) ℝ} (hU : IsRot U) :
    ∃ e, Tools.u_to_euler U = some e ∧
      ∀ i j, |Tools.euler_to_u (e 0) (e 1) (e 2) i j - U i j| ≤ 1e-6 := by
  by_cases h0 : |Real.arccos (U 2 2)| < 1e-8
  · exact euler_roundtrip_lock0 hU h0
  · by_cases hπ : |Real.arccos (U 2 2) - Real.pi| < 1e-8
    · exact euler_roundtrip_lockpi hU hπ
    · obtain ⟨e, he, hb⟩ := euler_roundtrip_generic_approx hU h0 hπ
      refine ⟨e, he, fun i j => le_trans (hb i j) (by norm_num)⟩

namespace C03

/-- two angles in `[0, 2π)` with equal cosine and sine are equal -/
lemma angle_unique {a b : ℝ} (ha0 : 0 ≤ a) (ha1 : a < 2 * Real.pi) (hb0 : 0 ≤ b) (hb1 : b < 2 * Real.pi)
    (hc : Real.cos a = Real.cos b) (hs : Real.sin a = Real.sin b) : a = b := by
  have h : Real.cos (a - b) = 1 := by
    rw [Real.cos_sub, hc, hs]; nlinarith [Real.sin_sq_add_cos_sq b]
  have := (Real.cos_eq_one_iff_of_lt_of_lt (by linarith) (by linarith)).mp h
  linarith

lemma wrap_mem {t : ℝ} (h1 : -Real.pi < t) (h2 : t ≤ Real.pi) : 0 ≤ wrap t ∧ wrap t < 2 * Real.pi := by
  have hp := Real.pi_pos
  unfold wrap; split_ifs with h
  · constructor <;> linarith
  · constructor <;> linarith

/-- scaling both arguments of the zeroing test by a positive factor does not change it -/
lemma zero_test_scale {c s σ : ℝ} (hσ : 0 < σ) :
    (|c * σ| < 1e-8 * max |c * σ| |s * σ|) ↔ (|c| < 1e-8 * max |c| |s|) := by
  rw [abs_mul, abs_mul, abs_of_pos hσ, ← max_mul_of_nonneg _ _ hσ.le, ← mul_assoc]
  exact mul_lt_mul_iff_of_pos_right hσ

end C03

/-- C03: exact recovery of the Euler angles: for `φ1, φ2 ∈ [0, 2π)`, `Φ ∈ [1e-8, π - 1e-8]` (away from gimbal lock) and
`φ1, φ2` outside the `1e-8` relative zeroing zones of `_arctan2`, `u_to_euler (euler_to_u φ1 Φ φ2)` returns exactly
`[φ1, Φ, φ2]`. -/
theorem u_to_euler_euler_to_u_exact {φ1 Φ φ2 : ℝ}
    (h1 : 0 ≤ φ1 ∧ φ1 < 2 * Real.pi) (hΦ : 1e-8 ≤ Φ ∧ Φ ≤ Real.pi - 1e-8)
    (h2 : 0 ≤ φ2 ∧ φ2 < 2 * Real.pi)
    (hz1c : ¬ |Real.cos φ1| < 1e-8 * max |Real.cos φ1| |Real.sin φ1|)
    (hz1s : ¬ |Real.sin φ1| < 1e-8 * max |Real.cos φ1| |Real.sin φ1|)
    (hz2c : ¬ |Real.cos φ2| < 1e-8 * max |Real.cos φ2| |Real.sin φ2|)
    (hz2s : ¬ |Real.sin φ2| < 1e-8 * max |Real.cos φ2| |Real.sin φ2|) :
    Tools.u_to_euler (Tools.euler_to_u φ1 Φ φ2) = some ![φ1, Φ, φ2] := by
  have e8 : (0:ℝ) < 1e-8 := by norm_num
  have hΦ0 : 0 < Φ := by linarith [hΦ.1]
  have hΦπ : Φ < Real.pi := by linarith [hΦ.2]
  have hσ : 0 < Real.sin Φ := Real.sin_pos_of_pos_of_lt_pi hΦ0 hΦπ
  have hacos : Real.arccos (Real.cos Φ) = Φ := Real.arccos_cos hΦ0.le hΦπ.le
  have u22 : Tools.euler_to_u φ1 Φ φ2 2 2 = Real.cos Φ := by rw [euler_to_u_eq_eulerMat]; simp [eulerMat]
  have u02 : Tools.euler_to_u φ1 Φ φ2 0 2 = Real.sin φ1 * Real.sin Φ := by rw [euler_to_u_eq_eulerMat]; simp [eulerMat]
  have u12 : -(Tools.euler_to_u φ1 Φ φ2 1 2) = Real.cos φ1 * Real.sin Φ := by
    rw [euler_to_u_eq_eulerMat]; simp [eulerMat]
  have u20 : Tools.euler_to_u φ1 Φ φ2 2 0 = Real.sin φ2 * Real.sin Φ := by rw [euler_to_u_eq_eulerMat]; simp [eulerMat]
  have u21 : Tools.euler_to_u φ1 Φ φ2 2 1 = Real.cos φ2 * Real.sin Φ := by rw [euler_to_u_eq_eulerMat]; simp [eulerMat]
  have key : ∀ φ : ℝ, 0 ≤ φ → φ < 2 * Real.pi →
      ¬ |Real.cos φ| < 1e-8 * max |Real.cos φ| |Real.sin φ| →
      ¬ |Real.sin φ| < 1e-8 * max |Real.cos φ| |Real.sin φ| →
      ∃ t, Tools._arctan2 (Real.sin φ * Real.sin Φ) (Real.cos φ * Real.sin Φ) = some t ∧ wrap t = φ := by
    intro φ hφ0 hφ1 hzc hzs
    have hρ : Real.sqrt ((Real.cos φ * Real.sin Φ) ^ 2 + (Real.sin φ * Real.sin Φ) ^ 2) = Real.sin Φ := by
      have : (Real.cos φ * Real.sin Φ) ^ 2 + (Real.sin φ * Real.sin Φ) ^ 2 = Real.sin Φ ^ 2 := by
        linear_combination (Real.sin Φ ^ 2) * Real.cos_sq_add_sin_sq φ
      rw [this, Real.sqrt_sq hσ.le]
    have hne : Real.cos φ * Real.sin Φ ≠ 0 ∨ Real.sin φ * Real.sin Φ ≠ 0 := by
      by_contra hcon
      rw [not_or, not_not, not_not] at hcon
      rw [hcon.1, hcon.2] at hρ
      simp at hρ
      linarith
    obtain ⟨t, ht, htl, htu, hc, hs⟩ := arctan2_spec hne
    have hzx : ¬ |Real.cos φ * Real.sin Φ| < 1e-8 * max |Real.cos φ * Real.sin Φ| |Real.sin φ * Real.sin Φ| :=
      fun h => hzc ((zero_test_scale hσ).mp h)
    have hzy : ¬ |Real.sin φ * Real.sin Φ| < 1e-8 * max |Real.cos φ * Real.sin Φ| |Real.sin φ * Real.sin Φ| := by
      intro h
      rw [max_comm] at h
      exact hzs (by rw [max_comm]; exact (zero_test_scale hσ).mp h)
    simp only [zx, zy, if_neg hzx, if_neg hzy, hρ] at hc hs
    rw [mul_div_assoc, div_self hσ.ne', mul_one] at hc hs
    refine ⟨t, ht, ?_⟩
    obtain ⟨w0, w1⟩ := wrap_mem htl htu
    exact angle_unique w0 w1 hφ0 hφ1 (by rw [cos_wrap, hc]) (by rw [sin_wrap, hs])
  obtain ⟨t1, ht1, hw1⟩ := key φ1 h1.1 h1.2 hz1c hz1s
  obtain ⟨t2, ht2, hw2⟩ := key φ2 h2.1 h2.2 hz2c hz2s
  have n0 : ¬ |Φ| < 1e-8 := by rw [abs_of_pos hΦ0, not_lt]; exact hΦ.1
  have nπ : ¬ |Φ - Real.pi| < 1e-8 := by
    rw [abs_of_neg (by linarith), not_lt]; linarith [hΦ.2]
  rw [u_to_euler_eq, u22, u02, u12, u20, u21, hacos, if_neg n0, if_neg nπ, ht1, ht2]
  simp only [Option.bind_some, Option.map_some, hw1, hw2]

/-- C03: exactly at the `Φ = 0` gimbal lock (`U = Rz a`, any `a`) the round trip is exact whenever the relative
zeroing of `_arctan2` does not fire (`a` not within ~1e-8 of a multiple of `π/2`). -/
theorem euler_roundtrip_lock0_exact (a : ℝ)
    (hzx : ¬ |Real.cos a| < 1e-8 * max |Real.cos a| |Real.sin a|)
    (hzy : ¬ |Real.sin a| < 1e-8 * max |Real.cos a| |Real.sin a|) :
    ∃ e, Tools.u_to_euler (Rz a) = some e ∧ Tools.euler_to_u (e 0) (e 1) (e 2) = Rz a := by
  have h22 : Rz a 2 2 = 1 := by simp [Rz]
  have h01 : -(Rz a 0 1) = Real.sin a := by simp [Rz]
  have h00 : Rz a 0 0 = Real.cos a := by simp [Rz]
  have hne : Real.cos a ≠ 0 ∨ Real.sin a ≠ 0 := by
    by_contra hcon
    rw [not_or, not_not, not_not] at hcon
    have := Real.cos_sq_add_sin_sq a
    rw [hcon.1, hcon.2] at this
    norm_num at this
  obtain ⟨t, ht, -, -, hc, hs⟩ := arctan2_spec hne
  simp only [zx, zy, if_neg hzx, if_neg hzy, Real.cos_sq_add_sin_sq, Real.sqrt_one, div_one] at hc hs
  refine ⟨![wrap t, 0, 0], ?_, ?_⟩
  · rw [u_to_euler_eq, h22, h01, h00, Real.arccos_one, if_pos (by norm_num), ht]
    rfl
  · simp only [Matrix.cons_val_zero, Matrix.cons_val_one, Matrix.cons_val_two, Matrix.head_cons,
      Matrix.tail_cons]
    rw [euler_to_u_eq_eulerMat, cos_wrap, sin_wrap, hc, hs, Real.cos_zero, Real.sin_zero]
    ext i j; fin_cases i <;> fin_cases j <;> simp [eulerMat, Rz]

/-- C03: exactly at the `Φ = π` gimbal lock (`U = Rz a · Rx π`, any `a`) the round trip is exact whenever the relative
zeroing of `_arctan2` does not fire. -/
theorem euler_roundtrip_lockpi_exact (a : ℝ)
    (hzx : ¬ |Real.cos a| < 1e-8 * max |Real.cos a| |Real.sin a|)
    (hzy : ¬ |Real.sin a| < 1e-8 * max |Real.cos a| |Real.sin a|) :
    ∃ e, Tools.u_to_euler (Rz a * Rx Real.pi) = some e ∧
      Tools.euler_to_u (e 0) (e 1) (e 2) = Rz a * Rx Real.pi := by
  have h22 : (Rz a * Rx Real.pi) 2 2 = -1 := by
    simp [Rz, Rx, Matrix.mul_apply, Fin.sum_univ_three]
  have h01 : (Rz a * Rx Real.pi) 0 1 = Real.sin a := by
    simp [Rz, Rx, Matrix.mul_apply, Fin.sum_univ_three]
  have h00 : (Rz a * Rx Real.pi) 0 0 = Real.cos a := by
    simp [Rz, Rx, Matrix.mul_apply, Fin.sum_univ_three]
  have hne : Real.cos a ≠ 0 ∨ Real.sin a ≠ 0 := by
    by_contra hcon
    rw [not_or, not_not, not_not] at hcon
    have := Real.cos_sq_add_sin_sq a
    rw [hcon.1, hcon.2] at this
    norm_num at this
  obtain ⟨t, ht, -, -, hc, hs⟩ := arctan2_spec hne
  simp only [zx, zy, if_neg hzx, if_neg hzy, Real.cos_sq_add_sin_sq, Real.sqrt_one, div_one] at hc hs
  have two := Real.two_le_pi
  have n0 : ¬ |Real.pi| < 1e-8 := by
    rw [abs_of_pos Real.pi_pos, not_lt]; norm_num; linarith
  refine ⟨![wrap t, Real.pi, 0], ?_, ?_⟩
  · rw [u_to_euler_eq, h22, h01, h00, Real.arccos_neg_one, if_neg n0, if_pos (by norm_num), ht]
    rfl
  · simp only [Matrix.cons_val_zero, Matrix.cons_val_one, Matrix.cons_val_two, Matrix.head_cons,
      Matrix.tail_cons]
    rw [euler_to_u_eq_eulerMat, cos_wrap, sin_wrap, hc, hs, Real.cos_zero, Real.sin_zero]
    ext i j; fin_cases i <;> fin_cases j <;>
      simp [eulerMat, Rz, Rx, Matrix.mul_apply, Fin.sum_univ_three]

/-- C03 (finding): the round trip at gimbal lock is NOT exact in general, even in exact real arithmetic: inside the `1e-8`
relative zeroing zone of `_arctan2` (here `a = arctan 2e8`, about `5e-9` below `π/2`) the angle is snapped to `π/2` and the
rebuilt matrix differs from `Rz a` (by less than `1e-6`, see `u_to_euler_roundtrip`). -/
theorem euler_roundtrip_lock0_not_exact :
    ∃ a e, Tools.u_to_euler (Rz a) = some e ∧ Tools.euler_to_u (e 0) (e 1) (e 2) ≠ Rz a := by
  set a := Real.arctan 2e8 with ha
  have hcpos : 0 < Real.cos a := Real.cos_arctan_pos _
  have hsin : Real.sin a = 2e8 * Real.cos a := by
    have := Real.tan_arctan 2e8
    rw [← ha, Real.tan_eq_sin_div_cos, div_eq_iff hcpos.ne'] at this
    exact this
  have hspos : 0 < Real.sin a := by rw [hsin]; positivity
  have hzx : |Real.cos a| < 1e-8 * max |Real.cos a| |Real.sin a| := by
    rw [abs_of_pos hcpos, abs_of_pos hspos]
    have hm : Real.sin a ≤ max (Real.cos a) (Real.sin a) := le_max_right _ _
    generalize max (Real.cos a) (Real.sin a) = m at hm ⊢
    rw [hsin] at hm
    norm_num at hm ⊢
    linarith
  have h22 : Rz a 2 2 = 1 := by simp [Rz]
  have h01 : -(Rz a 0 1) = Real.sin a := by simp [Rz]
  have h00 : Rz a 0 0 = Real.cos a := by simp [Rz]
  obtain ⟨t, ht, -, -, hc, -⟩ := arctan2_spec (x := Real.cos a) (y := Real.sin a) (Or.inl hcpos.ne')
  simp only [zx, if_pos hzx, zero_div] at hc
  refine ⟨a, ![wrap t, 0, 0], ?_, ?_⟩
  · rw [u_to_euler_eq, h22, h01, h00, Real.arccos_one, if_pos (by norm_num), ht]
    rfl
  · intro h
    have := congrFun (congrFun h 0) 0
    simp only [Matrix.cons_val_zero, Matrix.cons_val_one, Matrix.cons_val_two, Matrix.head_cons,
      Matrix.tail_cons] at this
    rw [euler_to_u_eq_eulerMat, cos_wrap, sin_wrap, hc, Real.cos_zero, Real.sin_zero, h00] at this
    simp [eulerMat] at this
    linarith

namespace C03
/-- a concrete rational proper rotation with `Φ = π/2`, used for non-vacuity examples -/
def Uex : Matrix (Fin 3) (Fin 3) ℝ := !![12/25, -16/25, 3/5; 9/25, -12/25, -4/5; 4/5, 3/5, 0]

lemma Uex_isRot : IsRot Uex := by
  constructor
  · ext i j; fin_cases i <;> fin_cases j <;>
      simp [Uex, Matrix.mul_apply, Fin.sum_univ_three] <;> norm_num
  · simp [Uex, Matrix.det_fin_three]; norm_num
end C03

example : ∃ e, Tools.u_to_euler Uex = some e ∧ Tools.euler_to_u (e 0) (e 1) (e 2) = Uex := by
  have two := Real.two_le_pi
  have h22 : Uex 2 2 = 0 := by simp [Uex]
  have h12 : Uex 1 2 = -4/5 := by simp [Uex]
  have h02 : Uex 0 2 = 3/5 := by simp [Uex]
  have h21 : Uex 2 1 = 3/5 := by simp [Uex]
  have h20 : Uex 2 0 = 4/5 := by simp [Uex]
  apply euler_roundtrip_generic Uex_isRot
  · rw [h22, Real.arccos_zero, abs_of_pos (by positivity), not_lt]; norm_num; linarith
  · rw [h22, Real.arccos_zero, abs_of_neg (by linarith), not_lt]; norm_num; linarith
  · rw [h12, h02]; norm_num [abs_of_pos, max_def]
  · rw [h12, h02]; norm_num [abs_of_pos, max_def]
  · rw [h21, h20]; norm_num [abs_of_pos, max_def]
  · rw [h21, h20]; norm_num [abs_of_pos, max_def]

example : Tools.u_to_euler (Tools.euler_to_u (Real.pi / 4) (Real.pi / 2) (Real.pi / 4))
    = some ![Real.pi / 4, Real.pi / 2, Real.pi / 4] := by
  have two := Real.two_le_pi
  have hp := Real.pi_pos
  have hs : (0:ℝ) < Real.sqrt 2 / 2 := by positivity
  have hz : ¬ |Real.sqrt 2 / 2| < 1e-8 * max |Real.sqrt 2 / 2| |Real.sqrt 2 / 2| := by
    rw [max_self, abs_of_pos hs, not_lt]; norm_num
  apply u_to_euler_euler_to_u_exact
  · constructor <;> linarith
  · constructor <;> norm_num <;> linarith
  · constructor <;> linarith
  all_goals (rw [Real.cos_pi_div_four, Real.sin_pi_div_four]; exact hz)

example : ∃ e, Tools.u_to_euler (Rz (Real.pi / 4)) = some e ∧
    Tools.euler_to_u (e 0) (e 1) (e 2) = Rz (Real.pi / 4) := by
  have hs : (0:ℝ) < Real.sqrt 2 / 2 := by positivity
  have hz : ¬ |Real.sqrt 2 / 2| < 1e-8 * max |Real.sqrt 2 / 2| |Real.sqrt 2 / 2| := by
    rw [max_self, abs_of_pos hs, not_lt]; norm_num
  apply euler_roundtrip_lock0_exact <;>
    (rw [Real.cos_pi_div_four, Real.sin_pi_div_four]; exact hz)

/-- C03: `_arctan2` is correct: away from the origin and when its relative zeroing does not fire it returns the polar
angle `t ∈ (-π, π]` of `(x, y)`: `cos t = x/√(x²+y²)`, `sin t = y/√(x²+y²)`. -/
theorem arctan2_correct {y x : ℝ} (h : x ≠ 0 ∨ y ≠ 0)
    (hzx : ¬ |x| < 1e-8 * max |x| |y|) (hzy : ¬ |y| < 1e-8 * max |x| |y|) :
    ∃ t, Tools._arctan2 y x = some t ∧ -Real.pi < t ∧ t ≤ Real.pi ∧
      Real.cos t = x / Real.sqrt (x ^ 2 + y ^ 2) ∧ Real.sin t = y / Real.sqrt (x ^ 2 + y ^ 2) := by
  obtain ⟨t, ht, h1, h2, hc, hs⟩ := arctan2_spec h
  simp only [zx, zy, if_neg hzx, if_neg hzy] at hc hs
  exact ⟨t, ht, h1, h2, hc, hs⟩

/-- C03: the Euler-inverse clause in one statement: on EVERY proper rotation `u_to_euler` returns angles in
`[0,2π] × [0,π] × [0,2π]` that rebuild the input to within `1e-6` entrywise (generic, at and near gimbal lock). -/
theorem u_to_euler_inverts {U : Matrix (Fin 3) (Fin 3) ℝ} (hU : IsRot U) :
    ∃ e, Tools.u_to_euler U = some e ∧
      (0 ≤ e 0 ∧ e 0 ≤ 2 * Real.pi) ∧ (0 ≤ e 1 ∧ e 1 ≤ Real.pi) ∧ (0 ≤ e 2 ∧ e 2 ≤ 2 * Real.pi) ∧
      ∀ i j, |Tools.euler_to_u (e 0) (e 1) (e 2) i j - U i j| ≤ 1e-6 := by
  obtain ⟨e, he, hb⟩ := u_to_euler_roundtrip hU
  obtain ⟨r0, r1, r2⟩ := u_to_euler_range he
  exact ⟨e, he, r0, r1, r2, hb⟩

/-- C03: in particular `u_to_euler` inverts `euler_to_u` for all real angles. -/
theorem u_to_euler_euler_to_u (φ1 Φ φ2 : ℝ) :
    ∃ e, Tools.u_to_euler (Tools.euler_to_u φ1 Φ φ2) = some e ∧
      ∀ i j, |Tools.euler_to_u (e 0) (e 1) (e 2) i j - Tools.euler_to_u φ1 Φ φ2 i j| ≤ 1e-6 :=
  u_to_euler_roundtrip (euler_to_u_isRot φ1 Φ φ2)

/-! #### laue twins of 8 -/

/-- C03 (laue): `_arctan2` result range `(-π, π]`. -/
theorem arctan2_range_laue {y x t : ℝ} (h : Laue._arctan2 y x = some t) :
    -Real.pi < t ∧ t ≤ Real.pi := by
  rw [laue_arctan2] at h; exact arctan2_range h

/-- C03 (laue): `_arctan2` is correct when its zeroing does not fire. -/
theorem arctan2_correct_laue {y x : ℝ} (h : x ≠ 0 ∨ y ≠ 0)
    (hzx : ¬ |x| < 1e-8 * max |x| |y|) (hzy : ¬ |y| < 1e-8 * max |x| |y|) :
    ∃ t, Laue._arctan2 y x = some t ∧ -Real.pi < t ∧ t ≤ Real.pi ∧
      Real.cos t = x / Real.sqrt (x ^ 2 + y ^ 2) ∧ Real.sin t = y / Real.sqrt (x ^ 2 + y ^ 2) := by
  rw [laue_arctan2]; exact arctan2_correct h hzx hzy

/-- C03 (laue): `_arctan2` never fails away from the origin and is accurate to `1e-8` in cos/sin. -/
theorem arctan2_approx_laue {y x : ℝ} (h : x ≠ 0 ∨ y ≠ 0) :
    ∃ t, Laue._arctan2 y x = some t ∧
      |Real.cos t - x / Real.sqrt (x ^ 2 + y ^ 2)| ≤ 1e-8 ∧
      |Real.sin t - y / Real.sqrt (x ^ 2 + y ^ 2)| ≤ 1e-8 := by
  rw [laue_arctan2]; exact arctan2_approx h

/-- C03 (laue): `u_to_euler` returns angles in `[0,2π] × [0,π] × [0,2π]`. -/
theorem u_to_euler_range_laue {U : Matrix (Fin 3) (Fin 3) ℝ} {e : Fin 3 → ℝ}
    (h : Laue.u_to_euler U = some e) :
    (0 ≤ e 0 ∧ e 0 ≤ 2 * Real.pi) ∧ (0 ≤ e 1 ∧ e 1 ≤ Real.pi) ∧ (0 ≤ e 2 ∧ e 2 ≤ 2 * Real.pi) := by
  rw [laue_u_to_euler] at h; exact u_to_euler_range h

/-- C03 (laue): exact generic round trip. -/
theorem euler_roundtrip_generic_laue {U : Matrix (Fin 3) (Fin 3) ℝ} (hU : IsRot U)
    (h0 : ¬ |Real.arccos (U 2 2)| < 1e-8) (hπ : ¬ |Real.arccos (U 2 2) - Real.pi| < 1e-8)
    (hz1x : ¬ |-(U 1 2)| < 1e-8 * max |-(U 1 2)| |U 0 2|)
    (hz1y : ¬ |U 0 2| < 1e-8 * max |-(U 1 2)| |U 0 2|)
    (hz2x : ¬ |U 2 1| < 1e-8 * max |U 2 1| |U 2 0|)
    (hz2y : ¬ |U 2 0| < 1e-8 * max |U 2 1| |U 2 0|) :
    ∃ e, Laue.u_to_euler U = some e ∧ Laue.euler_to_u (e 0) (e 1) (e 2) = U := by
  rw [laue_u_to_euler, laue_euler_to_u]
  exact euler_roundtrip_generic hU h0 hπ hz1x hz1y hz2x hz2y

/-- C03 (laue): generic round trip to `4e-8` without zeroing hypotheses. -/
theorem euler_roundtrip_generic_approx_laue {U : Matrix (Fin 3) (Fin 3) ℝ} (hU : IsRot U)
    (h0 : ¬ |Real.arccos (U 2 2)| < 1e-8) (hπ : ¬ |Real.arccos (U 2 2) - Real.pi| < 1e-8) :
    ∃ e, Laue.u_to_euler U = some e ∧
      ∀ i j, |Laue.euler_to_u (e 0) (e 1) (e 2) i j - U i j| ≤ 4e-8 := by
  rw [laue_u_to_euler, laue_euler_to_u]; exact euler_roundtrip_generic_approx hU h0 hπ

/-- C03 (laue): round trip at / near the `Φ = 0` gimbal lock. -/
theorem euler_roundtrip_lock0_laue {U : Matrix (Fin 3) (Fin 3) ℝ} (hU : IsRot U)
    (h0 : |Real.arccos (U 2 2)| < 1e-8) :
    ∃ e, Laue.u_to_euler U = some e ∧
      ∀ i j, |Laue.euler_to_u (e 0) (e 1) (e 2) i j - U i j| ≤ 1e-6 := by
  rw [laue_u_to_euler, laue_euler_to_u]; exact euler_roundtrip_lock0 hU h0

/-- C03 (laue): round trip at / near the `Φ = π` gimbal lock. -/
theorem euler_roundtrip_lockpi_laue {U : Matrix (Fin 3) (Fin 3) ℝ} (hU : IsRot U)
    (hπ : |Real.arccos (U 2 2) - Real.pi| < 1e-8) :
    ∃ e, Laue.u_to_euler U = some e ∧
      ∀ i j, |Laue.euler_to_u (e 0) (e 1) (e 2) i j - U i j| ≤ 1e-6 := by
  rw [laue_u_to_euler, laue_euler_to_u]; exact euler_roundtrip_lockpi hU hπ

/-- C03 (laue): `u_to_euler` inverts `euler_to_u` on every proper rotation to within `1e-6`. -/
theorem u_to_euler_roundtrip_laue {U : Matrix (Fin 3) (Fin 3) ℝ} (hU : IsRot U) :
    ∃ e, Laue.u_to_euler U = some e ∧
      ∀ i j, |Laue.euler_to_u (e 0) (e 1) (e 2) i j - U i j| ≤ 1e-6 := by
  rw [laue_u_to_euler, laue_euler_to_u]; exact u_to_euler_roundtrip hU

/-- C03 (laue): the Euler-inverse clause in one statement. -/
theorem u_to_euler_inverts_laue {U : Matrix (Fin 3) (Fin 3) ℝ} (hU : IsRot U) :
    ∃ e, Laue.u_to_euler U = some e ∧
      (0 ≤ e 0 ∧ e 0 ≤ 2 * Real.pi) ∧ (0 ≤ e 1 ∧ e 1 ≤ Real.pi) ∧ (0 ≤ e 2 ∧ e 2 ≤ 2 * Real.pi) ∧
      ∀ i j, |Laue.euler_to_u (e 0) (e 1) (e 2) i j - U i j| ≤ 1e-6 := by
  rw [laue_u_to_euler, laue_euler_to_u]; exact u_to_euler_inverts hU

/-- C03 (laue): `u_to_euler` inverts `euler_to_u` for all real angles. -/
theorem u_to_euler_euler_to_u_laue (φ1 Φ φ2 : ℝ) :
    ∃ e, Laue.u_to_euler (Laue.euler_to_u φ1 Φ φ2) = some e ∧
      ∀ i j, |Laue.euler_to_u (e 0) (e 1) (e 2) i j - Laue.euler_to_u φ1 Φ φ2 i j| ≤ 1e-6 := by
  rw [laue_u_to_euler, laue_euler_to_u]; exact u_to_euler_euler_to_u φ1 Φ φ2

/-- C03 (laue): exact recovery of the Euler angles away from lock and zeroing zones. -/
theorem u_to_euler_euler_to_u_exact_laue {φ1 Φ φ2 : ℝ}
    (h1 : 0 ≤ φ1 ∧ φ1 < 2 * Real.pi) (hΦ : 1e-8 ≤ Φ ∧ Φ ≤ Real.pi - 1e-8)
    (h2 : 0 ≤ φ2 ∧ φ2 < 2 * Real.pi)
    (hz1c : ¬ |Real.cos φ1| < 1e-8 * max |Real.cos φ1| |Real.sin φ1|)
    (hz1s : ¬ |Real.sin φ1| < 1e-8 * max |Real.cos φ1| |Real.sin φ1|)
    (hz2c : ¬ |Real.cos φ2| < 1e-8 * max |Real.cos φ2| |Real.sin φ2|)
    (hz2s : ¬ |Real.sin φ2| < 1e-8 * max |Real.cos φ2| |Real.sin φ2|) :
    Laue.u_to_euler (Laue.euler_to_u φ1 Φ φ2) = some ![φ1, Φ, φ2] := by
  rw [laue_u_to_euler, laue_euler_to_u]
  exact u_to_euler_euler_to_u_exact h1 hΦ h2 hz1c hz1s hz2c hz2s

/-- C03 (laue): exact round trip at the `Φ = 0` lock outside the zeroing zone. -/
theorem euler_roundtrip_lock0_exact_laue (a : ℝ)
    (hzx : ¬ |Real.cos a| < 1e-8 * max |Real.cos a| |Real.sin a|)
    (hzy : ¬ |Real.sin a| < 1e-8 * max |Real.cos a| |Real.sin a|) :
    ∃ e, Laue.u_to_euler (Rz a) = some e ∧ Laue.euler_to_u (e 0) (e 1) (e 2) = Rz a := by
  rw [laue_u_to_euler, laue_euler_to_u]; exact euler_roundtrip_lock0_exact a hzx hzy

/-- C03 (laue): exact round trip at the `Φ = π` lock outside the zeroing zone. -/
theorem euler_roundtrip_lockpi_exact_laue (a : ℝ)
    (hzx : ¬ |Real.cos a| < 1e-8 * max |Real.cos a| |Real.sin a|)
    (hzy : ¬ |Real.sin a| < 1e-8 * max |Real.cos a| |Real.sin a|) :
    ∃ e, Laue.u_to_euler (Rz a * Rx Real.pi) = some e ∧
      Laue.euler_to_u (e 0) (e 1) (e 2) = Rz a * Rx Real.pi := by
  rw [laue_u_to_euler, laue_euler_to_u]; exact euler_roundtrip_lockpi_exact a hzx hzy

/-- C03 (laue, finding): the lock round trip is not exact inside the zeroing zone. -/
theorem euler_roundtrip_lock0_not_exact_laue :
    ∃ a e, Laue.u_to_euler (Rz a) = some e ∧ Laue.euler_to_u (e 0) (e 1) (e 2) ≠ Rz a := by
  rw [laue_u_to_euler, laue_euler_to_u]; exact euler_roundtrip_lock0_not_exact
