/-
C04, name part: "lookup by any accepted name and by number give the same group", incl. whitespace / case variants
and the R…h / R…r suffixes.  About the hand model `Model/SgLookup.lean` of `sg.sg.__init__` and the generated
dictionary `Sg.dicL` / setting index `Sg.settingsL` (exported from sg.py / sglib.py on every run).
-/
import XfabVerif.Model.SgLookup

namespace C04N
open Sg

theorem lowerN_idem (c : Nat) : lowerN (lowerN c) = lowerN c := by
  unfold lowerN
  by_cases h : 65 ≤ c ∧ c ≤ 90
  · rw [if_pos h]
    have h2 : ¬ (65 ≤ c + 32 ∧ c + 32 ≤ 90) := by omega
    rw [if_neg h2]
  · rw [if_neg h, if_neg h]

theorem isWsN_lowerN (c : Nat) : isWsN (lowerN c) = isWsN c := by
  unfold lowerN isWsN
  split
  · rename_i h
    have e : ∀ k, k < 65 → ((c + 32 == k) = false ∧ (c == k) = false) := by
      intro k hk; constructor <;> (rw [beq_eq_false_iff_ne]; omega)
    simp [e]
  · rfl

theorem normaliseN_idem (s : List Nat) : normaliseN (normaliseN s) = normaliseN s := by
  induction s with
  | nil => rfl
  | cons c s ih =>
    unfold normaliseN at *
    by_cases hc : isWsN c = true
    · simp [hc, ih]
    · have hc' : isWsN c = false := by simpa using hc
      simp only [List.filter_cons, hc', Bool.not_false, if_true, List.map_cons, isWsN_lowerN, lowerN_idem]
      congr 1

end C04N

open Sg in
/-- normalisation is idempotent, hence lookup by name factors through it: any whitespace / case variant of an
accepted name resolves exactly like the normalised key -/
theorem lookup_normalised (name : List Nat) (ccR : Bool) : lookupNameN (normaliseN name) ccR = lookupNameN name ccR := by
  unfold lookupNameN
  simp only [C04N.normaliseN_idem]

open Sg in
/-- two spellings with the same normal form (inserted whitespace, changed letter case) resolve identically -/
theorem lookup_variant (a b : List Nat) (ccR : Bool) (h : normaliseN a = normaliseN b) :
    lookupNameN a ccR = lookupNameN b ccR := by
  unfold lookupNameN
  simp only [h]

open Sg in
/-- every key of `sgdic` is in normal form and resolves to a tabulated class with the number its class name
states; `r…r` keys give the rhombohedral setting, all other keys (incl. `r…h`) the standard / hexagonal one -/
theorem all_keys_resolve : dicL.all keyOk = true := by decide +kernel

open Sg in
/-- every table's own `name`, normalised, is a dictionary key of the same class -/
theorem all_names_are_keys : settingsL.all nameOk = true := by decide +kernel

open Sg in
/-- lookup by number succeeds for 1…230 with either cell choice -/
theorem all_numbers_resolve :
    (List.range 230).all (fun i => (tableIdxFor (i + 1) false).isSome && (tableIdxFor (i + 1) true).isSome) = true := by
  decide +kernel

open Sg in
/-- name and number agree: for a key `k ↦ SgN`, lookup by name equals lookup by number `N` with the setting the key implies -/
theorem name_eq_number (k : List Nat) (no : Nat) (ccR : Bool) (hd : dicLookupN (normaliseN k) = some no) :
    lookupNameN k ccR = some (lookupNoN no (rrKey (normaliseN k) || ccR)) := by
  unfold lookupNameN lookupNoN
  simp only [hd]

open Sg in
/-- the index list is parallel to the table list -/
theorem settings_parallel : settingsL.length = 237 := by decide +kernel

example : Sg.normaliseN [32, 80, 32, 50, 49, 47, 67, 9] = [112, 50, 49, 47, 99] := by decide
