/-
C04, names clause — "lookup by any accepted name … gives the same group": WHICH group a name means is decided by the name itself.

Every key of the exported dictionary `Sg.sgdic` is a Hermann–Mauguin symbol.  `harness/gen_names.py` reads it (lattice letter, one
symmetry element per symmetry direction of the crystal system) and supplies a witness operation for every element;
`HM.rowOk` (`Model/HMCert.lean`) re-checks each witness on the exported table in integer arithmetic, and `Gen/NameCerts.lean`
decides it in the kernel for all keys (`decide +kernel`, one theorem per eight keys).  This file states the result:

* `names_describe_groups`  every certified entry passes: the table the dictionary sends the key to (same number, same setting) has the
                           centring translations of the key's lattice letter, contains every symmetry element the key names — rotation
                           axes with their sense and screw pitch, rotoinversion axes, reflection planes with their glide class — along
                           the symmetry directions of its crystal system, and these elements generate its whole point group;
* `names_complete`         the certified keys are exactly the keys of the dictionary (none is skipped);
* the `example`s           show that the check is not vacuous: it rejects a c-glide claimed for `Pm`, a 2₁ axis claimed for `P2`, the
                           letter `C` claimed for a primitive table, and the symbol `P2` claimed for `P2/m` (a subgroup of its point group).
                           A key that no reading fits (the alias `aea2` → No. 40 of seeded change C04-g) gets an uncertifiable row from the
                           generator, so the theorem of its chunk fails and the build names it.

What is NOT proved here (decided by the failing-input search in `harness/props/c04.py` with the same reading, in exact rational
arithmetic): that no OTHER table fits the key (uniqueness; measured on the reviewed tables: none of the other 236 does), the
precedence of rotation over screw axes, and the place holder `1` naming the absence of an element.
-/
import XfabVerif.Gen.NameCerts

namespace C04Symbols
open Gen.NameCerts

theorem names_describe_groups : ∀ e ∈ Gen.NameCerts.all, entryOk e = true := by
  have h := Gen.NameCerts.all_ok
  rw [List.all_eq_true] at h
  exact h

theorem names_complete : Gen.NameCerts.all.map (fun e => e.row.key) = Sg.sgdic.map (fun p => p.1) :=
  Gen.NameCerts.keys_complete

/-- every certified entry speaks about the table its key resolves to in the exported dictionary -/
theorem names_tie (e : Entry) (he : e ∈ Gen.NameCerts.all) :
    Sg.sgdic.lookup e.row.key = some e.cls ∧ e.table.no = e.no := by
  have h := names_describe_groups e he
  simp only [entryOk, Bool.and_eq_true, beq_iff_eq] at h
  exact ⟨h.1.2, h.1.1.1.2⟩

/-! ### the check rejects wrong claims -/

-- a c-glide perpendicular to b claimed for Pm (the operation is a mirror)
example : HM.rowOk Sg.Tables.n6 ⟨"pc", 0, [⟨2, 2, 0, 3, (0, 1, 0), 1, 1, (0, 0, 0), 0, (0, 0, 0)⟩]⟩ = false := by decide +kernel
-- a 2₁ screw axis along b claimed for P2
example : HM.rowOk Sg.Tables.n3 ⟨"p21", 0, [⟨0, 2, 1, 0, (0, 1, 0), 1, 1, (0, 0, 0), 0, (0, 0, 0)⟩]⟩ = false := by decide +kernel
-- the lattice letter C claimed for the primitive P2
example : HM.rowOk Sg.Tables.n3 ⟨"c2", 3, [⟨0, 2, 0, 0, (0, 1, 0), 1, 1, (0, 0, 0), 0, (0, 0, 0)⟩]⟩ = false := by decide +kernel
-- the symbol 2 alone does not name the group P2/m (its element generates a subgroup of the point group)
example : HM.rowOk Sg.Tables.n10 ⟨"p2", 0, [⟨0, 2, 0, 0, (0, 1, 0), 1, 2, (0, 0, 0), 0, (0, 0, 0)⟩]⟩ = false := by decide +kernel
-- … while the certified reading of P2 on its own table passes
example : HM.rowOk Sg.Tables.n3 ⟨"p2", 0, [⟨0, 2, 0, 0, (0, 1, 0), 1, 1, (0, 0, 0), 0, (0, 0, 0)⟩]⟩ = true := by decide +kernel

end C04Symbols
