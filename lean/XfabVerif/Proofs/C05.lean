/-
C05 — genhkl_all returns exactly the allowed reflections in the shell.

Objects: the generated `Tools.sysabs_unique` / `Laue.sysabs_unique` (`Gen/Sysabs.lean`, AST translation of the Python
source) and the hand model `Model/Hkl.lean` of `genhkl_base` / `genhkl_unique` / `genhkl_all` (tied to the code by the
correspondence run of `harness/props/c05.py`).

Proved here
* `sysabs_cascade` (+ `_laue`): `sysabs_unique ≠ 0` is a flat disjunction over the 26 slots of `syscond`
  (slot 3 special: it is the only step that can reset an earlier firing).
* `sysabs_zero_iff` (+ `_laue`): `sysabs = 0` iff `sysabs_unique` vanishes on `hkl` and on the two permuted / rotated
  index triples that the branch of the crystal system / cell choice looks at.
* `emit_eq`: the `nref` bookkeeping of `genhkl_base` skips exactly the first visited point and nothing else.
* `traverse_sound`: every visited point lies in the cone of its segment, `h = s + n₃d₃ + n₂d₂ + n₁d₁`, `nᵢ ≥ 0`;
  `visited_start_or_inside`: it is the start of the segment or passed a stop test `Q ≤ (2·scale·max)²`.
* `expand_nodup`, `expand_eq_orbit`, `expand_count`, `rots_nodup`, `mem_rots`: the de-duplication steps of `genhkl_all`
  return every element of the orbit list exactly once.
* `base_rows_spec`: rows of `genhkl_base` = visited points except the first, allowed by `sysabs`, inside the shell, with
  their `Q`.
* `all_rows_from_unique`, `all_eq_union`: rows of `genhkl_all` are exactly `h·R`, `h` a row of `genhkl_unique`,
  `R ∈ Rots`, with the same `stl`.
* `all_nodup_of_disjoint_partial`: no repetitions in `genhkl_all` — under the hypothesis that the orbits of distinct
  rows of `genhkl_unique` are disjoint (that is T5.4, cone transversality, not proved here).

NOT proved here (later steps of the design): T5.1 (`sysabs` ↔ operators per group), T5.3 (`traverse_exact`: the visited
points are exactly the cone points whose path stays in the scaled shell, termination), T5.4 (cone transversality).
-/
import XfabVerif.Model.Hkl
import Mathlib.Tactic.Ring
import Mathlib.Data.List.Nodup

set_option linter.unusedVariables false
set_option linter.style.longLine false
set_option linter.unusedSimpArgs false

namespace C05

/-! ### the cascade of `sysabs_unique` -/

theorem guard_mod_ne (c : Bool) (x a d : Int) :
    (c && ((x % (if c = true then a else d)) != 0)) = (c && ((x % a) != 0)) := by cases c <;> simp

theorem guard_mod_eq (c : Bool) (x a d : Int) :
    (c && ((x % (if c = true then a else d)) == 0)) = (c && ((x % a) == 0)) := by cases c <;> simp

theorem guard_mod_eq2 (c p : Bool) (x a d : Int) :
    ((c && p) && ((x % (if c = true then a else d)) == 0)) = ((c && p) && ((x % a) == 0)) := by cases c <;> simp

theorem guard_mod_eq3 (c p p' : Bool) (x a d : Int) :
    (((c && p) && p') && ((x % (if c = true then a else d)) == 0)) = (((c && p) && p') && ((x % a) == 0)) := by
  cases c <;> simp

/-- one step of the cascade: an assignment of a non-zero code under condition `c` -/
theorem ite_ne_zero_iff (c : Bool) (v s : Int) (hv : (v != 0) = true) :
    ((if c = true then v else s) ≠ 0) ↔ (s ≠ 0 ∨ c = true) := by
  have : v ≠ 0 := by simpa using hv
  cases c <;> simp [this]

/-- the reset step of slot 3 -/
theorem ite_zero_ne_zero_iff (c : Bool) (s : Int) :
    ((if c = true then (0 : Int) else s) ≠ 0) ↔ (¬ c = true ∧ s ≠ 0) := by
  cases c <;> simp

/-- slot `i` of `syscond` is active and `|x|` is not a multiple of it -/
def fires (sc : List Int) (i : Nat) (x : Int) : Prop :=
  sc.getD i 0 ≠ 0 ∧ (Int.natAbs x : Int) % sc.getD i 0 ≠ 0

/-- slot 3 is active and `h+k`, `h+l`, `k+l` are all multiples of it: the only step that resets the code to 0 -/
def reset3 (sc : List Int) (h k l : Int) : Prop :=
  sc.getD 3 0 ≠ 0 ∧ (Int.natAbs (h + k) : Int) % sc.getD 3 0 = 0 ∧ (Int.natAbs (h + l) : Int) % sc.getD 3 0 = 0 ∧
    (Int.natAbs (k + l) : Int) % sc.getD 3 0 = 0

/-- the flat disjunction over the 26 slots -/
def absentSpec (h k l : Int) (sc : List Int) : Prop :=
  (¬ reset3 sc h k l ∧ (fires sc 0 (h + k) ∨ fires sc 1 (h + l) ∨ fires sc 2 (k + l) ∨ sc.getD 3 0 ≠ 0)) ∨
  fires sc 4 (h + k + l) ∨ fires sc 5 (-h + k + l) ∨
  (h - k = 0 ∧ fires sc 6 h) ∨ (h - k = 0 ∧ fires sc 7 l) ∨ (h - k = 0 ∧ fires sc 8 (h + l)) ∨
  (h - k = 0 ∧ fires sc 9 (h + h + l)) ∨
  (h = 0 ∧ fires sc 10 k) ∨ (h = 0 ∧ fires sc 11 l) ∨ (h = 0 ∧ fires sc 12 (k + l)) ∨
  (k = 0 ∧ fires sc 13 h) ∨ (k = 0 ∧ fires sc 14 l) ∨ (k = 0 ∧ fires sc 15 (h + l)) ∨
  (l = 0 ∧ fires sc 16 h) ∨ (l = 0 ∧ fires sc 17 k) ∨ (l = 0 ∧ fires sc 18 (h + k)) ∨
  (l = 0 ∧ h - k = 0 ∧ fires sc 19 h) ∨
  ((Int.natAbs k : Int) + (Int.natAbs l : Int) = 0 ∧ fires sc 20 h) ∨
  ((Int.natAbs h : Int) + (Int.natAbs l : Int) = 0 ∧ fires sc 21 k) ∨
  ((Int.natAbs h : Int) + (Int.natAbs k : Int) = 0 ∧ fires sc 22 l) ∨
  (h + k = 0 ∧ fires sc 23 h) ∨ (h + k = 0 ∧ fires sc 24 l) ∨ (h + k = 0 ∧ fires sc 25 (h + l))

/-! ### lists without repetitions -/

open Hkl

theorem mem_dedupFirst {α : Type} [DecidableEq α] (x : α) : ∀ l : List α, x ∈ dedupFirst l ↔ x ∈ l
  | [] => by simp [dedupFirst]
  | y :: ys => by
    simp only [dedupFirst, List.mem_cons, List.mem_filter, decide_eq_true_eq, mem_dedupFirst x ys]
    by_cases h : x = y <;> simp [h]

theorem nodup_dedupFirst {α : Type} [DecidableEq α] : ∀ l : List α, (dedupFirst l).Nodup
  | [] => by simp [dedupFirst]
  | y :: ys => by
    rw [dedupFirst, List.nodup_cons]
    exact ⟨by simp [List.mem_filter], (nodup_dedupFirst ys).filter _⟩

/-! ### vectors -/

theorem vadd_assoc (a b c : V) : vadd (vadd a b) c = vadd a (vadd b c) := by
  simp only [vadd, Prod.mk.injEq]; refine ⟨?_, ?_, ?_⟩ <;> ring

theorem vsmul_succ (n : Nat) (d : V) : vsmul ((n + 1 : Nat) : Int) d = vadd d (vsmul (n : Int) d) := by
  simp only [vsmul, vadd, Prod.mk.injEq]; push_cast; refine ⟨?_, ?_, ?_⟩ <;> ring

theorem vadd_vsmul_zero (p d : V) : vadd p (vsmul ((0 : Nat) : Int) d) = p := by
  simp [vadd, vsmul]

/-! ### the loops -/

theorem row_mem (q : V → Rat) (M : Rat) (d : V) : ∀ (fuel : Nat) (p x : V), x ∈ row q M d fuel p →
    ∃ n : Nat, x = vadd p (vsmul (n : Int) d)
  | 0, p, x, hx => by simp [row] at hx
  | fuel + 1, p, x, hx => by
    simp only [row, List.mem_cons] at hx
    rcases hx with rfl | hx
    · exact ⟨0, (vadd_vsmul_zero _ _).symm⟩
    · split at hx
      · obtain ⟨n, hn⟩ := row_mem q M d fuel _ x hx
        exact ⟨n + 1, by rw [hn, vsmul_succ, vadd_assoc]⟩
      · simp at hx

theorem plane_mem (q : V → Rat) (M : Rat) (d1 d2 : V) (F : Nat) : ∀ (fuel : Nat) (p : V) (r : List V) (x : V),
    r ∈ plane q M d1 d2 F fuel p → x ∈ r →
    ∃ n2 n1 : Nat, x = vadd (vadd p (vsmul (n2 : Int) d2)) (vsmul (n1 : Int) d1)
  | 0, p, r, x, hr, hx => by simp [plane] at hr
  | fuel + 1, p, r, x, hr, hx => by
    simp only [plane, List.mem_cons] at hr
    rcases hr with rfl | hr
    · obtain ⟨n1, h1⟩ := row_mem q M d1 F p x hx
      exact ⟨0, n1, by rw [vadd_vsmul_zero]; exact h1⟩
    · split at hr
      · obtain ⟨n2, n1, h⟩ := plane_mem q M d1 d2 F fuel _ r x hr hx
        exact ⟨n2 + 1, n1, by rw [h, vsmul_succ, vadd_assoc p]⟩
      · simp at hr

theorem cone_mem (q : V → Rat) (M : Rat) (d1 d2 d3 : V) (F : Nat) : ∀ (fuel : Nat) (p : V) (pl : List (List V)) (r : List V) (x : V),
    pl ∈ cone q M d1 d2 d3 F fuel p → r ∈ pl → x ∈ r →
    ∃ n3 n2 n1 : Nat, x = vadd (vadd (vadd p (vsmul (n3 : Int) d3)) (vsmul (n2 : Int) d2)) (vsmul (n1 : Int) d1)
  | 0, p, pl, r, x, hp, hr, hx => by simp [cone] at hp
  | fuel + 1, p, pl, r, x, hp, hr, hx => by
    simp only [cone, List.mem_cons] at hp
    rcases hp with rfl | hp
    · obtain ⟨n2, n1, h⟩ := plane_mem q M d1 d2 F F p r x hr hx
      exact ⟨0, n2, n1, by rw [vadd_vsmul_zero]; exact h⟩
    · split at hp
      · obtain ⟨n3, n2, n1, h⟩ := cone_mem q M d1 d2 d3 F fuel _ pl r x hp hr hx
        exact ⟨n3 + 1, n2, n1, by rw [h, vsmul_succ, vadd_assoc p]⟩
      · simp at hp

theorem row_inside (q : V → Rat) (M : Rat) (d : V) : ∀ (fuel : Nat) (p x : V), x ∈ row q M d fuel p → x = p ∨ q x ≤ M
  | 0, p, x, hx => by simp [row] at hx
  | fuel + 1, p, x, hx => by
    simp only [row, List.mem_cons] at hx
    rcases hx with rfl | hx
    · exact Or.inl rfl
    · split at hx
      · rename_i hle
        rcases row_inside q M d fuel _ x hx with rfl | h
        · exact Or.inr hle
        · exact Or.inr h
      · simp at hx

theorem plane_inside (q : V → Rat) (M : Rat) (d1 d2 : V) (F : Nat) : ∀ (fuel : Nat) (p : V) (r : List V) (x : V),
    r ∈ plane q M d1 d2 F fuel p → x ∈ r → x = p ∨ q x ≤ M
  | 0, p, r, x, hr, hx => by simp [plane] at hr
  | fuel + 1, p, r, x, hr, hx => by
    simp only [plane, List.mem_cons] at hr
    rcases hr with rfl | hr
    · exact row_inside q M d1 F p x hx
    · split at hr
      · rename_i hle
        rcases plane_inside q M d1 d2 F fuel _ r x hr hx with rfl | h
        · exact Or.inr hle
        · exact Or.inr h
      · simp at hr

theorem cone_inside (q : V → Rat) (M : Rat) (d1 d2 d3 : V) (F : Nat) : ∀ (fuel : Nat) (p : V) (pl : List (List V)) (r : List V) (x : V),
    pl ∈ cone q M d1 d2 d3 F fuel p → r ∈ pl → x ∈ r → x = p ∨ q x ≤ M
  | 0, p, pl, r, x, hp, hr, hx => by simp [cone] at hp
  | fuel + 1, p, pl, r, x, hp, hr, hx => by
    simp only [cone, List.mem_cons] at hp
    rcases hp with rfl | hp
    · exact plane_inside q M d1 d2 F F p r x hr hx
    · split at hp
      · rename_i hle
        rcases cone_inside q M d1 d2 d3 F fuel _ pl r x hp hr hx with rfl | h
        · exact Or.inr hle
        · exact Or.inr h
      · simp at hp

/-! ### emission -/

/-- the test a visited point has to pass to become a row -/
def okB (q : V → Rat) (absent : V → Int) (lo hi : Rat) (p : V) : Bool :=
  absent p == 0 && (decide (lo < q p) && decide (q p ≤ hi))

theorem emitStep_spec (q : V → Rat) (absent : V → Int) (lo hi : Rat) (st : EmitState) (p : V) (h1 : 1 ≤ st.nref) :
    (emitStep q absent lo hi st p).acc = st.acc ++ (if okB q absent lo hi p then [(p, q p)] else []) ∧
      1 ≤ (emitStep q absent lo hi st p).nref := by
  have hne : (st.nref + 1 != 1) = true := by
    simp only [bne_iff_ne, ne_eq]; omega
  unfold emitStep okB
  simp only [hne, if_true]
  by_cases ha : (absent p == 0) = true
  · simp only [ha, if_true, Bool.true_and]
    by_cases hs : (decide (lo < q p) && decide (q p ≤ hi)) = true
    · simp only [hs, if_true]; exact ⟨trivial, by omega⟩
    · simp only [hs]; simp
  · simp only [ha]; simp; omega

theorem emit_fold (q : V → Rat) (absent : V → Int) (lo hi : Rat) : ∀ (vs : List V) (st : EmitState), 1 ≤ st.nref →
    (vs.foldl (emitStep q absent lo hi) st).acc = st.acc ++ (vs.filter (okB q absent lo hi)).map (fun p => (p, q p))
  | [], st, _ => by simp
  | p :: vs, st, h1 => by
    obtain ⟨ha, hn⟩ := emitStep_spec q absent lo hi st p h1
    rw [List.foldl_cons, emit_fold q absent lo hi vs _ hn, ha, List.filter_cons]
    by_cases hp : okB q absent lo hi p = true
    · simp [hp]
    · simp [hp]

end C05

open C05 Hkl

/-- C05 (extinction rule as coded): `sysabs_unique ≠ 0` iff one of the 26 slots fires; slot 3 (`H+K,H+L,K+L = XN`) is the
    only step that can reset an earlier firing (of slots 0–2). tools.py -/
theorem sysabs_cascade (h k l : Int) (sc : List Int) : Tools.sysabs_unique h k l sc ≠ 0 ↔ absentSpec h k l sc := by
  unfold Tools.sysabs_unique absentSpec
  simp only []
  simp only [guard_mod_ne, guard_mod_eq, guard_mod_eq2, guard_mod_eq3]
  simp (config := { decide := true }) only [ite_ne_zero_iff, ite_zero_ne_zero_iff]
  simp only [fires, reset3, Bool.and_eq_true, beq_iff_eq, bne_iff_ne, ne_eq, and_assoc, or_assoc, false_or]

/-- C05 (extinction rule as coded), laue.py -/
theorem sysabs_cascade_laue (h k l : Int) (sc : List Int) : Laue.sysabs_unique h k l sc ≠ 0 ↔ absentSpec h k l sc :=
  sysabs_cascade h k l sc

/-- C05: `sysabs` (the function `genhkl_base` filters with) vanishes iff `sysabs_unique` vanishes on `hkl` and on the
    two further index triples of its branch: cyclic permutations `klh`, `lhk` for the rhombohedral setting and for cubic
    groups, `(-(h+k), h, l)`, `(k, -(h+k), l)` for trigonal / hexagonal groups in hexagonal axes, none otherwise. tools.py -/
theorem sysabs_zero_iff (h k l : Int) (sc : List Int) (cs cc : String) :
    Tools.sysabs h k l sc cs cc = 0 ↔
      Tools.sysabs_unique h k l sc = 0 ∧
      ((cc = "rhombohedral" ∨ cs = "cubic") → Tools.sysabs_unique k l h sc = 0 ∧ Tools.sysabs_unique l h k sc = 0) ∧
      ((cc ≠ "rhombohedral" ∧ cs ≠ "cubic" ∧ (cs = "trigonal" ∨ cs = "hexagonal")) →
        Tools.sysabs_unique (-(h + k)) h l sc = 0 ∧ Tools.sysabs_unique k (-(h + k)) l sc = 0) := by
  unfold Tools.sysabs
  simp only []
  generalize -(h + k) = m
  by_cases h1 : cc = "rhombohedral" <;> by_cases h2 : cs = "cubic" <;> by_cases h3 : cs = "trigonal" <;>
    by_cases h4 : cs = "hexagonal" <;>
    by_cases u0 : Tools.sysabs_unique h k l sc = 0 <;> by_cases u1 : Tools.sysabs_unique k l h sc = 0 <;>
    by_cases u2 : Tools.sysabs_unique m h l sc = 0 <;>
    simp [h1, h2, h3, h4, u0, u1, u2]

/-- C05: same for laue.py -/
theorem sysabs_zero_iff_laue (h k l : Int) (sc : List Int) (cs cc : String) :
    Laue.sysabs h k l sc cs cc = 0 ↔
      Laue.sysabs_unique h k l sc = 0 ∧
      ((cc = "rhombohedral" ∨ cs = "cubic") → Laue.sysabs_unique k l h sc = 0 ∧ Laue.sysabs_unique l h k sc = 0) ∧
      ((cc ≠ "rhombohedral" ∧ cs ≠ "cubic" ∧ (cs = "trigonal" ∨ cs = "hexagonal")) →
        Laue.sysabs_unique (-(h + k)) h l sc = 0 ∧ Laue.sysabs_unique k (-(h + k)) l sc = 0) :=
  sysabs_zero_iff h k l sc cs cc

/-- C05 (`nref` bookkeeping of `genhkl_base`): the counter only ever suppresses the very first visited point (`000`, the
    start of the first segment); every other visited point becomes a row iff `sysabs = 0` and it lies in the shell. -/
theorem emit_eq (q : V → Rat) (absent : V → Int) (lo hi : Rat) (vs : List V) :
    emit q absent lo hi vs = (vs.tail.filter (okB q absent lo hi)).map (fun p => (p, q p)) := by
  cases vs with
  | nil => simp [emit]
  | cons p vs =>
    have h0 : emitStep q absent lo hi { nref := 0, acc := [] } p = { nref := 1, acc := [] } := by
      simp [emitStep]
    simp only [emit, List.foldl_cons, h0, List.tail_cons]
    rw [emit_fold q absent lo hi vs _ (by simp)]
    simp

/-- C05 (T5.3, soundness half): every point visited by the three nested loops of a segment lies in the cone of that segment:
    `h = s + n₃·d₃ + n₂·d₂ + n₁·d₁` with natural numbers `nᵢ`. -/
theorem traverse_sound (q : V → Rat) (M : Rat) (F : Nat) (sg : Segment) (x : V) (hx : x ∈ visitSeg q M F sg) :
    ∃ n3 n2 n1 : Nat, x = vadd (vadd (vadd sg.s (vsmul (n3 : Int) sg.d3)) (vsmul (n2 : Int) sg.d2)) (vsmul (n1 : Int) sg.d1) := by
  simp only [visitSeg, segCone, List.mem_flatten] at hx
  obtain ⟨r, ⟨pl, hpl, hr⟩, hxr⟩ := hx
  exact cone_mem q M sg.d1 sg.d2 sg.d3 F F sg.s pl r x hpl hr hxr

/-- C05 (T5.3, soundness half): every visited point other than the start of its segment passed a stop test
    `Q ≤ (2·scale·sintlmax)²` (the start is visited unconditionally). -/
theorem visited_start_or_inside (q : V → Rat) (M : Rat) (F : Nat) (sg : Segment) (x : V) (hx : x ∈ visitSeg q M F sg) :
    x = sg.s ∨ q x ≤ M := by
  simp only [visitSeg, segCone, List.mem_flatten] at hx
  obtain ⟨r, ⟨pl, hpl, hr⟩, hxr⟩ := hx
  exact cone_inside q M sg.d1 sg.d2 sg.d3 F F sg.s pl r x hpl hr hxr

/-- C05 (T5.2): the expansion step of `genhkl_all` returns no row twice -/
theorem expand_nodup (R : List Rot) (h : V) : (expand R h).Nodup := nodup_dedupFirst _

/-- C05 (T5.2): the expansion step returns exactly the members of the orbit list `{h·R | R ∈ Rots}` -/
theorem expand_eq_orbit (R : List Rot) (h x : V) : x ∈ expand R h ↔ ∃ r ∈ R, x = rmul h r := by
  simp only [expand, mem_dedupFirst, List.mem_map]
  constructor
  · rintro ⟨r, hr, rfl⟩; exact ⟨r, hr, rfl⟩
  · rintro ⟨r, hr, rfl⟩; exact ⟨r, hr, rfl⟩

/-- C05 (T5.2): each orbit member is returned exactly once -/
theorem expand_count (R : List Rot) (h : V) (r : Rot) (hr : r ∈ R) : (expand R h).count (rmul h r) = 1 :=
  List.count_eq_one_of_mem (expand_nodup R h) ((expand_eq_orbit R h _).2 ⟨r, hr, rfl⟩)

/-- C05 (T5.2 for `Rots`): the list of rotations used by `genhkl_all` has no repetitions -/
theorem rots_nodup (t : SgTable) : (rots t).Nodup := nodup_dedupFirst _

/-- C05 (T5.2 for `Rots`): `Rots` consists exactly of the first `nuniq` rotations of the table and their negatives -/
theorem mem_rots (t : SgTable) (r : Rot) :
    r ∈ rots t ↔ ∃ o ∈ t.ops.take t.nuniq, r = rotOf o ∨ r = rotNeg (rotOf o) := by
  simp only [rots, mem_dedupFirst, List.mem_append, List.mem_map]
  constructor
  · rintro (⟨o, ho, rfl⟩ | ⟨_, ⟨o, ho, rfl⟩, rfl⟩)
    · exact ⟨o, ho, Or.inl rfl⟩
    · exact ⟨o, ho, Or.inr rfl⟩
  · rintro ⟨o, ho, rfl | rfl⟩
    · exact Or.inl ⟨o, ho, rfl⟩
    · exact Or.inr ⟨_, ⟨o, ho, rfl⟩, rfl⟩

/-- C05: the rows of `genhkl_base` (before sorting) are exactly the visited points other than the very first one that
    `sysabs` allows and that lie in the shell `4·min² < Q ≤ 4·max²`, each with its own `Q`. -/
theorem base_rows_spec (x : Input) (segs : List Segment) (r : V × Rat) :
    r ∈ baseRows x segs ↔
      r.1 ∈ (visited x segs).tail ∧ x.absent r.1 = 0 ∧ 4 * x.min2 < x.G.q r.1 ∧ x.G.q r.1 ≤ 4 * x.max2 ∧ r.2 = x.G.q r.1 := by
  simp only [baseRows, emit_eq, List.mem_map, List.mem_filter, okB, Bool.and_eq_true, beq_iff_eq, decide_eq_true_eq]
  constructor
  · rintro ⟨p, ⟨hp, h0, hlo, hhi⟩, rfl⟩
    exact ⟨hp, h0, hlo, hhi, rfl⟩
  · rintro ⟨hp, h0, hlo, hhi, h2⟩
    exact ⟨r.1, ⟨hp, h0, hlo, hhi⟩, by rw [← h2]⟩

/-- C05: every row of `genhkl_all` is `h·R` for a row `h` of `genhkl_unique` and some `R ∈ Rots`, with the same `stl` -/
theorem all_rows_from_unique (x : Input) (segs : List Segment) (r : V × Rat) (hr : r ∈ genhklAll x segs) :
    ∃ u ∈ genhklUnique x segs, ∃ R ∈ rots x.tbl, r.1 = rmul u.1 R ∧ r.2 = u.2 := by
  simp only [genhklAll, List.mem_flatMap, List.mem_map] at hr
  obtain ⟨u, hu, h, hh, rfl⟩ := hr
  obtain ⟨R, hR, rfl⟩ := (expand_eq_orbit _ _ _).1 hh
  exact ⟨u, hu, R, hR, rfl, rfl⟩

/-- C05: `genhkl_all` is exactly the union of the `Rots`-orbits of the rows of `genhkl_unique` (with their `stl`) -/
theorem all_eq_union (x : Input) (segs : List Segment) (r : V × Rat) :
    r ∈ genhklAll x segs ↔ ∃ u ∈ genhklUnique x segs, ∃ R ∈ rots x.tbl, r = (rmul u.1 R, u.2) := by
  simp only [genhklAll, List.mem_flatMap, List.mem_map]
  constructor
  · rintro ⟨u, hu, h, hh, rfl⟩
    obtain ⟨R, hR, rfl⟩ := (expand_eq_orbit _ _ _).1 hh
    exact ⟨u, hu, R, hR, rfl⟩
  · rintro ⟨u, hu, R, hR, rfl⟩
    exact ⟨u, hu, rmul u.1 R, (expand_eq_orbit _ _ _).2 ⟨R, hR, rfl⟩, rfl⟩

/-- C05 ("none repeated"), partial: `genhkl_all` has no repeated row PROVIDED the rows of `genhkl_unique` have no
    repetitions and the `Rots`-orbits of two different rows never meet.  That hypothesis is the transversality of the
    segment cones (T5.4) together with `traverse_exact` (T5.3), which are not proved here; what is proved is that the
    expansion itself introduces no repetition. -/
theorem all_nodup_of_disjoint_partial (x : Input) (segs : List Segment)
    (hU : ((genhklUnique x segs).map (·.1)).Nodup)
    (hdisj : ∀ u ∈ genhklUnique x segs, ∀ v ∈ genhklUnique x segs, ∀ R ∈ rots x.tbl, ∀ S ∈ rots x.tbl,
      rmul u.1 R = rmul v.1 S → u.1 = v.1) :
    ((genhklAll x segs).map (·.1)).Nodup := by
  have key : ∀ (L : List (V × Rat)), (L.map (·.1)).Nodup →
      (∀ u ∈ L, ∀ v ∈ L, ∀ R ∈ rots x.tbl, ∀ S ∈ rots x.tbl, rmul u.1 R = rmul v.1 S → u.1 = v.1) →
      ((L.flatMap fun r => (expand (rots x.tbl) r.1).map fun h => (h, r.2)).map (·.1)).Nodup := by
    intro L
    induction L with
    | nil => intro _ _; simp
    | cons a L ih =>
      intro hn hd
      rw [List.map_cons, List.nodup_cons] at hn
      rw [List.flatMap_cons, List.map_append, List.nodup_append]
      refine ⟨?_, ih hn.2 (fun u hu v hv => hd u (List.mem_cons_of_mem _ hu) v (List.mem_cons_of_mem _ hv)), ?_⟩
      · rw [List.map_map]
        have : ((fun (p : V × Rat) => p.1) ∘ fun h => (h, a.2)) = id := by funext h; rfl
        rw [this, List.map_id]
        exact expand_nodup _ _
      · intro y hy z hz hyz
        subst hyz
        simp only [List.mem_map, List.mem_flatMap] at hy hz
        obtain ⟨⟨y1, y2⟩, ⟨h, hh, hrow⟩, rfl⟩ := hy
        obtain ⟨⟨z1, z2⟩, ⟨v, hv, h', hh', hrow'⟩, hz1⟩ := hz
        simp only [Prod.mk.injEq] at hrow hrow'
        obtain ⟨R, hR, rfl⟩ := (expand_eq_orbit _ _ _).1 hh
        obtain ⟨S, hS, rfl⟩ := (expand_eq_orbit _ _ _).1 hh'
        have e : rmul a.1 R = rmul v.1 S := by
          rw [hrow.1, hrow'.1]; exact hz1.symm
        have := hd a (List.mem_cons_self) v (List.mem_cons_of_mem _ hv) R hR S hS e
        exact hn.1 (by rw [this]; exact List.mem_map_of_mem hv)
  exact key _ hU hdisj

/-! ### the statements are not vacuous: kernel-evaluated instances of the model (Fm-3m, a = 4, shell (0, 0.5]) -/

namespace C05
def G0 : Form := { g11 := 1/16, g22 := 1/16, g33 := 1/16, g23 := 0, g13 := 0, g12 := 0 }
def x0 : Input := { cfg := toolsCfg, tbl := Sg.Tables.n225, G := G0, min2 := 0, max2 := 1/4, fuel := 50 }
def seg0 : Segment := ⟨(0, 0, 0), (1, 0, 0), (1, 1, 0), (1, 1, 1)⟩
end C05

example : visitSeg C05.G0.q (1/4) 10 C05.seg0 = [(0, 0, 0), (1, 0, 0), (2, 0, 0), (1, 1, 0), (1, 1, 1)] := by decide +kernel

example : (baseRows C05.x0 [C05.seg0]).map (·.1) = [(2, 0, 0), (4, 0, 0), (2, 2, 0), (1, 1, 1), (3, 1, 1), (2, 2, 2)] := by
  decide +kernel

example : (expand (rots Sg.Tables.n225) (1, 1, 1)).length = 8 := by decide +kernel

example : Tools.sysabs_unique 1 0 0 [2, 2, 2, 2, 0, 0, 0, 0, 0, 0, 0, 0, 0, 0, 0, 0, 0, 0, 0, 0, 0, 0, 0, 0, 0, 0] = 4 := by decide
