/-
C05 / C06 — the capstone theorems: `genhkl_all` returns EXACTLY the allowed reflections in the shell, `genhkl_unique`
EXACTLY one member of every Laue family of them.

About the hand model `Model/Hkl.lean` of `genhkl_base` / `genhkl_unique` / `genhkl_all` (tied to the code by the
correspondence runs of `harness/props/c05.py`, `c06.py`), for every one of the 237 settings of `xfab/sglib.py`
(`Sg.allTables`) and both modules (`toolsCfg`, `laueCfg`).  Ingredients (all machine-checked):

* T5.1 (`T51.all_ok`, `base_rows_iff_operators`): on the traversed cones `sysabs = 0` ⇔ no operator of the group
  extinguishes `hkl`;
* T5.2 (`all_eq_union`, `expand_eq_orbit`): `genhkl_all` = union of the `Rots`-orbits of the rows of `genhkl_unique`;
* T5.3 (`Lemmas/T53.lean`, `T53.traverse_exact`, `T53.visited_complete`): the loops visit exactly the cone points whose
  path stays inside the scaled shell;
* T5.4 (`cones_transversal_all`): the cones are a transversal of the Laue orbits;
* `Lemmas/ExtInv.lean`: extinction is invariant under the Laue group (`Sg.TableFacts.group` from C04);
* `emit_eq`: the `nref` counter skips exactly the first visited point, which is `000` (`C05Final.rules_start_at_origin`).

Hypotheses of the exactness theorems, all on the INPUT:
* `hQ`  : the form is invariant under the rotations of the table (a cell conforming to the crystal system);
* `hmin`: `0 ≤ sintlmin²`;
* `hf`  : the fuel of the model sufficed (the real loops are `while` loops without fuel);
* `hpc` : `T53.PathClosed` — every cone point inside the shell has its traversal path inside the scaled shell.
  It is NOT a theorem (finding D2: `genhkl_all_incomplete_example` below is a kernel-checked counterexample, an oblique
  triclinic cell in P-1 for which `genhkl_all` misses the allowed reflection `110`); it is proved for the orthogonal and
  hexagonal families in `T53.pathClosed_nonneg`, `T53.pathClosed_hex`.
`hQ` holds for every conforming cell (`ConformQ.hQ_conforming`, used in `genhkl_all_exact_conforming`); `hf` holds for
every sufficiently large fuel when the form is positive definite (`T53.fuelOk_eventually`, used in
`genhkl_all_exact_terminating`); for the orthogonal / hexagonal families nothing but hypotheses on the cell remains
(`genhkl_all_exact_orthohex`, `genhkl_all_exact_hex`, `genhkl_unique_exact_orthohex`).
The soundness half `genhkl_all_sound` ("none extra") needs neither `hf` nor `hpc`; "none repeated" is
`genhkl_all_nodup_all` (`Proofs/C06T54.lean`), unconditional.
-/
import XfabVerif.Lemmas.T53
import XfabVerif.Lemmas.T53Term
import XfabVerif.Lemmas.ConformQ
import XfabVerif.Lemmas.ExtInv
import XfabVerif.Proofs.C04
import XfabVerif.Proofs.C05T51
import XfabVerif.Proofs.C06T54

set_option linter.unusedVariables false
set_option linter.style.longLine false
set_option linter.unusedSimpArgs false

open Hkl C05

namespace C05Final

/-! ### the skipped first point is `000` -/

/-- every rule has at least one segment and its first segment starts at `000` -/
def startsAtOriginB (rules : List SegRule) : Bool :=
  rules.all fun r => match r.segs with
    | sg :: _ => sg.s == (0, 0, 0)
    | [] => false

/-- kernel-decided on the generated rules: the first segment of each of the 14 rules starts at `000` -/
theorem rules_start_at_origin : startsAtOriginB Tools.segmRules = true := by decide

theorem segs_head (L C : String) (segs : List Segment) (hs : segmentsFor Tools.segmRules L C = some segs) :
    ∃ sg rest, segs = sg :: rest ∧ sg.s = (0, 0, 0) := by
  obtain ⟨r, hr, rfl⟩ := T54.segmentsFor_mem _ _ _ _ hs
  have h := rules_start_at_origin
  simp only [startsAtOriginB, List.all_eq_true] at h
  have hr' := h r hr
  cases hrs : r.segs with
  | nil => rw [hrs] at hr'; cases hr'
  | cons sg rest =>
    rw [hrs] at hr'
    exact ⟨sg, rest, rfl, by simpa using hr'⟩

theorem q_zero (G : Form) : G.q (0, 0, 0) = 0 := by simp [Form.q]

/-- the segments of either module are looked up in the generated `Tools.segmRules` -/
theorem segs_tools (x : Input) (segs : List Segment) (hcfg : x.cfg = toolsCfg ∨ x.cfg = laueCfg)
    (hs : x.segments = some segs) : segmentsFor Tools.segmRules x.tbl.laue x.tbl.cellChoice = some segs := by
  rcases hcfg with h | h <;> simpa [Input.segments, h, toolsCfg, laueCfg] using hs

theorem rules_tools (x : Input) (hcfg : x.cfg = toolsCfg ∨ x.cfg = laueCfg) : x.cfg.rules = Tools.segmRules := by
  rcases hcfg with h | h <;> simp [h, toolsCfg, laueCfg]

/-- every visited point other than `000` lies in the tail of the visited list (is not skipped by the `nref` counter) -/
theorem mem_tail_of_ne_zero (x : Input) (segs : List Segment) (hcfg : x.cfg = toolsCfg ∨ x.cfg = laueCfg)
    (hs : x.segments = some segs) (hf : fuelOk x segs = true) (g : V) (hg : g ∈ visited x segs) (hne : g ≠ (0, 0, 0)) :
    g ∈ (visited x segs).tail := by
  obtain ⟨sg, rest, rfl, h0⟩ := segs_head _ _ segs (segs_tools x segs hcfg hs)
  obtain ⟨tl, e⟩ := T53.visited_head x sg rest hf
  rw [e] at hg ⊢
  rw [h0] at hg
  rcases List.mem_cons.1 hg with h | h
  · exact absurd h hne
  · exact h

/-! ### deciding membership in `genhkl_all` without evaluating the sort (`List.mergeSort` does not reduce in the kernel) -/

theorem row_of_check (x : Input) (segs : List Segment) (h : V)
    (hc : (baseRows x segs).any (fun u => (rots x.tbl).any fun R => rmul u.1 R == h) = true) :
    ∃ r ∈ genhklAll x segs, r.1 = h := by
  simp only [List.any_eq_true, beq_iff_eq] at hc
  obtain ⟨u, hu, R, hR, e⟩ := hc
  exact ⟨(rmul u.1 R, u.2), (all_eq_union x segs _).2 ⟨u, (C06.mem_unique x segs u).2 hu, R, hR, rfl⟩, e⟩

theorem not_row_of_check (x : Input) (segs : List Segment) (h : V)
    (hc : (baseRows x segs).all (fun u => (rots x.tbl).all fun R => rmul u.1 R != h) = true) :
    ¬ ∃ r ∈ genhklAll x segs, r.1 = h := by
  simp only [List.all_eq_true, bne_iff_ne, ne_eq] at hc
  rintro ⟨r, hr, e⟩
  obtain ⟨u, hu, R, hR, e1, _⟩ := all_rows_from_unique x segs r hr
  exact hc u ((C06.mem_unique x segs u).1 hu) R hR (by rw [← e1]; exact e)

end C05Final

open C05Final

/-- C05 ("none extra"), unconditional in fuel and path: for every table of `sglib.py`, both modules, every form that the
    rotations of the table leave invariant and `sintlmin² ≥ 0`: every row of `genhkl_all` is a non-zero `hkl` inside the
    shell `4·min² < Q ≤ 4·max²` that NO OPERATOR of the space group extinguishes. -/
theorem genhkl_all_sound (kt : String × SgTable) (hkt : kt ∈ Sg.allTables) (x : Input) (segs : List Segment)
    (ht : x.tbl = kt.2) (hcfg : x.cfg = toolsCfg ∨ x.cfg = laueCfg) (hs : x.segments = some segs)
    (hQ : ∀ R ∈ rots x.tbl, ∀ h : V, x.G.q (rmul h R) = x.G.q h) (hmin : 0 ≤ x.min2)
    (h : V) (hex : ∃ r ∈ genhklAll x segs, r.1 = h) :
    h ≠ (0, 0, 0) ∧ 4 * x.min2 < x.G.q h ∧ x.G.q h ≤ 4 * x.max2 ∧ ¬ Sg.Extinct (Sg.opsOf x.tbl) h.1 h.2.1 h.2.2 := by
  obtain ⟨r, hr, rfl⟩ := hex
  obtain ⟨u, hu, R, hR, e1, _⟩ := all_rows_from_unique x segs r hr
  obtain ⟨_, hne, hlo, hhi, _⟩ := (base_rows_iff_operators x segs kt hkt ht hcfg hs u).1 ((C06.mem_unique x segs u).1 hu)
  have hG : Sg.IsGroupModLattice (Sg.opsOf x.tbl) := by rw [ht]; exact (all_tables_facts kt hkt).group
  rw [e1]
  have hq := hQ R hR u.1
  refine ⟨fun h0 => ?_, by rw [hq]; exact hlo, by rw [hq]; exact hhi, fun he => hne ((ExtInv.extinct_rots_iff x.tbl hG R hR u.1).1 he)⟩
  rw [h0, q_zero] at hq
  rw [← hq] at hlo
  have : (0 : Rat) ≤ 4 * x.min2 := by linarith
  exact absurd hlo (not_lt.2 this)

/-- C05, the capstone ("none missing, none extra"): for every table of `sglib.py`, both modules, a form invariant under the
    rotations of the table, `sintlmin² ≥ 0`, sufficient fuel and `PathClosed`: an `hkl` is a row of `genhkl_all` IF AND ONLY
    IF it is non-zero, lies in the shell `4·min² < Q ≤ 4·max²` and no operator of the space group extinguishes it.
    ("None repeated" is `genhkl_all_nodup_all`.) -/
theorem genhkl_all_exact (kt : String × SgTable) (hkt : kt ∈ Sg.allTables) (x : Input) (segs : List Segment)
    (ht : x.tbl = kt.2) (hcfg : x.cfg = toolsCfg ∨ x.cfg = laueCfg) (hs : x.segments = some segs)
    (hf : fuelOk x segs = true)
    (hQ : ∀ R ∈ rots x.tbl, ∀ h : V, x.G.q (rmul h R) = x.G.q h) (hmin : 0 ≤ x.min2)
    (hpc : T53.PathClosed x.G.q x.M segs (4 * x.max2)) (h : V) :
    (∃ r ∈ genhklAll x segs, r.1 = h) ↔
      h ≠ (0, 0, 0) ∧ 4 * x.min2 < x.G.q h ∧ x.G.q h ≤ 4 * x.max2 ∧ ¬ Sg.Extinct (Sg.opsOf x.tbl) h.1 h.2.1 h.2.2 := by
  refine ⟨genhkl_all_sound kt hkt x segs ht hcfg hs hQ hmin h, ?_⟩
  rintro ⟨hne, hlo, hhi, hext⟩
  have hG : Sg.IsGroupModLattice (Sg.opsOf x.tbl) := by rw [ht]; exact (all_tables_facts kt hkt).group
  obtain ⟨hT, hgrp⟩ := cones_transversal_all kt hkt
  rw [← ht] at hT hgrp
  have htr := C06T54.transversal_of x segs (rules_tools x hcfg) hs hT
  -- the member of the orbit of `h` in the cones
  obtain ⟨R, hR, hc⟩ := htr.1 h
  have hq := hQ R hR h
  have hvis : rmul h R ∈ visited x segs := T53.visited_complete x segs hf hpc _ hc (by rw [hq]; exact hhi)
  have hg0 : rmul h R ≠ (0, 0, 0) := by
    intro h0
    rw [h0, q_zero] at hq
    rw [← hq] at hlo
    have : (0 : Rat) ≤ 4 * x.min2 := by linarith
    exact absurd hlo (not_lt.2 this)
  have htail := mem_tail_of_ne_zero x segs hcfg hs hf _ hvis hg0
  have hrow : (rmul h R, x.G.q (rmul h R)) ∈ genhklUnique x segs := by
    rw [C06.mem_unique, base_rows_iff_operators x segs kt hkt ht hcfg hs]
    exact ⟨htail, fun he => hext ((ExtInv.extinct_rots_iff x.tbl hG R hR h).1 he), by rw [hq]; exact hlo,
      by rw [hq]; exact hhi, rfl⟩
  -- back to `h` with the inverse rotation
  obtain ⟨Ri, hRi, eR, _⟩ := hgrp.2 R hR
  refine ⟨(h, x.G.q (rmul h R)), ?_, rfl⟩
  rw [all_eq_union]
  exact ⟨_, hrow, Ri, hRi, by rw [T54.inv_cancel eR]⟩

/-- C06, the capstone: under the hypotheses of `genhkl_all_exact`, `genhkl_unique` contains EXACTLY ONE member of every Laue
    family (orbit under `Rots = P ∪ −P`) of allowed reflections in the shell, and nothing else:
    (1) every row is a non-zero `hkl` in the shell that no operator extinguishes, with its own `Q` in the fourth column;
    (2) for every such `hkl` there is a row in its family, and any row in its family is that row;
    (3) no `hkl` occurs in two rows. -/
theorem genhkl_unique_exact (kt : String × SgTable) (hkt : kt ∈ Sg.allTables) (x : Input) (segs : List Segment)
    (ht : x.tbl = kt.2) (hcfg : x.cfg = toolsCfg ∨ x.cfg = laueCfg) (hs : x.segments = some segs)
    (hf : fuelOk x segs = true)
    (hQ : ∀ R ∈ rots x.tbl, ∀ h : V, x.G.q (rmul h R) = x.G.q h) (hmin : 0 ≤ x.min2)
    (hpc : T53.PathClosed x.G.q x.M segs (4 * x.max2)) :
    (∀ u ∈ genhklUnique x segs,
      u.1 ≠ (0, 0, 0) ∧ 4 * x.min2 < x.G.q u.1 ∧ x.G.q u.1 ≤ 4 * x.max2 ∧
        ¬ Sg.Extinct (Sg.opsOf x.tbl) u.1.1 u.1.2.1 u.1.2.2 ∧ u.2 = x.G.q u.1) ∧
    (∀ h : V, h ≠ (0, 0, 0) → 4 * x.min2 < x.G.q h → x.G.q h ≤ 4 * x.max2 →
      ¬ Sg.Extinct (Sg.opsOf x.tbl) h.1 h.2.1 h.2.2 →
      ∃ u ∈ genhklUnique x segs, (∃ R ∈ rots x.tbl, u.1 = rmul h R) ∧
        ∀ v ∈ genhklUnique x segs, (∃ S ∈ rots x.tbl, v.1 = rmul h S) → v = u) ∧
    ((genhklUnique x segs).map (·.1)).Nodup := by
  have hG : Sg.IsGroupModLattice (Sg.opsOf x.tbl) := by rw [ht]; exact (all_tables_facts kt hkt).group
  obtain ⟨hT, hgrp⟩ := cones_transversal_all kt hkt
  rw [← ht] at hT hgrp
  have hrules := rules_tools x hcfg
  have htr := C06T54.transversal_of x segs hrules hs hT
  refine ⟨fun u hu => ?_, fun h hne hlo hhi hext => ?_, genhkl_unique_nodup x segs hrules hs hT⟩
  · obtain ⟨_, hne, hlo, hhi, h2⟩ :=
      (base_rows_iff_operators x segs kt hkt ht hcfg hs u).1 ((C06.mem_unique x segs u).1 hu)
    refine ⟨fun h0 => ?_, hlo, hhi, hne, h2⟩
    rw [h0, q_zero] at hlo
    have : (0 : Rat) ≤ 4 * x.min2 := by linarith
    exact absurd hlo (not_lt.2 this)
  · obtain ⟨R, hR, hc⟩ := htr.1 h
    have hq := hQ R hR h
    have hvis : rmul h R ∈ visited x segs := T53.visited_complete x segs hf hpc _ hc (by rw [hq]; exact hhi)
    have hg0 : rmul h R ≠ (0, 0, 0) := by
      intro h0
      rw [h0, q_zero] at hq
      rw [← hq] at hlo
      have : (0 : Rat) ≤ 4 * x.min2 := by linarith
      exact absurd hlo (not_lt.2 this)
    have htail := mem_tail_of_ne_zero x segs hcfg hs hf _ hvis hg0
    have hrow : (rmul h R, x.G.q (rmul h R)) ∈ genhklUnique x segs := by
      rw [C06.mem_unique, base_rows_iff_operators x segs kt hkt ht hcfg hs]
      exact ⟨htail, fun he => hext ((ExtInv.extinct_rots_iff x.tbl hG R hR h).1 he), by rw [hq]; exact hlo,
        by rw [hq]; exact hhi, rfl⟩
    refine ⟨_, hrow, ⟨R, hR, rfl⟩, ?_⟩
    rintro v hv ⟨S, hS, eS⟩
    have hvc := C06T54.inCones_of_row x segs v hv
    rw [eS] at hvc
    have e1 : rmul h S = rmul h R := htr.2.1 h S hS R hR hvc hc
    have e2 : v.2 = x.G.q (rmul h R) := by rw [stl_column x segs v hv, eS, e1]
    exact Prod.ext (by rw [eS, e1]) e2

/-- C05, the capstone with `hQ` discharged: the same statement for every CONFORMING cell — the reciprocal form is any member
    of the linear family of the table's crystal system / setting (`ConformQ.recipBasis`, any coefficients `cs`). -/
theorem genhkl_all_exact_conforming (kt : String × SgTable) (hkt : kt ∈ Sg.allTables) (x : Input) (segs : List Segment)
    (ht : x.tbl = kt.2) (hcfg : x.cfg = toolsCfg ∨ x.cfg = laueCfg) (hs : x.segments = some segs)
    (hf : fuelOk x segs = true) (cs : List Rat)
    (hG : x.G = ConformQ.lincomb cs (ConformQ.recipBasis x.tbl.crystalSystem x.tbl.cellChoice)) (hmin : 0 ≤ x.min2)
    (hpc : T53.PathClosed x.G.q x.M segs (4 * x.max2)) (h : V) :
    (∃ r ∈ genhklAll x segs, r.1 = h) ↔
      h ≠ (0, 0, 0) ∧ 4 * x.min2 < x.G.q h ∧ x.G.q h ≤ 4 * x.max2 ∧ ¬ Sg.Extinct (Sg.opsOf x.tbl) h.1 h.2.1 h.2.2 := by
  refine genhkl_all_exact kt hkt x segs ht hcfg hs hf ?_ hmin hpc h
  rw [hG, ht]
  exact ConformQ.hQ_conforming kt hkt cs

/-- C05, the capstone without the fuel of the model: for a POSITIVE DEFINITE form the loops terminate, i.e. there is a fuel `F₀`
    such that for EVERY fuel `F ≥ F₀` the rows of `genhkl_all` are exactly the allowed reflections in the shell. -/
theorem genhkl_all_exact_terminating (kt : String × SgTable) (hkt : kt ∈ Sg.allTables) (x : Input) (segs : List Segment)
    (ht : x.tbl = kt.2) (hcfg : x.cfg = toolsCfg ∨ x.cfg = laueCfg) (hs : x.segments = some segs)
    (hpd : x.G.posDef = true)
    (hQ : ∀ R ∈ rots x.tbl, ∀ h : V, x.G.q (rmul h R) = x.G.q h) (hmin : 0 ≤ x.min2)
    (hpc : T53.PathClosed x.G.q x.M segs (4 * x.max2)) :
    ∃ F0 : Nat, ∀ F, F0 ≤ F → ∀ h : V,
      (∃ r ∈ genhklAll { x with fuel := F } segs, r.1 = h) ↔
        h ≠ (0, 0, 0) ∧ 4 * x.min2 < x.G.q h ∧ x.G.q h ≤ 4 * x.max2 ∧ ¬ Sg.Extinct (Sg.opsOf x.tbl) h.1 h.2.1 h.2.2 := by
  obtain ⟨F0, h0⟩ := T53.fuelOk_eventually x segs hcfg hs hpd
  exact ⟨F0, fun F hF h => genhkl_all_exact kt hkt { x with fuel := F } segs ht hcfg hs (h0 F hF) hQ hmin hpc h⟩

/-- C05, the capstone for the ORTHOGONAL AND HEXAGONAL families, every hypothesis on the cell only: Laue class mmm, 4/mmm,
    4/m, 6/mmm, 6/m, -3m1, m-3m or m-3, a conforming positive definite reciprocal form with non-negative coefficients
    (orthogonal cells: `g23 = g13 = g12 = 0`; hexagonal cells: `g12 = g11/2`), `0 ≤ sintlmin²`, `0 ≤ sintlmax²`:
    for every sufficiently large fuel, `genhkl_all` returns exactly the allowed reflections in the shell. -/
theorem genhkl_all_exact_orthohex (kt : String × SgTable) (hkt : kt ∈ Sg.allTables) (x : Input) (segs : List Segment)
    (ht : x.tbl = kt.2) (hcfg : x.cfg = toolsCfg ∨ x.cfg = laueCfg) (hs : x.segments = some segs)
    (hL : x.tbl.laue ∈ T53.nonnegLaue) (cs : List Rat)
    (hG : x.G = ConformQ.lincomb cs (ConformQ.recipBasis x.tbl.crystalSystem x.tbl.cellChoice))
    (hnn : T53.NonNegForm x.G) (hpd : x.G.posDef = true) (hmin : 0 ≤ x.min2) (hmax : 0 ≤ x.max2) :
    ∃ F0 : Nat, ∀ F, F0 ≤ F → ∀ h : V,
      (∃ r ∈ genhklAll { x with fuel := F } segs, r.1 = h) ↔
        h ≠ (0, 0, 0) ∧ 4 * x.min2 < x.G.q h ∧ x.G.q h ≤ 4 * x.max2 ∧ ¬ Sg.Extinct (Sg.opsOf x.tbl) h.1 h.2.1 h.2.2 := by
  refine genhkl_all_exact_terminating kt hkt x segs ht hcfg hs hpd ?_ hmin (T53.pathClosed_nonneg x segs hcfg hs hL hnn hmax)
  rw [hG, ht]
  exact ConformQ.hQ_conforming kt hkt cs

namespace C05Final

theorem recipBasis_hex (cs cc : String) (hcs : cs = "trigonal" ∨ cs = "hexagonal") (hcc : cc ≠ "rhombohedral") :
    ConformQ.recipBasis cs cc = [⟨1, 1, 0, 0, 0, 1 / 2⟩, ⟨0, 0, 1, 0, 0, 0⟩] := by
  rcases hcs with rfl | rfl <;> simp +decide [ConformQ.recipBasis, hcc]

theorem hexForm_lincomb (a c : Rat) :
    T53.hexForm a c = ConformQ.lincomb [a, c] [⟨1, 1, 0, 0, 0, 1 / 2⟩, ⟨0, 0, 1, 0, 0, 0⟩] := by
  simp only [T53.hexForm, ConformQ.lincomb, T53.comb, Form.mk.injEq]
  refine ⟨?_, ?_, ?_, ?_, ?_, ?_⟩ <;> ring

theorem hexForm_posDef (a c : Rat) (ha : 0 < a) (hc : 0 < c) : (T53.hexForm a c).posDef = true := by
  rw [T53.posDef_iff]
  simp only [T53.hexForm]
  refine ⟨ha, ?_, ?_⟩
  · nlinarith [mul_pos ha ha]
  · have h2 := mul_pos ha ha
    have h3 := mul_pos h2 hc
    nlinarith

/-- the crystal system of a table whose Laue class is traversed in hexagonal axes -/
theorem hex_system (kt : String × SgTable) (hkt : kt ∈ Sg.allTables) (hL : kt.2.laue ∈ T53.hexLaue) :
    kt.2.crystalSystem = "trigonal" ∨ kt.2.crystalSystem = "hexagonal" := by
  have h := (Sg.laueSystemOk_iff _ _).1 (all_tables_facts kt hkt).metaFacts.laue_system
  rcases h with ⟨_, e⟩ | ⟨_, e⟩ | ⟨_, e⟩ | ⟨_, e | e⟩ | ⟨h, _⟩ | ⟨h, _⟩ | ⟨_, e | e⟩
  · rw [e] at hL; exact absurd hL (by decide)
  · rw [e] at hL; exact absurd hL (by decide)
  · rw [e] at hL; exact absurd hL (by decide)
  · rw [e] at hL; exact absurd hL (by decide)
  · rw [e] at hL; exact absurd hL (by decide)
  · exact Or.inl h
  · exact Or.inr h
  · rw [e] at hL; exact absurd hL (by decide)
  · rw [e] at hL; exact absurd hL (by decide)

end C05Final

/-- C05, the capstone for HEXAGONAL AXES, all five rules (Laue class 6/mmm, 6/m, -3m1, -31m, -3 with
    `cell_choice ≠ rhombohedral`), every hypothesis on the cell only: reciprocal form `(a, a, c, 0, 0, a/2)` with `a = a*² > 0`,
    `c = c*² > 0`: for every sufficiently large fuel, `genhkl_all` returns exactly the allowed reflections in the shell. -/
theorem genhkl_all_exact_hex (kt : String × SgTable) (hkt : kt ∈ Sg.allTables) (x : Input) (segs : List Segment)
    (ht : x.tbl = kt.2) (hcfg : x.cfg = toolsCfg ∨ x.cfg = laueCfg) (hs : x.segments = some segs)
    (hL : x.tbl.laue ∈ T53.hexLaue) (hC : x.tbl.cellChoice ≠ "rhombohedral")
    (a c : Rat) (ha : 0 < a) (hc : 0 < c) (hG : x.G = T53.hexForm a c) (hmin : 0 ≤ x.min2) (hmax : 0 ≤ x.max2) :
    ∃ F0 : Nat, ∀ F, F0 ≤ F → ∀ h : V,
      (∃ r ∈ genhklAll { x with fuel := F } segs, r.1 = h) ↔
        h ≠ (0, 0, 0) ∧ 4 * x.min2 < x.G.q h ∧ x.G.q h ≤ 4 * x.max2 ∧ ¬ Sg.Extinct (Sg.opsOf x.tbl) h.1 h.2.1 h.2.2 := by
  refine genhkl_all_exact_terminating kt hkt x segs ht hcfg hs (by rw [hG]; exact hexForm_posDef a c ha hc) ?_ hmin
    (T53.pathClosed_hex x segs hcfg hs hL hC a c (le_of_lt ha) (le_of_lt hc) hG hmax)
  have hb := recipBasis_hex kt.2.crystalSystem kt.2.cellChoice (hex_system kt hkt (ht ▸ hL)) (ht ▸ hC)
  have := ConformQ.hQ_conforming kt hkt [a, c]
  rw [hb, ← hexForm_lincomb, ← hG, ← ht] at this
  exact this

/-- C06, the capstone for the orthogonal and hexagonal families, every hypothesis on the cell only (see
    `genhkl_all_exact_orthohex`): for every sufficiently large fuel `genhkl_unique` contains exactly one member of every Laue
    family of allowed reflections in the shell and nothing else. -/
theorem genhkl_unique_exact_orthohex (kt : String × SgTable) (hkt : kt ∈ Sg.allTables) (x : Input) (segs : List Segment)
    (ht : x.tbl = kt.2) (hcfg : x.cfg = toolsCfg ∨ x.cfg = laueCfg) (hs : x.segments = some segs)
    (hL : x.tbl.laue ∈ T53.nonnegLaue) (cs : List Rat)
    (hG : x.G = ConformQ.lincomb cs (ConformQ.recipBasis x.tbl.crystalSystem x.tbl.cellChoice))
    (hnn : T53.NonNegForm x.G) (hpd : x.G.posDef = true) (hmin : 0 ≤ x.min2) (hmax : 0 ≤ x.max2) :
    ∃ F0 : Nat, ∀ F, F0 ≤ F →
      (∀ u ∈ genhklUnique { x with fuel := F } segs,
        u.1 ≠ (0, 0, 0) ∧ 4 * x.min2 < x.G.q u.1 ∧ x.G.q u.1 ≤ 4 * x.max2 ∧
          ¬ Sg.Extinct (Sg.opsOf x.tbl) u.1.1 u.1.2.1 u.1.2.2 ∧ u.2 = x.G.q u.1) ∧
      (∀ h : V, h ≠ (0, 0, 0) → 4 * x.min2 < x.G.q h → x.G.q h ≤ 4 * x.max2 →
        ¬ Sg.Extinct (Sg.opsOf x.tbl) h.1 h.2.1 h.2.2 →
        ∃ u ∈ genhklUnique { x with fuel := F } segs, (∃ R ∈ rots x.tbl, u.1 = rmul h R) ∧
          ∀ v ∈ genhklUnique { x with fuel := F } segs, (∃ S ∈ rots x.tbl, v.1 = rmul h S) → v = u) ∧
      ((genhklUnique { x with fuel := F } segs).map (·.1)).Nodup := by
  obtain ⟨F0, h0⟩ := T53.fuelOk_eventually x segs hcfg hs hpd
  have hQ : ∀ R ∈ rots x.tbl, ∀ h : V, x.G.q (rmul h R) = x.G.q h := by
    rw [hG, ht]; exact ConformQ.hQ_conforming kt hkt cs
  exact ⟨F0, fun F hF => genhkl_unique_exact kt hkt { x with fuel := F } segs ht hcfg hs (h0 F hF) hQ hmin
    (T53.pathClosed_nonneg x segs hcfg hs hL hnn hmax)⟩

/-! ### the hypotheses are satisfiable: Fm-3m, a = 4, shell (0, 0.5] (the instance of `Proofs/C05.lean`) -/

namespace C05Final

theorem n225_mem : ("n225", Sg.Tables.n225) ∈ Sg.allTables :=
  List.mem_of_getElem? (i := 231) (by rfl)

/-- the cubic form is invariant under the 48 rotations of m-3m (coefficient check, kernel-decided) -/
theorem hQ_x0 : ∀ R ∈ rots C05.x0.tbl, ∀ h : V, C05.x0.G.q (rmul h R) = C05.x0.G.q h :=
  ConformQ.hQ_of_invB _ _ (by decide +kernel)

theorem fuel_x0 : fuelOk C05.x0 [C05.seg0] = true := by decide +kernel

/-- `PathClosed` for the cubic instance from the Gram lemma (`T53.pathClosed_nonneg`) -/
theorem pathClosed_x0 : T53.PathClosed C05.x0.G.q C05.x0.M [C05.seg0] (4 * C05.x0.max2) :=
  T53.pathClosed_nonneg C05.x0 [C05.seg0] (Or.inl rfl) rfl (by decide)
    (by simp only [T53.NonNegForm, C05.x0, C05.G0]; norm_num) (by simp only [C05.x0]; norm_num)

end C05Final

example (h : V) : (∃ r ∈ genhklAll C05.x0 [C05.seg0], r.1 = h) ↔
    h ≠ (0, 0, 0) ∧ 4 * C05.x0.min2 < C05.x0.G.q h ∧ C05.x0.G.q h ≤ 4 * C05.x0.max2 ∧
      ¬ Sg.Extinct (Sg.opsOf C05.x0.tbl) h.1 h.2.1 h.2.2 :=
  genhkl_all_exact _ n225_mem C05.x0 [C05.seg0] rfl (Or.inl rfl) rfl fuel_x0 hQ_x0 (by simp only [C05.x0]; norm_num)
    pathClosed_x0 h

example : ((genhklUnique C05.x0 [C05.seg0]).map (·.1)).Nodup :=
  (genhkl_unique_exact _ n225_mem C05.x0 [C05.seg0] rfl (Or.inl rfl) rfl fuel_x0 hQ_x0 (by simp only [C05.x0]; norm_num)
    pathClosed_x0).2.2

/-- the cubic instance satisfies the hypotheses of `genhkl_all_exact_orthohex` (`G0 = 1/16·(1,1,1,0,0,0)`) -/
example : ∃ F0 : Nat, ∀ F, F0 ≤ F → ∀ h : V,
    (∃ r ∈ genhklAll { C05.x0 with fuel := F } [C05.seg0], r.1 = h) ↔
      h ≠ (0, 0, 0) ∧ 4 * C05.x0.min2 < C05.x0.G.q h ∧ C05.x0.G.q h ≤ 4 * C05.x0.max2 ∧
        ¬ Sg.Extinct (Sg.opsOf C05.x0.tbl) h.1 h.2.1 h.2.2 :=
  genhkl_all_exact_orthohex _ n225_mem C05.x0 [C05.seg0] rfl (Or.inl rfl) rfl (by decide) [1 / 16]
    (by have hb : ConformQ.recipBasis C05.x0.tbl.crystalSystem C05.x0.tbl.cellChoice = [⟨1, 1, 1, 0, 0, 0⟩] := rfl
        rw [hb]
        simp only [C05.x0, C05.G0, ConformQ.lincomb, T53.comb, Form.mk.injEq]
        norm_num)
    (by simp only [T53.NonNegForm, C05.x0, C05.G0]; norm_num) (by decide +kernel) (by simp only [C05.x0]; norm_num)
    (by simp only [C05.x0]; norm_num)


/-- the instance is not trivial: `-1 1 -1` and `3 -1 1` are rows; `100` (extinguished by the F centring) is not -/
example : (∃ r ∈ genhklAll C05.x0 [C05.seg0], r.1 = (-1, 1, -1)) ∧ (∃ r ∈ genhklAll C05.x0 [C05.seg0], r.1 = (3, -1, 1)) ∧
    ¬ ∃ r ∈ genhklAll C05.x0 [C05.seg0], r.1 = (1, 0, 0) :=
  ⟨row_of_check _ _ _ (by decide +kernel), row_of_check _ _ _ (by decide +kernel), not_row_of_check _ _ _ (by decide +kernel)⟩

/-! ### `PathClosed` cannot be dropped: an oblique cell in P-1 (finding D2) -/

namespace C05Final

/-- P-1 with the oblique positive definite form `T53.Gobl` (`cos γ* = -9/10`), shell `0 < Q ≤ 1/2` -/
def xobl : Input := { cfg := toolsCfg, tbl := Sg.Tables.n2, G := T53.Gobl, min2 := 0, max2 := 1 / 8, fuel := 50 }

/-- the four segments of Laue class -1 -/
def segsTri : List Segment := [
  ⟨(0, 0, 0), (1, 0, 0), (0, 1, 0), (0, 0, 1)⟩, ⟨(-1, 0, 1), (-1, 0, 0), (0, 1, 0), (0, 0, 1)⟩,
  ⟨(-1, 1, 0), (-1, 0, 0), (0, 1, 0), (0, 0, -1)⟩, ⟨(0, 1, -1), (1, 0, 0), (0, 1, 0), (0, 0, -1)⟩]

theorem n2_mem : ("n2", Sg.Tables.n2) ∈ Sg.allTables :=
  List.mem_of_getElem? (i := 1) (by rfl)

end C05Final

/-- C05 / C06, finding D2, kernel-checked: every hypothesis of `genhkl_all_exact` other than `PathClosed` holds for P-1 with
    an oblique (positive definite) cell, `110` is non-zero, in the shell and extinguished by no operator — and `genhkl_all`
    does NOT contain it (nor its Friedel mate), although it does contain `1 1 -1` with the larger `Q = 2/5`: the
    traversal stops at `010` (`Q = 1 > 1/2`) and never reaches `110` (`Q = 1/5`).  So `PathClosed` is a genuine restriction, not an artefact of the proof. -/
theorem genhkl_all_incomplete_example :
    xobl.segments = some segsTri ∧ fuelOk xobl segsTri = true ∧ xobl.G.posDef = true ∧
    (∀ R ∈ rots xobl.tbl, ∀ h : V, xobl.G.q (rmul h R) = xobl.G.q h) ∧
    (4 * xobl.min2 < xobl.G.q (1, 1, 0) ∧ xobl.G.q (1, 1, 0) ≤ 4 * xobl.max2) ∧
    ¬ Sg.Extinct (Sg.opsOf xobl.tbl) 1 1 0 ∧
    (¬ ∃ r ∈ genhklAll xobl segsTri, r.1 = (1, 1, 0)) ∧ (¬ ∃ r ∈ genhklAll xobl segsTri, r.1 = (-1, -1, 0)) ∧
    (∃ r ∈ genhklAll xobl segsTri, r.1 = (1, 1, -1)) ∧
    ¬ T53.PathClosed xobl.G.q xobl.M segsTri (4 * xobl.max2) := by
  have hs : xobl.segments = some segsTri := rfl
  have hf : fuelOk xobl segsTri = true := by decide +kernel
  have hQ : ∀ R ∈ rots xobl.tbl, ∀ h : V, xobl.G.q (rmul h R) = xobl.G.q h := ConformQ.hQ_of_invB _ _ (by decide +kernel)
  have hshell : 4 * xobl.min2 < xobl.G.q (1, 1, 0) ∧ xobl.G.q (1, 1, 0) ≤ 4 * xobl.max2 := by
    constructor <;> decide +kernel
  have hext : ¬ Sg.Extinct (Sg.opsOf xobl.tbl) 1 1 0 := by
    refine (T51.all_ok _ n2_mem 1 1 0 segsTri rfl ⟨_, List.mem_cons_self, 1, 1, 0, by decide, by decide, by decide⟩).1 ?_
    decide
  have h1 : ¬ ∃ r ∈ genhklAll xobl segsTri, r.1 = (1, 1, 0) := not_row_of_check _ _ _ (by decide +kernel)
  refine ⟨hs, hf, by decide +kernel, hQ, hshell, hext, h1, not_row_of_check _ _ _ (by decide +kernel),
    row_of_check _ _ _ (by decide +kernel), fun hpc => h1 ?_⟩
  exact (genhkl_all_exact _ n2_mem xobl segsTri rfl (Or.inl rfl) hs hf hQ (by simp only [xobl]; norm_num) hpc (1, 1, 0)).2
    ⟨by decide, hshell.1, hshell.2, hext⟩

/-! ### the hypotheses of the hexagonal capstone are satisfiable: P6/mmm, `a*² = 1/9`, `c*² = 1/16`, shell (0, 0.5] -/

namespace C05Final

def xhex : Input :=
  { cfg := laueCfg, tbl := Sg.Tables.n191, G := T53.hexForm (1 / 9) (1 / 16), min2 := 0, max2 := 1 / 4, fuel := 0 }

theorem n191_mem : ("n191", Sg.Tables.n191) ∈ Sg.allTables :=
  List.mem_of_getElem? (i := 197) (by rfl)

end C05Final

example : ∃ F0 : Nat, ∀ F, F0 ≤ F → ∀ h : V,
    (∃ r ∈ genhklAll { xhex with fuel := F } [⟨(0, 0, 0), (1, 0, 0), (1, 1, 0), (0, 0, 1)⟩], r.1 = h) ↔
      h ≠ (0, 0, 0) ∧ 4 * xhex.min2 < xhex.G.q h ∧ xhex.G.q h ≤ 4 * xhex.max2 ∧
        ¬ Sg.Extinct (Sg.opsOf xhex.tbl) h.1 h.2.1 h.2.2 :=
  genhkl_all_exact_hex _ n191_mem xhex _ rfl (Or.inr rfl) rfl (by decide) (by decide) (1 / 9) (1 / 16) (by norm_num)
    (by norm_num) rfl (by simp only [xhex]; norm_num) (by simp only [xhex]; norm_num)
