/-
C05, last clause — "For R-centred groups the hexagonal and rhombohedral settings give the same reflections under the
standard obverse axis transformation."

Objects: the exported tables `Sg.Tables.n146 … n167` (hexagonal axes, R-centred, 3× the operations) and
`Sg.Tables.n146r … n167r` (rhombohedral axes) of the seven R groups 146, 148, 155, 160, 161, 166, 167 of `xfab/sglib.py`;
the extinction vocabulary `Sg.ExtinctBy` / `Sg.Extinct` of `Lemmas/T51.lean`; the quadratic form `Hkl.Form.q` of the
reflection-generator model.  Generic lemmas and the Boolean checker are in `Lemmas/HexRhomb.lean`.

Obverse transformation (found by checking the tables, certificate 1 below):

        ⎡  1  0  1 ⎤        a_h = a_r − b_r,  b_h = b_r − c_r,  c_h = a_r + b_r + c_r   (columns of M)
    M = ⎢ −1  1  1 ⎥        h_hex = h_rh · M = (h − k, k − l, h + k + l)                 (row vector times M)
        ⎣  0 −1  1 ⎦        M · R_hex = R_rh · M,     M · t_hex ≡ t_rh (mod ℤ³)          (operations x ↦ R x + t)

(`M` is `M_OBV` of `harness/props/c05.py`.)  `det M = 3`, `3 M⁻¹ = [[2,−1,−1],[1,1,−2],[1,1,1]]`.

Proved here, for each of the seven pairs:
1. `conj_ok_<n>`      kernel-decided certificate `HexRhomb.pairCheck n<N>r n<N> = true`; `ops_conjugate_<n>` its Prop reading
                      (every rhombohedral operation has an obverse conjugate in the hexagonal table modulo the R-centred
                      hexagonal lattice, and every hexagonal operation arises so).
2. `extinct_hex_iff_rh_<n>`   for ALL integers: `hkl` is extinguished in the rhombohedral setting iff `hkl·M` is in the
                      hexagonal setting.
3. `hex_not_obverse_extinct_<n>`  every hexagonal triple with `(−h+k+l) % 3 ≠ 0` is extinguished by the hexagonal table.
4. `metric_hex_rh`, `shell_hex_rh`  `Form.q (formToHex G) (hkl·M) = Form.q G hkl` with `formToHex G = M⁻¹ G M⁻ᵀ`.
5. `hex_rhomb_same_reflections`  allowed in-shell reflections correspond one-to-one under `hkl ↦ hkl·M`.
-/
import XfabVerif.Lemmas.HexRhomb
import XfabVerif.Gen.T51.All

set_option linter.unusedVariables false
set_option linter.style.longLine false

open Hkl HexRhomb

/-! ### 1. the certificates -/

/-- C05 hex/rhomb, certificate for R3 (146): operations conjugate by the obverse transformation both ways, centring present -/
theorem conj_ok_146 : pairCheck Sg.Tables.n146r Sg.Tables.n146 = true := by decide +kernel
/-- C05 hex/rhomb, certificate for R-3 (148) -/
theorem conj_ok_148 : pairCheck Sg.Tables.n148r Sg.Tables.n148 = true := by decide +kernel
/-- C05 hex/rhomb, certificate for R32 (155) -/
theorem conj_ok_155 : pairCheck Sg.Tables.n155r Sg.Tables.n155 = true := by decide +kernel
/-- C05 hex/rhomb, certificate for R3m (160) -/
theorem conj_ok_160 : pairCheck Sg.Tables.n160r Sg.Tables.n160 = true := by decide +kernel
/-- C05 hex/rhomb, certificate for R3c (161) -/
theorem conj_ok_161 : pairCheck Sg.Tables.n161r Sg.Tables.n161 = true := by decide +kernel
/-- C05 hex/rhomb, certificate for R-3m (166) -/
theorem conj_ok_166 : pairCheck Sg.Tables.n166r Sg.Tables.n166 = true := by decide +kernel
/-- C05 hex/rhomb, certificate for R-3c (167) -/
theorem conj_ok_167 : pairCheck Sg.Tables.n167r Sg.Tables.n167 = true := by decide +kernel

/-- the operation lists of a rhombohedral table `tr` and a hexagonal table `th` are conjugate by the obverse transformation
    modulo lattice translations:  for every `(R_r, t_r)` of `tr` there is `(R_h, t_h)` in `th` with `M·R_h = R_r·M`
    (`HexRhomb.RotConj`, nine integer equations) and `M·t_h − t_r ∈ 24·ℤ³` in 24ths (`HexRhomb.TransConj`; by
    `HexRhomb.transConj_iff` this says `t_h − M⁻¹ t_r ∈ ℤ³ + ℤ·(2/3,1/3,1/3)`, the R-centred hexagonal lattice), and
    conversely every operation of `th` arises this way. -/
def OpsConjugate (tr th : SgTable) : Prop :=
  (∀ a ∈ Sg.opsOf tr, ∃ b ∈ Sg.opsOf th, Conj a b) ∧ (∀ b ∈ Sg.opsOf th, ∃ a ∈ Sg.opsOf tr, Conj a b)

/-- C05 hex/rhomb clause 1 (R3): the operators are obverse conjugates of each other modulo the centred lattice -/
theorem ops_conjugate_146 : OpsConjugate Sg.Tables.n146r Sg.Tables.n146 := conj_of_check conj_ok_146
/-- C05 hex/rhomb clause 1 (R-3) -/
theorem ops_conjugate_148 : OpsConjugate Sg.Tables.n148r Sg.Tables.n148 := conj_of_check conj_ok_148
/-- C05 hex/rhomb clause 1 (R32) -/
theorem ops_conjugate_155 : OpsConjugate Sg.Tables.n155r Sg.Tables.n155 := conj_of_check conj_ok_155
/-- C05 hex/rhomb clause 1 (R3m) -/
theorem ops_conjugate_160 : OpsConjugate Sg.Tables.n160r Sg.Tables.n160 := conj_of_check conj_ok_160
/-- C05 hex/rhomb clause 1 (R3c) -/
theorem ops_conjugate_161 : OpsConjugate Sg.Tables.n161r Sg.Tables.n161 := conj_of_check conj_ok_161
/-- C05 hex/rhomb clause 1 (R-3m) -/
theorem ops_conjugate_166 : OpsConjugate Sg.Tables.n166r Sg.Tables.n166 := conj_of_check conj_ok_166
/-- C05 hex/rhomb clause 1 (R-3c) -/
theorem ops_conjugate_167 : OpsConjugate Sg.Tables.n167r Sg.Tables.n167 := conj_of_check conj_ok_167

/-- the translation clause of the certificate in explicit form (for any two operations): `M t_b ≡ t_a (mod ℤ³)` iff
    `t_b = M⁻¹ t_a + n + c·(2/3,1/3,1/3)` with integer `n`, `c` (scaled by `72 = 3·24`), i.e. equality modulo the hexagonal
    lattice INCLUDING its centring vectors `(2/3,1/3,1/3)`, `(1/3,2/3,2/3) ≡ 2·(2/3,1/3,1/3)`. -/
theorem trans_conj_explicit (a b : Sg.Op) :
    TransConj a b ↔ ∃ n1 n2 n3 c : Int,
      3 * b.t1 = (2 * a.t1 - a.t2 - a.t3) + 72 * n1 + c * 48 ∧
      3 * b.t2 = (a.t1 + a.t2 - 2 * a.t3) + 72 * n2 + c * 24 ∧
      3 * b.t3 = (a.t1 + a.t2 + a.t3) + 72 * n3 + c * 24 := transConj_iff a b

/-! ### 2. extinctions correspond, for all integers -/

/-- C05 hex/rhomb clause 2 (R3, 146): `hkl` extinct in rhombohedral axes ↔ `hkl·M` extinct in hexagonal axes, all integers -/
theorem extinct_hex_iff_rh_146 (h k l : Int) :
    Sg.Extinct (Sg.opsOf Sg.Tables.n146r) h k l ↔ Sg.Extinct (Sg.opsOf Sg.Tables.n146) (h - k) (k - l) (h + k + l) :=
  extinct_iff_of_check conj_ok_146 h k l
/-- C05 hex/rhomb clause 2 (R-3, 148) -/
theorem extinct_hex_iff_rh_148 (h k l : Int) :
    Sg.Extinct (Sg.opsOf Sg.Tables.n148r) h k l ↔ Sg.Extinct (Sg.opsOf Sg.Tables.n148) (h - k) (k - l) (h + k + l) :=
  extinct_iff_of_check conj_ok_148 h k l
/-- C05 hex/rhomb clause 2 (R32, 155) -/
theorem extinct_hex_iff_rh_155 (h k l : Int) :
    Sg.Extinct (Sg.opsOf Sg.Tables.n155r) h k l ↔ Sg.Extinct (Sg.opsOf Sg.Tables.n155) (h - k) (k - l) (h + k + l) :=
  extinct_iff_of_check conj_ok_155 h k l
/-- C05 hex/rhomb clause 2 (R3m, 160) -/
theorem extinct_hex_iff_rh_160 (h k l : Int) :
    Sg.Extinct (Sg.opsOf Sg.Tables.n160r) h k l ↔ Sg.Extinct (Sg.opsOf Sg.Tables.n160) (h - k) (k - l) (h + k + l) :=
  extinct_iff_of_check conj_ok_160 h k l
/-- C05 hex/rhomb clause 2 (R3c, 161) -/
theorem extinct_hex_iff_rh_161 (h k l : Int) :
    Sg.Extinct (Sg.opsOf Sg.Tables.n161r) h k l ↔ Sg.Extinct (Sg.opsOf Sg.Tables.n161) (h - k) (k - l) (h + k + l) :=
  extinct_iff_of_check conj_ok_161 h k l
/-- C05 hex/rhomb clause 2 (R-3m, 166) -/
theorem extinct_hex_iff_rh_166 (h k l : Int) :
    Sg.Extinct (Sg.opsOf Sg.Tables.n166r) h k l ↔ Sg.Extinct (Sg.opsOf Sg.Tables.n166) (h - k) (k - l) (h + k + l) :=
  extinct_iff_of_check conj_ok_166 h k l
/-- C05 hex/rhomb clause 2 (R-3c, 167) -/
theorem extinct_hex_iff_rh_167 (h k l : Int) :
    Sg.Extinct (Sg.opsOf Sg.Tables.n167r) h k l ↔ Sg.Extinct (Sg.opsOf Sg.Tables.n167) (h - k) (k - l) (h + k + l) :=
  extinct_iff_of_check conj_ok_167 h k l

/-! ### 3. the hexagonal tables extinguish every non-obverse triple -/

/-- C05 hex/rhomb clause 3 (R3, 146): a hexagonal triple with `−h+k+l ≢ 0 (mod 3)` is extinguished by the hexagonal table -/
theorem hex_not_obverse_extinct_146 (h k l : Int) (hn : (-h + k + l) % 3 ≠ 0) : Sg.Extinct (Sg.opsOf Sg.Tables.n146) h k l :=
  extinct_of_not_obverse conj_ok_146 h k l hn
/-- C05 hex/rhomb clause 3 (R-3, 148) -/
theorem hex_not_obverse_extinct_148 (h k l : Int) (hn : (-h + k + l) % 3 ≠ 0) : Sg.Extinct (Sg.opsOf Sg.Tables.n148) h k l :=
  extinct_of_not_obverse conj_ok_148 h k l hn
/-- C05 hex/rhomb clause 3 (R32, 155) -/
theorem hex_not_obverse_extinct_155 (h k l : Int) (hn : (-h + k + l) % 3 ≠ 0) : Sg.Extinct (Sg.opsOf Sg.Tables.n155) h k l :=
  extinct_of_not_obverse conj_ok_155 h k l hn
/-- C05 hex/rhomb clause 3 (R3m, 160) -/
theorem hex_not_obverse_extinct_160 (h k l : Int) (hn : (-h + k + l) % 3 ≠ 0) : Sg.Extinct (Sg.opsOf Sg.Tables.n160) h k l :=
  extinct_of_not_obverse conj_ok_160 h k l hn
/-- C05 hex/rhomb clause 3 (R3c, 161) -/
theorem hex_not_obverse_extinct_161 (h k l : Int) (hn : (-h + k + l) % 3 ≠ 0) : Sg.Extinct (Sg.opsOf Sg.Tables.n161) h k l :=
  extinct_of_not_obverse conj_ok_161 h k l hn
/-- C05 hex/rhomb clause 3 (R-3m, 166) -/
theorem hex_not_obverse_extinct_166 (h k l : Int) (hn : (-h + k + l) % 3 ≠ 0) : Sg.Extinct (Sg.opsOf Sg.Tables.n166) h k l :=
  extinct_of_not_obverse conj_ok_166 h k l hn
/-- C05 hex/rhomb clause 3 (R-3c, 167) -/
theorem hex_not_obverse_extinct_167 (h k l : Int) (hn : (-h + k + l) % 3 ≠ 0) : Sg.Extinct (Sg.opsOf Sg.Tables.n167) h k l :=
  extinct_of_not_obverse conj_ok_167 h k l hn

/-! ### 4. the metric -/

/-- C05 hex/rhomb clause 4: with `G_h := M⁻¹ G_r M⁻ᵀ` (`HexRhomb.formToHex`, reciprocal metric of the hexagonal cell whose
    direct basis is `A_r M`), `4 sin²θ/λ²` of `hkl·M` in the hexagonal cell equals that of `hkl` in the rhombohedral cell. -/
theorem metric_hex_rh (G : Form) (h k l : Int) :
    (formToHex G).q (h - k, k - l, h + k + l) = G.q (h, k, l) := q_toHex G (h, k, l)

/-- `HexRhomb.formToHex` written out: the six entries of `M⁻¹ G M⁻ᵀ`, `M⁻¹ = ⅓[[2,−1,−1],[1,1,−2],[1,1,1]]` -/
theorem formToHex_entries (G : Form) :
    (formToHex G).g11 = (4 * G.g11 + G.g22 + G.g33 + 2 * G.g23 - 4 * G.g13 - 4 * G.g12) / 9 ∧
    (formToHex G).g22 = (G.g11 + G.g22 + 4 * G.g33 - 4 * G.g23 - 4 * G.g13 + 2 * G.g12) / 9 ∧
    (formToHex G).g33 = (G.g11 + G.g22 + G.g33 + 2 * G.g23 + 2 * G.g13 + 2 * G.g12) / 9 ∧
    (formToHex G).g23 = (G.g11 + G.g22 - 2 * G.g33 - G.g23 - G.g13 + 2 * G.g12) / 9 ∧
    (formToHex G).g13 = (2 * G.g11 - G.g22 - G.g33 - 2 * G.g23 + G.g13 + G.g12) / 9 ∧
    (formToHex G).g12 = (2 * G.g11 - G.g22 + 2 * G.g33 + G.g23 - 5 * G.g13 + G.g12) / 9 :=
  ⟨rfl, rfl, rfl, rfl, rfl, rfl⟩

/-- C05 hex/rhomb clause 4, corollary: `hkl` lies in the shell `lo < 4 stl² ≤ hi` of the rhombohedral cell iff `hkl·M` lies in
    the same shell of the hexagonal cell -/
theorem shell_hex_rh (G : Form) (lo hi : Rat) (v : V) :
    (lo < (formToHex G).q (toHex v) ∧ (formToHex G).q (toHex v) ≤ hi) ↔ (lo < G.q v ∧ G.q v ≤ hi) := by
  rw [q_toHex]

/-- the transformed metric of a conforming rhombohedral cell (`g11=g22=g33`, `g23=g13=g12`) is a conforming hexagonal one
    (`g11 = g22 = 2 g12`, `g13 = g23 = 0`) -/
theorem metric_hex_rh_conforming (a b : Rat) :
    formToHex ⟨a, a, a, b, b, b⟩ = ⟨2 * (a - b) / 3, 2 * (a - b) / 3, (a + 2 * b) / 3, 0, 0, (a - b) / 3⟩ :=
  formToHex_rhombohedral a b

/-! ### 5. summary -/

/-- `v` is an allowed in-shell reflection: not `000`, `lo < Q v ≤ hi`, and no operation of the list extinguishes it -/
def Allowed (ops : List Sg.Op) (G : Form) (lo hi : Rat) (v : V) : Prop :=
  v ≠ (0, 0, 0) ∧ lo < G.q v ∧ G.q v ≤ hi ∧ ¬ Sg.Extinct ops v.1 v.2.1 v.2.2

/-- the two settings `tr` (rhombohedral axes) and `th` (hexagonal axes) give the same reflections: for every reciprocal
    metric `G` of the rhombohedral cell and every shell, `v ↦ v·M` maps the allowed in-shell reflections of `tr`
    bijectively onto those of `th` (with the transformed metric): (a) `v` allowed ↔ `v·M` allowed, (b) every allowed
    hexagonal reflection is `v·M` for some (then allowed, by (a)) `v`, (c) `v ↦ v·M` is injective. -/
def SameReflections (tr th : SgTable) : Prop :=
  ∀ (G : Form) (lo hi : Rat),
    (∀ v : V, Allowed (Sg.opsOf tr) G lo hi v ↔ Allowed (Sg.opsOf th) (formToHex G) lo hi (rmul v M)) ∧
    (∀ w : V, Allowed (Sg.opsOf th) (formToHex G) lo hi w → ∃ v : V, w = rmul v M ∧ Allowed (Sg.opsOf tr) G lo hi v) ∧
    (∀ v v' : V, rmul v M = rmul v' M → v = v')

/-- from the certificate to the correspondence of reflections -/
theorem sameReflections_of_check {tr th : SgTable} (c : pairCheck tr th = true) : SameReflections tr th := by
  intro G lo hi
  have key : ∀ v : V, Allowed (Sg.opsOf tr) G lo hi v ↔ Allowed (Sg.opsOf th) (formToHex G) lo hi (rmul v M) := by
    intro v
    rw [← toHex_eq_rmul]
    unfold Allowed
    rw [q_toHex, Ne, Ne, toHex_eq_zero_iff]
    obtain ⟨h, k, l⟩ := v
    exact and_congr_right fun _ => and_congr_right fun _ => and_congr_right fun _ =>
      not_congr (extinct_iff_of_check c h k l)
  refine ⟨key, ?_, ?_⟩
  · intro w hw
    have ob : Obverse w := by
      by_contra hn
      exact hw.2.2.2 (extinct_of_not_obverse c w.1 w.2.1 w.2.2 hn)
    obtain ⟨v, rfl⟩ := exists_rh_of_obverse w ob
    rw [toHex_eq_rmul] at hw ⊢
    exact ⟨v, rfl, (key v).2 hw⟩
  · intro v v' e
    rw [← toHex_eq_rmul, ← toHex_eq_rmul] at e
    exact toHex_injective v v' e

/-- the seven (rhombohedral, hexagonal) pairs of R-centred groups of `sglib.py` -/
def rPairs : List (SgTable × SgTable) :=
  [(Sg.Tables.n146r, Sg.Tables.n146), (Sg.Tables.n148r, Sg.Tables.n148), (Sg.Tables.n155r, Sg.Tables.n155),
   (Sg.Tables.n160r, Sg.Tables.n160), (Sg.Tables.n161r, Sg.Tables.n161), (Sg.Tables.n166r, Sg.Tables.n166),
   (Sg.Tables.n167r, Sg.Tables.n167)]

/-- C05 hex/rhomb clause 5 (summary of 2–4): for each of the seven R groups, `hkl` is an allowed in-shell reflection of the
    rhombohedral setting iff `hkl·M` is an allowed in-shell reflection of the hexagonal setting (cell metric transformed by
    the same basis change), every allowed hexagonal reflection is of the form `hkl·M`, and `hkl ↦ hkl·M` is injective. -/
theorem hex_rhomb_same_reflections : ∀ p ∈ rPairs, SameReflections p.1 p.2 := by
  unfold rPairs
  refine List.forall_mem_cons.2 ⟨sameReflections_of_check conj_ok_146, ?_⟩
  refine List.forall_mem_cons.2 ⟨sameReflections_of_check conj_ok_148, ?_⟩
  refine List.forall_mem_cons.2 ⟨sameReflections_of_check conj_ok_155, ?_⟩
  refine List.forall_mem_cons.2 ⟨sameReflections_of_check conj_ok_160, ?_⟩
  refine List.forall_mem_cons.2 ⟨sameReflections_of_check conj_ok_161, ?_⟩
  refine List.forall_mem_cons.2 ⟨sameReflections_of_check conj_ok_166, ?_⟩
  refine List.forall_mem_cons.2 ⟨sameReflections_of_check conj_ok_167, ?_⟩
  exact fun _ hx => absurd hx List.not_mem_nil

/-- the pairs are the tables exported under the keys `n<N>r` / `n<N>` in `Sg.allTables`, and they are what the table
    metadata says: same group number, cell choices "rhombohedral" / "hexagonal", three times the operations -/
theorem rPairs_meta : rPairs.all (fun p =>
    p.1.no == p.2.no && p.1.cellChoice == "rhombohedral" && p.2.cellChoice == "hexagonal" &&
    p.2.nsymop == 3 * p.1.nsymop && (Sg.opsOf p.1).length == p.1.nsymop && (Sg.opsOf p.2).length == p.2.nsymop) = true := by
  decide +kernel

/-! ### 6. the reflection-condition tables (`sysabs`) of the two settings agree — via T5.1 -/

/-- the code's own test `sysabs = 0` gives the same verdict on `hkl` (rhombohedral table) and on `hkl·M` (hexagonal table)
    wherever T5.1 ties both to the operators, i.e. when `hkl` lies in the cones traversed for the rhombohedral setting and
    `hkl·M` in those traversed for the hexagonal setting -/
def SameSysabs (tr th : SgTable) : Prop :=
  ∀ (h k l : Int) (sr sh : List Segment),
    segmentsFor Tools.segmRules tr.laue tr.cellChoice = some sr → segmentsFor Tools.segmRules th.laue th.cellChoice = some sh →
    InCones sr h k l → InCones sh (h - k) (k - l) (h + k + l) →
    (Tools.sysabs h k l tr.syscond tr.crystalSystem tr.cellChoice = 0 ↔
      Tools.sysabs (h - k) (k - l) (h + k + l) th.syscond th.crystalSystem th.cellChoice = 0)

/-- from the certificate and T5.1 of both tables to the agreement of `sysabs` (helper of `sysabs_hex_iff_rh`) -/
theorem sameSysabs_of {tr th : SgTable} (c : pairCheck tr th = true) (hr : T51.Holds tr) (hh : T51.Holds th) :
    SameSysabs tr th := by
  intro h k l sr sh er eh cr ch
  rw [hr h k l sr er cr, hh _ _ _ sh eh ch]
  exact not_congr (extinct_iff_of_check c h k l)

/-- C05 hex/rhomb, tied to the generated `Tools.sysabs` (= `Laue.sysabs`) through T5.1: on the traversed cones the
    reflection-condition tables of the rhombohedral and the hexagonal setting of each R group agree under `hkl ↦ hkl·M` -/
theorem sysabs_hex_iff_rh : ∀ p ∈ rPairs, SameSysabs p.1 p.2 := by
  unfold rPairs
  refine List.forall_mem_cons.2 ⟨sameSysabs_of conj_ok_146 T51.holds_n146r T51.holds_n146, ?_⟩
  refine List.forall_mem_cons.2 ⟨sameSysabs_of conj_ok_148 T51.holds_n148r T51.holds_n148, ?_⟩
  refine List.forall_mem_cons.2 ⟨sameSysabs_of conj_ok_155 T51.holds_n155r T51.holds_n155, ?_⟩
  refine List.forall_mem_cons.2 ⟨sameSysabs_of conj_ok_160 T51.holds_n160r T51.holds_n160, ?_⟩
  refine List.forall_mem_cons.2 ⟨sameSysabs_of conj_ok_161 T51.holds_n161r T51.holds_n161, ?_⟩
  refine List.forall_mem_cons.2 ⟨sameSysabs_of conj_ok_166 T51.holds_n166r T51.holds_n166, ?_⟩
  refine List.forall_mem_cons.2 ⟨sameSysabs_of conj_ok_167 T51.holds_n167r T51.holds_n167, ?_⟩
  exact fun _ hx => absurd hx List.not_mem_nil

/-! ### examples -/

/-- `(1,0,0)_rh ↦ (1,0,1)_hex` -/
example : rmul (1, 0, 0) M = (1, 0, 1) := by decide

/-- R-3: `(1,0,0)_rh` is not extinguished, hence neither is its hexagonal image `(1,0,1)_hex` -/
example : ¬ Sg.Extinct (Sg.opsOf Sg.Tables.n148) 1 0 1 := by
  have e := (extinct_hex_iff_rh_148 1 0 0)
  norm_num at e
  rw [← e]
  rintro ⟨a, ha, e⟩
  simp [Sg.opsOf, Sg.Tables.n148r, Sg.ofSg, Sg.snap] at ha
  rcases ha with rfl | rfl | rfl | rfl | rfl | rfl <;> simp [Sg.ExtinctBy] at e

/-- R-3, with a metric: `(1,0,1)_hex` is an allowed reflection of the hexagonal setting in the shell `0 < Q ≤ 1`
    for the rhombohedral reciprocal metric `g_ii = 1`, `g_ij = 1/4` -/
example : Allowed (Sg.opsOf Sg.Tables.n148) (formToHex ⟨1, 1, 1, 1/4, 1/4, 1/4⟩) 0 1 (1, 0, 1) := by
  have h := ((hex_rhomb_same_reflections _ (by simp [rPairs] : (Sg.Tables.n148r, Sg.Tables.n148) ∈ rPairs))
    ⟨1, 1, 1, 1/4, 1/4, 1/4⟩ 0 1).1 (1, 0, 0)
  have e : rmul (1, 0, 0) M = (1, 0, 1) := by decide
  rw [e] at h
  refine h.1 ⟨by decide, by norm_num [Form.q], by norm_num [Form.q], ?_⟩
  rintro ⟨a, ha, e⟩
  simp [Sg.opsOf, Sg.Tables.n148r, Sg.ofSg, Sg.snap] at ha
  rcases ha with rfl | rfl | rfl | rfl | rfl | rfl <;> simp [Sg.ExtinctBy] at e

/-- negative control: the checker is not vacuous — the P-3 table (147, hexagonal axes, no centring) is rejected as partner of
    R-3r, and swapping the roles of the two tables is rejected too -/
example : pairCheck Sg.Tables.n148r Sg.Tables.n147 = false ∧ pairCheck Sg.Tables.n148 Sg.Tables.n148r = false ∧
    pairCheck Sg.Tables.n167r Sg.Tables.n166 = false := by decide +kernel

/-- R-3: `(1,0,0)_hex` violates the obverse condition (`−1 ≢ 0 mod 3`) and is extinct in the hexagonal setting -/
example : Sg.Extinct (Sg.opsOf Sg.Tables.n148) 1 0 0 := hex_not_obverse_extinct_148 1 0 0 (by decide)

/-- R-3c: the c-glide extinction `hhl, l odd` of the rhombohedral setting, e.g. `(1,1,1)_rh`, appears as `(0,0,3)_hex` -/
example : Sg.Extinct (Sg.opsOf Sg.Tables.n167) 0 0 3 := by
  have e := (extinct_hex_iff_rh_167 1 1 1)
  norm_num at e
  rw [← e]
  refine Sg.extinct_of_getElem? (a := Sg.ofSg ⟨0, 1, 0, 1, 0, 0, 0, 0, 1, 500000, 500000, 500000⟩) 3 rfl ?_
  simp [Sg.ExtinctBy, Sg.ofSg, Sg.snap]

/-- the hypotheses of `SameSysabs` are satisfiable: for R-3, `(1,0,0)_rh` lies in the cones traversed for the rhombohedral
    setting and its image `(1,0,1)_hex` in those traversed for the hexagonal setting; so `sysabs` agrees on them -/
example : Tools.sysabs 1 0 0 Sg.Tables.n148r.syscond Sg.Tables.n148r.crystalSystem Sg.Tables.n148r.cellChoice = 0 ↔
    Tools.sysabs 1 0 1 Sg.Tables.n148.syscond Sg.Tables.n148.crystalSystem Sg.Tables.n148.cellChoice = 0 := by
  have h := sysabs_hex_iff_rh _ (by simp [rPairs] : (Sg.Tables.n148r, Sg.Tables.n148) ∈ rPairs) 1 0 0
    T51.segs_r11 T51.segs_r9 rfl rfl
    ⟨T51.segs_r11[0], by simp [T51.segs_r11], 1, 0, 0, by simp [T51.segs_r11], by simp [T51.segs_r11], by simp [T51.segs_r11]⟩
    ⟨T51.segs_r9[0], by simp [T51.segs_r9], 1, 0, 1, by simp [T51.segs_r9], by simp [T51.segs_r9], by simp [T51.segs_r9]⟩
  simpa using h
