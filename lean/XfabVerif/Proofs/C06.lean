/-
C06 — genhkl_unique: one reflection per Laue family, sorted; genhkl_all is the union of the families.

About the hand model `Model/Hkl.lean` (see `Proofs/C05.lean` for the lemmas on the traversal, the emission and the
expansion).  The fourth column of the Python rows is `stl = sqrt(Q)/2`; the model carries `Q = 4·stl²`, which is
monotone in `stl`, so order and bounds are stated on `Q`.

Proved here
* `unique_sorted`, `all_sorted`: rows of both functions are ordered by non-decreasing `stl`.
* `stl_column`, `stl_column_all`: the fourth column is `Q` of that row's `hkl` — for `genhkl_all` under the hypothesis
  that `Q` is invariant under `Rots` (true for every conforming metric: `RᵀG*R = G*`; it is a hypothesis on the input).
* `shell_bounds`: `sintlmin` exclusive, `sintlmax` inclusive, for every row of `genhkl_unique`.
* `unique_allowed`: every row of `genhkl_unique` passes `sysabs`.
* `unique_in_cone`: every row of `genhkl_unique` lies in the cone of one of the segments of its Laue class.
* `genhkl_all_eq_union`: `genhkl_all` is exactly the union of the `Rots`-orbits of the rows of `genhkl_unique`.
* integrality: rows are `Int × Int × Int` by construction (nothing to prove in the model; the float rows of the
  implementation are checked for integrality by the harness).
* `genhkl_unique_spec_partial`: soundness half of "exactly one member of every allowed family and nothing else".

NOT proved here: that each allowed Laue family has exactly one representative (needs T5.1 `sysabs` ↔ operators,
T5.3 `traverse_exact` with the `PathClosed` condition, T5.4 cone transversality — later steps of the design; on the
pinned tree completeness is false for oblique cells: known finding D2).
-/
import XfabVerif.Proofs.C05

set_option linter.unusedVariables false
set_option linter.style.longLine false
set_option linter.unusedSimpArgs false

open C05 Hkl

namespace C06

theorem leQ_iff (a b : V × Rat) : leQ a b = true ↔ a.2 ≤ b.2 := by simp [leQ]

theorem mem_unique (x : Input) (segs : List Segment) (r : V × Rat) : r ∈ genhklUnique x segs ↔ r ∈ baseRows x segs := by
  simp [genhklUnique, List.mem_mergeSort]

end C06

open C06

/-- C06: rows of `genhkl_unique` are ordered by non-decreasing `sin(theta)/lambda` -/
theorem unique_sorted (x : Input) (segs : List Segment) :
    (genhklUnique x segs).Pairwise (fun a b => a.2 ≤ b.2) := by
  have h := List.pairwise_mergeSort (le := leQ)
    (fun a b c hab hbc => by rw [leQ_iff] at *; exact Rat.le_trans hab hbc)
    (fun a b => by
      rcases @Rat.le_total a.2 b.2 with h | h
      · simp [(leQ_iff a b).2 h]
      · simp [(leQ_iff b a).2 h])
    (baseRows x segs)
  exact h.imp (fun {a b} hab => (leQ_iff a b).1 hab)

/-- C06: the optional fourth column of `genhkl_unique` is `Q = 4·stl²` of that row's `hkl` -/
theorem stl_column (x : Input) (segs : List Segment) (r : V × Rat) (hr : r ∈ genhklUnique x segs) : r.2 = x.G.q r.1 :=
  (((base_rows_spec x segs r).1 ((mem_unique x segs r).1 hr))).2.2.2.2

/-- C06: `sintlmin` is exclusive and `sintlmax` inclusive: `4·min² < Q(h) ≤ 4·max²` for every row -/
theorem shell_bounds (x : Input) (segs : List Segment) (r : V × Rat) (hr : r ∈ genhklUnique x segs) :
    4 * x.min2 < x.G.q r.1 ∧ x.G.q r.1 ≤ 4 * x.max2 :=
  let h := (base_rows_spec x segs r).1 ((mem_unique x segs r).1 hr)
  ⟨h.2.2.1, h.2.2.2.1⟩

/-- C06: every row of `genhkl_unique` is allowed by the extinction rule the code applies (`sysabs = 0`) -/
theorem unique_allowed (x : Input) (segs : List Segment) (r : V × Rat) (hr : r ∈ genhklUnique x segs) : x.absent r.1 = 0 :=
  ((base_rows_spec x segs r).1 ((mem_unique x segs r).1 hr)).2.1

/-- C06: every row of `genhkl_unique` lies in the cone of one of the segments: `h = s + n₃d₃ + n₂d₂ + n₁d₁`, `nᵢ ≥ 0` -/
theorem unique_in_cone (x : Input) (segs : List Segment) (r : V × Rat) (hr : r ∈ genhklUnique x segs) :
    ∃ sg ∈ segs, ∃ n3 n2 n1 : Nat,
      r.1 = vadd (vadd (vadd sg.s (vsmul (n3 : Int) sg.d3)) (vsmul (n2 : Int) sg.d2)) (vsmul (n1 : Int) sg.d1) := by
  have h := ((base_rows_spec x segs r).1 ((mem_unique x segs r).1 hr)).1
  have h' : r.1 ∈ visited x segs := List.mem_of_mem_tail h
  simp only [visited, List.mem_flatten, List.mem_map] at h'
  obtain ⟨_, ⟨sg, hsg, rfl⟩, hx⟩ := h'
  exact ⟨sg, hsg, traverse_sound _ _ _ sg r.1 hx⟩

/-- C06: `genhkl_all` is exactly the union of the Laue orbits (under `Rots = P ∪ −P`) of the rows of `genhkl_unique`,
    each member carrying the `stl` of its representative -/
theorem genhkl_all_eq_union (x : Input) (segs : List Segment) (r : V × Rat) :
    r ∈ genhklAll x segs ↔ ∃ u ∈ genhklUnique x segs, ∃ R ∈ rots x.tbl, r = (rmul u.1 R, u.2) :=
  all_eq_union x segs r

/-- C06: rows of `genhkl_all` are ordered by non-decreasing `sin(theta)/lambda` -/
theorem all_sorted (x : Input) (segs : List Segment) :
    (genhklAll x segs).Pairwise (fun a b => a.2 ≤ b.2) := by
  unfold genhklAll
  rw [List.pairwise_flatMap]
  refine ⟨fun u hu => ?_, ?_⟩
  · rw [List.pairwise_map]
    exact List.pairwise_of_forall (fun _ _ => Rat.le_refl)
  · refine (unique_sorted x segs).imp ?_
    intro a b hab p hp q hq
    simp only [List.mem_map] at hp hq
    obtain ⟨_, _, rfl⟩ := hp
    obtain ⟨_, _, rfl⟩ := hq
    exact hab

/-- C06: the fourth column of `genhkl_all` is `Q` of that row's `hkl`, for every form that the rotations of the group
    leave invariant (`Q(h·R) = Q(h)`, i.e. `R G* Rᵀ = G*` — every metric conforming to the crystal system). -/
theorem stl_column_all (x : Input) (segs : List Segment)
    (hinv : ∀ R ∈ rots x.tbl, ∀ h : V, x.G.q (rmul h R) = x.G.q h)
    (r : V × Rat) (hr : r ∈ genhklAll x segs) : r.2 = x.G.q r.1 := by
  obtain ⟨u, hu, R, hR, h1, h2⟩ := all_rows_from_unique x segs r hr
  rw [h2, h1, hinv R hR, stl_column x segs u hu]

/-- C06 ("exactly one member of every Laue-equivalent family of allowed reflections in the shell and nothing else"),
    PARTIAL — soundness half only: every row of `genhkl_unique` is a cone point of its segment list, different from the
    first visited point, allowed by `sysabs`, inside the shell, and `genhkl_unique` contains nothing else than such
    points.  Missing: (a) `sysabs = 0` ⇔ not extinguished by the operators (T5.1, per group); (b) every cone point in
    the shell whose path stays inside the scaled shell is visited (T5.3) — and the `PathClosed` condition fails for
    oblique cells on the pinned tree (known finding D2); (c) the cones contain exactly one member of every Laue orbit
    (T5.4).  With (a)–(c) the full statement follows from `base_rows_spec`. -/
theorem genhkl_unique_spec_partial (x : Input) (segs : List Segment) (r : V × Rat) :
    r ∈ genhklUnique x segs ↔
      r.1 ∈ (visited x segs).tail ∧ x.absent r.1 = 0 ∧ 4 * x.min2 < x.G.q r.1 ∧ x.G.q r.1 ≤ 4 * x.max2 ∧ r.2 = x.G.q r.1 := by
  rw [mem_unique]; exact base_rows_spec x segs r

/-- the invariance hypothesis of `stl_column_all` holds e.g. for the cubic metric and the rotations of Fm-3m -/
example : ∀ R ∈ rots Sg.Tables.n225, ∀ h ∈ [((1 : Int), (2 : Int), (3 : Int)), (0, -1, 5)],
    C05.G0.q (rmul h R) = C05.G0.q h := by decide +kernel
