/-
C06 / C05 — theorem T5.4 (cone transversality) and what it closes.

For each of the 14 (Laue class, setting) variants that `genhkl_base` distinguishes (= the 14 rules of the generated
`Tools.segmRules`), the union of the rule's segment cones `s + ℕd₁ + ℕd₂ + ℕd₃` is a TRANSVERSAL of the orbits of the
Laue group `P ∪ −P` (`Hkl.rots t`, acting on row vectors `h ↦ h·R`) on ℤ³:

  `T54.Transversal Rs segs  :=  T54.Exists Rs segs ∧ T54.Unique Rs segs ∧ T54.SegsDisjoint segs`
    `Exists`       : ∀ h : ℤ³, ∃ R ∈ Rs, h·R lies in one of the cones                     (also h = 0: the first start)
    `Unique`       : ∀ h, ∀ R S ∈ Rs, h·R and h·S in the cones → h·R = h·S               (one member per orbit)
    `SegsDisjoint` : no point lies in the cones of two different entries of the segment list (none generated twice)

The proofs are GENERATED (`harness/gen_t54.py` → `XfabVerif/Gen/T54/V<rule>.lean`) from the live `segm` literals and the
live tables: cones as three linear inequalities (unimodular direction matrices), one `omega` lemma per rotation
("h and h·R in the cones → h·R = h"), closure of the rotation list by a kernel-decided index certificate, existence by a
decision tree on the signs of linear forms with one `omega` lemma per leaf.  The transfer to all 237 settings is a
kernel-decided comparison of `rots t` with the variant's rotation list (`T54.sameRotsB`).

Proved here (all for ALL integer hkl, every metric, every shell, every fuel):
* `cones_transversal_<variant>` (14): the statement for the representative table of each variant.
* `cones_transversal_all`, `cones_transversal_all_laue`: the statement for every table of `Sg.allTables` (tools.py / laue.py),
  with the closure of `rots t` under `R⁻¹S`.
* `segm_directions_nonsingular`: every direction matrix of `Tools.segmRules` has non-zero determinant.
* `unique_orbits_disjoint`: the hypothesis `hdisj` of `all_nodup_of_disjoint_partial` (orbits of different rows of
  `genhkl_unique` never meet).
* `genhkl_unique_nodup`: the hypothesis `hU` of `all_nodup_of_disjoint_partial` (no row of `genhkl_unique` is repeated) —
  the traversal visits no point twice (`T54.visited_nodup`).
* `genhkl_all_nodup`: C05 "none repeated", unconditionally for every table: `genhkl_all` has no repeated row.
* `genhkl_unique_one_per_family`: C06 "at most one member of every Laue family": two rows of `genhkl_unique` that are
  Laue-equivalent are the same row.
* `every_family_meets_cones`: C06 existence half at the level of the cones: every `h` has a Laue-equivalent in the cones
  that `genhkl_base` traverses (that the traversal reaches it inside the shell is T5.3 / finding D2, not T5.4).
-/
import XfabVerif.Gen.T54.All
import XfabVerif.Lemmas.T54Nodup
import XfabVerif.Proofs.C06

set_option linter.unusedVariables false
set_option linter.style.longLine false
set_option linter.unusedSimpArgs false

open Hkl

/-! ### the 14 variants (representative tables) -/

/-- C06 / T5.4, Laue class -1 (rule 0; 4 segments, group of order 2) -/
theorem cones_transversal_bar1 :
    ∃ segs, segmentsFor Tools.segmRules "-1" "standard" = some segs ∧ T54.Transversal (rots Sg.Tables.n2) segs :=
  T54.holds_n2

/-- C06 / T5.4, Laue class 2/m (rule 1; 2 segments, order 4) -/
theorem cones_transversal_2m :
    ∃ segs, segmentsFor Tools.segmRules "2/m" "standard" = some segs ∧ T54.Transversal (rots Sg.Tables.n10) segs :=
  T54.holds_n10

/-- C06 / T5.4, Laue class mmm (rule 2; 1 segment, order 8) -/
theorem cones_transversal_mmm :
    ∃ segs, segmentsFor Tools.segmRules "mmm" "standard" = some segs ∧ T54.Transversal (rots Sg.Tables.n47) segs :=
  T54.holds_n47

/-- C06 / T5.4, Laue class 4/mmm (rule 3; 1 segment, order 16) -/
theorem cones_transversal_4mmm :
    ∃ segs, segmentsFor Tools.segmRules "4/mmm" "standard" = some segs ∧ T54.Transversal (rots Sg.Tables.n123) segs :=
  T54.holds_n123

/-- C06 / T5.4, Laue class 4/m (rule 4; 2 segments, order 8) -/
theorem cones_transversal_4m :
    ∃ segs, segmentsFor Tools.segmRules "4/m" "standard" = some segs ∧ T54.Transversal (rots Sg.Tables.n83) segs :=
  T54.holds_n83

/-- C06 / T5.4, Laue class 6/mmm (rule 5; 1 segment, order 24) -/
theorem cones_transversal_6mmm :
    ∃ segs, segmentsFor Tools.segmRules "6/mmm" "standard" = some segs ∧ T54.Transversal (rots Sg.Tables.n191) segs :=
  T54.holds_n191

/-- C06 / T5.4, Laue class 6/m (rule 6; 2 segments, order 12) -/
theorem cones_transversal_6m :
    ∃ segs, segmentsFor Tools.segmRules "6/m" "standard" = some segs ∧ T54.Transversal (rots Sg.Tables.n175) segs :=
  T54.holds_n175

/-- C06 / T5.4, Laue class -3m1, hexagonal axes (rule 7; 2 segments, order 12) -/
theorem cones_transversal_bar3m1 :
    ∃ segs, segmentsFor Tools.segmRules "-3m1" "standard" = some segs ∧ T54.Transversal (rots Sg.Tables.n164) segs :=
  T54.holds_n164

/-- C06 / T5.4, Laue class -31m (rule 8; 2 segments, order 12) -/
theorem cones_transversal_bar31m :
    ∃ segs, segmentsFor Tools.segmRules "-31m" "standard" = some segs ∧ T54.Transversal (rots Sg.Tables.n162) segs :=
  T54.holds_n162

/-- C06 / T5.4, Laue class -3, hexagonal axes (rule 9; 3 segments, order 6) -/
theorem cones_transversal_bar3_hex :
    ∃ segs, segmentsFor Tools.segmRules "-3" "standard" = some segs ∧ T54.Transversal (rots Sg.Tables.n147) segs :=
  T54.holds_n147

/-- C06 / T5.4, Laue class -3m, rhombohedral axes (rule 10; 2 segments, order 12) -/
theorem cones_transversal_bar3m_rh :
    ∃ segs, segmentsFor Tools.segmRules "-3m" "rhombohedral" = some segs ∧ T54.Transversal (rots Sg.Tables.n166r) segs :=
  T54.holds_n166r

/-- C06 / T5.4, Laue class -3, rhombohedral axes (rule 11; 4 segments, order 6) -/
theorem cones_transversal_bar3_rh :
    ∃ segs, segmentsFor Tools.segmRules "-3" "rhombohedral" = some segs ∧ T54.Transversal (rots Sg.Tables.n148r) segs :=
  T54.holds_n148r

/-- C06 / T5.4, Laue class m-3m (rule 12; 1 segment, order 48) -/
theorem cones_transversal_mbar3m :
    ∃ segs, segmentsFor Tools.segmRules "m-3m" "standard" = some segs ∧ T54.Transversal (rots Sg.Tables.n221) segs :=
  T54.holds_n221

/-- C06 / T5.4, Laue class m-3 (rule 13; 2 segments, order 24) -/
theorem cones_transversal_mbar3 :
    ∃ segs, segmentsFor Tools.segmRules "m-3" "standard" = some segs ∧ T54.Transversal (rots Sg.Tables.n200) segs :=
  T54.holds_n200

/-- the generated variant list is what the theorems above enumerate (rule indices into `Tools.segmRules`) -/
example : T54.variants = [("bar1", 0), ("2m", 1), ("mmm", 2), ("4mmm", 3), ("4m", 4), ("6mmm", 5), ("6m", 6), ("bar3m1", 7),
    ("bar31m", 8), ("bar3_hex", 9), ("bar3m_rh", 10), ("bar3_rh", 11), ("mbar3m", 12), ("mbar3", 13)] ∧
    Tools.segmRules.length = 14 := by decide

/-! ### every table -/

/-- C06 / T5.4 for every one of the 237 settings of `sglib.py` (tools.py): the cones `genhkl_base` traverses for the table
    are a transversal of the orbits of its Laue group `rots t = P ∪ −P`, and that list of rotations contains the identity and is closed under `R⁻¹S` -/
theorem cones_transversal_all : ∀ kt ∈ Sg.allTables, T54.Holds kt.2 ∧ T54.IsGroup (rots kt.2) := T54.all_hold

/-- C06 / T5.4 for every setting, laue.py (same `segm` literals) -/
theorem cones_transversal_all_laue : ∀ kt ∈ Sg.allTables, T54.HoldsLaue kt.2 ∧ T54.IsGroup (rots kt.2) :=
  fun kt hkt => ⟨T54.holdsLaue_of_holds (T54.all_hold kt hkt).1, (T54.all_hold kt hkt).2⟩

/-- C05 / C06: every direction matrix of the segment rules is non-singular (all are in fact unimodular: the generator of
    the T5.4 proofs refuses otherwise), so a segment never visits a point twice -/
theorem segm_directions_nonsingular : T54.detOkB Tools.segmRules = true := by decide

/-! ### consequences for `genhkl_unique` / `genhkl_all` -/

namespace C06T54

theorem inCones_of_row (x : Input) (segs : List Segment) (u : V × Rat) (hu : u ∈ genhklUnique x segs) : InConesV segs u.1 := by
  have h := ((base_rows_spec x segs u).1 ((C06.mem_unique x segs u).1 hu)).1
  have h' : u.1 ∈ visited x segs := List.mem_of_mem_tail h
  simp only [visited, List.mem_flatten, List.mem_map] at h'
  obtain ⟨_, ⟨sg, hsg, rfl⟩, hx⟩ := h'
  exact ⟨sg, hsg, inSeg_of_visited _ _ _ sg u.1 hx⟩

theorem transversal_of (x : Input) (segs : List Segment) (hcfg : x.cfg.rules = Tools.segmRules)
    (hs : x.segments = some segs) (ht : T54.Holds x.tbl) : T54.Transversal (rots x.tbl) segs := by
  unfold Input.segments at hs
  rw [hcfg] at hs
  exact ht.transversal hs

end C06T54

open C06T54

/-- C05 / C06: the `Rots`-orbits of two different rows of `genhkl_unique` never meet — the hypothesis `hdisj` of
    `all_nodup_of_disjoint_partial`.  `hcfg` holds for both modules (`toolsCfg`, `laueCfg`), `ht`/`hg` for every table
    (`cones_transversal_all`). -/
theorem unique_orbits_disjoint (x : Input) (segs : List Segment) (hcfg : x.cfg.rules = Tools.segmRules)
    (hs : x.segments = some segs) (ht : T54.Holds x.tbl) (hg : T54.IsGroup (rots x.tbl)) :
    ∀ u ∈ genhklUnique x segs, ∀ v ∈ genhklUnique x segs, ∀ R ∈ rots x.tbl, ∀ S ∈ rots x.tbl,
      rmul u.1 R = rmul v.1 S → u.1 = v.1 := by
  intro u hu v hv R hR S hS e
  exact T54.orbits_disjoint hg (transversal_of x segs hcfg hs ht).2.1 u.1 v.1 (inCones_of_row x segs u hu)
    (inCones_of_row x segs v hv) R hR S hS e

/-- C05 / C06: no row of `genhkl_unique` is repeated (the hypothesis `hU` of `all_nodup_of_disjoint_partial`): within a
    segment the loops visit points in strictly increasing order of their cone coordinates, and the cones of different
    segments are disjoint. -/
theorem genhkl_unique_nodup (x : Input) (segs : List Segment) (hcfg : x.cfg.rules = Tools.segmRules)
    (hs : x.segments = some segs) (ht : T54.Holds x.tbl) : ((genhklUnique x segs).map (·.1)).Nodup := by
  refine T54.unique_rows_nodup x segs ?_ (transversal_of x segs hcfg hs ht).2.2
  unfold Input.segments at hs
  rw [hcfg] at hs
  exact T54.det_ne_of_detOk segm_directions_nonsingular hs

/-- C05 ("none repeated"): `genhkl_all` has no repeated row — for every table with T5.4, i.e. every table of `sglib.py`,
    every metric, shell and fuel. -/
theorem genhkl_all_nodup (x : Input) (segs : List Segment) (hcfg : x.cfg.rules = Tools.segmRules)
    (hs : x.segments = some segs) (ht : T54.Holds x.tbl) (hg : T54.IsGroup (rots x.tbl)) :
    ((genhklAll x segs).map (·.1)).Nodup :=
  all_nodup_of_disjoint_partial x segs (genhkl_unique_nodup x segs hcfg hs ht) (unique_orbits_disjoint x segs hcfg hs ht hg)

/-- C05 ("none repeated") for the tables of `Sg.allTables` -/
theorem genhkl_all_nodup_all (x : Input) (segs : List Segment) (hcfg : x.cfg.rules = Tools.segmRules)
    (hs : x.segments = some segs) (htbl : ∃ key, (key, x.tbl) ∈ Sg.allTables) : ((genhklAll x segs).map (·.1)).Nodup := by
  obtain ⟨key, hk⟩ := htbl
  obtain ⟨ht, hg⟩ := cones_transversal_all (key, x.tbl) hk
  exact genhkl_all_nodup x segs hcfg hs ht hg

/-- C06 ("at most one member of every Laue family"): two rows of `genhkl_unique` one of which is a Laue-equivalent
    (`v = u·R`, `R ∈ Rots`) of the other are the same row. -/
theorem genhkl_unique_one_per_family (x : Input) (segs : List Segment) (hcfg : x.cfg.rules = Tools.segmRules)
    (hs : x.segments = some segs) (ht : T54.Holds x.tbl) (hg : T54.IsGroup (rots x.tbl))
    (u v : V × Rat) (hu : u ∈ genhklUnique x segs) (hv : v ∈ genhklUnique x segs) (R : Rot) (hR : R ∈ rots x.tbl)
    (e : v.1 = rmul u.1 R) : u = v := by
  have e' : rmul u.1 R = rmul v.1 T54.idRot := by rw [T54.rmul_id]; exact e.symm
  have h1 : u.1 = v.1 := unique_orbits_disjoint x segs hcfg hs ht hg u hu v hv R hR T54.idRot hg.1 e'
  have h2 : u.2 = v.2 := by rw [stl_column x segs u hu, stl_column x segs v hv, h1]
  exact Prod.ext h1 h2

/-- C06 / T5.4 in the form of the design document: every `h ∈ ℤ³` has EXACTLY ONE member of its Laue orbit
    `{h·R | R ∈ Rots}` in the union of the segment cones that `genhkl_base` traverses for the table. -/
theorem cones_exactly_one (t : SgTable) (ht : T54.Holds t) (h : V) :
    ∃ segs, segmentsFor Tools.segmRules t.laue t.cellChoice = some segs ∧
      ∃ g : V, ((∃ R ∈ rots t, g = rmul h R) ∧ InConesV segs g) ∧
        ∀ g' : V, (∃ R ∈ rots t, g' = rmul h R) ∧ InConesV segs g' → g' = g := by
  obtain ⟨segs, hs, he, hu, _⟩ := ht
  obtain ⟨R, hR, c⟩ := he h
  refine ⟨segs, hs, rmul h R, ⟨⟨R, hR, rfl⟩, c⟩, ?_⟩
  rintro g' ⟨⟨S, hS, rfl⟩, c'⟩
  exact hu h S hS R hR c' c

/-- C06, existence half at the level of the cones: every `h` has a Laue-equivalent in the cones that `genhkl_base`
    traverses (whether the traversal reaches it inside the shell is T5.3 / finding D2, not T5.4) -/
theorem every_family_meets_cones (kt : String × SgTable) (hkt : kt ∈ Sg.allTables) (h : V) :
    ∃ segs, segmentsFor Tools.segmRules kt.2.laue kt.2.cellChoice = some segs ∧ ∃ R ∈ rots kt.2, InConesV segs (rmul h R) := by
  obtain ⟨segs, hs, he, _⟩ := (cones_transversal_all kt hkt).1
  exact ⟨segs, hs, he h⟩

/-! ### the hypotheses are satisfiable: Fm-3m, a = 4, shell (0, 0.5] (the instance of `Proofs/C05.lean`) -/

example : ((genhklAll C05.x0 [C05.seg0]).map (·.1)).Nodup :=
  genhkl_all_nodup C05.x0 [C05.seg0] rfl rfl T54.holds_n225 T54.isGroup_n225

example : ((genhklUnique C05.x0 [C05.seg0]).map (·.1)).Nodup :=
  genhkl_unique_nodup C05.x0 [C05.seg0] rfl rfl T54.holds_n225

/-- the cone member of the orbit of `(-3, 1, 2)` under m-3m is `(3, 2, 1)` -/
example : InConesV T54.segs_mbar3m (3, 2, 1) ∧ ∃ R ∈ rots Sg.Tables.n221, rmul (-3, 1, 2) R = (3, 2, 1) := by
  refine ⟨⟨_, List.mem_cons_self, 1, 1, 1, by decide, by decide, by decide⟩, ?_⟩
  decide +kernel
