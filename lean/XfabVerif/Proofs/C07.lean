/-
C07 — symmetry of the structure factor.

  "For any atom list (isotropic or anisotropic displacement, any occupancy) and any operation (R,t) of the space
   group, F(hR) = F(h)·exp(−2πi h·t); hence symmetry-equivalent reflections have equal |F| and every reflection
   extinguished by the space group has F = 0.  Without dispersion F(−h) is the complex conjugate of F(h)."

Model: `SF.SFn n G cell atoms h` of `Lemmas/SFModel.lean` = the double loop of `xfab.structure.StructureFactor`
as a `List.sum` of the TRACED summand `Structure.sf_term_*` (generated from the Python) over an operation list `G`
(`Sg.Op`: integer rotation, translation in 24ths; `n` = `mysg.nsymop`, the divisor of the site population).

The theorems are stated for an ABSTRACT operation list `G` that is a group modulo lattice translations
(`SF.GroupModLattice G`, defined in `Lemmas/SFModel.lean`).  That hypothesis is established for every generated table by
`Sg.checkGroup_sound` (`Lemmas/SgSound.lean`, structure `Sg.IsGroupModLattice`, same five fields) from the
kernel-checked certificates `Sg.ok_<key>`; it is restated in `Lemmas/SFModel.lean` so that this file does not depend on
the table files (conversion: `⟨h.one_mem, h.closed, h.inv, h.nodup, h.reduced⟩`).

Hypothesis `hmetric` (`sintl cell (h·R_k) = sintl cell h`): sin(θ)/λ is invariant under the rotation part.  It is
what C04's metric preservation (`RᵀGR = G` for the metric basis of the crystal system) gives for a cell that
conforms to the crystal system of the group — see `C07.hmetric_of_metric_preserved` below; for a non-conforming cell the law is false for the code as well
(form factor and isotropic Debye–Waller factor are functions of sin(θ)/λ), so it cannot be dropped.
It is NOT needed for extinct reflections (`h·R = h`) nor for Friedel's law.

Integrality of `h` is essential (lattice periodicity of the phase): reflections are `Fin 3 → ℤ`, cast by `SF.castR`.
-/
import XfabVerif.Lemmas.SFModel
import XfabVerif.Proofs.C01

set_option linter.unusedVariables false
set_option linter.style.longLine false

open Matrix SF

namespace C07

/-! ### bridge -/

/-- C07/C08 bridge: the TRACED summand of `StructureFactor` for one (atom, operation) pair equals the textbook term
`occ·symmulti/nsymop · T · (f + f' + i f'') · exp(2πi h·(R pos + t))`, `T` = 1 | exp(−8π²U s²) | exp(−hᵀRβRᵀh). -/
theorem sf_term_bridge (h : Fin 3 → ℝ) (cell : Fin 6 → ℝ) (n : ℝ) (A : SF.Atom) (g : Sg.Op) :
    SF.toC (SF.term h cell n A g) =
      ((A.occ * A.symmulti / n * SF.dw A cell (SF.rotR g) h : ℝ) : ℂ) * SF.ffC A cell h *
        Complex.exp (((2 * Real.pi * (h ⬝ᵥ (SF.rotR g *ᵥ A.pos + SF.transR g)) : ℝ) : ℂ) * Complex.I) :=
  SF.term_eq_closed h cell n A g

/-! ### Friedel -/

/-- C07 (Friedel): without an imaginary dispersion part (`disper = None`, `None` entries, or `f'' = 0`)
`F(−h) = conj F(h)` — for any operation list, any cell, real `h`. -/
theorem friedel (n : ℝ) (G : List Sg.Op) (cell : Fin 6 → ℝ) (atoms : List SF.Atom) (h : Fin 3 → ℝ)
    (hdisp : ∀ A ∈ atoms, A.fpp = 0) :
    SF.SFn n G cell atoms (-h) = (starRingEnd ℂ) (SF.SFn n G cell atoms h) := by
  rw [SF.SFn_eq_closed, SF.SFn_eq_closed, map_list_sum, List.map_map]
  congr 1
  apply List.map_congr_left
  intro A hA
  simp only [Function.comp, map_list_sum, List.map_map]
  congr 1
  apply List.map_congr_left
  intro g _
  exact SF.closed_neg A (hdisp A hA) cell n h g

/-- C07 (Friedel) for the no-dispersion branch of the code (`disper == None` or every `disper[atomtype] == None`). -/
theorem friedel_no_dispersion (n : ℝ) (G : List Sg.Op) (cell : Fin 6 → ℝ) (atoms : List SF.Atom) (h : Fin 3 → ℝ)
    (hdisp : ∀ A ∈ atoms, A.disp = none) :
    SF.SFn n G cell atoms (-h) = (starRingEnd ℂ) (SF.SFn n G cell atoms h) :=
  friedel n G cell atoms h (fun A hA => by simp [SF.Atom.fpp, hdisp A hA])

/-! ### transformation law -/

/-- inner loop: contribution of one atom transforms with `exp(−2πi h·t_k)` -/
lemma atom_transform {G : List Sg.Op} (hG : GroupModLattice G) (n : ℝ) (cell : Fin 6 → ℝ) (A : SF.Atom)
    (h : Fin 3 → ℤ) {k : Sg.Op} (hk : k ∈ G)
    (hmetric : Tools.sintl cell (SF.castR (SF.hRot h k)) = Tools.sintl cell (SF.castR h)) :
    (G.map fun g => SF.closed (SF.castR (SF.hRot h k)) cell n A g).sum =
      (G.map fun g => SF.closed (SF.castR h) cell n A g).sum * SF.tfac h k := by
  simp only [SF.closed_transform A cell n h k _ hmetric]
  rw [List.sum_map_mul_right]
  congr 1
  have hp := ((hG.map_comp_perm hk).map (fun g => SF.closed (SF.castR h) cell n A g)).sum_eq
  rw [List.map_map] at hp
  exact hp

/-- C07 (transformation law), all ADP variants (none / Uiso / Uani) and with or without dispersion:
for an integer reflection `h` and any operation `k = (R,t)` of the group, `F(h·R) = F(h)·exp(−2πi h·t)`. -/
theorem sf_transform {G : List Sg.Op} (hG : GroupModLattice G) (n : ℝ) (cell : Fin 6 → ℝ) (atoms : List SF.Atom)
    (h : Fin 3 → ℤ) {k : Sg.Op} (hk : k ∈ G)
    (hmetric : Tools.sintl cell (SF.castR (SF.hRot h k)) = Tools.sintl cell (SF.castR h)) :
    SF.SFn n G cell atoms (SF.castR (SF.hRot h k)) =
      SF.SFn n G cell atoms (SF.castR h) *
        Complex.exp (((-(2 * Real.pi * (SF.castR h ⬝ᵥ SF.transR k)) : ℝ) : ℂ) * Complex.I) := by
  rw [SF.SFn_eq_closed, SF.SFn_eq_closed]
  simp only [atom_transform hG n cell _ h hk hmetric]
  rw [List.sum_map_mul_right]
  rfl

/-- C07: `h·t` of the transformation law is `(h₀t₁+h₁t₂+h₂t₃)/24` with the tabulated 24ths -/
theorem sf_transform_phase (h : Fin 3 → ℤ) (k : Sg.Op) :
    SF.castR h ⬝ᵥ SF.transR k = ((h 0 * k.t1 + h 1 * k.t2 + h 2 * k.t3 : ℤ) : ℝ) / 24 :=
  SF.castR_dot_transR h k

/-- C07 (equivalent reflections): `|F(h·R)| = |F(h)|` for every operation of the group. -/
theorem sf_abs_equiv {G : List Sg.Op} (hG : GroupModLattice G) (n : ℝ) (cell : Fin 6 → ℝ) (atoms : List SF.Atom)
    (h : Fin 3 → ℤ) {k : Sg.Op} (hk : k ∈ G)
    (hmetric : Tools.sintl cell (SF.castR (SF.hRot h k)) = Tools.sintl cell (SF.castR h)) :
    ‖SF.SFn n G cell atoms (SF.castR (SF.hRot h k))‖ = ‖SF.SFn n G cell atoms (SF.castR h)‖ := by
  rw [sf_transform hG n cell atoms h hk hmetric, norm_mul, Complex.norm_exp_ofReal_mul_I, mul_one]

/-- C07 (extinction): a reflection left invariant by the rotation part of an operation (`h·R = h`) whose
translation part gives a non-integer `h·t` (24 ∤ h₀t₁+h₁t₂+h₂t₃ in 24ths) has `F(h) = 0`.
No metric hypothesis is needed. -/
theorem sf_extinct_zero {G : List Sg.Op} (hG : GroupModLattice G) (n : ℝ) (cell : Fin 6 → ℝ) (atoms : List SF.Atom)
    (h : Fin 3 → ℤ) {k : Sg.Op} (hk : k ∈ G) (hinv : SF.hRot h k = h)
    (hfrac : ¬ (24 : ℤ) ∣ h 0 * k.t1 + h 1 * k.t2 + h 2 * k.t3) :
    SF.SFn n G cell atoms (SF.castR h) = 0 := by
  have ht := sf_transform hG n cell atoms h hk (by rw [hinv])
  rw [hinv] at ht
  set F := SF.SFn n G cell atoms (SF.castR h) with hF
  set E := Complex.exp (((-(2 * Real.pi * (SF.castR h ⬝ᵥ SF.transR k)) : ℝ) : ℂ) * Complex.I) with hE
  have hne : E ≠ 1 := by
    intro h1
    rw [hE, Complex.exp_eq_one_iff] at h1
    obtain ⟨m, hm⟩ := h1
    apply hfrac
    refine ⟨-m, ?_⟩
    rw [SF.castR_dot_transR] at hm
    have hI : Complex.I ≠ 0 := Complex.I_ne_zero
    have hpi : (Real.pi : ℂ) ≠ 0 := by exact_mod_cast Real.pi_ne_zero
    have h2 : ((-(2 * Real.pi * ((SF.hDotT24 h k : ℝ) / 24)) : ℝ) : ℂ) = (m : ℂ) * (2 * Real.pi) := by
      have := hm
      have e : (m : ℂ) * (2 * Real.pi * Complex.I) = ((m : ℂ) * (2 * Real.pi)) * Complex.I := by ring
      rw [e] at this
      exact mul_right_cancel₀ hI this
    have h3 : (-(2 * Real.pi * ((SF.hDotT24 h k : ℝ) / 24)) : ℝ) = (m : ℝ) * (2 * Real.pi) := by
      exact_mod_cast h2
    have h4 : (SF.hDotT24 h k : ℝ) = 24 * (-(m : ℝ)) := by
      have hp := Real.pi_pos
      have : (2 * Real.pi) * ((SF.hDotT24 h k : ℝ) + 24 * m) = 0 := by linarith
      rcases mul_eq_zero.1 this with h5 | h5
      · linarith
      · linarith
    have h5 : SF.hDotT24 h k = 24 * (-m) := by exact_mod_cast h4
    simpa [SF.hDotT24] using h5
  have : F * (1 - E) = 0 := by rw [mul_sub, mul_one, ← ht, sub_self]
  rcases mul_eq_zero.1 this with h0 | h0
  · exact h0
  · exact absurd (sub_eq_zero.1 h0).symm hne

/-! ### the metric hypothesis from metric preservation (link to C04 / C01) -/

/-- `hmetric` from C04-style metric preservation: if the rotation part of `k` preserves the direct metric tensor of
the cell (`RᵀGR = G`, what `Sg.checkMeta`/`Sg.preserves` certify for the metric basis of the crystal system, i.e. for
every cell conforming to it), then sin(θ)/λ is invariant under `h ↦ h·R` (uses C01: `BᵀB·G = 1`, `sintl² = |Bh|²/4`). -/
theorem hmetric_of_metric_preserved {cell : Fin 6 → ℝ} (hc : Spec.ValidCell cell) (k : Sg.Op)
    (hpres : (SF.rotR k)ᵀ * Spec.metric cell * SF.rotR k = Spec.metric cell) (h : Fin 3 → ℤ) :
    Tools.sintl cell (SF.castR (SF.hRot h k)) = Tools.sintl cell (SF.castR h) := by
  set R := SF.rotR k with hR
  set M := Spec.metric cell with hM
  set S := (Laue.form_b_mat cell)ᵀ * Laue.form_b_mat cell with hS
  have hSM : S * M = 1 := formB_gram_laue hc
  have hMS : M * S = 1 := mul_eq_one_comm.1 hSM
  have hL : (S * Rᵀ * M) * R = 1 := by
    rw [Matrix.mul_assoc, Matrix.mul_assoc, ← Matrix.mul_assoc Rᵀ, hpres, hSM]
  have hRL : R * (S * Rᵀ * M) = 1 := mul_eq_one_comm.1 hL
  have hinv : R * (S * Rᵀ) = S := by
    calc R * (S * Rᵀ) = R * (S * Rᵀ) * (M * S) := by rw [hMS, Matrix.mul_one]
      _ = (R * (S * Rᵀ * M)) * S := by simp only [Matrix.mul_assoc]
      _ = S := by rw [hRL, Matrix.one_mul]
  have hsq : ∀ v : Fin 3 → ℝ, Tools.sintl cell v ^ 2 = v ⬝ᵥ (S *ᵥ v) / (4 * (1 : ℝ) ^ 2) := by
    intro v
    have := sintl_sq_laue hc v
    rw [C01.mulVec_dot_self] at this
    exact this
  have h1 : Tools.sintl cell (SF.castR (SF.hRot h k)) ^ 2 = Tools.sintl cell (SF.castR h) ^ 2 := by
    rw [hsq, hsq, SF.castR_hRot]
    have q := SF.quad_vecMul (SF.castR h) R 1 S
    simp only [Matrix.transpose_one, Matrix.mul_one, Matrix.one_mul] at q
    rw [q, hinv]
  have n1 := sintl_nonneg_tools cell (SF.castR (SF.hRot h k))
  have n2 := sintl_nonneg_tools cell (SF.castR h)
  calc Tools.sintl cell (SF.castR (SF.hRot h k)) = Real.sqrt (Tools.sintl cell (SF.castR (SF.hRot h k)) ^ 2) :=
        (Real.sqrt_sq n1).symm
    _ = Real.sqrt (Tools.sintl cell (SF.castR h) ^ 2) := by rw [h1]
    _ = Tools.sintl cell (SF.castR h) := Real.sqrt_sq n2

/-! ### the hypotheses are satisfiable: P2₁ (`-x, y+1/2, -z`) on a monoclinic cell -/

/-- the screw operation of P2₁ -/
def k21 : Sg.Op := ⟨-1, 0, 0, 0, 1, 0, 0, 0, -1, 0, 12, 0⟩

example : GroupModLattice [Sg.one, k21] where
  one_mem := by simp
  closed := by
    intro a ha b hb
    simp only [List.mem_cons, List.not_mem_nil, or_false] at ha hb
    rcases ha with rfl | rfl <;> rcases hb with rfl | rfl <;> simp [Sg.comp, Sg.one, k21]
  inv := by
    intro a ha
    simp only [List.mem_cons, List.not_mem_nil, or_false] at ha
    rcases ha with rfl | rfl
    · exact ⟨Sg.one, by simp, by simp [Sg.comp, Sg.one]⟩
    · exact ⟨k21, by simp, by simp [Sg.comp, Sg.one, k21]⟩
  nodup := by simp [Sg.one, k21]
  reduced := by
    intro a ha
    simp only [List.mem_cons, List.not_mem_nil, or_false] at ha
    rcases ha with rfl | rfl <;> simp [Reduced, Sg.one, k21]

/-- the reflection 0k0 with k odd is extinguished by the screw axis: hypotheses of `sf_extinct_zero` hold -/
example : SF.hRot ![0, 1, 0] k21 = ![0, 1, 0] ∧
    ¬ (24 : ℤ) ∣ (![0, 1, 0] : Fin 3 → ℤ) 0 * k21.t1 + (![0, 1, 0] : Fin 3 → ℤ) 1 * k21.t2
      + (![0, 1, 0] : Fin 3 → ℤ) 2 * k21.t3 := by
  constructor
  · ext i; fin_cases i <;> simp [SF.hRot, k21]
  · simp [k21]

/-- `hmetric` holds for the screw operation on every monoclinic cell (unique axis b) and every reflection -/
example (a b c be : ℝ) (h : Fin 3 → ℤ) :
    Tools.sintl ![a, b, c, 90, be, 90] (SF.castR (SF.hRot h k21)) = Tools.sintl ![a, b, c, 90, be, 90] (SF.castR h) := by
  have e : (90 : ℝ) * Real.pi / 180 = Real.pi / 2 := by ring
  unfold Tools.sintl
  simp [SF.castR, SF.hRot, k21, e]

end C07
