/-
C07Perturb — the transformation law of the structure factor for the code's OWN translation tables (6-digit decimals).

Proofs/C07.lean / C07Tables.lean prove `F(h·R) = F(h)·exp(−2πi h·t)` for the model `SF.SFn` / `SF.SFtable`, whose
operations (`Sg.Op`) carry translations that are EXACT 24ths (0.333333 ↦ 8/24).  `xfab.structure.StructureFactor` uses
the tabulated 6-digit decimals of sglib.py themselves.  C04 (`Sg.SnapOk`, `Sg.TableFacts.snap`) proves that every
tabulated decimal is within 5·10⁻⁷ of its 24th.  This file closes the gap:

* `cexp_phase_lipschitz` : `‖exp(ix) − exp(iy)‖ ≤ |x − y|`.
* `phase_sum_perturb`    : abstract finite sum `Σ_j w_j·exp(i a_j)`: moving every phase by at most ε moves the sum by at
                           most `ε·Σ‖w_j‖`.
* `C07Perturb.SFτ`       : the double loop of `StructureFactor` over the TRACED summand `Structure.sf_term_*`, where each
                           operation carries an arbitrary REAL translation `τ` (list of pairs `(g, τ)`; only the
                           translation argument of the traced summand is replaced).  `SFτ_snapped`: with `τ = t/24` this
                           IS `SF.SFn`.
* `sf_perturb_bound`     : `|τ_k i − t_k i/24| ≤ δ` ⟹ `‖F_τ(h) − F_snap(h)‖ ≤ 2π·δ·|h|₁·S(h)`, `S = Σ_atoms Σ_ops ‖summand‖`.
* `sf_transform_tabulated` (abstract group) and `sf_transform_tabulated_tables` (all 237 generated tables, δ = 5·10⁻⁷,
  `F_τ` = `C07Perturb.SFtab`, the loop with the tabulated decimals `t_µ/10⁶`):
      `‖F_τ(h·R_k) − F_τ(h)·exp(−2πi h·t_k/24)‖ ≤ 2π·δ·(|h|₁ + |h·R_k|₁)·S(h)`
  — the tolerance `law_tol` of the test oracle (harness/props/c07.py) without its head-room factor 2; `S(h)` is the exact
  sum of the moduli of the summands (the oracle uses the upper bound ΣS = Σ occ·symmulti·(Σ|a_i|+|c|+|f'|+|f''|)).
-/
import XfabVerif.Proofs.C07Tables
import Mathlib.Analysis.SpecialFunctions.Trigonometric.Bounds

set_option linter.unusedVariables false
set_option linter.style.longLine false

open Matrix

/-! ### 1. Lipschitz bound of the phase factor -/

/-- C07Perturb (1): the phase factor is 1-Lipschitz in the phase: `‖exp(ix) − exp(iy)‖ ≤ |x − y|` for real `x y`. -/
theorem cexp_phase_lipschitz (x y : ℝ) :
    ‖Complex.exp (Complex.I * (x : ℂ)) - Complex.exp (Complex.I * (y : ℂ))‖ ≤ |x - y| := by
  have h : Complex.exp (Complex.I * (x : ℂ)) - Complex.exp (Complex.I * (y : ℂ))
      = Complex.exp (Complex.I * (y : ℂ)) * (Complex.exp (Complex.I * ((x - y : ℝ) : ℂ)) - 1) := by
    rw [mul_sub, mul_one, ← Complex.exp_add]
    congr 2
    push_cast
    ring
  rw [h, norm_mul, mul_comm Complex.I (y : ℂ), Complex.norm_exp_ofReal_mul_I, one_mul]
  exact Real.norm_exp_I_mul_ofReal_sub_one_le

namespace C07Perturb

/-- the same with the factor order `x·I` used by `SF.closed` -/
lemma cexp_lip' (x y : ℝ) :
    ‖Complex.exp ((x : ℂ) * Complex.I) - Complex.exp ((y : ℂ) * Complex.I)‖ ≤ |x - y| := by
  rw [mul_comm (x : ℂ), mul_comm (y : ℂ)]
  exact cexp_phase_lipschitz x y

/-- term-wise bound ⟹ bound of the difference of two list sums -/
lemma list_sum_sub_le {α : Type*} (L : List α) (f g : α → ℂ) (c : α → ℝ)
    (h : ∀ x ∈ L, ‖f x - g x‖ ≤ c x) :
    ‖(L.map f).sum - (L.map g).sum‖ ≤ (L.map c).sum := by
  induction L with
  | nil => simp
  | cons a L ih =>
    simp only [List.map_cons, List.sum_cons]
    have h1 := h a List.mem_cons_self
    have h2 := ih (fun x hx => h x (List.mem_cons_of_mem _ hx))
    calc ‖f a + (L.map f).sum - (g a + (L.map g).sum)‖
        = ‖(f a - g a) + ((L.map f).sum - (L.map g).sum)‖ := by congr 1; ring
      _ ≤ ‖f a - g a‖ + ‖(L.map f).sum - (L.map g).sum‖ := norm_add_le _ _
      _ ≤ c a + (L.map c).sum := add_le_add h1 h2

end C07Perturb

/-- C07Perturb (2, abstract form): for ANY finite family (list) of summands `w_j·exp(i a_j)`, moving every phase by at
most `ε` (`|a_j − b_j| ≤ ε`) moves the sum by at most `ε·Σ_j ‖w_j‖`. -/
theorem phase_sum_perturb {α : Type*} (L : List α) (w : α → ℂ) (a b : α → ℝ) (ε : ℝ)
    (h : ∀ j ∈ L, |a j - b j| ≤ ε) :
    ‖(L.map fun j => w j * Complex.exp ((a j : ℂ) * Complex.I)).sum -
        (L.map fun j => w j * Complex.exp ((b j : ℂ) * Complex.I)).sum‖ ≤ ε * (L.map fun j => ‖w j‖).sum := by
  rw [← List.sum_map_mul_left]
  apply C07Perturb.list_sum_sub_le
  intro j hj
  rw [← mul_sub, norm_mul, mul_comm]
  exact mul_le_mul_of_nonneg_right ((C07Perturb.cexp_lip' _ _).trans (h j hj)) (norm_nonneg _)

namespace C07Perturb

open SF

/-! ### 2. the structure factor with real translations -/

/-- the traced summand of one (atom, operation) pair with an arbitrary REAL translation `τ` in place of `SF.transR g`
(`mysg.trans[j]` as the code holds it); everything else exactly as `SF.term` -/
noncomputable def termτ (h : Fin 3 → ℝ) (cell : Fin 6 → ℝ) (n : ℝ) (A : Atom) (g : Sg.Op) (τ : Fin 3 → ℝ) : Fin 2 → ℝ :=
  match A.adp, A.disp with
  | .none, none => Structure.sf_term_none h cell A.data A.pos A.occ A.symmulti n (rotR g) τ
  | .none, some p => Structure.sf_term_none_disp h cell A.data A.pos A.occ A.symmulti n (rotR g) τ p.1 p.2
  | .uiso u, none => Structure.sf_term_Uiso h cell A.data A.pos A.occ A.symmulti n (rotR g) τ u
  | .uiso u, some p => Structure.sf_term_Uiso_disp h cell A.data A.pos A.occ A.symmulti n (rotR g) τ u p.1 p.2
  | .uani b, none => Structure.sf_term_Uani h cell A.data A.pos A.occ A.symmulti n (rotR g) τ b
  | .uani b, some p => Structure.sf_term_Uani_disp h cell A.data A.pos A.occ A.symmulti n (rotR g) τ b p.1 p.2

/-- an operation together with the real translation the code uses for it -/
abbrev TOp := Sg.Op × (Fin 3 → ℝ)

/-- the double loop of `StructureFactor` (divisor `n`) over operations with real translations -/
noncomputable def SFτ (n : ℝ) (P : List TOp) (cell : Fin 6 → ℝ) (atoms : List Atom) (h : Fin 3 → ℝ) : ℂ :=
  (atoms.map fun A => (P.map fun p => toC (termτ h cell n A p.1 p.2)).sum).sum

/-- Bridge: with the snapped translation `t/24` the τ-summand IS the model's summand. -/
theorem termτ_transR (h : Fin 3 → ℝ) (cell : Fin 6 → ℝ) (n : ℝ) (A : Atom) (g : Sg.Op) :
    termτ h cell n A g (transR g) = term h cell n A g := by
  obtain ⟨pos, occ, sm, adp, data, disp⟩ := A
  cases adp <;> cases disp <;> rfl

/-- Bridge: with the snapped translations the τ-structure factor IS `SF.SFn`. -/
theorem SFτ_snapped (n : ℝ) (G : List Sg.Op) (cell : Fin 6 → ℝ) (atoms : List Atom) (h : Fin 3 → ℝ) :
    SFτ n (G.map fun g => (g, transR g)) cell atoms h = SFn n G cell atoms h := by
  simp only [SFτ, SFn, atomSF, List.map_map, Function.comp_def, termτ_transR]

/-- textbook summand with a real translation -/
noncomputable def closedτ (h : Fin 3 → ℝ) (cell : Fin 6 → ℝ) (n : ℝ) (A : Atom) (g : Sg.Op) (τ : Fin 3 → ℝ) : ℂ :=
  ((A.occ * A.symmulti / n * dw A cell (rotR g) h : ℝ) : ℂ) * ffC A cell h *
    Complex.exp (((phase h (rotR g) τ A.pos : ℝ) : ℂ) * Complex.I)

/-- Bridge: the traced summand with real translation `τ` is the textbook term
`occ·symmulti/nsymop · T · (f+f'+i f'') · exp(2πi h·(R pos + τ))`. -/
theorem termτ_eq_closedτ (h : Fin 3 → ℝ) (cell : Fin 6 → ℝ) (n : ℝ) (A : Atom) (g : Sg.Op) (τ : Fin 3 → ℝ) :
    toC (termτ h cell n A g τ) = closedτ h cell n A g τ := by
  obtain ⟨pos, occ, sm, adp, data, disp⟩ := A
  unfold closedτ ffC
  rw [closed_aux]
  cases adp <;> cases disp <;>
    simp only [toC, termτ, dw, phase, Atom.fp, Atom.fpp, Structure.sf_term_none, Structure.sf_term_none_disp,
      Structure.sf_term_Uiso, Structure.sf_term_Uiso_disp, Structure.sf_term_Uani, Structure.sf_term_Uani_disp,
      Matrix.cons_val_zero, Matrix.cons_val_one] <;>
    apply Complex.ext <;> simp only [] <;> ring

/-- `|h₁|+|h₂|+|h₃|` -/
def l1 (h : Fin 3 → ℝ) : ℝ := |h 0| + |h 1| + |h 2|

lemma l1_castR (h : Fin 3 → ℤ) : l1 (castR h) = ((|h 0| + |h 1| + |h 2| : ℤ) : ℝ) := by
  simp [l1, castR]

/-- `S(h)`: the sum over atoms × operations of the modulus of the model's summand -/
noncomputable def absSum (n : ℝ) (G : List Sg.Op) (cell : Fin 6 → ℝ) (atoms : List Atom) (h : Fin 3 → ℝ) : ℝ :=
  (atoms.map fun A => (G.map fun g => ‖toC (term h cell n A g)‖).sum).sum

/-- the modulus of a summand is `|occ·symmulti/n·T|·|f+f'+if''|`, whatever the translation -/
lemma norm_closedτ (h : Fin 3 → ℝ) (cell : Fin 6 → ℝ) (n : ℝ) (A : Atom) (g : Sg.Op) (τ : Fin 3 → ℝ) :
    ‖closedτ h cell n A g τ‖ = ‖((A.occ * A.symmulti / n * dw A cell (rotR g) h : ℝ) : ℂ) * ffC A cell h‖ := by
  unfold closedτ
  rw [norm_mul, Complex.norm_exp_ofReal_mul_I, mul_one]

lemma norm_term (h : Fin 3 → ℝ) (cell : Fin 6 → ℝ) (n : ℝ) (A : Atom) (g : Sg.Op) :
    ‖toC (term h cell n A g)‖ = ‖((A.occ * A.symmulti / n * dw A cell (rotR g) h : ℝ) : ℂ) * ffC A cell h‖ := by
  rw [← termτ_transR, termτ_eq_closedτ, norm_closedτ]

/-- a translation error of at most `δ` per component moves the phase by at most `2π·δ·|h|₁` -/
lemma phase_sub_le (h : Fin 3 → ℝ) (R : Matrix (Fin 3) (Fin 3) ℝ) (τ τ' pos : Fin 3 → ℝ) (δ : ℝ)
    (hδ : ∀ i, |τ i - τ' i| ≤ δ) :
    |phase h R τ pos - phase h R τ' pos| ≤ 2 * Real.pi * δ * l1 h := by
  have e : phase h R τ pos - phase h R τ' pos =
      2 * Real.pi * (h 0 * (τ 0 - τ' 0) + h 1 * (τ 1 - τ' 1) + h 2 * (τ 2 - τ' 2)) := by
    unfold phase
    simp only [dotProduct, Fin.sum_univ_three, Pi.add_apply]
    ring
  have b : ∀ a d : ℝ, |d| ≤ δ → |a * d| ≤ |a| * δ := fun a d hd => by
    rw [abs_mul]; exact mul_le_mul_of_nonneg_left hd (abs_nonneg a)
  have t := abs_add_three (h 0 * (τ 0 - τ' 0)) (h 1 * (τ 1 - τ' 1)) (h 2 * (τ 2 - τ' 2))
  have b0 := b (h 0) _ (hδ 0)
  have b1 := b (h 1) _ (hδ 1)
  have b2 := b (h 2) _ (hδ 2)
  rw [e, abs_mul, abs_of_pos (by positivity : (0 : ℝ) < 2 * Real.pi)]
  have hp : (0 : ℝ) ≤ 2 * Real.pi := by positivity
  calc 2 * Real.pi * |h 0 * (τ 0 - τ' 0) + h 1 * (τ 1 - τ' 1) + h 2 * (τ 2 - τ' 2)|
      ≤ 2 * Real.pi * (l1 h * δ) := mul_le_mul_of_nonneg_left (by unfold l1; linarith) hp
    _ = 2 * Real.pi * δ * l1 h := by ring

/-- summand-wise perturbation bound -/
lemma closedτ_sub_le (h : Fin 3 → ℝ) (cell : Fin 6 → ℝ) (n : ℝ) (A : Atom) (g : Sg.Op) (τ : Fin 3 → ℝ) (δ : ℝ)
    (hδ : ∀ i, |τ i - transR g i| ≤ δ) :
    ‖toC (termτ h cell n A g τ) - toC (term h cell n A g)‖ ≤ 2 * Real.pi * δ * l1 h * ‖toC (term h cell n A g)‖ := by
  rw [norm_term, ← termτ_transR h cell n A g, termτ_eq_closedτ, termτ_eq_closedτ]
  unfold closedτ
  rw [← mul_sub, norm_mul, mul_comm]
  exact mul_le_mul_of_nonneg_right ((cexp_lip' _ _).trans (phase_sub_le h _ τ _ A.pos δ hδ)) (norm_nonneg _)

end C07Perturb

open C07Perturb in
/-- C07Perturb (2): structure-factor perturbation bound.  `SFτ` is the double loop of `StructureFactor` over the traced
summand with a REAL translation `τ_k` per operation; if `|τ_k i − t_k i/24| ≤ δ` for every operation and component then,
for every real `h`, `‖F_τ(h) − F_snap(h)‖ ≤ 2π·δ·(|h₁|+|h₂|+|h₃|)·S(h)` with `S(h) = Σ_atoms Σ_ops ‖summand‖`. -/
theorem sf_perturb_bound (n : ℝ) (P : List TOp) (cell : Fin 6 → ℝ) (atoms : List SF.Atom) (h : Fin 3 → ℝ) (δ : ℝ)
    (hδ : ∀ p ∈ P, ∀ i, |p.2 i - SF.transR p.1 i| ≤ δ) :
    ‖SFτ n P cell atoms h - SF.SFn n (P.map Prod.fst) cell atoms h‖ ≤
      2 * Real.pi * δ * l1 h * absSum n (P.map Prod.fst) cell atoms h := by
  unfold SFτ SF.SFn SF.atomSF absSum
  simp only [List.map_map, Function.comp_def]
  rw [← List.sum_map_mul_left]
  apply list_sum_sub_le
  intro A _
  rw [← List.sum_map_mul_left]
  apply list_sum_sub_le
  intro p hp
  exact closedτ_sub_le h cell n A p.1 p.2 δ (hδ p hp)

namespace C07Perturb

open SF

/-! ### 3. the transformation law up to the tolerance -/

lemma norm_tfac (h : Fin 3 → ℤ) (k : Sg.Op) : ‖tfac h k‖ = 1 := by
  unfold tfac
  exact Complex.norm_exp_ofReal_mul_I _

/-- `S` is invariant under `h ↦ h·R_k` (the summands are permuted and multiplied by a phase factor) -/
lemma absSum_transform {G : List Sg.Op} (hG : GroupModLattice G) (n : ℝ) (cell : Fin 6 → ℝ) (atoms : List Atom)
    (h : Fin 3 → ℤ) {k : Sg.Op} (hk : k ∈ G)
    (hmetric : Tools.sintl cell (castR (hRot h k)) = Tools.sintl cell (castR h)) :
    absSum n G cell atoms (castR (hRot h k)) = absSum n G cell atoms (castR h) := by
  unfold absSum
  congr 1
  apply List.map_congr_left
  intro A _
  simp only [term_eq_closed, closed_transform A cell n h k _ hmetric, norm_mul, norm_tfac, mul_one]
  have hp := ((hG.map_comp_perm hk).map (fun g => ‖closed (castR h) cell n A g‖)).sum_eq
  rw [List.map_map] at hp
  exact hp

end C07Perturb

open C07Perturb in
/-- C07Perturb (3, abstract group): the transformation law for the code's own translations, up to the oracle tolerance.
`P` lists the operations with the real translations the code uses; the snapped operations `P.map Prod.fst` form a group
modulo the lattice; every real translation is within `δ` of the snapped one.  Then for every integer reflection `h` and
every operation `k = (R,t)`: `‖F_τ(h·R) − F_τ(h)·exp(−2πi h·t)‖ ≤ 2π·δ·(|h|₁ + |h·R|₁)·S(h)` (`t` the exact 24th). -/
theorem sf_transform_tabulated {P : List TOp} (hG : SF.GroupModLattice (P.map Prod.fst)) (n : ℝ) (cell : Fin 6 → ℝ)
    (atoms : List SF.Atom) (h : Fin 3 → ℤ) {k : Sg.Op} (hk : k ∈ P.map Prod.fst)
    (hmetric : Tools.sintl cell (SF.castR (SF.hRot h k)) = Tools.sintl cell (SF.castR h))
    (δ : ℝ) (hδ : ∀ p ∈ P, ∀ i, |p.2 i - SF.transR p.1 i| ≤ δ) :
    ‖SFτ n P cell atoms (SF.castR (SF.hRot h k)) -
        SFτ n P cell atoms (SF.castR h) *
          Complex.exp (((-(2 * Real.pi * (SF.castR h ⬝ᵥ SF.transR k)) : ℝ) : ℂ) * Complex.I)‖ ≤
      2 * Real.pi * δ * (l1 (SF.castR h) + l1 (SF.castR (SF.hRot h k))) *
        absSum n (P.map Prod.fst) cell atoms (SF.castR h) := by
  have hlaw := C07.sf_transform hG n cell atoms h hk hmetric
  have b1 := sf_perturb_bound n P cell atoms (SF.castR (SF.hRot h k)) δ hδ
  have b2 := sf_perturb_bound n P cell atoms (SF.castR h) δ hδ
  rw [absSum_transform hG n cell atoms h hk hmetric] at b1
  rw [norm_sub_rev] at b2
  set E := Complex.exp (((-(2 * Real.pi * (SF.castR h ⬝ᵥ SF.transR k)) : ℝ) : ℂ) * Complex.I) with hE
  have hEn : ‖E‖ = 1 := Complex.norm_exp_ofReal_mul_I _
  have split : SFτ n P cell atoms (SF.castR (SF.hRot h k)) - SFτ n P cell atoms (SF.castR h) * E =
      (SFτ n P cell atoms (SF.castR (SF.hRot h k)) - SF.SFn n (P.map Prod.fst) cell atoms (SF.castR (SF.hRot h k))) +
        (SF.SFn n (P.map Prod.fst) cell atoms (SF.castR h) - SFτ n P cell atoms (SF.castR h)) * E := by
    rw [hlaw]; ring
  rw [split]
  refine (norm_add_le _ _).trans ?_
  rw [norm_mul, hEn, mul_one]
  calc _ ≤ 2 * Real.pi * δ * l1 (SF.castR (SF.hRot h k)) * absSum n (P.map Prod.fst) cell atoms (SF.castR h) +
        2 * Real.pi * δ * l1 (SF.castR h) * absSum n (P.map Prod.fst) cell atoms (SF.castR h) := add_le_add b1 b2
    _ = _ := by ring

namespace C07Perturb

open SF

/-! ### the generated tables with their tabulated decimals -/

/-- the tabulated translation of a table row as the code holds it: the 6-digit decimal `t_µ/10⁶` -/
noncomputable def tabR (o : SgOp) : Fin 3 → ℝ :=
  ![(o.t1 : ℝ) / 1000000, (o.t2 : ℝ) / 1000000, (o.t3 : ℝ) / 1000000]

/-- the rows of a table: snapped operation (rotation, 24ths) paired with the tabulated decimal translation -/
noncomputable def tabOps (t : SgTable) : List TOp := t.ops.map fun o => (Sg.ofSg o, tabR o)

/-- `StructureFactor` with the tabulated decimals: the first `nsymop` rows, divisor `nsymop` (cf. `SF.SFtable`) -/
noncomputable def SFtab (t : SgTable) (cell : Fin 6 → ℝ) (atoms : List Atom) (h : Fin 3 → ℝ) : ℂ :=
  SFτ (t.nsymop : ℝ) ((tabOps t).take t.nsymop) cell atoms h

lemma tabOps_fst (t : SgTable) : (tabOps t).map Prod.fst = Sg.opsOf t := by
  simp [tabOps, Sg.opsOf, List.map_map, Function.comp_def]

/-- C04's `SnapOk` in real form: the tabulated decimal is within 5·10⁻⁷ of the 24th of the exported operation -/
lemma tab_close {o : SgOp} (hs : Sg.SnapOk o.t1 ∧ Sg.SnapOk o.t2 ∧ Sg.SnapOk o.t3) :
    ∀ i, |tabR o i - transR (Sg.ofSg o) i| ≤ 5 / 10 ^ 7 := by
  obtain ⟨e1, e2, e3⟩ := Sg.ofSg_t_eq hs
  obtain ⟨⟨a1, b1, -, -⟩, ⟨a2, b2, -, -⟩, ⟨a3, b3, -, -⟩⟩ := hs
  have key : ∀ t k : ℤ, 24 * t - 1000000 * k ≤ 12 → 1000000 * k - 24 * t ≤ 12 →
      |(t : ℝ) / 1000000 - (k : ℝ) / 24| ≤ 5 / 10 ^ 7 := by
    intro t k ha hb
    have ha' : (24 * (t : ℝ) - 1000000 * (k : ℝ)) ≤ 12 := by exact_mod_cast ha
    have hb' : (1000000 * (k : ℝ) - 24 * (t : ℝ)) ≤ 12 := by exact_mod_cast hb
    rw [abs_le]
    constructor <;> norm_num <;> linarith
  intro i
  fin_cases i
  · simpa [tabR, transR, e1] using key _ _ a1 b1
  · simpa [tabR, transR, e2] using key _ _ a2 b2
  · simpa [tabR, transR, e3] using key _ _ a3 b3

lemma tabOps_close {t : SgTable} (hs : ∀ o ∈ t.ops, Sg.SnapOk o.t1 ∧ Sg.SnapOk o.t2 ∧ Sg.SnapOk o.t3) :
    ∀ p ∈ tabOps t, ∀ i, |p.2 i - transR p.1 i| ≤ 5 / 10 ^ 7 := by
  intro p hp
  simp only [tabOps, List.mem_map] at hp
  obtain ⟨o, ho, rfl⟩ := hp
  exact tab_close (hs o ho)

/-- for a generated table all rows are used -/
lemma SFtab_eq : ∀ kt ∈ Sg.allTables, ∀ (cell : Fin 6 → ℝ) (atoms : List Atom) (h : Fin 3 → ℝ),
    SFtab kt.2 cell atoms h = SFτ (kt.2.nsymop : ℝ) (tabOps kt.2) cell atoms h := by
  intro kt hkt cell atoms h
  have hlen := (all_tables_groups kt hkt).2
  have hl : (tabOps kt.2).length = kt.2.nsymop := by
    rw [← hlen, ← tabOps_fst, List.length_map]
  unfold SFtab
  rw [← hl, List.take_length]

end C07Perturb

open C07Perturb in
/-- C07Perturb (2, tables): for every generated table the code's structure factor (tabulated 6-digit translations,
`SFtab`) differs from the model's (`SF.SFtable`, exact 24ths) by at most `2π·5·10⁻⁷·|h|₁·S(h)`, for every cell, atom list
and real `h`. -/
theorem sf_tabulated_close_tables : ∀ kt ∈ Sg.allTables, ∀ (cell : Fin 6 → ℝ) (atoms : List SF.Atom) (h : Fin 3 → ℝ),
    ‖SFtab kt.2 cell atoms h - SF.SFtable kt.2 cell atoms h‖ ≤
      2 * Real.pi * (5 / 10 ^ 7) * l1 h * absSum (kt.2.nsymop : ℝ) (Sg.opsOf kt.2) cell atoms h := by
  intro kt hkt cell atoms h
  rw [SFtab_eq kt hkt, C07.SFtable_eq_SFn kt hkt, ← tabOps_fst]
  exact sf_perturb_bound _ _ cell atoms h _ (tabOps_close (all_tables_facts kt hkt).snap)

open C07Perturb in
/-- C07Perturb (3, tables): the transformation law holds for the code's own tables up to the oracle tolerance.  For every
generated space-group table, every valid cell conforming to its crystal system / setting, every atom list, every integer
reflection `h` and every operation `k = (R,t)` of the table, the structure factor computed with the TABULATED 6-digit
translations satisfies `‖F(h·R) − F(h)·exp(−2πi h·t)‖ ≤ 2π·5·10⁻⁷·(|h|₁ + |h·R|₁)·S(h)` (`t` the exact 24th). -/
theorem sf_transform_tabulated_tables : ∀ kt ∈ Sg.allTables, ∀ cell : Fin 6 → ℝ, Spec.ValidCell cell →
    Sg.Conforms kt.2.crystalSystem kt.2.cellChoice cell →
    ∀ (atoms : List SF.Atom) (h : Fin 3 → ℤ), ∀ k ∈ Sg.opsOf kt.2,
      ‖SFtab kt.2 cell atoms (SF.castR (SF.hRot h k)) -
          SFtab kt.2 cell atoms (SF.castR h) *
            Complex.exp (((-(2 * Real.pi * (SF.castR h ⬝ᵥ SF.transR k)) : ℝ) : ℂ) * Complex.I)‖ ≤
        2 * Real.pi * (5 / 10 ^ 7) * (l1 (SF.castR h) + l1 (SF.castR (SF.hRot h k))) *
          absSum (kt.2.nsymop : ℝ) (Sg.opsOf kt.2) cell atoms (SF.castR h) := by
  intro kt hkt cell hc hconf atoms h k hk
  rw [SFtab_eq kt hkt, SFtab_eq kt hkt, ← tabOps_fst]
  have hG : SF.GroupModLattice ((tabOps kt.2).map Prod.fst) := by
    rw [tabOps_fst]; exact C07.tables_group kt hkt
  exact sf_transform_tabulated hG _ cell atoms h (by rw [tabOps_fst]; exact hk)
    (C07.hmetric_tables kt hkt cell hc hconf h k hk) _ (tabOps_close (all_tables_facts kt hkt).snap)

/-! ### 4. `S(h)` is bounded by the oracle's total scattering power `ΣS` -/

namespace C07Perturb

open SF

/-- the oracle's scattering power of one atom: `|occ·symmulti|·(Σ|a_i| + |c| + |f'| + |f''|)` (`sigma_s` of
harness/props/c07.py) -/
noncomputable def sigmaA (A : Atom) : ℝ :=
  |A.occ * A.symmulti| * (|A.data 0| + |A.data 1| + |A.data 2| + |A.data 3| + |A.data 8| + |A.fp| + |A.fpp|)

/-- the oracle's `ΣS` -/
noncomputable def sigmaS (atoms : List Atom) : ℝ := (atoms.map sigmaA).sum

/-- a physical atom: Cromer–Mann exponents `b_i ≥ 0`, and `U ≥ 0` (isotropic) resp. `β` positive semidefinite
(anisotropic) — what makes `|f(s)| ≤ Σ|a_i|+|c|` and the Debye–Waller factor `≤ 1` -/
structure Physical (cell : Fin 6 → ℝ) (A : Atom) : Prop where
  b_nonneg : 0 ≤ A.data 4 ∧ 0 ≤ A.data 5 ∧ 0 ≤ A.data 6 ∧ 0 ≤ A.data 7
  adp_nonneg : match A.adp with
    | .none => True
    | .uiso u => 0 ≤ u
    | .uani b => ∀ v : Fin 3 → ℝ, 0 ≤ v ⬝ᵥ (Structure.Uij2betaij b cell *ᵥ v)

lemma formFactor_abs_le (data : Fin 9 → ℝ) (s : ℝ)
    (hb : 0 ≤ data 4 ∧ 0 ≤ data 5 ∧ 0 ≤ data 6 ∧ 0 ≤ data 7) :
    |Structure.FormFactor data s| ≤ |data 0| + |data 1| + |data 2| + |data 3| + |data 8| := by
  obtain ⟨h4, h5, h6, h7⟩ := hb
  have key : ∀ a b : ℝ, 0 ≤ b → |a * Real.exp (-b * s * s)| ≤ |a| := by
    intro a b hb
    have h1 : Real.exp (-b * s * s) ≤ 1 := Real.exp_le_one_iff.2 (by nlinarith [mul_self_nonneg s])
    rw [abs_mul, abs_of_pos (Real.exp_pos _)]
    calc |a| * Real.exp (-b * s * s) ≤ |a| * 1 := mul_le_mul_of_nonneg_left h1 (abs_nonneg a)
      _ = |a| := mul_one _
  unfold Structure.FormFactor
  simp only []
  have k0 := key (data 0) _ h4
  have k1 := key (data 1) _ h5
  have k2 := key (data 2) _ h6
  have k3 := key (data 3) _ h7
  refine (abs_add_le _ _).trans ?_
  refine (add_le_add_left ((abs_add_le _ _).trans
    (add_le_add_left ((abs_add_le _ _).trans (add_le_add_left (abs_add_le _ _) _)) _)) _).trans ?_
  linarith

lemma dw_bounds {cell : Fin 6 → ℝ} {A : Atom} (hA : Physical cell A) (R : Matrix (Fin 3) (Fin 3) ℝ) (h : Fin 3 → ℝ) :
    0 ≤ dw A cell R h ∧ dw A cell R h ≤ 1 := by
  have hadp := hA.adp_nonneg
  unfold dw
  cases hA' : A.adp with
  | none => simp
  | uiso u =>
    rw [hA'] at hadp
    simp only []
    refine ⟨(Real.exp_pos _).le, Real.exp_le_one_iff.2 ?_⟩
    have : 0 ≤ Real.pi ^ 2 * u * Tools.sintl cell h ^ 2 := by positivity
    linarith
  | uani b =>
    rw [hA'] at hadp
    simp only []
    refine ⟨(Real.exp_pos _).le, Real.exp_le_one_iff.2 ?_⟩
    have q := quad_vecMul h R 1 (Structure.Uij2betaij b cell)
    simp only [Matrix.transpose_one, Matrix.mul_one, Matrix.one_mul] at q
    rw [← q]
    have := hadp (h ᵥ* R)
    linarith

lemma norm_ffC_le {cell : Fin 6 → ℝ} {A : Atom} (hA : Physical cell A) (h : Fin 3 → ℝ) :
    ‖ffC A cell h‖ ≤ |A.data 0| + |A.data 1| + |A.data 2| + |A.data 3| + |A.data 8| + |A.fp| + |A.fpp| := by
  unfold ffC
  refine (Complex.norm_le_abs_re_add_abs_im _).trans ?_
  simp only []
  have := formFactor_abs_le A.data (Tools.sintl cell h) hA.b_nonneg
  have := abs_add_le (Structure.FormFactor A.data (Tools.sintl cell h)) A.fp
  linarith

lemma list_sum_le_length_mul {α : Type*} (L : List α) (f : α → ℝ) (c : ℝ) (h : ∀ x ∈ L, f x ≤ c) :
    (L.map f).sum ≤ L.length * c := by
  induction L with
  | nil => simp
  | cons a L ih =>
    simp only [List.map_cons, List.sum_cons, List.length_cons, Nat.cast_add, Nat.cast_one]
    have h1 := h a List.mem_cons_self
    have h2 := ih (fun x hx => h x (List.mem_cons_of_mem _ hx))
    linarith

lemma list_sum_le_sum {α : Type*} (L : List α) (f g : α → ℝ) (h : ∀ x ∈ L, f x ≤ g x) :
    (L.map f).sum ≤ (L.map g).sum := by
  induction L with
  | nil => simp
  | cons a L ih =>
    simp only [List.map_cons, List.sum_cons]
    exact add_le_add (h a List.mem_cons_self) (ih (fun x hx => h x (List.mem_cons_of_mem _ hx)))

/-- one summand is at most `1/n` of the atom's scattering power -/
lemma norm_term_le {cell : Fin 6 → ℝ} {A : Atom} (hA : Physical cell A) (n : ℝ) (hn : 0 < n) (h : Fin 3 → ℝ)
    (g : Sg.Op) : ‖toC (term h cell n A g)‖ ≤ sigmaA A / n := by
  rw [norm_term, norm_mul, Complex.norm_real, Real.norm_eq_abs]
  obtain ⟨d0, d1⟩ := dw_bounds hA (rotR g) h
  have e : |A.occ * A.symmulti / n * dw A cell (rotR g) h| = |A.occ * A.symmulti| / n * dw A cell (rotR g) h := by
    rw [abs_mul, abs_div, abs_of_pos hn, abs_of_nonneg d0]
  rw [e]
  unfold sigmaA
  have hw : 0 ≤ |A.occ * A.symmulti| / n := div_nonneg (abs_nonneg _) hn.le
  calc |A.occ * A.symmulti| / n * dw A cell (rotR g) h * ‖ffC A cell h‖
      ≤ |A.occ * A.symmulti| / n * 1 *
          (|A.data 0| + |A.data 1| + |A.data 2| + |A.data 3| + |A.data 8| + |A.fp| + |A.fpp|) :=
        mul_le_mul (mul_le_mul_of_nonneg_left d1 hw) (norm_ffC_le hA h) (norm_nonneg _) (by positivity)
    _ = _ := by ring

end C07Perturb

open C07Perturb in
/-- C07Perturb (link to the oracle): with the divisor `n = nsymop = len(ops) > 0` and physical atoms, the exact sum of
moduli `S(h)` is at most the oracle's total scattering power `ΣS = Σ |occ·symmulti|·(Σ|a_i|+|c|+|f'|+|f''|)`. -/
theorem absSum_le_sigmaS (G : List Sg.Op) (hG : G ≠ []) (cell : Fin 6 → ℝ) (atoms : List SF.Atom)
    (hphys : ∀ A ∈ atoms, Physical cell A) (h : Fin 3 → ℝ) :
    absSum (G.length : ℝ) G cell atoms h ≤ sigmaS atoms := by
  have hn : (0 : ℝ) < (G.length : ℝ) := by exact_mod_cast List.length_pos_iff.2 hG
  unfold absSum sigmaS
  apply list_sum_le_sum
  intro A hA
  refine (list_sum_le_length_mul G _ (sigmaA A / G.length) (fun g _ => norm_term_le (hphys A hA) _ hn h g)).trans ?_
  rw [mul_div_cancel₀ _ hn.ne']

open C07Perturb in
/-- C07Perturb (3, tables, oracle form): for physical atoms the residual of the transformation law of the code's own
tables is at most `2π·5·10⁻⁷·(|h|₁ + |h·R|₁)·ΣS` — `law_tol` of harness/props/c07.py without its head-room factor 2 and
rounding allowance. -/
theorem sf_transform_tabulated_tables_sigmaS : ∀ kt ∈ Sg.allTables, ∀ cell : Fin 6 → ℝ, Spec.ValidCell cell →
    Sg.Conforms kt.2.crystalSystem kt.2.cellChoice cell →
    ∀ (atoms : List SF.Atom), (∀ A ∈ atoms, Physical cell A) → ∀ (h : Fin 3 → ℤ), ∀ k ∈ Sg.opsOf kt.2,
      ‖SFtab kt.2 cell atoms (SF.castR (SF.hRot h k)) -
          SFtab kt.2 cell atoms (SF.castR h) *
            Complex.exp (((-(2 * Real.pi * (SF.castR h ⬝ᵥ SF.transR k)) : ℝ) : ℂ) * Complex.I)‖ ≤
        2 * Real.pi * (5 / 10 ^ 7) * (l1 (SF.castR h) + l1 (SF.castR (SF.hRot h k))) * sigmaS atoms := by
  intro kt hkt cell hc hconf atoms hphys h k hk
  refine (sf_transform_tabulated_tables kt hkt cell hc hconf atoms h k hk).trans ?_
  have hne : Sg.opsOf kt.2 ≠ [] := List.ne_nil_of_mem hk
  have hS := absSum_le_sigmaS (Sg.opsOf kt.2) hne cell atoms hphys (SF.castR h)
  rw [(all_tables_groups kt hkt).2] at hS
  have hl : 0 ≤ l1 (SF.castR h) + l1 (SF.castR (SF.hRot h k)) := by unfold l1; positivity
  exact mul_le_mul_of_nonneg_left hS (by positivity)

/-! ### 5. non-vacuity: P3₁ (`-y, x-y, z+1/3`; tabulated 0.333333 against 8/24) -/

namespace C07Perturb

/-- the 3₁ screw operation of P3₁ with the snapped translation 8/24 -/
def k31 : Sg.Op := ⟨0, -1, 0, 1, -1, 0, 0, 0, 1, 0, 0, 8⟩
/-- its square, translation 16/24 -/
def k31sq : Sg.Op := ⟨-1, 1, 0, -1, 0, 0, 0, 0, 1, 0, 0, 16⟩

/-- the three operations of P3₁ with the decimals of sglib.py -/
noncomputable def P31 : List TOp :=
  [(Sg.one, ![0, 0, 0]), (k31, ![0, 0, 333333 / 1000000]), (k31sq, ![0, 0, 666667 / 1000000])]

/-- the hypothesis of `sf_perturb_bound` / `sf_transform_tabulated` holds for P3₁ with δ = 5·10⁻⁷ (and fails for
δ = 3·10⁻⁷: the bound is not slack by more than a factor 5/3.4) -/
lemma P31_close : ∀ p ∈ P31, ∀ i, |p.2 i - SF.transR p.1 i| ≤ 5 / 10 ^ 7 := by
  intro p hp i
  simp only [P31, List.mem_cons, List.not_mem_nil, or_false] at hp
  rcases hp with rfl | rfl | rfl <;> fin_cases i <;>
    simp [SF.transR, Sg.one, k31, k31sq, abs_le] <;> norm_num

/-- a hexagonal cell -/
lemma validCell_hex : Spec.ValidCell ![4, 4, 6, 90, 90, 120] := by
  refine ⟨by show (0 : ℝ) < 4; norm_num, by show (0 : ℝ) < 4; norm_num, by show (0 : ℝ) < 6; norm_num,
    by show (0 : ℝ) < 90 ∧ (90 : ℝ) < 180; norm_num, by show (0 : ℝ) < 90 ∧ (90 : ℝ) < 180; norm_num,
    by show (0 : ℝ) < 120 ∧ (120 : ℝ) < 180; norm_num, ?_⟩
  show 0 < 1 - Real.cos (Spec.rad 90) ^ 2 - Real.cos (Spec.rad 90) ^ 2 - Real.cos (Spec.rad 120) ^ 2
    + 2 * Real.cos (Spec.rad 90) * Real.cos (Spec.rad 90) * Real.cos (Spec.rad 120)
  rw [Sg.cos_rad_90, Sg.cos_rad_120]
  norm_num

lemma n144_mem : ("n144", Sg.Tables.n144) ∈ Sg.allTables :=
  List.mem_of_getElem? (i := 143) rfl

lemma k31_mem : k31 ∈ Sg.opsOf Sg.Tables.n144 :=
  List.mem_cons_of_mem _ List.mem_cons_self

/-- one copper-like atom on a general position, isotropic displacement, with dispersion -/
noncomputable def atomEx : SF.Atom :=
  { pos := ![1 / 10, 1 / 5, 3 / 10], occ := 1, symmulti := 3, adp := .uiso (1 / 100),
    data := ![13, 7, 5, 2, 3, 0, 10, 26, 1], disp := some (-2, 1 / 2) }

end C07Perturb

open C07Perturb in
/-- the tabulated decimal 0.333333 is within 5·10⁻⁷ of 8/24 but not within 3·10⁻⁷ -/
example : |(333333 : ℝ) / 1000000 - 8 / 24| ≤ 5 / 10 ^ 7 ∧ ¬ |(333333 : ℝ) / 1000000 - 8 / 24| ≤ 3 / 10 ^ 7 := by
  constructor
  · rw [abs_le]; constructor <;> norm_num
  · rw [abs_le]; norm_num

open C07Perturb in
/-- `sf_perturb_bound` instantiated: P3₁ with the decimals of sglib.py, one atom, reflection (1,0,2), any cell -/
example (cell : Fin 6 → ℝ) :
    ‖SFτ 3 P31 cell [atomEx] ![1, 0, 2] - SF.SFn 3 [Sg.one, k31, k31sq] cell [atomEx] ![1, 0, 2]‖ ≤
      2 * Real.pi * (5 / 10 ^ 7) * 3 * absSum 3 [Sg.one, k31, k31sq] cell [atomEx] ![1, 0, 2] := by
  have h := sf_perturb_bound 3 P31 cell [atomEx] ![1, 0, 2] _ P31_close
  have e : l1 ![1, 0, 2] = 3 := by simp [l1]; norm_num
  rw [e] at h
  exact h

open C07Perturb in
/-- `sf_transform_tabulated_tables` instantiated: table P3₁ (n144) with its tabulated decimals, hexagonal cell, one atom,
`h = (1,0,2)`, `k` = the 3₁ screw: `h·R = (0,-1,2)`, `h·t = 2·8/24`, tolerance `2π·5·10⁻⁷·6·S`. -/
example :
    ‖SFtab Sg.Tables.n144 ![4, 4, 6, 90, 90, 120] [atomEx] (SF.castR ![0, -1, 2]) -
        SFtab Sg.Tables.n144 ![4, 4, 6, 90, 90, 120] [atomEx] (SF.castR ![1, 0, 2]) *
          Complex.exp (((-(2 * Real.pi * (16 / 24)) : ℝ) : ℂ) * Complex.I)‖ ≤
      2 * Real.pi * (5 / 10 ^ 7) * 6 *
        absSum 3 (Sg.opsOf Sg.Tables.n144) ![4, 4, 6, 90, 90, 120] [atomEx] (SF.castR ![1, 0, 2]) := by
  have hconf : Sg.Conforms Sg.Tables.n144.crystalSystem Sg.Tables.n144.cellChoice ![4, 4, 6, 90, 90, 120] := by
    simp [Sg.Conforms, Sg.Tables.n144]
  have h := sf_transform_tabulated_tables _ n144_mem _ validCell_hex hconf [atomEx] ![1, 0, 2] k31 k31_mem
  have eR : SF.hRot ![1, 0, 2] k31 = ![0, -1, 2] := by
    ext i; fin_cases i <;> simp [SF.hRot, k31]
  have et : SF.castR ![1, 0, 2] ⬝ᵥ SF.transR k31 = 16 / 24 := by
    rw [SF.castR_dot_transR]; simp [SF.hDotT24, k31]
  have e1 : l1 (SF.castR ![1, 0, 2]) = 3 := by simp [l1, SF.castR]; norm_num
  have e2 : l1 (SF.castR ![0, -1, 2]) = 3 := by simp [l1, SF.castR]; norm_num
  have en : ((Sg.Tables.n144.nsymop : ℕ) : ℝ) = 3 := by simp [Sg.Tables.n144]
  rw [eR, et, e1, e2, en] at h
  norm_num at h ⊢
  exact h

open C07Perturb in
/-- the example atom is physical (for any cell), so the oracle form `sf_transform_tabulated_tables_sigmaS` applies to it -/
example (cell : Fin 6 → ℝ) : Physical cell atomEx :=
  ⟨by simp [atomEx], by simp [atomEx]⟩
