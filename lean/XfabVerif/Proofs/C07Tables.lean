/-
C07Tables: integration ("glue") of C07 with C04 / C01.

Proofs/C07.lean proves the transformation law of the structure factor, `F(h·R) = F(h)·exp(−2πi h·t)`, for an ABSTRACT
operation list `G` under the hypotheses `SF.GroupModLattice G` and `hmetric` (sin(θ)/λ invariant under `h ↦ h·R`).
Proofs/C04.lean proves for every generated table of `Sg.allTables` (230 space groups + 7 rhombohedral settings):
`Sg.IsGroupModLattice (Sg.opsOf t)` (same five fields), `(Sg.opsOf t).length = t.nsymop`, and `all_tables_metric`
(`RᵀGR = G` for the metric tensor of every cell conforming to the crystal system / setting, `Sg.Conforms`).
`C07.hmetric_of_metric_preserved` turns metric preservation into `hmetric` (via C01).  Here these are joined: the C07
laws hold for the table-level model `SF.SFtable` (the first `nsymop` operations, divisor `nsymop`: exactly the loop of
`StructureFactor`) of every generated table, with hypotheses only: valid cell, cell conforming to the crystal system.

Conventions: `Sg.Op.mat` (Lemmas/C04Metric.lean) and `SF.rotR` (Lemmas/SFModel.lean) are the same matrix
(`!![r11,r12,r13; r21,…]`, `rfl`); both files use `RᵀGR = G` and C07 uses the row-vector action `h ↦ h·R` — consistent.
-/
import XfabVerif.Proofs.C07
import XfabVerif.Proofs.C04
import XfabVerif.Lemmas.SFModel
import XfabVerif.Lemmas.SgSound
import XfabVerif.Lemmas.C04Metric
import XfabVerif.Proofs.C01

set_option linter.unusedVariables false
set_option linter.style.longLine false

open Matrix

namespace C07

/-- field-for-field conversion of the group structure delivered by `Sg.checkGroup_sound` (Lemmas/SgSound.lean) into the
local restatement of Lemmas/SFModel.lean used by C07 / C08 -/
lemma groupModLattice_of_sg {G : List Sg.Op} (h : Sg.IsGroupModLattice G) : SF.GroupModLattice G :=
  ⟨h.one_mem, h.closed, h.inv, h.nodup, fun a ha => h.reduced a ha⟩

/-- the rotation matrix of C04 (`Sg.Op.mat`) is the rotation matrix of the structure-factor model (`SF.rotR`) -/
lemma mat_eq_rotR (a : Sg.Op) : a.mat = SF.rotR a := rfl

/-- every generated table is a group modulo the lattice in the sense of Lemmas/SFModel.lean -/
lemma tables_group : ∀ kt ∈ Sg.allTables, SF.GroupModLattice (Sg.opsOf kt.2) :=
  fun kt hkt => groupModLattice_of_sg (all_tables_groups kt hkt).1

/-- for a generated table the table-level model (first `nsymop` rows, divisor `nsymop`) is the sum over the WHOLE
operation list with divisor `nsymop` -/
lemma SFtable_eq_SFn : ∀ kt ∈ Sg.allTables, ∀ (cell : Fin 6 → ℝ) (atoms : List SF.Atom) (h : Fin 3 → ℝ),
    SF.SFtable kt.2 cell atoms h = SF.SFn (kt.2.nsymop : ℝ) (Sg.opsOf kt.2) cell atoms h := by
  intro kt hkt cell atoms h
  have hlen := (all_tables_groups kt hkt).2
  unfold SF.SFtable
  rw [← hlen, List.take_length]

/-- for a generated table the table-level model is `SF.SF` of the whole operation list (`nsymop = len(ops)`) -/
lemma SFtable_eq_SF : ∀ kt ∈ Sg.allTables, ∀ (cell : Fin 6 → ℝ) (atoms : List SF.Atom) (h : Fin 3 → ℝ),
    SF.SFtable kt.2 cell atoms h = SF.SF (Sg.opsOf kt.2) cell atoms h := by
  intro kt hkt cell atoms h
  rw [SFtable_eq_SFn kt hkt]
  unfold SF.SF
  rw [(all_tables_groups kt hkt).2]

/-- `hmetric` for every operation of every generated table, every valid cell conforming to the table's crystal
system / setting, every integer reflection (C04 metric clause + C01 via `hmetric_of_metric_preserved`) -/
lemma hmetric_tables : ∀ kt ∈ Sg.allTables, ∀ cell : Fin 6 → ℝ, Spec.ValidCell cell →
    Sg.Conforms kt.2.crystalSystem kt.2.cellChoice cell → ∀ (h : Fin 3 → ℤ), ∀ k ∈ Sg.opsOf kt.2,
      Tools.sintl cell (SF.castR (SF.hRot h k)) = Tools.sintl cell (SF.castR h) := by
  intro kt hkt cell hc hconf h k hk
  exact hmetric_of_metric_preserved hc k (all_tables_metric kt hkt k hk cell hconf) h

end C07

open C07

/-- C07 (transformation law), all generated tables, unconditional: for every generated space-group table, every valid
cell conforming to its crystal system / setting, every atom list (all ADP variants, with or without dispersion), every
integer reflection `h` and every operation `k = (R,t)` of the table,
`StructureFactor(h·R) = StructureFactor(h) · exp(−2πi h·t)`. -/
theorem sf_transform_tables : ∀ kt ∈ Sg.allTables, ∀ cell : Fin 6 → ℝ, Spec.ValidCell cell →
    Sg.Conforms kt.2.crystalSystem kt.2.cellChoice cell →
    ∀ (atoms : List SF.Atom) (h : Fin 3 → ℤ), ∀ k ∈ Sg.opsOf kt.2,
      SF.SFtable kt.2 cell atoms (SF.castR (SF.hRot h k)) =
        SF.SFtable kt.2 cell atoms (SF.castR h) *
          Complex.exp (((-(2 * Real.pi * (SF.castR h ⬝ᵥ SF.transR k)) : ℝ) : ℂ) * Complex.I) := by
  intro kt hkt cell hc hconf atoms h k hk
  rw [SFtable_eq_SFn kt hkt, SFtable_eq_SFn kt hkt]
  exact C07.sf_transform (tables_group kt hkt) _ cell atoms h hk (hmetric_tables kt hkt cell hc hconf h k hk)

/-- C07 (transformation law), all generated tables, for the list-level model `SF.SF (Sg.opsOf t)`
(`nsymop = len(ops)`, which C04 proves for every generated table). -/
theorem sf_transform_tables_SF : ∀ kt ∈ Sg.allTables, ∀ cell : Fin 6 → ℝ, Spec.ValidCell cell →
    Sg.Conforms kt.2.crystalSystem kt.2.cellChoice cell →
    ∀ (atoms : List SF.Atom) (h : Fin 3 → ℤ), ∀ k ∈ Sg.opsOf kt.2,
      SF.SF (Sg.opsOf kt.2) cell atoms (SF.castR (SF.hRot h k)) =
        SF.SF (Sg.opsOf kt.2) cell atoms (SF.castR h) *
          Complex.exp (((-(2 * Real.pi * (SF.castR h ⬝ᵥ SF.transR k)) : ℝ) : ℂ) * Complex.I) := by
  intro kt hkt cell hc hconf atoms h k hk
  rw [← SFtable_eq_SF kt hkt, ← SFtable_eq_SF kt hkt]
  exact sf_transform_tables kt hkt cell hc hconf atoms h k hk

/-- C07 (equivalent reflections), all generated tables, unconditional: symmetry-equivalent reflections have equal
`|F|`: `|StructureFactor(h·R)| = |StructureFactor(h)|` for every operation of the table. -/
theorem sf_abs_equiv_tables : ∀ kt ∈ Sg.allTables, ∀ cell : Fin 6 → ℝ, Spec.ValidCell cell →
    Sg.Conforms kt.2.crystalSystem kt.2.cellChoice cell →
    ∀ (atoms : List SF.Atom) (h : Fin 3 → ℤ), ∀ k ∈ Sg.opsOf kt.2,
      ‖SF.SFtable kt.2 cell atoms (SF.castR (SF.hRot h k))‖ = ‖SF.SFtable kt.2 cell atoms (SF.castR h)‖ := by
  intro kt hkt cell hc hconf atoms h k hk
  rw [sf_transform_tables kt hkt cell hc hconf atoms h k hk, norm_mul, Complex.norm_exp_ofReal_mul_I, mul_one]

/-- C07 (extinction), all generated tables, unconditional (no condition on the cell at all): a reflection left
invariant by the rotation part of an operation of the table (`h·R = h`) whose translation part gives a non-integer
`h·t` (`24 ∤ h₀t₁+h₁t₂+h₂t₃`, translations in 24ths) has `StructureFactor(h) = 0`. -/
theorem sf_extinct_zero_tables : ∀ kt ∈ Sg.allTables, ∀ (cell : Fin 6 → ℝ) (atoms : List SF.Atom) (h : Fin 3 → ℤ),
    ∀ k ∈ Sg.opsOf kt.2, SF.hRot h k = h → ¬ (24 : ℤ) ∣ h 0 * k.t1 + h 1 * k.t2 + h 2 * k.t3 →
      SF.SFtable kt.2 cell atoms (SF.castR h) = 0 := by
  intro kt hkt cell atoms h k hk hinv hfrac
  rw [SFtable_eq_SFn kt hkt]
  exact C07.sf_extinct_zero (tables_group kt hkt) _ cell atoms h hk hinv hfrac

/-- C07 (Friedel), table level (no group or cell hypothesis needed): without an imaginary dispersion part
`StructureFactor(−h) = conj StructureFactor(h)` for every table. -/
theorem friedel_tables (t : SgTable) (cell : Fin 6 → ℝ) (atoms : List SF.Atom) (h : Fin 3 → ℝ)
    (hdisp : ∀ A ∈ atoms, A.fpp = 0) :
    SF.SFtable t cell atoms (-h) = (starRingEnd ℂ) (SF.SFtable t cell atoms h) :=
  C07.friedel _ _ cell atoms h hdisp

/-! ### non-vacuity -/

/-- the hypotheses are satisfiable: `n2` (P-1, triclinic) is a generated table, every valid cell conforms to it; e.g.
the non-orthogonal cell `4, 5, 6, 90, 90, 60` of C01 -/
example (atoms : List SF.Atom) (h : Fin 3 → ℤ) : ∀ k ∈ Sg.opsOf Sg.Tables.n2,
    ‖SF.SFtable Sg.Tables.n2 ![4, 5, 6, 90, 90, 60] atoms (SF.castR (SF.hRot h k))‖ =
      ‖SF.SFtable Sg.Tables.n2 ![4, 5, 6, 90, 90, 60] atoms (SF.castR h)‖ := by
  have hmem : ("n2", Sg.Tables.n2) ∈ Sg.allTables := by
    unfold Sg.allTables; exact List.mem_cons_of_mem _ List.mem_cons_self
  have hconf : Sg.Conforms Sg.Tables.n2.crystalSystem Sg.Tables.n2.cellChoice ![4, 5, 6, 90, 90, 60] := by
    simp [Sg.Conforms, Sg.Tables.n2]
  exact sf_abs_equiv_tables _ hmem _ validCell_example hconf atoms h
