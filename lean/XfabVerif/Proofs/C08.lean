/-
C08 — the structure factor is the direct sum over the atoms of the unit cell.

  "StructureFactor(hkl) equals the direct sum over every atom of the unit cell (the P1 expansion of the asymmetric
   unit) of occupancy × (f(s)+f'+i f'') × Debye–Waller factor × exp(2πi h·r), with s = sin(θ)/λ of hkl in the given
   cell.  Consequently it is unchanged when an atom is shifted by a lattice vector, linear in occupancy, identical
   for an isotropic U and the anisotropic tensor that represents the same isotropic motion, and with zero
   displacement F(000) is the occupancy-weighted form-factor sum."

Model: `SF.SFn n G cell atoms h` / `SF.SF G cell atoms h` of `Lemmas/SFModel.lean` = the double loop of
`xfab.structure.StructureFactor` as a `List.sum` of the TRACED summand `Structure.sf_term_*` over an operation
list `G` (`n` = `mysg.nsymop`).  The bridge traced-summand → textbook term is `SF.term_eq_closed`
(obligation `sf_term_bridge` of C07, re-exported here as `C08.sf_eq_weighted_sum`).
-/
import XfabVerif.Lemmas.SFModel
import XfabVerif.Proofs.C01

set_option linter.unusedVariables false
set_option linter.style.longLine false

open Matrix SF

namespace C08

/-- the P1-expansion term of the image of atom `A` under operation `g`:
`occ · T · (f(s)+f'+i f'') · exp(2πi h·(R pos + t))` -/
noncomputable def p1term (h : Fin 3 → ℝ) (cell : Fin 6 → ℝ) (A : SF.Atom) (g : Sg.Op) : ℂ :=
  ((A.occ * SF.dw A cell (SF.rotR g) h : ℝ) : ℂ) * SF.ffC A cell h *
    Complex.exp (((2 * Real.pi * (h ⬝ᵥ (SF.rotR g *ᵥ A.pos + SF.transR g)) : ℝ) : ℂ) * Complex.I)

lemma closed_eq_p1term (h : Fin 3 → ℝ) (cell : Fin 6 → ℝ) (n : ℝ) (A : SF.Atom) (g : Sg.Op) :
    SF.closed h cell n A g = ((A.symmulti / n : ℝ) : ℂ) * p1term h cell A g := by
  unfold SF.closed p1term SF.phase
  push_cast
  ring

/-- C08 (weighted form, no hypothesis): `StructureFactor` is the double sum over atoms and operations of
`symmulti/nsymop` × the P1-expansion term. -/
theorem sf_eq_weighted_sum (n : ℝ) (G : List Sg.Op) (cell : Fin 6 → ℝ) (atoms : List SF.Atom) (h : Fin 3 → ℝ) :
    SF.SFn n G cell atoms h =
      (atoms.map fun A => (G.map fun g => ((A.symmulti / n : ℝ) : ℂ) * p1term h cell A g).sum).sum := by
  rw [SF.SFn_eq_closed]
  simp only [closed_eq_p1term]

/-- C08 (direct sum, general positions): when every atom carries the site multiplicity of a general position
(`symmulti = nsymop ≠ 0`) the structure factor is the plain sum over all images `r = R pos + t` of the atoms of
`occ · (f(s)+f'+i f'') · T · exp(2πi h·r)`. -/
theorem sf_eq_direct_sum_general (n : ℝ) (hn : n ≠ 0) (G : List Sg.Op) (cell : Fin 6 → ℝ) (atoms : List SF.Atom)
    (h : Fin 3 → ℝ) (hgen : ∀ A ∈ atoms, A.symmulti = n) :
    SF.SFn n G cell atoms h = (atoms.map fun A => (G.map fun g => p1term h cell A g).sum).sum := by
  rw [sf_eq_weighted_sum]
  congr 1
  apply List.map_congr_left
  intro A hA
  rw [hgen A hA, div_self hn]
  simp

/-- C08 (direct sum, general positions) for `nsymop = len(ops)`. -/
theorem sf_eq_direct_sum_general_len (G : List Sg.Op) (hG : G ≠ []) (cell : Fin 6 → ℝ) (atoms : List SF.Atom)
    (h : Fin 3 → ℝ) (hgen : ∀ A ∈ atoms, A.symmulti = (G.length : ℝ)) :
    SF.SF G cell atoms h = (atoms.map fun A => (G.map fun g => p1term h cell A g).sum).sum := by
  have hn : (G.length : ℝ) ≠ 0 := by
    have : G.length ≠ 0 := fun h0 => hG (List.length_eq_zero_iff.1 h0)
    exact_mod_cast this
  exact sf_eq_direct_sum_general _ hn G cell atoms h hgen

/-! ### lattice shifts -/

/-- the atom moved by an integer (lattice) vector -/
def shift (A : SF.Atom) (m : Fin 3 → ℤ) : SF.Atom := { A with pos := A.pos + SF.castR m }

lemma closed_shift (h : Fin 3 → ℤ) (cell : Fin 6 → ℝ) (n : ℝ) (A : SF.Atom) (m : Fin 3 → ℤ) (g : Sg.Op) :
    SF.closed (SF.castR h) cell n (shift A m) g = SF.closed (SF.castR h) cell n A g := by
  have hph : SF.phase (SF.castR h) (SF.rotR g) (SF.transR g) (shift A m).pos =
      SF.phase (SF.castR h) (SF.rotR g) (SF.transR g) A.pos + ((SF.hRot h g ⬝ᵥ m : ℤ) : ℝ) * (2 * Real.pi) := by
    rw [← SF.castR_dot_castR, SF.castR_hRot]
    unfold SF.phase shift
    simp only [Matrix.mulVec_add, dotProduct_add, ← Matrix.dotProduct_mulVec]
    ring
  unfold SF.closed
  rw [hph]
  have e : (((SF.phase (SF.castR h) (SF.rotR g) (SF.transR g) A.pos + ((SF.hRot h g ⬝ᵥ m : ℤ) : ℝ) * (2 * Real.pi) : ℝ) : ℂ)
      * Complex.I) = ((SF.phase (SF.castR h) (SF.rotR g) (SF.transR g) A.pos : ℝ) : ℂ) * Complex.I +
        ((SF.hRot h g ⬝ᵥ m : ℤ) : ℂ) * (2 * Real.pi * Complex.I) := by
    push_cast; ring
  rw [e, Complex.exp_add, Complex.exp_int_mul_two_pi_mul_I, mul_one]
  rfl

/-- C08 (lattice shift): for an integer reflection the structure factor does not change when atoms are moved by
lattice vectors (`m A` is the integer shift applied to atom `A`; take `m A = 0` for the atoms left in place). -/
theorem sf_lattice_shift (n : ℝ) (G : List Sg.Op) (cell : Fin 6 → ℝ) (atoms : List SF.Atom) (h : Fin 3 → ℤ)
    (m : SF.Atom → Fin 3 → ℤ) :
    SF.SFn n G cell (atoms.map fun A => shift A (m A)) (SF.castR h) = SF.SFn n G cell atoms (SF.castR h) := by
  rw [SF.SFn_eq_closed, SF.SFn_eq_closed, List.map_map]
  congr 1
  apply List.map_congr_left
  intro A _
  simp only [Function.comp, closed_shift]

/-! ### linearity in the occupancy -/

/-- the atom with another occupancy -/
def withOcc (A : SF.Atom) (o : ℝ) : SF.Atom := { A with occ := o }

lemma closed_withOcc (h : Fin 3 → ℝ) (cell : Fin 6 → ℝ) (n : ℝ) (A : SF.Atom) (o : ℝ) (g : Sg.Op) :
    SF.closed h cell n (withOcc A o) g = (o : ℂ) * SF.closed h cell n (withOcc A 1) g := by
  unfold SF.closed withOcc
  simp only [SF.dw, SF.ffC, SF.Atom.fp, SF.Atom.fpp]
  push_cast
  ring

/-- C08 (linearity in occupancy, one atom): the contribution of an atom is `occ` × the contribution of the same
atom with unit occupancy; in particular it is additive and homogeneous in `occ`. -/
theorem atom_linear_occ (n : ℝ) (G : List Sg.Op) (cell : Fin 6 → ℝ) (A : SF.Atom) (o : ℝ) (h : Fin 3 → ℝ) :
    SF.atomSF n G cell (withOcc A o) h = (o : ℂ) * SF.atomSF n G cell (withOcc A 1) h := by
  rw [SF.atomSF_eq_closed, SF.atomSF_eq_closed, ← List.sum_map_mul_left]
  simp only [closed_withOcc h cell n A o]

/-- C08 (linearity in occupancy): `F` with occupancies `c₁·o₁ + c₂·o₂` is `c₁·F(o₁) + c₂·F(o₂)` (one atom) -/
theorem sf_linear_occ (n : ℝ) (G : List Sg.Op) (cell : Fin 6 → ℝ) (A : SF.Atom) (c1 c2 o1 o2 : ℝ) (h : Fin 3 → ℝ) :
    SF.atomSF n G cell (withOcc A (c1 * o1 + c2 * o2)) h =
      (c1 : ℂ) * SF.atomSF n G cell (withOcc A o1) h + (c2 : ℂ) * SF.atomSF n G cell (withOcc A o2) h := by
  rw [atom_linear_occ n G cell A (c1 * o1 + c2 * o2), atom_linear_occ n G cell A o1, atom_linear_occ n G cell A o2]
  push_cast
  ring

/-- C08 (linearity in occupancy, whole list): scaling every occupancy by `c` scales `F` by `c`. -/
theorem sf_scale_occ (n : ℝ) (G : List Sg.Op) (cell : Fin 6 → ℝ) (atoms : List SF.Atom) (c : ℝ) (h : Fin 3 → ℝ) :
    SF.SFn n G cell (atoms.map fun A => withOcc A (c * A.occ)) h = (c : ℂ) * SF.SFn n G cell atoms h := by
  unfold SF.SFn
  rw [List.map_map, ← List.sum_map_mul_left]
  congr 1
  apply List.map_congr_left
  intro A _
  simp only [Function.comp]
  have e : A = withOcc A A.occ := rfl
  conv_rhs => rw [e, atom_linear_occ n G cell A A.occ]
  rw [atom_linear_occ n G cell A (c * A.occ)]
  push_cast
  ring

/-- C08 (additivity over the atom list): `F` of a concatenated atom list is the sum of the `F`s. -/
theorem sf_append (n : ℝ) (G : List Sg.Op) (cell : Fin 6 → ℝ) (atoms1 atoms2 : List SF.Atom) (h : Fin 3 → ℝ) :
    SF.SFn n G cell (atoms1 ++ atoms2) h = SF.SFn n G cell atoms1 h + SF.SFn n G cell atoms2 h := by
  unfold SF.SFn
  rw [List.map_append, List.sum_append]

/-! ### F(000) -/

lemma sintl_zero (cell : Fin 6 → ℝ) : Tools.sintl cell 0 = 0 := by
  unfold Tools.sintl
  simp

lemma dw_zero (A : SF.Atom) (cell : Fin 6 → ℝ) (R : Matrix (Fin 3) (Fin 3) ℝ) : SF.dw A cell R 0 = 1 := by
  unfold SF.dw
  cases A.adp with
  | none => rfl
  | uiso u => simp [sintl_zero]
  | uani b => simp

/-- `f(0)` is the sum of the five amplitudes of the analytic fit -/
theorem formfactor_zero (data : Fin 9 → ℝ) :
    Structure.FormFactor data 0 = data 0 + data 1 + data 2 + data 3 + data 8 := by
  unfold Structure.FormFactor
  simp

/-- C08 (F(000)): at `hkl = 000` the structure factor is `Σ occ·symmulti·(f(0)+f' + i f'')` — for zero displacement
as the property states, and in fact for every ADP variant since every Debye–Waller factor is 1 at `h = 0`. -/
theorem sf_000 (G : List Sg.Op) (hG : G ≠ []) (cell : Fin 6 → ℝ) (atoms : List SF.Atom) :
    SF.SF G cell atoms 0 =
      (atoms.map fun A => ((A.occ * A.symmulti : ℝ) : ℂ) *
        (⟨Structure.FormFactor A.data 0 + A.fp, A.fpp⟩ : ℂ)).sum := by
  have hn : (G.length : ℝ) ≠ 0 := by
    have : G.length ≠ 0 := fun h0 => hG (List.length_eq_zero_iff.1 h0)
    exact_mod_cast this
  unfold SF.SF
  rw [SF.SFn_eq_closed]
  congr 1
  apply List.map_congr_left
  intro A _
  have hc : ∀ g : Sg.Op, SF.closed 0 cell (G.length : ℝ) A g =
      ((A.occ * A.symmulti / (G.length : ℝ) : ℝ) : ℂ) * (⟨Structure.FormFactor A.data 0 + A.fp, A.fpp⟩ : ℂ) := by
    intro g
    unfold SF.closed SF.phase SF.ffC
    rw [dw_zero, sintl_zero]
    simp
  simp only [hc, List.map_const', List.sum_replicate, nsmul_eq_mul]
  have hnc : (G.length : ℂ) ≠ 0 := by exact_mod_cast hn
  generalize (⟨Structure.FormFactor A.data 0 + A.fp, A.fpp⟩ : ℂ) = Z
  push_cast
  field_simp

/-! ### isotropic U ≡ the anisotropic tensor of the same isotropic motion -/

/-- the anisotropic tensor `[U11,U22,U33,U23,U13,U12]` that represents the isotropic mean-square displacement `U`
in the given cell: `U_ij = U·cos∠(a*_i, a*_j)` (reciprocal-cell angles from `tools.cell_invert`) -/
noncomputable def isoAdp (U : ℝ) (cell : Fin 6 → ℝ) : Fin 6 → ℝ :=
  ![U, U, U, U * Real.cos (Spec.rad (Tools.cell_invert cell 3)), U * Real.cos (Spec.rad (Tools.cell_invert cell 4)),
    U * Real.cos (Spec.rad (Tools.cell_invert cell 5))]

section iso
variable {a b c ca cb cg sa sb sg S : ℝ}

lemma cos_arccos_of_trig {s x : ℝ} (h : s ^ 2 + x ^ 2 = 1) (hs : 0 < s) : Real.cos (Real.arccos x) = x := by
  obtain ⟨h1, h2⟩ := C01.abs_lt_one_of_trig h hs
  exact Real.cos_arccos h1.le h2.le

/-- `β` of the isotropic-equivalent tensor is `2π²U` × the reciprocal metric tensor -/
lemma beta_iso {cell : Fin 6 → ℝ} (hc : Spec.ValidCell cell) (U : ℝ) :
    Structure.Uij2betaij (isoAdp U cell) cell =
      (2 * Real.pi ^ 2 * U) • C01.Gstar (cell 0) (cell 1) (cell 2) (Real.cos (Spec.rad (cell 3)))
        (Real.cos (Spec.rad (cell 4))) (Real.cos (Spec.rad (cell 5))) (Real.sqrt (Spec.gramD cell) ^ 2) := by
  have T := C01.trig_of_valid hc
  have RT := C01.recip_trig T
  have hX := cos_arccos_of_trig RT.ea RT.sa_pos
  have hY := cos_arccos_of_trig RT.eb RT.sb_pos
  have hZ := cos_arccos_of_trig RT.eg RT.sg_pos
  have ha := hc.a_pos; have hb := hc.b_pos; have hcc := hc.c_pos
  have hS := T.S_pos
  have hsa := T.sa_pos; have hsb := T.sb_pos; have hsg := T.sg_pos
  have ea := T.ea; have eb := T.eb; have eg := T.eg; have hS2 := T.S_sq
  have ha' := ha.ne'; have hb' := hb.ne'; have hc' := hcc.ne'; have hS' := hS.ne'
  have hsa' := hsa.ne'; have hsb' := hsb.ne'; have hsg' := hsg.ne'
  ext i j
  fin_cases i <;> fin_cases j <;>
    simp [Structure.Uij2betaij, isoAdp, C01.cell_invert_eq, C01.cellOf, C01.rad_arccos, hX, hY, hZ, C01.Gstar,
      C01.cell_volume_eq]
  all_goals (try rw [show (1 : ℝ) - Real.cos (Spec.rad (cell 3)) ^ 2 = Real.sin (Spec.rad (cell 3)) ^ 2 by linarith])
  all_goals (try rw [show (1 : ℝ) - Real.cos (Spec.rad (cell 4)) ^ 2 = Real.sin (Spec.rad (cell 4)) ^ 2 by linarith])
  all_goals (try rw [show (1 : ℝ) - Real.cos (Spec.rad (cell 5)) ^ 2 = Real.sin (Spec.rad (cell 5)) ^ 2 by linarith])
  all_goals (field_simp)

/-- for the isotropic-equivalent tensor `vᵀβv = 8π²U·sintl(v)²` (C01: `sintl² = |Bv|²/4`, `BᵀB = G*`) -/
lemma quad_iso {cell : Fin 6 → ℝ} (hc : Spec.ValidCell cell) (U : ℝ) (v : Fin 3 → ℝ) :
    v ⬝ᵥ (Structure.Uij2betaij (isoAdp U cell) cell *ᵥ v) = 8 * Real.pi ^ 2 * U * Tools.sintl cell v ^ 2 := by
  have h2 : Tools.sintl cell v ^ 2 =
      (Laue.form_b_mat cell *ᵥ v) ⬝ᵥ (Laue.form_b_mat cell *ᵥ v) / (4 * (1 : ℝ) ^ 2) := sintl_sq_laue hc v
  rw [C01.mulVec_dot_self, C01.formB_laue_eq, C01.cell_volume_eq,
    C01.Bmat_gram' hc.a_pos hc.b_pos hc.c_pos (C01.trig_of_valid hc)] at h2
  rw [beta_iso hc, h2, Matrix.smul_mulVec, dotProduct_smul, smul_eq_mul]
  ring

/-- the atom with another displacement model -/
def withAdp (A : SF.Atom) (d : SF.Adp) : SF.Atom := { A with adp := d }

lemma closed_iso {cell : Fin 6 → ℝ} (hc : Spec.ValidCell cell) (n : ℝ) (A : SF.Atom) (U : ℝ) (h : Fin 3 → ℝ)
    (g : Sg.Op) (hmetric : Tools.sintl cell (h ᵥ* SF.rotR g) = Tools.sintl cell h) :
    SF.closed h cell n (withAdp A (.uani (isoAdp U cell))) g = SF.closed h cell n (withAdp A (.uiso U)) g := by
  have hdw : SF.dw (withAdp A (.uani (isoAdp U cell))) cell (SF.rotR g) h =
      SF.dw (withAdp A (.uiso U)) cell (SF.rotR g) h := by
    simp only [SF.dw, withAdp]
    have q := SF.quad_vecMul h (SF.rotR g) 1 (Structure.Uij2betaij (isoAdp U cell) cell)
    simp only [Matrix.transpose_one, Matrix.mul_one, Matrix.one_mul] at q
    rw [← q, quad_iso hc, hmetric]
    congr 1
    ring
  unfold SF.closed
  rw [hdw]
  rfl

end iso

/-- C08 (Uiso ≡ isotropic Uani), one atom: an atom with isotropic `U` and the same atom with the anisotropic tensor
`U_ij = U·cos∠(a*_i,a*_j)` contribute identically, provided sin(θ)/λ of `h` is invariant under the rotations of the
operation list (`hmetric`: holds for a cell conforming to the crystal system, see `C07.hmetric_of_metric_preserved`;
for the identity operation it is trivial).  Without that invariance the code's per-operation factor
`exp(−(hR)β(hR)ᵀ) = exp(−8π²U·s(hR)²)` differs from `exp(−8π²U·s(h)²)`. -/
theorem sf_uiso_eq_uani_iso {cell : Fin 6 → ℝ} (hc : Spec.ValidCell cell) (n : ℝ) (G : List Sg.Op) (A : SF.Atom) (U : ℝ)
    (h : Fin 3 → ℝ) (hmetric : ∀ g ∈ G, Tools.sintl cell (h ᵥ* SF.rotR g) = Tools.sintl cell h) :
    SF.atomSF n G cell (withAdp A (.uani (isoAdp U cell))) h = SF.atomSF n G cell (withAdp A (.uiso U)) h := by
  rw [SF.atomSF_eq_closed, SF.atomSF_eq_closed]
  congr 1
  apply List.map_congr_left
  intro g hg
  exact closed_iso hc n A U h g (hmetric g hg)

/-- replace every isotropic atom by its anisotropic equivalent -/
noncomputable def toAni (cell : Fin 6 → ℝ) (A : SF.Atom) : SF.Atom :=
  match A.adp with
  | .uiso U => withAdp A (.uani (isoAdp U cell))
  | _ => A

/-- C08 (Uiso ≡ isotropic Uani), whole atom list. -/
theorem sf_uiso_eq_uani_iso_list {cell : Fin 6 → ℝ} (hc : Spec.ValidCell cell) (n : ℝ) (G : List Sg.Op)
    (atoms : List SF.Atom) (h : Fin 3 → ℝ)
    (hmetric : ∀ g ∈ G, Tools.sintl cell (h ᵥ* SF.rotR g) = Tools.sintl cell h) :
    SF.SFn n G cell (atoms.map (toAni cell)) h = SF.SFn n G cell atoms h := by
  unfold SF.SFn
  rw [List.map_map]
  congr 1
  apply List.map_congr_left
  intro A _
  simp only [Function.comp]
  obtain ⟨pos, occ, sm, adp, data, disp⟩ := A
  cases adp with
  | none => rfl
  | uani b => rfl
  | uiso U => exact sf_uiso_eq_uani_iso hc n G ⟨pos, occ, sm, .uiso U, data, disp⟩ U h hmetric

/-! ### special positions: orbit–stabiliser -/

section orbit
open Classical

/-- image `R x + t` of a point under an operation -/
noncomputable def act (g : Sg.Op) (x : Fin 3 → ℝ) : Fin 3 → ℝ := SF.rotR g *ᵥ x + SF.transR g

/-- equality of points modulo the lattice ℤ³ -/
def LatEq (y z : Fin 3 → ℝ) : Prop := ∃ m : Fin 3 → ℤ, y = z + SF.castR m

lemma LatEq.refl (y : Fin 3 → ℝ) : LatEq y y := ⟨0, by ext i; simp [SF.castR]⟩

lemma LatEq.symm {y z : Fin 3 → ℝ} (h : LatEq y z) : LatEq z y := by
  obtain ⟨m, rfl⟩ := h
  exact ⟨-m, by ext i; simp [SF.castR]⟩

lemma LatEq.trans {x y z : Fin 3 → ℝ} (h : LatEq x y) (h' : LatEq y z) : LatEq x z := by
  obtain ⟨m, rfl⟩ := h
  obtain ⟨m', rfl⟩ := h'
  exact ⟨m' + m, by ext i; simp [SF.castR]; ring⟩

/-- integer matrix–vector product `R m` -/
def rotZ (g : Sg.Op) (m : Fin 3 → ℤ) : Fin 3 → ℤ :=
  ![g.r11 * m 0 + g.r12 * m 1 + g.r13 * m 2, g.r21 * m 0 + g.r22 * m 1 + g.r23 * m 2,
    g.r31 * m 0 + g.r32 * m 1 + g.r33 * m 2]

lemma rotR_mulVec_castR (g : Sg.Op) (m : Fin 3 → ℤ) : SF.rotR g *ᵥ SF.castR m = SF.castR (rotZ g m) := by
  ext i
  fin_cases i <;> simp [SF.rotR, SF.castR, rotZ, Matrix.mulVec, dotProduct, Fin.sum_univ_three]

lemma act_congr (g : Sg.Op) {y z : Fin 3 → ℝ} (h : LatEq y z) : LatEq (act g y) (act g z) := by
  obtain ⟨m, rfl⟩ := h
  refine ⟨rotZ g m, ?_⟩
  unfold act
  rw [Matrix.mulVec_add, rotR_mulVec_castR]
  abel

lemma act_comp (a b : Sg.Op) (x : Fin 3 → ℝ) : LatEq (act (Sg.comp a b) x) (act a (act b x)) := by
  obtain ⟨m, hm⟩ := SF.transR_comp a b
  refine ⟨-m, ?_⟩
  unfold act
  rw [SF.rotR_comp, hm, Matrix.mulVec_add, Matrix.mulVec_mulVec]
  ext i
  simp [SF.castR]
  ring

lemma act_one (x : Fin 3 → ℝ) : act Sg.one x = x := by
  ext i
  fin_cases i <;> simp [act, SF.rotR, SF.transR, Sg.one, dotProduct, Fin.sum_univ_three]

/-- the phase factor of an integer reflection is lattice periodic -/
lemma exp_phase_latEq (h : Fin 3 → ℤ) {y z : Fin 3 → ℝ} (hyz : LatEq y z) :
    Complex.exp (((2 * Real.pi * (SF.castR h ⬝ᵥ y) : ℝ) : ℂ) * Complex.I) =
      Complex.exp (((2 * Real.pi * (SF.castR h ⬝ᵥ z) : ℝ) : ℂ) * Complex.I) := by
  obtain ⟨m, rfl⟩ := hyz
  rw [dotProduct_add, SF.castR_dot_castR]
  have e : (((2 * Real.pi * (SF.castR h ⬝ᵥ z + ((h ⬝ᵥ m : ℤ) : ℝ)) : ℝ) : ℂ) * Complex.I) =
      ((2 * Real.pi * (SF.castR h ⬝ᵥ z) : ℝ) : ℂ) * Complex.I + ((h ⬝ᵥ m : ℤ) : ℂ) * (2 * Real.pi * Complex.I) := by
    push_cast; ring
  rw [e, Complex.exp_add, Complex.exp_int_mul_two_pi_mul_I, mul_one]

/-- the displacement tensor of the atom is invariant under the site symmetry (the crystallographic restriction on
`U_ij` at a special position); vacuous for isotropic / absent ADPs -/
def SiteInvariant (G : List Sg.Op) (cell : Fin 6 → ℝ) (A : SF.Atom) : Prop :=
  match A.adp with
  | .uani b => ∀ s ∈ G, LatEq (act s A.pos) A.pos →
      SF.rotR s * (Structure.Uij2betaij b cell * (SF.rotR s)ᵀ) = Structure.Uij2betaij b cell
  | _ => True

/-- the textbook term is constant on the coset `r∘Stab(x)` -/
lemma closed_coset (h : Fin 3 → ℤ) (cell : Fin 6 → ℝ) (n : ℝ) (A : SF.Atom) (G : List Sg.Op)
    (hsite : SiteInvariant G cell A) (r : Sg.Op) {s : Sg.Op} (hs : s ∈ G) (hfix : LatEq (act s A.pos) A.pos) :
    SF.closed (SF.castR h) cell n A (Sg.comp r s) = SF.closed (SF.castR h) cell n A r := by
  have hdw : SF.dw A cell (SF.rotR (Sg.comp r s)) (SF.castR h) = SF.dw A cell (SF.rotR r) (SF.castR h) := by
    unfold SiteInvariant at hsite
    unfold SF.dw
    cases hadp : A.adp with
    | none => rfl
    | uiso u => rfl
    | uani b =>
      rw [hadp] at hsite
      have hb := hsite s hs hfix
      have e : SF.rotR (Sg.comp r s) * (Structure.Uij2betaij b cell * (SF.rotR (Sg.comp r s))ᵀ) =
          SF.rotR r * ((SF.rotR s * (Structure.Uij2betaij b cell * (SF.rotR s)ᵀ)) * (SF.rotR r)ᵀ) := by
        rw [SF.rotR_comp, Matrix.transpose_mul]
        simp only [Matrix.mul_assoc]
      simp only [e, hb]
  have hph := exp_phase_latEq h ((act_comp r s A.pos).trans (act_congr r hfix))
  unfold SF.closed SF.phase
  rw [hdw]
  unfold act at hph
  rw [hph]

/-- site-symmetry operations of the point `x` among `G` -/
noncomputable def stab (G : List Sg.Op) (x : Fin 3 → ℝ) : List Sg.Op :=
  G.filter fun s => decide (LatEq (act s x) x)

/-- the operations of `G` that send `x` to the same point (modulo the lattice) as `r` does -/
noncomputable def cls (G : List Sg.Op) (x : Fin 3 → ℝ) (r : Sg.Op) : List Sg.Op :=
  G.filter fun g => decide (LatEq (act g x) (act r x))

/-- orbit–stabiliser, coset form: the fibre over `r·x` is the coset `r∘Stab(x)` -/
lemma cls_perm {G : List Sg.Op} (hG : SF.GroupModLattice G) (x : Fin 3 → ℝ) {r : Sg.Op} (hr : r ∈ G) :
    (cls G x r).Perm ((stab G x).map (Sg.comp r)) := by
  have hS : ∀ s, s ∈ stab G x ↔ s ∈ G ∧ LatEq (act s x) x := by
    intro s; simp [stab, List.mem_filter]
  have hC : ∀ g, g ∈ cls G x r ↔ g ∈ G ∧ LatEq (act g x) (act r x) := by
    intro g; simp [cls, List.mem_filter]
  have nd1 : (cls G x r).Nodup := hG.nodup.filter _
  have nd2 : ((stab G x).map (Sg.comp r)).Nodup :=
    (List.nodup_map_iff_inj_on (hG.nodup.filter _)).2
      (fun a ha b hb hab => hG.cancel_left hr ((hS a).1 ha).1 ((hS b).1 hb).1 hab)
  rw [List.perm_ext_iff_of_nodup nd1 nd2]
  intro g
  rw [hC, List.mem_map]
  constructor
  · rintro ⟨hg, hgr⟩
    obtain ⟨ri, hri, hrri⟩ := hG.inv r hr
    have hl : Sg.comp ri r = Sg.one := hG.inv_left hr hri hrri
    refine ⟨Sg.comp ri g, (hS _).2 ⟨hG.closed ri hri g hg, ?_⟩, ?_⟩
    · have h1 : LatEq (act (Sg.comp ri g) x) (act ri (act r x)) := (act_comp ri g x).trans (act_congr ri hgr)
      have h2 : LatEq (act ri (act r x)) (act (Sg.comp ri r) x) := (act_comp ri r x).symm
      have h3 := h1.trans h2
      rw [hl, act_one] at h3
      exact h3
    · rw [← SF.comp_assoc, hrri, SF.one_comp (hG.reduced g hg)]
  · rintro ⟨s, hs, rfl⟩
    obtain ⟨hsG, hfix⟩ := (hS s).1 hs
    exact ⟨hG.closed r hr s hsG, (act_comp r s x).trans (act_congr r hfix)⟩

/-- a sum over a list split along the fibres of a covering family of pairwise disjoint classes -/
lemma sum_partition {α β : Type} (f : α → ℂ) (P : α → β → Prop) :
    ∀ (reps : List β) (L : List α), (∀ g ∈ L, ∃ r ∈ reps, P g r) →
      reps.Pairwise (fun r r' => ∀ g, P g r → ¬ P g r') →
      (L.map f).sum = (reps.map fun r => ((L.filter fun g => decide (P g r)).map f).sum).sum
  | [], L, hc, _ => by
    cases L with
    | nil => simp
    | cons g L => obtain ⟨r, hr, _⟩ := hc g (List.mem_cons_self); cases hr
  | r :: rs, L, hc, hp => by
    have hsplit : (L.map f).sum = ((L.filter fun g => decide (P g r)).map f).sum +
        ((L.filter fun g => !decide (P g r)).map f).sum := by
      rw [← List.sum_append, ← List.map_append]
      exact ((List.filter_append_perm (fun g => decide (P g r)) L).map f).sum_eq.symm
    rw [List.map_cons, List.sum_cons, hsplit]
    congr 1
    rw [List.pairwise_cons] at hp
    rw [sum_partition f P rs (L.filter fun g => !decide (P g r)) ?_ hp.2]
    · congr 1
      apply List.map_congr_left
      intro r' hr'
      congr 2
      rw [List.filter_filter]
      apply List.filter_congr
      intro g _
      by_cases hg : P g r'
      · have : ¬ P g r := fun h1 => hp.1 r' hr' g h1 hg
        simp [hg, this]
      · simp [hg]
    · intro g hg
      rw [List.mem_filter] at hg
      obtain ⟨r', hr', hgr'⟩ := hc g hg.1
      rcases List.mem_cons.1 hr' with rfl | hmem
      · simp [hgr'] at hg
      · exact ⟨r', hmem, hgr'⟩

/-- C08 (direct sum, special positions — orbit–stabiliser): let `reps ⊆ G` be representatives of the distinct
images of the atom (`r·x`, `r ∈ reps`, pairwise different modulo the lattice and exhausting the orbit `G·x`), let
`symmulti` be the orbit size `len reps` (the site multiplicity), and let the displacement tensor respect the site
symmetry.  Then for an integer reflection the contribution of the atom is the plain sum over the DISTINCT atoms
`r·x` of the unit cell of `occ · (f+f'+i f'') · T · exp(2πi h·r·x)`. -/
theorem sf_eq_direct_sum_special {G : List Sg.Op} (hG : SF.GroupModLattice G) (cell : Fin 6 → ℝ) (A : SF.Atom)
    (h : Fin 3 → ℤ) (reps : List Sg.Op) (hsub : ∀ r ∈ reps, r ∈ G)
    (hcover : ∀ g ∈ G, ∃ r ∈ reps, LatEq (act g A.pos) (act r A.pos))
    (hdistinct : reps.Pairwise fun r r' => ¬ LatEq (act r A.pos) (act r' A.pos))
    (hmult : A.symmulti = (reps.length : ℝ)) (hsite : SiteInvariant G cell A) :
    SF.atomSF (G.length : ℝ) G cell A (SF.castR h) = (reps.map fun r => p1term (SF.castR h) cell A r).sum := by
  set x := A.pos with hx
  set n : ℝ := (G.length : ℝ) with hn
  have hp : reps.Pairwise (fun r r' => ∀ g, LatEq (act g x) (act r x) → ¬ LatEq (act g x) (act r' x)) :=
    hdistinct.imp (fun hne g h1 h2 => hne (h1.symm.trans h2))
  -- fibre sums
  have hfib : ∀ (f : Sg.Op → ℂ), (∀ r ∈ G, ∀ s ∈ stab G x, f (Sg.comp r s) = f r) →
      (G.map f).sum = (reps.map fun r => ((stab G x).length : ℂ) * f r).sum := by
    intro f hf
    rw [sum_partition f (fun g r => LatEq (act g x) (act r x)) reps G hcover hp]
    apply congrArg
    apply List.map_congr_left
    intro r hr
    have hrG := hsub r hr
    have hperm := ((cls_perm hG x hrG).map f).sum_eq
    unfold cls at hperm
    rw [hperm, List.map_map]
    have : (List.map (f ∘ Sg.comp r) (stab G x)) = List.map (fun _ => f r) (stab G x) := by
      apply List.map_congr_left
      intro s hs
      exact hf r hrG s hs
    rw [this, List.map_const', List.sum_replicate, nsmul_eq_mul]
  -- counting: |G| = |reps|·|Stab|
  have hcount : (G.length : ℂ) = (reps.length : ℂ) * ((stab G x).length : ℂ) := by
    have := hfib (fun _ => (1 : ℂ)) (fun _ _ _ _ => rfl)
    simpa [List.map_const', List.sum_replicate] using this
  have hGne : (G.length : ℂ) ≠ 0 := by
    have : G.length ≠ 0 := fun h0 => by
      have := hG.one_mem
      rw [List.length_eq_zero_iff.1 h0] at this
      cases this
    exact_mod_cast this
  rw [SF.atomSF_eq_closed, hfib (fun g => SF.closed (SF.castR h) cell n A g)]
  · apply congrArg
    apply List.map_congr_left
    intro r _
    rw [closed_eq_p1term, hmult]
    have hS0 : ((stab G x).length : ℂ) ≠ 0 := fun h0 => hGne (by rw [hcount, h0, mul_zero])
    have hR0 : (reps.length : ℂ) ≠ 0 := fun h0 => hGne (by rw [hcount, h0, zero_mul])
    rw [hn]
    push_cast
    rw [hcount]
    field_simp
  · intro r _ s hs
    have hs' : s ∈ G ∧ LatEq (act s x) x := by simpa [stab, List.mem_filter] using hs
    exact closed_coset h cell n A G hsite r hs'.1 hs'.2

/-- the hypotheses of `sf_eq_direct_sum_special` are satisfiable on a genuine special position: P-1, atom on the
inversion centre at the origin (orbit = one point, site multiplicity 1, stabiliser = the whole group) -/
example :
    let inv1 : Sg.Op := ⟨-1, 0, 0, 0, -1, 0, 0, 0, -1, 0, 0, 0⟩
    let A : SF.Atom := ⟨0, 1, 1, .uiso (1 / 50), 0, none⟩
    (∀ g ∈ [Sg.one, inv1], ∃ r ∈ [Sg.one], LatEq (act g A.pos) (act r A.pos)) ∧
      ([Sg.one].Pairwise fun r r' => ¬ LatEq (act r A.pos) (act r' A.pos)) ∧
      A.symmulti = (([Sg.one] : List Sg.Op).length : ℝ) ∧ SiteInvariant [Sg.one, inv1] ![4, 5, 6, 90, 90, 60] A := by
  intro inv1 A
  refine ⟨?_, by simp, by simp [A], by simp [SiteInvariant, A]⟩
  intro g hg
  simp only [List.mem_cons, List.not_mem_nil, or_false] at hg
  refine ⟨Sg.one, by simp, ?_⟩
  rcases hg with rfl | rfl
  · exact LatEq.refl _
  · refine ⟨0, ?_⟩
    ext i
    fin_cases i <;> simp [act, A, inv1, SF.rotR, SF.transR, SF.castR, Sg.one]

end orbit

end C08
