/-
C08Tables: integration ("glue") of C08 with C04 / C01.

Proofs/C08.lean states its theorems for an ABSTRACT operation list `G` and divisor `n`.  Those that need facts about the
list are
  * `sf_eq_direct_sum_special`      — needs `SF.GroupModLattice G` (orbit–stabiliser),
  * `sf_000`, `sf_eq_direct_sum_general_len` — need `G ≠ []` (`nsymop ≠ 0`),
  * `sf_uiso_eq_uani_iso(_list)`    — need `hmetric` (sin(θ)/λ invariant under the rotations of the list).
Proofs/C04.lean provides all of these for every generated table of `Sg.allTables` (group modulo the lattice,
`len(ops) = nsymop`, metric preservation for conforming cells).  Here the C08 clauses are stated for the table-level
model `SF.SFtable` (first `nsymop` operations, divisor `nsymop`: the loop of `StructureFactor`) of every generated
table.  `sf_lattice_shift`, `sf_scale_occ`, `sf_append` need no fact about the list; they are restated for `SF.SFtable`
of an ARBITRARY table for completeness.
-/
import XfabVerif.Proofs.C08
import XfabVerif.Proofs.C07
import XfabVerif.Proofs.C04
import XfabVerif.Lemmas.SFModel
import XfabVerif.Lemmas.SgSound
import XfabVerif.Lemmas.C04Metric
import XfabVerif.Proofs.C01

set_option linter.unusedVariables false
set_option linter.style.longLine false

open Matrix

namespace C08

/-- field-for-field conversion `Sg.IsGroupModLattice → SF.GroupModLattice` -/
lemma groupModLattice_of_sg {G : List Sg.Op} (h : Sg.IsGroupModLattice G) : SF.GroupModLattice G :=
  ⟨h.one_mem, h.closed, h.inv, h.nodup, fun a ha => h.reduced a ha⟩

lemma tables_group : ∀ kt ∈ Sg.allTables, SF.GroupModLattice (Sg.opsOf kt.2) :=
  fun kt hkt => groupModLattice_of_sg (all_tables_groups kt hkt).1

lemma tables_ne_nil : ∀ kt ∈ Sg.allTables, Sg.opsOf kt.2 ≠ [] := by
  intro kt hkt h0
  have := (all_tables_groups kt hkt).1.one_mem
  rw [h0] at this
  cases this

/-- for a generated table the table-level model is `SF.SF` of the whole operation list (`nsymop = len(ops)`) -/
lemma SFtable_eq_SF : ∀ kt ∈ Sg.allTables, ∀ (cell : Fin 6 → ℝ) (atoms : List SF.Atom) (h : Fin 3 → ℝ),
    SF.SFtable kt.2 cell atoms h = SF.SF (Sg.opsOf kt.2) cell atoms h := by
  intro kt hkt cell atoms h
  have hlen := (all_tables_groups kt hkt).2
  unfold SF.SFtable SF.SF
  rw [← hlen, List.take_length]

/-- `hmetric` (row-vector form used by C08) for every operation of every generated table and conforming valid cell -/
lemma hmetric_tables : ∀ kt ∈ Sg.allTables, ∀ cell : Fin 6 → ℝ, Spec.ValidCell cell →
    Sg.Conforms kt.2.crystalSystem kt.2.cellChoice cell → ∀ (h : Fin 3 → ℤ), ∀ k ∈ Sg.opsOf kt.2,
      Tools.sintl cell (SF.castR h ᵥ* SF.rotR k) = Tools.sintl cell (SF.castR h) := by
  intro kt hkt cell hc hconf h k hk
  rw [← SF.castR_hRot]
  exact C07.hmetric_of_metric_preserved hc k (all_tables_metric kt hkt k hk cell hconf) h

end C08

open C08

/-- C08 (direct sum, special positions — orbit–stabiliser), all generated tables, one atom: for every generated table
`t`, integer reflection `h` and atom `A` whose `symmulti` is the number of DISTINCT images `r·x` (`r ∈ reps ⊆ ops`,
pairwise different modulo the lattice, exhausting the orbit) and whose displacement tensor respects the site symmetry,
the inner loop of `StructureFactor` (all `nsymop` operations, divisor `nsymop`) equals the plain sum over the distinct
atoms of the unit cell of `occ · (f+f'+i f'') · T · exp(2πi h·r·x)`.  No group hypothesis left. -/
theorem sf_eq_direct_sum_special_atom_tables : ∀ kt ∈ Sg.allTables, ∀ (cell : Fin 6 → ℝ) (A : SF.Atom)
    (h : Fin 3 → ℤ) (reps : List Sg.Op), (∀ r ∈ reps, r ∈ Sg.opsOf kt.2) →
    (∀ g ∈ Sg.opsOf kt.2, ∃ r ∈ reps, C08.LatEq (C08.act g A.pos) (C08.act r A.pos)) →
    (reps.Pairwise fun r r' => ¬ C08.LatEq (C08.act r A.pos) (C08.act r' A.pos)) →
    A.symmulti = (reps.length : ℝ) → C08.SiteInvariant (Sg.opsOf kt.2) cell A →
      SF.atomSF (kt.2.nsymop : ℝ) ((Sg.opsOf kt.2).take kt.2.nsymop) cell A (SF.castR h) =
        (reps.map fun r => C08.p1term (SF.castR h) cell A r).sum := by
  intro kt hkt cell A h reps hsub hcover hdistinct hmult hsite
  have hlen := (all_tables_groups kt hkt).2
  have := C08.sf_eq_direct_sum_special (tables_group kt hkt) cell A h reps hsub hcover hdistinct hmult hsite
  rw [hlen] at this
  rw [← this]
  conv_lhs => rw [← hlen, List.take_length, hlen]

/-- C08 (direct sum over every atom of the unit cell), all generated tables, whole atom list: if for every atom `A` of
the list `reps A ⊆ ops` are representatives of its distinct images, `A.symmulti = len (reps A)` and the displacement
tensor respects the site symmetry, then for every integer reflection
`StructureFactor(h) = Σ_A Σ_{r ∈ reps A} occ · (f(s)+f'+i f'') · T · exp(2πi h·(r·x_A))`. -/
theorem sf_eq_direct_sum_special_tables : ∀ kt ∈ Sg.allTables, ∀ (cell : Fin 6 → ℝ) (atoms : List SF.Atom)
    (h : Fin 3 → ℤ) (reps : SF.Atom → List Sg.Op),
    (∀ A ∈ atoms, (∀ r ∈ reps A, r ∈ Sg.opsOf kt.2) ∧
      (∀ g ∈ Sg.opsOf kt.2, ∃ r ∈ reps A, C08.LatEq (C08.act g A.pos) (C08.act r A.pos)) ∧
      ((reps A).Pairwise fun r r' => ¬ C08.LatEq (C08.act r A.pos) (C08.act r' A.pos)) ∧
      A.symmulti = ((reps A).length : ℝ) ∧ C08.SiteInvariant (Sg.opsOf kt.2) cell A) →
      SF.SFtable kt.2 cell atoms (SF.castR h) =
        (atoms.map fun A => ((reps A).map fun r => C08.p1term (SF.castR h) cell A r).sum).sum := by
  intro kt hkt cell atoms h reps hyp
  unfold SF.SFtable SF.SFn
  congr 1
  apply List.map_congr_left
  intro A hA
  obtain ⟨h1, h2, h3, h4, h5⟩ := hyp A hA
  exact sf_eq_direct_sum_special_atom_tables kt hkt cell A h (reps A) h1 h2 h3 h4 h5

/-- C08 (direct sum, general positions), all generated tables: when every atom carries the site multiplicity of a
general position (`symmulti = nsymop`) the structure factor is the plain sum over ALL images `R pos + t` of the atoms
(real `h` allowed).  `nsymop ≠ 0` comes from C04. -/
theorem sf_eq_direct_sum_general_tables : ∀ kt ∈ Sg.allTables, ∀ (cell : Fin 6 → ℝ) (atoms : List SF.Atom)
    (h : Fin 3 → ℝ), (∀ A ∈ atoms, A.symmulti = (kt.2.nsymop : ℝ)) →
      SF.SFtable kt.2 cell atoms h =
        (atoms.map fun A => ((Sg.opsOf kt.2).map fun g => C08.p1term h cell A g).sum).sum := by
  intro kt hkt cell atoms h hgen
  have hlen := (all_tables_groups kt hkt).2
  rw [SFtable_eq_SF kt hkt]
  exact C08.sf_eq_direct_sum_general_len _ (tables_ne_nil kt hkt) cell atoms h (by rw [hlen]; exact hgen)

/-- C08 (F(000)), all generated tables: at `hkl = 000` the structure factor is `Σ occ·symmulti·(f(0)+f' + i f'')`
(every ADP variant).  `nsymop ≠ 0` comes from C04. -/
theorem sf_000_tables : ∀ kt ∈ Sg.allTables, ∀ (cell : Fin 6 → ℝ) (atoms : List SF.Atom),
    SF.SFtable kt.2 cell atoms 0 =
      (atoms.map fun A => ((A.occ * A.symmulti : ℝ) : ℂ) *
        (⟨Structure.FormFactor A.data 0 + A.fp, A.fpp⟩ : ℂ)).sum := by
  intro kt hkt cell atoms
  rw [SFtable_eq_SF kt hkt]
  exact C08.sf_000 _ (tables_ne_nil kt hkt) cell atoms

/-- C08 (Uiso ≡ isotropic Uani), all generated tables, unconditional: for every generated table, every valid cell
conforming to its crystal system / setting and every integer reflection, replacing every isotropic atom by the
anisotropic tensor `U_ij = U·cos∠(a*_i,a*_j)` of the same isotropic motion does not change `StructureFactor`.
(`hmetric` discharged from the C04 metric clause.) -/
theorem sf_uiso_eq_uani_iso_tables : ∀ kt ∈ Sg.allTables, ∀ cell : Fin 6 → ℝ, Spec.ValidCell cell →
    Sg.Conforms kt.2.crystalSystem kt.2.cellChoice cell → ∀ (atoms : List SF.Atom) (h : Fin 3 → ℤ),
      SF.SFtable kt.2 cell (atoms.map (C08.toAni cell)) (SF.castR h) = SF.SFtable kt.2 cell atoms (SF.castR h) := by
  intro kt hkt cell hc hconf atoms h
  unfold SF.SFtable
  apply C08.sf_uiso_eq_uani_iso_list hc
  intro g hg
  exact hmetric_tables kt hkt cell hc hconf h g (List.mem_of_mem_take hg)

/-- C08 (lattice shift), table level — needs NO group hypothesis: for every table (generated or not) and integer
reflection the structure factor does not change when atoms are moved by lattice vectors. -/
theorem sf_lattice_shift_tables (t : SgTable) (cell : Fin 6 → ℝ) (atoms : List SF.Atom) (h : Fin 3 → ℤ)
    (m : SF.Atom → Fin 3 → ℤ) :
    SF.SFtable t cell (atoms.map fun A => C08.shift A (m A)) (SF.castR h) = SF.SFtable t cell atoms (SF.castR h) :=
  C08.sf_lattice_shift _ _ cell atoms h m

/-- C08 (linearity in occupancy), table level — needs NO group hypothesis: scaling every occupancy by `c` scales
`StructureFactor` by `c`. -/
theorem sf_scale_occ_tables (t : SgTable) (cell : Fin 6 → ℝ) (atoms : List SF.Atom) (c : ℝ) (h : Fin 3 → ℝ) :
    SF.SFtable t cell (atoms.map fun A => C08.withOcc A (c * A.occ)) h = (c : ℂ) * SF.SFtable t cell atoms h :=
  C08.sf_scale_occ _ _ cell atoms c h

/-- C08 (additivity over the atom list), table level — needs NO group hypothesis. -/
theorem sf_append_tables (t : SgTable) (cell : Fin 6 → ℝ) (atoms1 atoms2 : List SF.Atom) (h : Fin 3 → ℝ) :
    SF.SFtable t cell (atoms1 ++ atoms2) h = SF.SFtable t cell atoms1 h + SF.SFtable t cell atoms2 h :=
  C08.sf_append _ _ cell atoms1 atoms2 h

/-! ### non-vacuity -/

/-- the hypotheses of `sf_eq_direct_sum_special_tables` are satisfiable on a generated table and a genuine special
position: `n2` (P-1), one atom on the inversion centre at the origin (orbit = one point, site multiplicity 1) -/
example (h : Fin 3 → ℤ) :
    SF.SFtable Sg.Tables.n2 ![4, 5, 6, 90, 90, 60] [⟨0, 1, 1, .uiso (1 / 50), 0, none⟩] (SF.castR h) =
      ([(⟨0, 1, 1, .uiso (1 / 50), 0, none⟩ : SF.Atom)].map fun A =>
        ([Sg.one].map fun r => C08.p1term (SF.castR h) ![4, 5, 6, 90, 90, 60] A r).sum).sum := by
  have hmem : ("n2", Sg.Tables.n2) ∈ Sg.allTables := by
    unfold Sg.allTables; exact List.mem_cons_of_mem _ List.mem_cons_self
  apply sf_eq_direct_sum_special_tables _ hmem _ _ h (fun _ => [Sg.one])
  intro A hA
  simp only [List.mem_singleton] at hA
  subst hA
  have hone : Sg.one ∈ Sg.opsOf Sg.Tables.n2 := (all_tables_groups _ hmem).1.one_mem
  refine ⟨by simpa using hone, ?_, by simp, by simp, by simp [C08.SiteInvariant]⟩
  intro g hg
  refine ⟨Sg.one, by simp, ?_⟩
  refine ⟨0, ?_⟩
  have hg' : g ∈ [Sg.one, (⟨-1, 0, 0, 0, -1, 0, 0, 0, -1, 0, 0, 0⟩ : Sg.Op)] := by
    simpa [Sg.opsOf, Sg.Tables.n2, Sg.ofSg, Sg.snap, Sg.one] using hg
  simp only [List.mem_cons, List.not_mem_nil, or_false] at hg'
  rcases hg' with rfl | rfl <;>
  · ext i
    fin_cases i <;> simp [C08.act, SF.rotR, SF.transR, SF.castR, Sg.one]
