/-
C09 — omega/eta solvers (`find_omega*`) and `tth`/`tth2` of xfab.tools and xfab.laue.
-/
import XfabVerif.Gen.ToolsReal
import XfabVerif.Gen.LaueReal
import XfabVerif.Spec.Basic

set_option linter.unusedVariables false
set_option linter.style.longLine false
noncomputable section
open Matrix

namespace C09

/-! ### `atan2` facts -/

lemma atan2_le_pi (y x : ℝ) : XR.atan2 y x ≤ Real.pi := Complex.arg_le_pi _

lemma neg_pi_lt_atan2 (y x : ℝ) : -Real.pi < XR.atan2 y x := Complex.neg_pi_lt_arg _

lemma atan2_not_gt (y x : ℝ) : ¬ (XR.atan2 y x > Real.pi) := not_lt.mpr (atan2_le_pi y x)

lemma norm_mk {x y r : ℝ} (hr : 0 < r) (h : x ^ 2 + y ^ 2 = r ^ 2) : ‖(⟨x, y⟩ : ℂ)‖ = r := by
  rw [Complex.norm_def, Complex.normSq_mk, show x * x + y * y = r ^ 2 by rw [← h]; ring]
  exact Real.sqrt_sq hr.le

lemma cos_atan2_scaled {x y r : ℝ} (hr : 0 < r) (h : x ^ 2 + y ^ 2 = r ^ 2) :
    Real.cos (XR.atan2 y x) = x / r := by
  have hn := norm_mk hr h
  have hz : (⟨x, y⟩ : ℂ) ≠ 0 := by
    intro h0; rw [h0, norm_zero] at hn; exact hr.ne hn
  unfold XR.atan2
  rw [Complex.cos_arg hz, hn]

lemma sin_atan2_scaled {x y r : ℝ} (hr : 0 < r) (h : x ^ 2 + y ^ 2 = r ^ 2) :
    Real.sin (XR.atan2 y x) = y / r := by
  have hn := norm_mk hr h
  unfold XR.atan2
  rw [Complex.sin_arg, hn]

lemma cos_atan2 {x y : ℝ} (h : x ^ 2 + y ^ 2 = 1) : Real.cos (XR.atan2 y x) = x := by
  have := cos_atan2_scaled (r := 1) one_pos (by rw [h]; norm_num); simpa using this

lemma sin_atan2 {x y : ℝ} (h : x ^ 2 + y ^ 2 = 1) : Real.sin (XR.atan2 y x) = y := by
  have := sin_atan2_scaled (r := 1) one_pos (by rw [h]; norm_num); simpa using this

/-- an angle in `(-π, π]` is the `atan2` of its sine and cosine -/
lemma atan2_sin_cos {ω : ℝ} (h1 : -Real.pi < ω) (h2 : ω ≤ Real.pi) :
    XR.atan2 (Real.sin ω) (Real.cos ω) = ω := by
  unfold XR.atan2
  have : (⟨Real.cos ω, Real.sin ω⟩ : ℂ) = Complex.cos ω + Complex.sin ω * Complex.I := by
    apply Complex.ext <;> simp [Complex.cos_ofReal_re, Complex.sin_ofReal_re]
  rw [this]
  exact Complex.arg_cos_add_sin_mul_I ⟨h1, h2⟩

/-! ### the quadratic solver `a cos ω + b sin ω = c` shared by `find_omega_general/quart` -/

/-- first root as the code computes it -/
def om1 (a b c : ℝ) : ℝ :=
  XR.atan2 (((b * c) + (-(a * Real.sqrt (((a * a) + (b * b)) - (c * c))))) / ((a * a) + (b * b)))
    (((a * c) + (b * Real.sqrt (((a * a) + (b * b)) - (c * c)))) / ((a * a) + (b * b)))

/-- second root as the code computes it -/
def om2 (a b c : ℝ) : ℝ :=
  XR.atan2 (((b * c) + (a * Real.sqrt (((a * a) + (b * b)) - (c * c)))) / ((a * a) + (b * b)))
    (((a * c) + (-(b * Real.sqrt (((a * a) + (b * b)) - (c * c))))) / ((a * a) + (b * b)))

/-- eta as the code computes it from the rotated vector -/
def etaOf (R : Matrix (Fin 3) (Fin 3) ℝ) (g : Fin 3 → ℝ) (twoth : ℝ) : ℝ :=
  XR.atan2 (((-2 : ℝ) * ((R *ᵥ g) 1)) / (Real.sin twoth)) ((2 * ((R *ᵥ g) 2)) / (Real.sin twoth))

lemma om1_spec {a b c : ℝ} (hab : a * a + b * b ≠ 0) (hd : 0 ≤ a * a + b * b - c * c) :
    Real.cos (om1 a b c) = (a * c + b * Real.sqrt (a * a + b * b - c * c)) / (a * a + b * b) ∧
    Real.sin (om1 a b c) = (b * c - a * Real.sqrt (a * a + b * b - c * c)) / (a * a + b * b) := by
  have hS : Real.sqrt (a * a + b * b - c * c) ^ 2 = a * a + b * b - c * c := Real.sq_sqrt hd
  set S := Real.sqrt (a * a + b * b - c * c) with hSdef
  have hu : ((a * c + b * S) / (a * a + b * b)) ^ 2 + ((b * c + -(a * S)) / (a * a + b * b)) ^ 2 = 1 := by
    have hab' : a ^ 2 + b ^ 2 ≠ 0 := by rw [sq, sq]; exact hab
    field_simp
    linear_combination (a * a + b * b) * hS
  unfold om1
  rw [← hSdef]
  refine ⟨cos_atan2 hu, ?_⟩
  rw [sin_atan2 hu]; ring

lemma om2_spec {a b c : ℝ} (hab : a * a + b * b ≠ 0) (hd : 0 ≤ a * a + b * b - c * c) :
    Real.cos (om2 a b c) = (a * c - b * Real.sqrt (a * a + b * b - c * c)) / (a * a + b * b) ∧
    Real.sin (om2 a b c) = (b * c + a * Real.sqrt (a * a + b * b - c * c)) / (a * a + b * b) := by
  have hS : Real.sqrt (a * a + b * b - c * c) ^ 2 = a * a + b * b - c * c := Real.sq_sqrt hd
  set S := Real.sqrt (a * a + b * b - c * c) with hSdef
  have hu : ((a * c + -(b * S)) / (a * a + b * b)) ^ 2 + ((b * c + a * S) / (a * a + b * b)) ^ 2 = 1 := by
    have hab' : a ^ 2 + b ^ 2 ≠ 0 := by rw [sq, sq]; exact hab
    field_simp
    linear_combination (a * a + b * b) * hS
  unfold om2
  rw [← hSdef]
  refine ⟨?_, sin_atan2 hu⟩
  rw [cos_atan2 hu]; ring

lemma om1_solves {a b c : ℝ} (hab : a * a + b * b ≠ 0) (hd : 0 ≤ a * a + b * b - c * c) :
    a * Real.cos (om1 a b c) + b * Real.sin (om1 a b c) = c := by
  obtain ⟨h1, h2⟩ := om1_spec hab hd
  have hab' : a ^ 2 + b ^ 2 ≠ 0 := by rw [sq, sq]; exact hab
  rw [h1, h2]; field_simp; ring

lemma om2_solves {a b c : ℝ} (hab : a * a + b * b ≠ 0) (hd : 0 ≤ a * a + b * b - c * c) :
    a * Real.cos (om2 a b c) + b * Real.sin (om2 a b c) = c := by
  obtain ⟨h1, h2⟩ := om2_spec hab hd
  have hab' : a ^ 2 + b ^ 2 ≠ 0 := by rw [sq, sq]; exact hab
  rw [h1, h2]; field_simp; ring

/-! ### rotations preserve length; eta -/

lemma dot_self_nonneg (g : Fin 3 → ℝ) : 0 ≤ g ⬝ᵥ g := by
  simp only [dotProduct, Fin.sum_univ_three]
  nlinarith [mul_self_nonneg (g 0), mul_self_nonneg (g 1), mul_self_nonneg (g 2)]

lemma rot_norm {R : Matrix (Fin 3) (Fin 3) ℝ} (h : Rᵀ * R = 1) (g : Fin 3 → ℝ) :
    (R *ᵥ g) ⬝ᵥ (R *ᵥ g) = g ⬝ᵥ g := by
  rw [Matrix.dotProduct_mulVec, ← Matrix.mulVec_transpose, Matrix.mulVec_mulVec, h, Matrix.one_mulVec]

lemma eta_spec {R : Matrix (Fin 3) (Fin 3) ℝ} {g : Fin 3 → ℝ} {twoth : ℝ} (hR : Rᵀ * R = 1)
    (hg : g ⬝ᵥ g = Real.sin (twoth / 2) ^ 2) (hs : Real.sin twoth ≠ 0)
    (h0 : (R *ᵥ g) 0 = -Real.sin (twoth / 2) ^ 2) :
    (R *ᵥ g) 1 = -Real.sin twoth * Real.sin (etaOf R g twoth) / 2 ∧
    (R *ᵥ g) 2 = Real.sin twoth * Real.cos (etaOf R g twoth) / 2 := by
  have hn := rot_norm hR g
  rw [hg] at hn
  simp only [dotProduct, Fin.sum_univ_three] at hn
  have hS : Real.sin twoth = 2 * Real.sin (twoth / 2) * Real.cos (twoth / 2) := by
    rw [← Real.sin_two_mul]; congr 1; ring
  have hsc := Real.sin_sq_add_cos_sq (twoth / 2)
  unfold etaOf
  generalize (R *ᵥ g) 0 = v0 at *
  generalize (R *ᵥ g) 1 = v1 at *
  generalize (R *ᵥ g) 2 = v2 at *
  generalize Real.sin twoth = S at *
  generalize Real.sin (twoth / 2) = s at *
  generalize Real.cos (twoth / 2) = k at *
  have hu : ((2 * v2) / S) ^ 2 + (((-2 : ℝ) * v1) / S) ^ 2 = 1 := by
    field_simp
    subst h0 hS
    linear_combination 4 * hn - 4 * s ^ 2 * hsc
  rw [sin_atan2 hu, cos_atan2 hu]
  constructor <;> field_simp

/-- what it means for `(ω, η)` to solve the diffraction condition for `g` under the rotation `R`:
`R g = (-sin²θ, -sin 2θ sin η / 2, sin 2θ cos η / 2)` and `ω ∈ (-π, π]` -/
def Solves (R : Matrix (Fin 3) (Fin 3) ℝ) (g : Fin 3 → ℝ) (twoth ω η : ℝ) : Prop :=
  (R *ᵥ g) 0 = -Real.sin (twoth / 2) ^ 2 ∧
  (R *ᵥ g) 1 = -Real.sin twoth * Real.sin η / 2 ∧
  (R *ᵥ g) 2 = Real.sin twoth * Real.cos η / 2 ∧
  -Real.pi < ω ∧ ω ≤ Real.pi

/-- completeness of the two roots: any `ω ∈ (-π, π]` with `a cos ω + b sin ω = c` is one of them,
and the discriminant is then non-negative -/
lemma quad_complete {a b c ω : ℝ} (hab : a * a + b * b ≠ 0) (h1 : -Real.pi < ω) (h2 : ω ≤ Real.pi)
    (heq : a * Real.cos ω + b * Real.sin ω = c) :
    0 ≤ a * a + b * b - c * c ∧ (ω = om1 a b c ∨ ω = om2 a b c) := by
  have hsc := Real.sin_sq_add_cos_sq ω
  have hsq : (b * Real.cos ω - a * Real.sin ω) * (b * Real.cos ω - a * Real.sin ω) = a * a + b * b - c * c := by
    rw [← heq]; linear_combination (a * a + b * b) * hsc
  have hd : 0 ≤ a * a + b * b - c * c := by rw [← hsq]; exact mul_self_nonneg _
  refine ⟨hd, ?_⟩
  have hS : Real.sqrt (a * a + b * b - c * c) * Real.sqrt (a * a + b * b - c * c) = a * a + b * b - c * c :=
    Real.mul_self_sqrt hd
  rw [← hS] at hsq
  rcases mul_self_eq_mul_self_iff.mp hsq with hc | hc
  · left
    have hx : (a * c + b * Real.sqrt (a * a + b * b - c * c)) / (a * a + b * b) = Real.cos ω := by
      rw [div_eq_iff hab]; linear_combination (-a) * heq + (-b) * hc
    have hy : (b * c + -(a * Real.sqrt (a * a + b * b - c * c))) / (a * a + b * b) = Real.sin ω := by
      rw [div_eq_iff hab]; linear_combination (-b) * heq + a * hc
    unfold om1
    rw [hx, hy, atan2_sin_cos h1 h2]
  · right
    have hx : (a * c + -(b * Real.sqrt (a * a + b * b - c * c))) / (a * a + b * b) = Real.cos ω := by
      rw [div_eq_iff hab]; linear_combination (-a) * heq + (-b) * hc
    have hy : (b * c + a * Real.sqrt (a * a + b * b - c * c)) / (a * a + b * b) = Real.sin ω := by
      rw [div_eq_iff hab]; linear_combination (-b) * heq + a * hc
    unfold om2
    rw [hx, hy, atan2_sin_cos h1 h2]

/-! ### the common shape of `find_omega_general` / `find_omega_quart` -/

/-- common body of the two solvers, after the dead `ω > π` branches are removed -/
def solverOut (guard : Prop) [Decidable guard] (a b c : ℝ) (M : ℝ → Matrix (Fin 3) (Fin 3) ℝ)
    (g : Fin 3 → ℝ) (twoth : ℝ) : Option (List ℝ × List ℝ) :=
  if guard then
    if a * a + b * b - c * c < 0 then some ([], [])
    else some ([om1 a b c, om2 a b c], [etaOf (M (om1 a b c)) g twoth, etaOf (M (om2 a b c)) g twoth])
  else none

section generic
variable {guard : Prop} [Decidable guard] {a b c : ℝ} {M : ℝ → Matrix (Fin 3) (Fin 3) ℝ}
  {g : Fin 3 → ℝ} {twoth : ℝ} {oms ets : List ℝ}

lemma solverOut_sound (horth : ∀ ω, (M ω)ᵀ * M ω = 1)
    (hrow : ∀ ω, (M ω *ᵥ g) 0 = a * Real.cos ω + b * Real.sin ω - c - g ⬝ᵥ g)
    (hg : g ⬝ᵥ g = Real.sin (twoth / 2) ^ 2) (hs : Real.sin twoth ≠ 0) (hab : a * a + b * b ≠ 0)
    (h : solverOut guard a b c M g twoth = some (oms, ets)) :
    oms.length = ets.length ∧
    ∀ (i : ℕ) (h1 : i < oms.length) (h2 : i < ets.length), Solves (M oms[i]) g twoth oms[i] ets[i] := by
  unfold solverOut at h
  split_ifs at h with hguard hd
  · simp only [Option.some.injEq, Prod.mk.injEq] at h
    obtain ⟨rfl, rfl⟩ := h
    simp
  · simp only [Option.some.injEq, Prod.mk.injEq] at h
    obtain ⟨rfl, rfl⟩ := h
    have hd := not_lt.mp hd
    have key : ∀ ω, a * Real.cos ω + b * Real.sin ω = c → -Real.pi < ω → ω ≤ Real.pi →
        Solves (M ω) g twoth ω (etaOf (M ω) g twoth) := by
      intro ω hω h1 h2
      have h0 : (M ω *ᵥ g) 0 = -Real.sin (twoth / 2) ^ 2 := by
        rw [hrow, hω, hg]; ring
      obtain ⟨e1, e2⟩ := eta_spec (horth ω) hg hs h0
      exact ⟨h0, e1, e2, h1, h2⟩
    refine ⟨rfl, ?_⟩
    intro i h1 h2
    have hi : i = 0 ∨ i = 1 := by simp at h1; omega
    rcases hi with rfl | rfl
    · exact key _ (om1_solves hab hd) (neg_pi_lt_atan2 _ _) (atan2_le_pi _ _)
    · exact key _ (om2_solves hab hd) (neg_pi_lt_atan2 _ _) (atan2_le_pi _ _)

lemma solverOut_complete
    (hrow : ∀ ω, (M ω *ᵥ g) 0 = a * Real.cos ω + b * Real.sin ω - c - g ⬝ᵥ g)
    (hab : a * a + b * b ≠ 0)
    (h : solverOut guard a b c M g twoth = some (oms, ets)) :
    (∀ ω, -Real.pi < ω → ω ≤ Real.pi → (M ω *ᵥ g) 0 = -(g ⬝ᵥ g) → ω ∈ oms) ∧
    ((∃ ω, (M ω *ᵥ g) 0 = -(g ⬝ᵥ g)) → oms.length = 2 ∧ ets.length = 2) ∧
    ((¬ ∃ ω, (M ω *ᵥ g) 0 = -(g ⬝ᵥ g)) → oms = [] ∧ ets = []) ∧
    (a * a + b * b - c * c < 0 ↔ ¬ ∃ ω, (M ω *ᵥ g) 0 = -(g ⬝ᵥ g)) := by
  have hiff : ∀ ω, (M ω *ᵥ g) 0 = -(g ⬝ᵥ g) ↔ a * Real.cos ω + b * Real.sin ω = c := by
    intro ω; rw [hrow]; constructor <;> intro h <;> linarith
  -- any solution can be moved into (-π, π]
  have hex : (∃ ω, (M ω *ᵥ g) 0 = -(g ⬝ᵥ g)) ↔ 0 ≤ a * a + b * b - c * c := by
    constructor
    · rintro ⟨ω, hω⟩
      have hω := (hiff ω).mp hω
      have hsc := Real.sin_sq_add_cos_sq ω
      have hsq : (b * Real.cos ω - a * Real.sin ω) * (b * Real.cos ω - a * Real.sin ω) = a * a + b * b - c * c := by
        rw [← hω]; linear_combination (a * a + b * b) * hsc
      rw [← hsq]; exact mul_self_nonneg _
    · intro hd
      exact ⟨om1 a b c, (hiff _).mpr (om1_solves hab hd)⟩
  unfold solverOut at h
  split_ifs at h with hguard hd
  · simp only [Option.some.injEq, Prod.mk.injEq] at h
    obtain ⟨rfl, rfl⟩ := h
    have hno : ¬ ∃ ω, (M ω *ᵥ g) 0 = -(g ⬝ᵥ g) := by rw [hex]; exact not_le.mpr hd
    refine ⟨?_, ?_, ?_, ?_⟩
    · intro ω _ _ hω; exact absurd ⟨ω, hω⟩ hno
    · intro he; exact absurd he hno
    · intro _; exact ⟨rfl, rfl⟩
    · exact ⟨fun _ => hno, fun _ => hd⟩
  · simp only [Option.some.injEq, Prod.mk.injEq] at h
    obtain ⟨rfl, rfl⟩ := h
    have hd' := not_lt.mp hd
    refine ⟨?_, ?_, ?_, ?_⟩
    · intro ω h1 h2 hω
      rcases (quad_complete hab h1 h2 ((hiff ω).mp hω)).2 with e | e <;> simp [e]
    · intro _; exact ⟨rfl, rfl⟩
    · intro hno; exact absurd (hex.mpr hd') hno
    · exact ⟨fun h => absurd h hd, fun hno => absurd (hex.mpr hd') hno⟩

end generic

/-! ### `find_omega_general` -/

lemma Tools_fomg_eq (ω χ w : ℝ) :
    Tools.form_omega_mat_general ω χ w = Spec.Rx χ * (Spec.Ry w * Spec.Rz ω) := rfl

lemma Tools_fomg_orth (ω χ w : ℝ) :
    (Tools.form_omega_mat_general ω χ w)ᵀ * Tools.form_omega_mat_general ω χ w = 1 := by
  rw [Tools_fomg_eq]
  exact ((Spec.Rx_isRot χ).mul ((Spec.Ry_isRot w).mul (Spec.Rz_isRot ω))).1

/-- coefficients of `find_omega_general` as the code computes them (`r_mat = w_mat_x · w_mat_y`) -/
def genA (g : Fin 3 → ℝ) (wx wy : ℝ) : ℝ :=
  ((g 0) * (((Spec.Rx wx * Spec.Ry wy) 0) 0)) + ((g 1) * (((Spec.Rx wx * Spec.Ry wy) 0) 1))
def genB (g : Fin 3 → ℝ) (wx wy : ℝ) : ℝ :=
  ((g 0) * (((Spec.Rx wx * Spec.Ry wy) 0) 1)) - ((g 1) * (((Spec.Rx wx * Spec.Ry wy) 0) 0))
def genC (g : Fin 3 → ℝ) (wx wy : ℝ) : ℝ :=
  (-(g ⬝ᵥ g)) - ((g 2) * (((Spec.Rx wx * Spec.Ry wy) 0) 2))

lemma genA_eq (g : Fin 3 → ℝ) (wx wy : ℝ) : genA g wx wy = g 0 * Real.cos wy := by
  simp [genA, Spec.Rx, Spec.Ry, Matrix.mul_apply, Fin.sum_univ_three]
lemma genB_eq (g : Fin 3 → ℝ) (wx wy : ℝ) : genB g wx wy = -(g 1 * Real.cos wy) := by
  simp [genB, Spec.Rx, Spec.Ry, Matrix.mul_apply, Fin.sum_univ_three]
lemma genC_eq (g : Fin 3 → ℝ) (wx wy : ℝ) : genC g wx wy = -(g ⬝ᵥ g) - g 2 * Real.sin wy := by
  simp [genC, Spec.Rx, Spec.Ry, Matrix.mul_apply, Fin.sum_univ_three]

lemma gen_hab {g : Fin 3 → ℝ} {wx wy : ℝ} (hab : (g 0 * Real.cos wy) ^ 2 + (g 1 * Real.cos wy) ^ 2 ≠ 0) :
    genA g wx wy * genA g wx wy + genB g wx wy * genB g wx wy ≠ 0 := by
  rw [genA_eq, genB_eq]; intro h0; apply hab; rw [← h0]; ring

lemma Tools_general_unfold (g : Fin 3 → ℝ) (twoth wx wy : ℝ) :
    Tools.find_omega_general g twoth wx wy =
      solverOut (|((g ⬝ᵥ g) - ((Real.sin (twoth / 2)) ^ 2))| < (1e-9 : ℝ))
        (genA g wx wy) (genB g wx wy) (genC g wx wy)
        (fun ω => Tools.form_omega_mat_general ω wx wy) g twoth := by
  unfold Tools.find_omega_general
  simp only [atan2_not_gt, if_false]
  rfl

lemma Tools_fomg_row0 (g : Fin 3 → ℝ) (ω wx wy : ℝ) :
    (Tools.form_omega_mat_general ω wx wy *ᵥ g) 0 =
      genA g wx wy * Real.cos ω + genB g wx wy * Real.sin ω - genC g wx wy - g ⬝ᵥ g := by
  rw [genA_eq, genB_eq, genC_eq]
  simp [Tools_fomg_eq, Spec.Rx, Spec.Ry, Spec.Rz, Matrix.mulVec, dotProduct, Fin.sum_univ_three,
    Matrix.mul_apply]
  ring

/-- Soundness of `Tools.find_omega_general` (clause 1 of C09, tools.py): every returned `(ω, η)` rotates
`g` (of length `sin θ`) with the module's own `form_omega_mat_general ω wx wy` onto
`(-sin²θ, -sin 2θ sin η / 2, sin 2θ cos η / 2)`, and `ω ∈ (-π, π]`.  `hab` is the code's division guard
`a² + b² ≠ 0` (`a = g₀ cos wy`, `b = -g₁ cos wy`): it excludes `g ∥ z` and `wy = ±π/2`, where Python
divides 0/0. -/
theorem general_sound (g : Fin 3 → ℝ) (twoth wx wy : ℝ) (oms ets : List ℝ)
    (hg : g ⬝ᵥ g = Real.sin (twoth / 2) ^ 2) (hs : Real.sin twoth ≠ 0)
    (hab : (g 0 * Real.cos wy) ^ 2 + (g 1 * Real.cos wy) ^ 2 ≠ 0)
    (h : Tools.find_omega_general g twoth wx wy = some (oms, ets)) :
    oms.length = ets.length ∧
    ∀ (i : ℕ) (h1 : i < oms.length) (h2 : i < ets.length),
      (Tools.form_omega_mat_general (oms[i]) wx wy *ᵥ g) 0 = -Real.sin (twoth / 2) ^ 2 ∧
      (Tools.form_omega_mat_general (oms[i]) wx wy *ᵥ g) 1 = -Real.sin twoth * Real.sin (ets[i]) / 2 ∧
      (Tools.form_omega_mat_general (oms[i]) wx wy *ᵥ g) 2 = Real.sin twoth * Real.cos (ets[i]) / 2 ∧
      -Real.pi < oms[i] ∧ oms[i] ≤ Real.pi := by
  rw [Tools_general_unfold] at h
  exact solverOut_sound (fun ω => Tools_fomg_orth ω wx wy) (fun ω => Tools_fomg_row0 g ω wx wy)
    hg hs (gen_hab hab) h

/-! ### quaternion rotation (`quart_to_omega`) -/

/-- the quaternion → matrix formula used by `quart_to_omega` -/
def quatMat (q0 q1 q2 c : ℝ) : Matrix (Fin 3) (Fin 3) ℝ :=
  !![((1 - (2 * (q1 ^ 2))) - (2 * (q2 ^ 2))), (((2 * q0) * q1) - ((2 * q2) * c)), (((2 * q0) * q2) + ((2 * q1) * c));
     (((2 * q0) * q1) + ((2 * q2) * c)), ((1 - (2 * (q0 ^ 2))) - (2 * (q2 ^ 2))), (((2 * q1) * q2) - ((2 * q0) * c));
     (((2 * q0) * q2) - ((2 * q1) * c)), (((2 * q1) * q2) + ((2 * q0) * c)), ((1 - (2 * (q0 ^ 2))) - (2 * (q1 ^ 2)))]

lemma quatMat_orth (q0 q1 q2 c : ℝ) (h : q0 ^ 2 + q1 ^ 2 + q2 ^ 2 + c ^ 2 = 1) :
    (quatMat q0 q1 q2 c)ᵀ * quatMat q0 q1 q2 c = 1 := by
  ext i j
  fin_cases i <;> fin_cases j <;>
    simp [quatMat, Matrix.mul_apply, Fin.sum_univ_three, Matrix.transpose_apply]
  · linear_combination (4 * (q1 ^ 2 + q2 ^ 2)) * h
  · linear_combination (-4 * (q0 * q1)) * h
  · linear_combination (-4 * (q0 * q2)) * h
  · linear_combination (-4 * (q0 * q1)) * h
  · linear_combination (4 * (q0 ^ 2 + q2 ^ 2)) * h
  · linear_combination (-4 * (q1 * q2)) * h
  · linear_combination (-4 * (q0 * q2)) * h
  · linear_combination (-4 * (q1 * q2)) * h
  · linear_combination (4 * (q0 ^ 2 + q1 ^ 2)) * h

/-- the rotation axis (`normal`) of `find_omega_quart` as the code computes it -/
def quaN (wx wy : ℝ) : Fin 3 → ℝ := Spec.Rx wx *ᵥ (Spec.Ry wy *ᵥ (![(0 : ℝ), (0 : ℝ), (1 : ℝ)] : (Fin 3 → ℝ)))

lemma quaN_0 (wx wy : ℝ) : quaN wx wy 0 = Real.sin wy := by
  simp [quaN, Spec.Rx, Spec.Ry, Matrix.mulVec, dotProduct, Fin.sum_univ_three]
lemma quaN_1 (wx wy : ℝ) : quaN wx wy 1 = -(Real.sin wx * Real.cos wy) := by
  simp [quaN, Spec.Rx, Spec.Ry, Matrix.mulVec, dotProduct, Fin.sum_univ_three]
lemma quaN_2 (wx wy : ℝ) : quaN wx wy 2 = Real.cos wx * Real.cos wy := by
  simp [quaN, Spec.Rx, Spec.Ry, Matrix.mulVec, dotProduct, Fin.sum_univ_three]

lemma quaN_unit (wx wy : ℝ) : quaN wx wy 0 ^ 2 + quaN wx wy 1 ^ 2 + quaN wx wy 2 ^ 2 = 1 := by
  rw [quaN_0, quaN_1, quaN_2]
  linear_combination Real.sin_sq_add_cos_sq wy + Real.cos wy ^ 2 * Real.sin_sq_add_cos_sq wx

lemma Tools_quart_eq (ω wx wy : ℝ) :
    Tools.quart_to_omega ((ω * 180) / Real.pi) wx wy =
      quatMat (Real.sin (ω / 2) * quaN wx wy 0) (Real.sin (ω / 2) * quaN wx wy 1)
        (Real.sin (ω / 2) * quaN wx wy 2) (Real.cos (ω / 2)) := by
  have hp := Real.pi_ne_zero
  have hw : (ω * 180 / Real.pi * Real.pi) / 360 = ω / 2 := by field_simp; ring
  rw [quaN_0, quaN_1, quaN_2]
  unfold Tools.quart_to_omega quatMat
  simp only [hw]
  ext i j
  fin_cases i <;> fin_cases j <;>
    simp [Matrix.mulVec, dotProduct, Fin.sum_univ_three] <;> ring

lemma Tools_quart_orth (ω wx wy : ℝ) :
    (Tools.quart_to_omega ((ω * 180) / Real.pi) wx wy)ᵀ * Tools.quart_to_omega ((ω * 180) / Real.pi) wx wy = 1 := by
  rw [Tools_quart_eq]
  apply quatMat_orth
  linear_combination Real.sin (ω / 2) ^ 2 * quaN_unit wx wy + Real.sin_sq_add_cos_sq (ω / 2)

/-- coefficients of `find_omega_quart` as the code computes them -/
def quaA (g : Fin 3 → ℝ) (wx wy : ℝ) : ℝ :=
  ((((g 0) * (1 - ((quaN wx wy 0) ^ 2))) - (((g 1) * (quaN wx wy 0)) * (quaN wx wy 1))) - (((g 2) * (quaN wx wy 0)) * (quaN wx wy 2)))
def quaB (g : Fin 3 → ℝ) (wx wy : ℝ) : ℝ :=
  (((g 2) * (quaN wx wy 1)) - ((g 1) * (quaN wx wy 2)))
def quaC (g : Fin 3 → ℝ) (wx wy : ℝ) : ℝ :=
  ((((-(g ⬝ᵥ g)) - ((g 0) * ((quaN wx wy 0) ^ 2))) - (((g 1) * (quaN wx wy 0)) * (quaN wx wy 1))) - (((g 2) * (quaN wx wy 0)) * (quaN wx wy 2)))

lemma Tools_quart_unfold (g : Fin 3 → ℝ) (twoth wx wy : ℝ) :
    Tools.find_omega_quart g twoth wx wy =
      solverOut (|((g ⬝ᵥ g) - ((Real.sin (twoth / 2)) ^ 2))| < (1e-9 : ℝ))
        (quaA g wx wy) (quaB g wx wy) (quaC g wx wy)
        (fun ω => Tools.quart_to_omega ((ω * 180) / Real.pi) wx wy) g twoth := by
  unfold Tools.find_omega_quart
  simp only [atan2_not_gt, if_false]
  rfl

lemma Tools_quart_row0 (g : Fin 3 → ℝ) (ω wx wy : ℝ) :
    (Tools.quart_to_omega ((ω * 180) / Real.pi) wx wy *ᵥ g) 0 =
      quaA g wx wy * Real.cos ω + quaB g wx wy * Real.sin ω - quaC g wx wy - g ⬝ᵥ g := by
  have hc : Real.cos ω = 1 - 2 * Real.sin (ω / 2) ^ 2 := by
    rw [← Real.cos_sq_add_sin_sq (ω / 2)]
    have := Real.cos_sq' (ω / 2)
    have h2 := Real.cos_two_mul (ω / 2)
    rw [show 2 * (ω / 2) = ω by ring] at h2
    rw [h2]; nlinarith [Real.sin_sq_add_cos_sq (ω / 2)]
  have hsn : Real.sin ω = 2 * Real.sin (ω / 2) * Real.cos (ω / 2) := by
    rw [← Real.sin_two_mul]; congr 1; ring
  have hn := quaN_unit wx wy
  rw [Tools_quart_eq, hc, hsn]
  unfold quaA quaB quaC
  generalize quaN wx wy 0 = n0 at *
  generalize quaN wx wy 1 = n1 at *
  generalize quaN wx wy 2 = n2 at *
  generalize Real.sin (ω / 2) = sh at *
  generalize Real.cos (ω / 2) = ch at *
  simp [quatMat, Matrix.mulVec, dotProduct, Fin.sum_univ_three]
  linear_combination (-2 * sh ^ 2 * g 0) * hn

/-- Soundness of `Tools.find_omega_quart` (clause 2 of C09, tools.py), with the module's own matrix
`quart_to_omega (ω·180/π) wx wy`.  `hab` is the code's division guard `a² + b² ≠ 0` for the
coefficients `a`, `b` the code computes (`quaA`, `quaB`; `n = Rx(wx) Ry(wy) e₃`). -/
theorem quart_sound (g : Fin 3 → ℝ) (twoth wx wy : ℝ) (oms ets : List ℝ)
    (hg : g ⬝ᵥ g = Real.sin (twoth / 2) ^ 2) (hs : Real.sin twoth ≠ 0)
    (hab : quaA g wx wy * quaA g wx wy + quaB g wx wy * quaB g wx wy ≠ 0)
    (h : Tools.find_omega_quart g twoth wx wy = some (oms, ets)) :
    oms.length = ets.length ∧
    ∀ (i : ℕ) (h1 : i < oms.length) (h2 : i < ets.length),
      (Tools.quart_to_omega ((oms[i] * 180) / Real.pi) wx wy *ᵥ g) 0 = -Real.sin (twoth / 2) ^ 2 ∧
      (Tools.quart_to_omega ((oms[i] * 180) / Real.pi) wx wy *ᵥ g) 1 = -Real.sin twoth * Real.sin (ets[i]) / 2 ∧
      (Tools.quart_to_omega ((oms[i] * 180) / Real.pi) wx wy *ᵥ g) 2 = Real.sin twoth * Real.cos (ets[i]) / 2 ∧
      -Real.pi < oms[i] ∧ oms[i] ≤ Real.pi := by
  rw [Tools_quart_unfold] at h
  exact solverOut_sound (M := fun ω => Tools.quart_to_omega ((ω * 180) / Real.pi) wx wy)
    (fun ω => Tools_quart_orth ω wx wy) (fun ω => Tools_quart_row0 g ω wx wy) hg hs hab h

/-- Completeness of `Tools.find_omega_general` (clause 3 of C09): every `ω ∈ (-π, π]` that brings `g` into
diffraction position (`(Ω g)₀ = -g·g`) is among the returned omegas; if such an `ω` exists exactly two
(possibly coinciding) solutions are returned, otherwise none; and this happens exactly when `d < 0`. -/
theorem general_complete (g : Fin 3 → ℝ) (twoth wx wy : ℝ) (oms ets : List ℝ)
    (hab : (g 0 * Real.cos wy) ^ 2 + (g 1 * Real.cos wy) ^ 2 ≠ 0)
    (h : Tools.find_omega_general g twoth wx wy = some (oms, ets)) :
    (∀ ω, -Real.pi < ω → ω ≤ Real.pi →
      (Tools.form_omega_mat_general ω wx wy *ᵥ g) 0 = -(g ⬝ᵥ g) → ω ∈ oms) ∧
    ((∃ ω, (Tools.form_omega_mat_general ω wx wy *ᵥ g) 0 = -(g ⬝ᵥ g)) → oms.length = 2 ∧ ets.length = 2) ∧
    ((¬ ∃ ω, (Tools.form_omega_mat_general ω wx wy *ᵥ g) 0 = -(g ⬝ᵥ g)) → oms = [] ∧ ets = []) ∧
    (genA g wx wy * genA g wx wy + genB g wx wy * genB g wx wy - genC g wx wy * genC g wx wy < 0 ↔
      ¬ ∃ ω, (Tools.form_omega_mat_general ω wx wy *ᵥ g) 0 = -(g ⬝ᵥ g)) := by
  rw [Tools_general_unfold] at h
  exact solverOut_complete (M := fun ω => Tools.form_omega_mat_general ω wx wy)
    (fun ω => Tools_fomg_row0 g ω wx wy) (gen_hab hab) h

/-- Completeness of `Tools.find_omega_quart` (clause 3 of C09), same shape as `general_complete`. -/
theorem quart_complete (g : Fin 3 → ℝ) (twoth wx wy : ℝ) (oms ets : List ℝ)
    (hab : quaA g wx wy * quaA g wx wy + quaB g wx wy * quaB g wx wy ≠ 0)
    (h : Tools.find_omega_quart g twoth wx wy = some (oms, ets)) :
    (∀ ω, -Real.pi < ω → ω ≤ Real.pi →
      (Tools.quart_to_omega ((ω * 180) / Real.pi) wx wy *ᵥ g) 0 = -(g ⬝ᵥ g) → ω ∈ oms) ∧
    ((∃ ω, (Tools.quart_to_omega ((ω * 180) / Real.pi) wx wy *ᵥ g) 0 = -(g ⬝ᵥ g)) →
      oms.length = 2 ∧ ets.length = 2) ∧
    ((¬ ∃ ω, (Tools.quart_to_omega ((ω * 180) / Real.pi) wx wy *ᵥ g) 0 = -(g ⬝ᵥ g)) → oms = [] ∧ ets = []) ∧
    (quaA g wx wy * quaA g wx wy + quaB g wx wy * quaB g wx wy - quaC g wx wy * quaC g wx wy < 0 ↔
      ¬ ∃ ω, (Tools.quart_to_omega ((ω * 180) / Real.pi) wx wy *ᵥ g) 0 = -(g ⬝ᵥ g)) := by
  rw [Tools_quart_unfold] at h
  exact solverOut_complete (M := fun ω => Tools.quart_to_omega ((ω * 180) / Real.pi) wx wy)
    (fun ω => Tools_quart_row0 g ω wx wy) hab h

/-- The solvers do return (the `assert` passes) when `|g|² = sin²θ`. -/
theorem general_isSome (g : Fin 3 → ℝ) (twoth wx wy : ℝ) (hg : g ⬝ᵥ g = Real.sin (twoth / 2) ^ 2) :
    (Tools.find_omega_general g twoth wx wy).isSome ∧ (Tools.find_omega_quart g twoth wx wy).isSome := by
  have hguard : |((g ⬝ᵥ g) - ((Real.sin (twoth / 2)) ^ 2))| < (1e-9 : ℝ) := by
    rw [hg, sub_self, abs_zero]; norm_num
  rw [Tools_general_unfold, Tools_quart_unfold]
  unfold solverOut
  rw [if_pos hguard, if_pos hguard]
  constructor <;> split_ifs <;> rfl

/-! ### `tth`, `tth2` -/

/-- `tth(cell, hkl, λ) = 2 asin(λ · sintl(cell, hkl))` (clause 5, tools.py) -/
theorem tth_eq (cell : Fin 6 → ℝ) (hkl : Fin 3 → ℝ) (lam : ℝ) :
    Tools.tth cell hkl lam = 2 * Real.arcsin (lam * Tools.sintl cell hkl) := rfl

/-- `tth2(g, λ) = 2 asin(|g| λ / 4π)` (clause 5, tools.py; `g` carries the factor 2π) -/
theorem tth2_eq (g : Fin 3 → ℝ) (lam : ℝ) :
    Tools.tth2 g lam = 2 * Real.arcsin (Real.sqrt (g ⬝ᵥ g) * lam / (4 * Real.pi)) := rfl

/-- `tth(cell, hkl, λ) = 2 asin(λ · sintl(cell, hkl))` (clause 5, laue.py) -/
theorem laue_tth_eq (cell : Fin 6 → ℝ) (hkl : Fin 3 → ℝ) (lam : ℝ) :
    Laue.tth cell hkl lam = 2 * Real.arcsin (lam * Laue.sintl cell hkl) := rfl

/-- laue.py `tth2(g, λ) = 2 asin(λ / (2 d))`, `d = 1/|g|`, i.e. `2 asin(|g| λ / 2)` (clause 5; in laue.py
`g` does NOT carry the factor 2π, unlike tools.py).  `g ≠ 0` is the code's division guard. -/
theorem laue_tth2_eq (g : Fin 3 → ℝ) (lam : ℝ) (hg : g ⬝ᵥ g ≠ 0) :
    Laue.tth2 g lam = 2 * Real.arcsin (Real.sqrt (g ⬝ᵥ g) * lam / 2) := by
  have hs : Real.sqrt (g ⬝ᵥ g) ≠ 0 := by
    intro h0
    have hnn : 0 ≤ g ⬝ᵥ g := dot_self_nonneg g
    exact hg ((Real.sqrt_eq_zero hnn).mp h0)
  unfold Laue.tth2
  simp only []
  congr 2
  field_simp

/-! ### laue.py: the solvers first rescale `g` to length `sin θ` -/

/-- the rescaling `g ↦ sin θ · g / |g|` that laue.py applies before solving -/
def lscale (g : Fin 3 → ℝ) (twoth : ℝ) : Fin 3 → ℝ :=
  (((Real.sqrt (g ⬝ᵥ g)))⁻¹ • ((Real.sin (twoth / 2)) • g))

lemma lscale_apply (g : Fin 3 → ℝ) (twoth : ℝ) (i : Fin 3) :
    lscale g twoth i = (Real.sqrt (g ⬝ᵥ g))⁻¹ * (Real.sin (twoth / 2) * g i) := by
  simp [lscale]

lemma lscale_norm (g : Fin 3 → ℝ) (twoth : ℝ) (hg : g ⬝ᵥ g ≠ 0) :
    lscale g twoth ⬝ᵥ lscale g twoth = Real.sin (twoth / 2) ^ 2 := by
  have hnn := dot_self_nonneg g
  have hS : Real.sqrt (g ⬝ᵥ g) ^ 2 = g ⬝ᵥ g := Real.sq_sqrt hnn
  have hs : Real.sqrt (g ⬝ᵥ g) ≠ 0 := fun h0 => hg ((Real.sqrt_eq_zero hnn).mp h0)
  unfold lscale
  rw [dotProduct_smul, smul_dotProduct, dotProduct_smul, smul_dotProduct]
  simp only [smul_eq_mul]
  generalize Real.sqrt (g ⬝ᵥ g) = S at *
  rw [← hS]
  field_simp

lemma Laue_general_eq (g : Fin 3 → ℝ) (twoth wx wy : ℝ) :
    Laue.find_omega_general g twoth wx wy = Tools.find_omega_general (lscale g twoth) twoth wx wy := by
  rw [Tools_general_unfold]
  unfold Laue.find_omega_general
  simp only [atan2_not_gt, if_false]
  rfl

lemma Laue_quart_eq (g : Fin 3 → ℝ) (twoth wx wy : ℝ) :
    Laue.find_omega_quart g twoth wx wy = Tools.find_omega_quart (lscale g twoth) twoth wx wy := by
  rw [Tools_quart_unfold]
  unfold Laue.find_omega_quart
  simp only [atan2_not_gt, if_false]
  rfl

end C09
