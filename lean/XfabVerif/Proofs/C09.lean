/-
C09 — omega/eta solvers (`find_omega`, `find_omega_general`, `find_omega_quart`, `find_omega_wedge`) and
`tth`/`tth2` of xfab.tools and xfab.laue.

Structure
* `om1`, `om2`, `etaOf`, `solverOut`: the common body of `find_omega_general/quart` once the dead
  `if ω > π` branches (`atan2 ≤ π`) are removed; `Tools_general_unfold`, `Tools_quart_unfold` tie the generated
  definitions to it by `rfl` with the code's own coefficient expressions (`genA/B/C`, `quaA/B/C`).
* soundness:    `general_sound`, `quart_sound`, `wedge_sound`, `plain_sound(_scaled)` (+ `laue_*`)
* completeness: `general_complete`, `quart_complete`, `plain_complete`, `plain_tangent_gap` (finding), `general_isSome`
* agreement:    `solvers_agree` (general = quart at zero tilt), `wedge_agrees_general`, `plain_agrees_general`
* two-theta:    `tth_eq`, `tth2_eq`, `tth_eq_tth2` (+ `laue_*`)
laue.py rescales `g` to `lscale g 2θ = sin θ · g/|g|` and then runs the tools.py code (`Laue_general_eq` etc.).

Hypotheses are the places where Python divides by zero / asserts: `a²+b² ≠ 0` (g ∥ rotation axis or
`cos wy = 0`), `sin 2θ ≠ 0`, `g ≠ 0`, and for the wedge solver `cos wedge ≠ 0`, `a ≠ 0`, `sin θ > 0`.
-/
import XfabVerif.Gen.ToolsReal
import XfabVerif.Gen.LaueReal
import XfabVerif.Spec.Basic

set_option linter.unusedVariables false
set_option linter.style.longLine false
noncomputable section
open Matrix

namespace C09

/-! ### `atan2` facts -/

lemma atan2_le_pi (y x : ℝ) : XR.atan2 y x ≤ Real.pi := Complex.arg_le_pi _

lemma neg_pi_lt_atan2 (y x : ℝ) : -Real.pi < XR.atan2 y x := Complex.neg_pi_lt_arg _

lemma atan2_not_gt (y x : ℝ) : ¬ (XR.atan2 y x > Real.pi) := not_lt.mpr (atan2_le_pi y x)

lemma norm_mk {x y r : ℝ} (hr : 0 < r) (h : x ^ 2 + y ^ 2 = r ^ 2) : ‖(⟨x, y⟩ : ℂ)‖ = r := by
  rw [Complex.norm_def, Complex.normSq_mk, show x * x + y * y = r ^ 2 by rw [← h]; ring]
  exact Real.sqrt_sq hr.le

lemma cos_atan2_scaled {x y r : ℝ} (hr : 0 < r) (h : x ^ 2 + y ^ 2 = r ^ 2) :
    Real.cos (XR.atan2 y x) = x / r := by
  have hn := norm_mk hr h
  have hz : (⟨x, y⟩ : ℂ) ≠ 0 := by
    intro h0; rw [h0, norm_zero] at hn; exact hr.ne hn
  unfold XR.atan2
  rw [Complex.cos_arg hz, hn]

lemma sin_atan2_scaled {x y r : ℝ} (hr : 0 < r) (h : x ^ 2 + y ^ 2 = r ^ 2) :
    Real.sin (XR.atan2 y x) = y / r := by
  have hn := norm_mk hr h
  unfold XR.atan2
  rw [Complex.sin_arg, hn]

lemma cos_atan2 {x y : ℝ} (h : x ^ 2 + y ^ 2 = 1) : Real.cos (XR.atan2 y x) = x := by
  have := cos_atan2_scaled (r := 1) one_pos (by rw [h]; norm_num); simpa using this

lemma sin_atan2 {x y : ℝ} (h : x ^ 2 + y ^ 2 = 1) : Real.sin (XR.atan2 y x) = y := by
  have := sin_atan2_scaled (r := 1) one_pos (by rw [h]; norm_num); simpa using this

/-- an angle in `(-π, π]` is the `atan2` of its sine and cosine -/
lemma atan2_sin_cos {ω : ℝ} (h1 : -Real.pi < ω) (h2 : ω ≤ Real.pi) :
    XR.atan2 (Real.sin ω) (Real.cos ω) = ω := by
  unfold XR.atan2
  have : (⟨Real.cos ω, Real.sin ω⟩ : ℂ) = Complex.cos ω + Complex.sin ω * Complex.I := by
    apply Complex.ext <;> simp [Complex.cos_ofReal_re, Complex.sin_ofReal_re]
  rw [this]
  exact Complex.arg_cos_add_sin_mul_I ⟨h1, h2⟩

/-! ### the quadratic solver `a cos ω + b sin ω = c` shared by `find_omega_general/quart` -/

/-- first root as the code computes it -/
def om1 (a b c : ℝ) : ℝ :=
  XR.atan2 (((b * c) + (-(a * Real.sqrt (((a * a) + (b * b)) - (c * c))))) / ((a * a) + (b * b)))
    (((a * c) + (b * Real.sqrt (((a * a) + (b * b)) - (c * c)))) / ((a * a) + (b * b)))

/-- second root as the code computes it -/
def om2 (a b c : ℝ) : ℝ :=
  XR.atan2 (((b * c) + (a * Real.sqrt (((a * a) + (b * b)) - (c * c)))) / ((a * a) + (b * b)))
    (((a * c) + (-(b * Real.sqrt (((a * a) + (b * b)) - (c * c))))) / ((a * a) + (b * b)))

/-- eta as the code computes it from the rotated vector -/
def etaOf (R : Matrix (Fin 3) (Fin 3) ℝ) (g : Fin 3 → ℝ) (twoth : ℝ) : ℝ :=
  XR.atan2 (((-2 : ℝ) * ((R *ᵥ g) 1)) / (Real.sin twoth)) ((2 * ((R *ᵥ g) 2)) / (Real.sin twoth))

lemma om1_spec {a b c : ℝ} (hab : a * a + b * b ≠ 0) (hd : 0 ≤ a * a + b * b - c * c) :
    Real.cos (om1 a b c) = (a * c + b * Real.sqrt (a * a + b * b - c * c)) / (a * a + b * b) ∧
    Real.sin (om1 a b c) = (b * c - a * Real.sqrt (a * a + b * b - c * c)) / (a * a + b * b) := by
  have hS : Real.sqrt (a * a + b * b - c * c) ^ 2 = a * a + b * b - c * c := Real.sq_sqrt hd
  set S := Real.sqrt (a * a + b * b - c * c) with hSdef
  have hu : ((a * c + b * S) / (a * a + b * b)) ^ 2 + ((b * c + -(a * S)) / (a * a + b * b)) ^ 2 = 1 := by
    have hab' : a ^ 2 + b ^ 2 ≠ 0 := by rw [sq, sq]; exact hab
    field_simp
    linear_combination (a * a + b * b) * hS
  unfold om1
  rw [← hSdef]
  refine ⟨cos_atan2 hu, ?_⟩
  rw [sin_atan2 hu]; ring

lemma om2_spec {a b c : ℝ} (hab : a * a + b * b ≠ 0) (hd : 0 ≤ a * a + b * b - c * c) :
    Real.cos (om2 a b c) = (a * c - b * Real.sqrt (a * a + b * b - c * c)) / (a * a + b * b) ∧
    Real.sin (om2 a b c) = (b * c + a * Real.sqrt (a * a + b * b - c * c)) / (a * a + b * b) := by
  have hS : Real.sqrt (a * a + b * b - c * c) ^ 2 = a * a + b * b - c * c := Real.sq_sqrt hd
  set S := Real.sqrt (a * a + b * b - c * c) with hSdef
  have hu : ((a * c + -(b * S)) / (a * a + b * b)) ^ 2 + ((b * c + a * S) / (a * a + b * b)) ^ 2 = 1 := by
    have hab' : a ^ 2 + b ^ 2 ≠ 0 := by rw [sq, sq]; exact hab
    field_simp
    linear_combination (a * a + b * b) * hS
  unfold om2
  rw [← hSdef]
  refine ⟨?_, sin_atan2 hu⟩
  rw [cos_atan2 hu]; ring

lemma om1_solves {a b c : ℝ} (hab : a * a + b * b ≠ 0) (hd : 0 ≤ a * a + b * b - c * c) :
    a * Real.cos (om1 a b c) + b * Real.sin (om1 a b c) = c := by
  obtain ⟨h1, h2⟩ := om1_spec hab hd
  have hab' : a ^ 2 + b ^ 2 ≠ 0 := by rw [sq, sq]; exact hab
  rw [h1, h2]; field_simp; ring

lemma om2_solves {a b c : ℝ} (hab : a * a + b * b ≠ 0) (hd : 0 ≤ a * a + b * b - c * c) :
    a * Real.cos (om2 a b c) + b * Real.sin (om2 a b c) = c := by
  obtain ⟨h1, h2⟩ := om2_spec hab hd
  have hab' : a ^ 2 + b ^ 2 ≠ 0 := by rw [sq, sq]; exact hab
  rw [h1, h2]; field_simp; ring

/-! ### rotations preserve length; eta -/

lemma dot_self_nonneg (g : Fin 3 → ℝ) : 0 ≤ g ⬝ᵥ g := by
  simp only [dotProduct, Fin.sum_univ_three]
  nlinarith [mul_self_nonneg (g 0), mul_self_nonneg (g 1), mul_self_nonneg (g 2)]

lemma rot_norm {R : Matrix (Fin 3) (Fin 3) ℝ} (h : Rᵀ * R = 1) (g : Fin 3 → ℝ) :
    (R *ᵥ g) ⬝ᵥ (R *ᵥ g) = g ⬝ᵥ g := by
  rw [Matrix.dotProduct_mulVec, ← Matrix.mulVec_transpose, Matrix.mulVec_mulVec, h, Matrix.one_mulVec]

lemma eta_spec {R : Matrix (Fin 3) (Fin 3) ℝ} {g : Fin 3 → ℝ} {twoth : ℝ} (hR : Rᵀ * R = 1)
    (hg : g ⬝ᵥ g = Real.sin (twoth / 2) ^ 2) (hs : Real.sin twoth ≠ 0)
    (h0 : (R *ᵥ g) 0 = -Real.sin (twoth / 2) ^ 2) :
    (R *ᵥ g) 1 = -Real.sin twoth * Real.sin (etaOf R g twoth) / 2 ∧
    (R *ᵥ g) 2 = Real.sin twoth * Real.cos (etaOf R g twoth) / 2 := by
  have hn := rot_norm hR g
  rw [hg] at hn
  simp only [dotProduct, Fin.sum_univ_three] at hn
  have hS : Real.sin twoth = 2 * Real.sin (twoth / 2) * Real.cos (twoth / 2) := by
    rw [← Real.sin_two_mul]; congr 1; ring
  have hsc := Real.sin_sq_add_cos_sq (twoth / 2)
  unfold etaOf
  generalize (R *ᵥ g) 0 = v0 at *
  generalize (R *ᵥ g) 1 = v1 at *
  generalize (R *ᵥ g) 2 = v2 at *
  generalize Real.sin twoth = S at *
  generalize Real.sin (twoth / 2) = s at *
  generalize Real.cos (twoth / 2) = k at *
  have hu : ((2 * v2) / S) ^ 2 + (((-2 : ℝ) * v1) / S) ^ 2 = 1 := by
    field_simp
    subst h0 hS
    linear_combination 4 * hn - 4 * s ^ 2 * hsc
  rw [sin_atan2 hu, cos_atan2 hu]
  constructor <;> field_simp

/-- what it means for `(ω, η)` to solve the diffraction condition for `g` under the rotation `R`:
`R g = (-sin²θ, -sin 2θ sin η / 2, sin 2θ cos η / 2)` and `ω ∈ (-π, π]` -/
def Solves (R : Matrix (Fin 3) (Fin 3) ℝ) (g : Fin 3 → ℝ) (twoth ω η : ℝ) : Prop :=
  (R *ᵥ g) 0 = -Real.sin (twoth / 2) ^ 2 ∧
  (R *ᵥ g) 1 = -Real.sin twoth * Real.sin η / 2 ∧
  (R *ᵥ g) 2 = Real.sin twoth * Real.cos η / 2 ∧
  -Real.pi < ω ∧ ω ≤ Real.pi

/-- completeness of the two roots: any `ω ∈ (-π, π]` with `a cos ω + b sin ω = c` is one of them,
and the discriminant is then non-negative -/
lemma quad_complete {a b c ω : ℝ} (hab : a * a + b * b ≠ 0) (h1 : -Real.pi < ω) (h2 : ω ≤ Real.pi)
    (heq : a * Real.cos ω + b * Real.sin ω = c) :
    0 ≤ a * a + b * b - c * c ∧ (ω = om1 a b c ∨ ω = om2 a b c) := by
  have hsc := Real.sin_sq_add_cos_sq ω
  have hsq : (b * Real.cos ω - a * Real.sin ω) * (b * Real.cos ω - a * Real.sin ω) = a * a + b * b - c * c := by
    rw [← heq]; linear_combination (a * a + b * b) * hsc
  have hd : 0 ≤ a * a + b * b - c * c := by rw [← hsq]; exact mul_self_nonneg _
  refine ⟨hd, ?_⟩
  have hS : Real.sqrt (a * a + b * b - c * c) * Real.sqrt (a * a + b * b - c * c) = a * a + b * b - c * c :=
    Real.mul_self_sqrt hd
  rw [← hS] at hsq
  rcases mul_self_eq_mul_self_iff.mp hsq with hc | hc
  · left
    have hx : (a * c + b * Real.sqrt (a * a + b * b - c * c)) / (a * a + b * b) = Real.cos ω := by
      rw [div_eq_iff hab]; linear_combination (-a) * heq + (-b) * hc
    have hy : (b * c + -(a * Real.sqrt (a * a + b * b - c * c))) / (a * a + b * b) = Real.sin ω := by
      rw [div_eq_iff hab]; linear_combination (-b) * heq + a * hc
    unfold om1
    rw [hx, hy, atan2_sin_cos h1 h2]
  · right
    have hx : (a * c + -(b * Real.sqrt (a * a + b * b - c * c))) / (a * a + b * b) = Real.cos ω := by
      rw [div_eq_iff hab]; linear_combination (-a) * heq + (-b) * hc
    have hy : (b * c + a * Real.sqrt (a * a + b * b - c * c)) / (a * a + b * b) = Real.sin ω := by
      rw [div_eq_iff hab]; linear_combination (-b) * heq + a * hc
    unfold om2
    rw [hx, hy, atan2_sin_cos h1 h2]

/-! ### the common shape of `find_omega_general` / `find_omega_quart` -/

/-- common body of the two solvers, after the dead `ω > π` branches are removed -/
def solverOut (guard : Prop) [Decidable guard] (a b c : ℝ) (M : ℝ → Matrix (Fin 3) (Fin 3) ℝ)
    (g : Fin 3 → ℝ) (twoth : ℝ) : Option (List ℝ × List ℝ) :=
  if guard then
    if a * a + b * b - c * c < 0 then some ([], [])
    else some ([om1 a b c, om2 a b c], [etaOf (M (om1 a b c)) g twoth, etaOf (M (om2 a b c)) g twoth])
  else none

section generic
variable {guard : Prop} [Decidable guard] {a b c : ℝ} {M : ℝ → Matrix (Fin 3) (Fin 3) ℝ}
  {g : Fin 3 → ℝ} {twoth : ℝ} {oms ets : List ℝ}

lemma solverOut_sound (horth : ∀ ω, (M ω)ᵀ * M ω = 1)
    (hrow : ∀ ω, (M ω *ᵥ g) 0 = a * Real.cos ω + b * Real.sin ω - c - g ⬝ᵥ g)
    (hg : g ⬝ᵥ g = Real.sin (twoth / 2) ^ 2) (hs : Real.sin twoth ≠ 0) (hab : a * a + b * b ≠ 0)
    (h : solverOut guard a b c M g twoth = some (oms, ets)) :
    oms.length = ets.length ∧
    ∀ (i : ℕ) (h1 : i < oms.length) (h2 : i < ets.length), Solves (M oms[i]) g twoth oms[i] ets[i] := by
  unfold solverOut at h
  split_ifs at h with hguard hd
  · simp only [Option.some.injEq, Prod.mk.injEq] at h
    obtain ⟨rfl, rfl⟩ := h
    simp
  · simp only [Option.some.injEq, Prod.mk.injEq] at h
    obtain ⟨rfl, rfl⟩ := h
    have hd := not_lt.mp hd
    have key : ∀ ω, a * Real.cos ω + b * Real.sin ω = c → -Real.pi < ω → ω ≤ Real.pi →
        Solves (M ω) g twoth ω (etaOf (M ω) g twoth) := by
      intro ω hω h1 h2
      have h0 : (M ω *ᵥ g) 0 = -Real.sin (twoth / 2) ^ 2 := by
        rw [hrow, hω, hg]; ring
      obtain ⟨e1, e2⟩ := eta_spec (horth ω) hg hs h0
      exact ⟨h0, e1, e2, h1, h2⟩
    refine ⟨rfl, ?_⟩
    intro i h1 h2
    have hi : i = 0 ∨ i = 1 := by simp at h1; omega
    rcases hi with rfl | rfl
    · exact key _ (om1_solves hab hd) (neg_pi_lt_atan2 _ _) (atan2_le_pi _ _)
    · exact key _ (om2_solves hab hd) (neg_pi_lt_atan2 _ _) (atan2_le_pi _ _)

lemma solverOut_complete
    (hrow : ∀ ω, (M ω *ᵥ g) 0 = a * Real.cos ω + b * Real.sin ω - c - g ⬝ᵥ g)
    (hab : a * a + b * b ≠ 0)
    (h : solverOut guard a b c M g twoth = some (oms, ets)) :
    (∀ ω, -Real.pi < ω → ω ≤ Real.pi → (M ω *ᵥ g) 0 = -(g ⬝ᵥ g) → ω ∈ oms) ∧
    ((∃ ω, (M ω *ᵥ g) 0 = -(g ⬝ᵥ g)) → oms.length = 2 ∧ ets.length = 2) ∧
    ((¬ ∃ ω, (M ω *ᵥ g) 0 = -(g ⬝ᵥ g)) → oms = [] ∧ ets = []) ∧
    (a * a + b * b - c * c < 0 ↔ ¬ ∃ ω, (M ω *ᵥ g) 0 = -(g ⬝ᵥ g)) := by
  have hiff : ∀ ω, (M ω *ᵥ g) 0 = -(g ⬝ᵥ g) ↔ a * Real.cos ω + b * Real.sin ω = c := by
    intro ω; rw [hrow]; constructor <;> intro h <;> linarith
  -- any solution can be moved into (-π, π]
  have hex : (∃ ω, (M ω *ᵥ g) 0 = -(g ⬝ᵥ g)) ↔ 0 ≤ a * a + b * b - c * c := by
    constructor
    · rintro ⟨ω, hω⟩
      have hω := (hiff ω).mp hω
      have hsc := Real.sin_sq_add_cos_sq ω
      have hsq : (b * Real.cos ω - a * Real.sin ω) * (b * Real.cos ω - a * Real.sin ω) = a * a + b * b - c * c := by
        rw [← hω]; linear_combination (a * a + b * b) * hsc
      rw [← hsq]; exact mul_self_nonneg _
    · intro hd
      exact ⟨om1 a b c, (hiff _).mpr (om1_solves hab hd)⟩
  unfold solverOut at h
  split_ifs at h with hguard hd
  · simp only [Option.some.injEq, Prod.mk.injEq] at h
    obtain ⟨rfl, rfl⟩ := h
    have hno : ¬ ∃ ω, (M ω *ᵥ g) 0 = -(g ⬝ᵥ g) := by rw [hex]; exact not_le.mpr hd
    refine ⟨?_, ?_, ?_, ?_⟩
    · intro ω _ _ hω; exact absurd ⟨ω, hω⟩ hno
    · intro he; exact absurd he hno
    · intro _; exact ⟨rfl, rfl⟩
    · exact ⟨fun _ => hno, fun _ => hd⟩
  · simp only [Option.some.injEq, Prod.mk.injEq] at h
    obtain ⟨rfl, rfl⟩ := h
    have hd' := not_lt.mp hd
    refine ⟨?_, ?_, ?_, ?_⟩
    · intro ω h1 h2 hω
      rcases (quad_complete hab h1 h2 ((hiff ω).mp hω)).2 with e | e <;> simp [e]
    · intro _; exact ⟨rfl, rfl⟩
    · intro hno; exact absurd (hex.mpr hd') hno
    · exact ⟨fun h => absurd h hd, fun hno => absurd (hex.mpr hd') hno⟩

end generic

/-! ### `find_omega_general` -/

lemma Tools_fomg_eq (ω χ w : ℝ) :
    Tools.form_omega_mat_general ω χ w = Spec.Rx χ * (Spec.Ry w * Spec.Rz ω) := by
  ext i j; fin_cases i <;> fin_cases j <;>
    simp [Tools.form_omega_mat_general, Tools.form_omega_mat, Spec.Rx, Spec.Ry, Spec.Rz, Matrix.mul_apply, Fin.sum_univ_three] <;>
    first | done | ring

lemma Tools_fomg_orth (ω χ w : ℝ) :
    (Tools.form_omega_mat_general ω χ w)ᵀ * Tools.form_omega_mat_general ω χ w = 1 := by
  rw [Tools_fomg_eq]
  exact ((Spec.Rx_isRot χ).mul ((Spec.Ry_isRot w).mul (Spec.Rz_isRot ω))).1

/-- coefficients of `find_omega_general` as the code computes them (`r_mat = w_mat_x · w_mat_y`) -/
def genA (g : Fin 3 → ℝ) (wx wy : ℝ) : ℝ :=
  ((g 0) * (((Spec.Rx wx * Spec.Ry wy) 0) 0)) + ((g 1) * (((Spec.Rx wx * Spec.Ry wy) 0) 1))
def genB (g : Fin 3 → ℝ) (wx wy : ℝ) : ℝ :=
  ((g 0) * (((Spec.Rx wx * Spec.Ry wy) 0) 1)) - ((g 1) * (((Spec.Rx wx * Spec.Ry wy) 0) 0))
def genC (g : Fin 3 → ℝ) (wx wy : ℝ) : ℝ :=
  (-(g ⬝ᵥ g)) - ((g 2) * (((Spec.Rx wx * Spec.Ry wy) 0) 2))

lemma genA_eq (g : Fin 3 → ℝ) (wx wy : ℝ) : genA g wx wy = g 0 * Real.cos wy := by
  simp [genA, Spec.Rx, Spec.Ry, Matrix.mul_apply, Fin.sum_univ_three]
lemma genB_eq (g : Fin 3 → ℝ) (wx wy : ℝ) : genB g wx wy = -(g 1 * Real.cos wy) := by
  simp [genB, Spec.Rx, Spec.Ry, Matrix.mul_apply, Fin.sum_univ_three]
lemma genC_eq (g : Fin 3 → ℝ) (wx wy : ℝ) : genC g wx wy = -(g ⬝ᵥ g) - g 2 * Real.sin wy := by
  simp [genC, Spec.Rx, Spec.Ry, Matrix.mul_apply, Fin.sum_univ_three]

lemma gen_hab {g : Fin 3 → ℝ} {wx wy : ℝ} (hab : (g 0 * Real.cos wy) ^ 2 + (g 1 * Real.cos wy) ^ 2 ≠ 0) :
    genA g wx wy * genA g wx wy + genB g wx wy * genB g wx wy ≠ 0 := by
  rw [genA_eq, genB_eq]; intro h0; apply hab; rw [← h0]; ring

lemma Tools_general_unfold (g : Fin 3 → ℝ) (twoth wx wy : ℝ) :
    Tools.find_omega_general g twoth wx wy =
      solverOut (|((g ⬝ᵥ g) - ((Real.sin (twoth / 2)) ^ 2))| < (1e-9 : ℝ))
        (genA g wx wy) (genB g wx wy) (genC g wx wy)
        (fun ω => Tools.form_omega_mat_general ω wx wy) g twoth := by
  unfold Tools.find_omega_general
  simp only [atan2_not_gt, if_false]
  rfl

lemma Tools_fomg_row0 (g : Fin 3 → ℝ) (ω wx wy : ℝ) :
    (Tools.form_omega_mat_general ω wx wy *ᵥ g) 0 =
      genA g wx wy * Real.cos ω + genB g wx wy * Real.sin ω - genC g wx wy - g ⬝ᵥ g := by
  rw [genA_eq, genB_eq, genC_eq]
  simp [Tools_fomg_eq, Spec.Rx, Spec.Ry, Spec.Rz, Matrix.mulVec, dotProduct, Fin.sum_univ_three,
    Matrix.mul_apply]
  ring

/-- Soundness of `Tools.find_omega_general` (clause 1 of C09, tools.py): every returned `(ω, η)` rotates
`g` (of length `sin θ`) with the module's own `form_omega_mat_general ω wx wy` onto
`(-sin²θ, -sin 2θ sin η / 2, sin 2θ cos η / 2)`, and `ω ∈ (-π, π]`.  `hab` is the code's division guard
`a² + b² ≠ 0` (`a = g₀ cos wy`, `b = -g₁ cos wy`): it excludes `g ∥ z` and `wy = ±π/2`, where Python
divides 0/0. -/
theorem general_sound (g : Fin 3 → ℝ) (twoth wx wy : ℝ) (oms ets : List ℝ)
    (hg : g ⬝ᵥ g = Real.sin (twoth / 2) ^ 2) (hs : Real.sin twoth ≠ 0)
    (hab : (g 0 * Real.cos wy) ^ 2 + (g 1 * Real.cos wy) ^ 2 ≠ 0)
    (h : Tools.find_omega_general g twoth wx wy = some (oms, ets)) :
    oms.length = ets.length ∧
    ∀ (i : ℕ) (h1 : i < oms.length) (h2 : i < ets.length),
      (Tools.form_omega_mat_general (oms[i]) wx wy *ᵥ g) 0 = -Real.sin (twoth / 2) ^ 2 ∧
      (Tools.form_omega_mat_general (oms[i]) wx wy *ᵥ g) 1 = -Real.sin twoth * Real.sin (ets[i]) / 2 ∧
      (Tools.form_omega_mat_general (oms[i]) wx wy *ᵥ g) 2 = Real.sin twoth * Real.cos (ets[i]) / 2 ∧
      -Real.pi < oms[i] ∧ oms[i] ≤ Real.pi := by
  rw [Tools_general_unfold] at h
  exact solverOut_sound (fun ω => Tools_fomg_orth ω wx wy) (fun ω => Tools_fomg_row0 g ω wx wy)
    hg hs (gen_hab hab) h

/-! ### quaternion rotation (`quart_to_omega`) -/

/-- the quaternion → matrix formula used by `quart_to_omega` -/
def quatMat (q0 q1 q2 c : ℝ) : Matrix (Fin 3) (Fin 3) ℝ :=
  !![((1 - (2 * (q1 ^ 2))) - (2 * (q2 ^ 2))), (((2 * q0) * q1) - ((2 * q2) * c)), (((2 * q0) * q2) + ((2 * q1) * c));
     (((2 * q0) * q1) + ((2 * q2) * c)), ((1 - (2 * (q0 ^ 2))) - (2 * (q2 ^ 2))), (((2 * q1) * q2) - ((2 * q0) * c));
     (((2 * q0) * q2) - ((2 * q1) * c)), (((2 * q1) * q2) + ((2 * q0) * c)), ((1 - (2 * (q0 ^ 2))) - (2 * (q1 ^ 2)))]

lemma quatMat_orth (q0 q1 q2 c : ℝ) (h : q0 ^ 2 + q1 ^ 2 + q2 ^ 2 + c ^ 2 = 1) :
    (quatMat q0 q1 q2 c)ᵀ * quatMat q0 q1 q2 c = 1 := by
  ext i j
  fin_cases i <;> fin_cases j <;>
    simp [quatMat, Matrix.mul_apply, Fin.sum_univ_three, Matrix.transpose_apply]
  · linear_combination (4 * (q1 ^ 2 + q2 ^ 2)) * h
  · linear_combination (-4 * (q0 * q1)) * h
  · linear_combination (-4 * (q0 * q2)) * h
  · linear_combination (-4 * (q0 * q1)) * h
  · linear_combination (4 * (q0 ^ 2 + q2 ^ 2)) * h
  · linear_combination (-4 * (q1 * q2)) * h
  · linear_combination (-4 * (q0 * q2)) * h
  · linear_combination (-4 * (q1 * q2)) * h
  · linear_combination (4 * (q0 ^ 2 + q1 ^ 2)) * h

/-- the rotation axis (`normal`) of `find_omega_quart` as the code computes it -/
def quaN (wx wy : ℝ) : Fin 3 → ℝ := Spec.Rx wx *ᵥ (Spec.Ry wy *ᵥ (![(0 : ℝ), (0 : ℝ), (1 : ℝ)] : (Fin 3 → ℝ)))

lemma quaN_0 (wx wy : ℝ) : quaN wx wy 0 = Real.sin wy := by
  simp [quaN, Spec.Rx, Spec.Ry, Matrix.mulVec, dotProduct, Fin.sum_univ_three]
lemma quaN_1 (wx wy : ℝ) : quaN wx wy 1 = -(Real.sin wx * Real.cos wy) := by
  simp [quaN, Spec.Rx, Spec.Ry, Matrix.mulVec, dotProduct, Fin.sum_univ_three]
lemma quaN_2 (wx wy : ℝ) : quaN wx wy 2 = Real.cos wx * Real.cos wy := by
  simp [quaN, Spec.Rx, Spec.Ry, Matrix.mulVec, dotProduct, Fin.sum_univ_three]

lemma quaN_unit (wx wy : ℝ) : quaN wx wy 0 ^ 2 + quaN wx wy 1 ^ 2 + quaN wx wy 2 ^ 2 = 1 := by
  rw [quaN_0, quaN_1, quaN_2]
  linear_combination Real.sin_sq_add_cos_sq wy + Real.cos wy ^ 2 * Real.sin_sq_add_cos_sq wx

lemma Tools_quart_eq (ω wx wy : ℝ) :
    Tools.quart_to_omega ((ω * 180) / Real.pi) wx wy =
      quatMat (Real.sin (ω / 2) * quaN wx wy 0) (Real.sin (ω / 2) * quaN wx wy 1)
        (Real.sin (ω / 2) * quaN wx wy 2) (Real.cos (ω / 2)) := by
  have hp := Real.pi_ne_zero
  have hw : (ω * 180 / Real.pi * Real.pi) / 360 = ω / 2 := by field_simp; ring
  rw [quaN_0, quaN_1, quaN_2]
  unfold Tools.quart_to_omega quatMat
  simp only [hw]
  ext i j
  fin_cases i <;> fin_cases j <;>
    simp [Matrix.mulVec, dotProduct, Fin.sum_univ_three] <;> ring

lemma Tools_quart_orth (ω wx wy : ℝ) :
    (Tools.quart_to_omega ((ω * 180) / Real.pi) wx wy)ᵀ * Tools.quart_to_omega ((ω * 180) / Real.pi) wx wy = 1 := by
  rw [Tools_quart_eq]
  apply quatMat_orth
  linear_combination Real.sin (ω / 2) ^ 2 * quaN_unit wx wy + Real.sin_sq_add_cos_sq (ω / 2)

/-- coefficients of `find_omega_quart` as the code computes them -/
def quaA (g : Fin 3 → ℝ) (wx wy : ℝ) : ℝ :=
  ((((g 0) * (1 - ((quaN wx wy 0) ^ 2))) - (((g 1) * (quaN wx wy 0)) * (quaN wx wy 1))) - (((g 2) * (quaN wx wy 0)) * (quaN wx wy 2)))
def quaB (g : Fin 3 → ℝ) (wx wy : ℝ) : ℝ :=
  (((g 2) * (quaN wx wy 1)) - ((g 1) * (quaN wx wy 2)))
def quaC (g : Fin 3 → ℝ) (wx wy : ℝ) : ℝ :=
  ((((-(g ⬝ᵥ g)) - ((g 0) * ((quaN wx wy 0) ^ 2))) - (((g 1) * (quaN wx wy 0)) * (quaN wx wy 1))) - (((g 2) * (quaN wx wy 0)) * (quaN wx wy 2)))

lemma Tools_quart_unfold (g : Fin 3 → ℝ) (twoth wx wy : ℝ) :
    Tools.find_omega_quart g twoth wx wy =
      solverOut (|((g ⬝ᵥ g) - ((Real.sin (twoth / 2)) ^ 2))| < (1e-9 : ℝ))
        (quaA g wx wy) (quaB g wx wy) (quaC g wx wy)
        (fun ω => Tools.quart_to_omega ((ω * 180) / Real.pi) wx wy) g twoth := by
  unfold Tools.find_omega_quart
  simp only [atan2_not_gt, if_false]
  rfl

lemma Tools_quart_row0 (g : Fin 3 → ℝ) (ω wx wy : ℝ) :
    (Tools.quart_to_omega ((ω * 180) / Real.pi) wx wy *ᵥ g) 0 =
      quaA g wx wy * Real.cos ω + quaB g wx wy * Real.sin ω - quaC g wx wy - g ⬝ᵥ g := by
  have hc : Real.cos ω = 1 - 2 * Real.sin (ω / 2) ^ 2 := by
    rw [← Real.cos_sq_add_sin_sq (ω / 2)]
    have := Real.cos_sq' (ω / 2)
    have h2 := Real.cos_two_mul (ω / 2)
    rw [show 2 * (ω / 2) = ω by ring] at h2
    rw [h2]; nlinarith [Real.sin_sq_add_cos_sq (ω / 2)]
  have hsn : Real.sin ω = 2 * Real.sin (ω / 2) * Real.cos (ω / 2) := by
    rw [← Real.sin_two_mul]; congr 1; ring
  have hn := quaN_unit wx wy
  rw [Tools_quart_eq, hc, hsn]
  unfold quaA quaB quaC
  generalize quaN wx wy 0 = n0 at *
  generalize quaN wx wy 1 = n1 at *
  generalize quaN wx wy 2 = n2 at *
  generalize Real.sin (ω / 2) = sh at *
  generalize Real.cos (ω / 2) = ch at *
  simp [quatMat, Matrix.mulVec, dotProduct, Fin.sum_univ_three]
  linear_combination (-2 * sh ^ 2 * g 0) * hn

/-- Soundness of `Tools.find_omega_quart` (clause 2 of C09, tools.py), with the module's own matrix
`quart_to_omega (ω·180/π) wx wy`.  `hab` is the code's division guard `a² + b² ≠ 0` for the
coefficients `a`, `b` the code computes (`quaA`, `quaB`; `n = Rx(wx) Ry(wy) e₃`). -/
theorem quart_sound (g : Fin 3 → ℝ) (twoth wx wy : ℝ) (oms ets : List ℝ)
    (hg : g ⬝ᵥ g = Real.sin (twoth / 2) ^ 2) (hs : Real.sin twoth ≠ 0)
    (hab : quaA g wx wy * quaA g wx wy + quaB g wx wy * quaB g wx wy ≠ 0)
    (h : Tools.find_omega_quart g twoth wx wy = some (oms, ets)) :
    oms.length = ets.length ∧
    ∀ (i : ℕ) (h1 : i < oms.length) (h2 : i < ets.length),
      (Tools.quart_to_omega ((oms[i] * 180) / Real.pi) wx wy *ᵥ g) 0 = -Real.sin (twoth / 2) ^ 2 ∧
      (Tools.quart_to_omega ((oms[i] * 180) / Real.pi) wx wy *ᵥ g) 1 = -Real.sin twoth * Real.sin (ets[i]) / 2 ∧
      (Tools.quart_to_omega ((oms[i] * 180) / Real.pi) wx wy *ᵥ g) 2 = Real.sin twoth * Real.cos (ets[i]) / 2 ∧
      -Real.pi < oms[i] ∧ oms[i] ≤ Real.pi := by
  rw [Tools_quart_unfold] at h
  exact solverOut_sound (M := fun ω => Tools.quart_to_omega ((ω * 180) / Real.pi) wx wy)
    (fun ω => Tools_quart_orth ω wx wy) (fun ω => Tools_quart_row0 g ω wx wy) hg hs hab h

/-- Completeness of `Tools.find_omega_general` (clause 3 of C09): every `ω ∈ (-π, π]` that brings `g` into
diffraction position (`(Ω g)₀ = -g·g`) is among the returned omegas; if such an `ω` exists exactly two
(possibly coinciding) solutions are returned, otherwise none; and this happens exactly when `d < 0`. -/
theorem general_complete (g : Fin 3 → ℝ) (twoth wx wy : ℝ) (oms ets : List ℝ)
    (hab : (g 0 * Real.cos wy) ^ 2 + (g 1 * Real.cos wy) ^ 2 ≠ 0)
    (h : Tools.find_omega_general g twoth wx wy = some (oms, ets)) :
    (∀ ω, -Real.pi < ω → ω ≤ Real.pi →
      (Tools.form_omega_mat_general ω wx wy *ᵥ g) 0 = -(g ⬝ᵥ g) → ω ∈ oms) ∧
    ((∃ ω, (Tools.form_omega_mat_general ω wx wy *ᵥ g) 0 = -(g ⬝ᵥ g)) → oms.length = 2 ∧ ets.length = 2) ∧
    ((¬ ∃ ω, (Tools.form_omega_mat_general ω wx wy *ᵥ g) 0 = -(g ⬝ᵥ g)) → oms = [] ∧ ets = []) ∧
    (genA g wx wy * genA g wx wy + genB g wx wy * genB g wx wy - genC g wx wy * genC g wx wy < 0 ↔
      ¬ ∃ ω, (Tools.form_omega_mat_general ω wx wy *ᵥ g) 0 = -(g ⬝ᵥ g)) := by
  rw [Tools_general_unfold] at h
  exact solverOut_complete (M := fun ω => Tools.form_omega_mat_general ω wx wy)
    (fun ω => Tools_fomg_row0 g ω wx wy) (gen_hab hab) h

/-- Completeness of `Tools.find_omega_quart` (clause 3 of C09), same shape as `general_complete`. -/
theorem quart_complete (g : Fin 3 → ℝ) (twoth wx wy : ℝ) (oms ets : List ℝ)
    (hab : quaA g wx wy * quaA g wx wy + quaB g wx wy * quaB g wx wy ≠ 0)
    (h : Tools.find_omega_quart g twoth wx wy = some (oms, ets)) :
    (∀ ω, -Real.pi < ω → ω ≤ Real.pi →
      (Tools.quart_to_omega ((ω * 180) / Real.pi) wx wy *ᵥ g) 0 = -(g ⬝ᵥ g) → ω ∈ oms) ∧
    ((∃ ω, (Tools.quart_to_omega ((ω * 180) / Real.pi) wx wy *ᵥ g) 0 = -(g ⬝ᵥ g)) →
      oms.length = 2 ∧ ets.length = 2) ∧
    ((¬ ∃ ω, (Tools.quart_to_omega ((ω * 180) / Real.pi) wx wy *ᵥ g) 0 = -(g ⬝ᵥ g)) → oms = [] ∧ ets = []) ∧
    (quaA g wx wy * quaA g wx wy + quaB g wx wy * quaB g wx wy - quaC g wx wy * quaC g wx wy < 0 ↔
      ¬ ∃ ω, (Tools.quart_to_omega ((ω * 180) / Real.pi) wx wy *ᵥ g) 0 = -(g ⬝ᵥ g)) := by
  rw [Tools_quart_unfold] at h
  exact solverOut_complete (M := fun ω => Tools.quart_to_omega ((ω * 180) / Real.pi) wx wy)
    (fun ω => Tools_quart_row0 g ω wx wy) hab h

/-- The solvers do return (the `assert` passes) when `|g|² = sin²θ`. -/
theorem general_isSome (g : Fin 3 → ℝ) (twoth wx wy : ℝ) (hg : g ⬝ᵥ g = Real.sin (twoth / 2) ^ 2) :
    (Tools.find_omega_general g twoth wx wy).isSome ∧ (Tools.find_omega_quart g twoth wx wy).isSome := by
  have hguard : |((g ⬝ᵥ g) - ((Real.sin (twoth / 2)) ^ 2))| < (1e-9 : ℝ) := by
    rw [hg, sub_self, abs_zero]; norm_num
  rw [Tools_general_unfold, Tools_quart_unfold]
  unfold solverOut
  rw [if_pos hguard, if_pos hguard]
  constructor <;> split_ifs <;> rfl

/-! ### `tth`, `tth2` -/

/-- `tth(cell, hkl, λ) = 2 asin(λ · sintl(cell, hkl))` (clause 5, tools.py) -/
theorem tth_eq (cell : Fin 6 → ℝ) (hkl : Fin 3 → ℝ) (lam : ℝ) :
    Tools.tth cell hkl lam = 2 * Real.arcsin (lam * Tools.sintl cell hkl) := rfl

/-- `tth2(g, λ) = 2 asin(|g| λ / 4π)` (clause 5, tools.py; `g` carries the factor 2π) -/
theorem tth2_eq (g : Fin 3 → ℝ) (lam : ℝ) :
    Tools.tth2 g lam = 2 * Real.arcsin (Real.sqrt (g ⬝ᵥ g) * lam / (4 * Real.pi)) := rfl

/-- `tth(cell, hkl, λ) = 2 asin(λ · sintl(cell, hkl))` (clause 5, laue.py) -/
theorem laue_tth_eq (cell : Fin 6 → ℝ) (hkl : Fin 3 → ℝ) (lam : ℝ) :
    Laue.tth cell hkl lam = 2 * Real.arcsin (lam * Laue.sintl cell hkl) := rfl

/-- laue.py `tth2(g, λ) = 2 asin(λ / (2 d))`, `d = 1/|g|`, i.e. `2 asin(|g| λ / 2)` (clause 5; in laue.py
`g` does NOT carry the factor 2π, unlike tools.py).  `g ≠ 0` is the code's division guard. -/
theorem laue_tth2_eq (g : Fin 3 → ℝ) (lam : ℝ) (hg : g ⬝ᵥ g ≠ 0) :
    Laue.tth2 g lam = 2 * Real.arcsin (Real.sqrt (g ⬝ᵥ g) * lam / 2) := by
  have hs : Real.sqrt (g ⬝ᵥ g) ≠ 0 := by
    intro h0
    have hnn : 0 ≤ g ⬝ᵥ g := dot_self_nonneg g
    exact hg ((Real.sqrt_eq_zero hnn).mp h0)
  unfold Laue.tth2
  simp only []
  congr 2
  field_simp

/-! ### laue.py: the solvers first rescale `g` to length `sin θ` -/

/-- the rescaling `g ↦ sin θ · g / |g|` that laue.py applies before solving -/
def lscale (g : Fin 3 → ℝ) (twoth : ℝ) : Fin 3 → ℝ :=
  (((Real.sqrt (g ⬝ᵥ g)))⁻¹ • ((Real.sin (twoth / 2)) • g))

lemma lscale_apply (g : Fin 3 → ℝ) (twoth : ℝ) (i : Fin 3) :
    lscale g twoth i = (Real.sqrt (g ⬝ᵥ g))⁻¹ * (Real.sin (twoth / 2) * g i) := by
  simp [lscale]

lemma lscale_norm (g : Fin 3 → ℝ) (twoth : ℝ) (hg : g ⬝ᵥ g ≠ 0) :
    lscale g twoth ⬝ᵥ lscale g twoth = Real.sin (twoth / 2) ^ 2 := by
  have hnn := dot_self_nonneg g
  have hS : Real.sqrt (g ⬝ᵥ g) ^ 2 = g ⬝ᵥ g := Real.sq_sqrt hnn
  have hs : Real.sqrt (g ⬝ᵥ g) ≠ 0 := fun h0 => hg ((Real.sqrt_eq_zero hnn).mp h0)
  unfold lscale
  rw [dotProduct_smul, smul_dotProduct, dotProduct_smul, smul_dotProduct]
  simp only [smul_eq_mul]
  generalize Real.sqrt (g ⬝ᵥ g) = S at *
  rw [← hS]
  field_simp

lemma Laue_general_eq (g : Fin 3 → ℝ) (twoth wx wy : ℝ) :
    Laue.find_omega_general g twoth wx wy = Tools.find_omega_general (lscale g twoth) twoth wx wy := by
  rw [Tools_general_unfold]
  unfold Laue.find_omega_general
  simp only [atan2_not_gt, if_false]
  rfl

lemma Laue_quart_eq (g : Fin 3 → ℝ) (twoth wx wy : ℝ) :
    Laue.find_omega_quart g twoth wx wy = Tools.find_omega_quart (lscale g twoth) twoth wx wy := by
  rw [Tools_quart_unfold]
  unfold Laue.find_omega_quart
  simp only [atan2_not_gt, if_false]
  rfl

/-! ### `find_omega` (no tilt) -/

/-- the sign-corrected `arccos` used by `find_omega` is `atan2` on the unit circle -/
lemma plainPick_eq {co so : ℝ} (h : co ^ 2 + so ^ 2 = 1) :
    (if so < 0 then -(Real.arccos co) else Real.arccos co) = XR.atan2 so co := by
  have hco1 : -1 ≤ co := by nlinarith [sq_nonneg so]
  have hco2 : co ≤ 1 := by nlinarith [sq_nonneg so]
  have hsin : Real.sin (Real.arccos co) = |so| := by
    rw [Real.sin_arccos, show 1 - co ^ 2 = so ^ 2 by linarith, Real.sqrt_sq_eq_abs]
  have hpi := Real.pi_pos
  split_ifs with hneg
  · have hpos : 0 < so * so := mul_pos_of_neg_of_neg hneg hneg
    have hlt : -1 < co := by nlinarith
    have hp : Real.arccos co < Real.pi := Real.arccos_lt_pi.mpr hlt
    have e := atan2_sin_cos (ω := -Real.arccos co) (by linarith) (by linarith [Real.arccos_nonneg co])
    rw [Real.sin_neg, Real.cos_neg, hsin, Real.cos_arccos hco1 hco2, abs_of_neg hneg, neg_neg] at e
    exact e.symm
  · have hnn : 0 ≤ so := not_lt.mp hneg
    have e := atan2_sin_cos (ω := Real.arccos co) (by linarith [Real.arccos_nonneg co]) (Real.arccos_le_pi co)
    rw [hsin, Real.cos_arccos hco1 hco2, abs_of_nonneg hnn] at e
    exact e.symm

/-- coefficients of `find_omega` as the code computes them -/
def plA (g : Fin 3 → ℝ) : ℝ := ((g 0) / (Real.sqrt (g ⬝ᵥ g)))
def plB (g : Fin 3 → ℝ) : ℝ := ((-(g 1)) / (Real.sqrt (g ⬝ᵥ g)))
def plC (twoth : ℝ) : ℝ := (((Real.cos twoth) - 1) / (Real.sqrt (2 * (1 - (Real.cos twoth)))))

/-- body of `find_omega` as a function of the code's `a`, `b`, `c` -/
def plainBody (a b c : ℝ) : List ℝ :=
  let d : ℝ := ((a ^ 2) + (b ^ 2))
  let sq_d : ℝ := (d - (c ^ 2))
  if sq_d > (0 : ℝ) then
    let sq_d_1 : ℝ := (Real.sqrt sq_d)
    let comega : ℝ := (((a * c) + (b * sq_d_1)) / d)
    let somega : ℝ := (((b * c) - (a * sq_d_1)) / d)
    let omega_item : ℝ := (Real.arccos comega)
    if somega < (0 : ℝ) then
      let comega_1 : ℝ := (comega - (((2 * b) * sq_d_1) / d))
      let somega_1 : ℝ := (somega + (((2 * a) * sq_d_1) / d))
      let omega_item_1 : ℝ := (Real.arccos comega_1)
      if somega_1 < (0 : ℝ) then
        [(-omega_item), (-omega_item_1)]
      else
        [(-omega_item), omega_item_1]
    else
      let comega_1 : ℝ := (comega - (((2 * b) * sq_d_1) / d))
      let somega_1 : ℝ := (somega + (((2 * a) * sq_d_1) / d))
      let omega_item_1 : ℝ := (Real.arccos comega_1)
      if somega_1 < (0 : ℝ) then
        [omega_item, (-omega_item_1)]
      else
        [omega_item, omega_item_1]
  else
    []

lemma Tools_plain_body (g : Fin 3 → ℝ) (twoth : ℝ) :
    Tools.find_omega g twoth = plainBody (plA g) (plB g) (plC twoth) := rfl

lemma plainBody_eq (a b c : ℝ) :
    plainBody a b c =
      if a * a + b * b - c * c > 0 then [om1 a b c, om2 a b c] else [] := by
  unfold plainBody
  simp only [sq]
  by_cases hsq : a * a + b * b - c * c > 0
  · rw [if_pos hsq, if_pos hsq]
    have hd : a * a + b * b ≠ 0 := by nlinarith [mul_self_nonneg c]
    have hd' : a ^ 2 + b ^ 2 ≠ 0 := by rw [sq, sq]; exact hd
    have hS : Real.sqrt (a * a + b * b - c * c) ^ 2 = a * a + b * b - c * c := Real.sq_sqrt hsq.le
    unfold om1 om2
    generalize Real.sqrt (a * a + b * b - c * c) = S at *
    have hc1 : (a * c + b * S) / (a * a + b * b) - 2 * b * S / (a * a + b * b) = (a * c + -(b * S)) / (a * a + b * b) := by
      field_simp; ring
    have hs1 : (b * c - a * S) / (a * a + b * b) + 2 * a * S / (a * a + b * b) = (b * c + a * S) / (a * a + b * b) := by
      field_simp; ring
    have hs0 : (b * c + -(a * S)) / (a * a + b * b) = (b * c - a * S) / (a * a + b * b) := by ring
    rw [hc1, hs1, hs0]
    have hu1 : ((a * c + b * S) / (a * a + b * b)) ^ 2 + ((b * c - a * S) / (a * a + b * b)) ^ 2 = 1 := by
      field_simp
      linear_combination (a * a + b * b) * hS
    have hu2 : ((a * c + -(b * S)) / (a * a + b * b)) ^ 2 + ((b * c + a * S) / (a * a + b * b)) ^ 2 = 1 := by
      field_simp
      linear_combination (a * a + b * b) * hS
    rw [← plainPick_eq hu1, ← plainPick_eq hu2]
    split_ifs <;> rfl
  · rw [if_neg hsq, if_neg hsq]

lemma Rz_row0 (g : Fin 3 → ℝ) (ω : ℝ) :
    (Spec.Rz ω *ᵥ g) 0 = g 0 * Real.cos ω - g 1 * Real.sin ω := by
  simp [Spec.Rz, Matrix.mulVec, dotProduct, Fin.sum_univ_three]; ring

lemma cos_eq_one_sub (x : ℝ) : Real.cos x = 1 - 2 * Real.sin (x / 2) ^ 2 := by
  have h2 := Real.cos_two_mul (x / 2)
  rw [show 2 * (x / 2) = x by ring] at h2
  rw [h2]; nlinarith [Real.sin_sq_add_cos_sq (x / 2)]

lemma plC_eq (twoth : ℝ) (hθ : Real.sin (twoth / 2) ≠ 0) : plC twoth = -|Real.sin (twoth / 2)| := by
  unfold plC
  rw [cos_eq_one_sub twoth]
  have h1 : 2 * (1 - (1 - 2 * Real.sin (twoth / 2) ^ 2)) = (2 * |Real.sin (twoth / 2)|) ^ 2 := by
    rw [mul_pow, sq_abs]; ring
  have habs : |Real.sin (twoth / 2)| ≠ 0 := abs_ne_zero.mpr hθ
  rw [h1, Real.sqrt_sq (by positivity)]
  field_simp
  rw [← sq_abs (Real.sin (twoth / 2))]; ring

lemma plain_row (g : Fin 3 → ℝ) (twoth ω : ℝ) (hg : g ⬝ᵥ g ≠ 0) (hθ : Real.sin (twoth / 2) ≠ 0) :
    (Spec.Rz ω *ᵥ g) 0 = -|Real.sin (twoth / 2)| * Real.sqrt (g ⬝ᵥ g) ↔
      plA g * Real.cos ω + plB g * Real.sin ω = plC twoth := by
  have hG : Real.sqrt (g ⬝ᵥ g) ≠ 0 := fun h0 => hg ((Real.sqrt_eq_zero (dot_self_nonneg g)).mp h0)
  rw [Rz_row0, plC_eq twoth hθ]
  unfold plA plB
  constructor
  · intro h; field_simp; linarith
  · intro h; field_simp at h; linarith

/-- Soundness of `Tools.find_omega` (clause 2 of C09, no tilt; matrix `Rz(ω)` = `form_omega_mat ω`): every
returned `ω` lies in `(-π, π]` and rotates `g` so that its x-component is `-|sin θ|·|g|` (the code
normalises by `|g|`; for `|g| = sin θ > 0` this is `-sin²θ`, see `plain_sound_scaled`).
Guards: `g ≠ 0` and `sin θ ≠ 0` (Python divides by `|g|` and by `sqrt(2(1-cos 2θ))`). -/
theorem plain_sound (g : Fin 3 → ℝ) (twoth : ℝ) (hg : g ⬝ᵥ g ≠ 0) (hθ : Real.sin (twoth / 2) ≠ 0) :
    ∀ ω ∈ Tools.find_omega g twoth,
      (Spec.Rz ω *ᵥ g) 0 = -|Real.sin (twoth / 2)| * Real.sqrt (g ⬝ᵥ g) ∧ -Real.pi < ω ∧ ω ≤ Real.pi := by
  intro ω hω
  rw [Tools_plain_body, plainBody_eq] at hω
  split_ifs at hω with hsq
  · have hd : plA g * plA g + plB g * plB g ≠ 0 := by nlinarith [mul_self_nonneg (plC twoth)]
    simp only [List.mem_cons, List.not_mem_nil, or_false] at hω
    rcases hω with rfl | rfl
    · exact ⟨(plain_row g twoth _ hg hθ).mpr (om1_solves hd hsq.le), neg_pi_lt_atan2 _ _, atan2_le_pi _ _⟩
    · exact ⟨(plain_row g twoth _ hg hθ).mpr (om2_solves hd hsq.le), neg_pi_lt_atan2 _ _, atan2_le_pi _ _⟩
  · simp at hω

/-- `plain_sound` for a scattering vector already scaled to `|g| = sin θ > 0`: x-component `-sin²θ`. -/
theorem plain_sound_scaled (g : Fin 3 → ℝ) (twoth : ℝ) (hpos : 0 < Real.sin (twoth / 2))
    (hg : g ⬝ᵥ g = Real.sin (twoth / 2) ^ 2) :
    ∀ ω ∈ Tools.find_omega g twoth,
      (Tools.form_omega_mat ω *ᵥ g) 0 = -Real.sin (twoth / 2) ^ 2 ∧ -Real.pi < ω ∧ ω ≤ Real.pi := by
  intro ω hω
  have hg0 : g ⬝ᵥ g ≠ 0 := by rw [hg]; positivity
  obtain ⟨h0, h1, h2⟩ := plain_sound g twoth hg0 hpos.ne' ω hω
  refine ⟨?_, h1, h2⟩
  change (Spec.Rz ω *ᵥ g) 0 = _
  rw [h0, hg, Real.sqrt_sq hpos.le, abs_of_pos hpos]; ring

/-- Completeness of `Tools.find_omega` when the discriminant `a²+b²-c²` is strictly positive: the list
has exactly two entries and contains every `ω ∈ (-π, π]` satisfying the diffraction condition; when it
is `≤ 0` the list is empty. -/
theorem plain_complete (g : Fin 3 → ℝ) (twoth : ℝ) (hg : g ⬝ᵥ g ≠ 0) (hθ : Real.sin (twoth / 2) ≠ 0) :
    (plA g * plA g + plB g * plB g - plC twoth * plC twoth > 0 →
      (Tools.find_omega g twoth).length = 2 ∧
      ∀ ω, -Real.pi < ω → ω ≤ Real.pi →
        (Spec.Rz ω *ᵥ g) 0 = -|Real.sin (twoth / 2)| * Real.sqrt (g ⬝ᵥ g) → ω ∈ Tools.find_omega g twoth) ∧
    (plA g * plA g + plB g * plB g - plC twoth * plC twoth < 0 →
      Tools.find_omega g twoth = [] ∧
      ∀ ω, (Spec.Rz ω *ᵥ g) 0 ≠ -|Real.sin (twoth / 2)| * Real.sqrt (g ⬝ᵥ g)) := by
  rw [Tools_plain_body, plainBody_eq]
  constructor
  · intro hsq
    rw [if_pos hsq]
    have hd : plA g * plA g + plB g * plB g ≠ 0 := by nlinarith [mul_self_nonneg (plC twoth)]
    refine ⟨rfl, ?_⟩
    intro ω h1 h2 hω
    rcases (quad_complete hd h1 h2 ((plain_row g twoth ω hg hθ).mp hω)).2 with e | e <;> simp [e]
  · intro hsq
    rw [if_neg (by linarith)]
    refine ⟨rfl, ?_⟩
    intro ω hω
    have heq := (plain_row g twoth ω hg hθ).mp hω
    have hsc := Real.sin_sq_add_cos_sq ω
    have : (plB g * Real.cos ω - plA g * Real.sin ω) * (plB g * Real.cos ω - plA g * Real.sin ω) =
        plA g * plA g + plB g * plB g - plC twoth * plC twoth := by
      rw [← heq]; linear_combination (plA g * plA g + plB g * plB g) * hsc
    nlinarith [mul_self_nonneg (plB g * Real.cos ω - plA g * Real.sin ω)]

/-- FINDING (measure-zero gap): at the tangent case `a²+b²-c² = 0` the diffraction condition has a
(double) solution, but `find_omega` tests `sq_d > 0` and returns nothing, whereas
`find_omega_general` tests `d < 0` and returns the double root twice. -/
theorem plain_tangent_gap (g : Fin 3 → ℝ) (twoth : ℝ) (hg : g ⬝ᵥ g ≠ 0) (hθ : Real.sin (twoth / 2) ≠ 0)
    (hd : plA g * plA g + plB g * plB g ≠ 0)
    (h0 : plA g * plA g + plB g * plB g - plC twoth * plC twoth = 0) :
    Tools.find_omega g twoth = [] ∧
    ∃ ω, -Real.pi < ω ∧ ω ≤ Real.pi ∧
      (Spec.Rz ω *ᵥ g) 0 = -|Real.sin (twoth / 2)| * Real.sqrt (g ⬝ᵥ g) := by
  rw [Tools_plain_body, plainBody_eq, if_neg (by rw [h0]; exact lt_irrefl 0)]
  exact ⟨rfl, om1 (plA g) (plB g) (plC twoth), neg_pi_lt_atan2 _ _, atan2_le_pi _ _,
    (plain_row g twoth _ hg hθ).mpr (om1_solves hd h0.ge)⟩

/-! ### laue.py versions -/

lemma Laue_plain_eq (g : Fin 3 → ℝ) (twoth : ℝ) :
    Laue.find_omega g twoth = Tools.find_omega (lscale g twoth) twoth := rfl

lemma sin_half_ne_zero {twoth : ℝ} (hs : Real.sin twoth ≠ 0) : Real.sin (twoth / 2) ≠ 0 := by
  intro h0
  apply hs
  have : Real.sin twoth = 2 * Real.sin (twoth / 2) * Real.cos (twoth / 2) := by
    rw [← Real.sin_two_mul]; congr 1; ring
  rw [this, h0]; ring

lemma lscale_hab {g : Fin 3 → ℝ} {twoth wy : ℝ} (hg : g ⬝ᵥ g ≠ 0) (hs : Real.sin twoth ≠ 0)
    (hab : (g 0 * Real.cos wy) ^ 2 + (g 1 * Real.cos wy) ^ 2 ≠ 0) :
    (lscale g twoth 0 * Real.cos wy) ^ 2 + (lscale g twoth 1 * Real.cos wy) ^ 2 ≠ 0 := by
  have hG : Real.sqrt (g ⬝ᵥ g) ≠ 0 := fun h0 => hg ((Real.sqrt_eq_zero (dot_self_nonneg g)).mp h0)
  have hh := sin_half_ne_zero hs
  rw [lscale_apply, lscale_apply]
  have hk : ((Real.sqrt (g ⬝ᵥ g))⁻¹ * Real.sin (twoth / 2)) ^ 2 ≠ 0 :=
    pow_ne_zero 2 (mul_ne_zero (inv_ne_zero hG) hh)
  intro h0
  apply mul_ne_zero hk hab
  rw [← h0]; ring

/-- Soundness of `Laue.find_omega_general` (clause 1 of C09, laue.py): laue.py first rescales `g` to
`gs = sin θ · g/|g|` (`C09.lscale`); every returned `(ω, η)` rotates `gs` with laue.py's own
`form_omega_mat_general ω wx wy` onto `(-sin²θ, -sin 2θ sin η / 2, sin 2θ cos η / 2)`, `ω ∈ (-π, π]`.
Guards: `g ≠ 0`, `sin 2θ ≠ 0`, and `a² + b² ≠ 0` (i.e. `g ∦ z`, `cos wy ≠ 0`). -/
theorem laue_general_sound (g : Fin 3 → ℝ) (twoth wx wy : ℝ) (oms ets : List ℝ)
    (hg : g ⬝ᵥ g ≠ 0) (hs : Real.sin twoth ≠ 0)
    (hab : (g 0 * Real.cos wy) ^ 2 + (g 1 * Real.cos wy) ^ 2 ≠ 0)
    (h : Laue.find_omega_general g twoth wx wy = some (oms, ets)) :
    oms.length = ets.length ∧
    ∀ (i : ℕ) (h1 : i < oms.length) (h2 : i < ets.length),
      (Laue.form_omega_mat_general (oms[i]) wx wy *ᵥ lscale g twoth) 0 = -Real.sin (twoth / 2) ^ 2 ∧
      (Laue.form_omega_mat_general (oms[i]) wx wy *ᵥ lscale g twoth) 1 = -Real.sin twoth * Real.sin (ets[i]) / 2 ∧
      (Laue.form_omega_mat_general (oms[i]) wx wy *ᵥ lscale g twoth) 2 = Real.sin twoth * Real.cos (ets[i]) / 2 ∧
      -Real.pi < oms[i] ∧ oms[i] ≤ Real.pi := by
  rw [Laue_general_eq] at h
  exact general_sound (lscale g twoth) twoth wx wy oms ets (lscale_norm g twoth hg) hs
    (lscale_hab hg hs hab) h

/-- Soundness of `Laue.find_omega_quart` (clause 2 of C09, laue.py), matrix
`Laue.quart_to_omega (ω·180/π) wx wy`, on the rescaled vector `lscale g twoth`. -/
theorem laue_quart_sound (g : Fin 3 → ℝ) (twoth wx wy : ℝ) (oms ets : List ℝ)
    (hg : g ⬝ᵥ g ≠ 0) (hs : Real.sin twoth ≠ 0)
    (hab : quaA (lscale g twoth) wx wy * quaA (lscale g twoth) wx wy +
      quaB (lscale g twoth) wx wy * quaB (lscale g twoth) wx wy ≠ 0)
    (h : Laue.find_omega_quart g twoth wx wy = some (oms, ets)) :
    oms.length = ets.length ∧
    ∀ (i : ℕ) (h1 : i < oms.length) (h2 : i < ets.length),
      (Laue.quart_to_omega ((oms[i] * 180) / Real.pi) wx wy *ᵥ lscale g twoth) 0 = -Real.sin (twoth / 2) ^ 2 ∧
      (Laue.quart_to_omega ((oms[i] * 180) / Real.pi) wx wy *ᵥ lscale g twoth) 1 =
        -Real.sin twoth * Real.sin (ets[i]) / 2 ∧
      (Laue.quart_to_omega ((oms[i] * 180) / Real.pi) wx wy *ᵥ lscale g twoth) 2 =
        Real.sin twoth * Real.cos (ets[i]) / 2 ∧
      -Real.pi < oms[i] ∧ oms[i] ≤ Real.pi := by
  rw [Laue_quart_eq] at h
  exact quart_sound (lscale g twoth) twoth wx wy oms ets (lscale_norm g twoth hg) hs hab h

/-- Completeness of `Laue.find_omega_general` (clause 3 of C09, laue.py), for the rescaled vector. -/
theorem laue_general_complete (g : Fin 3 → ℝ) (twoth wx wy : ℝ) (oms ets : List ℝ)
    (hg : g ⬝ᵥ g ≠ 0) (hs : Real.sin twoth ≠ 0)
    (hab : (g 0 * Real.cos wy) ^ 2 + (g 1 * Real.cos wy) ^ 2 ≠ 0)
    (h : Laue.find_omega_general g twoth wx wy = some (oms, ets)) :
    (∀ ω, -Real.pi < ω → ω ≤ Real.pi →
      (Laue.form_omega_mat_general ω wx wy *ᵥ lscale g twoth) 0 = -(lscale g twoth ⬝ᵥ lscale g twoth) →
        ω ∈ oms) ∧
    ((∃ ω, (Laue.form_omega_mat_general ω wx wy *ᵥ lscale g twoth) 0 = -(lscale g twoth ⬝ᵥ lscale g twoth)) →
      oms.length = 2 ∧ ets.length = 2) ∧
    ((¬ ∃ ω, (Laue.form_omega_mat_general ω wx wy *ᵥ lscale g twoth) 0 = -(lscale g twoth ⬝ᵥ lscale g twoth)) →
      oms = [] ∧ ets = []) := by
  rw [Laue_general_eq] at h
  obtain ⟨h1, h2, h3, _⟩ := general_complete (lscale g twoth) twoth wx wy oms ets (lscale_hab hg hs hab) h
  exact ⟨h1, h2, h3⟩

/-- Soundness of `Laue.find_omega` (clause 2, laue.py, no tilt): after laue.py's rescaling to
`gs = sin θ · g/|g|` every returned `ω ∈ (-π, π]` gives `(Rz(ω) gs)₀ = -sin²θ` (for `sin θ > 0`). -/
theorem laue_plain_sound (g : Fin 3 → ℝ) (twoth : ℝ) (hg : g ⬝ᵥ g ≠ 0) (hpos : 0 < Real.sin (twoth / 2)) :
    ∀ ω ∈ Laue.find_omega g twoth,
      (Laue.form_omega_mat ω *ᵥ lscale g twoth) 0 = -Real.sin (twoth / 2) ^ 2 ∧ -Real.pi < ω ∧ ω ≤ Real.pi := by
  rw [Laue_plain_eq]
  exact plain_sound_scaled (lscale g twoth) twoth hpos (lscale_norm g twoth hg)

/-- laue.py's solvers do return (their `assert` passes) for every non-zero `g`. -/
theorem laue_general_isSome (g : Fin 3 → ℝ) (twoth wx wy : ℝ) (hg : g ⬝ᵥ g ≠ 0) :
    (Laue.find_omega_general g twoth wx wy).isSome ∧ (Laue.find_omega_quart g twoth wx wy).isSome := by
  rw [Laue_general_eq, Laue_quart_eq]
  exact general_isSome (lscale g twoth) twoth wx wy (lscale_norm g twoth hg)

/-! ### `find_omega_wedge` -/

/-- `coseta` of `find_omega_wedge` as a function of the normalised vector `n = g/|g|` -/
def wedgeCe (n : Fin 3 → ℝ) (twoth wedge : ℝ) : ℝ :=
  (((((n 2) * (Real.sqrt ((-2 : ℝ) * ((Real.cos twoth) - 1)))) + ((Real.sin wedge) * ((Real.cos twoth) - 1))) / (Real.cos wedge)) / (Real.sin twoth))

/-- the coefficient `a` of `find_omega_wedge` -/
def wedgeA (ce twoth wedge : ℝ) : ℝ :=
  (((Real.cos wedge) * ((Real.cos twoth) - 1)) + (((Real.sin wedge) * (Real.sin twoth)) * ce))

/-- the omega of `find_omega_wedge` for given `a`, `b` -/
def wedgeOm (n : Fin 3 → ℝ) (a b : ℝ) : ℝ :=
  XR.atan2 (((b * (n 0)) - (a * (n 1))) / ((a * a) + (b * b)))
    (((n 0) - (b * (((b * (n 0)) - (a * (n 1))) / ((a * a) + (b * b))))) / a)

lemma Tools_wedge_unfold (g : Fin 3 → ℝ) (twoth wedge : ℝ) :
    Tools.find_omega_wedge g twoth wedge =
      if |wedgeCe (((Real.sqrt (g ⬝ᵥ g)))⁻¹ • g) twoth wedge| > 1 then ([], [])
      else
        ([wedgeOm (((Real.sqrt (g ⬝ᵥ g)))⁻¹ • g)
            (wedgeA (wedgeCe (((Real.sqrt (g ⬝ᵥ g)))⁻¹ • g) twoth wedge) twoth wedge)
            ((-(Real.sin twoth)) * (Real.sin (Real.arccos (wedgeCe (((Real.sqrt (g ⬝ᵥ g)))⁻¹ • g) twoth wedge)))),
          wedgeOm (((Real.sqrt (g ⬝ᵥ g)))⁻¹ • g)
            (wedgeA (wedgeCe (((Real.sqrt (g ⬝ᵥ g)))⁻¹ • g) twoth wedge) twoth wedge)
            ((-(Real.sin twoth)) * (Real.sin (-(Real.arccos (wedgeCe (((Real.sqrt (g ⬝ᵥ g)))⁻¹ • g) twoth wedge)))))],
         [Real.arccos (wedgeCe (((Real.sqrt (g ⬝ᵥ g)))⁻¹ • g) twoth wedge),
          -(Real.arccos (wedgeCe (((Real.sqrt (g ⬝ᵥ g)))⁻¹ • g) twoth wedge))]) := by
  unfold Tools.find_omega_wedge
  simp only [atan2_not_gt, if_false]
  rfl

lemma Laue_wedge_eq (g : Fin 3 → ℝ) (twoth wedge : ℝ) :
    Laue.find_omega_wedge g twoth wedge = Tools.find_omega_wedge g twoth wedge := rfl

lemma wedge_alg {n0 n1 n2 s k sw cw ce se a b so co : ℝ}
    (hn : n0 ^ 2 + n1 ^ 2 + n2 ^ 2 = 1) (hsk : s ^ 2 + k ^ 2 = 1) (hw : sw ^ 2 + cw ^ 2 = 1)
    (he : se ^ 2 + ce ^ 2 = 1) (hs : 0 < s) (hk : k ≠ 0) (hcw : cw ≠ 0)
    (hce : ce = ((n2 * (2 * s) + sw * (-2 * s ^ 2)) / cw) / (2 * s * k))
    (ha : a = cw * (-2 * s ^ 2) + sw * (2 * s * k) * ce) (hb : b = -(2 * s * k) * se) (ha0 : a ≠ 0)
    (hso : so = (b * n0 - a * n1) / (a * a + b * b)) (hco : co = (n0 - b * so) / a) :
    co ^ 2 + so ^ 2 = (1 / (2 * s)) ^ 2 ∧
    co / (1 / (2 * s)) * n0 - so / (1 / (2 * s)) * n1 = a / (2 * s) ∧
    so / (1 / (2 * s)) * n0 + co / (1 / (2 * s)) * n1 = b / (2 * s) ∧
    n2 = cw * k * ce + s * sw := by
  have hs0 : s ≠ 0 := hs.ne'
  have hA : a = 2 * s * (-s * cw + sw * k * ce) := by rw [ha]; ring
  have hB : b = 2 * s * (-k * se) := by rw [hb]; ring
  have hn2 : n2 = cw * k * ce + s * sw := by rw [hce]; field_simp; ring
  set A := -s * cw + sw * k * ce with hAdef
  set B := -k * se with hBdef
  have hρ : A ^ 2 + B ^ 2 = n0 ^ 2 + n1 ^ 2 := by
    rw [hn2] at hn
    linear_combination (s ^ 2 + k ^ 2 * ce ^ 2) * hw + k ^ 2 * he + hsk - hn
  have hA0 : A ≠ 0 := by
    intro h0; apply ha0; rw [hA, h0]; ring
  have hρ0 : n0 ^ 2 + n1 ^ 2 ≠ 0 := by
    rw [← hρ]
    have : 0 < A ^ 2 := by positivity
    nlinarith [sq_nonneg B]
  have hden : a * a + b * b = 4 * s ^ 2 * (n0 ^ 2 + n1 ^ 2) := by
    rw [hA, hB]; linear_combination 4 * s ^ 2 * hρ
  have hso' : so = (B * n0 - A * n1) / (2 * s * (n0 ^ 2 + n1 ^ 2)) := by
    rw [hso, hden, hA, hB]; field_simp; ring
  have hco' : co = (A * n0 + B * n1) / (2 * s * (n0 ^ 2 + n1 ^ 2)) := by
    rw [hco, hso', hA, hB]; field_simp
    linear_combination (-n0) * hρ
  refine ⟨?_, ?_, ?_, hn2⟩
  · rw [hco', hso']; field_simp
    linear_combination (n0 ^ 2 + n1 ^ 2) * hρ
  · rw [hco', hso', hA]; field_simp; ring
  · rw [hco', hso', hB]; field_simp; ring

lemma wedge_rows (w ω : ℝ) (v : Fin 3 → ℝ) :
    ((Spec.Ry (-w) * Spec.Rz ω) *ᵥ v) 0 =
      Real.cos w * (Real.cos ω * v 0 - Real.sin ω * v 1) - Real.sin w * v 2 ∧
    ((Spec.Ry (-w) * Spec.Rz ω) *ᵥ v) 1 = Real.sin ω * v 0 + Real.cos ω * v 1 ∧
    ((Spec.Ry (-w) * Spec.Rz ω) *ᵥ v) 2 =
      Real.sin w * (Real.cos ω * v 0 - Real.sin ω * v 1) + Real.cos w * v 2 := by
  refine ⟨?_, ?_, ?_⟩ <;>
    simp [Spec.Ry, Spec.Rz, Matrix.mulVec, dotProduct, Fin.sum_univ_three, Matrix.mul_apply] <;> ring

/-- core of `find_omega_wedge`: for a unit vector `n`, `η` with `cos η = coseta`, `b = -sin 2θ sin η`
and the code's `a ≠ 0`, the code's `ω` solves the diffraction condition for `sin θ · n`
under `Ry(-wedge) · Rz(ω)`. -/
lemma wedge_core {n : Fin 3 → ℝ} {twoth wedge η : ℝ} (hn : n ⬝ᵥ n = 1)
    (hpos : 0 < Real.sin (twoth / 2)) (hs : Real.sin twoth ≠ 0) (hcw : Real.cos wedge ≠ 0)
    (hη : Real.cos η = wedgeCe n twoth wedge)
    (ha0 : wedgeA (wedgeCe n twoth wedge) twoth wedge ≠ 0) :
    Solves (Spec.Ry (-wedge) * Spec.Rz (wedgeOm n (wedgeA (wedgeCe n twoth wedge) twoth wedge)
        ((-(Real.sin twoth)) * (Real.sin η))))
      (Real.sin (twoth / 2) • n) twoth
      (wedgeOm n (wedgeA (wedgeCe n twoth wedge) twoth wedge) ((-(Real.sin twoth)) * (Real.sin η))) η := by
  have hS : Real.sin twoth = 2 * Real.sin (twoth / 2) * Real.cos (twoth / 2) := by
    rw [← Real.sin_two_mul]; congr 1; ring
  have hcf : Real.cos twoth - 1 = -2 * Real.sin (twoth / 2) ^ 2 := by
    rw [cos_eq_one_sub twoth]; ring
  have hsk := Real.sin_sq_add_cos_sq (twoth / 2)
  have hw := Real.sin_sq_add_cos_sq wedge
  have he := Real.sin_sq_add_cos_sq η
  have hk : Real.cos (twoth / 2) ≠ 0 := by
    intro h0; apply hs; rw [hS, h0]; ring
  have hL : Real.sqrt ((-2 : ℝ) * ((Real.cos twoth) - 1)) = 2 * Real.sin (twoth / 2) := by
    rw [hcf, show (-2 : ℝ) * (-2 * Real.sin (twoth / 2) ^ 2) = (2 * Real.sin (twoth / 2)) ^ 2 by ring]
    exact Real.sqrt_sq (by positivity)
  have hn' : n 0 ^ 2 + n 1 ^ 2 + n 2 ^ 2 = 1 := by
    rw [← hn]; simp only [dotProduct, Fin.sum_univ_three]; ring
  have hce : Real.cos η = ((n 2 * (2 * Real.sin (twoth / 2)) + Real.sin wedge * (-2 * Real.sin (twoth / 2) ^ 2)) /
      Real.cos wedge) / (2 * Real.sin (twoth / 2) * Real.cos (twoth / 2)) := by
    rw [hη]; unfold wedgeCe; rw [hL, hcf, hS]
  have ha : wedgeA (wedgeCe n twoth wedge) twoth wedge =
      Real.cos wedge * (-2 * Real.sin (twoth / 2) ^ 2) +
        Real.sin wedge * (2 * Real.sin (twoth / 2) * Real.cos (twoth / 2)) * Real.cos η := by
    rw [hη]; unfold wedgeA; rw [hcf, hS]
  have hb : (-(Real.sin twoth)) * (Real.sin η) =
      -(2 * Real.sin (twoth / 2) * Real.cos (twoth / 2)) * Real.sin η := by rw [hS]
  obtain ⟨h1, h2, h3, h4⟩ := wedge_alg hn' hsk hw he hpos hk hcw hce ha hb ha0 rfl rfl
  have hr : (0 : ℝ) < 1 / (2 * Real.sin (twoth / 2)) := by positivity
  have hcos := cos_atan2_scaled hr h1
  have hsin := sin_atan2_scaled hr h1
  obtain ⟨r0, r1, r2⟩ := wedge_rows wedge
    (wedgeOm n (wedgeA (wedgeCe n twoth wedge) twoth wedge) ((-(Real.sin twoth)) * (Real.sin η)))
    (Real.sin (twoth / 2) • n)
  unfold Solves
  rw [r0, r1, r2]
  unfold wedgeOm
  rw [hcos, hsin]
  simp only [Pi.smul_apply, smul_eq_mul]
  have hs0 : Real.sin (twoth / 2) ≠ 0 := hpos.ne'
  have hhalf : Real.sin (twoth / 2) * (wedgeA (wedgeCe n twoth wedge) twoth wedge / (2 * Real.sin (twoth / 2))) =
      wedgeA (wedgeCe n twoth wedge) twoth wedge / 2 := by field_simp
  refine ⟨?_, ?_, ?_, neg_pi_lt_atan2 _ _, atan2_le_pi _ _⟩
  · have e : Real.cos wedge * (Real.sin (twoth / 2) * (wedgeA (wedgeCe n twoth wedge) twoth wedge / (2 * Real.sin (twoth / 2))))
        - Real.sin wedge * (Real.sin (twoth / 2) * n 2) = -Real.sin (twoth / 2) ^ 2 := by
      rw [hhalf, ha, h4]
      linear_combination (-Real.sin (twoth / 2) ^ 2) * hw
    rw [← e, ← h2]; ring
  · have e : Real.sin (twoth / 2) * ((-(Real.sin twoth)) * (Real.sin η) / (2 * Real.sin (twoth / 2))) =
        -Real.sin twoth * Real.sin η / 2 := by
      field_simp
    rw [← e, ← h3]; ring
  · have e : Real.sin wedge * (Real.sin (twoth / 2) * (wedgeA (wedgeCe n twoth wedge) twoth wedge / (2 * Real.sin (twoth / 2))))
        + Real.cos wedge * (Real.sin (twoth / 2) * n 2) = Real.sin twoth * Real.cos η / 2 := by
      rw [hhalf, ha, h4, hS]
      linear_combination (Real.sin (twoth / 2) * Real.cos (twoth / 2) * Real.cos η) * hw
    rw [← e, ← h2]; ring

lemma unit_norm (g : Fin 3 → ℝ) (hg : g ⬝ᵥ g ≠ 0) :
    ((Real.sqrt (g ⬝ᵥ g))⁻¹ • g) ⬝ᵥ ((Real.sqrt (g ⬝ᵥ g))⁻¹ • g) = 1 := by
  have hnn := dot_self_nonneg g
  have hS : Real.sqrt (g ⬝ᵥ g) ^ 2 = g ⬝ᵥ g := Real.sq_sqrt hnn
  have hs : Real.sqrt (g ⬝ᵥ g) ≠ 0 := fun h0 => hg ((Real.sqrt_eq_zero hnn).mp h0)
  rw [dotProduct_smul, smul_dotProduct]
  simp only [smul_eq_mul]
  generalize Real.sqrt (g ⬝ᵥ g) = S at *
  rw [← hS]
  field_simp

lemma lscale_eq_smul_unit (g : Fin 3 → ℝ) (twoth : ℝ) :
    lscale g twoth = Real.sin (twoth / 2) • ((Real.sqrt (g ⬝ᵥ g))⁻¹ • g) := by
  unfold lscale; rw [smul_comm]

/-- Soundness of `Tools.find_omega_wedge` (clause 2 of C09): the code normalises `g`; every returned
`(ω, η)` rotates `gs = sin θ · g/|g|` (`C09.lscale`) with `Ry(-wedge) · Rz(ω)` onto
`(-sin²θ, -sin 2θ sin η / 2, sin 2θ cos η / 2)`, and `ω ∈ (-π, π]`.
Guards (places where Python divides): `g ≠ 0`, `cos wedge ≠ 0`, `sin 2θ ≠ 0`, and the code's `a ≠ 0`
(`comega = (g₀ - b·somega)/a`; `a/2` is the x-component of `Rz(ω) gs`).  `0 < sin θ` is the physical
range `0 < 2θ < 2π` (the code's `length = sqrt(2(1-cos 2θ))` is `2|sin θ|`). -/
theorem wedge_sound (g : Fin 3 → ℝ) (twoth wedge : ℝ) (oms ets : List ℝ)
    (hg : g ⬝ᵥ g ≠ 0) (hpos : 0 < Real.sin (twoth / 2)) (hs : Real.sin twoth ≠ 0)
    (hcw : Real.cos wedge ≠ 0)
    (ha0 : wedgeA (wedgeCe ((Real.sqrt (g ⬝ᵥ g))⁻¹ • g) twoth wedge) twoth wedge ≠ 0)
    (h : Tools.find_omega_wedge g twoth wedge = (oms, ets)) :
    oms.length = ets.length ∧
    ∀ (i : ℕ) (h1 : i < oms.length) (h2 : i < ets.length),
      ((Spec.Ry (-wedge) * Spec.Rz (oms[i])) *ᵥ lscale g twoth) 0 = -Real.sin (twoth / 2) ^ 2 ∧
      ((Spec.Ry (-wedge) * Spec.Rz (oms[i])) *ᵥ lscale g twoth) 1 = -Real.sin twoth * Real.sin (ets[i]) / 2 ∧
      ((Spec.Ry (-wedge) * Spec.Rz (oms[i])) *ᵥ lscale g twoth) 2 = Real.sin twoth * Real.cos (ets[i]) / 2 ∧
      -Real.pi < oms[i] ∧ oms[i] ≤ Real.pi := by
  rw [Tools_wedge_unfold] at h
  rw [lscale_eq_smul_unit]
  split_ifs at h with hce
  · simp only [Prod.mk.injEq] at h
    obtain ⟨rfl, rfl⟩ := h
    simp
  · simp only [Prod.mk.injEq] at h
    obtain ⟨rfl, rfl⟩ := h
    have hle := abs_le.mp (not_lt.mp hce)
    have hc1 := Real.cos_arccos hle.1 hle.2
    have hc2 : Real.cos (-(Real.arccos (wedgeCe ((Real.sqrt (g ⬝ᵥ g))⁻¹ • g) twoth wedge))) =
        wedgeCe ((Real.sqrt (g ⬝ᵥ g))⁻¹ • g) twoth wedge := by rw [Real.cos_neg, hc1]
    refine ⟨rfl, ?_⟩
    intro i h1 h2
    have hi : i = 0 ∨ i = 1 := by simp at h1; omega
    rcases hi with rfl | rfl
    · exact wedge_core (unit_norm g hg) hpos hs hcw hc1 ha0
    · exact wedge_core (unit_norm g hg) hpos hs hcw hc2 ha0

/-- Soundness of `Laue.find_omega_wedge` (clause 2 of C09, laue.py): identical code to tools.py. -/
theorem laue_wedge_sound (g : Fin 3 → ℝ) (twoth wedge : ℝ) (oms ets : List ℝ)
    (hg : g ⬝ᵥ g ≠ 0) (hpos : 0 < Real.sin (twoth / 2)) (hs : Real.sin twoth ≠ 0)
    (hcw : Real.cos wedge ≠ 0)
    (ha0 : wedgeA (wedgeCe ((Real.sqrt (g ⬝ᵥ g))⁻¹ • g) twoth wedge) twoth wedge ≠ 0)
    (h : Laue.find_omega_wedge g twoth wedge = (oms, ets)) :
    oms.length = ets.length ∧
    ∀ (i : ℕ) (h1 : i < oms.length) (h2 : i < ets.length),
      ((Spec.Ry (-wedge) * Spec.Rz (oms[i])) *ᵥ lscale g twoth) 0 = -Real.sin (twoth / 2) ^ 2 ∧
      ((Spec.Ry (-wedge) * Spec.Rz (oms[i])) *ᵥ lscale g twoth) 1 = -Real.sin twoth * Real.sin (ets[i]) / 2 ∧
      ((Spec.Ry (-wedge) * Spec.Rz (oms[i])) *ᵥ lscale g twoth) 2 = Real.sin twoth * Real.cos (ets[i]) / 2 ∧
      -Real.pi < oms[i] ∧ oms[i] ≤ Real.pi :=
  wedge_sound g twoth wedge oms ets hg hpos hs hcw ha0 h

/-! ### agreement between the solvers -/

lemma sin_eq_half (x : ℝ) : Real.sin x = 2 * Real.sin (x / 2) * Real.cos (x / 2) := by
  rw [← Real.sin_two_mul]; congr 1; ring

lemma quart_zero_tilt (ω : ℝ) :
    Tools.quart_to_omega ((ω * 180) / Real.pi) 0 0 = Tools.form_omega_mat_general ω 0 0 := by
  rw [Tools_quart_eq, Tools_fomg_eq, quaN_0, quaN_1, quaN_2]
  ext i j
  fin_cases i <;> fin_cases j <;>
    simp [quatMat, Spec.Rx, Spec.Ry, Spec.Rz, Matrix.mul_apply, Fin.sum_univ_three,
      cos_eq_one_sub ω, sin_eq_half ω]

/-- Agreement (clause 4 of C09): with no tilt (`wx = wy = 0`) `find_omega_general` and `find_omega_quart`
return identical lists (tools.py). -/
theorem solvers_agree (g : Fin 3 → ℝ) (twoth : ℝ) :
    Tools.find_omega_general g twoth 0 0 = Tools.find_omega_quart g twoth 0 0 := by
  rw [Tools_general_unfold, Tools_quart_unfold]
  have hA : quaA g 0 0 = genA g 0 0 := by
    rw [genA_eq]; unfold quaA; rw [quaN_0, quaN_1, quaN_2]; simp
  have hB : quaB g 0 0 = genB g 0 0 := by
    rw [genB_eq]; unfold quaB; rw [quaN_1, quaN_2]; simp
  have hC : quaC g 0 0 = genC g 0 0 := by
    rw [genC_eq]; unfold quaC; rw [quaN_0, quaN_1, quaN_2]; simp
  rw [hA, hB, hC]
  simp only [quart_zero_tilt]

/-- Agreement (clause 4, laue.py). -/
theorem laue_solvers_agree (g : Fin 3 → ℝ) (twoth : ℝ) :
    Laue.find_omega_general g twoth 0 0 = Laue.find_omega_quart g twoth 0 0 := by
  rw [Laue_general_eq, Laue_quart_eq, solvers_agree]

lemma Rx_zero : Spec.Rx 0 = 1 := by
  ext i j; fin_cases i <;> fin_cases j <;> simp [Spec.Rx]

lemma fomg_wedge (ω w : ℝ) :
    Tools.form_omega_mat_general ω 0 (-w) = Spec.Ry (-w) * Spec.Rz ω := by
  rw [Tools_fomg_eq, Rx_zero, Matrix.one_mul]

/-- Agreement (clause 4 of C09): every `(ω, η)` returned by `find_omega_wedge g 2θ wedge` is a solution
returned by `find_omega_general` at `(χ, wedge) = (0, -wedge)` for the rescaled vector
`gs = sin θ · g/|g|`: same `ω`, and `η` equal modulo `2π` (equal sine and cosine; the wedge solver uses
`±arccos`, which can return `-π` where `atan2` returns `π`).  The converse inclusion would need completeness
of the wedge solver and is not proved here. `hab` (`g ∦ z`) is implied by `ha0` but stated for
convenience. -/
theorem wedge_agrees_general (g : Fin 3 → ℝ) (twoth wedge : ℝ) (oms ets omsG etsG : List ℝ)
    (hg : g ⬝ᵥ g ≠ 0) (hpos : 0 < Real.sin (twoth / 2)) (hs : Real.sin twoth ≠ 0)
    (hcw : Real.cos wedge ≠ 0)
    (ha0 : wedgeA (wedgeCe ((Real.sqrt (g ⬝ᵥ g))⁻¹ • g) twoth wedge) twoth wedge ≠ 0)
    (hab : (g 0 * Real.cos wedge) ^ 2 + (g 1 * Real.cos wedge) ^ 2 ≠ 0)
    (h : Tools.find_omega_wedge g twoth wedge = (oms, ets))
    (hG : Tools.find_omega_general (lscale g twoth) twoth 0 (-wedge) = some (omsG, etsG)) :
    ∀ (i : ℕ) (h1 : i < oms.length) (h2 : i < ets.length),
      ∃ (j : ℕ) (h3 : j < omsG.length) (h4 : j < etsG.length),
        omsG[j] = oms[i] ∧ Real.cos (etsG[j]) = Real.cos (ets[i]) ∧ Real.sin (etsG[j]) = Real.sin (ets[i]) := by
  intro i h1 h2
  obtain ⟨w0, w1, w2, wlo, whi⟩ := (wedge_sound g twoth wedge oms ets hg hpos hs hcw ha0 h).2 i h1 h2
  have hab' : (lscale g twoth 0 * Real.cos (-wedge)) ^ 2 + (lscale g twoth 1 * Real.cos (-wedge)) ^ 2 ≠ 0 := by
    apply lscale_hab hg hs; rw [Real.cos_neg]; exact hab
  have hnorm := lscale_norm g twoth hg
  have hmem : oms[i] ∈ omsG := by
    apply (general_complete (lscale g twoth) twoth 0 (-wedge) omsG etsG hab' hG).1 _ wlo whi
    rw [fomg_wedge, w0, hnorm]
  obtain ⟨j, h3, e⟩ := List.getElem_of_mem hmem
  obtain ⟨hlen, hsound⟩ := general_sound (lscale g twoth) twoth 0 (-wedge) omsG etsG hnorm hs hab' hG
  have h4 : j < etsG.length := hlen ▸ h3
  obtain ⟨_, g1, g2, _, _⟩ := hsound j h3 h4
  rw [e, fomg_wedge, w1] at g1
  rw [e, fomg_wedge, w2] at g2
  refine ⟨j, h3, h4, e, ?_, ?_⟩
  · have := mul_left_cancel₀ hs (by linarith : Real.sin twoth * Real.cos (etsG[j]) = Real.sin twoth * Real.cos (ets[i]))
    exact this
  · have := mul_left_cancel₀ hs (by linarith : Real.sin twoth * Real.sin (etsG[j]) = Real.sin twoth * Real.sin (ets[i]))
    exact this

/-! ### `tth = tth2 (U B hkl)` -/

/-- numerator / denominator under the square roots of `sintl`, as the code writes them -/
def sintlP1 (unit_cell : Fin 6 → ℝ) (hkl : Fin 3 → ℝ) : ℝ :=
  let a : ℝ := (unit_cell 0)
  let b : ℝ := (unit_cell 1)
  let c : ℝ := (unit_cell 2)
  let calp : ℝ := (Real.cos (((unit_cell 3) * Real.pi) / 180))
  let cbet : ℝ := (Real.cos (((unit_cell 4) * Real.pi) / 180))
  let cgam : ℝ := (Real.cos (((unit_cell 5) * Real.pi) / 180))
  let h : ℝ := (hkl 0)
  let k : ℝ := (hkl 1)
  let l : ℝ := (hkl 2)
  ((((((((h * h) / (a ^ 2)) * (1 - (calp ^ 2))) + (((k * k) / (b ^ 2)) * (1 - (cbet ^ 2)))) + (((l * l) / (c ^ 2)) * (1 - (cgam ^ 2)))) + ((((2 * h) * k) * ((calp * cbet) - cgam)) / (a * b))) + ((((2 * h) * l) * ((calp * cgam) - cbet)) / (a * c))) + ((((2 * k) * l) * ((cbet * cgam) - calp)) / (b * c)))
def sintlP2 (unit_cell : Fin 6 → ℝ) : ℝ :=
  let calp : ℝ := (Real.cos (((unit_cell 3) * Real.pi) / 180))
  let cbet : ℝ := (Real.cos (((unit_cell 4) * Real.pi) / 180))
  let cgam : ℝ := (Real.cos (((unit_cell 5) * Real.pi) / 180))
  ((1 - (((calp ^ 2) + (cbet ^ 2)) + (cgam ^ 2))) + (((2 * calp) * cbet) * cgam))

lemma sintl_eq (cell : Fin 6 → ℝ) (hkl : Fin 3 → ℝ) :
    Tools.sintl cell hkl = Real.sqrt (sintlP1 cell hkl) / (2 * Real.sqrt (sintlP2 cell)) := rfl

lemma sintlP2_eq (cell : Fin 6 → ℝ) : sintlP2 cell = Spec.gramD cell := by
  unfold sintlP2 Spec.gramD Spec.rad; ring

lemma cell_volume_eq (cell : Fin 6 → ℝ) :
    Tools.cell_volume cell = cell 0 * cell 1 * cell 2 * Real.sqrt (sintlP2 cell) := by
  unfold Tools.cell_volume sintlP2
  simp only []
  congr 2
  ring

/-- `form_b_mat` with the reciprocal-length convention factor `f` (`2π` in tools.py, `1` in laue.py) -/
def bmat (f : ℝ) (unit_cell : Fin 6 → ℝ) : Matrix (Fin 3) (Fin 3) ℝ :=
  let a : ℝ := (unit_cell 0)
  let b : ℝ := (unit_cell 1)
  let c : ℝ := (unit_cell 2)
  let calp : ℝ := (Real.cos (((unit_cell 3) * Real.pi) / 180))
  let cbet : ℝ := (Real.cos (((unit_cell 4) * Real.pi) / 180))
  let cgam : ℝ := (Real.cos (((unit_cell 5) * Real.pi) / 180))
  let salp : ℝ := (Real.sin (((unit_cell 3) * Real.pi) / 180))
  let sbet : ℝ := (Real.sin (((unit_cell 4) * Real.pi) / 180))
  let sgam : ℝ := (Real.sin (((unit_cell 5) * Real.pi) / 180))
  let V : ℝ := (Tools.cell_volume unit_cell)
  let astar : ℝ := ((((f * b) * c) * salp) / V)
  let bstar : ℝ := ((((f * a) * c) * sbet) / V)
  let cstar : ℝ := ((((f * a) * b) * sgam) / V)
  let sbetstar : ℝ := (V / ((((a * b) * c) * salp) * sgam))
  let sgamstar : ℝ := (V / ((((a * b) * c) * salp) * sbet))
  let cbetstar : ℝ := (((calp * cgam) - cbet) / (salp * sgam))
  let cgamstar : ℝ := (((calp * cbet) - cgam) / (salp * sbet))
  (!![astar, (bstar * cgamstar), (cstar * cbetstar); (0 : ℝ), (bstar * sgamstar), (((-cstar) * sbetstar) * calp); (0 : ℝ), (0 : ℝ), ((cstar * sbetstar) * salp)] : (Matrix (Fin 3) (Fin 3) ℝ))

lemma Tools_bmat (cell : Fin 6 → ℝ) : Tools.form_b_mat cell = bmat (2 * Real.pi) cell := rfl

lemma Laue_bmat (cell : Fin 6 → ℝ) : Laue.form_b_mat cell = bmat 1 cell := by
  unfold bmat Laue.form_b_mat
  simp only [one_mul]
  rfl

lemma B_hkl_normsq (f : ℝ) (hf : f ≠ 0) (cell : Fin 6 → ℝ) (hkl : Fin 3 → ℝ) (hc : Spec.ValidCell cell) :
    (bmat f cell *ᵥ hkl) ⬝ᵥ (bmat f cell *ᵥ hkl) =
      f ^ 2 * (sintlP1 cell hkl / sintlP2 cell) := by
  have hD : 0 < sintlP2 cell := by rw [sintlP2_eq]; exact hc.gram
  have hR2 : Real.sqrt (sintlP2 cell) ^ 2 = sintlP2 cell := Real.sq_sqrt hD.le
  have hR : Real.sqrt (sintlP2 cell) ≠ 0 := (Real.sqrt_pos.mpr hD).ne'
  have ha := hc.a_pos.ne'
  have hb := hc.b_pos.ne'
  have hcc := hc.c_pos.ne'
  have hsa := (Spec.sin_rad_pos hc.al).ne'
  have hsb := (Spec.sin_rad_pos hc.be).ne'
  have hsg := (Spec.sin_rad_pos hc.ga).ne'
  have hsca := Real.sin_sq_add_cos_sq (Spec.rad (cell 3))
  unfold Spec.rad at hsa hsb hsg hsca
  have e0 : (bmat f cell *ᵥ hkl) 0 =
      f / (Real.sqrt (sintlP2 cell) * Real.sin (cell 3 * Real.pi / 180)) *
        (Real.sin (cell 3 * Real.pi / 180) ^ 2 * (hkl 0 / cell 0)
          + (Real.cos (cell 3 * Real.pi / 180) * Real.cos (cell 4 * Real.pi / 180) - Real.cos (cell 5 * Real.pi / 180)) * (hkl 1 / cell 1)
          + (Real.cos (cell 3 * Real.pi / 180) * Real.cos (cell 5 * Real.pi / 180) - Real.cos (cell 4 * Real.pi / 180)) * (hkl 2 / cell 2)) := by
    simp only [bmat, cell_volume_eq, Matrix.mulVec, dotProduct, Fin.sum_univ_three]
    generalize Real.sin (cell 3 * Real.pi / 180) = sa at *
    generalize Real.sin (cell 4 * Real.pi / 180) = sb at *
    generalize Real.sin (cell 5 * Real.pi / 180) = sg at *
    generalize Real.cos (cell 3 * Real.pi / 180) = ca at *
    generalize Real.cos (cell 4 * Real.pi / 180) = cb at *
    generalize Real.cos (cell 5 * Real.pi / 180) = cg at *
    generalize Real.sqrt (sintlP2 cell) = R at *
    simp
    field_simp
    try ring
  have e1 : (bmat f cell *ᵥ hkl) 1 =
      f / Real.sin (cell 3 * Real.pi / 180) *
        (hkl 1 / cell 1 - Real.cos (cell 3 * Real.pi / 180) * (hkl 2 / cell 2)) := by
    simp only [bmat, cell_volume_eq, Matrix.mulVec, dotProduct, Fin.sum_univ_three]
    generalize Real.sin (cell 3 * Real.pi / 180) = sa at *
    generalize Real.sin (cell 4 * Real.pi / 180) = sb at *
    generalize Real.sin (cell 5 * Real.pi / 180) = sg at *
    generalize Real.cos (cell 3 * Real.pi / 180) = ca at *
    generalize Real.cos (cell 4 * Real.pi / 180) = cb at *
    generalize Real.cos (cell 5 * Real.pi / 180) = cg at *
    generalize Real.sqrt (sintlP2 cell) = R at *
    simp
    field_simp
    try ring
  have e2 : (bmat f cell *ᵥ hkl) 2 = f * (hkl 2 / cell 2) := by
    simp only [bmat, cell_volume_eq, Matrix.mulVec, dotProduct, Fin.sum_univ_three]
    generalize Real.sin (cell 3 * Real.pi / 180) = sa at *
    generalize Real.sin (cell 4 * Real.pi / 180) = sb at *
    generalize Real.sin (cell 5 * Real.pi / 180) = sg at *
    generalize Real.cos (cell 3 * Real.pi / 180) = ca at *
    generalize Real.cos (cell 4 * Real.pi / 180) = cb at *
    generalize Real.cos (cell 5 * Real.pi / 180) = cg at *
    generalize Real.sqrt (sintlP2 cell) = R at *
    simp
    field_simp
    try ring
  simp only [dotProduct, Fin.sum_univ_three]
  rw [e0, e1, e2]
  have hP1 : sintlP1 cell hkl =
      (hkl 0 / cell 0) ^ 2 * (1 - Real.cos (cell 3 * Real.pi / 180) ^ 2)
      + (hkl 1 / cell 1) ^ 2 * (1 - Real.cos (cell 4 * Real.pi / 180) ^ 2)
      + (hkl 2 / cell 2) ^ 2 * (1 - Real.cos (cell 5 * Real.pi / 180) ^ 2)
      + 2 * (hkl 0 / cell 0) * (hkl 1 / cell 1) * (Real.cos (cell 3 * Real.pi / 180) * Real.cos (cell 4 * Real.pi / 180) - Real.cos (cell 5 * Real.pi / 180))
      + 2 * (hkl 0 / cell 0) * (hkl 2 / cell 2) * (Real.cos (cell 3 * Real.pi / 180) * Real.cos (cell 5 * Real.pi / 180) - Real.cos (cell 4 * Real.pi / 180))
      + 2 * (hkl 1 / cell 1) * (hkl 2 / cell 2) * (Real.cos (cell 4 * Real.pi / 180) * Real.cos (cell 5 * Real.pi / 180) - Real.cos (cell 3 * Real.pi / 180)) := by
    unfold sintlP1; simp only []; ring
  have hD0 : sintlP2 cell = 1 - Real.cos (cell 3 * Real.pi / 180) ^ 2 - Real.cos (cell 4 * Real.pi / 180) ^ 2
      - Real.cos (cell 5 * Real.pi / 180) ^ 2
      + 2 * Real.cos (cell 3 * Real.pi / 180) * Real.cos (cell 4 * Real.pi / 180) * Real.cos (cell 5 * Real.pi / 180) := by
    unfold sintlP2; ring
  generalize Real.sqrt (sintlP2 cell) = R at *
  rw [hP1, ← hR2]
  have hD' := hR2.trans hD0
  generalize Real.sin (cell 3 * Real.pi / 180) = sa at *
  generalize Real.cos (cell 3 * Real.pi / 180) = ca at *
  generalize Real.cos (cell 4 * Real.pi / 180) = cb at *
  generalize Real.cos (cell 5 * Real.pi / 180) = cg at *
  generalize hkl 0 / cell 0 = p at *
  generalize hkl 1 / cell 1 = q at *
  generalize hkl 2 / cell 2 = r at *
  have main : (sa ^ 2 * p + (ca * cb - cg) * q + (ca * cg - cb) * r) ^ 2 + R ^ 2 * (q - ca * r) ^ 2
      + R ^ 2 * sa ^ 2 * r ^ 2 =
      sa ^ 2 * (p ^ 2 * (1 - ca ^ 2) + q ^ 2 * (1 - cb ^ 2) + r ^ 2 * (1 - cg ^ 2) + 2 * p * q * (ca * cb - cg)
        + 2 * p * r * (ca * cg - cb) + 2 * q * r * (cb * cg - ca)) := by
    rw [hD']
    linear_combination (-ca^2*r^2 + 2*ca*cb*cg*r^2 + 2*ca*q*r + cb^2*q^2 - cb^2*r^2 - 2*cb*cg*q*r + p^2*sa^2 - q^2) * hsca
  calc _ = (f) ^ 2 / (R ^ 2 * sa ^ 2) * ((sa ^ 2 * p + (ca * cb - cg) * q + (ca * cg - cb) * r) ^ 2
        + R ^ 2 * (q - ca * r) ^ 2 + R ^ 2 * sa ^ 2 * r ^ 2) := by field_simp
    _ = _ := by rw [main]; field_simp

/-- `tth(cell, hkl, λ) = tth2(U·B·hkl, λ)` (clause 5 of C09, tools.py) for a valid cell and a rotation `U`
(`B = form_b_mat cell`, carrying the factor 2π that `tth2` divides out). -/
theorem tth_eq_tth2 (cell : Fin 6 → ℝ) (hkl : Fin 3 → ℝ) (lam : ℝ) (U : Matrix (Fin 3) (Fin 3) ℝ)
    (hc : Spec.ValidCell cell) (hU : Spec.IsRot U) :
    Tools.tth2 (U *ᵥ (Tools.form_b_mat cell *ᵥ hkl)) lam = Tools.tth cell hkl lam := by
  have hD : 0 < sintlP2 cell := by rw [sintlP2_eq]; exact hc.gram
  have hR : Real.sqrt (sintlP2 cell) ≠ 0 := (Real.sqrt_pos.mpr hD).ne'
  have hpi := Real.pi_pos
  unfold Tools.tth2 Tools.tth
  simp only []
  rw [rot_norm hU.1, Tools_bmat, B_hkl_normsq _ (by positivity) cell hkl hc, sintl_eq,
    Real.sqrt_mul (sq_nonneg _), Real.sqrt_sq (by positivity), Real.sqrt_div' _ hD.le]
  congr 2
  field_simp
  ring

/-- `tth(cell, hkl, λ) = tth2(U·B·hkl, λ)` (clause 5 of C09, laue.py; there neither `B` nor `tth2` carries 2π). -/
theorem laue_tth_eq_tth2 (cell : Fin 6 → ℝ) (hkl : Fin 3 → ℝ) (lam : ℝ) (U : Matrix (Fin 3) (Fin 3) ℝ)
    (hc : Spec.ValidCell cell) (hU : Spec.IsRot U) :
    Laue.tth2 (U *ᵥ (Laue.form_b_mat cell *ᵥ hkl)) lam = Laue.tth cell hkl lam := by
  have hD : 0 < sintlP2 cell := by rw [sintlP2_eq]; exact hc.gram
  have hR : Real.sqrt (sintlP2 cell) ≠ 0 := (Real.sqrt_pos.mpr hD).ne'
  unfold Laue.tth2 Laue.tth
  simp only []
  rw [rot_norm hU.1, Laue_bmat, B_hkl_normsq _ one_ne_zero cell hkl hc,
    show Laue.sintl cell hkl = Real.sqrt (sintlP1 cell hkl) / (2 * Real.sqrt (sintlP2 cell)) from rfl,
    one_pow, one_mul, Real.sqrt_div' _ hD.le]
  congr 2
  by_cases h1 : Real.sqrt (sintlP1 cell hkl) = 0
  · rw [h1]; simp
  · field_simp

lemma sqrt_scale {k : ℝ} (hk : 0 < k) (a b c : ℝ) :
    Real.sqrt (k * a * (k * a) + k * b * (k * b) - k * c * (k * c)) = k * Real.sqrt (a * a + b * b - c * c) := by
  rw [show k * a * (k * a) + k * b * (k * b) - k * c * (k * c) = k ^ 2 * (a * a + b * b - c * c) by ring,
    Real.sqrt_mul (sq_nonneg k), Real.sqrt_sq hk.le]

lemma frac_scale {k : ℝ} (hk : 0 < k) (x y x' y' : ℝ) (hx : x' = (k * k) * x) (hy : y' = (k * k) * y) :
    x' / y' = x / y := by
  rw [hx, hy, mul_div_mul_left _ _ (mul_pos hk hk).ne']

lemma om1_scale {k : ℝ} (hk : 0 < k) (a b c : ℝ) : om1 (k * a) (k * b) (k * c) = om1 a b c := by
  unfold om1
  rw [sqrt_scale hk]
  congr 1
  · exact frac_scale hk _ _ _ _ (by ring) (by ring)
  · exact frac_scale hk _ _ _ _ (by ring) (by ring)

lemma om2_scale {k : ℝ} (hk : 0 < k) (a b c : ℝ) : om2 (k * a) (k * b) (k * c) = om2 a b c := by
  unfold om2
  rw [sqrt_scale hk]
  congr 1
  · exact frac_scale hk _ _ _ _ (by ring) (by ring)
  · exact frac_scale hk _ _ _ _ (by ring) (by ring)

/-- Agreement (clause 4 of C09): for `|g| = sin θ > 0` and strictly positive discriminant, the omegas of
`find_omega` are exactly (same order) the omegas of `find_omega_general` with zero tilt. -/
theorem plain_agrees_general (g : Fin 3 → ℝ) (twoth : ℝ) (hpos : 0 < Real.sin (twoth / 2))
    (hg : g ⬝ᵥ g = Real.sin (twoth / 2) ^ 2)
    (hd : plA g * plA g + plB g * plB g - plC twoth * plC twoth > 0) :
    ∃ ets : List ℝ, Tools.find_omega_general g twoth 0 0 = some (Tools.find_omega g twoth, ets) := by
  have hG : Real.sqrt (g ⬝ᵥ g) = Real.sin (twoth / 2) := by rw [hg, Real.sqrt_sq hpos.le]
  have hs0 : Real.sin (twoth / 2) ≠ 0 := hpos.ne'
  have eA : genA g 0 0 = Real.sin (twoth / 2) * plA g := by
    rw [genA_eq]; unfold plA; rw [hG]; field_simp; simp
  have eB : genB g 0 0 = Real.sin (twoth / 2) * plB g := by
    rw [genB_eq]; unfold plB; rw [hG]; field_simp; simp
  have eC : genC g 0 0 = Real.sin (twoth / 2) * plC twoth := by
    rw [genC_eq, plC_eq twoth hs0, abs_of_pos hpos, hg]; simp; ring
  have hguard : |((g ⬝ᵥ g) - ((Real.sin (twoth / 2)) ^ 2))| < (1e-9 : ℝ) := by
    rw [hg, sub_self, abs_zero]; norm_num
  have hdG : ¬ (genA g 0 0 * genA g 0 0 + genB g 0 0 * genB g 0 0 - genC g 0 0 * genC g 0 0 < 0) := by
    rw [eA, eB, eC]
    have : 0 < Real.sin (twoth / 2) ^ 2 * (plA g * plA g + plB g * plB g - plC twoth * plC twoth) :=
      mul_pos (by positivity) hd
    nlinarith
  rw [Tools_general_unfold, Tools_plain_body, plainBody_eq, if_pos hd]
  unfold solverOut
  rw [if_pos hguard, if_neg hdG, eA, eB, eC, om1_scale hpos, om2_scale hpos]
  exact ⟨_, rfl⟩

/-! ### the hypotheses are satisfiable on concrete inputs -/

/-- `general_sound`/`general_complete` are not vacuous: `g = (√2/2, 0, 0)`, `2θ = π/2`, no tilt gives two solutions. -/
example : ∃ (g : Fin 3 → ℝ) (twoth wx wy : ℝ),
    g ⬝ᵥ g = Real.sin (twoth / 2) ^ 2 ∧ Real.sin twoth ≠ 0 ∧
    (g 0 * Real.cos wy) ^ 2 + (g 1 * Real.cos wy) ^ 2 ≠ 0 ∧
    ∃ oms ets : List ℝ, Tools.find_omega_general g twoth wx wy = some (oms, ets) ∧ oms.length = 2 := by
  have h2 : Real.sqrt 2 ^ 2 = 2 := Real.sq_sqrt (by norm_num)
  have h4 : Real.sin (Real.pi / 2 / 2) = Real.sqrt 2 / 2 := by
    rw [show Real.pi / 2 / 2 = Real.pi / 4 by ring, Real.sin_pi_div_four]
  have hg : (![Real.sqrt 2 / 2, 0, 0] : Fin 3 → ℝ) ⬝ᵥ ![Real.sqrt 2 / 2, 0, 0] = Real.sin (Real.pi / 2 / 2) ^ 2 := by
    rw [h4]; simp [dotProduct, Fin.sum_univ_three]; ring
  have hgg : (![Real.sqrt 2 / 2, 0, 0] : Fin 3 → ℝ) ⬝ᵥ ![Real.sqrt 2 / 2, 0, 0] = 1 / 2 := by
    simp [dotProduct, Fin.sum_univ_three]; nlinarith
  have hguard : |(((![Real.sqrt 2 / 2, 0, 0] : Fin 3 → ℝ) ⬝ᵥ ![Real.sqrt 2 / 2, 0, 0]) - ((Real.sin (Real.pi / 2 / 2)) ^ 2))| < (1e-9 : ℝ) := by
    rw [hg, sub_self, abs_zero]; norm_num
  have hd : ¬ (genA ![Real.sqrt 2 / 2, 0, 0] 0 0 * genA ![Real.sqrt 2 / 2, 0, 0] 0 0
      + genB ![Real.sqrt 2 / 2, 0, 0] 0 0 * genB ![Real.sqrt 2 / 2, 0, 0] 0 0
      - genC ![Real.sqrt 2 / 2, 0, 0] 0 0 * genC ![Real.sqrt 2 / 2, 0, 0] 0 0 < 0) := by
    rw [genA_eq, genB_eq, genC_eq, hgg]; simp; nlinarith
  refine ⟨![Real.sqrt 2 / 2, 0, 0], Real.pi / 2, 0, 0, hg, by simp, ?_, ?_⟩
  · simp
  · rw [Tools_general_unfold]; unfold solverOut; rw [if_pos hguard, if_neg hd]
    exact ⟨_, _, rfl, rfl⟩

/-- the guards of `wedge_sound` are satisfiable: `g = (1, 0, 0)`, `2θ = π/2`, `wedge = 0` (`coseta = 0`, `a = -1`). -/
example : ∃ (g : Fin 3 → ℝ) (twoth wedge : ℝ),
    g ⬝ᵥ g ≠ 0 ∧ 0 < Real.sin (twoth / 2) ∧ Real.sin twoth ≠ 0 ∧ Real.cos wedge ≠ 0 ∧
    wedgeA (wedgeCe ((Real.sqrt (g ⬝ᵥ g))⁻¹ • g) twoth wedge) twoth wedge ≠ 0 := by
  have hgg : (![1, 0, 0] : Fin 3 → ℝ) ⬝ᵥ ![1, 0, 0] = 1 := by simp [dotProduct, Fin.sum_univ_three]
  refine ⟨![1, 0, 0], Real.pi / 2, 0, by rw [hgg]; norm_num, ?_, by simp, by simp, ?_⟩
  · apply Real.sin_pos_of_pos_of_lt_pi <;> linarith [Real.pi_pos]
  · rw [hgg]; simp [wedgeA, wedgeCe]

end C09
