/-
C09Extra — the four completeness theorems missing from `C09.lean`:
`laue_quart_complete`, `laue_plain_complete`, `wedge_complete`, `laue_wedge_complete`.

All four go through the closed forms of `C09.lean` (`Tools_quart_unfold`, `plainBody_eq`, `Tools_wedge_unfold`,
`Laue_*_eq`) and never unfold generated text.

`find_omega_wedge`: write `n = g/|g|`, `s = sin θ`, `k = cos θ`, `gs = s·n` (`C09.lscale`).  If `ω` satisfies
`(Ry(-wedge) Rz(ω) gs)₀ = -s²`, then with `p = cos ω n₀ - sin ω n₁`, `q = sin ω n₀ + cos ω n₁`
  `p = a / (2 s)`,  `q² = k² (1 - coseta²)`
(`wedge_alg_complete`), so `|coseta| ≤ 1` (the solver does not take its empty branch) and `q = -k sin η` for
`η = arccos coseta` or `η = -arccos coseta`; the code's `ω(η)` has the same `p`, `q` (`wedge_alg`), the 2×2
system `(n₀, -n₁; n₁, n₀)` is regular because `a ≠ 0`, hence `ω = ω(η)`.
No boundary has to be excluded: at the tangent case `|coseta| = 1` the solver (test `|coseta| > 1`) returns
the double root twice, like `find_omega_general` and unlike `find_omega` (`plain_tangent_gap`).
-/
import XfabVerif.Proofs.C09

set_option linter.unusedVariables false
set_option linter.style.longLine false
noncomputable section
open Matrix

namespace C09

/-! ### `Laue.find_omega_quart` -/

/-- Completeness of `Laue.find_omega_quart` (clause 3 of C09, laue.py), for the rescaled vector
`gs = lscale g twoth`, matrix `Laue.quart_to_omega (ω·180/π) wx wy`; same shape as `quart_complete`
(including the discriminant clause), transported through `Laue_quart_eq`.  `hab` is the code's division
guard for the coefficients it computes from `gs` (as in `laue_quart_sound`); it implies `g ≠ 0` and
`sin θ ≠ 0`, so no further guard is needed. -/
theorem laue_quart_complete (g : Fin 3 → ℝ) (twoth wx wy : ℝ) (oms ets : List ℝ)
    (hab : quaA (lscale g twoth) wx wy * quaA (lscale g twoth) wx wy +
      quaB (lscale g twoth) wx wy * quaB (lscale g twoth) wx wy ≠ 0)
    (h : Laue.find_omega_quart g twoth wx wy = some (oms, ets)) :
    (∀ ω, -Real.pi < ω → ω ≤ Real.pi →
      (Laue.quart_to_omega ((ω * 180) / Real.pi) wx wy *ᵥ lscale g twoth) 0 =
        -(lscale g twoth ⬝ᵥ lscale g twoth) → ω ∈ oms) ∧
    ((∃ ω, (Laue.quart_to_omega ((ω * 180) / Real.pi) wx wy *ᵥ lscale g twoth) 0 =
        -(lscale g twoth ⬝ᵥ lscale g twoth)) → oms.length = 2 ∧ ets.length = 2) ∧
    ((¬ ∃ ω, (Laue.quart_to_omega ((ω * 180) / Real.pi) wx wy *ᵥ lscale g twoth) 0 =
        -(lscale g twoth ⬝ᵥ lscale g twoth)) → oms = [] ∧ ets = []) ∧
    (quaA (lscale g twoth) wx wy * quaA (lscale g twoth) wx wy +
        quaB (lscale g twoth) wx wy * quaB (lscale g twoth) wx wy -
        quaC (lscale g twoth) wx wy * quaC (lscale g twoth) wx wy < 0 ↔
      ¬ ∃ ω, (Laue.quart_to_omega ((ω * 180) / Real.pi) wx wy *ᵥ lscale g twoth) 0 =
        -(lscale g twoth ⬝ᵥ lscale g twoth)) := by
  rw [Laue_quart_eq] at h
  exact quart_complete (lscale g twoth) twoth wx wy oms ets hab h

/-! ### `Laue.find_omega` -/

lemma sqrt_lscale_norm (g : Fin 3 → ℝ) (twoth : ℝ) (hg : g ⬝ᵥ g ≠ 0) (hpos : 0 < Real.sin (twoth / 2)) :
    Real.sqrt (lscale g twoth ⬝ᵥ lscale g twoth) = Real.sin (twoth / 2) := by
  rw [lscale_norm g twoth hg, Real.sqrt_sq hpos.le]

/-- the coefficient `a` that laue.py's `find_omega` computes from the rescaled vector is `g₀/|g|` -/
lemma plA_lscale (g : Fin 3 → ℝ) (twoth : ℝ) (hg : g ⬝ᵥ g ≠ 0) (hpos : 0 < Real.sin (twoth / 2)) :
    plA (lscale g twoth) = plA g := by
  unfold plA
  rw [sqrt_lscale_norm g twoth hg hpos, lscale_apply]
  have hs0 := hpos.ne'
  field_simp

/-- the coefficient `b` that laue.py's `find_omega` computes from the rescaled vector is `-g₁/|g|` -/
lemma plB_lscale (g : Fin 3 → ℝ) (twoth : ℝ) (hg : g ⬝ᵥ g ≠ 0) (hpos : 0 < Real.sin (twoth / 2)) :
    plB (lscale g twoth) = plB g := by
  unfold plB
  rw [sqrt_lscale_norm g twoth hg hpos, lscale_apply]
  have hs0 := hpos.ne'
  field_simp

/-- Completeness of `Laue.find_omega` (clause 3 of C09, laue.py, no tilt), mirror of `plain_complete` for
the rescaled vector `gs = lscale g twoth` with the target `-sin²θ` of `laue_plain_sound`: when the
discriminant `a²+b²-c²` of the code's own coefficients (`a = plA gs = g₀/|g|`, `b = plB gs = -g₁/|g|`,
see `plA_lscale`, `plB_lscale`; `c = plC twoth = -sin θ`) is strictly positive the list has exactly two
entries and contains every `ω ∈ (-π, π]` with `(Ω(ω) gs)₀ = -sin²θ`; when it is negative the list is
empty and no `ω` satisfies the condition.
Guards as in `laue_plain_sound`: `g ≠ 0`, `0 < sin θ`.
Excluded boundary: the tangent case `a²+b²-c² = 0` (inherited from tools.py, see `plain_tangent_gap`: the
code tests `sq_d > 0` and returns nothing although the double root exists). -/
theorem laue_plain_complete (g : Fin 3 → ℝ) (twoth : ℝ) (hg : g ⬝ᵥ g ≠ 0) (hpos : 0 < Real.sin (twoth / 2)) :
    (plA (lscale g twoth) * plA (lscale g twoth) + plB (lscale g twoth) * plB (lscale g twoth) -
        plC twoth * plC twoth > 0 →
      (Laue.find_omega g twoth).length = 2 ∧
      ∀ ω, -Real.pi < ω → ω ≤ Real.pi →
        (Laue.form_omega_mat ω *ᵥ lscale g twoth) 0 = -Real.sin (twoth / 2) ^ 2 → ω ∈ Laue.find_omega g twoth) ∧
    (plA (lscale g twoth) * plA (lscale g twoth) + plB (lscale g twoth) * plB (lscale g twoth) -
        plC twoth * plC twoth < 0 →
      Laue.find_omega g twoth = [] ∧
      ∀ ω, (Laue.form_omega_mat ω *ᵥ lscale g twoth) 0 ≠ -Real.sin (twoth / 2) ^ 2) := by
  have hn0 : lscale g twoth ⬝ᵥ lscale g twoth ≠ 0 := by
    rw [lscale_norm g twoth hg]; positivity
  have htgt : -|Real.sin (twoth / 2)| * Real.sqrt (lscale g twoth ⬝ᵥ lscale g twoth) =
      -Real.sin (twoth / 2) ^ 2 := by
    rw [sqrt_lscale_norm g twoth hg hpos, abs_of_pos hpos]; ring
  have hM : ∀ ω, Laue.form_omega_mat ω = Spec.Rz ω := fun ω => rfl
  obtain ⟨c1, c2⟩ := plain_complete (lscale g twoth) twoth hn0 hpos.ne'
  rw [htgt] at c1 c2
  rw [Laue_plain_eq]
  simp only [hM]
  exact ⟨c1, c2⟩

/-! ### `find_omega_wedge` -/

/-- algebraic core of the completeness of `find_omega_wedge`: row 0 of the diffraction condition fixes
`p = cos ω n₀ - sin ω n₁` to the code's `a/(2s)` and `q² = (sin ω n₀ + cos ω n₁)²` to `k²(1 - coseta²)` -/
lemma wedge_alg_complete {n0 n1 n2 s k sw cw ce co so : ℝ}
    (hn : n0 ^ 2 + n1 ^ 2 + n2 ^ 2 = 1) (hsk : s ^ 2 + k ^ 2 = 1) (hw : sw ^ 2 + cw ^ 2 = 1)
    (ho : so ^ 2 + co ^ 2 = 1) (hs : 0 < s) (hk : k ≠ 0) (hcw : cw ≠ 0)
    (hce : ce = ((n2 * (2 * s) + sw * (-2 * s ^ 2)) / cw) / (2 * s * k))
    (hrow : cw * (co * (s * n0) - so * (s * n1)) - sw * (s * n2) = -s ^ 2) :
    co * n0 - so * n1 = -s * cw + sw * k * ce ∧
    (so * n0 + co * n1) ^ 2 = k ^ 2 * (1 - ce ^ 2) := by
  have hs0 : s ≠ 0 := hs.ne'
  have hn2 : n2 = cw * k * ce + s * sw := by rw [hce]; field_simp; ring
  have hp : co * n0 - so * n1 = -s * cw + sw * k * ce := by
    have h0 : (s * cw) * (co * n0 - so * n1 - (-s * cw + sw * k * ce)) = 0 := by
      linear_combination hrow + (sw * s) * hn2 + s ^ 2 * hw
    rcases mul_eq_zero.mp h0 with h | h
    · exact absurd h (mul_ne_zero hs0 hcw)
    · linarith
  refine ⟨hp, ?_⟩
  linear_combination (n0 ^ 2 + n1 ^ 2) * ho + hn
    - (co * n0 - so * n1 + (-s * cw + sw * k * ce)) * hp
    - (n2 + (cw * k * ce + s * sw)) * hn2 - (k ^ 2 * ce ^ 2 + s ^ 2) * hw - hsk

/-- a planar rotation is determined by the image of one non-zero vector -/
lemma rot2_unique {n0 n1 c1 s1 c2 s2 : ℝ} (hd : n0 ^ 2 + n1 ^ 2 ≠ 0)
    (hp : c1 * n0 - s1 * n1 = c2 * n0 - s2 * n1) (hq : s1 * n0 + c1 * n1 = s2 * n0 + c2 * n1) :
    c1 = c2 ∧ s1 = s2 := by
  constructor
  · have : (n0 ^ 2 + n1 ^ 2) * (c1 - c2) = 0 := by linear_combination n0 * hp + n1 * hq
    rcases mul_eq_zero.mp this with h | h
    · exact absurd h hd
    · linarith
  · have : (n0 ^ 2 + n1 ^ 2) * (s1 - s2) = 0 := by linear_combination n0 * hq - n1 * hp
    rcases mul_eq_zero.mp this with h | h
    · exact absurd h hd
    · linarith

/-- two angles in `(-π, π]` with the same cosine and sine are equal -/
lemma angle_eq_of_cos_sin {ω ω' : ℝ} (h1 : -Real.pi < ω) (h2 : ω ≤ Real.pi)
    (h1' : -Real.pi < ω') (h2' : ω' ≤ Real.pi)
    (hc : Real.cos ω = Real.cos ω') (hs : Real.sin ω = Real.sin ω') : ω = ω' := by
  rw [← atan2_sin_cos h1 h2, ← atan2_sin_cos h1' h2', hc, hs]

/-- the code's `ω = atan2(somega, comega)` is the only angle in `(-π, π]` with the given
`p = cos ω n₀ - sin ω n₁ ≠ 0` and `q = sin ω n₀ + cos ω n₁` (`a1`-`a3` are the conclusions of `wedge_alg`) -/
lemma wedgeOm_unique {n : Fin 3 → ℝ} {a b r P Q ω : ℝ} (hr : 0 < r)
    (h1 : -Real.pi < ω) (h2 : ω ≤ Real.pi)
    (a1 : (((n 0) - (b * (((b * (n 0)) - (a * (n 1))) / ((a * a) + (b * b))))) / a) ^ 2 +
      (((b * (n 0)) - (a * (n 1))) / ((a * a) + (b * b))) ^ 2 = r ^ 2)
    (a2 : (((n 0) - (b * (((b * (n 0)) - (a * (n 1))) / ((a * a) + (b * b))))) / a) / r * n 0 -
      (((b * (n 0)) - (a * (n 1))) / ((a * a) + (b * b))) / r * n 1 = P)
    (a3 : (((b * (n 0)) - (a * (n 1))) / ((a * a) + (b * b))) / r * n 0 +
      (((n 0) - (b * (((b * (n 0)) - (a * (n 1))) / ((a * a) + (b * b))))) / a) / r * n 1 = Q)
    (hp : Real.cos ω * n 0 - Real.sin ω * n 1 = P) (hq : Real.sin ω * n 0 + Real.cos ω * n 1 = Q)
    (hP : P ≠ 0) : ω = wedgeOm n a b := by
  have hcos := cos_atan2_scaled hr a1
  have hsin := sin_atan2_scaled hr a1
  have hd : n 0 ^ 2 + n 1 ^ 2 ≠ 0 := by
    intro h0
    have e0 : n 0 ^ 2 = 0 := le_antisymm (by linarith [sq_nonneg (n 1)]) (sq_nonneg _)
    have e1 : n 1 ^ 2 = 0 := le_antisymm (by linarith [sq_nonneg (n 0)]) (sq_nonneg _)
    have e0' : n 0 = 0 := pow_eq_zero_iff (two_ne_zero) |>.mp e0
    have e1' : n 1 = 0 := pow_eq_zero_iff (two_ne_zero) |>.mp e1
    apply hP; rw [← hp, e0', e1']; ring
  have hpp : Real.cos ω * n 0 - Real.sin ω * n 1 =
      Real.cos (wedgeOm n a b) * n 0 - Real.sin (wedgeOm n a b) * n 1 := by
    unfold wedgeOm; rw [hcos, hsin, a2, hp]
  have hqq : Real.sin ω * n 0 + Real.cos ω * n 1 =
      Real.sin (wedgeOm n a b) * n 0 + Real.cos (wedgeOm n a b) * n 1 := by
    unfold wedgeOm; rw [hcos, hsin, a3, hq]
  obtain ⟨ec, es⟩ := rot2_unique hd hpp hqq
  exact angle_eq_of_cos_sin h1 h2 (neg_pi_lt_atan2 _ _) (atan2_le_pi _ _) ec es

/-- completeness core of `find_omega_wedge` for a unit vector `n`: an `ω ∈ (-π, π]` satisfying row 0 of the
diffraction condition for `sin θ · n` under `Ry(-wedge) · Rz(ω)` forces `|coseta| ≤ 1`, and (if the code's
`a ≠ 0`) is the code's omega for `η = arccos coseta` or for `η = -arccos coseta`. -/
lemma wedge_core_complete {n : Fin 3 → ℝ} {twoth wedge ω : ℝ} (hn : n ⬝ᵥ n = 1)
    (hpos : 0 < Real.sin (twoth / 2)) (hs : Real.sin twoth ≠ 0) (hcw : Real.cos wedge ≠ 0)
    (hrow : ((Spec.Ry (-wedge) * Spec.Rz ω) *ᵥ (Real.sin (twoth / 2) • n)) 0 = -Real.sin (twoth / 2) ^ 2) :
    |wedgeCe n twoth wedge| ≤ 1 ∧
    (-Real.pi < ω → ω ≤ Real.pi → wedgeA (wedgeCe n twoth wedge) twoth wedge ≠ 0 →
      ω = wedgeOm n (wedgeA (wedgeCe n twoth wedge) twoth wedge)
          ((-(Real.sin twoth)) * (Real.sin (Real.arccos (wedgeCe n twoth wedge)))) ∨
      ω = wedgeOm n (wedgeA (wedgeCe n twoth wedge) twoth wedge)
          ((-(Real.sin twoth)) * (Real.sin (-(Real.arccos (wedgeCe n twoth wedge)))))) := by
  have hS : Real.sin twoth = 2 * Real.sin (twoth / 2) * Real.cos (twoth / 2) := sin_eq_half twoth
  have hcf : Real.cos twoth - 1 = -2 * Real.sin (twoth / 2) ^ 2 := by
    rw [cos_eq_one_sub twoth]; ring
  have hsk := Real.sin_sq_add_cos_sq (twoth / 2)
  have hw := Real.sin_sq_add_cos_sq wedge
  have ho := Real.sin_sq_add_cos_sq ω
  have hk : Real.cos (twoth / 2) ≠ 0 := by
    intro h0; apply hs; rw [hS, h0]; ring
  have hL : Real.sqrt ((-2 : ℝ) * ((Real.cos twoth) - 1)) = 2 * Real.sin (twoth / 2) := by
    rw [hcf, show (-2 : ℝ) * (-2 * Real.sin (twoth / 2) ^ 2) = (2 * Real.sin (twoth / 2)) ^ 2 by ring]
    exact Real.sqrt_sq (by positivity)
  have hn' : n 0 ^ 2 + n 1 ^ 2 + n 2 ^ 2 = 1 := by
    rw [← hn]; simp only [dotProduct, Fin.sum_univ_three]; ring
  have hce : wedgeCe n twoth wedge =
      ((n 2 * (2 * Real.sin (twoth / 2)) + Real.sin wedge * (-2 * Real.sin (twoth / 2) ^ 2)) /
        Real.cos wedge) / (2 * Real.sin (twoth / 2) * Real.cos (twoth / 2)) := by
    unfold wedgeCe; rw [hL, hcf, hS]
  have ha : wedgeA (wedgeCe n twoth wedge) twoth wedge =
      Real.cos wedge * (-2 * Real.sin (twoth / 2) ^ 2) +
        Real.sin wedge * (2 * Real.sin (twoth / 2) * Real.cos (twoth / 2)) * wedgeCe n twoth wedge := by
    unfold wedgeA; rw [hcf, hS]
  rw [(wedge_rows wedge ω (Real.sin (twoth / 2) • n)).1] at hrow
  simp only [Pi.smul_apply, smul_eq_mul] at hrow
  obtain ⟨hp, hq⟩ := wedge_alg_complete hn' hsk hw ho hpos hk hcw hce hrow
  -- `1 - coseta² ≥ 0`
  have hk2 : 0 < Real.cos (twoth / 2) ^ 2 := by positivity
  have hnn : 0 ≤ 1 - wedgeCe n twoth wedge ^ 2 := by
    by_contra hneg
    have hneg := not_le.mp hneg
    have : Real.cos (twoth / 2) ^ 2 * (1 - wedgeCe n twoth wedge ^ 2) < 0 := mul_neg_of_pos_of_neg hk2 hneg
    nlinarith [sq_nonneg (Real.sin ω * n 0 + Real.cos ω * n 1)]
  have hle : |wedgeCe n twoth wedge| ≤ 1 := by
    rw [← sq_le_one_iff_abs_le_one]; linarith
  refine ⟨hle, ?_⟩
  intro h1 h2 ha0
  have hle' := abs_le.mp hle
  have hc1 := Real.cos_arccos hle'.1 hle'.2
  -- the code's omega for a given `η` with `cos η = coseta` and matching `q`
  have key : ∀ η, Real.cos η = wedgeCe n twoth wedge →
      Real.sin ω * n 0 + Real.cos ω * n 1 = -Real.cos (twoth / 2) * Real.sin η →
      ω = wedgeOm n (wedgeA (wedgeCe n twoth wedge) twoth wedge) ((-(Real.sin twoth)) * (Real.sin η)) := by
    intro η hη hqη
    have he := Real.sin_sq_add_cos_sq η
    rw [hη] at he
    have hb : (-(Real.sin twoth)) * (Real.sin η) =
        -(2 * Real.sin (twoth / 2) * Real.cos (twoth / 2)) * Real.sin η := by rw [hS]
    obtain ⟨a1, a2, a3, _⟩ := wedge_alg hn' hsk hw he hpos hk hcw hce ha hb ha0 rfl rfl
    have hr : (0 : ℝ) < 1 / (2 * Real.sin (twoth / 2)) := by positivity
    have hs0 : Real.sin (twoth / 2) ≠ 0 := hpos.ne'
    have hP : wedgeA (wedgeCe n twoth wedge) twoth wedge / (2 * Real.sin (twoth / 2)) ≠ 0 :=
      div_ne_zero ha0 (mul_ne_zero two_ne_zero hs0)
    have hp' : Real.cos ω * n 0 - Real.sin ω * n 1 =
        wedgeA (wedgeCe n twoth wedge) twoth wedge / (2 * Real.sin (twoth / 2)) := by
      rw [hp, ha]; field_simp
    have hq' : Real.sin ω * n 0 + Real.cos ω * n 1 =
        (-(Real.sin twoth)) * (Real.sin η) / (2 * Real.sin (twoth / 2)) := by
      rw [hqη, hb]; field_simp
    exact wedgeOm_unique hr h1 h2 a1 a2 a3 hp' hq' hP
  -- choose the sign of `η`
  have hsa : Real.sin (Real.arccos (wedgeCe n twoth wedge)) ^ 2 = 1 - wedgeCe n twoth wedge ^ 2 := by
    rw [Real.sin_arccos, Real.sq_sqrt hnn]
  have hsq : (Real.sin ω * n 0 + Real.cos ω * n 1) ^ 2 =
      (Real.cos (twoth / 2) * Real.sin (Real.arccos (wedgeCe n twoth wedge))) ^ 2 := by
    rw [hq, mul_pow, hsa]
  rcases sq_eq_sq_iff_eq_or_eq_neg.mp hsq with e | e
  · right
    apply key _ (by rw [Real.cos_neg, hc1])
    rw [e, Real.sin_neg]; ring
  · left
    apply key _ hc1
    rw [e]; ring

/-- Completeness of `Tools.find_omega_wedge` (clause 3 of C09), same shape as `general_complete`, for the
vector `gs = sin θ · g/|g|` (`C09.lscale`; the code normalises `g`) and the rotation `Ry(-wedge) · Rz(ω)` of
`wedge_sound`: every `ω ∈ (-π, π]` that brings `gs` into diffraction position (`(Ry(-wedge) Rz(ω) gs)₀ = -gs·gs`)
is among the returned omegas; if such an `ω` exists exactly two (possibly coinciding) solutions are returned,
otherwise none; and the empty branch `|coseta| > 1` is taken exactly when no such `ω` exists.
Guards: those of `wedge_sound` (`g ≠ 0`, `0 < sin θ`, `sin 2θ ≠ 0`, `cos wedge ≠ 0`, the code's `a ≠ 0`);
nothing is added.  No boundary is excluded: at the tangent case `|coseta| = 1` the code (test `|coseta| > 1`)
returns the double root twice, so the statement holds there too (contrast `plain_tangent_gap`). -/
theorem wedge_complete (g : Fin 3 → ℝ) (twoth wedge : ℝ) (oms ets : List ℝ)
    (hg : g ⬝ᵥ g ≠ 0) (hpos : 0 < Real.sin (twoth / 2)) (hs : Real.sin twoth ≠ 0)
    (hcw : Real.cos wedge ≠ 0)
    (ha0 : wedgeA (wedgeCe ((Real.sqrt (g ⬝ᵥ g))⁻¹ • g) twoth wedge) twoth wedge ≠ 0)
    (h : Tools.find_omega_wedge g twoth wedge = (oms, ets)) :
    (∀ ω, -Real.pi < ω → ω ≤ Real.pi →
      ((Spec.Ry (-wedge) * Spec.Rz ω) *ᵥ lscale g twoth) 0 = -(lscale g twoth ⬝ᵥ lscale g twoth) → ω ∈ oms) ∧
    ((∃ ω, ((Spec.Ry (-wedge) * Spec.Rz ω) *ᵥ lscale g twoth) 0 = -(lscale g twoth ⬝ᵥ lscale g twoth)) →
      oms.length = 2 ∧ ets.length = 2) ∧
    ((¬ ∃ ω, ((Spec.Ry (-wedge) * Spec.Rz ω) *ᵥ lscale g twoth) 0 = -(lscale g twoth ⬝ᵥ lscale g twoth)) →
      oms = [] ∧ ets = []) ∧
    (|wedgeCe ((Real.sqrt (g ⬝ᵥ g))⁻¹ • g) twoth wedge| > 1 ↔
      ¬ ∃ ω, ((Spec.Ry (-wedge) * Spec.Rz ω) *ᵥ lscale g twoth) 0 = -(lscale g twoth ⬝ᵥ lscale g twoth)) := by
  rw [Tools_wedge_unfold] at h
  rw [lscale_norm g twoth hg, lscale_eq_smul_unit]
  have hn := unit_norm g hg
  -- a solution forces `|coseta| ≤ 1`
  have hfwd : ∀ ω, ((Spec.Ry (-wedge) * Spec.Rz ω) *ᵥ (Real.sin (twoth / 2) • ((Real.sqrt (g ⬝ᵥ g))⁻¹ • g))) 0 =
      -Real.sin (twoth / 2) ^ 2 → |wedgeCe ((Real.sqrt (g ⬝ᵥ g))⁻¹ • g) twoth wedge| ≤ 1 :=
    fun ω hω => (wedge_core_complete hn hpos hs hcw hω).1
  -- `|coseta| ≤ 1` gives a solution (soundness)
  have hbwd : |wedgeCe ((Real.sqrt (g ⬝ᵥ g))⁻¹ • g) twoth wedge| ≤ 1 →
      ∃ ω, ((Spec.Ry (-wedge) * Spec.Rz ω) *ᵥ (Real.sin (twoth / 2) • ((Real.sqrt (g ⬝ᵥ g))⁻¹ • g))) 0 =
        -Real.sin (twoth / 2) ^ 2 := by
    intro hle
    have hle' := abs_le.mp hle
    exact ⟨_, (wedge_core hn hpos hs hcw (Real.cos_arccos hle'.1 hle'.2) ha0).1⟩
  split_ifs at h with hce
  · simp only [Prod.mk.injEq] at h
    obtain ⟨rfl, rfl⟩ := h
    have hno : ¬ ∃ ω, ((Spec.Ry (-wedge) * Spec.Rz ω) *ᵥ
        (Real.sin (twoth / 2) • ((Real.sqrt (g ⬝ᵥ g))⁻¹ • g))) 0 = -Real.sin (twoth / 2) ^ 2 :=
      fun ⟨ω, hω⟩ => absurd (hfwd ω hω) (not_le.mpr hce)
    refine ⟨?_, ?_, ?_, ?_⟩
    · intro ω _ _ hω; exact absurd ⟨ω, hω⟩ hno
    · intro he; exact absurd he hno
    · intro _; exact ⟨rfl, rfl⟩
    · exact ⟨fun _ => hno, fun _ => hce⟩
  · simp only [Prod.mk.injEq] at h
    obtain ⟨rfl, rfl⟩ := h
    have hex := hbwd (not_lt.mp hce)
    refine ⟨?_, ?_, ?_, ?_⟩
    · intro ω h1 h2 hω
      rcases (wedge_core_complete hn hpos hs hcw hω).2 h1 h2 ha0 with e | e
      · rw [e]; exact List.mem_cons_self
      · rw [e]; exact List.mem_cons_of_mem _ List.mem_cons_self
    · intro _; exact ⟨rfl, rfl⟩
    · intro hno; exact absurd hex hno
    · exact ⟨fun hgt => absurd hgt hce, fun hno => absurd hex hno⟩

/-- Completeness of `Laue.find_omega_wedge` (clause 3 of C09, laue.py): identical code to tools.py. -/
theorem laue_wedge_complete (g : Fin 3 → ℝ) (twoth wedge : ℝ) (oms ets : List ℝ)
    (hg : g ⬝ᵥ g ≠ 0) (hpos : 0 < Real.sin (twoth / 2)) (hs : Real.sin twoth ≠ 0)
    (hcw : Real.cos wedge ≠ 0)
    (ha0 : wedgeA (wedgeCe ((Real.sqrt (g ⬝ᵥ g))⁻¹ • g) twoth wedge) twoth wedge ≠ 0)
    (h : Laue.find_omega_wedge g twoth wedge = (oms, ets)) :
    (∀ ω, -Real.pi < ω → ω ≤ Real.pi →
      ((Spec.Ry (-wedge) * Spec.Rz ω) *ᵥ lscale g twoth) 0 = -(lscale g twoth ⬝ᵥ lscale g twoth) → ω ∈ oms) ∧
    ((∃ ω, ((Spec.Ry (-wedge) * Spec.Rz ω) *ᵥ lscale g twoth) 0 = -(lscale g twoth ⬝ᵥ lscale g twoth)) →
      oms.length = 2 ∧ ets.length = 2) ∧
    ((¬ ∃ ω, ((Spec.Ry (-wedge) * Spec.Rz ω) *ᵥ lscale g twoth) 0 = -(lscale g twoth ⬝ᵥ lscale g twoth)) →
      oms = [] ∧ ets = []) ∧
    (|wedgeCe ((Real.sqrt (g ⬝ᵥ g))⁻¹ • g) twoth wedge| > 1 ↔
      ¬ ∃ ω, ((Spec.Ry (-wedge) * Spec.Rz ω) *ᵥ lscale g twoth) 0 = -(lscale g twoth ⬝ᵥ lscale g twoth)) := by
  rw [Laue_wedge_eq] at h
  exact wedge_complete g twoth wedge oms ets hg hpos hs hcw ha0 h

/-! ### the hypotheses are satisfiable on a concrete input -/

/-- `wedge_complete` is not vacuous: `g = (1, 0, 0)`, `2θ = π/2`, `wedge = 0` satisfies all its guards
(`coseta = 0`, `a = -1`) and the solver returns two solutions. -/
example : ∃ (g : Fin 3 → ℝ) (twoth wedge : ℝ),
    g ⬝ᵥ g ≠ 0 ∧ 0 < Real.sin (twoth / 2) ∧ Real.sin twoth ≠ 0 ∧ Real.cos wedge ≠ 0 ∧
    wedgeA (wedgeCe ((Real.sqrt (g ⬝ᵥ g))⁻¹ • g) twoth wedge) twoth wedge ≠ 0 ∧
    ∃ oms ets : List ℝ, Tools.find_omega_wedge g twoth wedge = (oms, ets) ∧ oms.length = 2 ∧
      ∃ ω, ((Spec.Ry (-wedge) * Spec.Rz ω) *ᵥ lscale g twoth) 0 = -(lscale g twoth ⬝ᵥ lscale g twoth) := by
  have hgg : (![1, 0, 0] : Fin 3 → ℝ) ⬝ᵥ ![1, 0, 0] = 1 := by simp [dotProduct, Fin.sum_univ_three]
  have hg : (![1, 0, 0] : Fin 3 → ℝ) ⬝ᵥ ![1, 0, 0] ≠ 0 := by rw [hgg]; norm_num
  have hpos : 0 < Real.sin (Real.pi / 2 / 2) := by
    apply Real.sin_pos_of_pos_of_lt_pi <;> linarith [Real.pi_pos]
  have hs : Real.sin (Real.pi / 2) ≠ 0 := by simp
  have hcw : Real.cos (0 : ℝ) ≠ 0 := by simp
  have hce : wedgeCe ((Real.sqrt ((![1, 0, 0] : Fin 3 → ℝ) ⬝ᵥ ![1, 0, 0]))⁻¹ • ![1, 0, 0]) (Real.pi / 2) 0 = 0 := by
    rw [hgg]; simp [wedgeCe]
  have ha0 : wedgeA (wedgeCe ((Real.sqrt ((![1, 0, 0] : Fin 3 → ℝ) ⬝ᵥ ![1, 0, 0]))⁻¹ • ![1, 0, 0]) (Real.pi / 2) 0)
      (Real.pi / 2) 0 ≠ 0 := by
    rw [hce]; simp [wedgeA]
  have hngt : ¬ (|wedgeCe ((Real.sqrt ((![1, 0, 0] : Fin 3 → ℝ) ⬝ᵥ ![1, 0, 0]))⁻¹ • ![1, 0, 0]) (Real.pi / 2) 0| > 1) := by
    rw [hce]; simp
  refine ⟨![1, 0, 0], Real.pi / 2, 0, hg, hpos, hs, hcw, ha0, ?_⟩
  obtain ⟨oms, ets, h⟩ : ∃ oms ets, Tools.find_omega_wedge ![1, 0, 0] (Real.pi / 2) 0 = (oms, ets) := ⟨_, _, rfl⟩
  obtain ⟨_, c2, _, c4⟩ := wedge_complete _ _ _ oms ets hg hpos hs hcw ha0 h
  have hex := not_not.mp (fun hno => hngt (c4.mpr hno))
  exact ⟨oms, ets, h, (c2 hex).1, hex⟩

end C09

#print axioms C09.laue_quart_complete
#print axioms C09.laue_plain_complete
#print axioms C09.wedge_complete
#print axioms C09.laue_wedge_complete
