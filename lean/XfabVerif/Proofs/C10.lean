/-
Property C10 (xfab/detector.py): det_coor (from the g-vector) and det_coor2 (from 2theta, eta) give the
same pixel when they describe the same scattered ray, and detector_to_lab maps that pixel back to a
laboratory point on the ray  grain position + t * (cos 2θ, -sin 2θ sin η, sin 2θ cos η).
-/
import XfabVerif.Gen.DetectorReal
import XfabVerif.Gen.ToolsReal
import XfabVerif.Spec.Basic

set_option linter.unusedVariables false
set_option linter.style.longLine false
noncomputable section
open Matrix

namespace C10

/-- scalar form of `R * Rᵀ = 1` -/
private lemma row_orth {R : Matrix (Fin 3) (Fin 3) ℝ} (h : R * Rᵀ = 1) (i j : Fin 3) :
    R i 0 * R j 0 + R i 1 * R j 1 + R i 2 * R j 2 = if i = j then 1 else 0 := by
  have := congrFun (congrFun h i) j
  simpa [Matrix.mul_apply, Fin.sum_univ_three, Matrix.transpose_apply, Matrix.one_apply] using this

/-- core algebra: a vector `w` with no component along the detector normal `R[:,0]` is recovered from its
two in-plane components `R[:,1]·w`, `R[:,2]·w`. -/
private lemma plane_recover {R : Matrix (Fin 3) (Fin 3) ℝ} (h : R * Rᵀ = 1) (w0 w1 w2 : ℝ)
    (hw : R 0 0 * w0 + R 1 0 * w1 + R 2 0 * w2 = 0) (i : Fin 3) :
    R i 1 * (R 0 1 * w0 + R 1 1 * w1 + R 2 1 * w2) + R i 2 * (R 0 2 * w0 + R 1 2 * w1 + R 2 2 * w2)
      = ![w0, w1, w2] i := by
  have e0 := row_orth h i 0
  have e1 := row_orth h i 1
  have e2 := row_orth h i 2
  fin_cases i <;> simp at e0 e1 e2 ⊢
  · linear_combination (-(R 0 0)) * hw + w0 * e0 + w1 * e1 + w2 * e2
  · linear_combination (-(R 1 0)) * hw + w0 * e0 + w1 * e1 + w2 * e2
  · linear_combination (-(R 2 0)) * hw + w0 * e0 + w1 * e1 + w2 * e2

end C10

open C10

/-- C10, clause "det_coor and det_coor2 give the same pixel when they describe the same scattered ray":
if the y,z components of the g-vector are those of the ray (2θ, η) and `costth = cos 2θ`, the two functions agree. -/
theorem det_coor_eq_det_coor2 (Gt : Fin 3 → ℝ) (costth wavelength tth eta distance y_size z_size
    dety_center detz_center : ℝ) (R_tilt : Matrix (Fin 3) (Fin 3) ℝ) (tx ty tz : ℝ)
    (hlam : wavelength ≠ 0)
    (h1 : Gt 1 = -(2 * Real.pi / wavelength) * Real.sin tth * Real.sin eta)
    (h2 : Gt 2 = (2 * Real.pi / wavelength) * Real.sin tth * Real.cos eta)
    (hc : costth = Real.cos tth) :
    Detector.det_coor Gt costth wavelength distance y_size z_size dety_center detz_center R_tilt tx ty tz
      = Detector.det_coor2 tth eta distance y_size z_size dety_center detz_center R_tilt tx ty tz := by
  have hpi : Real.pi ≠ 0 := Real.pi_ne_zero
  -- the ray direction rebuilt from the g-vector, in whatever association the source writes it: every form is `ring_nf`-equal to these
  have e1 : Gt 1 * wavelength * (2 * Real.pi)⁻¹ = -Real.sin tth * Real.sin eta := by
    rw [h1]; field_simp
  have e2 : Gt 2 * wavelength * (2 * Real.pi)⁻¹ = Real.sin tth * Real.cos eta := by
    rw [h2]; field_simp
  -- name the two components so that both sides become the same rational function of the same atoms
  obtain ⟨a1, ha1⟩ : ∃ a1, a1 = -Real.sin tth * Real.sin eta := ⟨_, rfl⟩
  obtain ⟨a2, ha2⟩ : ∃ a2, a2 = Real.sin tth * Real.cos eta := ⟨_, rfl⟩
  have g1 : Gt 1 = a1 * (2 * Real.pi) / wavelength := by
    rw [ha1, h1]; field_simp
  have g2 : Gt 2 = a2 * (2 * Real.pi) / wavelength := by
    rw [ha2, h2]; field_simp
  have k1 : ∀ x : ℝ, x = -Real.sin tth * Real.sin eta ↔ x = a1 := fun x => by rw [ha1]
  simp only [Detector.det_coor, Detector.det_coor2, hc, g1, g2]
  rw [← ha1, ← ha2]
  ext i
  fin_cases i <;>
    simp [dotProduct, Fin.sum_univ_three, Matrix.vecMul, Matrix.mulVec] <;>
    field_simp <;> ring

/-- C10, auxiliary clause: `det_v` returns the scattered-ray direction `(costth, λ/(2π) Gt₁, λ/(2π) Gt₂)`. -/
theorem det_v_eq (Gt : Fin 3 → ℝ) (costth wavelength distance y_size z_size dety_center detz_center : ℝ)
    (R_tilt : Matrix (Fin 3) (Fin 3) ℝ) (tx ty tz : ℝ) :
    Detector.det_v Gt costth wavelength distance y_size z_size dety_center detz_center R_tilt tx ty tz
      = ![costth, wavelength / (2 * Real.pi) * Gt 1, wavelength / (2 * Real.pi) * Gt 2] := by
  ext i
  fin_cases i <;> simp [Detector.det_v] <;> first | done | ring

/-- C10, clause "mapping that pixel back with detector_to_lab gives a laboratory point on the ray that
starts at the grain position and runs along (cos 2θ, -sin 2θ sin η, sin 2θ cos η)"; the ray parameter `t`
is the one the code computes. -/
theorem pixel_on_ray (tth eta L y_size z_size yc zc : ℝ) (R : Matrix (Fin 3) (Fin 3) ℝ) (tx ty tz : ℝ)
    (hR : Rᵀ * R = 1) (hy : y_size ≠ 0) (hz : z_size ≠ 0)
    (hD : (∑ i, R i 0 * ![Real.cos tth, -Real.sin tth * Real.sin eta, Real.sin tth * Real.cos eta] i) ≠ 0) :
    let p := Detector.det_coor2 tth eta L y_size z_size yc zc R tx ty tz
    let v : Fin 3 → ℝ := ![Real.cos tth, -Real.sin tth * Real.sin eta, Real.sin tth * Real.cos eta]
    let t : ℝ := (R 0 0 * L - ∑ i, R i 0 * ![tx, ty, tz] i) / (∑ i, R i 0 * v i)
    Detector.detector_to_lab (p 0) (p 1) L y_size z_size yc zc R = ![tx, ty, tz] + t • v := by
  intro p v t
  have hR' : R * Rᵀ = 1 := mul_eq_one_comm.mp hR
  -- the denominator and the defining relation of t
  set D : ℝ := R 0 0 * Real.cos tth + R 1 0 * (-Real.sin tth * Real.sin eta)
      + R 2 0 * (Real.sin tth * Real.cos eta) with hDdef
  have hD' : D ≠ 0 := by
    simpa [Fin.sum_univ_three, hDdef] using hD
  have ht : t = (R 0 0 * L - (R 0 0 * tx + R 1 0 * ty + R 2 0 * tz)) / D := by
    simp [t, v, Fin.sum_univ_three, hDdef]
  have htD : t * D = R 0 0 * L - (R 0 0 * tx + R 1 0 * ty + R 2 0 * tz) := by
    rw [ht]; exact div_mul_cancel₀ _ hD'
  -- the point relative to the detector origin
  set w0 : ℝ := (tx - L) + t * Real.cos tth with hw0
  set w1 : ℝ := ty + t * (-Real.sin tth * Real.sin eta) with hw1
  set w2 : ℝ := tz + t * (Real.sin tth * Real.cos eta) with hw2
  have hw : R 0 0 * w0 + R 1 0 * w1 + R 2 0 * w2 = 0 := by
    rw [hw0, hw1, hw2]; linear_combination htD
  -- closed form of the two pixel coordinates, whatever vector notation the generated definition uses
  have hp0 : p 0 = (R 0 1 * w0 + R 1 1 * w1 + R 2 1 * w2) / y_size + yc := by
    simp only [p, Detector.det_coor2]
    simp [dotProduct, Fin.sum_univ_three, Matrix.mulVec, Matrix.vecMul, hw0, hw1, hw2, ht, hDdef, hy] <;> ring
  have hp1 : p 1 = (R 0 2 * w0 + R 1 2 * w1 + R 2 2 * w2) / z_size + zc := by
    simp only [p, Detector.det_coor2]
    simp [dotProduct, Fin.sum_univ_three, Matrix.mulVec, Matrix.vecMul, hw0, hw1, hw2, ht, hDdef, hz] <;> ring
  have hy' : y_size * (p 0 - yc) = R 0 1 * w0 + R 1 1 * w1 + R 2 1 * w2 := by
    rw [hp0]; field_simp; ring
  have hz' : z_size * (p 1 - zc) = R 0 2 * w0 + R 1 2 * w1 + R 2 2 * w2 := by
    rw [hp1]; field_simp; ring
  have r0 := plane_recover hR' w0 w1 w2 hw 0
  have r1 := plane_recover hR' w0 w1 w2 hw 1
  have r2 := plane_recover hR' w0 w1 w2 hw 2
  simp at r0 r1 r2
  -- closed form of detector_to_lab (any vector notation), then the three components by linear arithmetic
  have hlab : Detector.detector_to_lab (p 0) (p 1) L y_size z_size yc zc R =
      ![L + (R 0 1 * (y_size * (p 0 - yc)) + R 0 2 * (z_size * (p 1 - zc))),
        R 1 1 * (y_size * (p 0 - yc)) + R 1 2 * (z_size * (p 1 - zc)),
        R 2 1 * (y_size * (p 0 - yc)) + R 2 2 * (z_size * (p 1 - zc))] := by
    simp only [Detector.detector_to_lab]
    ext i
    fin_cases i <;> simp [Matrix.mulVec, Matrix.vecMul, dotProduct, Fin.sum_univ_three, Matrix.mul_apply] <;> ring
  rw [hlab, hy', hz']
  ext i
  fin_cases i
  · simp [v]
    linear_combination r0 + hw0
  · simp [v]
    linear_combination r1 + hw1
  · simp [v]
    linear_combination r2 + hw2

/-- `detect_tilt` is the product Rx·Ry·Rz of the elementary rotations. -/
theorem detect_tilt_eq (a b c : ℝ) : Tools.detect_tilt a b c = Spec.Rx a * (Spec.Ry b * Spec.Rz c) := by
  ext i j; fin_cases i <;> fin_cases j <;>
    simp [Tools.detect_tilt, Tools.form_omega_mat, Spec.Rx, Spec.Ry, Spec.Rz, Matrix.mul_apply, Fin.sum_univ_three] <;>
    first | done | ring

/-- The tilt matrices built by `tools.detect_tilt` are proper rotations. -/
theorem detect_tilt_isRot (a b c : ℝ) : Spec.IsRot (Tools.detect_tilt a b c) := by
  rw [detect_tilt_eq]
  exact (Spec.Rx_isRot a).mul ((Spec.Ry_isRot b).mul (Spec.Rz_isRot c))

/-- C10 applies to the library's tilt matrices: `detect_tilt` is orthonormal. -/
theorem detect_tilt_orthonormal (a b c : ℝ) :
    (Tools.detect_tilt a b c)ᵀ * Tools.detect_tilt a b c = 1 :=
  (detect_tilt_isRot a b c).1

/-- C10 combined: the pixel computed by `det_coor` from a g-vector describing the ray (2θ, η) maps back, with
`detector_to_lab`, onto the ray from the grain position along (cos 2θ, -sin 2θ sin η, sin 2θ cos η). -/
theorem det_coor_pixel_on_ray (Gt : Fin 3 → ℝ) (costth wavelength tth eta L y_size z_size yc zc : ℝ)
    (R : Matrix (Fin 3) (Fin 3) ℝ) (tx ty tz : ℝ)
    (hlam : wavelength ≠ 0)
    (h1 : Gt 1 = -(2 * Real.pi / wavelength) * Real.sin tth * Real.sin eta)
    (h2 : Gt 2 = (2 * Real.pi / wavelength) * Real.sin tth * Real.cos eta)
    (hc : costth = Real.cos tth)
    (hR : Rᵀ * R = 1) (hy : y_size ≠ 0) (hz : z_size ≠ 0)
    (hD : (∑ i, R i 0 * ![Real.cos tth, -Real.sin tth * Real.sin eta, Real.sin tth * Real.cos eta] i) ≠ 0) :
    let p := Detector.det_coor Gt costth wavelength L y_size z_size yc zc R tx ty tz
    let v : Fin 3 → ℝ := ![Real.cos tth, -Real.sin tth * Real.sin eta, Real.sin tth * Real.cos eta]
    let t : ℝ := (R 0 0 * L - ∑ i, R i 0 * ![tx, ty, tz] i) / (∑ i, R i 0 * v i)
    Detector.detector_to_lab (p 0) (p 1) L y_size z_size yc zc R = ![tx, ty, tz] + t • v := by
  intro p v t
  have hp : p = Detector.det_coor2 tth eta L y_size z_size yc zc R tx ty tz :=
    det_coor_eq_det_coor2 Gt costth wavelength tth eta L y_size z_size yc zc R tx ty tz hlam h1 h2 hc
  rw [hp]
  exact pixel_on_ray tth eta L y_size z_size yc zc R tx ty tz hR hy hz hD

/-- The hypotheses of `det_coor_eq_det_coor2` / `pixel_on_ray` are satisfiable on a non-trivial input:
tilt `detect_tilt 0 0 0.3` (a genuine library tilt matrix), 2θ = π/3, η = 0, λ = 1/2, grain at (1,-2,3),
L = 1000, pixel sizes 2 and 3; the denominator is `cos 0.3 * cos (π/3) = cos 0.3 / 2 > 0`. -/
example :
    let R := Tools.detect_tilt 0 0 0.3
    let tth := Real.pi / 3
    let eta : ℝ := 0
    let lam : ℝ := 1 / 2
    let Gt : Fin 3 → ℝ := ![7, -(2 * Real.pi / lam) * Real.sin tth * Real.sin eta,
                              (2 * Real.pi / lam) * Real.sin tth * Real.cos eta]
    (lam ≠ 0 ∧ Gt 1 = -(2 * Real.pi / lam) * Real.sin tth * Real.sin eta
      ∧ Gt 2 = (2 * Real.pi / lam) * Real.sin tth * Real.cos eta) ∧ Rᵀ * R = 1 ∧ (2 : ℝ) ≠ 0 ∧ (3 : ℝ) ≠ 0
      ∧ (∑ i, R i 0 * ![Real.cos tth, -Real.sin tth * Real.sin eta, Real.sin tth * Real.cos eta] i) ≠ 0 := by
  intro R tth eta lam Gt
  refine ⟨⟨by norm_num [lam], by simp [Gt], by simp [Gt]⟩, detect_tilt_orthonormal 0 0 0.3, by norm_num,
    by norm_num, ?_⟩
  have hc : 0 < Real.cos (0.3 : ℝ) := by
    apply Real.cos_pos_of_mem_Ioo
    constructor <;> linarith [Real.two_le_pi]
  have : (∑ i, R i 0 * ![Real.cos tth, -Real.sin tth * Real.sin eta, Real.sin tth * Real.cos eta] i)
      = Real.cos 0.3 * (1 / 2) := by
    rw [show R = Spec.Rx 0 * (Spec.Ry 0 * Spec.Rz 0.3) from detect_tilt_eq 0 0 0.3]
    simp [tth, eta, Spec.Rx, Spec.Ry, Spec.Rz, Matrix.mul_apply, Fin.sum_univ_three]
  rw [this]
  positivity

end
