/-
Property C11, image part (xfab/detector.py: trans_orientation, image_flipping, and the integer behaviour of
xy_to_detyz / detyz_to_xy), about the hand model XfabVerif/Model/Flip.lean (run against numpy and the real
functions on every check by harness/props/c11.py through lean/FlipDriver.lean).

* `valid_iff`          of the 81 matrices over {-1,0,1}⁴ exactly the eight listed ones are accepted, by each of the
                       four functions
* `trans_inverse`, `trans_inverse_rev`, `flip_inverse`, `flip_inverse_rev`
                       'inverse' mode undoes 'forward' mode (and conversely), every shape, every image
* `pixel_map_agrees`   trans_orientation stores raw pixel (x, y) at the index xy_to_detyz((x, y)) computes, with
                       dety_size = img.shape[1], detz_size = img.shape[0]
* `xy_to_detyz_int_<o>` / `detyz_to_xy_int_<o>`   closed forms of the integer model (mirror `xy_to_detyz_<o>_eq`,
                       `detyz_to_xy_<o>_eq` of Proofs/C11Real.lean, which are about the traced ℝ functions)
* `xy_to_detyz_cast_<o>` / `detyz_to_xy_cast_<o>`   the traced ℝ function `Detector.xy_to_detyz_<o>` of
                       Gen/DetectorReal.lean evaluated at integer points IS the integer model (cast lemma), for all
                       integer sizes
* `coor_inverse_int`   the two integer maps are mutual inverses (the ℝ statement is in C11Real)

The mutual-inverse theorems over ℝ and the (eta, radius) conversions are in XfabVerif/Proofs/C11Real.lean.
-/
import XfabVerif.Model.Flip
import XfabVerif.Gen.DetectorReal

set_option linter.unusedVariables false
set_option linter.style.longLine false
set_option linter.unusedSimpArgs false
set_option linter.unusedTactic false
set_option linter.unreachableTactic false
set_option linter.unnecessarySeqFocus false

open Flip

namespace C11Img

variable {α : Type}

theorem px_congr (img : Img α) {a b c d : Nat} (h1 : a = c) (h2 : b = d) : img.px a b = img.px c d := by
  subst h1; subst h2; rfl

/-- the orientation test of trans_orientation is the shared one -/
theorem transOrientation_isOk (img : Img α) (d : Dir) (o11 o12 o21 o22 : Int) :
    isOk (transOrientation img o11 o12 o21 o22 d) = isOk (coorCheck o11 o12 o21 o22) := by
  unfold transOrientation coorCheck
  split <;> (try split) <;> (try split) <;> rfl

/-- the orientation test of image_flipping is the shared one -/
theorem imageFlipping_isOk (img : Img α) (d : Dir) (o11 o12 o21 o22 : Int) :
    isOk (imageFlipping img o11 o12 o21 o22 d) = isOk (coorCheck o11 o12 o21 o22) := by
  unfold imageFlipping coorCheck
  split <;> (try split) <;> (try split) <;> rfl

theorem xyToDetyz_isOk (o11 o12 o21 o22 sy sz x y : Int) :
    isOk (xyToDetyz o11 o12 o21 o22 sy sz x y) = isOk (coorCheck o11 o12 o21 o22) := by
  unfold xyToDetyz
  split <;> simp_all [isOk]

theorem detyzToXy_isOk (o11 o12 o21 o22 sy sz x y : Int) :
    isOk (detyzToXy o11 o12 o21 o22 sy sz x y) = isOk (coorCheck o11 o12 o21 o22) := by
  unfold detyzToXy
  split <;> simp_all [isOk]

/-- the 81 matrices, decided one by one -/
theorem coorCheck_listed : ∀ o11 ∈ ([-1, 0, 1] : List Int), ∀ o12 ∈ ([-1, 0, 1] : List Int),
    ∀ o21 ∈ ([-1, 0, 1] : List Int), ∀ o22 ∈ ([-1, 0, 1] : List Int),
    isOk (coorCheck o11 o12 o21 o22) = isListed o11 o12 o21 o22 := by
  decide

end C11Img

open C11Img

/-- C11 (acceptance): for every matrix with entries in {-1,0,1} (81 matrices), every image, direction, sizes and
coordinates, each of trans_orientation, image_flipping, xy_to_detyz, detyz_to_xy returns normally iff the matrix is one
of the eight listed orientations, and raises ValueError for the other 73. -/
theorem valid_iff {α : Type} (img : Img α) (d : Dir) (sy sz p q : Int) :
    ∀ o11 ∈ ([-1, 0, 1] : List Int), ∀ o12 ∈ ([-1, 0, 1] : List Int),
    ∀ o21 ∈ ([-1, 0, 1] : List Int), ∀ o22 ∈ ([-1, 0, 1] : List Int),
      isOk (transOrientation img o11 o12 o21 o22 d) = isListed o11 o12 o21 o22 ∧
      isOk (imageFlipping img o11 o12 o21 o22 d) = isListed o11 o12 o21 o22 ∧
      isOk (xyToDetyz o11 o12 o21 o22 sy sz p q) = isListed o11 o12 o21 o22 ∧
      isOk (detyzToXy o11 o12 o21 o22 sy sz p q) = isListed o11 o12 o21 o22 := by
  intro o11 h11 o12 h12 o21 h21 o22 h22
  rw [transOrientation_isOk, imageFlipping_isOk, xyToDetyz_isOk, detyzToXy_isOk]
  have := coorCheck_listed o11 h11 o12 h12 o21 h21 o22 h22
  exact ⟨this, this, this, this⟩

/-- C11 (acceptance): exactly 8 of the 81 matrices are accepted. -/
theorem valid_count :
    ((([-1, 0, 1] : List Int).flatMap fun a => ([-1, 0, 1] : List Int).flatMap fun b =>
      ([-1, 0, 1] : List Int).flatMap fun c => ([-1, 0, 1] : List Int).map fun d => (a, b, c, d)).filter
        fun o => isOk (coorCheck o.1 o.2.1 o.2.2.1 o.2.2.2)).length = 8 := by
  decide

/-- C11 (round trip): for each of the eight orientations, every shape and every image,
`trans_orientation(trans_orientation(img, o, 'forward'), o, 'inverse') == img` (same shape, same pixels). -/
theorem trans_inverse {α : Type} (img : Img α) : ∀ o ∈ validOrientations, ∃ t b,
    transOrientation img o.1 o.2.1 o.2.2.1 o.2.2.2 .forward = .ok t ∧
    transOrientation t o.1 o.2.1 o.2.2.1 o.2.2.2 .inverse = .ok b ∧ b.Eqv img := by
  intro o ho
  simp only [validOrientations, List.mem_cons, List.mem_nil_iff, or_false] at ho
  rcases ho with rfl | rfl | rfl | rfl | rfl | rfl | rfl | rfl <;>
    (refine ⟨_, _, rfl, rfl, rfl, rfl, ?_⟩
     intro i j hi hj
     simp [Img.transpose, Img.fliplr, Img.flipud] at hi hj ⊢ <;> (apply px_congr <;> omega))

/-- C11 (round trip, other order): `trans_orientation(trans_orientation(img, o, 'inverse'), o, 'forward') == img`. -/
theorem trans_inverse_rev {α : Type} (img : Img α) : ∀ o ∈ validOrientations, ∃ t b,
    transOrientation img o.1 o.2.1 o.2.2.1 o.2.2.2 .inverse = .ok t ∧
    transOrientation t o.1 o.2.1 o.2.2.1 o.2.2.2 .forward = .ok b ∧ b.Eqv img := by
  intro o ho
  simp only [validOrientations, List.mem_cons, List.mem_nil_iff, or_false] at ho
  rcases ho with rfl | rfl | rfl | rfl | rfl | rfl | rfl | rfl <;>
    (refine ⟨_, _, rfl, rfl, rfl, rfl, ?_⟩
     intro i j hi hj
     simp [Img.transpose, Img.fliplr, Img.flipud] at hi hj ⊢ <;> (apply px_congr <;> omega))

/-- C11 (round trip): `image_flipping(image_flipping(img, o, 'forward'), o, 'inverse') == img`. -/
theorem flip_inverse {α : Type} (img : Img α) : ∀ o ∈ validOrientations, ∃ t b,
    imageFlipping img o.1 o.2.1 o.2.2.1 o.2.2.2 .forward = .ok t ∧
    imageFlipping t o.1 o.2.1 o.2.2.1 o.2.2.2 .inverse = .ok b ∧ b.Eqv img := by
  intro o ho
  simp only [validOrientations, List.mem_cons, List.mem_nil_iff, or_false] at ho
  rcases ho with rfl | rfl | rfl | rfl | rfl | rfl | rfl | rfl <;>
    (refine ⟨_, _, rfl, rfl, rfl, rfl, ?_⟩
     intro i j hi hj
     simp [Img.transpose, Img.fliplr, Img.flipud] at hi hj ⊢ <;> (apply px_congr <;> omega))

/-- C11 (round trip, other order): `image_flipping(image_flipping(img, o, 'inverse'), o, 'forward') == img`. -/
theorem flip_inverse_rev {α : Type} (img : Img α) : ∀ o ∈ validOrientations, ∃ t b,
    imageFlipping img o.1 o.2.1 o.2.2.1 o.2.2.2 .inverse = .ok t ∧
    imageFlipping t o.1 o.2.1 o.2.2.1 o.2.2.2 .forward = .ok b ∧ b.Eqv img := by
  intro o ho
  simp only [validOrientations, List.mem_cons, List.mem_nil_iff, or_false] at ho
  rcases ho with rfl | rfl | rfl | rfl | rfl | rfl | rfl | rfl <;>
    (refine ⟨_, _, rfl, rfl, rfl, rfl, ?_⟩
     intro i j hi hj
     simp [Img.transpose, Img.fliplr, Img.flipud] at hi hj ⊢ <;> (apply px_congr <;> omega))

/-! ### Closed forms of the integer coordinate maps for image sizes ≥ 1
(each mirrors the theorem of the same stem in Proofs/C11Real.lean: `xy_to_detyz_<o>_eq`, `detyz_to_xy_<o>_eq`) -/

/-- mirrors `xy_to_detyz_pzzp_eq` -/
theorem xy_to_detyz_int_pzzp (sy sz x y : Int) (hy : 1 ≤ sy) (hz : 1 ≤ sz) :
    xyToDetyz 1 0 0 1 sy sz x y = .ok (y, x) := by
  simp [xyToDetyz, coorCheck, clip]; omega
/-- mirrors `xy_to_detyz_mzzp_eq` -/
theorem xy_to_detyz_int_mzzp (sy sz x y : Int) (hy : 1 ≤ sy) (hz : 1 ≤ sz) :
    xyToDetyz (-1) 0 0 1 sy sz x y = .ok (y, -x + (sz - 1)) := by
  simp [xyToDetyz, coorCheck, clip]; omega
/-- mirrors `xy_to_detyz_pzzm_eq` -/
theorem xy_to_detyz_int_pzzm (sy sz x y : Int) (hy : 1 ≤ sy) (hz : 1 ≤ sz) :
    xyToDetyz 1 0 0 (-1) sy sz x y = .ok (-y + (sy - 1), x) := by
  simp [xyToDetyz, coorCheck, clip]; omega
/-- mirrors `xy_to_detyz_mzzm_eq` -/
theorem xy_to_detyz_int_mzzm (sy sz x y : Int) (hy : 1 ≤ sy) (hz : 1 ≤ sz) :
    xyToDetyz (-1) 0 0 (-1) sy sz x y = .ok (-y + (sy - 1), -x + (sz - 1)) := by
  simp [xyToDetyz, coorCheck, clip]; omega
/-- mirrors `xy_to_detyz_zppz_eq` -/
theorem xy_to_detyz_int_zppz (sy sz x y : Int) (hy : 1 ≤ sy) (hz : 1 ≤ sz) :
    xyToDetyz 0 1 1 0 sy sz x y = .ok (x, y) := by
  simp [xyToDetyz, coorCheck, clip]; omega
/-- mirrors `xy_to_detyz_zmmz_eq` -/
theorem xy_to_detyz_int_zmmz (sy sz x y : Int) (hy : 1 ≤ sy) (hz : 1 ≤ sz) :
    xyToDetyz 0 (-1) (-1) 0 sy sz x y = .ok (-x + (sz - 1), -y + (sy - 1)) := by
  simp [xyToDetyz, coorCheck, clip]; omega
/-- mirrors `xy_to_detyz_zmpz_eq` -/
theorem xy_to_detyz_int_zmpz (sy sz x y : Int) (hy : 1 ≤ sy) (hz : 1 ≤ sz) :
    xyToDetyz 0 (-1) 1 0 sy sz x y = .ok (x, -y + (sy - 1)) := by
  simp [xyToDetyz, coorCheck, clip]; omega
/-- mirrors `xy_to_detyz_zpmz_eq` -/
theorem xy_to_detyz_int_zpmz (sy sz x y : Int) (hy : 1 ≤ sy) (hz : 1 ≤ sz) :
    xyToDetyz 0 1 (-1) 0 sy sz x y = .ok (-x + (sz - 1), y) := by
  simp [xyToDetyz, coorCheck, clip]; omega

/-- mirrors `detyz_to_xy_pzzp_eq` -/
theorem detyz_to_xy_int_pzzp (sy sz dy dz : Int) (hy : 1 ≤ sy) (hz : 1 ≤ sz) :
    detyzToXy 1 0 0 1 sy sz dy dz = .ok (dz, dy) := by
  simp [detyzToXy, coorCheck, clip]; omega
/-- mirrors `detyz_to_xy_mzzp_eq` -/
theorem detyz_to_xy_int_mzzp (sy sz dy dz : Int) (hy : 1 ≤ sy) (hz : 1 ≤ sz) :
    detyzToXy (-1) 0 0 1 sy sz dy dz = .ok (-dz + (sz - 1), dy) := by
  simp [detyzToXy, coorCheck, clip]; omega
/-- mirrors `detyz_to_xy_pzzm_eq` -/
theorem detyz_to_xy_int_pzzm (sy sz dy dz : Int) (hy : 1 ≤ sy) (hz : 1 ≤ sz) :
    detyzToXy 1 0 0 (-1) sy sz dy dz = .ok (dz, -dy + (sy - 1)) := by
  simp [detyzToXy, coorCheck, clip]; omega
/-- mirrors `detyz_to_xy_mzzm_eq` -/
theorem detyz_to_xy_int_mzzm (sy sz dy dz : Int) (hy : 1 ≤ sy) (hz : 1 ≤ sz) :
    detyzToXy (-1) 0 0 (-1) sy sz dy dz = .ok (-dz + (sz - 1), -dy + (sy - 1)) := by
  simp [detyzToXy, coorCheck, clip]; omega
/-- mirrors `detyz_to_xy_zppz_eq` -/
theorem detyz_to_xy_int_zppz (sy sz dy dz : Int) (hy : 1 ≤ sy) (hz : 1 ≤ sz) :
    detyzToXy 0 1 1 0 sy sz dy dz = .ok (dy, dz) := by
  simp [detyzToXy, coorCheck, clip]; omega
/-- mirrors `detyz_to_xy_zmmz_eq` -/
theorem detyz_to_xy_int_zmmz (sy sz dy dz : Int) (hy : 1 ≤ sy) (hz : 1 ≤ sz) :
    detyzToXy 0 (-1) (-1) 0 sy sz dy dz = .ok (-dy + (sz - 1), -dz + (sy - 1)) := by
  simp [detyzToXy, coorCheck, clip]; omega
/-- mirrors `detyz_to_xy_zmpz_eq` -/
theorem detyz_to_xy_int_zmpz (sy sz dy dz : Int) (hy : 1 ≤ sy) (hz : 1 ≤ sz) :
    detyzToXy 0 (-1) 1 0 sy sz dy dz = .ok (dy, -dz + (sy - 1)) := by
  simp [detyzToXy, coorCheck, clip]; omega
/-- mirrors `detyz_to_xy_zpmz_eq` -/
theorem detyz_to_xy_int_zpmz (sy sz dy dz : Int) (hy : 1 ≤ sy) (hz : 1 ≤ sz) :
    detyzToXy 0 1 (-1) 0 sy sz dy dz = .ok (-dy + (sz - 1), dz) := by
  simp [detyzToXy, coorCheck, clip]; omega

/-- C11 (integer coordinates): `detyz_to_xy ∘ xy_to_detyz = id` and `xy_to_detyz ∘ detyz_to_xy = id` on the integer
model, for the eight orientations and ALL integer sizes (the ℝ statements are in C11Real). -/
theorem coor_inverse_int (sy sz a b : Int) : ∀ o ∈ validOrientations,
    (∃ d, xyToDetyz o.1 o.2.1 o.2.2.1 o.2.2.2 sy sz a b = .ok d ∧
          detyzToXy o.1 o.2.1 o.2.2.1 o.2.2.2 sy sz d.1 d.2 = .ok (a, b)) ∧
    (∃ c, detyzToXy o.1 o.2.1 o.2.2.1 o.2.2.2 sy sz a b = .ok c ∧
          xyToDetyz o.1 o.2.1 o.2.2.1 o.2.2.2 sy sz c.1 c.2 = .ok (a, b)) := by
  intro o ho
  simp only [validOrientations, List.mem_cons, List.mem_nil_iff, or_false] at ho
  rcases ho with rfl | rfl | rfl | rfl | rfl | rfl | rfl | rfl <;>
    (refine ⟨⟨_, rfl, ?_⟩, ⟨_, rfl, ?_⟩⟩ <;> (simp [xyToDetyz, detyzToXy, coorCheck, clip] <;> omega))

/-! ### The pixel map -/

/-- C11 (pixel map): for each of the eight orientations, every shape `nx × ny` (`nx = img.shape[0]` = extent along
x = `detz_size`, `ny = img.shape[1]` = `dety_size`) and every raw pixel `(x, y)` of the image, `xy_to_detyz((x, y))`
is a pair of non-negative integers `(d0, d1)` inside the transformed image `T = trans_orientation(img, o, 'forward')`
and `T[d0, d1] == img[x, y]`. -/
theorem pixel_map_agrees {α : Type} (img : Img α) (x y : Nat) (hx : x < img.nx) (hy : y < img.ny) :
    ∀ o ∈ validOrientations, ∃ T, ∃ d0 d1 : Nat,
      transOrientation img o.1 o.2.1 o.2.2.1 o.2.2.2 .forward = .ok T ∧
      xyToDetyz o.1 o.2.1 o.2.2.1 o.2.2.2 (img.ny : Int) (img.nx : Int) (x : Int) (y : Int) = .ok ((d0 : Int), (d1 : Int)) ∧
      d0 < T.nx ∧ d1 < T.ny ∧ T.px d0 d1 = img.px x y := by
  have h1 : (1 : Int) ≤ (img.ny : Int) := by omega
  have h2 : (1 : Int) ≤ (img.nx : Int) := by omega
  intro o ho
  simp only [validOrientations, List.mem_cons, List.mem_nil_iff, or_false] at ho
  rcases ho with rfl | rfl | rfl | rfl | rfl | rfl | rfl | rfl
  · refine ⟨_, y, x, rfl, ?_, ?_, ?_, ?_⟩
    · rw [xy_to_detyz_int_pzzp _ _ _ _ h1 h2]
    all_goals (simp [Img.transpose, Img.fliplr, Img.flipud] <;> first | omega | (apply px_congr <;> omega))
  · refine ⟨_, y, img.nx - 1 - x, rfl, ?_, ?_, ?_, ?_⟩
    · rw [xy_to_detyz_int_mzzp _ _ _ _ h1 h2]; congr 2; omega
    all_goals (simp [Img.transpose, Img.fliplr, Img.flipud] <;> first | omega | (apply px_congr <;> omega))
  · refine ⟨_, img.ny - 1 - y, x, rfl, ?_, ?_, ?_, ?_⟩
    · rw [xy_to_detyz_int_pzzm _ _ _ _ h1 h2]; congr 2; omega
    all_goals (simp [Img.transpose, Img.fliplr, Img.flipud] <;> first | omega | (apply px_congr <;> omega))
  · refine ⟨_, img.ny - 1 - y, img.nx - 1 - x, rfl, ?_, ?_, ?_, ?_⟩
    · rw [xy_to_detyz_int_mzzm _ _ _ _ h1 h2]; congr 2 <;> omega
    all_goals (simp [Img.transpose, Img.fliplr, Img.flipud] <;> first | omega | (apply px_congr <;> omega))
  · refine ⟨_, x, y, rfl, ?_, ?_, ?_, ?_⟩
    · rw [xy_to_detyz_int_zppz _ _ _ _ h1 h2]
    all_goals (simp [Img.transpose, Img.fliplr, Img.flipud] <;> first | omega | (apply px_congr <;> omega))
  · refine ⟨_, img.nx - 1 - x, img.ny - 1 - y, rfl, ?_, ?_, ?_, ?_⟩
    · rw [xy_to_detyz_int_zmmz _ _ _ _ h1 h2]; congr 2 <;> omega
    all_goals (simp [Img.transpose, Img.fliplr, Img.flipud] <;> first | omega | (apply px_congr <;> omega))
  · refine ⟨_, x, img.ny - 1 - y, rfl, ?_, ?_, ?_, ?_⟩
    · rw [xy_to_detyz_int_zmpz _ _ _ _ h1 h2]; congr 2; omega
    all_goals (simp [Img.transpose, Img.fliplr, Img.flipud] <;> first | omega | (apply px_congr <;> omega))
  · refine ⟨_, img.nx - 1 - x, y, rfl, ?_, ?_, ?_, ?_⟩
    · rw [xy_to_detyz_int_zpmz _ _ _ _ h1 h2]; congr 2; omega
    all_goals (simp [Img.transpose, Img.fliplr, Img.flipud] <;> first | omega | (apply px_congr <;> omega))

/-! ### Cast lemmas: the traced ℝ functions of Gen/DetectorReal.lean at integer points are the integer model
(for ALL integer sizes; together with the closed forms above this re-derives the `_eq` theorems of C11Real at
integer points, and ties `pixel_map_agrees` to the function the Float twin / the implementation is compared with) -/

/-- C11 (cast): `Detector.xy_to_detyz_pzzp` (orientation [[1,0],[0,1]]) on integer pixel coordinates and sizes
equals the integer model `Flip.xyToDetyz`. -/
theorem xy_to_detyz_cast_pzzp (sy sz x y : Int) : ∃ d, xyToDetyz 1 0 0 1 sy sz x y = .ok d ∧
    Detector.xy_to_detyz_pzzp ![(x : ℝ), (y : ℝ)] (sy : ℝ) (sz : ℝ) = ![(d.1 : ℝ), (d.2 : ℝ)] := by
  refine ⟨_, rfl, ?_⟩
  unfold Detector.xy_to_detyz_pzzp
  ext i; fin_cases i <;>
    simp [Matrix.mulVec, dotProduct, Fin.sum_univ_two, clip, Int.cast_min, Int.cast_max]

/-- C11 (cast): `Detector.xy_to_detyz_mzzp` (orientation [[-1,0],[0,1]]) on integer pixel coordinates and sizes
equals the integer model `Flip.xyToDetyz`. -/
theorem xy_to_detyz_cast_mzzp (sy sz x y : Int) : ∃ d, xyToDetyz (-1) 0 0 1 sy sz x y = .ok d ∧
    Detector.xy_to_detyz_mzzp ![(x : ℝ), (y : ℝ)] (sy : ℝ) (sz : ℝ) = ![(d.1 : ℝ), (d.2 : ℝ)] := by
  refine ⟨_, rfl, ?_⟩
  unfold Detector.xy_to_detyz_mzzp
  ext i; fin_cases i <;>
    simp [Matrix.mulVec, dotProduct, Fin.sum_univ_two, clip, Int.cast_min, Int.cast_max]

/-- C11 (cast): `Detector.xy_to_detyz_pzzm` (orientation [[1,0],[0,-1]]) on integer pixel coordinates and sizes
equals the integer model `Flip.xyToDetyz`. -/
theorem xy_to_detyz_cast_pzzm (sy sz x y : Int) : ∃ d, xyToDetyz 1 0 0 (-1) sy sz x y = .ok d ∧
    Detector.xy_to_detyz_pzzm ![(x : ℝ), (y : ℝ)] (sy : ℝ) (sz : ℝ) = ![(d.1 : ℝ), (d.2 : ℝ)] := by
  refine ⟨_, rfl, ?_⟩
  unfold Detector.xy_to_detyz_pzzm
  ext i; fin_cases i <;>
    simp [Matrix.mulVec, dotProduct, Fin.sum_univ_two, clip, Int.cast_min, Int.cast_max]

/-- C11 (cast): `Detector.xy_to_detyz_mzzm` (orientation [[-1,0],[0,-1]]) on integer pixel coordinates and sizes
equals the integer model `Flip.xyToDetyz`. -/
theorem xy_to_detyz_cast_mzzm (sy sz x y : Int) : ∃ d, xyToDetyz (-1) 0 0 (-1) sy sz x y = .ok d ∧
    Detector.xy_to_detyz_mzzm ![(x : ℝ), (y : ℝ)] (sy : ℝ) (sz : ℝ) = ![(d.1 : ℝ), (d.2 : ℝ)] := by
  refine ⟨_, rfl, ?_⟩
  unfold Detector.xy_to_detyz_mzzm
  ext i; fin_cases i <;>
    simp [Matrix.mulVec, dotProduct, Fin.sum_univ_two, clip, Int.cast_min, Int.cast_max]

/-- C11 (cast): `Detector.xy_to_detyz_zppz` (orientation [[0,1],[1,0]]) on integer pixel coordinates and sizes
equals the integer model `Flip.xyToDetyz`. -/
theorem xy_to_detyz_cast_zppz (sy sz x y : Int) : ∃ d, xyToDetyz 0 1 1 0 sy sz x y = .ok d ∧
    Detector.xy_to_detyz_zppz ![(x : ℝ), (y : ℝ)] (sy : ℝ) (sz : ℝ) = ![(d.1 : ℝ), (d.2 : ℝ)] := by
  refine ⟨_, rfl, ?_⟩
  unfold Detector.xy_to_detyz_zppz
  ext i; fin_cases i <;>
    simp [Matrix.mulVec, dotProduct, Fin.sum_univ_two, clip, Int.cast_min, Int.cast_max]

/-- C11 (cast): `Detector.xy_to_detyz_zmmz` (orientation [[0,-1],[-1,0]]) on integer pixel coordinates and sizes
equals the integer model `Flip.xyToDetyz`. -/
theorem xy_to_detyz_cast_zmmz (sy sz x y : Int) : ∃ d, xyToDetyz 0 (-1) (-1) 0 sy sz x y = .ok d ∧
    Detector.xy_to_detyz_zmmz ![(x : ℝ), (y : ℝ)] (sy : ℝ) (sz : ℝ) = ![(d.1 : ℝ), (d.2 : ℝ)] := by
  refine ⟨_, rfl, ?_⟩
  unfold Detector.xy_to_detyz_zmmz
  ext i; fin_cases i <;>
    simp [Matrix.mulVec, dotProduct, Fin.sum_univ_two, clip, Int.cast_min, Int.cast_max]

/-- C11 (cast): `Detector.xy_to_detyz_zmpz` (orientation [[0,-1],[1,0]]) on integer pixel coordinates and sizes
equals the integer model `Flip.xyToDetyz`. -/
theorem xy_to_detyz_cast_zmpz (sy sz x y : Int) : ∃ d, xyToDetyz 0 (-1) 1 0 sy sz x y = .ok d ∧
    Detector.xy_to_detyz_zmpz ![(x : ℝ), (y : ℝ)] (sy : ℝ) (sz : ℝ) = ![(d.1 : ℝ), (d.2 : ℝ)] := by
  refine ⟨_, rfl, ?_⟩
  unfold Detector.xy_to_detyz_zmpz
  ext i; fin_cases i <;>
    simp [Matrix.mulVec, dotProduct, Fin.sum_univ_two, clip, Int.cast_min, Int.cast_max]

/-- C11 (cast): `Detector.xy_to_detyz_zpmz` (orientation [[0,1],[-1,0]]) on integer pixel coordinates and sizes
equals the integer model `Flip.xyToDetyz`. -/
theorem xy_to_detyz_cast_zpmz (sy sz x y : Int) : ∃ d, xyToDetyz 0 1 (-1) 0 sy sz x y = .ok d ∧
    Detector.xy_to_detyz_zpmz ![(x : ℝ), (y : ℝ)] (sy : ℝ) (sz : ℝ) = ![(d.1 : ℝ), (d.2 : ℝ)] := by
  refine ⟨_, rfl, ?_⟩
  unfold Detector.xy_to_detyz_zpmz
  ext i; fin_cases i <;>
    simp [Matrix.mulVec, dotProduct, Fin.sum_univ_two, clip, Int.cast_min, Int.cast_max]

/-- C11 (cast): `Detector.detyz_to_xy_pzzp` (orientation [[1,0],[0,1]]) on integer (dety, detz) and sizes
equals the integer model `Flip.detyzToXy` (in particular numpy's `linalg.inv(omat)` is the integer matrix det·adj). -/
theorem detyz_to_xy_cast_pzzp (sy sz dy dz : Int) : ∃ c, detyzToXy 1 0 0 1 sy sz dy dz = .ok c ∧
    Detector.detyz_to_xy_pzzp ![(dy : ℝ), (dz : ℝ)] (sy : ℝ) (sz : ℝ) = ![(c.1 : ℝ), (c.2 : ℝ)] := by
  refine ⟨_, rfl, ?_⟩
  have hinv : (!![(1 : ℝ), (0 : ℝ); (0 : ℝ), (1 : ℝ)] : Matrix (Fin 2) (Fin 2) ℝ)⁻¹
      = (!![(1 : ℝ), (0 : ℝ); (0 : ℝ), (1 : ℝ)] : Matrix (Fin 2) (Fin 2) ℝ) := by
    apply Matrix.inv_eq_right_inv
    ext i j; fin_cases i <;> fin_cases j <;> simp [Matrix.mul_apply, Fin.sum_univ_two]
  unfold Detector.detyz_to_xy_pzzp
  simp only []
  rw [hinv]
  ext i; fin_cases i <;>
    simp [Matrix.mulVec, dotProduct, Fin.sum_univ_two, clip, Int.cast_min, Int.cast_max]

/-- C11 (cast): `Detector.detyz_to_xy_mzzp` (orientation [[-1,0],[0,1]]) on integer (dety, detz) and sizes
equals the integer model `Flip.detyzToXy` (in particular numpy's `linalg.inv(omat)` is the integer matrix det·adj). -/
theorem detyz_to_xy_cast_mzzp (sy sz dy dz : Int) : ∃ c, detyzToXy (-1) 0 0 1 sy sz dy dz = .ok c ∧
    Detector.detyz_to_xy_mzzp ![(dy : ℝ), (dz : ℝ)] (sy : ℝ) (sz : ℝ) = ![(c.1 : ℝ), (c.2 : ℝ)] := by
  refine ⟨_, rfl, ?_⟩
  have hinv : (!![(-1 : ℝ), (0 : ℝ); (0 : ℝ), (1 : ℝ)] : Matrix (Fin 2) (Fin 2) ℝ)⁻¹
      = (!![(-1 : ℝ), (0 : ℝ); (0 : ℝ), (1 : ℝ)] : Matrix (Fin 2) (Fin 2) ℝ) := by
    apply Matrix.inv_eq_right_inv
    ext i j; fin_cases i <;> fin_cases j <;> simp [Matrix.mul_apply, Fin.sum_univ_two]
  unfold Detector.detyz_to_xy_mzzp
  simp only []
  rw [hinv]
  ext i; fin_cases i <;>
    simp [Matrix.mulVec, dotProduct, Fin.sum_univ_two, clip, Int.cast_min, Int.cast_max]

/-- C11 (cast): `Detector.detyz_to_xy_pzzm` (orientation [[1,0],[0,-1]]) on integer (dety, detz) and sizes
equals the integer model `Flip.detyzToXy` (in particular numpy's `linalg.inv(omat)` is the integer matrix det·adj). -/
theorem detyz_to_xy_cast_pzzm (sy sz dy dz : Int) : ∃ c, detyzToXy 1 0 0 (-1) sy sz dy dz = .ok c ∧
    Detector.detyz_to_xy_pzzm ![(dy : ℝ), (dz : ℝ)] (sy : ℝ) (sz : ℝ) = ![(c.1 : ℝ), (c.2 : ℝ)] := by
  refine ⟨_, rfl, ?_⟩
  have hinv : (!![(1 : ℝ), (0 : ℝ); (0 : ℝ), (-1 : ℝ)] : Matrix (Fin 2) (Fin 2) ℝ)⁻¹
      = (!![(1 : ℝ), (0 : ℝ); (0 : ℝ), (-1 : ℝ)] : Matrix (Fin 2) (Fin 2) ℝ) := by
    apply Matrix.inv_eq_right_inv
    ext i j; fin_cases i <;> fin_cases j <;> simp [Matrix.mul_apply, Fin.sum_univ_two]
  unfold Detector.detyz_to_xy_pzzm
  simp only []
  rw [hinv]
  ext i; fin_cases i <;>
    simp [Matrix.mulVec, dotProduct, Fin.sum_univ_two, clip, Int.cast_min, Int.cast_max]

/-- C11 (cast): `Detector.detyz_to_xy_mzzm` (orientation [[-1,0],[0,-1]]) on integer (dety, detz) and sizes
equals the integer model `Flip.detyzToXy` (in particular numpy's `linalg.inv(omat)` is the integer matrix det·adj). -/
theorem detyz_to_xy_cast_mzzm (sy sz dy dz : Int) : ∃ c, detyzToXy (-1) 0 0 (-1) sy sz dy dz = .ok c ∧
    Detector.detyz_to_xy_mzzm ![(dy : ℝ), (dz : ℝ)] (sy : ℝ) (sz : ℝ) = ![(c.1 : ℝ), (c.2 : ℝ)] := by
  refine ⟨_, rfl, ?_⟩
  have hinv : (!![(-1 : ℝ), (0 : ℝ); (0 : ℝ), (-1 : ℝ)] : Matrix (Fin 2) (Fin 2) ℝ)⁻¹
      = (!![(-1 : ℝ), (0 : ℝ); (0 : ℝ), (-1 : ℝ)] : Matrix (Fin 2) (Fin 2) ℝ) := by
    apply Matrix.inv_eq_right_inv
    ext i j; fin_cases i <;> fin_cases j <;> simp [Matrix.mul_apply, Fin.sum_univ_two]
  unfold Detector.detyz_to_xy_mzzm
  simp only []
  rw [hinv]
  ext i; fin_cases i <;>
    simp [Matrix.mulVec, dotProduct, Fin.sum_univ_two, clip, Int.cast_min, Int.cast_max]

/-- C11 (cast): `Detector.detyz_to_xy_zppz` (orientation [[0,1],[1,0]]) on integer (dety, detz) and sizes
equals the integer model `Flip.detyzToXy` (in particular numpy's `linalg.inv(omat)` is the integer matrix det·adj). -/
theorem detyz_to_xy_cast_zppz (sy sz dy dz : Int) : ∃ c, detyzToXy 0 1 1 0 sy sz dy dz = .ok c ∧
    Detector.detyz_to_xy_zppz ![(dy : ℝ), (dz : ℝ)] (sy : ℝ) (sz : ℝ) = ![(c.1 : ℝ), (c.2 : ℝ)] := by
  refine ⟨_, rfl, ?_⟩
  have hinv : (!![(0 : ℝ), (1 : ℝ); (1 : ℝ), (0 : ℝ)] : Matrix (Fin 2) (Fin 2) ℝ)⁻¹
      = (!![(0 : ℝ), (1 : ℝ); (1 : ℝ), (0 : ℝ)] : Matrix (Fin 2) (Fin 2) ℝ) := by
    apply Matrix.inv_eq_right_inv
    ext i j; fin_cases i <;> fin_cases j <;> simp [Matrix.mul_apply, Fin.sum_univ_two]
  unfold Detector.detyz_to_xy_zppz
  simp only []
  rw [hinv]
  ext i; fin_cases i <;>
    simp [Matrix.mulVec, dotProduct, Fin.sum_univ_two, clip, Int.cast_min, Int.cast_max]

/-- C11 (cast): `Detector.detyz_to_xy_zmmz` (orientation [[0,-1],[-1,0]]) on integer (dety, detz) and sizes
equals the integer model `Flip.detyzToXy` (in particular numpy's `linalg.inv(omat)` is the integer matrix det·adj). -/
theorem detyz_to_xy_cast_zmmz (sy sz dy dz : Int) : ∃ c, detyzToXy 0 (-1) (-1) 0 sy sz dy dz = .ok c ∧
    Detector.detyz_to_xy_zmmz ![(dy : ℝ), (dz : ℝ)] (sy : ℝ) (sz : ℝ) = ![(c.1 : ℝ), (c.2 : ℝ)] := by
  refine ⟨_, rfl, ?_⟩
  have hinv : (!![(0 : ℝ), (-1 : ℝ); (-1 : ℝ), (0 : ℝ)] : Matrix (Fin 2) (Fin 2) ℝ)⁻¹
      = (!![(0 : ℝ), (-1 : ℝ); (-1 : ℝ), (0 : ℝ)] : Matrix (Fin 2) (Fin 2) ℝ) := by
    apply Matrix.inv_eq_right_inv
    ext i j; fin_cases i <;> fin_cases j <;> simp [Matrix.mul_apply, Fin.sum_univ_two]
  unfold Detector.detyz_to_xy_zmmz
  simp only []
  rw [hinv]
  ext i; fin_cases i <;>
    simp [Matrix.mulVec, dotProduct, Fin.sum_univ_two, clip, Int.cast_min, Int.cast_max]

/-- C11 (cast): `Detector.detyz_to_xy_zmpz` (orientation [[0,-1],[1,0]]) on integer (dety, detz) and sizes
equals the integer model `Flip.detyzToXy` (in particular numpy's `linalg.inv(omat)` is the integer matrix det·adj). -/
theorem detyz_to_xy_cast_zmpz (sy sz dy dz : Int) : ∃ c, detyzToXy 0 (-1) 1 0 sy sz dy dz = .ok c ∧
    Detector.detyz_to_xy_zmpz ![(dy : ℝ), (dz : ℝ)] (sy : ℝ) (sz : ℝ) = ![(c.1 : ℝ), (c.2 : ℝ)] := by
  refine ⟨_, rfl, ?_⟩
  have hinv : (!![(0 : ℝ), (-1 : ℝ); (1 : ℝ), (0 : ℝ)] : Matrix (Fin 2) (Fin 2) ℝ)⁻¹
      = (!![(0 : ℝ), (1 : ℝ); (-1 : ℝ), (0 : ℝ)] : Matrix (Fin 2) (Fin 2) ℝ) := by
    apply Matrix.inv_eq_right_inv
    ext i j; fin_cases i <;> fin_cases j <;> simp [Matrix.mul_apply, Fin.sum_univ_two]
  unfold Detector.detyz_to_xy_zmpz
  simp only []
  rw [hinv]
  ext i; fin_cases i <;>
    simp [Matrix.mulVec, dotProduct, Fin.sum_univ_two, clip, Int.cast_min, Int.cast_max]

/-- C11 (cast): `Detector.detyz_to_xy_zpmz` (orientation [[0,1],[-1,0]]) on integer (dety, detz) and sizes
equals the integer model `Flip.detyzToXy` (in particular numpy's `linalg.inv(omat)` is the integer matrix det·adj). -/
theorem detyz_to_xy_cast_zpmz (sy sz dy dz : Int) : ∃ c, detyzToXy 0 1 (-1) 0 sy sz dy dz = .ok c ∧
    Detector.detyz_to_xy_zpmz ![(dy : ℝ), (dz : ℝ)] (sy : ℝ) (sz : ℝ) = ![(c.1 : ℝ), (c.2 : ℝ)] := by
  refine ⟨_, rfl, ?_⟩
  have hinv : (!![(0 : ℝ), (1 : ℝ); (-1 : ℝ), (0 : ℝ)] : Matrix (Fin 2) (Fin 2) ℝ)⁻¹
      = (!![(0 : ℝ), (-1 : ℝ); (1 : ℝ), (0 : ℝ)] : Matrix (Fin 2) (Fin 2) ℝ) := by
    apply Matrix.inv_eq_right_inv
    ext i j; fin_cases i <;> fin_cases j <;> simp [Matrix.mul_apply, Fin.sum_univ_two]
  unfold Detector.detyz_to_xy_zpmz
  simp only []
  rw [hinv]
  ext i; fin_cases i <;>
    simp [Matrix.mulVec, dotProduct, Fin.sum_univ_two, clip, Int.cast_min, Int.cast_max]

/-- the hypotheses of `pixel_map_agrees` are satisfiable on a non-square image, and the statement is not vacuous:
for the 2×3 image with `img[i, j] = 10·i + j` and orientation [[-1,0],[0,1]], raw pixel (1, 2) lands at (2, 0). -/
example : ∃ T, transOrientation (⟨2, 3, fun i j => 10 * i + j⟩ : Img Nat) (-1) 0 0 1 .forward = .ok T ∧
    xyToDetyz (-1) 0 0 1 3 2 1 2 = .ok (2, 0) ∧ T.nx = 3 ∧ T.ny = 2 ∧ T.px 2 0 = 12 :=
  ⟨_, rfl, by decide, rfl, rfl, rfl⟩
