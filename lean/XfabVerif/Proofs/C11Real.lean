/-
Property C11, coordinate-map part (xfab/detector.py): xy_to_detyz / detyz_to_xy are mutual inverses for each
of the eight valid orientation matrices, and (dety,detz) <-> (eta, radpix) are mutual inverses for
radpix ≥ 1 and eta in [0,360] (with the identification 0 ≡ 360).
-/
import XfabVerif.Gen.DetectorReal
import XfabVerif.Spec.Basic

set_option linter.unusedVariables false
set_option linter.style.longLine false
set_option linter.unusedTactic false
set_option linter.unreachableTactic false
set_option linter.unnecessarySeqFocus false
set_option linter.unusedSimpArgs false
noncomputable section
open Matrix

namespace C11

/-- `xy_to_detyz` with the orientation matrix as a parameter (same body as the 8 generated specialisations). -/
def xy2d (omat : Matrix (Fin 2) (Fin 2) ℝ) (coor : Fin 2 → ℝ) (dety_size detz_size : ℝ) : Fin 2 → ℝ :=
  let det_size : (Fin 2 → ℝ) := (![(detz_size - 1), (dety_size - 1)] : (Fin 2 → ℝ))
  (![(((omat *ᵥ coor) 1) - (min (max ((omat *ᵥ det_size) 1) (-(max (detz_size - 1) (dety_size - 1)))) (0 : ℝ))), (((omat *ᵥ coor) 0) - (min (max ((omat *ᵥ det_size) 0) (-(max (detz_size - 1) (dety_size - 1)))) (0 : ℝ)))] : (Fin 2 → ℝ))

/-- `detyz_to_xy` with the orientation matrix as a parameter. -/
def d2xy (omat : Matrix (Fin 2) (Fin 2) ℝ) (coor : Fin 2 → ℝ) (dety_size detz_size : ℝ) : Fin 2 → ℝ :=
  let omat_inv : (Matrix (Fin 2) (Fin 2) ℝ) := (omat⁻¹)
  let det_size : (Fin 2 → ℝ) := (![(detz_size - 1), (dety_size - 1)] : (Fin 2 → ℝ))
  let coor_1 : (Fin 2 → ℝ) := (omat_inv *ᵥ (![((coor 1) + (min (max ((omat *ᵥ det_size) 0) (-(max (detz_size - 1) (dety_size - 1)))) (0 : ℝ))), ((coor 0) + (min (max ((omat *ᵥ det_size) 1) (-(max (detz_size - 1) (dety_size - 1)))) (0 : ℝ)))] : (Fin 2 → ℝ)))
  coor_1

lemma d2xy_xy2d (M : Matrix (Fin 2) (Fin 2) ℝ) (hM : IsUnit M.det) (coor : Fin 2 → ℝ) (dy dz : ℝ) :
    d2xy M (xy2d M coor dy dz) dy dz = coor := by
  unfold d2xy xy2d
  simp only [Matrix.cons_val_zero, Matrix.cons_val_one, sub_add_cancel]
  have : ![(M *ᵥ coor) 0, (M *ᵥ coor) 1] = M *ᵥ coor := by
    ext i; fin_cases i <;> rfl
  rw [this, Matrix.mulVec_mulVec, Matrix.nonsing_inv_mul _ hM, Matrix.one_mulVec]

lemma xy2d_d2xy (M : Matrix (Fin 2) (Fin 2) ℝ) (hM : IsUnit M.det) (coor : Fin 2 → ℝ) (dy dz : ℝ) :
    xy2d M (d2xy M coor dy dz) dy dz = coor := by
  unfold d2xy xy2d
  simp only [Matrix.mulVec_mulVec, Matrix.mul_nonsing_inv _ hM, Matrix.one_mulVec,
    Matrix.cons_val_zero, Matrix.cons_val_one, add_sub_cancel_right]
  ext i; fin_cases i <;> rfl

end C11

open C11

/-! ### Orientation maps: 16 round-trip theorems.
The round trips hold for ALL real `dety_size`, `detz_size` (the same clip vector is subtracted and added back),
so the theorems are stated without the `dety_size ≥ 1`, `detz_size ≥ 1` side conditions of the property
(strictly stronger). -/

/-- C11: for orientation [[1,0],[0,1]], `detyz_to_xy ∘ xy_to_detyz = id` (any image sizes). -/
theorem detyz_to_xy_xy_to_detyz_pzzp (coor : Fin 2 → ℝ) (dety_size detz_size : ℝ) :
    Detector.detyz_to_xy_pzzp (Detector.xy_to_detyz_pzzp coor dety_size detz_size) dety_size detz_size = coor :=
  d2xy_xy2d (!![(1 : ℝ), (0 : ℝ); (0 : ℝ), (1 : ℝ)] : Matrix (Fin 2) (Fin 2) ℝ) (by simp [Matrix.det_fin_two]) coor dety_size detz_size

/-- C11: for orientation [[1,0],[0,1]], `xy_to_detyz ∘ detyz_to_xy = id` (any image sizes). -/
theorem xy_to_detyz_detyz_to_xy_pzzp (coor : Fin 2 → ℝ) (dety_size detz_size : ℝ) :
    Detector.xy_to_detyz_pzzp (Detector.detyz_to_xy_pzzp coor dety_size detz_size) dety_size detz_size = coor :=
  xy2d_d2xy (!![(1 : ℝ), (0 : ℝ); (0 : ℝ), (1 : ℝ)] : Matrix (Fin 2) (Fin 2) ℝ) (by simp [Matrix.det_fin_two]) coor dety_size detz_size

/-- C11: for orientation [[-1,0],[0,1]], `detyz_to_xy ∘ xy_to_detyz = id` (any image sizes). -/
theorem detyz_to_xy_xy_to_detyz_mzzp (coor : Fin 2 → ℝ) (dety_size detz_size : ℝ) :
    Detector.detyz_to_xy_mzzp (Detector.xy_to_detyz_mzzp coor dety_size detz_size) dety_size detz_size = coor :=
  d2xy_xy2d (!![(-1 : ℝ), (0 : ℝ); (0 : ℝ), (1 : ℝ)] : Matrix (Fin 2) (Fin 2) ℝ) (by simp [Matrix.det_fin_two]) coor dety_size detz_size

/-- C11: for orientation [[-1,0],[0,1]], `xy_to_detyz ∘ detyz_to_xy = id` (any image sizes). -/
theorem xy_to_detyz_detyz_to_xy_mzzp (coor : Fin 2 → ℝ) (dety_size detz_size : ℝ) :
    Detector.xy_to_detyz_mzzp (Detector.detyz_to_xy_mzzp coor dety_size detz_size) dety_size detz_size = coor :=
  xy2d_d2xy (!![(-1 : ℝ), (0 : ℝ); (0 : ℝ), (1 : ℝ)] : Matrix (Fin 2) (Fin 2) ℝ) (by simp [Matrix.det_fin_two]) coor dety_size detz_size

/-- C11: for orientation [[1,0],[0,-1]], `detyz_to_xy ∘ xy_to_detyz = id` (any image sizes). -/
theorem detyz_to_xy_xy_to_detyz_pzzm (coor : Fin 2 → ℝ) (dety_size detz_size : ℝ) :
    Detector.detyz_to_xy_pzzm (Detector.xy_to_detyz_pzzm coor dety_size detz_size) dety_size detz_size = coor :=
  d2xy_xy2d (!![(1 : ℝ), (0 : ℝ); (0 : ℝ), (-1 : ℝ)] : Matrix (Fin 2) (Fin 2) ℝ) (by simp [Matrix.det_fin_two]) coor dety_size detz_size

/-- C11: for orientation [[1,0],[0,-1]], `xy_to_detyz ∘ detyz_to_xy = id` (any image sizes). -/
theorem xy_to_detyz_detyz_to_xy_pzzm (coor : Fin 2 → ℝ) (dety_size detz_size : ℝ) :
    Detector.xy_to_detyz_pzzm (Detector.detyz_to_xy_pzzm coor dety_size detz_size) dety_size detz_size = coor :=
  xy2d_d2xy (!![(1 : ℝ), (0 : ℝ); (0 : ℝ), (-1 : ℝ)] : Matrix (Fin 2) (Fin 2) ℝ) (by simp [Matrix.det_fin_two]) coor dety_size detz_size

/-- C11: for orientation [[-1,0],[0,-1]], `detyz_to_xy ∘ xy_to_detyz = id` (any image sizes). -/
theorem detyz_to_xy_xy_to_detyz_mzzm (coor : Fin 2 → ℝ) (dety_size detz_size : ℝ) :
    Detector.detyz_to_xy_mzzm (Detector.xy_to_detyz_mzzm coor dety_size detz_size) dety_size detz_size = coor :=
  d2xy_xy2d (!![(-1 : ℝ), (0 : ℝ); (0 : ℝ), (-1 : ℝ)] : Matrix (Fin 2) (Fin 2) ℝ) (by simp [Matrix.det_fin_two]) coor dety_size detz_size

/-- C11: for orientation [[-1,0],[0,-1]], `xy_to_detyz ∘ detyz_to_xy = id` (any image sizes). -/
theorem xy_to_detyz_detyz_to_xy_mzzm (coor : Fin 2 → ℝ) (dety_size detz_size : ℝ) :
    Detector.xy_to_detyz_mzzm (Detector.detyz_to_xy_mzzm coor dety_size detz_size) dety_size detz_size = coor :=
  xy2d_d2xy (!![(-1 : ℝ), (0 : ℝ); (0 : ℝ), (-1 : ℝ)] : Matrix (Fin 2) (Fin 2) ℝ) (by simp [Matrix.det_fin_two]) coor dety_size detz_size

/-- C11: for orientation [[0,1],[1,0]], `detyz_to_xy ∘ xy_to_detyz = id` (any image sizes). -/
theorem detyz_to_xy_xy_to_detyz_zppz (coor : Fin 2 → ℝ) (dety_size detz_size : ℝ) :
    Detector.detyz_to_xy_zppz (Detector.xy_to_detyz_zppz coor dety_size detz_size) dety_size detz_size = coor :=
  d2xy_xy2d (!![(0 : ℝ), (1 : ℝ); (1 : ℝ), (0 : ℝ)] : Matrix (Fin 2) (Fin 2) ℝ) (by simp [Matrix.det_fin_two]) coor dety_size detz_size

/-- C11: for orientation [[0,1],[1,0]], `xy_to_detyz ∘ detyz_to_xy = id` (any image sizes). -/
theorem xy_to_detyz_detyz_to_xy_zppz (coor : Fin 2 → ℝ) (dety_size detz_size : ℝ) :
    Detector.xy_to_detyz_zppz (Detector.detyz_to_xy_zppz coor dety_size detz_size) dety_size detz_size = coor :=
  xy2d_d2xy (!![(0 : ℝ), (1 : ℝ); (1 : ℝ), (0 : ℝ)] : Matrix (Fin 2) (Fin 2) ℝ) (by simp [Matrix.det_fin_two]) coor dety_size detz_size

/-- C11: for orientation [[0,-1],[-1,0]], `detyz_to_xy ∘ xy_to_detyz = id` (any image sizes). -/
theorem detyz_to_xy_xy_to_detyz_zmmz (coor : Fin 2 → ℝ) (dety_size detz_size : ℝ) :
    Detector.detyz_to_xy_zmmz (Detector.xy_to_detyz_zmmz coor dety_size detz_size) dety_size detz_size = coor :=
  d2xy_xy2d (!![(0 : ℝ), (-1 : ℝ); (-1 : ℝ), (0 : ℝ)] : Matrix (Fin 2) (Fin 2) ℝ) (by simp [Matrix.det_fin_two]) coor dety_size detz_size

/-- C11: for orientation [[0,-1],[-1,0]], `xy_to_detyz ∘ detyz_to_xy = id` (any image sizes). -/
theorem xy_to_detyz_detyz_to_xy_zmmz (coor : Fin 2 → ℝ) (dety_size detz_size : ℝ) :
    Detector.xy_to_detyz_zmmz (Detector.detyz_to_xy_zmmz coor dety_size detz_size) dety_size detz_size = coor :=
  xy2d_d2xy (!![(0 : ℝ), (-1 : ℝ); (-1 : ℝ), (0 : ℝ)] : Matrix (Fin 2) (Fin 2) ℝ) (by simp [Matrix.det_fin_two]) coor dety_size detz_size

/-- C11: for orientation [[0,-1],[1,0]], `detyz_to_xy ∘ xy_to_detyz = id` (any image sizes). -/
theorem detyz_to_xy_xy_to_detyz_zmpz (coor : Fin 2 → ℝ) (dety_size detz_size : ℝ) :
    Detector.detyz_to_xy_zmpz (Detector.xy_to_detyz_zmpz coor dety_size detz_size) dety_size detz_size = coor :=
  d2xy_xy2d (!![(0 : ℝ), (-1 : ℝ); (1 : ℝ), (0 : ℝ)] : Matrix (Fin 2) (Fin 2) ℝ) (by simp [Matrix.det_fin_two]) coor dety_size detz_size

/-- C11: for orientation [[0,-1],[1,0]], `xy_to_detyz ∘ detyz_to_xy = id` (any image sizes). -/
theorem xy_to_detyz_detyz_to_xy_zmpz (coor : Fin 2 → ℝ) (dety_size detz_size : ℝ) :
    Detector.xy_to_detyz_zmpz (Detector.detyz_to_xy_zmpz coor dety_size detz_size) dety_size detz_size = coor :=
  xy2d_d2xy (!![(0 : ℝ), (-1 : ℝ); (1 : ℝ), (0 : ℝ)] : Matrix (Fin 2) (Fin 2) ℝ) (by simp [Matrix.det_fin_two]) coor dety_size detz_size

/-- C11: for orientation [[0,1],[-1,0]], `detyz_to_xy ∘ xy_to_detyz = id` (any image sizes). -/
theorem detyz_to_xy_xy_to_detyz_zpmz (coor : Fin 2 → ℝ) (dety_size detz_size : ℝ) :
    Detector.detyz_to_xy_zpmz (Detector.xy_to_detyz_zpmz coor dety_size detz_size) dety_size detz_size = coor :=
  d2xy_xy2d (!![(0 : ℝ), (1 : ℝ); (-1 : ℝ), (0 : ℝ)] : Matrix (Fin 2) (Fin 2) ℝ) (by simp [Matrix.det_fin_two]) coor dety_size detz_size

/-- C11: for orientation [[0,1],[-1,0]], `xy_to_detyz ∘ detyz_to_xy = id` (any image sizes). -/
theorem xy_to_detyz_detyz_to_xy_zpmz (coor : Fin 2 → ℝ) (dety_size detz_size : ℝ) :
    Detector.xy_to_detyz_zpmz (Detector.detyz_to_xy_zpmz coor dety_size detz_size) dety_size detz_size = coor :=
  xy2d_d2xy (!![(0 : ℝ), (1 : ℝ); (-1 : ℝ), (0 : ℝ)] : Matrix (Fin 2) (Fin 2) ℝ) (by simp [Matrix.det_fin_two]) coor dety_size detz_size

/-! ### Closed forms of the orientation maps for image sizes ≥ 1 (these pin down the clip offsets). -/

namespace C11
lemma clip_pos {s m : ℝ} (hs : 0 ≤ s) : min (max s (-m)) 0 = 0 :=
  min_eq_right (le_trans hs (le_max_left _ _))
end C11

/-- C11 (closed form): `xy_to_detyz` for orientation [[1,0],[0,1]] and image sizes ≥ 1. -/
theorem xy_to_detyz_pzzp_eq (coor : Fin 2 → ℝ) (dety_size detz_size : ℝ) (hy : 1 ≤ dety_size) (hz : 1 ≤ detz_size) :
    Detector.xy_to_detyz_pzzp coor dety_size detz_size = ![coor 1, coor 0] := by
  have ha : 0 ≤ detz_size - 1 := by linarith
  have hb : 0 ≤ dety_size - 1 := by linarith
  unfold Detector.xy_to_detyz_pzzp
  generalize detz_size - 1 = a at *
  generalize dety_size - 1 = b at *
  ext i; fin_cases i <;>
    simp [Matrix.mulVec, dotProduct, Fin.sum_univ_two, clip_pos ha, clip_pos hb,
      min_eq_left (neg_nonpos.mpr ha), min_eq_left (neg_nonpos.mpr hb)] <;> ring

/-- C11 (closed form): `detyz_to_xy` for orientation [[1,0],[0,1]] and image sizes ≥ 1. -/
theorem detyz_to_xy_pzzp_eq (coor : Fin 2 → ℝ) (dety_size detz_size : ℝ) (hy : 1 ≤ dety_size) (hz : 1 ≤ detz_size) :
    Detector.detyz_to_xy_pzzp coor dety_size detz_size = ![coor 1, coor 0] := by
  have ha : 0 ≤ detz_size - 1 := by linarith
  have hb : 0 ≤ dety_size - 1 := by linarith
  have hinv : (!![(1 : ℝ), (0 : ℝ); (0 : ℝ), (1 : ℝ)] : Matrix (Fin 2) (Fin 2) ℝ)⁻¹
      = (!![(1 : ℝ), (0 : ℝ); (0 : ℝ), (1 : ℝ)] : Matrix (Fin 2) (Fin 2) ℝ) := by
    apply Matrix.inv_eq_right_inv
    ext i j; fin_cases i <;> fin_cases j <;> simp [Matrix.mul_apply, Fin.sum_univ_two]
  simp only [Detector.detyz_to_xy_pzzp]
  rw [hinv]
  generalize detz_size - 1 = a at *
  generalize dety_size - 1 = b at *
  ext i; fin_cases i <;>
    simp [Matrix.mulVec, dotProduct, Fin.sum_univ_two, clip_pos ha, clip_pos hb,
      min_eq_left (neg_nonpos.mpr ha), min_eq_left (neg_nonpos.mpr hb)] <;> ring

/-- C11 (closed form): `xy_to_detyz` for orientation [[-1,0],[0,1]] and image sizes ≥ 1. -/
theorem xy_to_detyz_mzzp_eq (coor : Fin 2 → ℝ) (dety_size detz_size : ℝ) (hy : 1 ≤ dety_size) (hz : 1 ≤ detz_size) :
    Detector.xy_to_detyz_mzzp coor dety_size detz_size = ![coor 1, -coor 0 + (detz_size - 1)] := by
  have ha : 0 ≤ detz_size - 1 := by linarith
  have hb : 0 ≤ dety_size - 1 := by linarith
  unfold Detector.xy_to_detyz_mzzp
  generalize detz_size - 1 = a at *
  generalize dety_size - 1 = b at *
  ext i; fin_cases i <;>
    simp [Matrix.mulVec, dotProduct, Fin.sum_univ_two, clip_pos ha, clip_pos hb,
      min_eq_left (neg_nonpos.mpr ha), min_eq_left (neg_nonpos.mpr hb)] <;> ring

/-- C11 (closed form): `detyz_to_xy` for orientation [[-1,0],[0,1]] and image sizes ≥ 1. -/
theorem detyz_to_xy_mzzp_eq (coor : Fin 2 → ℝ) (dety_size detz_size : ℝ) (hy : 1 ≤ dety_size) (hz : 1 ≤ detz_size) :
    Detector.detyz_to_xy_mzzp coor dety_size detz_size = ![-coor 1 + (detz_size - 1), coor 0] := by
  have ha : 0 ≤ detz_size - 1 := by linarith
  have hb : 0 ≤ dety_size - 1 := by linarith
  have hinv : (!![(-1 : ℝ), (0 : ℝ); (0 : ℝ), (1 : ℝ)] : Matrix (Fin 2) (Fin 2) ℝ)⁻¹
      = (!![(-1 : ℝ), (0 : ℝ); (0 : ℝ), (1 : ℝ)] : Matrix (Fin 2) (Fin 2) ℝ) := by
    apply Matrix.inv_eq_right_inv
    ext i j; fin_cases i <;> fin_cases j <;> simp [Matrix.mul_apply, Fin.sum_univ_two]
  simp only [Detector.detyz_to_xy_mzzp]
  rw [hinv]
  generalize detz_size - 1 = a at *
  generalize dety_size - 1 = b at *
  ext i; fin_cases i <;>
    simp [Matrix.mulVec, dotProduct, Fin.sum_univ_two, clip_pos ha, clip_pos hb,
      min_eq_left (neg_nonpos.mpr ha), min_eq_left (neg_nonpos.mpr hb)] <;> ring

/-- C11 (closed form): `xy_to_detyz` for orientation [[1,0],[0,-1]] and image sizes ≥ 1. -/
theorem xy_to_detyz_pzzm_eq (coor : Fin 2 → ℝ) (dety_size detz_size : ℝ) (hy : 1 ≤ dety_size) (hz : 1 ≤ detz_size) :
    Detector.xy_to_detyz_pzzm coor dety_size detz_size = ![-coor 1 + (dety_size - 1), coor 0] := by
  have ha : 0 ≤ detz_size - 1 := by linarith
  have hb : 0 ≤ dety_size - 1 := by linarith
  unfold Detector.xy_to_detyz_pzzm
  generalize detz_size - 1 = a at *
  generalize dety_size - 1 = b at *
  ext i; fin_cases i <;>
    simp [Matrix.mulVec, dotProduct, Fin.sum_univ_two, clip_pos ha, clip_pos hb,
      min_eq_left (neg_nonpos.mpr ha), min_eq_left (neg_nonpos.mpr hb)] <;> ring

/-- C11 (closed form): `detyz_to_xy` for orientation [[1,0],[0,-1]] and image sizes ≥ 1. -/
theorem detyz_to_xy_pzzm_eq (coor : Fin 2 → ℝ) (dety_size detz_size : ℝ) (hy : 1 ≤ dety_size) (hz : 1 ≤ detz_size) :
    Detector.detyz_to_xy_pzzm coor dety_size detz_size = ![coor 1, -coor 0 + (dety_size - 1)] := by
  have ha : 0 ≤ detz_size - 1 := by linarith
  have hb : 0 ≤ dety_size - 1 := by linarith
  have hinv : (!![(1 : ℝ), (0 : ℝ); (0 : ℝ), (-1 : ℝ)] : Matrix (Fin 2) (Fin 2) ℝ)⁻¹
      = (!![(1 : ℝ), (0 : ℝ); (0 : ℝ), (-1 : ℝ)] : Matrix (Fin 2) (Fin 2) ℝ) := by
    apply Matrix.inv_eq_right_inv
    ext i j; fin_cases i <;> fin_cases j <;> simp [Matrix.mul_apply, Fin.sum_univ_two]
  simp only [Detector.detyz_to_xy_pzzm]
  rw [hinv]
  generalize detz_size - 1 = a at *
  generalize dety_size - 1 = b at *
  ext i; fin_cases i <;>
    simp [Matrix.mulVec, dotProduct, Fin.sum_univ_two, clip_pos ha, clip_pos hb,
      min_eq_left (neg_nonpos.mpr ha), min_eq_left (neg_nonpos.mpr hb)] <;> ring

/-- C11 (closed form): `xy_to_detyz` for orientation [[-1,0],[0,-1]] and image sizes ≥ 1. -/
theorem xy_to_detyz_mzzm_eq (coor : Fin 2 → ℝ) (dety_size detz_size : ℝ) (hy : 1 ≤ dety_size) (hz : 1 ≤ detz_size) :
    Detector.xy_to_detyz_mzzm coor dety_size detz_size = ![-coor 1 + (dety_size - 1), -coor 0 + (detz_size - 1)] := by
  have ha : 0 ≤ detz_size - 1 := by linarith
  have hb : 0 ≤ dety_size - 1 := by linarith
  unfold Detector.xy_to_detyz_mzzm
  generalize detz_size - 1 = a at *
  generalize dety_size - 1 = b at *
  ext i; fin_cases i <;>
    simp [Matrix.mulVec, dotProduct, Fin.sum_univ_two, clip_pos ha, clip_pos hb,
      min_eq_left (neg_nonpos.mpr ha), min_eq_left (neg_nonpos.mpr hb)] <;> ring

/-- C11 (closed form): `detyz_to_xy` for orientation [[-1,0],[0,-1]] and image sizes ≥ 1. -/
theorem detyz_to_xy_mzzm_eq (coor : Fin 2 → ℝ) (dety_size detz_size : ℝ) (hy : 1 ≤ dety_size) (hz : 1 ≤ detz_size) :
    Detector.detyz_to_xy_mzzm coor dety_size detz_size = ![-coor 1 + (detz_size - 1), -coor 0 + (dety_size - 1)] := by
  have ha : 0 ≤ detz_size - 1 := by linarith
  have hb : 0 ≤ dety_size - 1 := by linarith
  have hinv : (!![(-1 : ℝ), (0 : ℝ); (0 : ℝ), (-1 : ℝ)] : Matrix (Fin 2) (Fin 2) ℝ)⁻¹
      = (!![(-1 : ℝ), (0 : ℝ); (0 : ℝ), (-1 : ℝ)] : Matrix (Fin 2) (Fin 2) ℝ) := by
    apply Matrix.inv_eq_right_inv
    ext i j; fin_cases i <;> fin_cases j <;> simp [Matrix.mul_apply, Fin.sum_univ_two]
  simp only [Detector.detyz_to_xy_mzzm]
  rw [hinv]
  generalize detz_size - 1 = a at *
  generalize dety_size - 1 = b at *
  ext i; fin_cases i <;>
    simp [Matrix.mulVec, dotProduct, Fin.sum_univ_two, clip_pos ha, clip_pos hb,
      min_eq_left (neg_nonpos.mpr ha), min_eq_left (neg_nonpos.mpr hb)] <;> ring

/-- C11 (closed form): `xy_to_detyz` for orientation [[0,1],[1,0]] and image sizes ≥ 1. -/
theorem xy_to_detyz_zppz_eq (coor : Fin 2 → ℝ) (dety_size detz_size : ℝ) (hy : 1 ≤ dety_size) (hz : 1 ≤ detz_size) :
    Detector.xy_to_detyz_zppz coor dety_size detz_size = ![coor 0, coor 1] := by
  have ha : 0 ≤ detz_size - 1 := by linarith
  have hb : 0 ≤ dety_size - 1 := by linarith
  unfold Detector.xy_to_detyz_zppz
  generalize detz_size - 1 = a at *
  generalize dety_size - 1 = b at *
  ext i; fin_cases i <;>
    simp [Matrix.mulVec, dotProduct, Fin.sum_univ_two, clip_pos ha, clip_pos hb,
      min_eq_left (neg_nonpos.mpr ha), min_eq_left (neg_nonpos.mpr hb)] <;> ring

/-- C11 (closed form): `detyz_to_xy` for orientation [[0,1],[1,0]] and image sizes ≥ 1. -/
theorem detyz_to_xy_zppz_eq (coor : Fin 2 → ℝ) (dety_size detz_size : ℝ) (hy : 1 ≤ dety_size) (hz : 1 ≤ detz_size) :
    Detector.detyz_to_xy_zppz coor dety_size detz_size = ![coor 0, coor 1] := by
  have ha : 0 ≤ detz_size - 1 := by linarith
  have hb : 0 ≤ dety_size - 1 := by linarith
  have hinv : (!![(0 : ℝ), (1 : ℝ); (1 : ℝ), (0 : ℝ)] : Matrix (Fin 2) (Fin 2) ℝ)⁻¹
      = (!![(0 : ℝ), (1 : ℝ); (1 : ℝ), (0 : ℝ)] : Matrix (Fin 2) (Fin 2) ℝ) := by
    apply Matrix.inv_eq_right_inv
    ext i j; fin_cases i <;> fin_cases j <;> simp [Matrix.mul_apply, Fin.sum_univ_two]
  simp only [Detector.detyz_to_xy_zppz]
  rw [hinv]
  generalize detz_size - 1 = a at *
  generalize dety_size - 1 = b at *
  ext i; fin_cases i <;>
    simp [Matrix.mulVec, dotProduct, Fin.sum_univ_two, clip_pos ha, clip_pos hb,
      min_eq_left (neg_nonpos.mpr ha), min_eq_left (neg_nonpos.mpr hb)] <;> ring

/-- C11 (closed form): `xy_to_detyz` for orientation [[0,-1],[-1,0]] and image sizes ≥ 1. -/
theorem xy_to_detyz_zmmz_eq (coor : Fin 2 → ℝ) (dety_size detz_size : ℝ) (hy : 1 ≤ dety_size) (hz : 1 ≤ detz_size) :
    Detector.xy_to_detyz_zmmz coor dety_size detz_size = ![-coor 0 + (detz_size - 1), -coor 1 + (dety_size - 1)] := by
  have ha : 0 ≤ detz_size - 1 := by linarith
  have hb : 0 ≤ dety_size - 1 := by linarith
  unfold Detector.xy_to_detyz_zmmz
  generalize detz_size - 1 = a at *
  generalize dety_size - 1 = b at *
  ext i; fin_cases i <;>
    simp [Matrix.mulVec, dotProduct, Fin.sum_univ_two, clip_pos ha, clip_pos hb,
      min_eq_left (neg_nonpos.mpr ha), min_eq_left (neg_nonpos.mpr hb)] <;> ring

/-- C11 (closed form): `detyz_to_xy` for orientation [[0,-1],[-1,0]] and image sizes ≥ 1. -/
theorem detyz_to_xy_zmmz_eq (coor : Fin 2 → ℝ) (dety_size detz_size : ℝ) (hy : 1 ≤ dety_size) (hz : 1 ≤ detz_size) :
    Detector.detyz_to_xy_zmmz coor dety_size detz_size = ![-coor 0 + (detz_size - 1), -coor 1 + (dety_size - 1)] := by
  have ha : 0 ≤ detz_size - 1 := by linarith
  have hb : 0 ≤ dety_size - 1 := by linarith
  have hinv : (!![(0 : ℝ), (-1 : ℝ); (-1 : ℝ), (0 : ℝ)] : Matrix (Fin 2) (Fin 2) ℝ)⁻¹
      = (!![(0 : ℝ), (-1 : ℝ); (-1 : ℝ), (0 : ℝ)] : Matrix (Fin 2) (Fin 2) ℝ) := by
    apply Matrix.inv_eq_right_inv
    ext i j; fin_cases i <;> fin_cases j <;> simp [Matrix.mul_apply, Fin.sum_univ_two]
  simp only [Detector.detyz_to_xy_zmmz]
  rw [hinv]
  generalize detz_size - 1 = a at *
  generalize dety_size - 1 = b at *
  ext i; fin_cases i <;>
    simp [Matrix.mulVec, dotProduct, Fin.sum_univ_two, clip_pos ha, clip_pos hb,
      min_eq_left (neg_nonpos.mpr ha), min_eq_left (neg_nonpos.mpr hb)] <;> ring

/-- C11 (closed form): `xy_to_detyz` for orientation [[0,-1],[1,0]] and image sizes ≥ 1. -/
theorem xy_to_detyz_zmpz_eq (coor : Fin 2 → ℝ) (dety_size detz_size : ℝ) (hy : 1 ≤ dety_size) (hz : 1 ≤ detz_size) :
    Detector.xy_to_detyz_zmpz coor dety_size detz_size = ![coor 0, -coor 1 + (dety_size - 1)] := by
  have ha : 0 ≤ detz_size - 1 := by linarith
  have hb : 0 ≤ dety_size - 1 := by linarith
  unfold Detector.xy_to_detyz_zmpz
  generalize detz_size - 1 = a at *
  generalize dety_size - 1 = b at *
  ext i; fin_cases i <;>
    simp [Matrix.mulVec, dotProduct, Fin.sum_univ_two, clip_pos ha, clip_pos hb,
      min_eq_left (neg_nonpos.mpr ha), min_eq_left (neg_nonpos.mpr hb)] <;> ring

/-- C11 (closed form): `detyz_to_xy` for orientation [[0,-1],[1,0]] and image sizes ≥ 1. -/
theorem detyz_to_xy_zmpz_eq (coor : Fin 2 → ℝ) (dety_size detz_size : ℝ) (hy : 1 ≤ dety_size) (hz : 1 ≤ detz_size) :
    Detector.detyz_to_xy_zmpz coor dety_size detz_size = ![coor 0, -coor 1 + (dety_size - 1)] := by
  have ha : 0 ≤ detz_size - 1 := by linarith
  have hb : 0 ≤ dety_size - 1 := by linarith
  have hinv : (!![(0 : ℝ), (-1 : ℝ); (1 : ℝ), (0 : ℝ)] : Matrix (Fin 2) (Fin 2) ℝ)⁻¹
      = (!![(0 : ℝ), (1 : ℝ); (-1 : ℝ), (0 : ℝ)] : Matrix (Fin 2) (Fin 2) ℝ) := by
    apply Matrix.inv_eq_right_inv
    ext i j; fin_cases i <;> fin_cases j <;> simp [Matrix.mul_apply, Fin.sum_univ_two]
  simp only [Detector.detyz_to_xy_zmpz]
  rw [hinv]
  generalize detz_size - 1 = a at *
  generalize dety_size - 1 = b at *
  ext i; fin_cases i <;>
    simp [Matrix.mulVec, dotProduct, Fin.sum_univ_two, clip_pos ha, clip_pos hb,
      min_eq_left (neg_nonpos.mpr ha), min_eq_left (neg_nonpos.mpr hb)] <;> ring

/-- C11 (closed form): `xy_to_detyz` for orientation [[0,1],[-1,0]] and image sizes ≥ 1. -/
theorem xy_to_detyz_zpmz_eq (coor : Fin 2 → ℝ) (dety_size detz_size : ℝ) (hy : 1 ≤ dety_size) (hz : 1 ≤ detz_size) :
    Detector.xy_to_detyz_zpmz coor dety_size detz_size = ![-coor 0 + (detz_size - 1), coor 1] := by
  have ha : 0 ≤ detz_size - 1 := by linarith
  have hb : 0 ≤ dety_size - 1 := by linarith
  unfold Detector.xy_to_detyz_zpmz
  generalize detz_size - 1 = a at *
  generalize dety_size - 1 = b at *
  ext i; fin_cases i <;>
    simp [Matrix.mulVec, dotProduct, Fin.sum_univ_two, clip_pos ha, clip_pos hb,
      min_eq_left (neg_nonpos.mpr ha), min_eq_left (neg_nonpos.mpr hb)] <;> ring

/-- C11 (closed form): `detyz_to_xy` for orientation [[0,1],[-1,0]] and image sizes ≥ 1. -/
theorem detyz_to_xy_zpmz_eq (coor : Fin 2 → ℝ) (dety_size detz_size : ℝ) (hy : 1 ≤ dety_size) (hz : 1 ≤ detz_size) :
    Detector.detyz_to_xy_zpmz coor dety_size detz_size = ![-coor 0 + (detz_size - 1), coor 1] := by
  have ha : 0 ≤ detz_size - 1 := by linarith
  have hb : 0 ≤ dety_size - 1 := by linarith
  have hinv : (!![(0 : ℝ), (1 : ℝ); (-1 : ℝ), (0 : ℝ)] : Matrix (Fin 2) (Fin 2) ℝ)⁻¹
      = (!![(0 : ℝ), (-1 : ℝ); (1 : ℝ), (0 : ℝ)] : Matrix (Fin 2) (Fin 2) ℝ) := by
    apply Matrix.inv_eq_right_inv
    ext i j; fin_cases i <;> fin_cases j <;> simp [Matrix.mul_apply, Fin.sum_univ_two]
  simp only [Detector.detyz_to_xy_zpmz]
  rw [hinv]
  generalize detz_size - 1 = a at *
  generalize dety_size - 1 = b at *
  ext i; fin_cases i <;>
    simp [Matrix.mulVec, dotProduct, Fin.sum_univ_two, clip_pos ha, clip_pos hb,
      min_eq_left (neg_nonpos.mpr ha), min_eq_left (neg_nonpos.mpr hb)] <;> ring

/-! ### (dety, detz) <-> (eta, radpix) -/

namespace C11
/-! Closed forms of the two generated maps. Every later proof goes through these two lemmas, so the main
theorems never see the `let`/`if` layout of the generated bodies: the lemmas are proved by case analysis on the
two *conditions* (not on the syntactic if-tree) and `ring_nf`/`simp` normalisation (so `x*x` vs `x^2`, named
constants such as `rad2deg`, operand order and the nesting order of the `if`s are all immaterial). -/

lemma eta_and_radpix_to_detyz_eq (eta radpix yc zc : ℝ) :
    Detector.eta_and_radpix_to_detyz eta radpix yc zc
      = ![yc - radpix * Real.sin (eta * Real.pi / 180),
          zc + radpix * Real.cos (eta * Real.pi / 180)] := by
  simp only [Detector.eta_and_radpix_to_detyz]
  ext i; fin_cases i <;>
    simp only [Fin.zero_eta, Fin.mk_one, Fin.isValue, Matrix.cons_val_zero, Matrix.cons_val_one] <;>
    ring_nf

lemma detyz_to_eta_and_radpix_eq (coor : Fin 2 → ℝ) (yc zc : ℝ) :
    Detector.detyz_to_eta_and_radpix coor yc zc
      = ![if coor 0 - yc ≤ 0 then
            180 / Real.pi * Real.arccos
              (if Real.sqrt ((coor 0 - yc) ^ 2 + (coor 1 - zc) ^ 2) < 1 then 1
               else (coor 1 - zc) / Real.sqrt ((coor 0 - yc) ^ 2 + (coor 1 - zc) ^ 2))
          else
            360 - 180 / Real.pi * Real.arccos
              (if Real.sqrt ((coor 0 - yc) ^ 2 + (coor 1 - zc) ^ 2) < 1 then 1
               else (coor 1 - zc) / Real.sqrt ((coor 0 - yc) ^ 2 + (coor 1 - zc) ^ 2)),
          Real.sqrt ((coor 0 - yc) ^ 2 + (coor 1 - zc) ^ 2)] := by
  simp only [Detector.detyz_to_eta_and_radpix]
  by_cases h1 : Real.sqrt ((coor 0 - yc) ^ 2 + (coor 1 - zc) ^ 2) < 1 <;>
    by_cases h2 : coor 0 - yc ≤ 0 <;>
    ring_nf at h1 h2 ⊢ <;> simp [h1, h2]

end C11

/-- C11: `detyz_to_eta_and_radpix ∘ eta_and_radpix_to_detyz = id` for `radpix ≥ 1`, `0 ≤ eta ≤ 360`, up to the
identification 0 ≡ 360: in exact real arithmetic the endpoint `eta = 360` comes back as `0`
(`sin (2π) = 0`, so the code takes the `radcoor[0] <= 0` branch). -/
theorem eta_rad_inverse (eta radpix yc zc : ℝ) (hr : 1 ≤ radpix) (h0 : 0 ≤ eta) (h1 : eta ≤ 360) :
    Detector.detyz_to_eta_and_radpix (Detector.eta_and_radpix_to_detyz eta radpix yc zc) yc zc
      = ![if eta = 360 then 0 else eta, radpix] := by
  have hpi := Real.pi_pos
  have hpi0 : Real.pi ≠ 0 := ne_of_gt hpi
  have hr0 : 0 < radpix := by linarith
  set e : ℝ := eta * Real.pi / 180 with he
  have heta : eta = 180 / Real.pi * e := by rw [he]; field_simp
  have he0 : 0 ≤ e := by rw [he]; positivity
  have he1 : e ≤ 2 * Real.pi := by
    rw [he]; nlinarith
  have hc0 : yc - radpix * Real.sin e - yc = radpix * -Real.sin e := by ring
  have hc1 : zc + radpix * Real.cos e - zc = radpix * Real.cos e := by ring
  have hrad : Real.sqrt ((radpix * -Real.sin e) ^ 2 + (radpix * Real.cos e) ^ 2) = radpix := by
    have : (radpix * -Real.sin e) ^ 2 + (radpix * Real.cos e) ^ 2 = radpix ^ 2 := by
      linear_combination radpix ^ 2 * Real.sin_sq_add_cos_sq e
    rw [this, Real.sqrt_sq hr0.le]
  have hcos : radpix * Real.cos e / radpix = Real.cos e := by field_simp
  rw [detyz_to_eta_and_radpix_eq, eta_and_radpix_to_detyz_eq]
  simp only [Matrix.cons_val_zero, Matrix.cons_val_one, ← he]
  rw [hc0, hc1, hrad, if_neg (not_lt.mpr hr), hcos]
  by_cases hle : e ≤ Real.pi
  · -- eta ≤ 180
    have hs : 0 ≤ Real.sin e := Real.sin_nonneg_of_nonneg_of_le_pi he0 hle
    have hneg : radpix * -Real.sin e ≤ 0 := by nlinarith
    rw [if_pos hneg, Real.arccos_cos he0 hle, ← heta]
    have hne : eta ≠ 360 := by
      intro h
      rw [he, h] at hle
      nlinarith
    rw [if_neg hne]
  · replace hle := not_le.mp hle
    by_cases hlt : e < 2 * Real.pi
    · -- 180 < eta < 360
      have hs : Real.sin e < 0 := by
        have : Real.sin (e - Real.pi) = - Real.sin e := Real.sin_sub_pi e
        have hpos : 0 < Real.sin (e - Real.pi) :=
          Real.sin_pos_of_pos_of_lt_pi (by linarith) (by linarith)
        linarith
      have hpos : ¬ radpix * -Real.sin e ≤ 0 := not_le.mpr (by nlinarith)
      have hcos2 : Real.cos e = Real.cos (2 * Real.pi - e) := by
        rw [Real.cos_two_pi_sub]
      rw [if_neg hpos, hcos2, Real.arccos_cos (by linarith) (by linarith)]
      have hne : eta ≠ 360 := by
        intro h
        rw [he, h] at hlt
        nlinarith
      rw [if_neg hne]
      congr 1
      rw [heta]; field_simp; ring
    · -- eta = 360
      have he2 : e = 2 * Real.pi := le_antisymm he1 (not_lt.mp hlt)
      have h360 : eta = 360 := by rw [heta, he2]; field_simp; ring
      rw [he2, Real.sin_two_pi, Real.cos_two_pi, Real.arccos_one, if_pos h360]
      simp

/-- C11: `eta_and_radpix_to_detyz ∘ detyz_to_eta_and_radpix = id` for every detector point at distance ≥ 1 pixel
from the beam centre. -/
theorem detyz_eta_rad_inverse (coor : Fin 2 → ℝ) (yc zc : ℝ)
    (hr : 1 ≤ Real.sqrt ((coor 0 - yc) ^ 2 + (coor 1 - zc) ^ 2)) :
    Detector.eta_and_radpix_to_detyz (Detector.detyz_to_eta_and_radpix coor yc zc 0)
      (Detector.detyz_to_eta_and_radpix coor yc zc 1) yc zc = coor := by
  have hpi := Real.pi_pos
  have hpi0 : Real.pi ≠ 0 := ne_of_gt hpi
  set dy : ℝ := coor 0 - yc with hdy
  set dz : ℝ := coor 1 - zc with hdz
  set r : ℝ := Real.sqrt (dy ^ 2 + dz ^ 2) with hrdef
  have hr0 : 0 < r := by linarith
  have hr2 : r ^ 2 = dy ^ 2 + dz ^ 2 := Real.sq_sqrt (by positivity)
  have hx1 : -1 ≤ dz / r := by
    rw [le_div_iff₀ hr0]; nlinarith [sq_nonneg dy, sq_nonneg (r + dz)]
  have hx2 : dz / r ≤ 1 := by
    rw [div_le_iff₀ hr0]; nlinarith [sq_nonneg dy, sq_nonneg (r - dz)]
  have hsin : r * Real.sin (Real.arccos (dz / r)) = |dy| := by
    rw [Real.sin_arccos]
    have : 1 - (dz / r) ^ 2 = (dy / r) ^ 2 := by
      field_simp; linarith
    rw [this, Real.sqrt_sq_eq_abs, abs_div, abs_of_pos hr0]
    field_simp
  have hcos : r * Real.cos (Real.arccos (dz / r)) = dz := by
    rw [Real.cos_arccos hx1 hx2]; field_simp
  have hy : yc + dy = coor 0 := by rw [hdy]; ring
  have hz : zc + dz = coor 1 := by rw [hdz]; ring
  rw [detyz_to_eta_and_radpix_eq, eta_and_radpix_to_detyz_eq]
  simp only [Matrix.cons_val_zero, Matrix.cons_val_one]
  rw [← hdy, ← hdz, ← hrdef, if_neg (not_lt.mpr hr)]
  by_cases hle : dy ≤ 0
  · have hang : 180 / Real.pi * Real.arccos (dz / r) * Real.pi / 180 = Real.arccos (dz / r) := by
      field_simp
    rw [if_pos hle, hang, hsin, hcos, abs_of_nonpos hle, sub_neg_eq_add, hy, hz]
    ext i; fin_cases i <;> rfl
  · have hang : (360 - 180 / Real.pi * Real.arccos (dz / r)) * Real.pi / 180
        = 2 * Real.pi - Real.arccos (dz / r) := by
      field_simp; ring
    rw [if_neg hle, hang, Real.sin_two_pi_sub, Real.cos_two_pi_sub, mul_neg, hsin, hcos,
      abs_of_pos (not_le.mp hle), sub_neg_eq_add, hy, hz]
    ext i; fin_cases i <;> rfl

/-- hypotheses of `eta_rad_inverse` / `detyz_eta_rad_inverse` are satisfiable on non-trivial inputs, and the
endpoint `eta = 360` really is mapped to `0` by the real-number model. -/
example : (1 : ℝ) ≤ 5 ∧ (0 : ℝ) ≤ 270 ∧ (270 : ℝ) ≤ 360 := by norm_num

example : (1 : ℝ) ≤ Real.sqrt ((![(13 : ℝ), 24] 0 - 10) ^ 2 + (![(13 : ℝ), 24] 1 - 20) ^ 2) := by
  apply Real.le_sqrt_of_sq_le
  norm_num

example (yc zc : ℝ) :
    Detector.detyz_to_eta_and_radpix (Detector.eta_and_radpix_to_detyz 360 5 yc zc) yc zc = ![0, 5] := by
  rw [eta_rad_inverse 360 5 yc zc (by norm_num) (by norm_num) (by norm_num)]
  simp

example : Detector.xy_to_detyz_zmpz ![3, 5] 100 200 = ![3, 94] := by
  rw [xy_to_detyz_zmpz_eq _ _ _ (by norm_num) (by norm_num)]
  ext i; fin_cases i <;> norm_num

end
