/-
C11 — tie by TRANSLATION for the image re-orientation functions.

`harness/gen_flip.py` executes the real `detector.trans_orientation` / `detector.image_flipping` of /repo on a recording image
(an object that only accepts `numpy.transpose / fliplr / flipud` and refuses any other use) for all 81 matrices over {-1,0,1}
and both flip directions, and writes what the code did as data: `Gen.FlipTable.trans`, `Gen.FlipTable.flipping`.  Because the
code cannot look at the image, the recorded sequence is what it does to an image of EVERY shape.

This file ties that table to the hand model `Flip.transOrientation / Flip.imageFlipping` (`Model/Flip.lean`), about which
`Proofs/C11.lean` proves the inverse laws and the pixel-map agreement for all shapes:

* `transOps / flipOps`                 the operation sequence of the hand model, as data;
* `transOrientation_eq_ops`, `imageFlipping_eq_ops`
                                       the hand model IS "apply that sequence" — for every image, every integer matrix entry;
* `trans_table_matches`, `flipping_table_matches`
                                       every row of the generated table equals the hand model's sequence (or both reject) — kernel-decided;
* `trans_table_complete`, `flipping_table_complete`
                                       the table has a row for every matrix over {-1,0,1} and both directions;
* `code_trans_eq_model`, `code_flipping_eq_model`
                                       hence: what the code does (`runRow`) to any image = what the hand model returns, for all 162 inputs;
* `code_trans_inverse(_rev)`, `code_flipping_inverse(_rev)`
                                       the property itself, stated on the generated table: for each of the eight valid matrices the
                                       recorded inverse-mode sequence undoes the recorded forward-mode sequence (and vice versa) on every
                                       image of every shape; `*_accepts_exactly_valid`: the other 73 matrices are rejected in both modes.

A change of one flip in one branch of the Python changes a generated constant, and `*_table_matches` stops type-checking.
-/
import XfabVerif.Proofs.C11
import XfabVerif.Gen.FlipTable

namespace C11Table
open Flip Gen.FlipTable

variable {α : Type}

def applyOp (img : Img α) : Op → Img α
  | .T => img.transpose
  | .LR => img.fliplr
  | .UD => img.flipud

def applyOps (img : Img α) (ops : List Op) : Img α := ops.foldl applyOp img

/-- operation sequence of `Flip.transOrientation` -/
def transOps (o11 o12 o21 o22 : Int) (d : Dir) : Except Nat (List Op) :=
  if o11.natAbs = 1 then
    if o22.natAbs ≠ 1 ∨ o12 ≠ 0 ∨ o21 ≠ 0 then .error 1
    else
      .ok ([.T] ++ (if o11 = -1 then (match d with | .forward => [.LR] | .inverse => [.UD]) else [])
               ++ (if o22 = -1 then (match d with | .forward => [.UD] | .inverse => [.LR]) else []))
  else if o12.natAbs = 1 then
    if o21.natAbs ≠ 1 ∨ o11 ≠ 0 ∨ o22 ≠ 0 then .error 2
    else .ok ((if o12 = -1 then [.LR] else []) ++ (if o21 = -1 then [.UD] else []))
  else .error 3

/-- operation sequence of `Flip.imageFlipping` -/
def flipOps (o11 o12 o21 o22 : Int) (d : Dir) : Except Nat (List Op) :=
  if o11.natAbs = 1 then
    if o22.natAbs ≠ 1 ∨ o12 ≠ 0 ∨ o21 ≠ 0 then .error 1
    else .ok ((if o11 = -1 then [.UD] else []) ++ (if o22 = -1 then [.LR] else []))
  else if o12.natAbs = 1 then
    if o21.natAbs ≠ 1 ∨ o11 ≠ 0 ∨ o22 ≠ 0 then .error 2
    else
      .ok ([.T] ++ (if o12 = -1 then (match d with | .forward => [.UD] | .inverse => [.LR]) else [])
               ++ (if o21 = -1 then (match d with | .forward => [.LR] | .inverse => [.UD]) else []))
  else .error 3

/-- the hand model of `trans_orientation` is "apply `transOps`", for every image and all integer entries -/
theorem transOrientation_eq_ops (img : Img α) (o11 o12 o21 o22 : Int) (d : Dir) :
    transOrientation img o11 o12 o21 o22 d = (transOps o11 o12 o21 o22 d).map (applyOps img) := by
  unfold transOrientation transOps
  by_cases h1 : o11.natAbs = 1
  · by_cases h2 : (o22.natAbs ≠ 1 ∨ o12 ≠ 0 ∨ o21 ≠ 0)
    · simp [h1, h2, Except.map]
    · obtain ⟨e1, e2, e3⟩ : o22.natAbs = 1 ∧ o12 = 0 ∧ o21 = 0 := by simpa [not_or] using h2
      by_cases a : o11 = -1 <;> by_cases b : o22 = -1 <;> cases d <;>
        simp [h1, e1, e2, e3, a, b, Except.map, applyOps, applyOp]
  · by_cases h3 : o12.natAbs = 1
    · by_cases h4 : (o21.natAbs ≠ 1 ∨ o11 ≠ 0 ∨ o22 ≠ 0)
      · simp [h1, h3, h4, Except.map]
      · obtain ⟨e1, e2, e3⟩ : o21.natAbs = 1 ∧ o11 = 0 ∧ o22 = 0 := by simpa [not_or] using h4
        by_cases a : o12 = -1 <;> by_cases b : o21 = -1 <;>
          simp [h3, e1, e2, e3, a, b, Except.map, applyOps, applyOp]
    · simp [h1, h3, Except.map]

/-- the hand model of `image_flipping` is "apply `flipOps`" -/
theorem imageFlipping_eq_ops (img : Img α) (o11 o12 o21 o22 : Int) (d : Dir) :
    imageFlipping img o11 o12 o21 o22 d = (flipOps o11 o12 o21 o22 d).map (applyOps img) := by
  unfold imageFlipping flipOps
  by_cases h1 : o11.natAbs = 1
  · by_cases h2 : (o22.natAbs ≠ 1 ∨ o12 ≠ 0 ∨ o21 ≠ 0)
    · simp [h1, h2, Except.map]
    · obtain ⟨e1, e2, e3⟩ : o22.natAbs = 1 ∧ o12 = 0 ∧ o21 = 0 := by simpa [not_or] using h2
      by_cases a : o11 = -1 <;> by_cases b : o22 = -1 <;>
        simp [h1, e1, e2, e3, a, b, Except.map, applyOps, applyOp]
  · by_cases h3 : o12.natAbs = 1
    · by_cases h4 : (o21.natAbs ≠ 1 ∨ o11 ≠ 0 ∨ o22 ≠ 0)
      · simp [h1, h3, h4, Except.map]
      · obtain ⟨e1, e2, e3⟩ : o21.natAbs = 1 ∧ o11 = 0 ∧ o22 = 0 := by simpa [not_or] using h4
        by_cases a : o12 = -1 <;> by_cases b : o21 = -1 <;> cases d <;>
          simp [h3, e1, e2, e3, a, b, Except.map, applyOps, applyOp]
    · simp [h1, h3, Except.map]

/-! ### the generated table against the hand model -/

def dirOf (fwd : Bool) : Dir := if fwd then .forward else .inverse

@[simp] lemma dirOf_true : dirOf true = .forward := rfl
@[simp] lemma dirOf_false : dirOf false = .inverse := rfl

def toOpt : Except Nat (List Op) → Option (List Op)
  | .ok l => some l
  | .error _ => none

/-- a row of the generated table agrees with an operation-sequence function -/
def rowOk (ops : Int → Int → Int → Int → Dir → Except Nat (List Op)) (r : Row) : Bool :=
  decide (toOpt (ops r.1.1 r.1.2.1 r.1.2.2.1 r.1.2.2.2 (dirOf r.2.1)) = r.2.2)

theorem trans_table_matches : Gen.FlipTable.trans.all (rowOk transOps) = true := by decide +kernel

theorem flipping_table_matches : Gen.FlipTable.flipping.all (rowOk flipOps) = true := by decide +kernel

def tri : List Int := [-1, 0, 1]

/-- every matrix over {-1,0,1} and both directions has a row -/
def complete (t : List Row) : Bool :=
  tri.all fun a => tri.all fun b => tri.all fun c => tri.all fun d => [true, false].all fun f =>
    t.any fun r => decide (r.1 = (a, b, c, d)) && decide (r.2.1 = f)

theorem trans_table_complete : complete Gen.FlipTable.trans = true := by decide +kernel

theorem flipping_table_complete : complete Gen.FlipTable.flipping = true := by decide +kernel

/-- what the recorded code does to an image: `none` = ValueError -/
def runRow (img : Img α) (r : Row) : Option (Img α) := r.2.2.map (applyOps img)

def toOptImg : Except Nat (Img α) → Option (Img α)
  | .ok i => some i
  | .error _ => none

lemma toOptImg_map (e : Except Nat (List Op)) (img : Img α) :
    toOptImg (e.map (applyOps img)) = (toOpt e).map (applyOps img) := by
  cases e <;> rfl

/-- the code (as recorded) and the hand model agree on every row, for every image of every shape -/
theorem code_trans_eq_model (img : Img α) : ∀ r ∈ Gen.FlipTable.trans,
    runRow img r = toOptImg (transOrientation img r.1.1 r.1.2.1 r.1.2.2.1 r.1.2.2.2 (dirOf r.2.1)) := by
  intro r hr
  have h := List.all_eq_true.mp trans_table_matches r hr
  simp only [rowOk, decide_eq_true_eq] at h
  rw [transOrientation_eq_ops, toOptImg_map, h, runRow]

theorem code_flipping_eq_model (img : Img α) : ∀ r ∈ Gen.FlipTable.flipping,
    runRow img r = toOptImg (imageFlipping img r.1.1 r.1.2.1 r.1.2.2.1 r.1.2.2.2 (dirOf r.2.1)) := by
  intro r hr
  have h := List.all_eq_true.mp flipping_table_matches r hr
  simp only [rowOk, decide_eq_true_eq] at h
  rw [imageFlipping_eq_ops, toOptImg_map, h, runRow]

/-! ### the property on the generated table -/

/-- look a row up -/
def find (t : List Row) (o : Int × Int × Int × Int) (fwd : Bool) : Option (List Op) :=
  match t.find? (fun r => decide (r.1 = o) && decide (r.2.1 = fwd)) with
  | some r => r.2.2
  | none => none

/-- accepted exactly for the eight listed matrices, in both directions -/
def acceptOk (t : List Row) : Bool :=
  t.all fun r => (r.2.2.isSome == isListed r.1.1 r.1.2.1 r.1.2.2.1 r.1.2.2.2)

theorem trans_accepts_exactly_valid : acceptOk Gen.FlipTable.trans = true := by decide +kernel
theorem flipping_accepts_exactly_valid : acceptOk Gen.FlipTable.flipping = true := by decide +kernel

/-- **C11 on the generated table (trans_orientation)**: for each of the eight valid matrices, whatever rows the table holds for the
forward and the inverse direction, running the recorded forward sequence and then the recorded inverse sequence gives back the image
(same shape, same pixels) — for every image of every shape. -/
theorem code_trans_inverse (img : Img α) : ∀ o ∈ validOrientations, ∀ rf ∈ Gen.FlipTable.trans, ∀ ri ∈ Gen.FlipTable.trans,
    rf.1 = o → rf.2.1 = true → ri.1 = o → ri.2.1 = false →
    ∃ t b, runRow img rf = some t ∧ runRow t ri = some b ∧ b.Eqv img := by
  intro o ho rf hrf ri hri e1 f1 e2 f2
  obtain ⟨t, b, h1, h2, h3⟩ := trans_inverse img o ho
  refine ⟨t, b, ?_, ?_, h3⟩
  · rw [code_trans_eq_model img rf hrf, e1, f1, dirOf_true, h1]; rfl
  · rw [code_trans_eq_model t ri hri, e2, f2, dirOf_false, h2]; rfl

/-- … and in the other order (inverse first, then forward) -/
theorem code_trans_inverse_rev (img : Img α) : ∀ o ∈ validOrientations, ∀ rf ∈ Gen.FlipTable.trans, ∀ ri ∈ Gen.FlipTable.trans,
    rf.1 = o → rf.2.1 = true → ri.1 = o → ri.2.1 = false →
    ∃ t b, runRow img ri = some t ∧ runRow t rf = some b ∧ b.Eqv img := by
  intro o ho rf hrf ri hri e1 f1 e2 f2
  obtain ⟨t, b, h1, h2, h3⟩ := trans_inverse_rev img o ho
  refine ⟨t, b, ?_, ?_, h3⟩
  · rw [code_trans_eq_model img ri hri, e2, f2, dirOf_false, h1]; rfl
  · rw [code_trans_eq_model t rf hrf, e1, f1, dirOf_true, h2]; rfl

/-- **C11 on the generated table (image_flipping)** -/
theorem code_flipping_inverse (img : Img α) : ∀ o ∈ validOrientations, ∀ rf ∈ Gen.FlipTable.flipping, ∀ ri ∈ Gen.FlipTable.flipping,
    rf.1 = o → rf.2.1 = true → ri.1 = o → ri.2.1 = false →
    ∃ t b, runRow img rf = some t ∧ runRow t ri = some b ∧ b.Eqv img := by
  intro o ho rf hrf ri hri e1 f1 e2 f2
  obtain ⟨t, b, h1, h2, h3⟩ := flip_inverse img o ho
  refine ⟨t, b, ?_, ?_, h3⟩
  · rw [code_flipping_eq_model img rf hrf, e1, f1, dirOf_true, h1]; rfl
  · rw [code_flipping_eq_model t ri hri, e2, f2, dirOf_false, h2]; rfl

theorem code_flipping_inverse_rev (img : Img α) : ∀ o ∈ validOrientations, ∀ rf ∈ Gen.FlipTable.flipping, ∀ ri ∈ Gen.FlipTable.flipping,
    rf.1 = o → rf.2.1 = true → ri.1 = o → ri.2.1 = false →
    ∃ t b, runRow img ri = some t ∧ runRow t rf = some b ∧ b.Eqv img := by
  intro o ho rf hrf ri hri e1 f1 e2 f2
  obtain ⟨t, b, h1, h2, h3⟩ := flip_inverse_rev img o ho
  refine ⟨t, b, ?_, ?_, h3⟩
  · rw [code_flipping_eq_model img ri hri, e2, f2, dirOf_false, h1]; rfl
  · rw [code_flipping_eq_model t rf hrf, e1, f1, dirOf_true, h2]; rfl

/-! ### the statements are not vacuous: the rows exist -/

example : ((0, -1, 1, 0), true, some [Op.LR]) ∈ Gen.FlipTable.trans := by decide
example : ((-1, 0, 0, 1), false, some [Op.T, Op.UD]) ∈ Gen.FlipTable.trans := by decide
example : ((0, -1, 1, 0), false, some [Op.T, Op.LR]) ∈ Gen.FlipTable.flipping := by decide

end C11Table
