/-
C12 — symmetry operators of the seven crystal systems (`xfab/symmetry.py`): `permutations(s)` and `rotations(s)` are
groups of order 1, 2, 4, 8, 6, 12, 24 of integer unimodular matrices, resp. proper rotations, paired by
rot[i]·B·perm[i] = B for conforming cells; the cached `ROTATIONS` equal `rotations()`; `Umis` returns rotation angles
whose multiset is invariant under symmetry-equivalent replacements, common rotations and swapping.

The tables are exported exactly (entries in ℤ resp. (ℤ + ℤ√3)/den) by `harness/gen_symmetry.py` into
`XfabVerif/Gen/Symmetry.lean`; the Boolean checks of `XfabVerif/Model/Symm.lean` are evaluated by the kernel
(`decide +kernel`) and lifted to `Matrix (Fin 3) (Fin 3) ℝ` (√3 = `Real.sqrt 3`) by the soundness lemmas below.
-/
import XfabVerif.Gen.ToolsReal
import XfabVerif.Spec.Basic
import XfabVerif.Gen.Symmetry
import Mathlib.NumberTheory.Real.Irrational
import Mathlib.Data.List.Perm.Subperm
open Matrix

set_option linter.unusedVariables false
set_option linter.style.longLine false
set_option linter.unusedSectionVars false
set_option linter.unusedSimpArgs false
set_option linter.unusedTactic false
set_option linter.unreachableTactic false
set_option linter.style.multiGoal false

namespace Symm
variable {α : Type}

abbrev M3 := Matrix (Fin 3) (Fin 3) ℝ

/-- the matrix of a `Symm.Mat` with its entries read through `f` -/
def Mat.toMatrix {R : Type} (f : α → R) (A : Mat α) : Matrix (Fin 3) (Fin 3) R :=
  !![f A.m00, f A.m01, f A.m02; f A.m10, f A.m11, f A.m12; f A.m20, f A.m21, f A.m22]

lemma Mat.beq_iff [BEq α] [LawfulBEq α] (A B : Mat α) : Mat.beq A B = true ↔ A = B := by
  cases A; cases B; simp [Mat.beq, and_assoc]

/-- `f` respects the arithmetic used by the model -/
structure Interp [Add α] [Sub α] [Mul α] {R : Type} [CommRing R] (f : α → R) : Prop where
  add : ∀ x y, f (x + y) = f x + f y
  sub : ∀ x y, f (x - y) = f x - f y
  mul : ∀ x y, f (x * y) = f x * f y

section interp
variable [Add α] [Sub α] [Mul α] {R : Type} [CommRing R] {f : α → R} (hf : Interp f)
include hf

lemma Mat.toMatrix_mul (A B : Mat α) : (A.mul B).toMatrix f = A.toMatrix f * B.toMatrix f := by
  ext i j; fin_cases i <;> fin_cases j <;>
    simp [Mat.toMatrix, Mat.mul, Matrix.mul_apply, Fin.sum_univ_three, hf.add, hf.mul]

lemma Mat.toMatrix_det (A : Mat α) : f A.det = (A.toMatrix f).det := by
  simp [Mat.toMatrix, Mat.det, Matrix.det_fin_three, hf.add, hf.mul, hf.sub]

lemma Mat.toMatrix_scale (d : α) (A : Mat α) : (A.scale d).toMatrix f = f d • A.toMatrix f := by
  ext i j; fin_cases i <;> fin_cases j <;> simp [Mat.toMatrix, Mat.scale, hf.mul]

end interp

lemma Mat.toMatrix_transpose {R : Type} (f : α → R) (A : Mat α) : A.transpose.toMatrix f = (A.toMatrix f)ᵀ := by
  ext i j; fin_cases i <;> fin_cases j <;> simp [Mat.toMatrix, Mat.transpose]

lemma Mat.toMatrix_diag {R : Type} [CommRing R] (f : α → R) (z d : α) (hz : f z = 0) :
    (Mat.diag z d).toMatrix f = f d • (1 : Matrix (Fin 3) (Fin 3) R) := by
  ext i j; fin_cases i <;> fin_cases j <;> simp [Mat.toMatrix, Mat.diag, hz]

lemma Mat.toMatrix_injective {R : Type} {f : α → R} (hinj : Function.Injective f) :
    Function.Injective (Mat.toMatrix f) := by
  intro A B h
  have e := fun i j => congrFun (congrFun h i) j
  have e00 := e 0 0; have e01 := e 0 1; have e02 := e 0 2
  have e10 := e 1 0; have e11 := e 1 1; have e12 := e 1 2
  have e20 := e 2 0; have e21 := e 2 1; have e22 := e 2 2
  cases A; cases B
  simp [Mat.toMatrix] at e00 e01 e02 e10 e11 e12 e20 e21 e22
  simp [hinj e00, hinj e01, hinj e02, hinj e10, hinj e11, hinj e12, hinj e20, hinj e21, hinj e22]

end Symm

namespace Symm
variable {α : Type}

/-- a finite group of 3×3 matrices, given as a duplicate-free list closed under product and inverse -/
structure IsMatGroup {R : Type} [CommRing R] (G : List (Matrix (Fin 3) (Fin 3) R)) : Prop where
  nodup : G.Nodup
  one_mem : 1 ∈ G
  mul_mem : ∀ A ∈ G, ∀ B ∈ G, A * B ∈ G
  inv_mem : ∀ A ∈ G, ∃ B ∈ G, A * B = 1 ∧ B * A = 1

lemma nodupB_sound [BEq α] [LawfulBEq α] : ∀ G : List (Mat α), nodupB G = true → G.Nodup
  | [], _ => List.nodup_nil
  | A :: l, h => by
    simp only [nodupB, Bool.and_eq_true, List.all_eq_true] at h
    refine List.nodup_cons.2 ⟨fun hm => ?_, nodupB_sound l h.2⟩
    have h1 := h.1 A hm
    have h2 : Mat.beq A A = true := (Mat.beq_iff A A).2 rfl
    simp [h2] at h1

/-- soundness of the Boolean group check: the interpreted matrices `c • (entries through f)`, where `c` is the
inverse of the (interpreted) common denominator, form a group -/
lemma isGroup_sound [Add α] [Sub α] [Mul α] [BEq α] [LawfulBEq α] {R : Type} [CommRing R] {f : α → R}
    (hf : Interp f) (hinj : Function.Injective f) (z d : α) (hz : f z = 0) (c : R) (hc : c * f d = 1)
    (G : List (Mat α)) (h : isGroup z d G = true) :
    IsMatGroup (G.map fun A => c • A.toMatrix f) := by
  simp only [isGroup, closedB, inversesB, Bool.and_eq_true, List.all_eq_true, List.any_eq_true,
    Mat.beq_iff] at h
  obtain ⟨⟨⟨hnd, A1, hA1, e1⟩, hcl⟩, hinv⟩ := h
  have hc' : f d * c = 1 := by rw [mul_comm]; exact hc
  have hsm : ∀ M : Matrix (Fin 3) (Fin 3) R, f d • c • M = M := fun M => by rw [smul_smul, hc', one_smul]
  have key : ∀ M : Matrix (Fin 3) (Fin 3) R, (c * c) • f d • M = c • M := fun M => by
    rw [smul_smul, mul_assoc, hc, mul_one]
  have key2 : (c * c) • f (d * d) • (1 : Matrix (Fin 3) (Fin 3) R) = 1 := by
    rw [smul_smul, hf.mul]
    have : c * c * (f d * f d) = (c * f d) * (c * f d) := by ring
    rw [this, hc, one_mul, one_smul]
  refine ⟨?_, ?_, ?_, ?_⟩
  · refine List.Nodup.map ?_ (nodupB_sound G hnd)
    intro A B hAB
    apply Mat.toMatrix_injective hinj
    have := congrArg (fun M => f d • M) hAB
    simpa only [hsm] using this
  · refine List.mem_map.2 ⟨A1, hA1, ?_⟩
    rw [e1, Mat.toMatrix_diag f z d hz, smul_smul, hc, one_smul]
  · intro A' hA' B' hB'
    obtain ⟨A, hA, rfl⟩ := List.mem_map.1 hA'
    obtain ⟨B, hB, rfl⟩ := List.mem_map.1 hB'
    obtain ⟨C, hC, e⟩ := hcl A hA B hB
    refine List.mem_map.2 ⟨C, hC, ?_⟩
    rw [Matrix.smul_mul, Matrix.mul_smul, smul_smul, ← Mat.toMatrix_mul hf, e, Mat.toMatrix_scale hf, key]
  · intro A' hA'
    obtain ⟨A, hA, rfl⟩ := List.mem_map.1 hA'
    obtain ⟨B, hB, e, e'⟩ := hinv A hA
    refine ⟨c • B.toMatrix f, List.mem_map.2 ⟨B, hB, rfl⟩, ?_, ?_⟩
    · rw [Matrix.smul_mul, Matrix.mul_smul, smul_smul, ← Mat.toMatrix_mul hf, e, Mat.toMatrix_diag f _ _ hz, key2]
    · rw [Matrix.smul_mul, Matrix.mul_smul, smul_smul, ← Mat.toMatrix_mul hf, e', Mat.toMatrix_diag f _ _ hz, key2]

/-- soundness of `allProper`: every interpreted matrix is orthogonal with determinant one -/
lemma allProper_sound [Add α] [Sub α] [Mul α] [BEq α] [LawfulBEq α] {R : Type} [CommRing R] {f : α → R}
    (hf : Interp f) (z d : α) (hz : f z = 0) (c : R) (hc : c * f d = 1)
    (G : List (Mat α)) (h : allProper z d G = true) :
    ∀ M ∈ G.map (fun A => c • A.toMatrix f), Mᵀ * M = 1 ∧ M.det = 1 := by
  intro M hM
  obtain ⟨A, hA, rfl⟩ := List.mem_map.1 hM
  simp only [allProper, isProper, List.all_eq_true, Bool.and_eq_true, Mat.beq_iff, beq_iff_eq] at h
  obtain ⟨e1, e2⟩ := h A hA
  constructor
  · rw [Matrix.transpose_smul, Matrix.smul_mul, Matrix.mul_smul, smul_smul, ← Mat.toMatrix_transpose,
      ← Mat.toMatrix_mul hf, e1, Mat.toMatrix_diag f _ _ hz, smul_smul, hf.mul]
    have : c * c * (f d * f d) = (c * f d) * (c * f d) := by ring
    rw [this, hc, one_mul, one_smul]
  · rw [Matrix.det_smul, ← Mat.toMatrix_det hf, e2, hf.mul, hf.mul]
    simp only [Fintype.card_fin]
    have : c ^ 3 * (f d * f d * f d) = (c * f d) ^ 3 := by ring
    rw [this, hc, one_pow]

end Symm

namespace Symm

/-- `⟨a, b⟩ ↦ a + b·√3` -/
noncomputable def Z3.toReal (x : Z3) : ℝ := (x.a : ℝ) + (x.b : ℝ) * Real.sqrt 3

lemma sqrt3_sq : Real.sqrt 3 * Real.sqrt 3 = 3 := Real.mul_self_sqrt (by norm_num)

/-- the interpretation is a ring homomorphism ℤ[√3] → ℝ: it is multiplicative because (√3)² = 3 -/
lemma Z3.interp : Interp Z3.toReal where
  add x y := by
    show Z3.toReal (Z3.add x y) = _
    simp only [Z3.toReal, Z3.add]; push_cast; ring
  sub x y := by
    show Z3.toReal (Z3.sub x y) = _
    simp only [Z3.toReal, Z3.sub]; push_cast; ring
  mul x y := by
    show Z3.toReal (Z3.mul x y) = _
    simp only [Z3.toReal, Z3.mul]; push_cast
    linear_combination (-((x.b : ℝ) * (y.b : ℝ))) * sqrt3_sq

/-- … and injective, because √3 is irrational -/
lemma Z3.toReal_injective : Function.Injective Z3.toReal := by
  intro x y h
  have hirr : Irrational (Real.sqrt 3) := by
    have := Nat.Prime.irrational_sqrt Nat.prime_three
    simpa using this
  simp only [Z3.toReal] at h
  have hb : x.b = y.b := by
    by_contra hne
    have hne' : x.b - y.b ≠ 0 := sub_ne_zero.2 hne
    have h1 := (hirr.intCast_mul hne').ne_int (y.a - x.a)
    apply h1; push_cast; linarith
  have ha : x.a = y.a := by
    have : (x.a : ℝ) = (y.a : ℝ) := by rw [hb] at h; linarith
    exact_mod_cast this
  cases x; cases y; simp_all

lemma Z3.toReal_ofInt (n : ℤ) : Z3.toReal (Z3.ofInt n) = n := by simp [Z3.toReal, Z3.ofInt]

lemma intId_interp : Interp (fun x : ℤ => x) := ⟨fun _ _ => rfl, fun _ _ => rfl, fun _ _ => rfl⟩
lemma intCast_interp : Interp (fun x : ℤ => (x : ℝ)) :=
  ⟨fun _ _ => by push_cast; ring, fun _ _ => by push_cast; ring, fun _ _ => by push_cast; ring⟩

/-- `permutations(s)` as integer matrices -/
def permZ (s : ℕ) : List (Matrix (Fin 3) (Fin 3) ℤ) := (perm s).map (Mat.toMatrix fun x : ℤ => x)

/-- `permutations(s)` as real matrices -/
def permR (s : ℕ) : List (Matrix (Fin 3) (Fin 3) ℝ) := (perm s).map (Mat.toMatrix fun x : ℤ => (x : ℝ))

/-- a scaled ℤ[√3] table read as real matrices: entry `⟨a, b⟩` ↦ `(a + b·√3) / den` -/
noncomputable def realTable (den : ℤ) (G : List (Mat Z3)) : List (Matrix (Fin 3) (Fin 3) ℝ) :=
  G.map fun A => ((den : ℝ))⁻¹ • A.toMatrix Z3.toReal

/-- `rotations(s)` as real matrices -/
noncomputable def rotR (s : ℕ) : List (Matrix (Fin 3) (Fin 3) ℝ) := realTable (rotDen s) (rot s)

/-- the module constant `ROTATIONS[s]` as real matrices -/
noncomputable def cachedR (s : ℕ) : List (Matrix (Fin 3) (Fin 3) ℝ) := realTable (cachedDen s) (cached s)

lemma permR_eq (s : ℕ) : permR s = (permZ s).map (fun M => M.map (fun x : ℤ => (x : ℝ))) := by
  simp only [permR, permZ, List.map_map]
  refine List.map_congr_left fun A _ => ?_
  ext i j; fin_cases i <;> fin_cases j <;> simp [Mat.toMatrix]

/-- what `perm_group_s` states: order, group of integer matrices, unimodular -/
def PermGroup (s n : ℕ) : Prop :=
  (permZ s).length = n ∧ IsMatGroup (permZ s) ∧ ∀ P ∈ permZ s, P.det = 1 ∨ P.det = -1

lemma permGroup_of (s n : ℕ) (h1 : (perm s).length = n) (h2 : isGroup (0 : ℤ) 1 (perm s) = true)
    (h3 : allUnimodular (perm s) = true) : PermGroup s n := by
  refine ⟨by simpa [permZ] using h1, ?_, ?_⟩
  · have := isGroup_sound intId_interp (fun _ _ h => h) (0 : ℤ) 1 rfl 1 rfl (perm s) h2
    simpa [permZ] using this
  · intro P hP
    obtain ⟨A, hA, rfl⟩ := List.mem_map.1 hP
    simp only [allUnimodular, List.all_eq_true, Bool.or_eq_true, beq_iff_eq] at h3
    have := h3 A hA
    rwa [Mat.toMatrix_det intId_interp] at this

/-- what `rot_group_s` states: order and group of real matrices -/
def RotGroup (s n : ℕ) : Prop := (rotR s).length = n ∧ IsMatGroup (rotR s)

lemma den_cancel {d : ℤ} (hd : d ≠ 0) : ((d : ℝ))⁻¹ * Z3.toReal (Z3.ofInt d) = 1 := by
  rw [Z3.toReal_ofInt]; exact inv_mul_cancel₀ (by exact_mod_cast hd)

lemma rotGroup_of (s n : ℕ) (hd : rotDen s ≠ 0) (h1 : (rot s).length = n)
    (h2 : isGroup (⟨0, 0⟩ : Z3) (Z3.ofInt (rotDen s)) (rot s) = true) : RotGroup s n := by
  refine ⟨by simpa [rotR, realTable] using h1, ?_⟩
  exact isGroup_sound Z3.interp Z3.toReal_injective ⟨0, 0⟩ (Z3.ofInt (rotDen s)) (by simp [Z3.toReal]) _
    (den_cancel hd) (rot s) h2

lemma rotProper_of (s : ℕ) (hd : rotDen s ≠ 0)
    (h : allProper (⟨0, 0⟩ : Z3) (Z3.ofInt (rotDen s)) (rot s) = true) : ∀ R ∈ rotR s, Spec.IsRot R :=
  allProper_sound Z3.interp ⟨0, 0⟩ (Z3.ofInt (rotDen s)) (by simp [Z3.toReal]) _ (den_cancel hd) (rot s) h

end Symm


namespace Symm


/-- `arccos((0.5 * t - 0.5).clip(-1, 1)) * 180/pi` — what the code does with the summed elementwise product `t` -/
noncomputable def angOf (t : ℝ) : ℝ := Real.arccos (min 1 (max (-1) (0.5 * t - 0.5))) * 180 / Real.pi

/-- the value `Umis` computes for one operator `R`: `rot[k] * dot(U1.T, U2)` is an ELEMENTWISE product, summed -/
noncomputable def umisVal (U1 U2 R : M3) : ℝ := angOf (∑ i, ∑ j, R i j * (U1ᵀ * U2) i j)

/-- rotation angle in degrees of a matrix `M`, from its trace: `arccos(clip((tr M - 1)/2)) * 180/π` -/
noncomputable def rotAngleDeg (M : M3) : ℝ := angOf M.trace

lemma had_sum_eq_trace (R M : M3) : ∑ i, ∑ j, R i j * M i j = (M * Rᵀ).trace := by
  simp only [Matrix.trace, Matrix.diag, Matrix.mul_apply, Matrix.transpose_apply]
  exact Finset.sum_congr rfl fun i _ => Finset.sum_congr rfl fun j _ => mul_comm _ _

lemma umisVal_eq (U1 U2 R : M3) : umisVal U1 U2 R = rotAngleDeg (U1ᵀ * U2 * Rᵀ) := by
  rw [umisVal, had_sum_eq_trace, rotAngleDeg]

lemma angOf_mem (t : ℝ) : 0 ≤ angOf t ∧ angOf t ≤ 180 := by
  unfold angOf
  have hp := Real.pi_pos
  have h0 := Real.arccos_nonneg (min 1 (max (-1) (0.5 * t - 0.5)))
  have h1 := Real.arccos_le_pi (min 1 (max (-1) (0.5 * t - 0.5)))
  constructor
  · positivity
  · rw [div_le_iff₀ hp]; nlinarith

lemma angOf_three : angOf 3 = 0 := by
  unfold angOf
  have : min 1 (max (-1) (0.5 * (3:ℝ) - 0.5)) = 1 := by norm_num
  rw [this, Real.arccos_one]; simp

/-- for `t ∈ [-1, 3]` the clip is inactive and `cos(angle) = (t - 1)/2` -/
lemma cos_angOf {t : ℝ} (h1 : -1 ≤ t) (h3 : t ≤ 3) : Real.cos (Spec.rad (angOf t)) = (t - 1) / 2 := by
  have hp := Real.pi_pos
  have hc : min 1 (max (-1) (0.5 * t - 0.5)) = (t - 1) / 2 := by
    rw [max_eq_right (by linarith), min_eq_right (by linarith)]; ring
  have : Spec.rad (angOf t) = Real.arccos ((t - 1) / 2) := by
    unfold Spec.rad angOf; rw [hc]; field_simp
  rw [this, Real.cos_arccos (by linarith) (by linarith)]

lemma adjugate_of_isRot {M : M3} (h : Spec.IsRot M) : M.adjugate = Mᵀ := by
  have h1 := Matrix.mul_adjugate M
  rw [h.2, one_smul] at h1
  calc M.adjugate = (Mᵀ * M) * M.adjugate := by rw [h.1, Matrix.one_mul]
    _ = Mᵀ := by rw [Matrix.mul_assoc, h1, Matrix.mul_one]

lemma cofactor_of_isRot {M : M3} (h : Spec.IsRot M) :
    M 0 0 = M 1 1 * M 2 2 - M 1 2 * M 2 1 ∧ M 1 1 = M 0 0 * M 2 2 - M 0 2 * M 2 0 ∧ M 2 2 = M 0 0 * M 1 1 - M 0 1 * M 1 0 := by
  have hadj := adjugate_of_isRot h
  have c0 : M.adjugate 0 0 = Mᵀ 0 0 := by rw [hadj]
  have c1 : M.adjugate 1 1 = Mᵀ 1 1 := by rw [hadj]
  have c2 : M.adjugate 2 2 = Mᵀ 2 2 := by rw [hadj]
  rw [Matrix.adjugate_fin_three] at c0 c1 c2
  simp at c0 c1 c2
  exact ⟨by linarith, by linarith, by linarith⟩

lemma colnorm_of_isRot {M : M3} (h : Spec.IsRot M) :
    M 0 0 * M 0 0 + M 1 0 * M 1 0 + M 2 0 * M 2 0 = 1 ∧ M 0 1 * M 0 1 + M 1 1 * M 1 1 + M 2 1 * M 2 1 = 1 ∧
    M 0 2 * M 0 2 + M 1 2 * M 1 2 + M 2 2 * M 2 2 = 1 := by
  have n0 := congrFun (congrFun h.1 0) 0
  have n1 := congrFun (congrFun h.1 1) 1
  have n2 := congrFun (congrFun h.1 2) 2
  simp [Matrix.mul_apply, Fin.sum_univ_three] at n0 n1 n2
  exact ⟨n0, n1, n2⟩

/-- the trace of a proper rotation lies in [-1, 3] -/
lemma trace_mem_of_isRot {M : M3} (h : Spec.IsRot M) : -1 ≤ M.trace ∧ M.trace ≤ 3 := by
  obtain ⟨c0, c1, c2⟩ := cofactor_of_isRot h
  obtain ⟨n0, n1, n2⟩ := colnorm_of_isRot h
  rw [Matrix.trace_fin_three]
  have key : 3 + 2 * (M 0 0 + M 1 1 + M 2 2) - (M 0 0 + M 1 1 + M 2 2) ^ 2
      = (M 0 1 - M 1 0) ^ 2 + (M 0 2 - M 2 0) ^ 2 + (M 1 2 - M 2 1) ^ 2 := by
    linear_combination (-1) * n0 + (-1) * n1 + (-1) * n2 + 2 * c0 + 2 * c1 + 2 * c2
  have d0 : M 0 0 ≤ 1 := by nlinarith [sq_nonneg (M 0 0 - 1), sq_nonneg (M 1 0), sq_nonneg (M 2 0)]
  have d1 : M 1 1 ≤ 1 := by nlinarith [sq_nonneg (M 1 1 - 1), sq_nonneg (M 0 1), sq_nonneg (M 2 1)]
  have d2 : M 2 2 ≤ 1 := by nlinarith [sq_nonneg (M 2 2 - 1), sq_nonneg (M 0 2), sq_nonneg (M 1 2)]
  refine ⟨?_, by linarith⟩
  generalize M 0 0 + M 1 1 + M 2 2 = t at key ⊢
  by_contra hlt
  rw [not_le] at hlt
  have hp : 0 < (3 - t) * (-(1 + t)) := mul_pos (by linarith) (by linarith)
  nlinarith [sq_nonneg (M 0 1 - M 1 0), sq_nonneg (M 0 2 - M 2 0), sq_nonneg (M 1 2 - M 2 1)]

/-- `rotAngleDeg` of a proper rotation is its rotation angle: θ ∈ [0°, 180°] with tr M = 1 + 2 cos θ -/
lemma rotAngleDeg_spec {M : M3} (h : Spec.IsRot M) :
    0 ≤ rotAngleDeg M ∧ rotAngleDeg M ≤ 180 ∧ M.trace = 1 + 2 * Real.cos (Spec.rad (rotAngleDeg M)) := by
  obtain ⟨h1, h3⟩ := trace_mem_of_isRot h
  refine ⟨(angOf_mem _).1, (angOf_mem _).2, ?_⟩
  rw [rotAngleDeg, cos_angOf h1 h3]; ring

end Symm

namespace Symm

lemma perm_map_of_injOn_of_mem {β : Type} {l : List β} (hnd : l.Nodup) (f : β → β)
    (hinj : ∀ x ∈ l, ∀ y ∈ l, f x = f y → x = y) (hmem : ∀ x ∈ l, f x ∈ l) : (l.map f).Perm l := by
  refine ((hnd.map_on hinj).subperm ?_).perm_of_length_le (by simp)
  intro y hy
  obtain ⟨x, hx, rfl⟩ := List.mem_map.1 hy
  exact hmem x hx

section generic
variable {G : List M3} (hG : IsMatGroup G)
include hG

/-- right multiplication by a group element permutes the group -/
lemma IsMatGroup.map_mul_right_perm {g : M3} (hg : g ∈ G) : (G.map (· * g)).Perm G := by
  obtain ⟨h, -, hgh, -⟩ := hG.inv_mem g hg
  refine perm_map_of_injOn_of_mem hG.nodup _ (fun A _ B _ e => ?_) (fun A hA => hG.mul_mem A hA g hg)
  have := congrArg (· * h) e
  simpa [Matrix.mul_assoc, hgh] using this

/-- left multiplication by a group element permutes the group -/
lemma IsMatGroup.map_mul_left_perm {g : M3} (hg : g ∈ G) : (G.map (g * ·)).Perm G := by
  obtain ⟨h, -, -, hhg⟩ := hG.inv_mem g hg
  refine perm_map_of_injOn_of_mem hG.nodup _ (fun A _ B _ e => ?_) (fun A hA => hG.mul_mem g hg A hA)
  have := congrArg (h * ·) e
  simpa [← Matrix.mul_assoc, hhg] using this

/-- replacing U1 by the symmetry-equivalent U1·g permutes the values -/
lemma umisList_sym_left (U1 U2 : M3) {g : M3} (hg : g ∈ G) :
    (G.map (umisVal (U1 * g) U2)).Perm (G.map (umisVal U1 U2)) := by
  have e : G.map (umisVal (U1 * g) U2) = (G.map (g * ·)).map (umisVal U1 U2) := by
    rw [List.map_map]
    refine List.map_congr_left fun R _ => ?_
    simp only [Function.comp, umisVal_eq, rotAngleDeg, Matrix.transpose_mul]
    rw [Matrix.mul_assoc, Matrix.mul_assoc, Matrix.trace_mul_comm]
    simp only [Matrix.mul_assoc]
  rw [e]
  exact (hG.map_mul_left_perm hg).map _

variable (ho : ∀ A ∈ G, Aᵀ * A = 1)
include ho

lemma IsMatGroup.transpose_mem {A : M3} (hA : A ∈ G) : Aᵀ ∈ G := by
  obtain ⟨B, hB, hAB, -⟩ := hG.inv_mem A hA
  have : Aᵀ = B := by
    calc Aᵀ = Aᵀ * (A * B) := by rw [hAB, Matrix.mul_one]
      _ = B := by rw [← Matrix.mul_assoc, ho A hA, Matrix.one_mul]
  rwa [this]

/-- inversion (= transposition) permutes a group of orthogonal matrices -/
lemma IsMatGroup.map_transpose_perm : (G.map Matrix.transpose).Perm G :=
  perm_map_of_injOn_of_mem hG.nodup _ (fun A _ B _ e => Matrix.transpose_injective e)
    (fun A hA => hG.transpose_mem ho hA)

/-- replacing U2 by the symmetry-equivalent U2·g permutes the values -/
lemma umisList_sym_right (U1 U2 : M3) {g : M3} (hg : g ∈ G) :
    (G.map (umisVal U1 (U2 * g))).Perm (G.map (umisVal U1 U2)) := by
  have hgt := hG.transpose_mem ho hg
  have e : G.map (umisVal U1 (U2 * g)) = (G.map (· * gᵀ)).map (umisVal U1 U2) := by
    rw [List.map_map]
    refine List.map_congr_left fun R _ => ?_
    simp only [Function.comp, umisVal_eq, rotAngleDeg, Matrix.transpose_mul, Matrix.transpose_transpose,
      Matrix.mul_assoc]
  rw [e]
  exact (hG.map_mul_right_perm hgt).map _

/-- swapping the two orientations permutes the values -/
lemma umisList_swap (U1 U2 : M3) : (G.map (umisVal U2 U1)).Perm (G.map (umisVal U1 U2)) := by
  have e : G.map (umisVal U2 U1) = (G.map Matrix.transpose).map (umisVal U1 U2) := by
    rw [List.map_map]
    refine List.map_congr_left fun R _ => ?_
    simp only [Function.comp, umisVal_eq, rotAngleDeg, Matrix.transpose_transpose]
    rw [← Matrix.trace_transpose]
    simp only [Matrix.transpose_mul, Matrix.transpose_transpose]
    rw [Matrix.trace_mul_comm, Matrix.mul_assoc]
  rw [e]
  exact (hG.map_transpose_perm ho).map _

end generic

/-- a common rotation (any orthogonal Q) of both orientations changes nothing -/
lemma umisVal_common (Q U1 U2 R : M3) (hQ : Qᵀ * Q = 1) : umisVal (Q * U1) (Q * U2) R = umisVal U1 U2 R := by
  unfold umisVal
  have : (Q * U1)ᵀ * (Q * U2) = U1ᵀ * U2 := by
    rw [Matrix.transpose_mul, Matrix.mul_assoc, ← Matrix.mul_assoc Qᵀ, hQ, Matrix.one_mul]
  rw [this]

/-- the identity operator gives angle 0 when both orientations coincide -/
lemma umisVal_self_one (U : M3) (hU : Uᵀ * U = 1) : umisVal U U 1 = 0 := by
  rw [umisVal_eq, hU, rotAngleDeg]
  simp only [Matrix.transpose_one, Matrix.mul_one, Matrix.trace_one, Fintype.card_fin]
  exact_mod_cast angOf_three

end Symm

namespace Symm

/-- index-wise pairing of `rotations(s)` with `permutations(s)` on a matrix `B`: rot[i] · B · perm[i] = B -/
def PairOK (Rs Ps : List M3) (B : M3) : Prop :=
  Rs.length = Ps.length ∧ ∀ (i : ℕ) (R P : M3), Rs[i]? = some R → Ps[i]? = some P → R * B * P = B

lemma PairOK.add {Rs Ps : List M3} {B C : M3} (hB : PairOK Rs Ps B) (hC : PairOK Rs Ps C) : PairOK Rs Ps (B + C) :=
  ⟨hB.1, fun i R P hR hP => by rw [Matrix.mul_add, Matrix.add_mul, hB.2 i R P hR hP, hC.2 i R P hR hP]⟩

lemma PairOK.smul {Rs Ps : List M3} {B : M3} (c : ℝ) (hB : PairOK Rs Ps B) : PairOK Rs Ps (c • B) :=
  ⟨hB.1, fun i R P hR hP => by rw [Matrix.mul_smul, Matrix.smul_mul, hB.2 i R P hR hP]⟩

lemma Mat.toMatrix_map_ofInt (P : Mat ℤ) : (P.map Z3.ofInt).toMatrix Z3.toReal = P.toMatrix (fun x : ℤ => (x : ℝ)) := by
  ext i j; fin_cases i <;> fin_cases j <;> simp [Mat.toMatrix, Mat.map, Z3.toReal_ofInt]

/-- soundness of the Boolean pairing check on one basis matrix -/
lemma pairB_sound (s : ℕ) (hd : rotDen s ≠ 0) (E : Mat Z3)
    (h : pairB (Z3.ofInt (rotDen s)) (rot s) (perm s) E = true) : PairOK (rotR s) (permR s) (E.toMatrix Z3.toReal) := by
  simp only [pairB, Bool.and_eq_true, beq_iff_eq, List.all_eq_true, Mat.beq_iff] at h
  refine ⟨by simpa [rotR, realTable, permR] using h.1, ?_⟩
  intro i R P hR hP
  simp only [rotR, realTable, permR, List.getElem?_map, Option.map_eq_some_iff] at hR hP
  obtain ⟨R0, hR0, rfl⟩ := hR
  obtain ⟨P0, hP0, rfl⟩ := hP
  have hz : (List.zip (rot s) (perm s))[i]? = some (R0, P0) := by
    rw [List.getElem?_zip_eq_some]; exact ⟨hR0, hP0⟩
  have e := h.2 (R0, P0) (List.mem_of_getElem? hz)
  have e' := congrArg (Mat.toMatrix Z3.toReal) e
  rw [Mat.toMatrix_mul Z3.interp, Mat.toMatrix_mul Z3.interp, Mat.toMatrix_scale Z3.interp, Mat.toMatrix_map_ofInt] at e'
  simp only at e'
  rw [Matrix.smul_mul, Matrix.smul_mul, e', smul_smul, den_cancel hd, one_smul]

lemma cos_90 : Real.cos (90 * Real.pi / 180) = 0 := by
  rw [show (90 : ℝ) * Real.pi / 180 = Real.pi / 2 by ring]; exact Real.cos_pi_div_two
lemma sin_90 : Real.sin (90 * Real.pi / 180) = 1 := by
  rw [show (90 : ℝ) * Real.pi / 180 = Real.pi / 2 by ring]; exact Real.sin_pi_div_two
/-- cos 120° = −1/2 -/
lemma cos_120 : Real.cos (120 * Real.pi / 180) = -(1 / 2) := by
  rw [show (120 : ℝ) * Real.pi / 180 = Real.pi - Real.pi / 3 by ring, Real.cos_pi_sub, Real.cos_pi_div_three]
/-- sin 120° = √3/2 -/
lemma sin_120 : Real.sin (120 * Real.pi / 180) = Real.sqrt 3 / 2 := by
  rw [show (120 : ℝ) * Real.pi / 180 = Real.pi - Real.pi / 3 by ring, Real.sin_pi_sub, Real.sin_pi_div_three]

/-- B of a monoclinic cell (α = γ = 90°): only the (0,2) off-diagonal entry survives -/
lemma B_shape_mono (cell : Fin 6 → ℝ) (h3 : cell 3 = 90) (h5 : cell 5 = 90) :
    Tools.form_b_mat cell = !![Tools.form_b_mat cell 0 0, 0, Tools.form_b_mat cell 0 2;
      0, Tools.form_b_mat cell 1 1, 0; 0, 0, Tools.form_b_mat cell 2 2] := by
  ext i j; fin_cases i <;> fin_cases j <;> simp [Tools.form_b_mat, h3, h5, cos_90, sin_90]

/-- B of an orthogonal cell is diagonal -/
lemma B_shape_ortho (cell : Fin 6 → ℝ) (h3 : cell 3 = 90) (h4 : cell 4 = 90) (h5 : cell 5 = 90) :
    Tools.form_b_mat cell = !![Tools.form_b_mat cell 0 0, 0, 0; 0, Tools.form_b_mat cell 1 1, 0; 0, 0, Tools.form_b_mat cell 2 2] := by
  ext i j; fin_cases i <;> fin_cases j <;> simp [Tools.form_b_mat, h3, h4, h5, cos_90, sin_90]

lemma B11_tetra (cell : Fin 6 → ℝ) (hv : Spec.ValidCell cell) (hab : cell 0 = cell 1)
    (h3 : cell 3 = 90) (h4 : cell 4 = 90) (h5 : cell 5 = 90) : Tools.form_b_mat cell 1 1 = Tools.form_b_mat cell 0 0 := by
  have ha := hv.a_pos.ne'
  have hc := hv.c_pos.ne'
  simp [Tools.form_b_mat, Tools.cell_volume, h3, h4, h5, ← hab, cos_90, sin_90]
  field_simp

lemma B22_cubic (cell : Fin 6 → ℝ) (hv : Spec.ValidCell cell) (hab : cell 0 = cell 1) (hac : cell 0 = cell 2)
    (h3 : cell 3 = 90) (h4 : cell 4 = 90) (h5 : cell 5 = 90) : Tools.form_b_mat cell 2 2 = Tools.form_b_mat cell 0 0 := by
  have ha := hv.a_pos.ne'
  simp [Tools.form_b_mat, Tools.cell_volume, h3, h4, h5, ← hab, ← hac, cos_90, sin_90]
  field_simp

lemma vol_hex (cell : Fin 6 → ℝ) (hab : cell 0 = cell 1)
    (h3 : cell 3 = 90) (h4 : cell 4 = 90) (h5 : cell 5 = 120) :
    Tools.cell_volume cell = cell 0 * cell 0 * cell 2 * (Real.sqrt 3 / 2) := by
  unfold Tools.cell_volume
  simp only []
  rw [h3, h4, h5, cos_90, cos_120, ← hab]
  have : (1 - 0 * 0 - 0 * 0 - (-(1 / 2)) * (-(1 / 2)) + 2 * 0 * 0 * (-(1 / 2)) : ℝ) = (Real.sqrt 3 / 2) ^ 2 := by
    rw [div_pow, Real.sq_sqrt (by norm_num)]; norm_num
  rw [this, Real.sqrt_sq (by positivity)]

/-- B of a hexagonal / trigonal cell (a = b, α = β = 90°, γ = 120°) -/
lemma B_shape_hex (cell : Fin 6 → ℝ) (hv : Spec.ValidCell cell) (hab : cell 0 = cell 1)
    (h3 : cell 3 = 90) (h4 : cell 4 = 90) (h5 : cell 5 = 120) :
    Tools.form_b_mat cell = !![Tools.form_b_mat cell 0 0, Tools.form_b_mat cell 0 0 / 2, 0;
      0, Tools.form_b_mat cell 0 0 * Real.sqrt 3 / 2, 0; 0, 0, Tools.form_b_mat cell 2 2] := by
  have ha := hv.a_pos.ne'
  have hc := hv.c_pos.ne'
  have h3pos : (0:ℝ) < Real.sqrt 3 := Real.sqrt_pos.2 (by norm_num)
  have h3ne := h3pos.ne'
  have hV := vol_hex cell hab h3 h4 h5
  ext i j; fin_cases i <;> fin_cases j <;>
    simp [Tools.form_b_mat, hV, h3, h4, h5, ← hab, cos_90, sin_90, cos_120, sin_120]
  · ring
  · field_simp

end Symm

namespace Symm

/-! basis matrices (over ℤ[√3]) of the spaces of conforming B matrices -/
def E00 : Mat Z3 := Mat.map Z3.ofInt ⟨1, 0, 0, 0, 0, 0, 0, 0, 0⟩
def E02 : Mat Z3 := Mat.map Z3.ofInt ⟨0, 0, 1, 0, 0, 0, 0, 0, 0⟩
def E11 : Mat Z3 := Mat.map Z3.ofInt ⟨0, 0, 0, 0, 1, 0, 0, 0, 0⟩
def E22 : Mat Z3 := Mat.map Z3.ofInt ⟨0, 0, 0, 0, 0, 0, 0, 0, 1⟩
def E0011 : Mat Z3 := Mat.map Z3.ofInt ⟨1, 0, 0, 0, 1, 0, 0, 0, 0⟩
def EI : Mat Z3 := Mat.map Z3.ofInt ⟨1, 0, 0, 0, 1, 0, 0, 0, 1⟩
/-- 2/x · (the a*, b* block of a hexagonal B): [[2, 1, 0], [0, √3, 0], [0, 0, 0]] -/
def Ehex : Mat Z3 := ⟨⟨2, 0⟩, ⟨1, 0⟩, ⟨0, 0⟩, ⟨0, 0⟩, ⟨0, 1⟩, ⟨0, 0⟩, ⟨0, 0⟩, ⟨0, 0⟩, ⟨0, 0⟩⟩

lemma pair_mono (s : ℕ) (hd : rotDen s ≠ 0) (x y z w : ℝ)
    (h1 : pairB (Z3.ofInt (rotDen s)) (rot s) (perm s) E00 = true)
    (h2 : pairB (Z3.ofInt (rotDen s)) (rot s) (perm s) E02 = true)
    (h3 : pairB (Z3.ofInt (rotDen s)) (rot s) (perm s) E11 = true)
    (h4 : pairB (Z3.ofInt (rotDen s)) (rot s) (perm s) E22 = true) :
    PairOK (rotR s) (permR s) !![x, 0, y; 0, z, 0; 0, 0, w] := by
  have e : !![x, 0, y; 0, z, 0; 0, 0, w] = x • E00.toMatrix Z3.toReal + y • E02.toMatrix Z3.toReal
      + z • E11.toMatrix Z3.toReal + w • E22.toMatrix Z3.toReal := by
    ext i j; fin_cases i <;> fin_cases j <;> simp [Mat.toMatrix, Mat.map, E00, E02, E11, E22, Z3.toReal_ofInt]
  rw [e]
  exact ((((pairB_sound s hd _ h1).smul x).add ((pairB_sound s hd _ h2).smul y)).add
    ((pairB_sound s hd _ h3).smul z)).add ((pairB_sound s hd _ h4).smul w)

lemma pair_diag (s : ℕ) (hd : rotDen s ≠ 0) (x z w : ℝ)
    (h1 : pairB (Z3.ofInt (rotDen s)) (rot s) (perm s) E00 = true)
    (h3 : pairB (Z3.ofInt (rotDen s)) (rot s) (perm s) E11 = true)
    (h4 : pairB (Z3.ofInt (rotDen s)) (rot s) (perm s) E22 = true) :
    PairOK (rotR s) (permR s) !![x, 0, 0; 0, z, 0; 0, 0, w] := by
  have e : !![x, 0, 0; 0, z, 0; 0, 0, w] = x • E00.toMatrix Z3.toReal
      + z • E11.toMatrix Z3.toReal + w • E22.toMatrix Z3.toReal := by
    ext i j; fin_cases i <;> fin_cases j <;> simp [Mat.toMatrix, Mat.map, E00, E11, E22, Z3.toReal_ofInt]
  rw [e]
  exact (((pairB_sound s hd _ h1).smul x).add ((pairB_sound s hd _ h3).smul z)).add ((pairB_sound s hd _ h4).smul w)

lemma pair_tetra (s : ℕ) (hd : rotDen s ≠ 0) (x w : ℝ)
    (h1 : pairB (Z3.ofInt (rotDen s)) (rot s) (perm s) E0011 = true)
    (h2 : pairB (Z3.ofInt (rotDen s)) (rot s) (perm s) E22 = true) :
    PairOK (rotR s) (permR s) !![x, 0, 0; 0, x, 0; 0, 0, w] := by
  have e : !![x, 0, 0; 0, x, 0; 0, 0, w] = x • E0011.toMatrix Z3.toReal + w • E22.toMatrix Z3.toReal := by
    ext i j; fin_cases i <;> fin_cases j <;> simp [Mat.toMatrix, Mat.map, E0011, E22, Z3.toReal_ofInt]
  rw [e]
  exact ((pairB_sound s hd _ h1).smul x).add ((pairB_sound s hd _ h2).smul w)

lemma pair_cubic (s : ℕ) (hd : rotDen s ≠ 0) (x : ℝ)
    (h1 : pairB (Z3.ofInt (rotDen s)) (rot s) (perm s) EI = true) :
    PairOK (rotR s) (permR s) !![x, 0, 0; 0, x, 0; 0, 0, x] := by
  have e : !![x, 0, 0; 0, x, 0; 0, 0, x] = x • EI.toMatrix Z3.toReal := by
    ext i j; fin_cases i <;> fin_cases j <;> simp [Mat.toMatrix, Mat.map, EI, Z3.toReal_ofInt]
  rw [e]
  exact (pairB_sound s hd _ h1).smul x

lemma pair_hex (s : ℕ) (hd : rotDen s ≠ 0) (x w : ℝ)
    (h1 : pairB (Z3.ofInt (rotDen s)) (rot s) (perm s) Ehex = true)
    (h2 : pairB (Z3.ofInt (rotDen s)) (rot s) (perm s) E22 = true) :
    PairOK (rotR s) (permR s) !![x, x / 2, 0; 0, x * Real.sqrt 3 / 2, 0; 0, 0, w] := by
  have e : !![x, x / 2, 0; 0, x * Real.sqrt 3 / 2, 0; 0, 0, w]
      = (x / 2) • Ehex.toMatrix Z3.toReal + w • E22.toMatrix Z3.toReal := by
    ext i j; fin_cases i <;> fin_cases j <;> simp [Mat.toMatrix, Mat.map, Ehex, E22, Z3.toReal, Z3.ofInt]; ring
  rw [e]
  exact ((pairB_sound s hd _ h1).smul _).add ((pairB_sound s hd _ h2).smul w)

end Symm


open Symm
set_option maxRecDepth 100000

/-- permutations(1) (triclinic): group of order 1 (closed, identity, inverses, no duplicates) of integer matrices with det = ±1 -/
theorem perm_group_1 : PermGroup 1 1 := permGroup_of 1 1 rfl (by decide +kernel) (by decide +kernel)

/-- permutations(2) (monoclinic): group of order 2 (closed, identity, inverses, no duplicates) of integer matrices with det = ±1 -/
theorem perm_group_2 : PermGroup 2 2 := permGroup_of 2 2 rfl (by decide +kernel) (by decide +kernel)

/-- permutations(3) (orthorhombic): group of order 4 (closed, identity, inverses, no duplicates) of integer matrices with det = ±1 -/
theorem perm_group_3 : PermGroup 3 4 := permGroup_of 3 4 rfl (by decide +kernel) (by decide +kernel)

/-- permutations(4) (tetragonal): group of order 8 (closed, identity, inverses, no duplicates) of integer matrices with det = ±1 -/
theorem perm_group_4 : PermGroup 4 8 := permGroup_of 4 8 rfl (by decide +kernel) (by decide +kernel)

/-- permutations(5) (trigonal): group of order 6 (closed, identity, inverses, no duplicates) of integer matrices with det = ±1 -/
theorem perm_group_5 : PermGroup 5 6 := permGroup_of 5 6 rfl (by decide +kernel) (by decide +kernel)

/-- permutations(6) (hexagonal): group of order 12 (closed, identity, inverses, no duplicates) of integer matrices with det = ±1 -/
theorem perm_group_6 : PermGroup 6 12 := permGroup_of 6 12 rfl (by decide +kernel) (by decide +kernel)

/-- permutations(7) (cubic): group of order 24 (closed, identity, inverses, no duplicates) of integer matrices with det = ±1 -/
theorem perm_group_7 : PermGroup 7 24 := permGroup_of 7 24 rfl (by decide +kernel) (by decide +kernel)

/-- rotations(1) (triclinic): group of order 1 of real matrices -/
theorem rot_group_1 : RotGroup 1 1 := rotGroup_of 1 1 (by decide) rfl (by decide +kernel)

/-- rotations(2) (monoclinic): group of order 2 of real matrices -/
theorem rot_group_2 : RotGroup 2 2 := rotGroup_of 2 2 (by decide) rfl (by decide +kernel)

/-- rotations(3) (orthorhombic): group of order 4 of real matrices -/
theorem rot_group_3 : RotGroup 3 4 := rotGroup_of 3 4 (by decide) rfl (by decide +kernel)

/-- rotations(4) (tetragonal): group of order 8 of real matrices -/
theorem rot_group_4 : RotGroup 4 8 := rotGroup_of 4 8 (by decide) rfl (by decide +kernel)

/-- rotations(5) (trigonal): group of order 6 of real matrices -/
theorem rot_group_5 : RotGroup 5 6 := rotGroup_of 5 6 (by decide) rfl (by decide +kernel)

/-- rotations(6) (hexagonal): group of order 12 of real matrices -/
theorem rot_group_6 : RotGroup 6 12 := rotGroup_of 6 12 (by decide) rfl (by decide +kernel)

/-- rotations(7) (cubic): group of order 24 of real matrices -/
theorem rot_group_7 : RotGroup 7 24 := rotGroup_of 7 24 (by decide) rfl (by decide +kernel)

/-- every matrix of rotations(1) (triclinic) is a proper rotation: RᵀR = 1, det R = 1 (exact in ℚ(√3)) -/
theorem rot_proper_1 : ∀ R ∈ rotR 1, Spec.IsRot R := rotProper_of 1 (by decide) (by decide +kernel)

/-- every matrix of rotations(2) (monoclinic) is a proper rotation: RᵀR = 1, det R = 1 (exact in ℚ(√3)) -/
theorem rot_proper_2 : ∀ R ∈ rotR 2, Spec.IsRot R := rotProper_of 2 (by decide) (by decide +kernel)

/-- every matrix of rotations(3) (orthorhombic) is a proper rotation: RᵀR = 1, det R = 1 (exact in ℚ(√3)) -/
theorem rot_proper_3 : ∀ R ∈ rotR 3, Spec.IsRot R := rotProper_of 3 (by decide) (by decide +kernel)

/-- every matrix of rotations(4) (tetragonal) is a proper rotation: RᵀR = 1, det R = 1 (exact in ℚ(√3)) -/
theorem rot_proper_4 : ∀ R ∈ rotR 4, Spec.IsRot R := rotProper_of 4 (by decide) (by decide +kernel)

/-- every matrix of rotations(5) (trigonal) is a proper rotation: RᵀR = 1, det R = 1 (exact in ℚ(√3)) -/
theorem rot_proper_5 : ∀ R ∈ rotR 5, Spec.IsRot R := rotProper_of 5 (by decide) (by decide +kernel)

/-- every matrix of rotations(6) (hexagonal) is a proper rotation: RᵀR = 1, det R = 1 (exact in ℚ(√3)) -/
theorem rot_proper_6 : ∀ R ∈ rotR 6, Spec.IsRot R := rotProper_of 6 (by decide) (by decide +kernel)

/-- every matrix of rotations(7) (cubic) is a proper rotation: RᵀR = 1, det R = 1 (exact in ℚ(√3)) -/
theorem rot_proper_7 : ∀ R ∈ rotR 7, Spec.IsRot R := rotProper_of 7 (by decide) (by decide +kernel)

/-- the cached module constant ROTATIONS[s] equals rotations(s) (same exact entries, same denominator), every s -/
theorem rotations_cached : ∀ s, cached s = rot s ∧ cachedDen s = rotDen s := by
  intro s
  constructor <;> rfl


/-- rot[i]·B·perm[i] = B, triclinic: any cell (any matrix B) -/
theorem pairing_1 (cell : Fin 6 → ℝ) : PairOK (rotR 1) (permR 1) (Tools.form_b_mat cell) := by
  have hR : rotR 1 = [1] := by
    simp only [rotR, realTable, rot, rotDen, List.map_cons, List.map_nil]
    congr 1
    ext i j; fin_cases i <;> fin_cases j <;> simp [Mat.toMatrix, Z3.toReal]
  have hP : permR 1 = [1] := by
    simp only [permR, perm, List.map_cons, List.map_nil]
    congr 1
    ext i j; fin_cases i <;> fin_cases j <;> simp [Mat.toMatrix]
  rw [hR, hP]
  refine ⟨rfl, fun i R P hR hP => ?_⟩
  cases i with
  | zero => simp at hR hP; subst hR; subst hP; simp
  | succ n => simp at hR

/-- rot[i]·B·perm[i] = B, monoclinic cells (α = γ = 90°) -/
theorem pairing_2 (cell : Fin 6 → ℝ) (h3 : cell 3 = 90) (h5 : cell 5 = 90) :
    PairOK (rotR 2) (permR 2) (Tools.form_b_mat cell) := by
  rw [B_shape_mono cell h3 h5]
  exact pair_mono 2 (by decide) _ _ _ _ (by decide +kernel) (by decide +kernel) (by decide +kernel) (by decide +kernel)

/-- rot[i]·B·perm[i] = B, orthorhombic cells -/
theorem pairing_3 (cell : Fin 6 → ℝ) (h3 : cell 3 = 90) (h4 : cell 4 = 90) (h5 : cell 5 = 90) :
    PairOK (rotR 3) (permR 3) (Tools.form_b_mat cell) := by
  rw [B_shape_ortho cell h3 h4 h5]
  exact pair_diag 3 (by decide) _ _ _ (by decide +kernel) (by decide +kernel) (by decide +kernel)

/-- rot[i]·B·perm[i] = B, tetragonal cells (a = b) -/
theorem pairing_4 (cell : Fin 6 → ℝ) (hv : Spec.ValidCell cell) (hab : cell 0 = cell 1)
    (h3 : cell 3 = 90) (h4 : cell 4 = 90) (h5 : cell 5 = 90) :
    PairOK (rotR 4) (permR 4) (Tools.form_b_mat cell) := by
  rw [B_shape_ortho cell h3 h4 h5, B11_tetra cell hv hab h3 h4 h5]
  exact pair_tetra 4 (by decide) _ _ (by decide +kernel) (by decide +kernel)

/-- rot[i]·B·perm[i] = B, trigonal system with a hexagonal cell (a = b, α = β = 90°, γ = 120°) -/
theorem pairing_5 (cell : Fin 6 → ℝ) (hv : Spec.ValidCell cell) (hab : cell 0 = cell 1)
    (h3 : cell 3 = 90) (h4 : cell 4 = 90) (h5 : cell 5 = 120) :
    PairOK (rotR 5) (permR 5) (Tools.form_b_mat cell) := by
  rw [B_shape_hex cell hv hab h3 h4 h5]
  exact pair_hex 5 (by decide) _ _ (by decide +kernel) (by decide +kernel)

/-- rot[i]·B·perm[i] = B, hexagonal cells (a = b, α = β = 90°, γ = 120°) -/
theorem pairing_6 (cell : Fin 6 → ℝ) (hv : Spec.ValidCell cell) (hab : cell 0 = cell 1)
    (h3 : cell 3 = 90) (h4 : cell 4 = 90) (h5 : cell 5 = 120) :
    PairOK (rotR 6) (permR 6) (Tools.form_b_mat cell) := by
  rw [B_shape_hex cell hv hab h3 h4 h5]
  exact pair_hex 6 (by decide) _ _ (by decide +kernel) (by decide +kernel)

/-- rot[i]·B·perm[i] = B, cubic cells -/
theorem pairing_7 (cell : Fin 6 → ℝ) (hv : Spec.ValidCell cell) (hab : cell 0 = cell 1) (hac : cell 0 = cell 2)
    (h3 : cell 3 = 90) (h4 : cell 4 = 90) (h5 : cell 5 = 90) :
    PairOK (rotR 7) (permR 7) (Tools.form_b_mat cell) := by
  rw [B_shape_ortho cell h3 h4 h5, B11_tetra cell hv hab h3 h4 h5, B22_cubic cell hv hab hac h3 h4 h5]
  exact pair_cubic 7 (by decide) _ (by decide +kernel)

namespace Symm

/-- the angles column of `Umis(U1, U2, s)`: one value per operator of the cached table `ROTATIONS[s]` -/
noncomputable def UmisAngles (s : ℕ) (U1 U2 : M3) : List ℝ := (cachedR s).map (umisVal U1 U2)

/-- model of `xfab.symmetry.Umis(U1, U2, s)` (computation only; the input guard `_check_rotation_matrix`, active
when `CHECKS.activated`, is not part of it): the rows `(k, angle_k)`, `k = 0 … len(ROTATIONS[s]) - 1` -/
noncomputable def Umis (s : ℕ) (U1 U2 : M3) : List (ℕ × ℝ) :=
  (List.range (cachedR s).length).zip (UmisAngles s U1 U2)

lemma cachedR_eq (s : ℕ) : cachedR s = rotR s := by
  unfold cachedR rotR; rw [(rotations_cached s).1, (rotations_cached s).2]

lemma cached_rotGroup (s : ℕ) (hs : 1 ≤ s ∧ s ≤ 7) : IsMatGroup (cachedR s) ∧ ∀ R ∈ cachedR s, Spec.IsRot R := by
  rw [cachedR_eq]
  obtain ⟨h1, h7⟩ := hs
  obtain rfl | rfl | rfl | rfl | rfl | rfl | rfl : s = 1 ∨ s = 2 ∨ s = 3 ∨ s = 4 ∨ s = 5 ∨ s = 6 ∨ s = 7 := by omega
  · exact ⟨rot_group_1.2, rot_proper_1⟩
  · exact ⟨rot_group_2.2, rot_proper_2⟩
  · exact ⟨rot_group_3.2, rot_proper_3⟩
  · exact ⟨rot_group_4.2, rot_proper_4⟩
  · exact ⟨rot_group_5.2, rot_proper_5⟩
  · exact ⟨rot_group_6.2, rot_proper_6⟩
  · exact ⟨rot_group_7.2, rot_proper_7⟩

end Symm

/-- Umis returns the rows (k, angle_k), k the operator index, with angle_k ∈ [0°, 180°] equal to the rotation angle
`arccos(clip((tr M − 1)/2))` of M = U1ᵀ·U2·rot[k]ᵀ (the code's summed ELEMENTWISE product is tr(U1ᵀU2·rot[k]ᵀ)) -/
theorem umis_formula (s : ℕ) (U1 U2 : M3) :
    (Umis s U1 U2).map Prod.fst = List.range (cachedR s).length ∧
    (Umis s U1 U2).map Prod.snd = UmisAngles s U1 U2 ∧
    UmisAngles s U1 U2 = (cachedR s).map (fun R => rotAngleDeg (U1ᵀ * U2 * Rᵀ)) ∧
    ∀ a ∈ UmisAngles s U1 U2, 0 ≤ a ∧ a ≤ 180 := by
  refine ⟨?_, ?_, ?_, ?_⟩
  · exact List.map_fst_zip (by simp [UmisAngles])
  · exact List.map_snd_zip (by simp [UmisAngles])
  · exact List.map_congr_left fun R _ => umisVal_eq U1 U2 R
  · intro a ha
    obtain ⟨R, -, rfl⟩ := List.mem_map.1 ha
    exact angOf_mem _

/-- for proper rotations U1, U2 the matrix U1ᵀ·U2·rot[k]ᵀ is a proper rotation and the value returned for operator k
is its rotation angle θ: tr = 1 + 2 cos θ (the clip is inactive) -/
theorem umis_rotation_angle (s : ℕ) (hs : 1 ≤ s ∧ s ≤ 7) (U1 U2 : M3) (h1 : Spec.IsRot U1) (h2 : Spec.IsRot U2) :
    ∀ R ∈ cachedR s, Spec.IsRot (U1ᵀ * U2 * Rᵀ) ∧
      (U1ᵀ * U2 * Rᵀ).trace = 1 + 2 * Real.cos (Spec.rad (umisVal U1 U2 R)) := by
  intro R hR
  have hrot : Spec.IsRot (U1ᵀ * U2 * Rᵀ) := (h1.transpose.mul h2).mul ((cached_rotGroup s hs).2 R hR).transpose
  exact ⟨hrot, by rw [umisVal_eq]; exact (rotAngleDeg_spec hrot).2.2⟩

/-- the multiset of angles is unchanged when U2 is replaced by the symmetry-equivalent U2·rot[j] -/
theorem umis_sym_right (s : ℕ) (hs : 1 ≤ s ∧ s ≤ 7) (U1 U2 g : M3) (hg : g ∈ cachedR s) :
    (UmisAngles s U1 (U2 * g)).Perm (UmisAngles s U1 U2) :=
  umisList_sym_right (cached_rotGroup s hs).1 (fun A hA => ((cached_rotGroup s hs).2 A hA).1) U1 U2 hg

/-- the multiset of angles is unchanged when U1 is replaced by the symmetry-equivalent U1·rot[j] -/
theorem umis_sym_left (s : ℕ) (hs : 1 ≤ s ∧ s ≤ 7) (U1 U2 g : M3) (hg : g ∈ cachedR s) :
    (UmisAngles s (U1 * g) U2).Perm (UmisAngles s U1 U2) :=
  umisList_sym_left (cached_rotGroup s hs).1 U1 U2 hg

/-- rotating both orientations by a common orthogonal Q changes no row of the result -/
theorem umis_common (s : ℕ) (Q U1 U2 : M3) (hQ : Qᵀ * Q = 1) : Umis s (Q * U1) (Q * U2) = Umis s U1 U2 := by
  unfold Umis UmisAngles
  congr 1
  exact List.map_congr_left fun R _ => umisVal_common Q U1 U2 R hQ

/-- the multiset of angles is unchanged when the two orientations are swapped -/
theorem umis_swap (s : ℕ) (hs : 1 ≤ s ∧ s ≤ 7) (U1 U2 : M3) : (UmisAngles s U2 U1).Perm (UmisAngles s U1 U2) :=
  umisList_swap (cached_rotGroup s hs).1 (fun A hA => ((cached_rotGroup s hs).2 A hA).1) U1 U2

/-- Umis(U, U) contains the angle 0 (the identity is among the operators) -/
theorem umis_self_zero (s : ℕ) (hs : 1 ≤ s ∧ s ≤ 7) (U : M3) (hU : Uᵀ * U = 1) : (0 : ℝ) ∈ UmisAngles s U U :=
  List.mem_map.2 ⟨1, (cached_rotGroup s hs).1.one_mem, umisVal_self_one U hU⟩

example : Spec.IsRot (1 : M3) := ⟨by simp, by simp⟩

/-- the hypotheses of `pairing_5` / `pairing_6` are satisfiable: a hexagonal cell -/
example : Spec.ValidCell ![3, 3, 5, 90, 90, 120] ∧ (![3, 3, 5, 90, 90, 120] : Fin 6 → ℝ) 0 = ![3, 3, 5, 90, 90, 120] 1 := by
  refine ⟨⟨by simp, by simp, by simp, by simp; norm_num, by simp; norm_num, by simp; norm_num, ?_⟩, by simp⟩
  simp [Spec.gramD, Spec.rad, Symm.cos_90, Symm.cos_120]
  norm_num
