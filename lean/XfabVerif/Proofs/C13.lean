/-
C13: strain <-> B-matrix conversions of xfab.tools / xfab.laue
(`epsilon_to_b`, `b_to_epsilon`, the `_old` pair, `ubi_to_u_and_eps`).
Strain vector order: eps = [e11, e12, e13, e22, e23, e33].
-/
import XfabVerif.Gen.ToolsReal
import XfabVerif.Gen.LaueReal
import XfabVerif.Spec.Basic

set_option linter.unusedVariables false
set_option linter.style.longLine false
set_option linter.unusedSimpArgs false

open Matrix Spec

noncomputable section

namespace C13

abbrev M3 := Matrix (Fin 3) (Fin 3) ℝ

/-! ### Abstract versions of the generated formulas (B0 / A0inv abstract) -/

/-- the six independent entries of `sym(T) - I`, exactly as the generated code writes them -/
def symStrain (T : M3) : Fin 6 → ℝ :=
  (![((((5e-1 : ℝ) • (T + (Tᵀ))) 0 0) - 1), (((5e-1 : ℝ) • (T + (Tᵀ))) 0 1), (((5e-1 : ℝ) • (T + (Tᵀ))) 0 2), ((((5e-1 : ℝ) • (T + (Tᵀ))) 1 1) - 1), (((5e-1 : ℝ) • (T + (Tᵀ))) 1 2), ((((5e-1 : ℝ) • (T + (Tᵀ))) 2 2) - 1)] : (Fin 6 → ℝ))

/-- `b_to_epsilon` with the unstrained `B0` abstract -/
def bToEps (B0 B : M3) : Fin 6 → ℝ := symStrain (B0 * B⁻¹)

/-- the upper-triangular `Binv` that `epsilon_to_b` builds, with `B0` abstract -/
def binvOf (B0 : M3) (epsilon : Fin 6 → ℝ) : M3 :=
  let Binv_00 : ℝ := (((epsilon 0) + 1) / (B0 0 0))
  let Binv_11 : ℝ := (((epsilon 3) + 1) / (B0 1 1))
  let Binv_22 : ℝ := (((epsilon 5) + 1) / (B0 2 2))
  let Binv_01 : ℝ := (((2 * (epsilon 1)) - ((B0 0 1) * Binv_11)) / (B0 0 0))
  let Binv_12 : ℝ := (((2 * (epsilon 4)) - ((B0 1 2) * Binv_22)) / (B0 1 1))
  let Binv_02 : ℝ := ((((2 * (epsilon 2)) - ((B0 0 1) * Binv_12)) - ((B0 0 2) * Binv_22)) / (B0 0 0))
  (!![Binv_00, Binv_01, Binv_02; (0 : ℝ), Binv_11, Binv_12; (0 : ℝ), (0 : ℝ), Binv_22] : M3)

/-- `epsilon_to_b` with `B0` abstract -/
def epsToB (B0 : M3) (epsilon : Fin 6 → ℝ) : M3 := (binvOf B0 epsilon)⁻¹

/-- the upper-triangular `A` that `epsilon_to_b_old` builds, with `A0inv` abstract -/
def aOf (A0inv : M3) (epsilon : Fin 6 → ℝ) : M3 :=
  let A_00 : ℝ := (((epsilon 0) + 1) / (A0inv 0 0))
  let A_11 : ℝ := (((epsilon 3) + 1) / (A0inv 1 1))
  let A_22 : ℝ := (((epsilon 5) + 1) / (A0inv 2 2))
  let A_01 : ℝ := (((2 * (epsilon 1)) - (A_00 * (A0inv 0 1))) / (A0inv 1 1))
  let A_12 : ℝ := (((2 * (epsilon 4)) - (A_11 * (A0inv 1 2))) / (A0inv 2 2))
  let A_02 : ℝ := ((((2 * (epsilon 2)) - (A_00 * (A0inv 0 2))) - (A_01 * (A0inv 1 2))) / (A0inv 2 2))
  (!![A_00, A_01, A_02; (0 : ℝ), A_11, A_12; (0 : ℝ), (0 : ℝ), A_22] : M3)

/-! ### Bridges to the generated definitions -/

theorem tools_b_to_epsilon (B : M3) (cell : Fin 6 → ℝ) :
    Tools.b_to_epsilon B cell = bToEps (Tools.form_b_mat cell) B := rfl
theorem laue_b_to_epsilon (B : M3) (cell : Fin 6 → ℝ) :
    Laue.b_to_epsilon B cell = bToEps (Laue.form_b_mat cell) B := rfl
theorem tools_epsilon_to_b (eps cell : Fin 6 → ℝ) :
    Tools.epsilon_to_b eps cell = epsToB (Tools.form_b_mat cell) eps := rfl
theorem laue_epsilon_to_b (eps cell : Fin 6 → ℝ) :
    Laue.epsilon_to_b eps cell = epsToB (Laue.form_b_mat cell) eps := rfl
theorem tools_b_to_epsilon_old (B : M3) (cell : Fin 6 → ℝ) :
    Tools.b_to_epsilon_old B cell
      = symStrain (Tools.form_a_mat (Tools.b_to_cell B) * (Tools.form_a_mat cell)⁻¹) := rfl
theorem laue_b_to_epsilon_old (B : M3) (cell : Fin 6 → ℝ) :
    Laue.b_to_epsilon_old B cell
      = symStrain (Laue.form_a_mat (Laue.b_to_cell B) * (Laue.form_a_mat cell)⁻¹) := rfl
theorem tools_epsilon_to_b_old (eps cell : Fin 6 → ℝ) :
    Tools.epsilon_to_b_old eps cell
      = Tools.form_b_mat (Tools.a_to_cell (aOf (Tools.form_a_mat cell)⁻¹ eps)) := rfl
theorem laue_epsilon_to_b_old (eps cell : Fin 6 → ℝ) :
    Laue.epsilon_to_b_old eps cell
      = Laue.form_b_mat (Laue.a_to_cell (aOf (Laue.form_a_mat cell)⁻¹ eps)) := rfl

/-! ### Upper-triangular 3×3 algebra -/

/-- upper triangular with non-zero diagonal (what the algebra really needs) -/
def IsUpperNZ (B : M3) : Prop :=
  B 1 0 = 0 ∧ B 2 0 = 0 ∧ B 2 1 = 0 ∧ B 0 0 ≠ 0 ∧ B 1 1 ≠ 0 ∧ B 2 2 ≠ 0

theorem IsUpperNZ.of_pos {B : M3} (h : IsUpperPos B) : IsUpperNZ B :=
  ⟨h.1, h.2.1, h.2.2.1, h.2.2.2.1.ne', h.2.2.2.2.1.ne', h.2.2.2.2.2.ne'⟩

theorem IsUpperNZ.det {B : M3} (h : IsUpperNZ B) : B.det = B 0 0 * B 1 1 * B 2 2 := by
  obtain ⟨h10, h20, h21, -, -, -⟩ := h
  rw [Matrix.det_fin_three, h10, h20, h21]; ring

theorem IsUpperNZ.isUnit_det {B : M3} (h : IsUpperNZ B) : IsUnit B.det := by
  rw [h.det, isUnit_iff_ne_zero]
  obtain ⟨-, -, -, h0, h1, h2⟩ := h
  exact mul_ne_zero (mul_ne_zero h0 h1) h2

/-- explicit inverse of an upper-triangular matrix -/
def upperInv (B : M3) : M3 :=
  !![1 / B 0 0, -(B 0 1) / (B 0 0 * B 1 1), (B 0 1 * B 1 2 - B 0 2 * B 1 1) / (B 0 0 * B 1 1 * B 2 2);
     0, 1 / B 1 1, -(B 1 2) / (B 1 1 * B 2 2);
     0, 0, 1 / B 2 2]

theorem IsUpperNZ.inv_eq {B : M3} (h : IsUpperNZ B) : B⁻¹ = upperInv B := by
  obtain ⟨h10, h20, h21, h0, h1, h2⟩ := h
  apply Matrix.inv_eq_right_inv
  ext i j; fin_cases i <;> fin_cases j <;>
    simp [upperInv, Matrix.mul_apply, Fin.sum_univ_three, h10, h20, h21] <;> field_simp <;> ring

theorem IsUpperNZ.inv {B : M3} (h : IsUpperNZ B) : IsUpperNZ B⁻¹ := by
  rw [h.inv_eq]
  obtain ⟨h10, h20, h21, h0, h1, h2⟩ := h
  refine ⟨?_, ?_, ?_, ?_, ?_, ?_⟩ <;> simp [upperInv, h0, h1, h2]

theorem IsUpperPos.inv {B : M3} (h : IsUpperPos B) : IsUpperPos B⁻¹ := by
  rw [(IsUpperNZ.of_pos h).inv_eq]
  obtain ⟨h10, h20, h21, h0, h1, h2⟩ := h
  refine ⟨?_, ?_, ?_, ?_, ?_, ?_⟩ <;> simp [upperInv, h0, h1, h2]

theorem binvOf_upperNZ {B0 : M3} (hB0 : IsUpperNZ B0) {eps : Fin 6 → ℝ}
    (h0 : eps 0 + 1 ≠ 0) (h3 : eps 3 + 1 ≠ 0) (h5 : eps 5 + 1 ≠ 0) : IsUpperNZ (binvOf B0 eps) := by
  obtain ⟨h10, h20, h21, b0, b1, b2⟩ := hB0
  refine ⟨?_, ?_, ?_, ?_, ?_, ?_⟩ <;> simp [binvOf, h0, h3, h5, b0, b1, b2]

/-- core algebra of `b_to_epsilon ∘ epsilon_to_b`: the symmetric strain of `B0 * Binv` is `eps` -/
theorem symStrain_mul_binvOf {B0 : M3} (hB0 : IsUpperNZ B0) (eps : Fin 6 → ℝ) :
    symStrain (B0 * binvOf B0 eps) = eps := by
  obtain ⟨h10, h20, h21, b0, b1, b2⟩ := hB0
  funext k; fin_cases k <;>
    simp [symStrain, binvOf, Matrix.mul_apply, Fin.sum_univ_three, h10, h20, h21] <;>
    field_simp <;> ring

/-- core algebra of `epsilon_to_b ∘ b_to_epsilon`: an upper-triangular `C` is recovered from the
symmetric strain of `B0 * C` -/
theorem binvOf_symStrain {B0 C : M3} (hB0 : IsUpperNZ B0)
    (c10 : C 1 0 = 0) (c20 : C 2 0 = 0) (c21 : C 2 1 = 0) :
    binvOf B0 (symStrain (B0 * C)) = C := by
  obtain ⟨h10, h20, h21, b0, b1, b2⟩ := hB0
  ext i j; fin_cases i <;> fin_cases j <;>
    simp [symStrain, binvOf, Matrix.mul_apply, Fin.sum_univ_three, h10, h20, h21, c10, c20, c21] <;>
    field_simp <;> ring

/-- core algebra of the `_old` pair, direction eps → A → eps -/
theorem symStrain_aOf_mul {A0inv : M3} (hA : IsUpperNZ A0inv) (eps : Fin 6 → ℝ) :
    symStrain (aOf A0inv eps * A0inv) = eps := by
  obtain ⟨h10, h20, h21, b0, b1, b2⟩ := hA
  funext k; fin_cases k <;>
    simp only [symStrain, Matrix.smul_apply, Matrix.add_apply, Matrix.transpose_apply,
      Matrix.mul_apply, Fin.sum_univ_three] <;>
    simp [aOf, h10, h20, h21] <;>
    field_simp <;> ring

/-- core algebra of the `_old` pair, direction A → eps → A -/
theorem aOf_symStrain {A0inv A : M3} (hA0 : IsUpperNZ A0inv)
    (a10 : A 1 0 = 0) (a20 : A 2 0 = 0) (a21 : A 2 1 = 0) :
    aOf A0inv (symStrain (A * A0inv)) = A := by
  obtain ⟨h10, h20, h21, b0, b1, b2⟩ := hA0
  ext i j; fin_cases i <;> fin_cases j <;>
    simp [symStrain, aOf, Matrix.mul_apply, Fin.sum_univ_three, h10, h20, h21, a10, a20, a21] <;>
    field_simp <;> ring


theorem aOf_upperPos {A0inv : M3} (hA : IsUpperPos A0inv) {eps : Fin 6 → ℝ}
    (h0 : 0 < eps 0 + 1) (h3 : 0 < eps 3 + 1) (h5 : 0 < eps 5 + 1) : IsUpperPos (aOf A0inv eps) := by
  obtain ⟨h10, h20, h21, b0, b1, b2⟩ := hA
  refine ⟨?_, ?_, ?_, ?_, ?_, ?_⟩ <;> simp [aOf] <;> positivity

/-- Voigt-style vector of the six independent entries of a symmetric 3×3 matrix,
order `[e11, e12, e13, e22, e23, e33]` -/
def voigt (E : M3) : Fin 6 → ℝ := ![E 0 0, E 0 1, E 0 2, E 1 1, E 1 2, E 2 2]

theorem symStrain_eq (T : M3) : symStrain T = voigt ((1 / 2 : ℝ) • (T + Tᵀ) - 1) := by
  funext k; fin_cases k <;> simp [symStrain, voigt] <;> norm_num <;> ring

theorem symStrain_one : symStrain (1 : M3) = 0 := by
  funext k; fin_cases k <;> simp [symStrain] <;> norm_num

/-- what the (defective) `Tools.ubi_to_u_and_eps` turns a strain into: `k(ε + I) − I` -/
def scaleStrain (k : ℝ) (eps : Fin 6 → ℝ) : Fin 6 → ℝ :=
  ![k * (eps 0 + 1) - 1, k * eps 1, k * eps 2, k * (eps 3 + 1) - 1, k * eps 4, k * (eps 5 + 1) - 1]

theorem symStrain_smul (k : ℝ) (T : M3) : symStrain (k • T) = scaleStrain k (symStrain T) := by
  funext i; fin_cases i <;> simp [symStrain, scaleStrain] <;> ring

/-! ### Abstract round trips -/

theorem bToEps_epsToB {B0 : M3} (hB0 : IsUpperNZ B0) {eps : Fin 6 → ℝ}
    (h0 : eps 0 + 1 ≠ 0) (h3 : eps 3 + 1 ≠ 0) (h5 : eps 5 + 1 ≠ 0) :
    bToEps B0 (epsToB B0 eps) = eps := by
  unfold bToEps epsToB
  rw [Matrix.nonsing_inv_nonsing_inv _ (binvOf_upperNZ hB0 h0 h3 h5).isUnit_det]
  exact symStrain_mul_binvOf hB0 eps

theorem epsToB_bToEps {B0 B : M3} (hB0 : IsUpperNZ B0) (hB : IsUpperNZ B) :
    epsToB B0 (bToEps B0 B) = B := by
  unfold bToEps epsToB
  have hi := hB.inv
  rw [binvOf_symStrain hB0 hi.1 hi.2.1 hi.2.2.1, Matrix.nonsing_inv_nonsing_inv _ hB.isUnit_det]

theorem epsToB_zero {B0 : M3} (hB0 : IsUpperNZ B0) : epsToB B0 (fun _ => 0) = B0 := by
  have h : bToEps B0 B0 = fun _ => 0 := by
    unfold bToEps
    rw [Matrix.mul_nonsing_inv _ hB0.isUnit_det, symStrain_one]; rfl
  rw [← h]; exact epsToB_bToEps hB0 hB0

theorem epsToB_upperNZ {B0 : M3} (hB0 : IsUpperNZ B0) {eps : Fin 6 → ℝ}
    (h0 : eps 0 + 1 ≠ 0) (h3 : eps 3 + 1 ≠ 0) (h5 : eps 5 + 1 ≠ 0) : IsUpperNZ (epsToB B0 eps) :=
  (binvOf_upperNZ hB0 h0 h3 h5).inv

/-- for positive stretch `1 + ε_ii > 0` the strained B is again upper triangular with positive diagonal -/
theorem epsToB_upperPos {B0 : M3} (hB0 : IsUpperPos B0) {eps : Fin 6 → ℝ}
    (h0 : 0 < eps 0 + 1) (h3 : 0 < eps 3 + 1) (h5 : 0 < eps 5 + 1) : IsUpperPos (epsToB B0 eps) := by
  apply IsUpperPos.inv
  obtain ⟨h10, h20, h21, b0, b1, b2⟩ := hB0
  refine ⟨?_, ?_, ?_, ?_, ?_, ?_⟩ <;> simp [binvOf] <;> positivity

/-! ### Abstract UBI algebra -/

theorem rot_inv {U : M3} (hU : IsRot U) : U⁻¹ = Uᵀ := Matrix.inv_eq_left_inv hU.1

theorem rot_isUnit_det {U : M3} (hU : IsRot U) : IsUnit U.det := by rw [hU.2]; exact isUnit_one

theorem b_mul_ubi {U B : M3} (hU : IsRot U) (hB : IsUnit B.det) : B * (U * B)⁻¹ = Uᵀ := by
  rw [Matrix.mul_inv_rev, ← Matrix.mul_assoc, Matrix.mul_nonsing_inv _ hB, Matrix.one_mul, rot_inv hU]

theorem ubi_mul_u {U B : M3} (hU : IsRot U) : (U * B)⁻¹ * U = B⁻¹ := by
  rw [Matrix.mul_inv_rev, Matrix.mul_assoc, Matrix.nonsing_inv_mul _ (rot_isUnit_det hU), Matrix.mul_one]

end C13

open C13

/-! ## 1. The strain returned for a B matrix is `sym(B0 · B⁻¹) − I` -/

/-- C13(1, tools): `b_to_epsilon B cell` lists the entries 00,01,02,11,12,22 of `½(T + Tᵀ) − 1`, `T = B0 · B⁻¹`. -/
theorem b_to_epsilon_def_tools (B : Matrix (Fin 3) (Fin 3) ℝ) (cell : Fin 6 → ℝ) :
    Tools.b_to_epsilon B cell
      = C13.voigt ((1 / 2 : ℝ) • (Tools.form_b_mat cell * B⁻¹ + (Tools.form_b_mat cell * B⁻¹)ᵀ) - 1) := by
  rw [tools_b_to_epsilon]; exact symStrain_eq _

/-- C13(1, laue): `b_to_epsilon B cell` lists the entries 00,01,02,11,12,22 of `½(T + Tᵀ) − 1`, `T = B0 · B⁻¹`. -/
theorem b_to_epsilon_def_laue (B : Matrix (Fin 3) (Fin 3) ℝ) (cell : Fin 6 → ℝ) :
    Laue.b_to_epsilon B cell
      = C13.voigt ((1 / 2 : ℝ) • (Laue.form_b_mat cell * B⁻¹ + (Laue.form_b_mat cell * B⁻¹)ᵀ) - 1) := by
  rw [laue_b_to_epsilon]; exact symStrain_eq _

/-! ## 2. `b_to_epsilon ∘ epsilon_to_b = id` -/

/-- C13(2, tools): `b_to_epsilon (epsilon_to_b eps cell) cell = eps` whenever `1 + ε_ii ≠ 0`. -/
theorem eps_to_b_to_eps_tools (cell eps : Fin 6 → ℝ) (hB : IsUpperPos (Tools.form_b_mat cell))
    (h0 : eps 0 + 1 ≠ 0) (h3 : eps 3 + 1 ≠ 0) (h5 : eps 5 + 1 ≠ 0) :
    Tools.b_to_epsilon (Tools.epsilon_to_b eps cell) cell = eps := by
  rw [tools_epsilon_to_b, tools_b_to_epsilon]
  exact bToEps_epsToB (IsUpperNZ.of_pos hB) h0 h3 h5

/-- C13(2, laue): `b_to_epsilon (epsilon_to_b eps cell) cell = eps` whenever `1 + ε_ii ≠ 0`. -/
theorem eps_to_b_to_eps_laue (cell eps : Fin 6 → ℝ) (hB : IsUpperPos (Laue.form_b_mat cell))
    (h0 : eps 0 + 1 ≠ 0) (h3 : eps 3 + 1 ≠ 0) (h5 : eps 5 + 1 ≠ 0) :
    Laue.b_to_epsilon (Laue.epsilon_to_b eps cell) cell = eps := by
  rw [laue_epsilon_to_b, laue_b_to_epsilon]
  exact bToEps_epsToB (IsUpperNZ.of_pos hB) h0 h3 h5

/-- strain components bounded by 0.1 satisfy the guards `1 + ε_ii ≠ 0` (indeed `> 0`) -/
theorem C13.guard_of_small {eps : Fin 6 → ℝ} (h : ∀ k, |eps k| ≤ 0.1) (k : Fin 6) : 0 < eps k + 1 := by
  have := abs_le.mp (h k); norm_num at this; linarith [this.1]

/-- C13(2, tools), as worded in the property: strain components up to 0.1. -/
theorem eps_to_b_to_eps_small_tools (cell eps : Fin 6 → ℝ) (hB : IsUpperPos (Tools.form_b_mat cell))
    (h : ∀ k, |eps k| ≤ 0.1) : Tools.b_to_epsilon (Tools.epsilon_to_b eps cell) cell = eps :=
  eps_to_b_to_eps_tools cell eps hB (C13.guard_of_small h 0).ne' (C13.guard_of_small h 3).ne'
    (C13.guard_of_small h 5).ne'

/-- C13(2, laue), as worded in the property: strain components up to 0.1. -/
theorem eps_to_b_to_eps_small_laue (cell eps : Fin 6 → ℝ) (hB : IsUpperPos (Laue.form_b_mat cell))
    (h : ∀ k, |eps k| ≤ 0.1) : Laue.b_to_epsilon (Laue.epsilon_to_b eps cell) cell = eps :=
  eps_to_b_to_eps_laue cell eps hB (C13.guard_of_small h 0).ne' (C13.guard_of_small h 3).ne'
    (C13.guard_of_small h 5).ne'

/-! ## 3. `epsilon_to_b ∘ b_to_epsilon = id` on upper-triangular B -/

/-- C13(3, tools): `epsilon_to_b (b_to_epsilon B cell) cell = B` for every upper-triangular `B` with positive diagonal. -/
theorem b_to_eps_to_b_tools (cell : Fin 6 → ℝ) (B : Matrix (Fin 3) (Fin 3) ℝ)
    (hB0 : IsUpperPos (Tools.form_b_mat cell)) (hB : IsUpperPos B) :
    Tools.epsilon_to_b (Tools.b_to_epsilon B cell) cell = B := by
  rw [tools_b_to_epsilon, tools_epsilon_to_b]
  exact epsToB_bToEps (IsUpperNZ.of_pos hB0) (IsUpperNZ.of_pos hB)

/-- C13(3, laue): `epsilon_to_b (b_to_epsilon B cell) cell = B` for every upper-triangular `B` with positive diagonal. -/
theorem b_to_eps_to_b_laue (cell : Fin 6 → ℝ) (B : Matrix (Fin 3) (Fin 3) ℝ)
    (hB0 : IsUpperPos (Laue.form_b_mat cell)) (hB : IsUpperPos B) :
    Laue.epsilon_to_b (Laue.b_to_epsilon B cell) cell = B := by
  rw [laue_b_to_epsilon, laue_epsilon_to_b]
  exact epsToB_bToEps (IsUpperNZ.of_pos hB0) (IsUpperNZ.of_pos hB)

/-- C13(3, tools), sharper: a non-zero (not necessarily positive) diagonal of `B` suffices. -/
theorem b_to_eps_to_b_nz_tools (cell : Fin 6 → ℝ) (B : Matrix (Fin 3) (Fin 3) ℝ)
    (hB0 : IsUpperPos (Tools.form_b_mat cell))
    (h10 : B 1 0 = 0) (h20 : B 2 0 = 0) (h21 : B 2 1 = 0)
    (d0 : B 0 0 ≠ 0) (d1 : B 1 1 ≠ 0) (d2 : B 2 2 ≠ 0) :
    Tools.epsilon_to_b (Tools.b_to_epsilon B cell) cell = B := by
  rw [tools_b_to_epsilon, tools_epsilon_to_b]
  exact epsToB_bToEps (IsUpperNZ.of_pos hB0) ⟨h10, h20, h21, d0, d1, d2⟩

/-- C13(3, laue), sharper: a non-zero (not necessarily positive) diagonal of `B` suffices. -/
theorem b_to_eps_to_b_nz_laue (cell : Fin 6 → ℝ) (B : Matrix (Fin 3) (Fin 3) ℝ)
    (hB0 : IsUpperPos (Laue.form_b_mat cell))
    (h10 : B 1 0 = 0) (h20 : B 2 0 = 0) (h21 : B 2 1 = 0)
    (d0 : B 0 0 ≠ 0) (d1 : B 1 1 ≠ 0) (d2 : B 2 2 ≠ 0) :
    Laue.epsilon_to_b (Laue.b_to_epsilon B cell) cell = B := by
  rw [laue_b_to_epsilon, laue_epsilon_to_b]
  exact epsToB_bToEps (IsUpperNZ.of_pos hB0) ⟨h10, h20, h21, d0, d1, d2⟩

/-! ## 4. Zero strain gives the unstrained B -/

/-- C13(4, tools): `epsilon_to_b 0 cell = form_b_mat cell`. -/
theorem eps_zero_tools (cell : Fin 6 → ℝ) (hB0 : IsUpperPos (Tools.form_b_mat cell)) :
    Tools.epsilon_to_b (fun _ => 0) cell = Tools.form_b_mat cell := by
  rw [tools_epsilon_to_b]; exact epsToB_zero (IsUpperNZ.of_pos hB0)

/-- C13(4, laue): `epsilon_to_b 0 cell = form_b_mat cell`. -/
theorem eps_zero_laue (cell : Fin 6 → ℝ) (hB0 : IsUpperPos (Laue.form_b_mat cell)) :
    Laue.epsilon_to_b (fun _ => 0) cell = Laue.form_b_mat cell := by
  rw [laue_epsilon_to_b]; exact epsToB_zero (IsUpperNZ.of_pos hB0)

/-- C13(4, tools) converse direction: the unstrained B has zero strain. -/
theorem b0_to_eps_zero_tools (cell : Fin 6 → ℝ) (hB0 : IsUpperPos (Tools.form_b_mat cell)) :
    Tools.b_to_epsilon (Tools.form_b_mat cell) cell = fun _ => 0 := by
  rw [tools_b_to_epsilon]; unfold bToEps
  rw [Matrix.mul_nonsing_inv _ (IsUpperNZ.of_pos hB0).isUnit_det, symStrain_one]; rfl

/-- C13(4, laue) converse direction: the unstrained B has zero strain. -/
theorem b0_to_eps_zero_laue (cell : Fin 6 → ℝ) (hB0 : IsUpperPos (Laue.form_b_mat cell)) :
    Laue.b_to_epsilon (Laue.form_b_mat cell) cell = fun _ => 0 := by
  rw [laue_b_to_epsilon]; unfold bToEps
  rw [Matrix.mul_nonsing_inv _ (IsUpperNZ.of_pos hB0).isUnit_det, symStrain_one]; rfl

/-- C13 (auxiliary, tools): for `1 + ε_ii > 0` the strained B is upper triangular with positive diagonal. -/
theorem epsilon_to_b_upperPos_tools (cell eps : Fin 6 → ℝ) (hB0 : IsUpperPos (Tools.form_b_mat cell))
    (h0 : 0 < eps 0 + 1) (h3 : 0 < eps 3 + 1) (h5 : 0 < eps 5 + 1) :
    IsUpperPos (Tools.epsilon_to_b eps cell) := by
  rw [tools_epsilon_to_b]; exact epsToB_upperPos hB0 h0 h3 h5

/-- C13 (auxiliary, laue): for `1 + ε_ii > 0` the strained B is upper triangular with positive diagonal. -/
theorem epsilon_to_b_upperPos_laue (cell eps : Fin 6 → ℝ) (hB0 : IsUpperPos (Laue.form_b_mat cell))
    (h0 : 0 < eps 0 + 1) (h3 : 0 < eps 3 + 1) (h5 : 0 < eps 5 + 1) :
    IsUpperPos (Laue.epsilon_to_b eps cell) := by
  rw [laue_epsilon_to_b]; exact epsToB_upperPos hB0 h0 h3 h5

/-! ## 6. `ubi_to_u_and_eps`

`hcell` below is the C01/C02 fact "`form_b_mat (ubi_to_cell ubi)` recovers the (upper-triangular,
positive-diagonal) `B` from which `ubi` was built"; it is discharged in Proofs/C01.lean / C02.lean and
instantiated at integration time. -/

/-- C13(6, laue), matrix level: for a rotation `U` and any invertible `B` recovered by `ubi_to_cell`,
`ubi_to_u_and_eps ((U·B)⁻¹) cell = (U, b_to_epsilon B cell)`. -/
theorem ubi_to_u_and_eps_matrix_laue (U B : Matrix (Fin 3) (Fin 3) ℝ) (cell : Fin 6 → ℝ)
    (hU : IsRot U) (hB : IsUnit B.det)
    (hcell : Laue.form_b_mat (Laue.ubi_to_cell ((U * B)⁻¹)) = B) :
    Laue.ubi_to_u_and_eps ((U * B)⁻¹) cell = (U, Laue.b_to_epsilon B cell) := by
  simp only [Laue.ubi_to_u_and_eps]
  rw [hcell, b_mul_ubi hU hB, Matrix.transpose_transpose, ubi_mul_u hU,
    Matrix.nonsing_inv_nonsing_inv _ hB]

/-- C13(6, laue): `ubi_to_u_and_eps` applied to `(U · B)⁻¹` with `B = epsilon_to_b eps cell` returns `(U, eps)`. -/
theorem ubi_to_u_and_eps_laue (U : Matrix (Fin 3) (Fin 3) ℝ) (cell eps : Fin 6 → ℝ)
    (hU : IsRot U) (hB0 : IsUpperPos (Laue.form_b_mat cell))
    (h0 : eps 0 + 1 ≠ 0) (h3 : eps 3 + 1 ≠ 0) (h5 : eps 5 + 1 ≠ 0)
    (hcell : Laue.form_b_mat (Laue.ubi_to_cell ((U * Laue.epsilon_to_b eps cell)⁻¹))
      = Laue.epsilon_to_b eps cell) :
    Laue.ubi_to_u_and_eps ((U * Laue.epsilon_to_b eps cell)⁻¹) cell = (U, eps) := by
  have hdet : IsUnit (Laue.epsilon_to_b eps cell).det := by
    rw [laue_epsilon_to_b]; exact (epsToB_upperNZ (IsUpperNZ.of_pos hB0) h0 h3 h5).isUnit_det
  rw [ubi_to_u_and_eps_matrix_laue U _ cell hU hdet hcell, eps_to_b_to_eps_laue cell eps hB0 h0 h3 h5]

/-- C13(6, laue), phrased with the module's own `u_to_ubi`: if `cell'` is a (strained) cell whose B matrix is
`epsilon_to_b eps cell`, then `ubi_to_u_and_eps (u_to_ubi U cell') cell = (U, eps)`. -/
theorem ubi_to_u_and_eps_u_to_ubi_laue (U : Matrix (Fin 3) (Fin 3) ℝ) (cell cell' eps : Fin 6 → ℝ)
    (hU : IsRot U) (hB0 : IsUpperPos (Laue.form_b_mat cell))
    (h0 : eps 0 + 1 ≠ 0) (h3 : eps 3 + 1 ≠ 0) (h5 : eps 5 + 1 ≠ 0)
    (hcell' : Laue.form_b_mat cell' = Laue.epsilon_to_b eps cell)
    (hcell : Laue.form_b_mat (Laue.ubi_to_cell (Laue.u_to_ubi U cell')) = Laue.form_b_mat cell') :
    Laue.ubi_to_u_and_eps (Laue.u_to_ubi U cell') cell = (U, eps) := by
  have hu : Laue.u_to_ubi U cell' = (U * Laue.epsilon_to_b eps cell)⁻¹ := by
    rw [← hcell']; rfl
  rw [hu] at hcell ⊢
  rw [hcell'] at hcell
  exact ubi_to_u_and_eps_laue U cell eps hU hB0 h0 h3 h5 hcell

/-- C13(6, tools), matrix level — KNOWN FINDING: in the tools convention (`B` carries the factor 2π and
`ubi = 2π (U·B)⁻¹`) the function recovers `U` but passes `B/(2π)` instead of `B` to `b_to_epsilon`. -/
theorem ubi_to_u_and_eps_matrix_tools (U B : Matrix (Fin 3) (Fin 3) ℝ) (cell : Fin 6 → ℝ)
    (hU : IsRot U) (hB : IsUnit B.det)
    (hcell : Tools.form_b_mat (Tools.ubi_to_cell ((2 * Real.pi) • (U * B)⁻¹)) = B) :
    Tools.ubi_to_u_and_eps ((2 * Real.pi) • (U * B)⁻¹) cell
      = (U, Tools.b_to_epsilon ((2 * Real.pi)⁻¹ • B) cell) := by
  have hpi : (2 * Real.pi) ≠ 0 := by positivity
  simp only [Tools.ubi_to_u_and_eps]
  rw [hcell, Matrix.mul_smul, b_mul_ubi hU hB, Matrix.transpose_smul, Matrix.transpose_transpose,
    smul_smul, inv_mul_cancel₀ hpi, one_smul, Matrix.smul_mul, ubi_mul_u hU]
  have : ((2 * Real.pi) • B⁻¹)⁻¹ = (2 * Real.pi)⁻¹ • B := by
    apply Matrix.inv_eq_right_inv
    rw [Matrix.smul_mul, Matrix.mul_smul, smul_smul, mul_inv_cancel₀ hpi, one_smul,
      Matrix.nonsing_inv_mul _ hB]
  rw [this]

/-- C13(6, tools) PARTIAL — KNOWN FINDING (pinned by an upstream test): with `B = epsilon_to_b eps cell` and
`ubi = 2π (U·B)⁻¹` (tools' own convention) `ubi_to_u_and_eps` returns the right `U` but the strain
`2π(ε + I) − I` instead of `ε`. Missing w.r.t. the property: the strain component is NOT `eps`
(see `ubi_to_u_and_eps_tools_witness`); this is a defect of the Python code, not of the proof. -/
theorem ubi_to_u_and_eps_tools_partial (U : Matrix (Fin 3) (Fin 3) ℝ) (cell eps : Fin 6 → ℝ)
    (hU : IsRot U) (hB0 : IsUpperPos (Tools.form_b_mat cell))
    (h0 : eps 0 + 1 ≠ 0) (h3 : eps 3 + 1 ≠ 0) (h5 : eps 5 + 1 ≠ 0)
    (hcell : Tools.form_b_mat (Tools.ubi_to_cell ((2 * Real.pi) • (U * Tools.epsilon_to_b eps cell)⁻¹))
      = Tools.epsilon_to_b eps cell) :
    Tools.ubi_to_u_and_eps ((2 * Real.pi) • (U * Tools.epsilon_to_b eps cell)⁻¹) cell
      = (U, ![2 * Real.pi * (eps 0 + 1) - 1, 2 * Real.pi * eps 1, 2 * Real.pi * eps 2,
              2 * Real.pi * (eps 3 + 1) - 1, 2 * Real.pi * eps 4, 2 * Real.pi * (eps 5 + 1) - 1]) := by
  have hpi : (2 * Real.pi) ≠ 0 := by positivity
  have hnz := epsToB_upperNZ (IsUpperNZ.of_pos hB0) h0 h3 h5
  have hdet : IsUnit (Tools.epsilon_to_b eps cell).det := by
    rw [tools_epsilon_to_b]; exact hnz.isUnit_det
  rw [ubi_to_u_and_eps_matrix_tools U _ cell hU hdet hcell]
  congr 1
  have hinv : ((2 * Real.pi)⁻¹ • Tools.epsilon_to_b eps cell)⁻¹
      = (2 * Real.pi) • (Tools.epsilon_to_b eps cell)⁻¹ := by
    apply Matrix.inv_eq_right_inv
    rw [Matrix.smul_mul, Matrix.mul_smul, smul_smul, inv_mul_cancel₀ hpi, one_smul,
      Matrix.mul_nonsing_inv _ hdet]
  have h2 := eps_to_b_to_eps_tools cell eps hB0 h0 h3 h5
  rw [tools_b_to_epsilon] at h2 ⊢
  unfold bToEps at h2 ⊢
  rw [hinv, Matrix.mul_smul, symStrain_smul, h2]; rfl

namespace C13

/-- the unit cubic cell used as concrete witness -/
def cubic : Fin 6 → ℝ := ![1, 1, 1, 90, 90, 90]

theorem h90 : (90 : ℝ) * Real.pi / 180 = Real.pi / 2 := by ring

theorem form_b_mat_cubic : Tools.form_b_mat cubic = (2 * Real.pi) • (1 : M3) := by
  ext i j; fin_cases i <;> fin_cases j <;>
    simp [Tools.form_b_mat, Tools.cell_volume, cubic, h90]

theorem u_to_ubi_cubic : Tools.u_to_ubi 1 cubic = (1 : M3) := by
  have hpi : (2 * Real.pi) ≠ 0 := by positivity
  simp only [Tools.u_to_ubi]
  rw [form_b_mat_cubic, Matrix.one_mul]
  have : ((2 * Real.pi) • (1 : M3))⁻¹ = (2 * Real.pi)⁻¹ • (1 : M3) := by
    apply Matrix.inv_eq_right_inv
    rw [Matrix.smul_mul, Matrix.mul_smul, smul_smul, mul_inv_cancel₀ hpi, one_smul, Matrix.one_mul]
  rw [this, smul_smul, mul_inv_cancel₀ hpi, one_smul]

theorem ubi_to_cell_one : Tools.ubi_to_cell (1 : M3) = cubic := by
  funext k; fin_cases k <;>
    simp [Tools.ubi_to_cell, Tools.a_to_cell, cubic, Real.arccos_zero] <;> field_simp <;> norm_num

end C13

/-- C13(6, tools), zero strain — KNOWN FINDING: on the UBI that `u_to_ubi` itself builds for the unstrained
cell, `ubi_to_u_and_eps` returns `U` and the spurious strain `(2π − 1)·I` instead of `0`. -/
theorem ubi_to_u_and_eps_tools_zero_strain (U : Matrix (Fin 3) (Fin 3) ℝ) (cell : Fin 6 → ℝ)
    (hU : IsRot U) (hB0 : IsUpperPos (Tools.form_b_mat cell))
    (hcell : Tools.form_b_mat (Tools.ubi_to_cell (Tools.u_to_ubi U cell)) = Tools.form_b_mat cell) :
    Tools.ubi_to_u_and_eps (Tools.u_to_ubi U cell) cell
      = (U, ![2 * Real.pi - 1, 0, 0, 2 * Real.pi - 1, 0, 2 * Real.pi - 1]) := by
  have hz := eps_zero_tools cell hB0
  have hu : Tools.u_to_ubi U cell
      = (2 * Real.pi) • (U * Tools.epsilon_to_b (fun _ => 0) cell)⁻¹ := by rw [hz]; rfl
  rw [hu] at hcell ⊢
  rw [← hz] at hcell
  rw [ubi_to_u_and_eps_tools_partial U cell (fun _ => 0) hU hB0 (by norm_num) (by norm_num)
    (by norm_num) hcell]
  simp

/-- C13(6, tools) WITNESS of the known finding, hypothesis-free: for the unit cubic cell, `U = 1` and zero
strain (so that the UBI is exactly `u_to_ubi 1 cell`), `ubi_to_u_and_eps` returns the strain
`(2π − 1, 0, 0, 2π − 1, 0, 2π − 1)`, which differs from the input strain `0`. -/
theorem ubi_to_u_and_eps_tools_witness :
    Tools.ubi_to_u_and_eps (Tools.u_to_ubi 1 ![1, 1, 1, 90, 90, 90]) ![1, 1, 1, 90, 90, 90]
        = (1, ![2 * Real.pi - 1, 0, 0, 2 * Real.pi - 1, 0, 2 * Real.pi - 1])
      ∧ (Tools.ubi_to_u_and_eps (Tools.u_to_ubi 1 ![1, 1, 1, 90, 90, 90]) ![1, 1, 1, 90, 90, 90]).2
        ≠ (fun _ => 0) := by
  have hrot : IsRot (1 : Matrix (Fin 3) (Fin 3) ℝ) := ⟨by simp, by simp⟩
  have hup : IsUpperPos (Tools.form_b_mat cubic) := by
    rw [form_b_mat_cubic]
    refine ⟨?_, ?_, ?_, ?_, ?_, ?_⟩ <;> simp <;> positivity
  have hcell : Tools.form_b_mat (Tools.ubi_to_cell (Tools.u_to_ubi 1 cubic)) = Tools.form_b_mat cubic := by
    rw [u_to_ubi_cubic, ubi_to_cell_one]
  have h := ubi_to_u_and_eps_tools_zero_strain 1 cubic hrot hup hcell
  change Tools.ubi_to_u_and_eps (Tools.u_to_ubi 1 cubic) cubic = _ ∧
    (Tools.ubi_to_u_and_eps (Tools.u_to_ubi 1 cubic) cubic).2 ≠ _
  rw [h]
  refine ⟨rfl, fun hne => ?_⟩
  have h0 := congrFun hne 0
  simp at h0
  have := Real.two_le_pi
  linarith

/-! ## 5. The `_old` pair

`epsilon_to_b_old` / `b_to_epsilon_old` go through `form_a_mat_inv`, `a_to_cell`, `b_to_cell`, `form_a_mat`,
`form_b_mat`. The cell ↔ matrix inverse facts they rely on are property C01 and are taken here as explicit
hypotheses, to be discharged from Proofs/C01.lean at integration time:

* `hA  : ∀ c, ValidCell c → a_to_cell (form_a_mat c) = c`
* `hB  : ∀ c, ValidCell c → b_to_cell (form_b_mat c) = c`
* `hAA : ∀ A, IsUpperPos A → ValidCell (a_to_cell A) ∧ form_a_mat (a_to_cell A) = A`
  (every upper-triangular positive-diagonal `A` is the `form_a_mat` of the valid cell `a_to_cell A`;
  equivalently surjectivity of `form_a_mat` onto such matrices together with `hA`)
* `hA0 : IsUpperPos (form_a_mat cell)` for the valid reference cell.
-/

/-- C13(5, tools): `b_to_epsilon_old (epsilon_to_b_old eps cell) cell = eps` for `1 + ε_ii > 0`,
given the C01 facts `hA0`, `hAA`, `hB` (discharged in Proofs/C01.lean). -/
theorem old_roundtrip_eps_tools (cell eps : Fin 6 → ℝ)
    (hA0 : IsUpperPos (Tools.form_a_mat cell))
    (h0 : 0 < eps 0 + 1) (h3 : 0 < eps 3 + 1) (h5 : 0 < eps 5 + 1)
    (hAA : ∀ A, IsUpperPos A → ValidCell (Tools.a_to_cell A) ∧ Tools.form_a_mat (Tools.a_to_cell A) = A)
    (hB : ∀ c, ValidCell c → Tools.b_to_cell (Tools.form_b_mat c) = c) :
    Tools.b_to_epsilon_old (Tools.epsilon_to_b_old eps cell) cell = eps := by
  rw [tools_epsilon_to_b_old, tools_b_to_epsilon_old]
  have hinv := IsUpperPos.inv hA0
  obtain ⟨hv, hfa⟩ := hAA _ (aOf_upperPos hinv h0 h3 h5)
  rw [hB _ hv, hfa]
  exact symStrain_aOf_mul (IsUpperNZ.of_pos hinv) eps

/-- C13(5, laue): `b_to_epsilon_old (epsilon_to_b_old eps cell) cell = eps` for `1 + ε_ii > 0`,
given the C01 facts `hA0`, `hAA`, `hB` (discharged in Proofs/C01.lean). -/
theorem old_roundtrip_eps_laue (cell eps : Fin 6 → ℝ)
    (hA0 : IsUpperPos (Laue.form_a_mat cell))
    (h0 : 0 < eps 0 + 1) (h3 : 0 < eps 3 + 1) (h5 : 0 < eps 5 + 1)
    (hAA : ∀ A, IsUpperPos A → ValidCell (Laue.a_to_cell A) ∧ Laue.form_a_mat (Laue.a_to_cell A) = A)
    (hB : ∀ c, ValidCell c → Laue.b_to_cell (Laue.form_b_mat c) = c) :
    Laue.b_to_epsilon_old (Laue.epsilon_to_b_old eps cell) cell = eps := by
  rw [laue_epsilon_to_b_old, laue_b_to_epsilon_old]
  have hinv := IsUpperPos.inv hA0
  obtain ⟨hv, hfa⟩ := hAA _ (aOf_upperPos hinv h0 h3 h5)
  rw [hB _ hv, hfa]
  exact symStrain_aOf_mul (IsUpperNZ.of_pos hinv) eps

/-- C13(5, tools): `epsilon_to_b_old (b_to_epsilon_old B cell) cell = B` for every `B = form_b_mat c'` of a
valid cell `c'` (the `_old` functions only see `b_to_cell B`, so `B` must be in `form_b_mat`'s image),
given the C01 facts `hA0`, `hA`, `hB` (discharged in Proofs/C01.lean). -/
theorem old_roundtrip_b_tools (cell c' : Fin 6 → ℝ)
    (hA0 : IsUpperPos (Tools.form_a_mat cell)) (hc' : ValidCell c')
    (hA : ∀ c, ValidCell c → Tools.a_to_cell (Tools.form_a_mat c) = c)
    (hB : ∀ c, ValidCell c → Tools.b_to_cell (Tools.form_b_mat c) = c) :
    Tools.epsilon_to_b_old (Tools.b_to_epsilon_old (Tools.form_b_mat c') cell) cell
      = Tools.form_b_mat c' := by
  rw [tools_b_to_epsilon_old, tools_epsilon_to_b_old, hB c' hc']
  have hinv := IsUpperPos.inv hA0
  rw [aOf_symStrain (IsUpperNZ.of_pos hinv) (by simp [Tools.form_a_mat]) (by simp [Tools.form_a_mat])
    (by simp [Tools.form_a_mat]), hA c' hc']

/-- C13(5, laue): `epsilon_to_b_old (b_to_epsilon_old B cell) cell = B` for every `B = form_b_mat c'` of a
valid cell `c'`, given the C01 facts `hA0`, `hA`, `hB` (discharged in Proofs/C01.lean). -/
theorem old_roundtrip_b_laue (cell c' : Fin 6 → ℝ)
    (hA0 : IsUpperPos (Laue.form_a_mat cell)) (hc' : ValidCell c')
    (hA : ∀ c, ValidCell c → Laue.a_to_cell (Laue.form_a_mat c) = c)
    (hB : ∀ c, ValidCell c → Laue.b_to_cell (Laue.form_b_mat c) = c) :
    Laue.epsilon_to_b_old (Laue.b_to_epsilon_old (Laue.form_b_mat c') cell) cell
      = Laue.form_b_mat c' := by
  rw [laue_b_to_epsilon_old, laue_epsilon_to_b_old, hB c' hc']
  have hinv := IsUpperPos.inv hA0
  rw [aOf_symStrain (IsUpperNZ.of_pos hinv) (by simp [Laue.form_a_mat]) (by simp [Laue.form_a_mat])
    (by simp [Laue.form_a_mat]), hA c' hc']

/-- C13(5, tools): zero strain through the `_old` route gives the unstrained B, given the C01 fact `hA`. -/
theorem old_eps_zero_tools (cell : Fin 6 → ℝ)
    (hA0 : IsUpperPos (Tools.form_a_mat cell)) (hc : ValidCell cell)
    (hA : ∀ c, ValidCell c → Tools.a_to_cell (Tools.form_a_mat c) = c) :
    Tools.epsilon_to_b_old (fun _ => 0) cell = Tools.form_b_mat cell := by
  rw [tools_epsilon_to_b_old]
  have hinv := IsUpperPos.inv hA0
  have hnz := IsUpperNZ.of_pos hA0
  have h1 : (fun _ => 0 : Fin 6 → ℝ) = symStrain (Tools.form_a_mat cell * (Tools.form_a_mat cell)⁻¹) := by
    rw [Matrix.mul_nonsing_inv _ hnz.isUnit_det, symStrain_one]; rfl
  rw [h1, aOf_symStrain (IsUpperNZ.of_pos hinv) hnz.1 hnz.2.1 hnz.2.2.1, hA cell hc]

/-- C13(5, laue): zero strain through the `_old` route gives the unstrained B, given the C01 fact `hA`. -/
theorem old_eps_zero_laue (cell : Fin 6 → ℝ)
    (hA0 : IsUpperPos (Laue.form_a_mat cell)) (hc : ValidCell cell)
    (hA : ∀ c, ValidCell c → Laue.a_to_cell (Laue.form_a_mat c) = c) :
    Laue.epsilon_to_b_old (fun _ => 0) cell = Laue.form_b_mat cell := by
  rw [laue_epsilon_to_b_old]
  have hinv := IsUpperPos.inv hA0
  have hnz := IsUpperNZ.of_pos hA0
  have h1 : (fun _ => 0 : Fin 6 → ℝ) = symStrain (Laue.form_a_mat cell * (Laue.form_a_mat cell)⁻¹) := by
    rw [Matrix.mul_nonsing_inv _ hnz.isUnit_det, symStrain_one]; rfl
  rw [h1, aOf_symStrain (IsUpperNZ.of_pos hinv) hnz.1 hnz.2.1 hnz.2.2.1, hA cell hc]

/-- C13(5, tools): the strain `b_to_epsilon_old` returns is `sym(A · A0⁻¹) − I` with `A = form_a_mat (b_to_cell B)`. -/
theorem b_to_epsilon_old_def_tools (B : Matrix (Fin 3) (Fin 3) ℝ) (cell : Fin 6 → ℝ) :
    Tools.b_to_epsilon_old B cell
      = C13.voigt ((1 / 2 : ℝ) • (Tools.form_a_mat (Tools.b_to_cell B) * (Tools.form_a_mat cell)⁻¹
          + (Tools.form_a_mat (Tools.b_to_cell B) * (Tools.form_a_mat cell)⁻¹)ᵀ) - 1) := by
  rw [tools_b_to_epsilon_old]; exact symStrain_eq _

/-- C13(5, laue): the strain `b_to_epsilon_old` returns is `sym(A · A0⁻¹) − I` with `A = form_a_mat (b_to_cell B)`. -/
theorem b_to_epsilon_old_def_laue (B : Matrix (Fin 3) (Fin 3) ℝ) (cell : Fin 6 → ℝ) :
    Laue.b_to_epsilon_old B cell
      = C13.voigt ((1 / 2 : ℝ) • (Laue.form_a_mat (Laue.b_to_cell B) * (Laue.form_a_mat cell)⁻¹
          + (Laue.form_a_mat (Laue.b_to_cell B) * (Laue.form_a_mat cell)⁻¹)ᵀ) - 1) := by
  rw [laue_b_to_epsilon_old]; exact symStrain_eq _

/-! ## Satisfiability of the hypotheses on concrete inputs -/

namespace C13

theorem isUpperPos_form_b_mat_cubic : IsUpperPos (Tools.form_b_mat cubic) := by
  rw [form_b_mat_cubic]
  refine ⟨?_, ?_, ?_, ?_, ?_, ?_⟩ <;> simp <;> positivity

theorem laue_form_b_mat_cubic : Laue.form_b_mat cubic = (1 : M3) := by
  ext i j; fin_cases i <;> fin_cases j <;>
    simp [Laue.form_b_mat, Laue.cell_volume, cubic, h90]

theorem laue_isUpperPos_form_b_mat_cubic : IsUpperPos (Laue.form_b_mat cubic) := by
  rw [laue_form_b_mat_cubic]
  refine ⟨?_, ?_, ?_, ?_, ?_, ?_⟩ <;> simp

/-- a non-trivial strain with all components of size ≤ 0.1 -/
def epsEx : Fin 6 → ℝ := ![0.1, -0.05, 0.02, -0.1, 0.07, 0.03]

theorem epsEx_small : ∀ k, |epsEx k| ≤ 0.1 := by
  intro k; fin_cases k <;> simp [epsEx, abs_le] <;> norm_num

end C13

/-- hypotheses of `eps_to_b_to_eps_small_tools` / `eps_zero_tools` / `b_to_eps_to_b_tools` hold for the cubic cell
and a non-zero strain -/
example : Tools.b_to_epsilon (Tools.epsilon_to_b C13.epsEx C13.cubic) C13.cubic = C13.epsEx :=
  eps_to_b_to_eps_small_tools _ _ C13.isUpperPos_form_b_mat_cubic C13.epsEx_small

example : Laue.b_to_epsilon (Laue.epsilon_to_b C13.epsEx C13.cubic) C13.cubic = C13.epsEx :=
  eps_to_b_to_eps_small_laue _ _ C13.laue_isUpperPos_form_b_mat_cubic C13.epsEx_small

example : Tools.epsilon_to_b (Tools.b_to_epsilon (Tools.epsilon_to_b C13.epsEx C13.cubic) C13.cubic) C13.cubic
    = Tools.epsilon_to_b C13.epsEx C13.cubic :=
  b_to_eps_to_b_tools _ _ C13.isUpperPos_form_b_mat_cubic
    (epsilon_to_b_upperPos_tools _ _ C13.isUpperPos_form_b_mat_cubic
      (C13.guard_of_small C13.epsEx_small 0) (C13.guard_of_small C13.epsEx_small 3)
      (C13.guard_of_small C13.epsEx_small 5))

/-- the hypotheses of `ubi_to_u_and_eps_laue` (including `hcell`) are satisfiable: cubic cell, `U = 1`, zero strain -/
example : Laue.ubi_to_u_and_eps ((1 * Laue.epsilon_to_b (fun _ => 0) C13.cubic)⁻¹) C13.cubic
    = (1, fun _ => 0) := by
  have hz := eps_zero_laue C13.cubic C13.laue_isUpperPos_form_b_mat_cubic
  apply ubi_to_u_and_eps_laue 1 C13.cubic (fun _ => 0) ⟨by simp, by simp⟩
    C13.laue_isUpperPos_form_b_mat_cubic (by norm_num) (by norm_num) (by norm_num)
  rw [hz, C13.laue_form_b_mat_cubic, Matrix.one_mul, inv_one]
  have : Laue.ubi_to_cell (1 : C13.M3) = C13.cubic := C13.ubi_to_cell_one
  rw [this, C13.laue_form_b_mat_cubic]
