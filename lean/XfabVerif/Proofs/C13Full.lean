/-
C13Full: integration ("glue") of C13 with C01 / C02.

Proofs/C13.lean states the strain <-> B-matrix round trips with the cell <-> matrix facts of C01/C02 as explicit
hypotheses (`IsUpperPos (form_b_mat cell)`, `hA0`, `hA`, `hB`, `hAA`, `hcell`).  Here those hypotheses are
discharged from Proofs/C01.lean (`formB_upper_*`, `formA_upper_*`, `a_to_cell_formA_*`, `b_to_cell_formB_*`) and
Proofs/C02.lean (`form_a_mat_a_to_cell_*`, `hcell_laue`, `hcell_tools`), so that every statement below holds for the
generated `Tools.*` / `Laue.*` functions with no hypotheses other than validity of the cell, the range of the strain
and `U` being a proper rotation.
Strain vector order: eps = [e11, e12, e13, e22, e23, e33].
-/
import XfabVerif.Proofs.C13
import XfabVerif.Proofs.C02
import XfabVerif.Proofs.C01

set_option linter.unusedVariables false
set_option linter.style.longLine false

open Matrix

noncomputable section

/-! ## 2. `b_to_epsilon ∘ epsilon_to_b = id` -/

/-- C13(2), both modules, unconditional: for every valid cell and every strain with `|ε_k| ≤ 0.1`,
`b_to_epsilon (epsilon_to_b eps cell) cell = eps`. -/
theorem c13_eps_roundtrip (cell eps : Fin 6 → ℝ) (hc : Spec.ValidCell cell) (h : ∀ k, |eps k| ≤ 0.1) :
    Tools.b_to_epsilon (Tools.epsilon_to_b eps cell) cell = eps ∧
    Laue.b_to_epsilon (Laue.epsilon_to_b eps cell) cell = eps :=
  ⟨eps_to_b_to_eps_small_tools cell eps (formB_upper_tools hc) h,
   eps_to_b_to_eps_small_laue cell eps (formB_upper_laue hc) h⟩

/-- C13(2), both modules, unconditional and sharper: the guards `1 + ε_ii ≠ 0` (no division by zero in
`epsilon_to_b`) suffice. -/
theorem c13_eps_roundtrip_guard (cell eps : Fin 6 → ℝ) (hc : Spec.ValidCell cell)
    (h0 : eps 0 + 1 ≠ 0) (h3 : eps 3 + 1 ≠ 0) (h5 : eps 5 + 1 ≠ 0) :
    Tools.b_to_epsilon (Tools.epsilon_to_b eps cell) cell = eps ∧
    Laue.b_to_epsilon (Laue.epsilon_to_b eps cell) cell = eps :=
  ⟨eps_to_b_to_eps_tools cell eps (formB_upper_tools hc) h0 h3 h5,
   eps_to_b_to_eps_laue cell eps (formB_upper_laue hc) h0 h3 h5⟩

/-! ## 3. `epsilon_to_b ∘ b_to_epsilon = id` on upper-triangular B -/

/-- C13(3), both modules, unconditional: for every valid cell and every upper-triangular `B` with positive diagonal,
`epsilon_to_b (b_to_epsilon B cell) cell = B`. -/
theorem c13_b_roundtrip (cell : Fin 6 → ℝ) (B : Matrix (Fin 3) (Fin 3) ℝ) (hc : Spec.ValidCell cell)
    (hB : Spec.IsUpperPos B) :
    Tools.epsilon_to_b (Tools.b_to_epsilon B cell) cell = B ∧
    Laue.epsilon_to_b (Laue.b_to_epsilon B cell) cell = B :=
  ⟨b_to_eps_to_b_tools cell B (formB_upper_tools hc) hB,
   b_to_eps_to_b_laue cell B (formB_upper_laue hc) hB⟩

/-- C13(3), both modules, unconditional, in the form "B of a strained cell": the B matrix produced by
`epsilon_to_b` for a small strain is recovered from its strain. -/
theorem c13_b_roundtrip_strained (cell eps : Fin 6 → ℝ) (hc : Spec.ValidCell cell) (h : ∀ k, |eps k| ≤ 0.1) :
    Tools.epsilon_to_b (Tools.b_to_epsilon (Tools.epsilon_to_b eps cell) cell) cell = Tools.epsilon_to_b eps cell ∧
    Laue.epsilon_to_b (Laue.b_to_epsilon (Laue.epsilon_to_b eps cell) cell) cell = Laue.epsilon_to_b eps cell := by
  obtain ⟨h1, h2⟩ := c13_eps_roundtrip cell eps hc h
  exact ⟨by rw [h1], by rw [h2]⟩

/-! ## 4. Zero strain -/

/-- C13(4), both modules, unconditional: for every valid cell zero strain gives the unstrained B
(`epsilon_to_b 0 cell = form_b_mat cell`) and the unstrained B has zero strain. -/
theorem c13_eps_zero (cell : Fin 6 → ℝ) (hc : Spec.ValidCell cell) :
    Tools.epsilon_to_b (fun _ => 0) cell = Tools.form_b_mat cell ∧
    Laue.epsilon_to_b (fun _ => 0) cell = Laue.form_b_mat cell ∧
    Tools.b_to_epsilon (Tools.form_b_mat cell) cell = (fun _ => 0) ∧
    Laue.b_to_epsilon (Laue.form_b_mat cell) cell = (fun _ => 0) :=
  ⟨eps_zero_tools cell (formB_upper_tools hc), eps_zero_laue cell (formB_upper_laue hc),
   b0_to_eps_zero_tools cell (formB_upper_tools hc), b0_to_eps_zero_laue cell (formB_upper_laue hc)⟩

/-! ## 5. The `_old` pair -/

/-- C13(5), both modules, unconditional: for every valid cell and strain with `1 + ε_ii > 0`,
`b_to_epsilon_old (epsilon_to_b_old eps cell) cell = eps`. -/
theorem c13_old_roundtrip_eps (cell eps : Fin 6 → ℝ) (hc : Spec.ValidCell cell)
    (h0 : 0 < eps 0 + 1) (h3 : 0 < eps 3 + 1) (h5 : 0 < eps 5 + 1) :
    Tools.b_to_epsilon_old (Tools.epsilon_to_b_old eps cell) cell = eps ∧
    Laue.b_to_epsilon_old (Laue.epsilon_to_b_old eps cell) cell = eps :=
  ⟨old_roundtrip_eps_tools cell eps (formA_upper_tools hc) h0 h3 h5 form_a_mat_a_to_cell_tools
     (fun c h => b_to_cell_formB_tools h),
   old_roundtrip_eps_laue cell eps (formA_upper_laue hc) h0 h3 h5 form_a_mat_a_to_cell_laue
     (fun c h => b_to_cell_formB_laue h)⟩

/-- C13(5), both modules, unconditional: for valid cells `cell`, `c'`,
`epsilon_to_b_old (b_to_epsilon_old (form_b_mat c') cell) cell = form_b_mat c'`. -/
theorem c13_old_roundtrip_b (cell c' : Fin 6 → ℝ) (hc : Spec.ValidCell cell) (hc' : Spec.ValidCell c') :
    Tools.epsilon_to_b_old (Tools.b_to_epsilon_old (Tools.form_b_mat c') cell) cell = Tools.form_b_mat c' ∧
    Laue.epsilon_to_b_old (Laue.b_to_epsilon_old (Laue.form_b_mat c') cell) cell = Laue.form_b_mat c' :=
  ⟨old_roundtrip_b_tools cell c' (formA_upper_tools hc) hc' (fun c h => a_to_cell_formA_tools h)
     (fun c h => b_to_cell_formB_tools h),
   old_roundtrip_b_laue cell c' (formA_upper_laue hc) hc' (fun c h => a_to_cell_formA_laue h)
     (fun c h => b_to_cell_formB_laue h)⟩

/-- C13(5), both modules, unconditional: the `_old` round trip B → eps → B for EVERY upper-triangular `B` with
positive diagonal (every such `B` is the `form_b_mat` of the valid cell `b_to_cell B`, C02.4). -/
theorem c13_old_roundtrip_b_upper (cell : Fin 6 → ℝ) (B : Matrix (Fin 3) (Fin 3) ℝ) (hc : Spec.ValidCell cell)
    (hB : Spec.IsUpperPos B) :
    Tools.epsilon_to_b_old (Tools.b_to_epsilon_old B cell) cell = B ∧
    Laue.epsilon_to_b_old (Laue.b_to_epsilon_old B cell) cell = B := by
  obtain ⟨hvT, hbT⟩ := form_b_mat_b_to_cell_tools B hB
  obtain ⟨hvL, hbL⟩ := form_b_mat_b_to_cell_laue B hB
  have hT := (c13_old_roundtrip_b cell _ hc hvT).1
  have hL := (c13_old_roundtrip_b cell _ hc hvL).2
  rw [hbT] at hT; rw [hbL] at hL
  exact ⟨hT, hL⟩

/-- C13(5), both modules, unconditional: for every valid cell and strain with `|ε_k| ≤ 0.1` both `_old` round trips
hold (eps → B → eps, and B → eps → B for `B = form_b_mat c'` of any valid `c'`), and zero strain through the `_old`
route gives the unstrained B. -/
theorem c13_old_roundtrips (cell c' eps : Fin 6 → ℝ) (hc : Spec.ValidCell cell) (hc' : Spec.ValidCell c')
    (h : ∀ k, |eps k| ≤ 0.1) :
    (Tools.b_to_epsilon_old (Tools.epsilon_to_b_old eps cell) cell = eps ∧
     Laue.b_to_epsilon_old (Laue.epsilon_to_b_old eps cell) cell = eps) ∧
    (Tools.epsilon_to_b_old (Tools.b_to_epsilon_old (Tools.form_b_mat c') cell) cell = Tools.form_b_mat c' ∧
     Laue.epsilon_to_b_old (Laue.b_to_epsilon_old (Laue.form_b_mat c') cell) cell = Laue.form_b_mat c') ∧
    (Tools.epsilon_to_b_old (fun _ => 0) cell = Tools.form_b_mat cell ∧
     Laue.epsilon_to_b_old (fun _ => 0) cell = Laue.form_b_mat cell) :=
  ⟨c13_old_roundtrip_eps cell eps hc (C13.guard_of_small h 0) (C13.guard_of_small h 3) (C13.guard_of_small h 5),
   c13_old_roundtrip_b cell c' hc hc',
   old_eps_zero_tools cell (formA_upper_tools hc) hc (fun c h => a_to_cell_formA_tools h),
   old_eps_zero_laue cell (formA_upper_laue hc) hc (fun c h => a_to_cell_formA_laue h)⟩

/-! ## 6. `ubi_to_u_and_eps` -/

/-- C13(6, laue), unconditional: for every valid cell, proper rotation `U` and strain with `1 + ε_ii > 0`, the laue
`ubi_to_u_and_eps` applied to the laue-convention UBI `(U · B)⁻¹`, `B = epsilon_to_b eps cell`, returns `(U, eps)`. -/
theorem c13_ubi_laue_pos (U : Matrix (Fin 3) (Fin 3) ℝ) (cell eps : Fin 6 → ℝ) (hc : Spec.ValidCell cell)
    (hU : Spec.IsRot U) (h0 : 0 < eps 0 + 1) (h3 : 0 < eps 3 + 1) (h5 : 0 < eps 5 + 1) :
    Laue.ubi_to_u_and_eps ((U * Laue.epsilon_to_b eps cell)⁻¹) cell = (U, eps) :=
  ubi_to_u_and_eps_laue U cell eps hU (formB_upper_laue hc) h0.ne' h3.ne' h5.ne'
    (hcell_laue U _ hU (epsilon_to_b_upperPos_laue cell eps (formB_upper_laue hc) h0 h3 h5))

/-- C13(6, laue), unconditional, as worded in the property: valid cell, proper rotation `U`, `|ε_k| ≤ 0.1`:
`ubi_to_u_and_eps ((U · epsilon_to_b eps cell)⁻¹) cell = (U, eps)`. -/
theorem c13_ubi_laue (U : Matrix (Fin 3) (Fin 3) ℝ) (cell eps : Fin 6 → ℝ) (hc : Spec.ValidCell cell)
    (hU : Spec.IsRot U) (h : ∀ k, |eps k| ≤ 0.1) :
    Laue.ubi_to_u_and_eps ((U * Laue.epsilon_to_b eps cell)⁻¹) cell = (U, eps) :=
  c13_ubi_laue_pos U cell eps hc hU (C13.guard_of_small h 0) (C13.guard_of_small h 3) (C13.guard_of_small h 5)

/-- C13(6, laue), unconditional, phrased with the module's own `u_to_ubi`: if `cell'` is the valid strained cell
`b_to_cell (epsilon_to_b eps cell)`, then `ubi_to_u_and_eps (u_to_ubi U cell') cell = (U, eps)`. -/
theorem c13_ubi_laue_u_to_ubi (U : Matrix (Fin 3) (Fin 3) ℝ) (cell eps : Fin 6 → ℝ) (hc : Spec.ValidCell cell)
    (hU : Spec.IsRot U) (h : ∀ k, |eps k| ≤ 0.1) :
    Spec.ValidCell (Laue.b_to_cell (Laue.epsilon_to_b eps cell)) ∧
    Laue.ubi_to_u_and_eps (Laue.u_to_ubi U (Laue.b_to_cell (Laue.epsilon_to_b eps cell))) cell = (U, eps) := by
  have hup := epsilon_to_b_upperPos_laue cell eps (formB_upper_laue hc)
    (C13.guard_of_small h 0) (C13.guard_of_small h 3) (C13.guard_of_small h 5)
  obtain ⟨hv, hb⟩ := form_b_mat_b_to_cell_laue _ hup
  refine ⟨hv, ?_⟩
  have hu : Laue.u_to_ubi U (Laue.b_to_cell (Laue.epsilon_to_b eps cell))
      = (U * Laue.form_b_mat (Laue.b_to_cell (Laue.epsilon_to_b eps cell)))⁻¹ := rfl
  rw [hu, hb]
  exact c13_ubi_laue U cell eps hc hU h

/-- C13(6, tools) PARTIAL — KNOWN FINDING (pinned by an upstream test), now unconditional: for every valid cell,
proper rotation `U` and strain with `|ε_k| ≤ 0.1`, the tools `ubi_to_u_and_eps` applied to the tools-convention UBI
`2π (U · B)⁻¹`, `B = epsilon_to_b eps cell`, returns the right `U` but the strain `2π(ε + I) − I` instead of `ε`.
Missing w.r.t. the property: the strain component is NOT `eps` (hypothesis-free witness:
`ubi_to_u_and_eps_tools_witness` in Proofs/C13.lean); this is a defect of the Python code, not of the proof. -/
theorem c13_ubi_tools_partial (U : Matrix (Fin 3) (Fin 3) ℝ) (cell eps : Fin 6 → ℝ) (hc : Spec.ValidCell cell)
    (hU : Spec.IsRot U) (h : ∀ k, |eps k| ≤ 0.1) :
    Tools.ubi_to_u_and_eps ((2 * Real.pi) • (U * Tools.epsilon_to_b eps cell)⁻¹) cell
      = (U, ![2 * Real.pi * (eps 0 + 1) - 1, 2 * Real.pi * eps 1, 2 * Real.pi * eps 2,
              2 * Real.pi * (eps 3 + 1) - 1, 2 * Real.pi * eps 4, 2 * Real.pi * (eps 5 + 1) - 1]) :=
  have h0 := C13.guard_of_small h 0
  have h3 := C13.guard_of_small h 3
  have h5 := C13.guard_of_small h 5
  ubi_to_u_and_eps_tools_partial U cell eps hU (formB_upper_tools hc) h0.ne' h3.ne' h5.ne'
    (hcell_tools U _ hU (epsilon_to_b_upperPos_tools cell eps (formB_upper_tools hc) h0 h3 h5))

/-- C13(6, tools), zero strain — KNOWN FINDING, now unconditional: for every valid cell and proper rotation `U`, on the
UBI that `Tools.u_to_ubi` itself builds, `ubi_to_u_and_eps` returns `U` and the spurious strain `(2π − 1)·I`. -/
theorem c13_ubi_tools_zero_strain (U : Matrix (Fin 3) (Fin 3) ℝ) (cell : Fin 6 → ℝ) (hc : Spec.ValidCell cell)
    (hU : Spec.IsRot U) :
    Tools.ubi_to_u_and_eps (Tools.u_to_ubi U cell) cell
      = (U, ![2 * Real.pi - 1, 0, 0, 2 * Real.pi - 1, 0, 2 * Real.pi - 1]) :=
  ubi_to_u_and_eps_tools_zero_strain U cell hU (formB_upper_tools hc) (hcell_of_cell_tools U cell hU hc)

/-- C13(6, tools): consequence of the known finding — for every valid cell, rotation and small strain the strain
returned by the tools `ubi_to_u_and_eps` differs from the input strain (first component off by `(2π−1)(ε₁₁+1) > 0`). -/
theorem c13_ubi_tools_strain_ne (U : Matrix (Fin 3) (Fin 3) ℝ) (cell eps : Fin 6 → ℝ) (hc : Spec.ValidCell cell)
    (hU : Spec.IsRot U) (h : ∀ k, |eps k| ≤ 0.1) :
    (Tools.ubi_to_u_and_eps ((2 * Real.pi) • (U * Tools.epsilon_to_b eps cell)⁻¹) cell).2 ≠ eps := by
  rw [c13_ubi_tools_partial U cell eps hc hU h]
  intro hne
  have e0 := congrFun hne 0
  simp at e0
  have h0 := C13.guard_of_small h 0
  have := Real.two_le_pi
  nlinarith

/-! ## Satisfiability on a concrete non-trivial input -/

/-- the hypotheses of the theorems above hold for the (non-orthogonal) cell `4, 5, 6, 90, 90, 60` of C01, the
rotation `1` and the non-zero strain `C13.epsEx` -/
example : Laue.ubi_to_u_and_eps ((1 * Laue.epsilon_to_b C13.epsEx ![4, 5, 6, 90, 90, 60])⁻¹) ![4, 5, 6, 90, 90, 60]
    = (1, C13.epsEx) :=
  c13_ubi_laue 1 _ _ validCell_example ⟨by simp, by simp⟩ C13.epsEx_small

example : Tools.b_to_epsilon_old (Tools.epsilon_to_b_old C13.epsEx ![4, 5, 6, 90, 90, 60]) ![4, 5, 6, 90, 90, 60]
    = C13.epsEx :=
  (c13_old_roundtrips _ _ _ validCell_example validCell_example C13.epsEx_small).1.1
