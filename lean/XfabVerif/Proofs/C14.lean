/-
C14 — agreement of the two modules xfab.tools / xfab.laue on the 41 functions defined in both
(40 public + `_arctan2`), up to the documented convention k = 2π (tools) / 1 (laue) on B matrices and g-vectors.

Three kinds of evidence, one per shared function (see `all_shared_covered`):

 1. `c14_<f> : Laue.<f> = Tools.<f>`            the two traced models are THE SAME function (proved by `rfl`,
                                                 or via the scale laws for `ubi_to_u`, `ubi_to_rod`);
 2. scale laws (k = 2π)                          `form_b_mat_scale`, `b_to_cell_scale`, `u_to_ubi_same`, `ubi_to_u_same`,
                                                 `ubi_to_rod_same`, `tth2_scale`, `tth_same`, `epsilon_to_b_scale`,
                                                 `b_to_epsilon_scale`, `epsilon_to_b_old_scale`, `b_to_epsilon_old_scale`,
                                                 `find_omega*_same`, `ubi_to_u_b_scale` (on the QR-contract model `C02.normalise`);
                                                 KNOWN FINDING C14-TOOLS-UBI: `ubi_to_u_and_eps_differs_partial` / `_witness`
                                                 (same U, but the strains differ: tools returns 2π(ε+I) − I);
 3. `ast_identical`                              for the 31 definitions whose normalised Python AST (numpy alias unified,
                                                 docstrings dropped; SHA-256 in `Gen/C14Ast.lean`) is literally the same in the two
                                                 modules — in particular for the untraced `genhkl*`, `reduce_cell`, `ub_to_u_b`,
                                                 `sysabs`, `sysabs_unique`.

All scale laws are stated without non-degeneracy hypotheses wherever the model allows it: over ℝ,
`(k • A)⁻¹ = k⁻¹ • A⁻¹` holds for singular `A` too (both sides are 0 in Mathlib), and `x / 0 = 0` on both
sides.  On such degenerate inputs numpy produces inf/nan or raises `LinAlgError` in BOTH modules, so the
unconditional statements carry content only on the non-degenerate inputs.
-/
import XfabVerif.Gen.ToolsReal
import XfabVerif.Gen.LaueReal
import XfabVerif.Gen.C14Ast
import XfabVerif.Gen.Sysabs
import XfabVerif.Spec.Basic
import XfabVerif.Proofs.C01
import XfabVerif.Proofs.C02
import XfabVerif.Proofs.C09
import XfabVerif.Proofs.C13

set_option linter.unusedVariables false
set_option linter.style.longLine false
set_option linter.unusedSimpArgs false

open Matrix

noncomputable section

namespace C14

abbrev M3 := Matrix (Fin 3) (Fin 3) ℝ

lemma two_pi_ne : (2 * Real.pi) ≠ 0 := by positivity

/-- over a field, `(k • A)⁻¹ = k⁻¹ • A⁻¹` for EVERY square matrix (for singular `A` both sides are `0`) -/
lemma inv_smul_any {k : ℝ} (hk : k ≠ 0) (A : M3) : (k • A)⁻¹ = k⁻¹ • A⁻¹ := by
  by_cases h : IsUnit A.det
  · apply Matrix.inv_eq_left_inv
    rw [Matrix.smul_mul, Matrix.mul_smul, smul_smul, inv_mul_cancel₀ hk, one_smul, Matrix.nonsing_inv_mul _ h]
  · have hz : A.det = 0 := by simpa [isUnit_iff_ne_zero] using h
    have h' : ¬ IsUnit (k • A).det := by
      rw [Matrix.det_smul, hz, mul_zero]; exact not_isUnit_zero
    rw [Matrix.nonsing_inv_apply_not_isUnit _ h, Matrix.nonsing_inv_apply_not_isUnit _ h', smul_zero]

/-- the rescaling of laue.py's omega solvers is the identity on vectors of length `sin θ > 0` -/
lemma lscale_id {g : Fin 3 → ℝ} {twoth : ℝ} (hn : g ⬝ᵥ g = Real.sin (twoth / 2) ^ 2)
    (hs : 0 < Real.sin (twoth / 2)) : C09.lscale g twoth = g := by
  unfold C09.lscale
  rw [hn, Real.sqrt_sq hs.le, smul_smul, inv_mul_cancel₀ hs.ne', one_smul]

/-- the upper-triangular `Binv` of `epsilon_to_b` scales inversely with `B0` -/
lemma binvOf_smul {k : ℝ} (hk : k ≠ 0) (B0 : M3) (eps : Fin 6 → ℝ) :
    C13.binvOf (k • B0) eps = k⁻¹ • C13.binvOf B0 eps := by
  have key2 : ∀ x b : ℝ, x / (k * b) = k⁻¹ * (x / b) := by
    intro x b
    by_cases hb : b = 0
    · simp [hb]
    · field_simp
  have key3 : ∀ a y : ℝ, k * a * (k⁻¹ * y) = a * y := by
    intro a y
    field_simp
  ext i j
  fin_cases i <;> fin_cases j <;> simp [C13.binvOf, key2, key3]

lemma epsToB_smul {k : ℝ} (hk : k ≠ 0) (B0 : M3) (eps : Fin 6 → ℝ) :
    C13.epsToB (k • B0) eps = k • C13.epsToB B0 eps := by
  unfold C13.epsToB
  rw [binvOf_smul hk, inv_smul_any (inv_ne_zero hk), inv_inv]

/-! ### lists for the completeness statement -/

/-- the 31 shared definitions whose normalised AST is identical in the two modules -/
def identical : List String :=
  ["_arctan2", "a_to_cell", "b_to_epsilon", "b_to_epsilon_old", "cell_invert", "cell_volume", "detect_tilt",
   "epsilon_to_b", "epsilon_to_b_old", "euler_to_u", "find_omega_wedge", "form_a_mat", "form_a_mat_inv",
   "form_omega_mat", "form_omega_mat_general", "genhkl", "genhkl_all", "genhkl_base", "genhkl_unique",
   "quart_to_omega", "reduce_cell", "rod_to_u", "sintl", "sysabs", "sysabs_unique", "tth", "u_to_euler",
   "u_to_rod", "ub_to_u_b", "ubi_to_cell", "ubi_to_rod"]

/-- the 10 shared definitions whose source text differs between the modules -/
def different : List String :=
  ["b_to_cell", "find_omega", "find_omega_general", "find_omega_quart", "form_b_mat", "tth2", "u_to_ubi",
   "ubi_to_u", "ubi_to_u_and_eps", "ubi_to_u_b"]

/-- functions whose two formal models are literally the same function (`c14_<f>`, `sysabs_same`, `sysabs_unique_same`) -/
def rflEqual : List String :=
  ["_arctan2", "a_to_cell", "cell_invert", "cell_volume", "detect_tilt", "euler_to_u", "find_omega_wedge",
   "form_a_mat", "form_a_mat_inv", "form_omega_mat", "form_omega_mat_general", "quart_to_omega", "rod_to_u",
   "sintl", "tth", "u_to_euler", "u_to_rod", "ubi_to_cell", "sysabs", "sysabs_unique"]

/-- functions related by a proved convention law (`*_scale`, `*_same`; `ubi_to_u_and_eps`: only partially, known finding) -/
def scaleLaw : List String :=
  ["form_b_mat", "b_to_cell", "u_to_ubi", "ubi_to_u", "ubi_to_rod", "tth2", "epsilon_to_b", "b_to_epsilon",
   "epsilon_to_b_old", "b_to_epsilon_old", "find_omega", "find_omega_general", "find_omega_quart",
   "ubi_to_u_and_eps", "ubi_to_u_b"]

/-- untraced functions covered by identity of the normalised source (`ast_identical`) -/
def astOnly : List String :=
  ["genhkl", "genhkl_all", "genhkl_base", "genhkl_unique", "reduce_cell", "ub_to_u_b"]

end C14

open C14

/-! ## 1. Traced functions whose two models coincide -/

/-- C14(identical): `cell_volume` is the same function in both modules. -/
theorem c14_cell_volume : Laue.cell_volume = Tools.cell_volume := rfl
/-- C14(identical, rotations): `form_omega_mat`. -/
theorem c14_form_omega_mat : Laue.form_omega_mat = Tools.form_omega_mat := rfl
/-- C14(identical, rotations): `form_omega_mat_general`. -/
theorem c14_form_omega_mat_general : Laue.form_omega_mat_general = Tools.form_omega_mat_general := rfl
/-- C14(identical, rotations): `quart_to_omega`. -/
theorem c14_quart_to_omega : Laue.quart_to_omega = Tools.quart_to_omega := rfl
/-- C14(identical, rotations): `detect_tilt`. -/
theorem c14_detect_tilt : Laue.detect_tilt = Tools.detect_tilt := rfl
/-- C14(identical, cells): `cell_invert`. -/
theorem c14_cell_invert : Laue.cell_invert = Tools.cell_invert := rfl
/-- C14(identical, cells): `form_a_mat`. -/
theorem c14_form_a_mat : Laue.form_a_mat = Tools.form_a_mat := rfl
/-- C14(identical, cells): `form_a_mat_inv`. -/
theorem c14_form_a_mat_inv : Laue.form_a_mat_inv = Tools.form_a_mat_inv := rfl
/-- C14(identical, cells): `a_to_cell`. -/
theorem c14_a_to_cell : Laue.a_to_cell = Tools.a_to_cell := rfl
/-- C14(identical, cells): `ubi_to_cell` (UBI has no 2π in either module). -/
theorem c14_ubi_to_cell : Laue.ubi_to_cell = Tools.ubi_to_cell := rfl
/-- C14(identical, rotations): `euler_to_u`. -/
theorem c14_euler_to_u : Laue.euler_to_u = Tools.euler_to_u := rfl
/-- C14(identical, angles): the private helper `_arctan2` (theorem name without the double underscore). -/
theorem c14_arctan2 : Laue._arctan2 = Tools._arctan2 := rfl
/-- C14(identical, angles): `u_to_euler`. -/
theorem c14_u_to_euler : Laue.u_to_euler = Tools.u_to_euler := rfl
/-- C14(identical, rotations): `u_to_rod`. -/
theorem c14_u_to_rod : Laue.u_to_rod = Tools.u_to_rod := rfl
/-- C14(identical, rotations): `rod_to_u`. -/
theorem c14_rod_to_u : Laue.rod_to_u = Tools.rod_to_u := rfl
/-- C14(identical, sin θ/λ): `sintl`. -/
theorem c14_sintl : Laue.sintl = Tools.sintl := rfl
/-- C14(identical, two-theta): `tth` (from cell and hkl; calls `sintl` only). -/
theorem c14_tth : Laue.tth = Tools.tth := rfl
/-- C14(identical, omega solvers): `find_omega_wedge` normalises `g` to unit length in BOTH modules, hence it is the
same function on all inputs (no length convention involved). -/
theorem c14_find_omega_wedge : Laue.find_omega_wedge = Tools.find_omega_wedge := rfl

/-! ## 2. The documented convention k = 2π -/

/-- C14(convention, B): `tools.form_b_mat cell = 2π · laue.form_b_mat cell` for every cell. -/
theorem form_b_mat_scale (cell : Fin 6 → ℝ) :
    Tools.form_b_mat cell = (2 * Real.pi) • Laue.form_b_mat cell := C01.formB_tools_eq_smul cell

/-- C14(convention, cells): `tools.b_to_cell (2π·B) = laue.b_to_cell B` — the cell is identical. -/
theorem b_to_cell_scale (B : Matrix (Fin 3) (Fin 3) ℝ) :
    Tools.b_to_cell ((2 * Real.pi) • B) = Laue.b_to_cell B := by
  have h : (2 * Real.pi)⁻¹ • ((2 * Real.pi) • B) = B := by
    rw [smul_smul, inv_mul_cancel₀ two_pi_ne, one_smul]
  show Tools.cell_invert (Tools.a_to_cell ((2 * Real.pi)⁻¹ • ((2 * Real.pi) • B)))
    = Tools.cell_invert (Tools.a_to_cell B)
  rw [h]

/-- C14(convention, UBI identical): `u_to_ubi` returns the same matrix in both modules, for every `U` and cell
(the two factors 2π of tools cancel). -/
theorem u_to_ubi_same (U : Matrix (Fin 3) (Fin 3) ℝ) (cell : Fin 6 → ℝ) :
    Tools.u_to_ubi U cell = Laue.u_to_ubi U cell := by
  show (2 * Real.pi) • (U * Tools.form_b_mat cell)⁻¹ = (U * Laue.form_b_mat cell)⁻¹
  rw [form_b_mat_scale, Matrix.mul_smul, inv_smul_any two_pi_ne, smul_smul, mul_inv_cancel₀ two_pi_ne,
    one_smul]

/-- C14(convention, rotations identical): `ubi_to_u` returns the same matrix in both modules, for every UBI. -/
theorem ubi_to_u_same (ubi : Matrix (Fin 3) (Fin 3) ℝ) : Tools.ubi_to_u ubi = Laue.ubi_to_u ubi := by
  show (2 * Real.pi)⁻¹ • (Tools.form_b_mat (Tools.ubi_to_cell ubi) * ubi)ᵀ
    = (Laue.form_b_mat (Tools.ubi_to_cell ubi) * ubi)ᵀ
  rw [form_b_mat_scale, Matrix.smul_mul, Matrix.transpose_smul, smul_smul, inv_mul_cancel₀ two_pi_ne,
    one_smul]

/-- C14(identical as functions): `ubi_to_u`. -/
theorem c14_ubi_to_u : Laue.ubi_to_u = Tools.ubi_to_u := by
  funext ubi; exact (ubi_to_u_same ubi).symm

/-- C14(convention, rotations identical): `ubi_to_rod` returns the same Rodrigues vector (or the same failure). -/
theorem ubi_to_rod_same (ubi : Matrix (Fin 3) (Fin 3) ℝ) : Tools.ubi_to_rod ubi = Laue.ubi_to_rod ubi := by
  unfold Tools.ubi_to_rod Laue.ubi_to_rod
  rw [ubi_to_u_same]
  rfl

/-- C14(identical as functions): `ubi_to_rod`. -/
theorem c14_ubi_to_rod : Laue.ubi_to_rod = Tools.ubi_to_rod := by
  funext ubi; exact (ubi_to_rod_same ubi).symm

/-- C14(convention, two-theta): `tools.tth2 (2π·g) λ = laue.tth2 g λ`. -/
theorem tth2_scale (g : Fin 3 → ℝ) (wavelength : ℝ) :
    Tools.tth2 ((2 * Real.pi) • g) wavelength = Laue.tth2 g wavelength := by
  have hpi := Real.pi_pos
  have h : Real.sqrt (((2 * Real.pi) • g) ⬝ᵥ ((2 * Real.pi) • g)) = (2 * Real.pi) * Real.sqrt (g ⬝ᵥ g) := by
    rw [smul_dotProduct, dotProduct_smul, smul_eq_mul, smul_eq_mul, ← mul_assoc,
      Real.sqrt_mul (by positivity), Real.sqrt_mul_self (by positivity)]
  unfold Tools.tth2 Laue.tth2
  simp only [h]
  congr 2
  by_cases hS : Real.sqrt (g ⬝ᵥ g) = 0
  · simp [hS]
  · field_simp
    ring

/-- C14(two-theta identical): `tth` from cell, hkl and wavelength agrees pointwise. -/
theorem tth_same (cell : Fin 6 → ℝ) (hkl : Fin 3 → ℝ) (wavelength : ℝ) :
    Tools.tth cell hkl wavelength = Laue.tth cell hkl wavelength := rfl

/-- C14(sin θ/λ identical): `sintl` agrees pointwise. -/
theorem sintl_same (cell : Fin 6 → ℝ) (hkl : Fin 3 → ℝ) : Tools.sintl cell hkl = Laue.sintl cell hkl := rfl

/-- C14(convention, strain → B): `tools.epsilon_to_b eps cell = 2π · laue.epsilon_to_b eps cell`. -/
theorem epsilon_to_b_scale (eps cell : Fin 6 → ℝ) :
    Tools.epsilon_to_b eps cell = (2 * Real.pi) • Laue.epsilon_to_b eps cell := by
  rw [C13.tools_epsilon_to_b, C13.laue_epsilon_to_b, form_b_mat_scale, epsToB_smul two_pi_ne]

/-- C14(convention, B → strain): `tools.b_to_epsilon (2π·B) cell = laue.b_to_epsilon B cell` — strains identical. -/
theorem b_to_epsilon_scale (B : Matrix (Fin 3) (Fin 3) ℝ) (cell : Fin 6 → ℝ) :
    Tools.b_to_epsilon ((2 * Real.pi) • B) cell = Laue.b_to_epsilon B cell := by
  rw [C13.tools_b_to_epsilon, C13.laue_b_to_epsilon, form_b_mat_scale]
  unfold C13.bToEps
  rw [inv_smul_any two_pi_ne, Matrix.smul_mul, Matrix.mul_smul, smul_smul, mul_inv_cancel₀ two_pi_ne,
    one_smul]

/-- C14(convention, strain → B, old pair): `tools.epsilon_to_b_old eps cell = 2π · laue.epsilon_to_b_old eps cell`. -/
theorem epsilon_to_b_old_scale (eps cell : Fin 6 → ℝ) :
    Tools.epsilon_to_b_old eps cell = (2 * Real.pi) • Laue.epsilon_to_b_old eps cell := by
  rw [C13.tools_epsilon_to_b_old, C13.laue_epsilon_to_b_old, form_b_mat_scale]
  rfl

/-- C14(convention, B → strain, old pair): `tools.b_to_epsilon_old (2π·B) cell = laue.b_to_epsilon_old B cell`. -/
theorem b_to_epsilon_old_scale (B : Matrix (Fin 3) (Fin 3) ℝ) (cell : Fin 6 → ℝ) :
    Tools.b_to_epsilon_old ((2 * Real.pi) • B) cell = Laue.b_to_epsilon_old B cell := by
  rw [C13.tools_b_to_epsilon_old, C13.laue_b_to_epsilon_old, b_to_cell_scale]
  rfl

/-! ### omega solvers

tools.py asserts `|g·g − sin²θ| < 1e-9` (general, quart) and laue.py first rescales `g` to length `sin θ`
(`C09.lscale`).  On g-vectors that already have the length tools demands (`g·g = sin²(2θ/2)`, `sin θ > 0`,
i.e. 0 < 2θ < 2π) the rescaling is the identity and the two modules run the same code. -/

/-- C14(omega solvers): `find_omega_general` agrees on g-vectors of the length tools' assertion demands. -/
theorem find_omega_general_same (g : Fin 3 → ℝ) (twoth wx wy : ℝ)
    (hn : g ⬝ᵥ g = Real.sin (twoth / 2) ^ 2) (hs : 0 < Real.sin (twoth / 2)) :
    Laue.find_omega_general g twoth wx wy = Tools.find_omega_general g twoth wx wy := by
  rw [C09.Laue_general_eq, lscale_id hn hs]

/-- C14(omega solvers): `find_omega_quart` agrees on g-vectors of the length tools' assertion demands. -/
theorem find_omega_quart_same (g : Fin 3 → ℝ) (twoth wx wy : ℝ)
    (hn : g ⬝ᵥ g = Real.sin (twoth / 2) ^ 2) (hs : 0 < Real.sin (twoth / 2)) :
    Laue.find_omega_quart g twoth wx wy = Tools.find_omega_quart g twoth wx wy := by
  rw [C09.Laue_quart_eq, lscale_id hn hs]

/-- C14(omega solvers): `find_omega_wedge` agrees on ALL inputs (both modules normalise `g` themselves). -/
theorem find_omega_wedge_same (g : Fin 3 → ℝ) (twoth wedge : ℝ) :
    Laue.find_omega_wedge g twoth wedge = Tools.find_omega_wedge g twoth wedge := rfl

/-- C14(omega solvers): plain `find_omega` agrees on g-vectors of length `sin θ`. -/
theorem find_omega_same (g : Fin 3 → ℝ) (twoth : ℝ)
    (hn : g ⬝ᵥ g = Real.sin (twoth / 2) ^ 2) (hs : 0 < Real.sin (twoth / 2)) :
    Laue.find_omega g twoth = Tools.find_omega g twoth := by
  rw [C09.Laue_plain_eq, lscale_id hn hs]

/-- the hypotheses of the omega-solver theorems are satisfiable: 2θ = π, g = (1,0,0) -/
example : (![1, 0, 0] : Fin 3 → ℝ) ⬝ᵥ ![1, 0, 0] = Real.sin (Real.pi / 2) ^ 2 ∧ 0 < Real.sin (Real.pi / 2) := by
  simp [Real.sin_pi_div_two]

/-! ### `ubi_to_u_and_eps` — KNOWN FINDING C14-TOOLS-UBI (= the C13 defect of tools.py)

UBI matrices and strains are convention-free, so on the SAME UBI the two modules ought to return the same
`(U, ε)`.  They return the same `U`; but tools.py feeds `B = (ubi·U)⁻¹` — a laue-convention B, without 2π — to its
own `b_to_epsilon`, whose reference `B0` carries 2π: the strain comes out as `2π(ε + I) − I`. -/

/-- C14(`ubi_to_u_and_eps`) PARTIAL — what does hold for every UBI and cell: the `U` components are equal and the
tools strain is `C13.scaleStrain (2π)` of the laue strain, i.e. `2π(ε+I) − I` componentwise.  Missing w.r.t. the
property: the strain components are NOT equal (see `ubi_to_u_and_eps_differs_witness`); this is a defect of
tools.py (known finding), not of the proof. -/
theorem ubi_to_u_and_eps_differs_partial (ubi : Matrix (Fin 3) (Fin 3) ℝ) (cell : Fin 6 → ℝ) :
    Tools.ubi_to_u_and_eps ubi cell
      = ((Laue.ubi_to_u_and_eps ubi cell).1, C13.scaleStrain (2 * Real.pi) (Laue.ubi_to_u_and_eps ubi cell).2) := by
  show (Tools.ubi_to_u ubi, Tools.b_to_epsilon ((ubi * Tools.ubi_to_u ubi)⁻¹) cell)
    = (Laue.ubi_to_u ubi, C13.scaleStrain (2 * Real.pi) (Laue.b_to_epsilon ((ubi * Laue.ubi_to_u ubi)⁻¹) cell))
  rw [ubi_to_u_same, C13.tools_b_to_epsilon, C13.laue_b_to_epsilon, form_b_mat_scale]
  unfold C13.bToEps
  rw [Matrix.smul_mul, C13.symStrain_smul]

/-- C14(`ubi_to_u_and_eps`, rotation part): the `U` returned is the same in both modules. -/
theorem ubi_to_u_and_eps_u_same (ubi : Matrix (Fin 3) (Fin 3) ℝ) (cell : Fin 6 → ℝ) :
    (Tools.ubi_to_u_and_eps ubi cell).1 = (Laue.ubi_to_u_and_eps ubi cell).1 := by
  rw [ubi_to_u_and_eps_differs_partial]

/-- C14(`ubi_to_u_and_eps`) WITNESS of the known finding, hypothesis-free: on the identity UBI with the unit cubic
reference cell laue returns zero strain, tools returns `(2π−1, 0, 0, 2π−1, 0, 2π−1)`. -/
theorem ubi_to_u_and_eps_differs_witness :
    (Laue.ubi_to_u_and_eps 1 ![1, 1, 1, 90, 90, 90]).2 = (fun _ => 0)
      ∧ (Tools.ubi_to_u_and_eps 1 ![1, 1, 1, 90, 90, 90]).2
          = ![2 * Real.pi - 1, 0, 0, 2 * Real.pi - 1, 0, 2 * Real.pi - 1]
      ∧ (Tools.ubi_to_u_and_eps 1 ![1, 1, 1, 90, 90, 90]).2 ≠ (Laue.ubi_to_u_and_eps 1 ![1, 1, 1, 90, 90, 90]).2 := by
  have hL : (Laue.ubi_to_u_and_eps 1 C13.cubic).2 = (fun _ => 0) := by
    show Laue.b_to_epsilon ((1 * (Laue.form_b_mat (Tools.ubi_to_cell 1) * 1)ᵀ)⁻¹) C13.cubic = _
    rw [C13.ubi_to_cell_one, C13.laue_b_to_epsilon, C13.laue_form_b_mat_cubic]
    unfold C13.bToEps
    simp only [Matrix.one_mul, Matrix.transpose_one, inv_one, inv_inv, C13.symStrain_one]
    rfl
  have hT : (Tools.ubi_to_u_and_eps 1 C13.cubic).2
      = ![2 * Real.pi - 1, 0, 0, 2 * Real.pi - 1, 0, 2 * Real.pi - 1] := by
    rw [ubi_to_u_and_eps_differs_partial]
    show C13.scaleStrain (2 * Real.pi) (Laue.ubi_to_u_and_eps 1 C13.cubic).2 = _
    rw [hL]
    simp [C13.scaleStrain]
  change (Laue.ubi_to_u_and_eps 1 C13.cubic).2 = _ ∧ (Tools.ubi_to_u_and_eps 1 C13.cubic).2 = _ ∧
    (Tools.ubi_to_u_and_eps 1 C13.cubic).2 ≠ (Laue.ubi_to_u_and_eps 1 C13.cubic).2
  refine ⟨hL, hT, ?_⟩
  rw [hT, hL]
  intro hne
  have h0 := congrFun hne 0
  simp at h0
  have := Real.two_le_pi
  linarith

/-! ### plain `find_omega` is scale invariant, hence agrees for every length of `g` -/

/-- tools' plain `find_omega` only uses `g/|g|`: it is invariant under positive rescaling of `g`. -/
theorem find_omega_tools_scale_invariant (c : ℝ) (hc : 0 < c) (g : Fin 3 → ℝ) (twoth : ℝ) :
    Tools.find_omega (c • g) twoth = Tools.find_omega g twoth := by
  have hS : Real.sqrt ((c • g) ⬝ᵥ (c • g)) = c * Real.sqrt (g ⬝ᵥ g) := by
    rw [smul_dotProduct, dotProduct_smul, smul_eq_mul, smul_eq_mul, ← mul_assoc,
      Real.sqrt_mul (by positivity), Real.sqrt_mul_self hc.le]
  have ha : ∀ i : Fin 3, (c • g) i / (c * Real.sqrt (g ⬝ᵥ g)) = g i / Real.sqrt (g ⬝ᵥ g) := by
    intro i
    rw [Pi.smul_apply, smul_eq_mul, mul_div_mul_left _ _ hc.ne']
  have hb : ∀ i : Fin 3, -((c • g) i) / (c * Real.sqrt (g ⬝ᵥ g)) = -(g i) / Real.sqrt (g ⬝ᵥ g) := by
    intro i
    rw [neg_div, neg_div, ha]
  unfold Tools.find_omega
  simp only [hS, ha, hb]

/-- C14(omega solvers, stronger): plain `find_omega` agrees for EVERY non-zero `g` (any length), as soon as
`sin θ > 0`: laue's rescaling is a positive multiple and tools' solver only uses the direction of `g`. -/
theorem find_omega_same_any_length (g : Fin 3 → ℝ) (twoth : ℝ)
    (hg : g ⬝ᵥ g ≠ 0) (hs : 0 < Real.sin (twoth / 2)) :
    Laue.find_omega g twoth = Tools.find_omega g twoth := by
  have hpos : 0 < Real.sqrt (g ⬝ᵥ g) :=
    Real.sqrt_pos.mpr (lt_of_le_of_ne (C09.dot_self_nonneg g) (Ne.symm hg))
  have hl : C09.lscale g twoth = ((Real.sqrt (g ⬝ᵥ g))⁻¹ * Real.sin (twoth / 2)) • g := by
    unfold C09.lscale; rw [smul_smul]
  rw [C09.Laue_plain_eq, hl, find_omega_tools_scale_invariant _ (by positivity)]

/-! ### `ubi_to_u_b` (not traced: it calls `numpy.linalg.qr` through `ub_to_u_b`)

tools.py: `ub_to_u_b(inv(ubi)·2π)`, laue.py: `ub_to_u_b(inv(ubi))`; `ub_to_u_b` itself is AST-identical.  With the
QR-contract model of C02 (`C02.normalise Q R` = the sign post-processing applied to ANY pair `(Q, R)` with
`Qᵀ Q = 1`, `R` upper triangular, `Q R = ` the argument) the convention law is: same `U`, `B` scaled by 2π. -/

/-- C14(convention, `ubi_to_u_b`) on the QR-contract model: for a UBI with `det(inv ubi) > 0` (right-handed
lattice) and ANY QR outputs `(Q₁,R₁)` for `inv(ubi)` (laue) and `(Q₂,R₂)` for `2π·inv(ubi)` (tools), the two modules
return the same `U` and B matrices related by the factor 2π. -/
theorem ubi_to_u_b_scale (ubi Q₁ R₁ Q₂ R₂ : Matrix (Fin 3) (Fin 3) ℝ) (hdet : 0 < (ubi⁻¹).det)
    (hQ₁ : Q₁ᵀ * Q₁ = 1) (h10₁ : R₁ 1 0 = 0) (h20₁ : R₁ 2 0 = 0) (h21₁ : R₁ 2 1 = 0) (hQR₁ : Q₁ * R₁ = ubi⁻¹)
    (hQ₂ : Q₂ᵀ * Q₂ = 1) (h10₂ : R₂ 1 0 = 0) (h20₂ : R₂ 2 0 = 0) (h21₂ : R₂ 2 1 = 0)
    (hQR₂ : Q₂ * R₂ = (2 * Real.pi) • ubi⁻¹) :
    C02.normalise Q₂ R₂ = ((C02.normalise Q₁ R₁).1, (2 * Real.pi) • (C02.normalise Q₁ R₁).2) := by
  have hpi := Real.pi_pos
  obtain ⟨h1, h2, h3, h4⟩ := normalise_spec (ubi⁻¹) Q₁ R₁ hQ₁ h10₁ h20₁ h21₁ hQR₁ hdet
  obtain ⟨b10, b20, b21, b0, b1, b2⟩ := h4
  apply normalise_unique ((2 * Real.pi) • ubi⁻¹) Q₂ R₂ _ _ hQ₂ h10₂ h20₂ h21₂ hQR₂
  · rw [Matrix.det_smul]
    have : 0 < (2 * Real.pi) ^ Fintype.card (Fin 3) := by positivity
    positivity
  · exact ⟨h2, h3⟩
  · refine ⟨?_, ?_, ?_, ?_, ?_, ?_⟩ <;> simp only [Matrix.smul_apply, smul_eq_mul]
    · rw [b10, mul_zero]
    · rw [b20, mul_zero]
    · rw [b21, mul_zero]
    · positivity
    · positivity
    · positivity
  · rw [Matrix.mul_smul, h1]

/-- the hypotheses of `ubi_to_u_b_scale` are satisfiable (identity UBI, trivial QR pairs) -/
example : C02.normalise 1 ((2 * Real.pi) • (1 : Matrix (Fin 3) (Fin 3) ℝ))
    = ((C02.normalise 1 (1 : Matrix (Fin 3) (Fin 3) ℝ)).1, (2 * Real.pi) • (C02.normalise 1 (1 : Matrix (Fin 3) (Fin 3) ℝ)).2) := by
  apply ubi_to_u_b_scale 1 <;> simp

/-! ## 3. Integer models and source identity -/

/-- C14(reflection lists): the Int model of `sysabs` generated from laue.py is the one generated from tools.py. -/
theorem sysabs_same : @Laue.sysabs = @Tools.sysabs := rfl

/-- C14(reflection lists): same for `sysabs_unique`. -/
theorem sysabs_unique_same : @Laue.sysabs_unique = @Tools.sysabs_unique := rfl

/-- C14(source identity): each of the 31 names in `C14.identical` is present in both hash tables and carries the
SAME SHA-256 of its normalised AST (numpy alias `n`/`np` unified, docstrings dropped) in tools.py and laue.py.
Equal normalised syntax means equal behaviour under any semantics of Python, PROVIDED the module-level names the
body refers to denote corresponding things: the callees are shared functions covered by this file (`c14_*`,
`*_scale`, `*_same`, `ast_identical` itself), and `xfab.symmetry` / numpy are the same imports in both modules.
This is the only evidence for the untraced `genhkl`, `genhkl_all`, `genhkl_base`, `genhkl_unique`, `reduce_cell`,
`ub_to_u_b` (none of which calls a convention-dependent function with differing text other than via
`sintl`/`sysabs`/`form_a_mat`-type helpers proved identical above). -/
theorem ast_identical :
    ∀ f ∈ C14.identical, (C14.toolsAst.lookup f).isSome = true ∧ C14.toolsAst.lookup f = C14.laueAst.lookup f := by
  decide

/-- C14(source identity, bookkeeping): both hash tables list exactly the shared names.  (Whether the other 10 definitions differ
textually is immaterial for the property — they are covered by the convention laws of section 2 — and is not claimed: a refactor may
legitimately move their `2π` into a helper or a constant; the hashes are CLOSURE hashes, a definition together with the private helpers
and module-level constants it reaches, so such a move does not make two different definitions look identical.) -/
theorem ast_tables_complete :
    C14.toolsAst.map (·.1) = C14.shared ∧ C14.laueAst.map (·.1) = C14.shared := by
  decide

/-! ## 4. Completeness -/

/-- C14(quantifier): there are exactly 41 shared definitions, no duplicates, and neither module defines a
top-level function that the other lacks (`C14.onlyTools = [] = C14.onlyLaue`). -/
theorem shared_count :
    C14.shared.length = 41 ∧ C14.shared.Nodup ∧ C14.onlyTools = [] ∧ C14.onlyLaue = [] := by
  decide

/-- C14(quantifier): every shared name is AST-identical or AST-different (31 + 10 = 41, disjoint), and every shared
name is covered by one of the three kinds of evidence of this file: `C14.rflEqual` (models are the same function:
`c14_*`, `sysabs*_same`), `C14.scaleLaw` (a proved 2π-convention law; `ubi_to_u_and_eps` only partially — known
finding; `ubi_to_u_b` on the QR-contract model), `C14.astOnly` (untraced, identical source).  Conversely the three
lists contain shared names only. -/
theorem all_shared_covered :
    (∀ f ∈ C14.shared, f ∈ C14.rflEqual ∨ f ∈ C14.scaleLaw ∨ f ∈ C14.astOnly)
      ∧ (∀ f ∈ C14.rflEqual ++ C14.scaleLaw ++ C14.astOnly, f ∈ C14.shared)
      ∧ (C14.rflEqual ++ C14.scaleLaw ++ C14.astOnly).length = 41
      ∧ (∀ f ∈ C14.shared, (f ∈ C14.identical ∧ f ∉ C14.different) ∨ (f ∉ C14.identical ∧ f ∈ C14.different))
      ∧ C14.identical.length = 31 ∧ C14.different.length = 10
      ∧ (∀ f ∈ C14.astOnly, f ∈ C14.identical) := by
  decide
