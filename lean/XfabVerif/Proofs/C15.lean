/-
C15 — `structure.multiplicity(position, space group)` is the number of distinct points, modulo lattice
translations, of the orbit of the position (= nsymop / order of the site-symmetry group).

Model: `XfabVerif/Model/Mult.lean` (`Mult.scan` = the greedy loop of the code over exact rational images,
`Mult.multiplicity`).  Tables: `Sg.Tables.<key>` (generated).  The group hypothesis of the orbit–stabiliser
theorem is stated locally (`C15.IsGroupModLattice`) in the shape delivered for every table by
`Sg.checkGroup_sound` (Lemmas/SgSound.lean).
-/
import XfabVerif.Model.Mult
import XfabVerif.Gen.Sg.All
import Mathlib.Data.List.Dedup
import Mathlib.Data.List.Perm.Subperm
import Mathlib.Data.List.Nodup
import Mathlib.Algebra.BigOperators.Group.List.Lemmas
import Mathlib.Data.Int.ModEq
import Mathlib.Algebra.Order.Round
import Mathlib.Algebra.Order.Archimedean.Real.Basic
import Mathlib.Tactic.Ring
import Mathlib.Tactic.Linarith
import Mathlib.Tactic.NormNum
import Mathlib.Tactic.Positivity
import Mathlib.Tactic.FieldSimp

set_option linter.unusedVariables false
set_option linter.style.longLine false

namespace C15

open Mult

/-! ### equality modulo the lattice is an equivalence relation -/

/-- the code's (exact) test "difference is a lattice vector" is equality of the reduced representatives -/
theorem eqv_iff {d : Nat} {p q : Pos} : eqv d p q = true ↔ reduce d p = reduce d q := by
  simp only [eqv, reduce, Bool.and_eq_true, beq_iff_eq, Pos.mk.injEq,
    Int.emod_eq_emod_iff_emod_sub_eq_zero, and_assoc]

/-- reflexive, symmetric, transitive: transitivity is what makes "compare with the kept representatives only"
    a correct de-duplication -/
theorem eqv_equivalence (d : Nat) : Equivalence (fun p q : Pos => eqv d p q = true) where
  refl p := eqv_iff.2 rfl
  symm h := eqv_iff.2 (eqv_iff.1 h).symm
  trans h1 h2 := eqv_iff.2 ((eqv_iff.1 h1).trans (eqv_iff.1 h2))

/-! ### the scan is a de-duplication -/

private lemma step_spec (d : Nat) (K : List Pos) (q : Pos) (hK : (K.map (reduce d)).Nodup) :
    ((step d K q).map (reduce d)).Nodup ∧
      ∀ x, x ∈ (step d K q).map (reduce d) ↔ x ∈ K.map (reduce d) ∨ x = reduce d q := by
  unfold step
  by_cases h : K.any (fun r => eqv d q r) = true
  · rw [if_pos h]
    refine ⟨hK, fun x => ⟨Or.inl, ?_⟩⟩
    rintro (hx | hx)
    · exact hx
    · obtain ⟨r, hr, hqr⟩ := List.any_eq_true.1 h
      rw [hx, eqv_iff.1 hqr]
      exact List.mem_map_of_mem hr
  · rw [if_neg h]
    have hnot : reduce d q ∉ K.map (reduce d) := by
      intro hmem
      obtain ⟨r, hr, hrq⟩ := List.mem_map.1 hmem
      exact h (List.any_eq_true.2 ⟨r, hr, eqv_iff.2 hrq.symm⟩)
    refine ⟨?_, fun x => ?_⟩
    · rw [List.map_append, List.map_singleton]
      exact List.Nodup.append hK (List.nodup_singleton _) (by
        intro a ha hb
        rw [List.mem_singleton] at hb
        exact hnot (hb ▸ ha))
    · simp [List.map_append]

private lemma foldl_spec (d : Nat) (qs : List Pos) :
    ∀ K : List Pos, (K.map (reduce d)).Nodup →
      ((qs.foldl (step d) K).map (reduce d)).Nodup ∧
        ∀ x, x ∈ (qs.foldl (step d) K).map (reduce d) ↔ x ∈ K.map (reduce d) ∨ x ∈ qs.map (reduce d) := by
  induction qs with
  | nil => intro K hK; simpa using hK
  | cons q qs ih =>
    intro K hK
    obtain ⟨h1, h2⟩ := step_spec d K q hK
    obtain ⟨h3, h4⟩ := ih (step d K q) h1
    refine ⟨by simpa using h3, fun x => ?_⟩
    rw [List.foldl_cons, h4 x, h2 x, List.map_cons, List.mem_cons, or_assoc]

/-- the kept points are pairwise inequivalent, and they represent exactly the classes of the images -/
theorem scan_spec (d : Nat) (l : List Pos) :
    ((scan d l).map (reduce d)).Nodup ∧ ∀ x, x ∈ (scan d l).map (reduce d) ↔ x ∈ l.map (reduce d) := by
  cases l with
  | nil => simp [scan]
  | cons q qs =>
    obtain ⟨h1, h2⟩ := foldl_spec d qs [q] (by simp)
    refine ⟨h1, fun x => ?_⟩
    show x ∈ (qs.foldl (step d) [q]).map (reduce d) ↔ _
    rw [h2 x]; simp

/-- length of the scan = number of distinct reduced images -/
theorem scan_length (d : Nat) (l : List Pos) : (scan d l).length = (l.map (reduce d)).dedup.length := by
  obtain ⟨h1, h2⟩ := scan_spec d l
  have hperm : ((scan d l).map (reduce d)).Perm (l.map (reduce d)).dedup :=
    (List.perm_ext_iff_of_nodup h1 (List.nodup_dedup _)).2 (fun x => by rw [h2 x, List.mem_dedup])
  simpa using hperm.length_eq

/-- list level: the code's count equals the number of distinct images modulo lattice translations -/
theorem count_eq_card_images (d : Nat) (G : List Sg.Op) (p : Pos) :
    count d G p = ((images d G p).map (reduce d)).dedup.length := scan_length d _

/-- the operations visited for a table, when the code does not raise -/
theorem usedOps?_eq_some {t : SgTable} {G : List Sg.Op} (h : usedOps? t = some G) :
    G = (Sg.opsOf t).take t.nsymop ∧ G.length = t.nsymop ∧ 0 < t.nsymop := by
  unfold usedOps? at h
  split at h
  · exact absurd h (by simp)
  · rename_i hn
    have hG : G = (Sg.opsOf t).take t.nsymop := by simpa using h.symm
    refine ⟨hG, ?_, by omega⟩
    rw [hG, List.length_take]; omega

/-- for a table whose `nsymop` is the length of its lists (checked for all 237 tables by `Sg.checkGroup`)
    all operations are visited -/
theorem usedOps?_of_length {t : SgTable} (hlen : (Sg.opsOf t).length = t.nsymop) (hpos : 0 < t.nsymop) :
    usedOps? t = some (Sg.opsOf t) := by
  unfold usedOps?
  rw [if_neg (by omega), ← hlen, List.take_length]

/-- C15, main clause: for every table and every rational position, `multiplicity` (when the code does not raise)
    is the number of distinct images of the position modulo lattice translations -/
theorem mult_eq_card_images (t : SgTable) (d : Nat) (p : Pos) (m : Nat) (h : multiplicity t d p = some m) :
    m = ((images d ((Sg.opsOf t).take t.nsymop) p).map (reduce d)).dedup.length := by
  unfold multiplicity at h
  cases hG : usedOps? t with
  | none => rw [hG] at h; exact absurd h (by simp)
  | some G =>
    rw [hG] at h
    obtain ⟨hG', -, -⟩ := usedOps?_eq_some hG
    have : count d G p = m := by simpa using h
    rw [← this, hG', count_eq_card_images]

/-- C15: the multiplicity never exceeds the number of symmetry operations -/
theorem mult_le_nsymop (t : SgTable) (d : Nat) (p : Pos) (m : Nat) (h : multiplicity t d p = some m) :
    m ≤ t.nsymop := by
  rw [mult_eq_card_images t d p m h]
  refine (List.dedup_sublist _).length_le.trans ?_
  simp [images, List.length_take]

/-- C15: the multiplicity is at least one -/
theorem mult_pos (t : SgTable) (d : Nat) (p : Pos) (m : Nat) (h : multiplicity t d p = some m) : 0 < m := by
  have hm := mult_eq_card_images t d p m h
  unfold multiplicity at h
  cases hG : usedOps? t with
  | none => rw [hG] at h; exact absurd h (by simp)
  | some G =>
    obtain ⟨hG', hlen, hpos⟩ := usedOps?_eq_some hG
    rw [hm, List.length_pos_iff, Ne, List.dedup_eq_nil, ← hG']
    intro hnil
    have : G.length = 0 := by simpa [images] using congrArg List.length hnil
    omega

/-! ### lattice shifts of the position -/

/-- the position shifted by the lattice vector `(k1,k2,k3)` -/
def shift (d : Nat) (k1 k2 k3 : Int) (p : Pos) : Pos :=
  { x := p.x + (d : Int) * k1, y := p.y + (d : Int) * k2, z := p.z + (d : Int) * k3 }

private lemma emod_shift (d : Int) (a b c x y z k1 k2 k3 w : Int) :
    (a * (x + d * k1) + b * (y + d * k2) + c * (z + d * k3) + w) % d = (a * x + b * y + c * z + w) % d := by
  have : a * (x + d * k1) + b * (y + d * k2) + c * (z + d * k3) + w
      = (a * x + b * y + c * z + w) + d * (a * k1 + b * k2 + c * k3) := by ring
  rw [this, Int.add_mul_emod_self_left]

lemma reduce_act_shift (d : Nat) (a : Sg.Op) (k1 k2 k3 : Int) (p : Pos) :
    reduce d (act d a (shift d k1 k2 k3 p)) = reduce d (act d a p) := by
  simp only [reduce, act, shift, Pos.mk.injEq]
  exact ⟨emod_shift .., emod_shift .., emod_shift ..⟩

/-- list level: shifting the position by integers does not change the count -/
theorem count_lattice_shift (d : Nat) (G : List Sg.Op) (k1 k2 k3 : Int) (p : Pos) :
    count d G (shift d k1 k2 k3 p) = count d G p := by
  rw [count_eq_card_images, count_eq_card_images]
  congr 2
  simp only [images, List.map_map]
  exact List.map_congr_left fun a _ => reduce_act_shift d a k1 k2 k3 p

/-- C15: shifting the position by a lattice vector does not change the multiplicity -/
theorem mult_lattice_shift (t : SgTable) (d : Nat) (k1 k2 k3 : Int) (p : Pos) :
    multiplicity t d (shift d k1 k2 k3 p) = multiplicity t d p := by
  unfold multiplicity
  cases usedOps? t with
  | none => rfl
  | some G => simp [count_lattice_shift]

/-! ### group structure modulo the lattice -/

/-- translation components lie in `[0,24)` -/
def Reduced (a : Sg.Op) : Prop :=
  (0 ≤ a.t1 ∧ a.t1 < 24) ∧ (0 ≤ a.t2 ∧ a.t2 < 24) ∧ (0 ≤ a.t3 ∧ a.t3 < 24)

/-- `G` is a group under composition modulo lattice translations (same shape as `Sg.IsGroupModLattice`,
    which `Sg.checkGroup_sound` delivers for every table from its kernel-checked certificate) -/
structure IsGroupModLattice (G : List Sg.Op) : Prop where
  one_mem : Sg.one ∈ G
  closed : ∀ a ∈ G, ∀ b ∈ G, Sg.comp a b ∈ G
  inv : ∀ a ∈ G, ∃ b ∈ G, Sg.comp a b = Sg.one
  nodup : G.Nodup
  reduced : ∀ a ∈ G, Reduced a

private lemma op_ext {a b : Sg.Op}
    (h11 : a.r11 = b.r11) (h12 : a.r12 = b.r12) (h13 : a.r13 = b.r13)
    (h21 : a.r21 = b.r21) (h22 : a.r22 = b.r22) (h23 : a.r23 = b.r23)
    (h31 : a.r31 = b.r31) (h32 : a.r32 = b.r32) (h33 : a.r33 = b.r33)
    (ht1 : a.t1 = b.t1) (ht2 : a.t2 = b.t2) (ht3 : a.t3 = b.t3) : a = b := by
  cases a; cases b; simp_all

/-- every table operation has reduced translations -/
theorem opsOf_reduced (t : SgTable) : ∀ a ∈ Sg.opsOf t, Reduced a := by
  intro a ha
  obtain ⟨o, -, rfl⟩ := List.mem_map.1 ha
  simp only [Reduced, Sg.ofSg]; omega

lemma one_comp {a : Sg.Op} (h : Reduced a) : Sg.comp Sg.one a = a := by
  obtain ⟨h1, h2, h3⟩ := h
  apply op_ext <;> simp [Sg.comp, Sg.one] <;> omega

lemma comp_one {a : Sg.Op} (h : Reduced a) : Sg.comp a Sg.one = a := by
  obtain ⟨h1, h2, h3⟩ := h
  apply op_ext <;> simp [Sg.comp, Sg.one] <;> omega

private lemma assoc_t (a1 a2 a3 at' b11 b12 b13 b21 b22 b23 b31 b32 b33 bt1 bt2 bt3 c1 c2 c3 : Int) :
    ((a1 * b11 + a2 * b21 + a3 * b31) * c1 + (a1 * b12 + a2 * b22 + a3 * b32) * c2 +
        (a1 * b13 + a2 * b23 + a3 * b33) * c3 + (a1 * bt1 + a2 * bt2 + a3 * bt3 + at') % 24) % 24 =
    (a1 * ((b11 * c1 + b12 * c2 + b13 * c3 + bt1) % 24) + a2 * ((b21 * c1 + b22 * c2 + b23 * c3 + bt2) % 24) +
        a3 * ((b31 * c1 + b32 * c2 + b33 * c3 + bt3) % 24) + at') % 24 := by
  have e1 := Int.mod_modEq (a1 * bt1 + a2 * bt2 + a3 * bt3 + at') 24
  have f1 := Int.mod_modEq (b11 * c1 + b12 * c2 + b13 * c3 + bt1) 24
  have f2 := Int.mod_modEq (b21 * c1 + b22 * c2 + b23 * c3 + bt2) 24
  have f3 := Int.mod_modEq (b31 * c1 + b32 * c2 + b33 * c3 + bt3) 24
  have L := e1.add_left ((a1 * b11 + a2 * b21 + a3 * b31) * c1 + (a1 * b12 + a2 * b22 + a3 * b32) * c2 +
        (a1 * b13 + a2 * b23 + a3 * b33) * c3)
  have R := (((f1.mul_left a1).add (f2.mul_left a2)).add (f3.mul_left a3)).add_right at'
  refine L.trans (Int.ModEq.trans ?_ R.symm)
  have : (a1 * b11 + a2 * b21 + a3 * b31) * c1 + (a1 * b12 + a2 * b22 + a3 * b32) * c2 +
        (a1 * b13 + a2 * b23 + a3 * b33) * c3 + (a1 * bt1 + a2 * bt2 + a3 * bt3 + at') =
      a1 * (b11 * c1 + b12 * c2 + b13 * c3 + bt1) + a2 * (b21 * c1 + b22 * c2 + b23 * c3 + bt2) +
        a3 * (b31 * c1 + b32 * c2 + b33 * c3 + bt3) + at' := by ring
  rw [this]

lemma comp_assoc (a b c : Sg.Op) : Sg.comp (Sg.comp a b) c = Sg.comp a (Sg.comp b c) := by
  apply op_ext
  · simp only [Sg.comp]; ring
  · simp only [Sg.comp]; ring
  · simp only [Sg.comp]; ring
  · simp only [Sg.comp]; ring
  · simp only [Sg.comp]; ring
  · simp only [Sg.comp]; ring
  · simp only [Sg.comp]; ring
  · simp only [Sg.comp]; ring
  · simp only [Sg.comp]; ring
  · simp only [Sg.comp]; exact assoc_t ..
  · simp only [Sg.comp]; exact assoc_t ..
  · simp only [Sg.comp]; exact assoc_t ..

/-- in a group modulo the lattice a right inverse is also a left inverse -/
lemma IsGroupModLattice.inv_left {G : List Sg.Op} (hG : IsGroupModLattice G) {a b : Sg.Op} (ha : a ∈ G)
    (hb : b ∈ G) (hab : Sg.comp a b = Sg.one) : Sg.comp b a = Sg.one := by
  obtain ⟨c, hc, hbc⟩ := hG.inv b hb
  have hba : Sg.comp b a ∈ G := hG.closed b hb a ha
  calc Sg.comp b a = Sg.comp (Sg.comp b a) Sg.one := (comp_one (hG.reduced _ hba)).symm
    _ = Sg.comp (Sg.comp b a) (Sg.comp b c) := by rw [hbc]
    _ = Sg.comp b (Sg.comp (Sg.comp a b) c) := by simp only [comp_assoc]
    _ = Sg.comp b (Sg.comp Sg.one c) := by rw [hab]
    _ = Sg.comp b c := by rw [one_comp (hG.reduced c hc)]
    _ = Sg.one := hbc

/-- left cancellation -/
lemma IsGroupModLattice.comp_left_cancel {G : List Sg.Op} (hG : IsGroupModLattice G) {a x y : Sg.Op}
    (ha : a ∈ G) (hx : x ∈ G) (hy : y ∈ G) (h : Sg.comp a x = Sg.comp a y) : x = y := by
  obtain ⟨b, hb, hab⟩ := hG.inv a ha
  have hba := hG.inv_left ha hb hab
  calc x = Sg.comp Sg.one x := (one_comp (hG.reduced x hx)).symm
    _ = Sg.comp b (Sg.comp a x) := by rw [← hba, comp_assoc]
    _ = Sg.comp b (Sg.comp a y) := by rw [h]
    _ = Sg.comp Sg.one y := by rw [← comp_assoc, hba]
    _ = y := one_comp (hG.reduced y hy)

/-! ### the action on positions -/

lemma act_one (d : Nat) (p : Pos) : act d Sg.one p = p := by
  cases p; simp [act, Sg.one]

private lemma cast_den {d : Nat} (hd : 24 ∣ d) : (d : Int) = ((d / 24 : Nat) : Int) * 24 := by
  have := Nat.div_mul_cancel hd
  exact_mod_cast this.symm

private lemma act_comp_coord (d s : Int) (hd : d = s * 24)
    (a1 a2 a3 at' b11 b12 b13 b21 b22 b23 b31 b32 b33 bt1 bt2 bt3 x y z : Int) :
    ((a1 * b11 + a2 * b21 + a3 * b31) * x + (a1 * b12 + a2 * b22 + a3 * b32) * y +
        (a1 * b13 + a2 * b23 + a3 * b33) * z + s * ((a1 * bt1 + a2 * bt2 + a3 * bt3 + at') % 24)) % d =
    (a1 * (b11 * x + b12 * y + b13 * z + s * bt1) + a2 * (b21 * x + b22 * y + b23 * z + s * bt2) +
        a3 * (b31 * x + b32 * y + b33 * z + s * bt3) + s * at') % d := by
  have e1 : s * ((a1 * bt1 + a2 * bt2 + a3 * bt3 + at') % 24) ≡ s * (a1 * bt1 + a2 * bt2 + a3 * bt3 + at') [ZMOD d] := by
    rw [hd]; exact (Int.mod_modEq _ 24).mul_left'
  have L := e1.add_left ((a1 * b11 + a2 * b21 + a3 * b31) * x + (a1 * b12 + a2 * b22 + a3 * b32) * y +
        (a1 * b13 + a2 * b23 + a3 * b33) * z)
  refine L.trans ?_
  have : (a1 * b11 + a2 * b21 + a3 * b31) * x + (a1 * b12 + a2 * b22 + a3 * b32) * y +
        (a1 * b13 + a2 * b23 + a3 * b33) * z + s * (a1 * bt1 + a2 * bt2 + a3 * bt3 + at') =
      a1 * (b11 * x + b12 * y + b13 * z + s * bt1) + a2 * (b21 * x + b22 * y + b23 * z + s * bt2) +
        a3 * (b31 * x + b32 * y + b33 * z + s * bt3) + s * at' := by ring
  rw [this]

/-- `(a ∘ b)·p ≡ a·(b·p)` modulo the lattice (needs `24 ∣ d` so that the 24ths are exact over `d`) -/
lemma reduce_act_comp {d : Nat} (hd : 24 ∣ d) (a b : Sg.Op) (p : Pos) :
    reduce d (act d (Sg.comp a b) p) = reduce d (act d a (act d b p)) := by
  have h := cast_den hd
  simp only [reduce, act, Sg.comp, Pos.mk.injEq]
  exact ⟨act_comp_coord _ _ h .., act_comp_coord _ _ h .., act_comp_coord _ _ h ..⟩

/-- the action is compatible with equality modulo the lattice -/
lemma reduce_act_congr (d : Nat) (a : Sg.Op) {p q : Pos} (h : reduce d p = reduce d q) :
    reduce d (act d a p) = reduce d (act d a q) := by
  simp only [reduce, Pos.mk.injEq] at h
  obtain ⟨h1, h2, h3⟩ := h
  have m1 : p.x ≡ q.x [ZMOD (d : Int)] := h1
  have m2 : p.y ≡ q.y [ZMOD (d : Int)] := h2
  have m3 : p.z ≡ q.z [ZMOD (d : Int)] := h3
  simp only [reduce, act, Pos.mk.injEq]
  exact ⟨(((m1.mul_left _).add (m2.mul_left _)).add (m3.mul_left _)).add_right _,
    (((m1.mul_left _).add (m2.mul_left _)).add (m3.mul_left _)).add_right _,
    (((m1.mul_left _).add (m2.mul_left _)).add (m3.mul_left _)).add_right _⟩

/-! ### orbit–stabiliser -/

/-- the class of the image of `p` under `a` -/
private def cls (d : Nat) (p : Pos) (a : Sg.Op) : Pos := reduce d (act d a p)

/-- the operations of `G` sending `p` to the class `v` -/
private def fibre (d : Nat) (G : List Sg.Op) (p : Pos) (v : Pos) : List Sg.Op :=
  G.filter fun a => cls d p a == v

private lemma stabiliser_eq_fibre (d : Nat) (G : List Sg.Op) (p : Pos) :
    stabiliser d G p = fibre d G p (reduce d p) := by
  unfold stabiliser fibre cls
  apply List.filter_congr
  intro a _
  rw [Bool.eq_iff_iff, eqv_iff, beq_iff_eq]

private lemma length_le_of_inj {l1 l2 : List Sg.Op} (g : Sg.Op → Sg.Op) (hnd : l1.Nodup)
    (hinj : ∀ x ∈ l1, ∀ y ∈ l1, g x = g y → x = y) (hmem : ∀ x ∈ l1, g x ∈ l2) : l1.length ≤ l2.length := by
  have h1 : (l1.map g).Nodup := List.Nodup.map_on hinj hnd
  have h2 : l1.map g ⊆ l2 := by
    intro y hy
    obtain ⟨x, hx, rfl⟩ := List.mem_map.1 hy
    exact hmem x hx
  simpa using (List.subperm_of_subset h1 h2).length_le

/-- all fibres of `a ↦ a·p` are cosets of the stabiliser, hence have its size -/
private lemma fibre_length {d : Nat} (hd : 24 ∣ d) {G : List Sg.Op} (hG : IsGroupModLattice G) (p : Pos)
    {c : Sg.Op} (hc : c ∈ G) :
    (fibre d G p (cls d p c)).length = (stabiliser d G p).length := by
  rw [stabiliser_eq_fibre]
  obtain ⟨c', hc', hcc'⟩ := hG.inv c hc
  have hc'c := hG.inv_left hc hc' hcc'
  have memF : ∀ {v x}, x ∈ fibre d G p v ↔ x ∈ G ∧ cls d p x = v := by
    intro v x; simp [fibre]
  apply le_antisymm
  · -- x ↦ c'∘x maps the fibre over c·p injectively into the stabiliser
    refine length_le_of_inj (Sg.comp c') ((hG.nodup).filter _) ?_ ?_
    · intro x hx y hy hxy
      exact hG.comp_left_cancel hc' (memF.1 hx).1 (memF.1 hy).1 hxy
    · intro x hx
      obtain ⟨hxG, hxv⟩ := memF.1 hx
      refine memF.2 ⟨hG.closed _ hc' _ hxG, ?_⟩
      unfold cls at hxv ⊢
      rw [reduce_act_comp hd, reduce_act_congr d c' hxv, ← reduce_act_comp hd, hc'c, act_one]
  · -- s ↦ c∘s maps the stabiliser injectively into the fibre over c·p
    refine length_le_of_inj (Sg.comp c) ((hG.nodup).filter _) ?_ ?_
    · intro x hx y hy hxy
      exact hG.comp_left_cancel hc (memF.1 hx).1 (memF.1 hy).1 hxy
    · intro x hx
      obtain ⟨hxG, hxv⟩ := memF.1 hx
      refine memF.2 ⟨hG.closed _ hc _ hxG, ?_⟩
      unfold cls at hxv ⊢
      rw [reduce_act_comp hd, reduce_act_congr d c hxv]

/-- list level orbit–stabiliser: (number of distinct images) × (order of the site-symmetry group) = |G| -/
theorem count_orbit_stabiliser {d : Nat} (hd : 24 ∣ d) {G : List Sg.Op} (hG : IsGroupModLattice G) (p : Pos) :
    count d G p * (stabiliser d G p).length = G.length := by
  rw [count_eq_card_images]
  have hmap : (images d G p).map (reduce d) = G.map (cls d p) := by
    simp [images, cls, List.map_map, Function.comp_def]
  rw [hmap]
  have hsum := List.sum_map_count_dedup_eq_length (G.map (cls d p))
  rw [List.length_map] at hsum
  rw [← hsum]
  have hterm : ∀ v ∈ (G.map (cls d p)).dedup, (G.map (cls d p)).count v = (stabiliser d G p).length := by
    intro v hv
    obtain ⟨c, hc, rfl⟩ := List.mem_map.1 (List.mem_dedup.1 hv)
    rw [← fibre_length hd hG p hc, List.count_eq_countP, List.countP_map, List.countP_eq_length_filter]
    rfl
  rw [List.map_congr_left hterm, List.map_const', List.sum_replicate, smul_eq_mul]

/-- C15, "nsymop divided by the order of the site-symmetry group": for a table that is a group modulo the
    lattice (every generated table: `Sg.checkGroup_sound` from the kernel-checked `Sg.ok_<key>`), and a position
    over a denominator divisible by 24, multiplicity × |site-symmetry group| = nsymop -/
theorem mult_orbit_stabiliser (t : SgTable) (hG : IsGroupModLattice (Sg.opsOf t))
    (hlen : (Sg.opsOf t).length = t.nsymop) {d : Nat} (hd : 24 ∣ d) (p : Pos) :
    ∃ m, multiplicity t d p = some m ∧ m * (stabiliser d (Sg.opsOf t) p).length = t.nsymop := by
  have hpos : 0 < t.nsymop := by
    rw [← hlen]; exact List.length_pos_of_mem hG.one_mem
  refine ⟨count d (Sg.opsOf t) p, ?_, ?_⟩
  · simp [multiplicity, usedOps?_of_length hlen hpos]
  · rw [count_orbit_stabiliser hd hG p, hlen]

/-! ### the floating-point tolerance test -/

/-- one coordinate: a computed value within `2·10⁻⁶` of an exact value that is either an integer or at least
    `10⁻³` away from every integer -/
private lemma coord_small_of_int {t e : ℝ} (hte : |t - e| ≤ 2e-6) (m : ℤ) (hm : e = m) :
    |t - round t| ≤ 2e-6 := by
  calc |t - round t| ≤ |t - m| := round_le t m
    _ = |t - e| := by rw [hm]
    _ ≤ 2e-6 := hte

private lemma coord_int_of_small {t e : ℝ} (hte : |t - e| ≤ 2e-6)
    (hgap : (∃ m : ℤ, e = m) ∨ ∀ m : ℤ, 1e-3 ≤ |e - m|) (hs : |t - round t| < 1e-5) : ∃ m : ℤ, e = m := by
  rcases hgap with h | h
  · exact h
  · exfalso
    have h1 := h (round t)
    have h2 : |e - round t| ≤ |t - e| + |t - round t| := by
      have : e - round t = -(t - e) + (t - round t) := by ring
      rw [this]
      exact (abs_add_le _ _).trans (by rw [abs_neg])
    norm_num at h1 h2 hte hs ⊢
    linarith

/-- C15, float bridge: let `e₁,e₂,e₃` be the exact coordinates of the difference of two images and `t₁,t₂,t₃` the
    computed ones, each within `2·10⁻⁶` (table thirds/sixths are off by ≤ 5·10⁻⁷, twice; rounding ≪ 10⁻⁹).
    If every exact coordinate is an integer or at least `10⁻³` away from all integers (on the grid: ≥ 1/24), then
    the code's test `Σ|t_k − round t_k| < 10⁻⁵` holds iff the exact difference is a lattice vector.
    (`|t − round t|` does not depend on the tie-breaking rule of `round`, so numpy's half-to-even is covered.) -/
theorem tolerance_sound (t1 t2 t3 e1 e2 e3 : ℝ)
    (h1 : |t1 - e1| ≤ 2e-6) (h2 : |t2 - e2| ≤ 2e-6) (h3 : |t3 - e3| ≤ 2e-6)
    (g1 : (∃ m : ℤ, e1 = m) ∨ ∀ m : ℤ, 1e-3 ≤ |e1 - m|)
    (g2 : (∃ m : ℤ, e2 = m) ∨ ∀ m : ℤ, 1e-3 ≤ |e2 - m|)
    (g3 : (∃ m : ℤ, e3 = m) ∨ ∀ m : ℤ, 1e-3 ≤ |e3 - m|) :
    |t1 - round t1| + |t2 - round t2| + |t3 - round t3| < 1e-5 ↔
      (∃ m : ℤ, e1 = m) ∧ (∃ m : ℤ, e2 = m) ∧ (∃ m : ℤ, e3 = m) := by
  have n1 := abs_nonneg (t1 - round t1)
  have n2 := abs_nonneg (t2 - round t2)
  have n3 := abs_nonneg (t3 - round t3)
  constructor
  · intro h
    exact ⟨coord_int_of_small h1 g1 (by linarith), coord_int_of_small h2 g2 (by linarith),
      coord_int_of_small h3 g3 (by linarith)⟩
  · rintro ⟨⟨m1, hm1⟩, ⟨m2, hm2⟩, ⟨m3, hm3⟩⟩
    have a1 := coord_small_of_int h1 m1 hm1
    have a2 := coord_small_of_int h2 m2 hm2
    have a3 := coord_small_of_int h3 m3 hm3
    norm_num at a1 a2 a3 ⊢
    linarith

/-- a rational `n/d` with `0 < d ≤ 1000` is an integer (iff `d ∣ n`) or at least `10⁻³` away from every integer -/
lemma gap_of_small_den (n : Int) (d : Nat) (hd0 : 0 < d) (hd : d ≤ 1000) :
    ((∃ m : ℤ, (n : ℝ) / d = m) ∨ ∀ m : ℤ, 1e-3 ≤ |(n : ℝ) / d - m|) ∧
      ((∃ m : ℤ, (n : ℝ) / d = m) ↔ n % (d : Int) = 0) := by
  have hdR : (0 : ℝ) < d := by exact_mod_cast hd0
  have hdR' : (d : ℝ) ≤ 1000 := by exact_mod_cast hd
  have hiff : (∃ m : ℤ, (n : ℝ) / d = m) ↔ n % (d : Int) = 0 := by
    constructor
    · rintro ⟨m, hm⟩
      rw [div_eq_iff hdR.ne'] at hm
      have : n = m * (d : Int) := by exact_mod_cast hm
      rw [this]; exact Int.mul_emod_left m d
    · intro h
      obtain ⟨k, hk⟩ := Int.dvd_of_emod_eq_zero h
      refine ⟨k, ?_⟩
      rw [div_eq_iff hdR.ne', hk]; push_cast; ring
  refine ⟨?_, hiff⟩
  by_cases h : n % (d : Int) = 0
  · exact Or.inl (hiff.2 h)
  · right
    intro m
    have hne : n - m * (d : Int) ≠ 0 := by
      intro h0
      apply h
      have : n = m * (d : Int) := by omega
      rw [this]; exact Int.mul_emod_left m d
    have h1 : (1 : ℝ) ≤ |((n - m * (d : Int) : Int) : ℝ)| := by
      have := Int.one_le_abs hne
      exact_mod_cast this
    have h2 : (n : ℝ) / d - m = ((n - m * (d : Int) : Int) : ℝ) / d := by
      push_cast; field_simp
    rw [h2, abs_div, abs_of_pos hdR, le_div_iff₀ hdR]
    calc (1e-3 : ℝ) * d ≤ 1e-3 * 1000 := by
          apply mul_le_mul_of_nonneg_left hdR' (by norm_num)
      _ = 1 := by norm_num
      _ ≤ _ := h1

/-- C15, float bridge on the model: for positions over a denominator `0 < d ≤ 1000` (the grid: `d = 24`), if the
    computed difference `t` of two images is within `2·10⁻⁶` per coordinate of the exact one `(q − r)/d`, the code's
    tolerance test decides exactly the model's `eqv` -/
theorem tolerance_sound_model (d : Nat) (hd0 : 0 < d) (hd : d ≤ 1000) (q r : Pos) (t1 t2 t3 : ℝ)
    (h1 : |t1 - ((q.x - r.x : Int) : ℝ) / d| ≤ 2e-6) (h2 : |t2 - ((q.y - r.y : Int) : ℝ) / d| ≤ 2e-6)
    (h3 : |t3 - ((q.z - r.z : Int) : ℝ) / d| ≤ 2e-6) :
    |t1 - round t1| + |t2 - round t2| + |t3 - round t3| < 1e-5 ↔ eqv d q r = true := by
  obtain ⟨g1, i1⟩ := gap_of_small_den (q.x - r.x) d hd0 hd
  obtain ⟨g2, i2⟩ := gap_of_small_den (q.y - r.y) d hd0 hd
  obtain ⟨g3, i3⟩ := gap_of_small_den (q.z - r.z) d hd0 hd
  rw [tolerance_sound t1 t2 t3 _ _ _ h1 h2 h3 g1 g2 g3, i1, i2, i3]
  simp [eqv, and_assoc]

/-! ### concrete tables (executable model, kernel evaluation) -/

/-- P6₃ (no. 173), special position 2b (1/3, 2/3, z) with z = 5/24: multiplicity 2 -/
example : multiplicity Sg.Tables.n173 24 ⟨8, 16, 5⟩ = some 2 := by decide +kernel

/-- P6₃, general position: 6 -/
example : multiplicity Sg.Tables.n173 24 ⟨1, 5, 7⟩ = some 6 := by decide +kernel

/-- the same special position shifted by the lattice vector (1,-2,3) -/
example : multiplicity Sg.Tables.n173 24 (shift 24 1 (-2) 3 ⟨8, 16, 5⟩) = some 2 := by decide +kernel

/-- Fm-3m (no. 225), general position (0.1234, 0.2345, 0.3456) over d = 30000: 192 -/
example : multiplicity Sg.Tables.n225 30000 ⟨3702, 7035, 10368⟩ = some 192 := by decide +kernel

/-- Fm-3m, 4a (0,0,0): 4;  8c (1/4,1/4,1/4): 8;  24e (x,0,0): 24 -/
example : multiplicity Sg.Tables.n225 24 ⟨0, 0, 0⟩ = some 4 := by decide +kernel
example : multiplicity Sg.Tables.n225 24 ⟨6, 6, 6⟩ = some 8 := by decide +kernel
example : multiplicity Sg.Tables.n225 30000 ⟨3702, 0, 0⟩ = some 24 := by decide +kernel

/-- R-3m, rhombohedral setting (no. 166): (x,x,x) has multiplicity 2 -/
example : multiplicity Sg.Tables.n166r 30000 ⟨3702, 3702, 3702⟩ = some 2 := by decide +kernel

/-- P6₃: the site symmetry of 2b has order 3 = 6 / 2 -/
example : (stabiliser 24 (Sg.opsOf Sg.Tables.n173) ⟨8, 16, 5⟩).length = 3 := by decide +kernel

private instance decEqOp : DecidableEq Sg.Op := fun a b =>
  decidable_of_iff (a.r11 = b.r11 ∧ a.r12 = b.r12 ∧ a.r13 = b.r13 ∧ a.r21 = b.r21 ∧ a.r22 = b.r22 ∧ a.r23 = b.r23 ∧
      a.r31 = b.r31 ∧ a.r32 = b.r32 ∧ a.r33 = b.r33 ∧ a.t1 = b.t1 ∧ a.t2 = b.t2 ∧ a.t3 = b.t3)
    ⟨fun ⟨h1, h2, h3, h4, h5, h6, h7, h8, h9, h10, h11, h12⟩ => op_ext h1 h2 h3 h4 h5 h6 h7 h8 h9 h10 h11 h12,
     fun h => by subst h; simp⟩

/-- the hypotheses of `mult_orbit_stabiliser` are satisfiable: P6₃ is a group modulo the lattice (here decided
    directly; for all 237 tables this is `Sg.checkGroup_sound` applied to the kernel-checked `Sg.ok_<key>`) -/
example : IsGroupModLattice (Sg.opsOf Sg.Tables.n173) where
  one_mem := by decide +kernel
  closed := by decide +kernel
  inv := by decide +kernel
  nodup := by decide +kernel
  reduced := opsOf_reduced _

end C15
