/-
C15Tables: integration ("glue") of C15 with C04.

Proofs/C15.lean proves the orbit–stabiliser statement of `structure.multiplicity` for any table `t` under the local
hypotheses `C15.IsGroupModLattice (Sg.opsOf t)` and `(Sg.opsOf t).length = t.nsymop`.  Proofs/C04.lean
(`all_tables_groups`) establishes `Sg.IsGroupModLattice (Sg.opsOf t)` (Lemmas/SgSound.lean, same five fields) and the
length equation for every generated table of `Sg.allTables` (230 space groups + 7 rhombohedral settings).  Here the two
are joined: the C15 statements hold for every generated table with no hypothesis on the table.
-/
import XfabVerif.Proofs.C15
import XfabVerif.Proofs.C04
import XfabVerif.Lemmas.SgSound

set_option linter.unusedVariables false
set_option linter.style.longLine false

namespace C15

/-- field-for-field conversion of the group structure delivered by `Sg.checkGroup_sound` (Lemmas/SgSound.lean) into the
local restatement used by Proofs/C15.lean -/
lemma isGroupModLattice_of_sg {G : List Sg.Op} (h : Sg.IsGroupModLattice G) : C15.IsGroupModLattice G :=
  ⟨h.one_mem, h.closed, h.inv, h.nodup, fun a ha => h.reduced a ha⟩

/-- every generated table satisfies the hypotheses of `C15.mult_orbit_stabiliser` -/
lemma tables_hyps : ∀ kt ∈ Sg.allTables,
    C15.IsGroupModLattice (Sg.opsOf kt.2) ∧ (Sg.opsOf kt.2).length = kt.2.nsymop ∧ 0 < kt.2.nsymop := by
  intro kt hkt
  obtain ⟨hG, hlen⟩ := all_tables_groups kt hkt
  refine ⟨isGroupModLattice_of_sg hG, hlen, ?_⟩
  rw [← hlen]; exact List.length_pos_of_mem hG.one_mem

end C15

open Mult

/-- C15 ("the code does not raise"), all generated tables: `multiplicity` is defined (never `none`, i.e. no IndexError
branch of the model) for every generated table, every denominator and every position; its value is the greedy count
over ALL operations of the table. -/
theorem mult_defined_tables : ∀ kt ∈ Sg.allTables, ∀ (d : Nat) (p : Mult.Pos),
    Mult.multiplicity kt.2 d p = some (Mult.count d (Sg.opsOf kt.2) p) := by
  intro kt hkt d p
  obtain ⟨-, hlen, hpos⟩ := C15.tables_hyps kt hkt
  simp [Mult.multiplicity, C15.usedOps?_of_length hlen hpos]

/-- C15 ("the code does not raise"), all generated tables, in the form `≠ none`. -/
theorem mult_ne_none_tables : ∀ kt ∈ Sg.allTables, ∀ (d : Nat) (p : Mult.Pos),
    Mult.multiplicity kt.2 d p ≠ none := by
  intro kt hkt d p
  rw [mult_defined_tables kt hkt d p]
  exact Option.some_ne_none _

/-- C15 ("nsymop divided by the order of the site-symmetry group"), all generated tables, unconditional: for every
generated table, every denominator `d` with `24 ∣ d` and every position `p` (numerators over `d`), whatever
`multiplicity` returns satisfies  multiplicity × |site-symmetry group| = nsymop.  (`0 < d` is not needed.) -/
theorem mult_orbit_stabiliser_tables : ∀ kt ∈ Sg.allTables, ∀ (d : Nat), 24 ∣ d → ∀ (p : Mult.Pos) (m : Nat),
    Mult.multiplicity kt.2 d p = some m →
      m * (Mult.stabiliser d (Sg.opsOf kt.2) p).length = kt.2.nsymop := by
  intro kt hkt d hd p m hm
  obtain ⟨hG, hlen, -⟩ := C15.tables_hyps kt hkt
  obtain ⟨m', hm', hprod⟩ := C15.mult_orbit_stabiliser kt.2 hG hlen hd p
  rw [hm] at hm'
  cases hm'
  exact hprod

/-- C15, all generated tables, existence form: `multiplicity` returns some `m` with
`m × |site-symmetry group| = nsymop` (so `m = nsymop / |site-symmetry group|` exactly, the division being exact). -/
theorem mult_orbit_stabiliser_exists_tables : ∀ kt ∈ Sg.allTables, ∀ (d : Nat), 24 ∣ d → ∀ (p : Mult.Pos),
    ∃ m, Mult.multiplicity kt.2 d p = some m ∧
      m * (Mult.stabiliser d (Sg.opsOf kt.2) p).length = kt.2.nsymop ∧
      m = kt.2.nsymop / (Mult.stabiliser d (Sg.opsOf kt.2) p).length := by
  intro kt hkt d hd p
  refine ⟨_, mult_defined_tables kt hkt d p, ?_⟩
  have h := mult_orbit_stabiliser_tables kt hkt d hd p _ (mult_defined_tables kt hkt d p)
  refine ⟨h, ?_⟩
  have hpos := (C15.tables_hyps kt hkt).2.2
  have hs : 0 < (Mult.stabiliser d (Sg.opsOf kt.2) p).length := by
    rcases Nat.eq_zero_or_pos (Mult.stabiliser d (Sg.opsOf kt.2) p).length with h0 | h0
    · rw [h0, Nat.mul_zero] at h; omega
    · exact h0
  rw [← h, Nat.mul_div_cancel _ hs]

/-- C15, all generated tables: the multiplicity divides `nsymop`. -/
theorem mult_dvd_nsymop_tables : ∀ kt ∈ Sg.allTables, ∀ (d : Nat), 24 ∣ d → ∀ (p : Mult.Pos) (m : Nat),
    Mult.multiplicity kt.2 d p = some m → m ∣ kt.2.nsymop := by
  intro kt hkt d hd p m hm
  exact ⟨_, (mult_orbit_stabiliser_tables kt hkt d hd p m hm).symm⟩

/-- the statements are not vacuous: `n2` (P-1) is a generated table; for the inversion centre at the origin the product
law `m × |site-symmetry group| = nsymop` holds with the hypotheses discharged -/
example : ∃ m, Mult.multiplicity Sg.Tables.n2 24 ⟨0, 0, 0⟩ = some m ∧
    m * (Mult.stabiliser 24 (Sg.opsOf Sg.Tables.n2) ⟨0, 0, 0⟩).length = Sg.Tables.n2.nsymop := by
  have hmem : ("n2", Sg.Tables.n2) ∈ Sg.allTables := by
    unfold Sg.allTables; exact List.mem_cons_of_mem _ List.mem_cons_self
  obtain ⟨m, hm, hp, -⟩ := mult_orbit_stabiliser_exists_tables _ hmem 24 (dvd_refl 24) ⟨0, 0, 0⟩
  exact ⟨m, hm, hp⟩
