/-
C16 — atomic form factors are physical.  The per-row obligations `atom_<EL>` are generated from
`xfab/atomlib.py` (Gen/Atomlib.lean) and discharged through the generic analytic lemmas of
`Lemmas/C16Generic.lean` about the traced `Structure.FormFactor`.
-/
import XfabVerif.Gen.Atomlib

/-- For every row of `atomlib.formfactor` (paired with the atomic number of its key): `FormFactor` evaluates
`Σ aᵢ exp(-bᵢ s²) + c`, `|f(0) − Z| ≤ 0.1`, `f > 0` on `[0,2]`, and `f` is strictly decreasing on `[0,∞)` —
for all real `s`, no grid. -/
theorem c16_every_row : ∀ p ∈ Atomlib.table, C16.RowOk p.1 p.2 := atomlib_all_rows_ok

/-- the table rows are exactly the generated element list (one obligation per element, none skipped) -/
theorem c16_table_complete : Atomlib.table.length = Atomlib.elements.length := by
  simp [Atomlib.table, Atomlib.elements]

/-- non-vacuity: the carbon row is in the table -/
example : (Atomlib.C, (6 : ℝ)) ∈ Atomlib.table := by simp [Atomlib.table]
