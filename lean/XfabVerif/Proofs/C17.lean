/-
C17 — CIF and PDB ingestion reproduces what the file states.

Theorems about the hand model `XfabVerif/Model/CifPdb.lean` of `xfab.structure.build_atomlist`
(`remove_esd`, `CIFopen`, `CIFread`, `PDBread`); the model is tied to the implementation by the correspondence
stream of `harness/props/c17.py` (real code through PyCifRW vs. the model on the generator's tag map / the raw PDB lines).

Conventions: a CIF block is `List (data name × Val)`, `Val.loop l` a loop column; numbers are the decimal strings that
the Python code passes to `float` (`esdCut s` = `s` up to the first '('); `Adp.iso t true` / `Adp.ani ts true` mean
"divided by 8π²"; `Multi.computed p sg (mult p sg)` is the abstract computed multiplicity.
The CIF statements are of the form: *whenever `cifread` succeeds on a block whose columns are …, then field … of atom i is …*;
`cifread_total` states that it does succeed on every block satisfying the decidable predicate `wellFormed`.
-/
import XfabVerif.Model.CifPdb
import XfabVerif.Gen.Sg.All
import XfabVerif.Gen.PdbSymbols

set_option linter.unusedVariables false
set_option linter.unusedSimpArgs false

deriving instance DecidableEq for Except

namespace CifPdb

private theorem bind_ok {ε α β : Type} {x : Except ε α} {f : α → Except ε β} {b : β} :
    (x >>= f) = .ok b ↔ ∃ a, x = .ok a ∧ f a = .ok b := by
  cases x <;> simp [bind, Except.bind]

private theorem map_ok {ε α β : Type} {x : Except ε α} {f : α → β} {b : β} :
    (f <$> x) = .ok b ↔ ∃ a, x = .ok a ∧ f a = b := by
  cases x <;> simp [Functor.map, Except.map]

private theorem pure_ok {ε α : Type} {a b : α} : (pure a : Except ε α) = .ok b ↔ a = b := by
  simp [pure, Except.pure]

private theorem get_ok {b : Block} {tag : String} {v : Val} : b.get tag = .ok v ↔ b.lookup tag = some v := by
  unfold Block.get
  cases h : List.lookup tag b <;> simp

private theorem removeEsd_ok {a t : String} : removeEsd a = .ok t ↔ t = esdCut a ∧ isFloat (esdCut a) = true := by
  unfold removeEsd pyFloat
  by_cases h : isFloat (esdCut a) = true <;> simp [h, eq_comm]

private theorem findChar_append_of_not_mem (c : Char) (d e : List Char) (h : c ∉ d) :
    findChar c (d ++ c :: e) = some d.length := by
  induction d with
  | nil => simp [findChar]
  | cons x xs ih =>
    have hx : x ≠ c := by intro hh; apply h; simp [hh]
    have hxs : c ∉ xs := by intro hh; apply h; simp [hh]
    simp [findChar, hx, ih hxs]

private theorem findChar_none_of_not_mem (c : Char) (d : List Char) (h : c ∉ d) : findChar c d = none := by
  induction d with
  | nil => simp [findChar]
  | cons x xs ih =>
    have hx : x ≠ c := by intro hh; apply h; simp [hh]
    have hxs : c ∉ xs := by intro hh; apply h; simp [hh]
    simp [findChar, hx, ih hxs]

private theorem esdCut_paren (d e : String) (h : '(' ∉ d.toList) : esdCut (d ++ "(" ++ e) = d := by
  unfold esdCut
  have : (d ++ "(" ++ e).toList = d.toList ++ '(' :: e.toList := by simp [String.toList_append]
  rw [this, findChar_append_of_not_mem _ _ _ h]
  simp

private theorem esdCut_id (a : String) (h : '(' ∉ a.toList) : esdCut a = a := by
  unfold esdCut
  rw [findChar_none_of_not_mem _ _ h]
private theorem cifScalar_ok {b : Block} {tag t : String} :
    cifScalar b tag = .ok t ↔ ∃ s, b.lookup tag = some (.str s) ∧ t = esdCut s ∧ isFloat (esdCut s) = true := by
  unfold cifScalar
  rw [bind_ok]
  constructor
  · rintro ⟨v, hv, h⟩
    rw [get_ok] at hv
    cases v with
    | str s => exact ⟨s, hv, removeEsd_ok.mp h⟩
    | loop l => simp at h
  · rintro ⟨s, hs, h⟩
    exact ⟨.str s, get_ok.mpr hs, removeEsd_ok.mpr h⟩

private theorem cifCell_ok {b : Block} {c : List String} (h : cifCell b = .ok c) :
    ∃ a b' c' al be ga, b.lookup "_cell_length_a" = some (.str a) ∧ b.lookup "_cell_length_b" = some (.str b') ∧
      b.lookup "_cell_length_c" = some (.str c') ∧ b.lookup "_cell_angle_alpha" = some (.str al) ∧
      b.lookup "_cell_angle_beta" = some (.str be) ∧ b.lookup "_cell_angle_gamma" = some (.str ga) ∧
      c = [esdCut a, esdCut b', esdCut c', esdCut al, esdCut be, esdCut ga] := by
  unfold cifCell at h
  obtain ⟨_, h1, h⟩ := bind_ok.mp h
  obtain ⟨_, h2, h⟩ := bind_ok.mp h
  obtain ⟨_, h3, h⟩ := bind_ok.mp h
  obtain ⟨_, h4, h⟩ := bind_ok.mp h
  obtain ⟨_, h5, h⟩ := bind_ok.mp h
  obtain ⟨_, h6, h⟩ := bind_ok.mp h
  obtain ⟨a, ha, rfl, _⟩ := cifScalar_ok.mp h1
  obtain ⟨b', hb, rfl, _⟩ := cifScalar_ok.mp h2
  obtain ⟨c', hc, rfl, _⟩ := cifScalar_ok.mp h3
  obtain ⟨al, hal, rfl, _⟩ := cifScalar_ok.mp h4
  obtain ⟨be, hbe, rfl, _⟩ := cifScalar_ok.mp h5
  obtain ⟨ga, hga, rfl, _⟩ := cifScalar_ok.mp h6
  exact ⟨a, b', c', al, be, ga, ha, hb, hc, hal, hbe, hga, (pure_ok.mp h).symm⟩

private theorem valGet_ok {v : Val} {i : Nat} {s : String} : v.get i = .ok s ↔ v.items[i]? = some s := by
  unfold Val.get
  cases h : v.items[i]? <;> simp

private theorem cifItem_ok {b : Block} {tag : String} {i : Nat} {s : String} :
    cifItem b tag i = .ok s ↔ ∃ v, b.lookup tag = some v ∧ v.items[i]? = some s := by
  unfold cifItem
  rw [bind_ok]
  constructor
  · rintro ⟨v, hv, h⟩; exact ⟨v, get_ok.mp hv, valGet_ok.mp h⟩
  · rintro ⟨v, hv, h⟩; exact ⟨v, get_ok.mpr hv, valGet_ok.mpr h⟩

private theorem cifNum_ok {b : Block} {tag : String} {i : Nat} {t : String} :
    cifNum b tag i = .ok t ↔ ∃ v s, b.lookup tag = some v ∧ v.items[i]? = some s ∧ t = esdCut s ∧ isFloat (esdCut s) = true := by
  unfold cifNum
  rw [bind_ok]
  constructor
  · rintro ⟨s, hs, h⟩
    obtain ⟨v, hv, hi⟩ := cifItem_ok.mp hs
    exact ⟨v, s, hv, hi, removeEsd_ok.mp h⟩
  · rintro ⟨v, s, hv, hi, h⟩
    exact ⟨s, cifItem_ok.mpr ⟨v, hv, hi⟩, removeEsd_ok.mpr h⟩

/-- inversion of the atom-loop body -/
private theorem cifAtom_ok {mult : Pos → String → Nat} {b : Block} {sg : String} {i : Nat} {prev : Option Adp} {a : Atom}
    (h : cifAtom mult b sg i prev = .ok a) :
    cifItem b "_atom_site_label" i = .ok a.label ∧
    (∃ ty, cifItem b "_atom_site_type_symbol" i = .ok ty ∧ a.atomtype = upper ty) ∧
    (∃ x y z, cifNum b "_atom_site_fract_x" i = .ok x ∧ cifNum b "_atom_site_fract_y" i = .ok y ∧
       cifNum b "_atom_site_fract_z" i = .ok z ∧ a.pos = .frac x y z ∧ cifMulti mult b sg i x y z = .ok a.multi) ∧
    a.occ = cifOcc b i ∧
    cifAdp b i a.label (cifAdpType b i) prev = .ok (a.adpType, a.adp) := by
  unfold cifAtom at h
  obtain ⟨label, h1, h⟩ := bind_ok.mp h
  obtain ⟨ty, h2, h⟩ := bind_ok.mp h
  obtain ⟨x, h3, h⟩ := bind_ok.mp h
  obtain ⟨y, h4, h⟩ := bind_ok.mp h
  obtain ⟨z, h5, h⟩ := bind_ok.mp h
  obtain ⟨multi, h6, h⟩ := bind_ok.mp h
  obtain ⟨ta, h7, h⟩ := bind_ok.mp h
  have := pure_ok.mp h
  subst this
  exact ⟨h1, ⟨ty, h2, rfl⟩, ⟨x, y, z, h3, h4, h5, rfl, h6⟩, rfl, h7⟩

private theorem cifAtomsFrom_ok {mult : Pos → String → Nat} {b : Block} {sg : String} {n : Nat} :
    ∀ (k : Nat) (prev : Option Adp) (l : List Atom), k ≤ n → cifAtomsFrom mult b sg n k prev = .ok l →
      l.length = k ∧ ∀ j (hj : j < l.length), ∃ prev', cifAtom mult b sg (n - k + j) prev' = .ok l[j]
  | 0, prev, l, _, h => by
    have := pure_ok.mp (by simpa [cifAtomsFrom] using h : (pure [] : Except Err (List Atom)) = .ok l)
    subst this
    simp
  | k + 1, prev, l, hk, h => by
    unfold cifAtomsFrom at h
    obtain ⟨a, h1, h⟩ := bind_ok.mp h
    obtain ⟨rest, h2, h⟩ := bind_ok.mp h
    have := pure_ok.mp h
    subst this
    obtain ⟨hl, hr⟩ := cifAtomsFrom_ok k _ rest (by omega) h2
    refine ⟨by simp [hl], ?_⟩
    intro j hj
    cases j with
    | zero => exact ⟨prev, by simpa using h1⟩
    | succ j =>
      have hj' : j < rest.length := by simpa using hj
      obtain ⟨p, hp⟩ := hr j hj'
      refine ⟨p, ?_⟩
      simp only [List.getElem_cons_succ]
      have : n - (k + 1) + (j + 1) = n - k + j := by omega
      rw [this]; exact hp

private theorem cifread_ok {mult : Pos → String → Nat} {b : Block} {r : AtomList} (h : cifread mult b = .ok r) :
    cifCell b = .ok r.cell ∧ cifSgname b = .ok r.sgname ∧ cifDispersion b = .ok r.dispersion ∧
    ∃ v, b.lookup "_atom_site_type_symbol" = some v ∧ cifAtomsFrom mult b r.sgname v.len v.len none = .ok r.atoms := by
  unfold cifread at h
  obtain ⟨cell, h1, h⟩ := bind_ok.mp h
  obtain ⟨sg, h2, h⟩ := bind_ok.mp h
  obtain ⟨disp, h3, h⟩ := bind_ok.mp h
  obtain ⟨v, h4, h⟩ := bind_ok.mp h
  obtain ⟨atoms, h5, h⟩ := bind_ok.mp h
  have := pure_ok.mp h
  subst this
  exact ⟨h1, h2, h3, v, get_ok.mp h4, h5⟩

/-- the atom at index `i` of a successful read is the loop body evaluated at `i` -/
private theorem cifread_atom {mult : Pos → String → Nat} {b : Block} {r : AtomList} (h : cifread mult b = .ok r) :
    (∃ v, b.lookup "_atom_site_type_symbol" = some v ∧ r.atoms.length = v.len) ∧
    ∀ i (hi : i < r.atoms.length), ∃ prev, cifAtom mult b r.sgname i prev = .ok r.atoms[i] := by
  obtain ⟨_, _, _, v, hv, ha⟩ := cifread_ok h
  obtain ⟨hl, hr⟩ := cifAtomsFrom_ok v.len none r.atoms (Nat.le_refl _) ha
  refine ⟨⟨v, hv, hl⟩, ?_⟩
  intro i hi
  obtain ⟨p, hp⟩ := hr i hi
  exact ⟨p, by simpa using hp⟩

private theorem item_col {b : Block} {tag : String} {l : List String} {i : Nat} {s : String}
    (hc : b.lookup tag = some (.loop l)) (h : cifItem b tag i = .ok s) : l[i]? = some s := by
  obtain ⟨v, hv, hi⟩ := cifItem_ok.mp h
  rw [hc] at hv
  cases hv
  exact hi

private theorem num_col {b : Block} {tag : String} {l : List String} {i : Nat} {t : String}
    (hc : b.lookup tag = some (.loop l)) (h : cifNum b tag i = .ok t) :
    ∃ s, l[i]? = some s ∧ t = esdCut s ∧ isFloat (esdCut s) = true := by
  obtain ⟨v, s, hv, hi, ht⟩ := cifNum_ok.mp h
  rw [hc] at hv
  cases hv
  exact ⟨s, hi, ht⟩


section cif
variable {mult : Pos → String → Nat} {b : Block} {r : AtomList}

/-- cell: the six cell items with the parenthesised uncertainty cut off -/
theorem cifread_cell (h : cifread mult b = .ok r) :
    ∃ a b' c al be ga, b.lookup "_cell_length_a" = some (.str a) ∧ b.lookup "_cell_length_b" = some (.str b') ∧
      b.lookup "_cell_length_c" = some (.str c) ∧ b.lookup "_cell_angle_alpha" = some (.str al) ∧
      b.lookup "_cell_angle_beta" = some (.str be) ∧ b.lookup "_cell_angle_gamma" = some (.str ga) ∧
      r.cell = [esdCut a, esdCut b', esdCut c, esdCut al, esdCut be, esdCut ga] :=
  cifCell_ok (cifread_ok h).1

/-- sgname: the Hermann-Mauguin item with exactly its white-space characters removed -/
theorem cifread_sgname (h : cifread mult b = .ok r) :
    ∃ s, b.lookup "_symmetry_space_group_name_h-m" = some (.str s) ∧
      r.sgname.toList = s.toList.filter (fun c => !isWs c) ∧ ∀ c ∈ r.sgname.toList, isWs c = false := by
  have h2 := (cifread_ok h).2.1
  unfold cifSgname at h2
  obtain ⟨v, hv, h2⟩ := bind_ok.mp h2
  cases v with
  | loop l => simp at h2
  | str s =>
    have := pure_ok.mp h2
    rw [← this]
    refine ⟨s, get_ok.mp hv, by simp [removeWs, removeWsL], ?_⟩
    intro c hc
    simp [removeWs, removeWsL] at hc
    simpa using hc.2

/-- one atom per entry of the `_atom_site_type_symbol` column -/
theorem cifread_atom_count {tys : List String} (h : cifread mult b = .ok r)
    (ht : b.lookup "_atom_site_type_symbol" = some (.loop tys)) : r.atoms.length = tys.length := by
  obtain ⟨⟨v, hv, hl⟩, _⟩ := cifread_atom h
  rw [ht] at hv
  cases hv
  exact hl

/-- label of atom `i` = entry `i` of `_atom_site_label` -/
theorem cifread_atom_label {labels : List String} (h : cifread mult b = .ok r)
    (hc : b.lookup "_atom_site_label" = some (.loop labels)) (i : Nat) (hi : i < r.atoms.length) :
    labels[i]? = some r.atoms[i].label := by
  obtain ⟨_, ha⟩ := (cifread_atom h).2 i hi
  exact item_col hc (cifAtom_ok ha).1

/-- element of atom `i` = entry `i` of `_atom_site_type_symbol`, upper-cased -/
theorem cifread_atom_type {tys : List String} (h : cifread mult b = .ok r)
    (hc : b.lookup "_atom_site_type_symbol" = some (.loop tys)) (i : Nat) (hi : i < r.atoms.length) :
    ∃ t, tys[i]? = some t ∧ r.atoms[i].atomtype = upper t := by
  obtain ⟨_, ha⟩ := (cifread_atom h).2 i hi
  obtain ⟨t, ht, hu⟩ := (cifAtom_ok ha).2.1
  exact ⟨t, item_col hc ht, hu⟩

/-- fractional coordinates of atom `i` = entries `i` of the three `_atom_site_fract_` columns without their uncertainties -/
theorem cifread_atom_pos {xs ys zs : List String} (h : cifread mult b = .ok r)
    (hx : b.lookup "_atom_site_fract_x" = some (.loop xs)) (hy : b.lookup "_atom_site_fract_y" = some (.loop ys))
    (hz : b.lookup "_atom_site_fract_z" = some (.loop zs)) (i : Nat) (hi : i < r.atoms.length) :
    ∃ x y z, xs[i]? = some x ∧ ys[i]? = some y ∧ zs[i]? = some z ∧ r.atoms[i].pos = .frac (esdCut x) (esdCut y) (esdCut z) := by
  obtain ⟨_, ha⟩ := (cifread_atom h).2 i hi
  obtain ⟨x, y, z, h1, h2, h3, hp, _⟩ := (cifAtom_ok ha).2.2.1
  obtain ⟨x', hx', rfl, _⟩ := num_col hx h1
  obtain ⟨y', hy', rfl, _⟩ := num_col hy h2
  obtain ⟨z', hz', rfl, _⟩ := num_col hz h3
  exact ⟨x', y', z', hx', hy', hz', hp⟩

/-- occupancy: 1.0 when the occupancy column is absent -/
theorem cifread_atom_occ_absent (h : cifread mult b = .ok r) (hc : b.lookup "_atom_site_occupancy" = none)
    (i : Nat) (hi : i < r.atoms.length) : r.atoms[i].occ = .default := by
  obtain ⟨_, ha⟩ := (cifread_atom h).2 i hi
  rw [(cifAtom_ok ha).2.2.2.1]
  simp [cifOcc, cifNum, cifItem, Block.get, hc, bind, Except.bind]

/-- occupancy: entry `i` of `_atom_site_occupancy` without its uncertainty when that is a number (1.0 otherwise, e.g. for `?`) -/
theorem cifread_atom_occ_present {occs : List String} (h : cifread mult b = .ok r)
    (hc : b.lookup "_atom_site_occupancy" = some (.loop occs)) (i : Nat) (hi : i < r.atoms.length) (o : String)
    (ho : occs[i]? = some o) :
    r.atoms[i].occ = if isFloat (esdCut o) then .tok (esdCut o) else .default := by
  obtain ⟨_, ha⟩ := (cifread_atom h).2 i hi
  rw [(cifAtom_ok ha).2.2.2.1]
  by_cases hf : isFloat (esdCut o) = true <;>
    simp [cifOcc, cifNum, cifItem, Block.get, hc, bind, Except.bind, Val.get, Val.items, ho, removeEsd, pyFloat, hf]


/-- multiplicity: the `_atom_site_symmetry_multiplicity` column has precedence -/
theorem cifread_atom_multi_symmetry {ms : List String} (h : cifread mult b = .ok r)
    (hc : b.lookup "_atom_site_symmetry_multiplicity" = some (.loop ms)) (i : Nat) (hi : i < r.atoms.length) :
    ∃ m, ms[i]? = some m ∧ r.atoms[i].multi = .tok (esdCut m) := by
  obtain ⟨_, ha⟩ := (cifread_atom h).2 i hi
  obtain ⟨x, y, z, _, _, _, _, hm⟩ := (cifAtom_ok ha).2.2.1
  simp only [cifMulti, Block.has, hc, Option.isSome_some, if_true] at hm
  obtain ⟨t, ht, hm⟩ := bind_ok.mp hm
  obtain ⟨m, hm', rfl, _⟩ := num_col hc ht
  exact ⟨m, hm', (pure_ok.mp hm).symm⟩

/-- multiplicity: the old SHELXL spelling `_atom_site_symetry_multiplicity` is used when the correct one is absent -/
theorem cifread_atom_multi_symetry {ms : List String} (h : cifread mult b = .ok r)
    (h0 : b.lookup "_atom_site_symmetry_multiplicity" = none)
    (hc : b.lookup "_atom_site_symetry_multiplicity" = some (.loop ms)) (i : Nat) (hi : i < r.atoms.length) :
    ∃ m, ms[i]? = some m ∧ r.atoms[i].multi = .tok (esdCut m) := by
  obtain ⟨_, ha⟩ := (cifread_atom h).2 i hi
  obtain ⟨x, y, z, _, _, _, _, hm⟩ := (cifAtom_ok ha).2.2.1
  simp only [cifMulti, Block.has, h0, hc, Option.isSome_some, Option.isSome_none, Bool.false_eq_true, if_false, if_true] at hm
  obtain ⟨t, ht, hm⟩ := bind_ok.mp hm
  obtain ⟨m, hm', rfl, _⟩ := num_col hc ht
  exact ⟨m, hm', (pure_ok.mp hm).symm⟩

/-- multiplicity: computed from the atom's position and the symbol when the file has neither column -/
theorem cifread_atom_multi_computed (h : cifread mult b = .ok r)
    (h0 : b.lookup "_atom_site_symmetry_multiplicity" = none) (h1 : b.lookup "_atom_site_symetry_multiplicity" = none)
    (i : Nat) (hi : i < r.atoms.length) :
    r.atoms[i].multi = .computed r.atoms[i].pos r.sgname (mult r.atoms[i].pos r.sgname) := by
  obtain ⟨_, ha⟩ := (cifread_atom h).2 i hi
  obtain ⟨x, y, z, _, _, _, hp, hm⟩ := (cifAtom_ok ha).2.2.1
  simp only [cifMulti, Block.has, h0, h1, Option.isSome_none, Bool.false_eq_true, if_false] at hm
  rw [hp]
  exact (pure_ok.mp hm).symm


private theorem adpType_absent (hc : b.lookup "_atom_site_adp_type" = none) (i : Nat) : cifAdpType b i = none := by
  simp [cifAdpType, cifItem, Block.get, hc, bind, Except.bind]

private theorem adpType_col {tys : List String} {t : String} (hc : b.lookup "_atom_site_adp_type" = some (.loop tys)) {i : Nat}
    (ht : tys[i]? = some t) : cifAdpType b i = some t := by
  simp [cifAdpType, cifItem, Block.get, hc, bind, Except.bind, Val.get, Val.items, ht]

private theorem cifAniso_ok {p : String} {k : Nat} {l : List String} (h : cifAniso b p k = .ok l) :
    ∃ a11 a22 a33 a23 a13 a12, cifNum b (p ++ "11") k = .ok a11 ∧ cifNum b (p ++ "22") k = .ok a22 ∧
      cifNum b (p ++ "33") k = .ok a33 ∧ cifNum b (p ++ "23") k = .ok a23 ∧ cifNum b (p ++ "13") k = .ok a13 ∧
      cifNum b (p ++ "12") k = .ok a12 ∧ l = [a11, a22, a33, a23, a13, a12] := by
  unfold cifAniso at h
  obtain ⟨a11, h1, h⟩ := bind_ok.mp h
  obtain ⟨a22, h2, h⟩ := bind_ok.mp h
  obtain ⟨a33, h3, h⟩ := bind_ok.mp h
  obtain ⟨a23, h4, h⟩ := bind_ok.mp h
  obtain ⟨a13, h5, h⟩ := bind_ok.mp h
  obtain ⟨a12, h6, h⟩ := bind_ok.mp h
  exact ⟨a11, a22, a33, a23, a13, a12, h1, h2, h3, h4, h5, h6, (pure_ok.mp h).symm⟩

private theorem anisoIndex_col {al : List String} {label : String} {k : Nat}
    (hc : b.lookup "_atom_site_aniso_label" = some (.loop al)) (h : anisoIndex b label = .ok k) :
    al.idxOf? label = some k := by
  unfold anisoIndex at h
  obtain ⟨v, hv, h⟩ := bind_ok.mp h
  rw [get_ok, hc] at hv
  cases hv
  cases hk : al.idxOf? label with
  | none => simp [hk] at h
  | some k' => simp [hk, pure, Except.pure] at h; simp [h]

/-- adp: without an `_atom_site_adp_type` column the atom has no adp type and adp = 0.0 -/
theorem cifread_atom_adp_absent (h : cifread mult b = .ok r) (hc : b.lookup "_atom_site_adp_type" = none)
    (i : Nat) (hi : i < r.atoms.length) : r.atoms[i].adpType = none ∧ r.atoms[i].adp = .zero := by
  obtain ⟨_, ha⟩ := (cifread_atom h).2 i hi
  have h5 := (cifAtom_ok ha).2.2.2.2
  rw [adpType_absent hc] at h5
  simp [cifAdp, pure, Except.pure] at h5
  exact ⟨h5.1.symm, h5.2.symm⟩

/-- adp: a `Uiso` atom gets entry `i` of `_atom_site_U_iso_or_equiv` unchanged -/
theorem cifread_atom_adp_uiso {tys us : List String} (h : cifread mult b = .ok r)
    (hc : b.lookup "_atom_site_adp_type" = some (.loop tys)) (hu : b.lookup "_atom_site_u_iso_or_equiv" = some (.loop us))
    (i : Nat) (hi : i < r.atoms.length) (ht : tys[i]? = some "Uiso") :
    ∃ u, us[i]? = some u ∧ r.atoms[i].adpType = some "Uiso" ∧ r.atoms[i].adp = .iso (esdCut u) false := by
  obtain ⟨_, ha⟩ := (cifread_atom h).2 i hi
  have h5 := (cifAtom_ok ha).2.2.2.2
  rw [adpType_col hc ht] at h5
  simp only [cifAdp] at h5
  obtain ⟨t, ht', h5⟩ := map_ok.mp (by simpa using h5)
  obtain ⟨u, hu', rfl, _⟩ := num_col hu ht'
  simp at h5
  exact ⟨u, hu', h5.1.symm, h5.2.symm⟩


/-- adp: a `Biso` atom gets entry `i` of `_atom_site_B_iso_or_equiv`, flagged "divide by 8π²", and becomes `Uiso` -/
theorem cifread_atom_adp_biso {tys bs : List String} (h : cifread mult b = .ok r)
    (hc : b.lookup "_atom_site_adp_type" = some (.loop tys)) (hu : b.lookup "_atom_site_b_iso_or_equiv" = some (.loop bs))
    (i : Nat) (hi : i < r.atoms.length) (ht : tys[i]? = some "Biso") :
    ∃ u, bs[i]? = some u ∧ r.atoms[i].adpType = some "Uiso" ∧ r.atoms[i].adp = .iso (esdCut u) true := by
  obtain ⟨_, ha⟩ := (cifread_atom h).2 i hi
  have h5 := (cifAtom_ok ha).2.2.2.2
  rw [adpType_col hc ht] at h5
  simp only [cifAdp] at h5
  obtain ⟨t, ht', h5⟩ := map_ok.mp (by simpa using h5)
  obtain ⟨u, hu', rfl, _⟩ := num_col hu ht'
  simp at h5
  exact ⟨u, hu', h5.1.symm, h5.2.symm⟩

/-- adp: a `Uani` atom gets the six `_atom_site_aniso_U_` entries of the row of the aniso loop that carries its label
    (first match of `_atom_site_aniso_label`), in the order 11, 22, 33, 23, 13, 12 -/
theorem cifread_atom_adp_uani {tys al u11 u22 u33 u23 u13 u12 : List String} (h : cifread mult b = .ok r)
    (hc : b.lookup "_atom_site_adp_type" = some (.loop tys)) (hal : b.lookup "_atom_site_aniso_label" = some (.loop al))
    (h11 : b.lookup "_atom_site_aniso_u_11" = some (.loop u11)) (h22 : b.lookup "_atom_site_aniso_u_22" = some (.loop u22))
    (h33 : b.lookup "_atom_site_aniso_u_33" = some (.loop u33)) (h23 : b.lookup "_atom_site_aniso_u_23" = some (.loop u23))
    (h13 : b.lookup "_atom_site_aniso_u_13" = some (.loop u13)) (h12 : b.lookup "_atom_site_aniso_u_12" = some (.loop u12))
    (i : Nat) (hi : i < r.atoms.length) (ht : tys[i]? = some "Uani") :
    ∃ k a11 a22 a33 a23 a13 a12, al.idxOf? r.atoms[i].label = some k ∧
      u11[k]? = some a11 ∧ u22[k]? = some a22 ∧ u33[k]? = some a33 ∧ u23[k]? = some a23 ∧ u13[k]? = some a13 ∧ u12[k]? = some a12 ∧
      r.atoms[i].adpType = some "Uani" ∧
      r.atoms[i].adp = .ani [esdCut a11, esdCut a22, esdCut a33, esdCut a23, esdCut a13, esdCut a12] false := by
  obtain ⟨_, ha⟩ := (cifread_atom h).2 i hi
  have h5 := (cifAtom_ok ha).2.2.2.2
  rw [adpType_col hc ht] at h5
  simp only [cifAdp] at h5
  obtain ⟨k, hk, h5⟩ := bind_ok.mp (by simpa using h5)
  obtain ⟨l, hl, h5⟩ := map_ok.mp (by simpa using h5)
  obtain ⟨a11, a22, a33, a23, a13, a12, e1, e2, e3, e4, e5, e6, rfl⟩ := cifAniso_ok hl
  obtain ⟨c11, g1, rfl, _⟩ := num_col (by simpa using h11) e1
  obtain ⟨c22, g2, rfl, _⟩ := num_col (by simpa using h22) e2
  obtain ⟨c33, g3, rfl, _⟩ := num_col (by simpa using h33) e3
  obtain ⟨c23, g4, rfl, _⟩ := num_col (by simpa using h23) e4
  obtain ⟨c13, g5, rfl, _⟩ := num_col (by simpa using h13) e5
  obtain ⟨c12, g6, rfl, _⟩ := num_col (by simpa using h12) e6
  simp at h5
  exact ⟨k, c11, c22, c33, c23, c13, c12, anisoIndex_col hal hk, g1, g2, g3, g4, g5, g6, h5.1.symm, h5.2.symm⟩

/-- adp: a `Bani` atom gets the six `_atom_site_aniso_B_` entries of the row of the aniso loop that carries its label
    (first match of `_atom_site_aniso_label`), in the order 11, 22, 33, 23, 13, 12,
    flagged "divide by 8π²", and becomes `Uani` -/
theorem cifread_atom_adp_bani {tys al u11 u22 u33 u23 u13 u12 : List String} (h : cifread mult b = .ok r)
    (hc : b.lookup "_atom_site_adp_type" = some (.loop tys)) (hal : b.lookup "_atom_site_aniso_label" = some (.loop al))
    (h11 : b.lookup "_atom_site_aniso_b_11" = some (.loop u11)) (h22 : b.lookup "_atom_site_aniso_b_22" = some (.loop u22))
    (h33 : b.lookup "_atom_site_aniso_b_33" = some (.loop u33)) (h23 : b.lookup "_atom_site_aniso_b_23" = some (.loop u23))
    (h13 : b.lookup "_atom_site_aniso_b_13" = some (.loop u13)) (h12 : b.lookup "_atom_site_aniso_b_12" = some (.loop u12))
    (i : Nat) (hi : i < r.atoms.length) (ht : tys[i]? = some "Bani") :
    ∃ k a11 a22 a33 a23 a13 a12, al.idxOf? r.atoms[i].label = some k ∧
      u11[k]? = some a11 ∧ u22[k]? = some a22 ∧ u33[k]? = some a33 ∧ u23[k]? = some a23 ∧ u13[k]? = some a13 ∧ u12[k]? = some a12 ∧
      r.atoms[i].adpType = some "Uani" ∧
      r.atoms[i].adp = .ani [esdCut a11, esdCut a22, esdCut a33, esdCut a23, esdCut a13, esdCut a12] true := by
  obtain ⟨_, ha⟩ := (cifread_atom h).2 i hi
  have h5 := (cifAtom_ok ha).2.2.2.2
  rw [adpType_col hc ht] at h5
  simp only [cifAdp] at h5
  obtain ⟨k, hk, h5⟩ := bind_ok.mp (by simpa using h5)
  obtain ⟨l, hl, h5⟩ := map_ok.mp (by simpa using h5)
  obtain ⟨a11, a22, a33, a23, a13, a12, e1, e2, e3, e4, e5, e6, rfl⟩ := cifAniso_ok hl
  obtain ⟨c11, g1, rfl, _⟩ := num_col (by simpa using h11) e1
  obtain ⟨c22, g2, rfl, _⟩ := num_col (by simpa using h22) e2
  obtain ⟨c33, g3, rfl, _⟩ := num_col (by simpa using h33) e3
  obtain ⟨c23, g4, rfl, _⟩ := num_col (by simpa using h23) e4
  obtain ⟨c13, g5, rfl, _⟩ := num_col (by simpa using h13) e5
  obtain ⟨c12, g6, rfl, _⟩ := num_col (by simpa using h12) e6
  simp at h5
  exact ⟨k, c11, c22, c33, c23, c13, c12, anisoIndex_col hal hk, g1, g2, g3, g4, g5, g6, h5.1.symm, h5.2.symm⟩


end cif

/-! ## remove_esd -/

/-- remove_esd: "d(e)" ↦ d, a string without parenthesis is passed on unchanged, and the result is exactly that string
    whenever `float` accepts it (ValueError otherwise) -/
theorem remove_esd_spec (d e : String) (h : '(' ∉ d.toList) :
    esdCut (d ++ "(" ++ e) = d ∧ esdCut d = d ∧
    (isFloat d = true → removeEsd (d ++ "(" ++ e) = .ok d ∧ removeEsd d = .ok d) ∧
    (isFloat d = false → removeEsd (d ++ "(" ++ e) = .error .valueError ∧ removeEsd d = .error .valueError) := by
  have h1 := esdCut_paren d e h
  have h2 := esdCut_id d h
  refine ⟨h1, h2, ?_, ?_⟩ <;> intro hf <;> simp [removeEsd, pyFloat, h1, h2, hf]

example : removeEsd "1.234(56)" = .ok "1.234" ∧ removeEsd "8.5312" = .ok "8.5312" ∧ removeEsd "?" = .error .valueError := by
  decide

/-! ## CIFopen -/

/-- choice of the data block: an explicit name wins; a single block is taken; of two blocks the one that is not `global`;
    any other file is rejected -/
theorem cif_block_choice (blocks : List String) (x y : String) :
    chooseBlock blocks (some x) = .ok x ∧
    chooseBlock [x] none = .ok x ∧
    chooseBlock ["global", x] none = .ok x ∧
    (x ≠ "global" → chooseBlock [x, "global"] none = .ok x) ∧
    (x ≠ "global" → y ≠ "global" → chooseBlock [x, y] none = .error .exception) ∧
    (blocks.length ≥ 3 → chooseBlock blocks none = .error .exception) := by
  refine ⟨rfl, rfl, by simp [chooseBlock, pure, Except.pure], ?_, ?_, ?_⟩
  · intro hx
    simp [chooseBlock, hx, pure, Except.pure]
  · intro hx hy
    simp [chooseBlock, hx, hy, Ne.symm hx, Ne.symm hy]
  · intro hl
    match blocks, hl with
    | _ :: _ :: _ :: _, _ => simp [chooseBlock]

/-- CIFopen hands the chosen block to CIFread; a name that is not in the file is an IOError -/
theorem cif_open_block (file : List (String × Block)) (name : Option String) (nm : String)
    (h : chooseBlock (file.map Prod.fst) name = .ok nm) :
    cifopen file name = match file.lookup nm with | some b => .ok b | none => .error .ioError := by
  simp [cifopen, h, bind, Except.bind, pure, Except.pure]
  cases file.lookup nm <;> rfl

/-! ## PDBread -/

private theorem pyFloat_ok {s t : String} : pyFloat s = .ok t ↔ t = s ∧ isFloat s = true := by
  unfold pyFloat
  by_cases h : isFloat s = true <;> simp [h, eq_comm]

/-- CRYST1: a, b, c, α, β, γ are the columns [6:15], [15:24], [24:33], [33:40], [40:47], [47:54] (each accepted by `float`),
    the symbol field the columns [55:66]; a slice is the corresponding run of characters -/
theorem pdb_cryst1_fields (line : String) (cell : List String) (f : String) (h : pdbCryst1 line = .ok (cell, f)) :
    cell = [slice line 6 15, slice line 15 24, slice line 24 33, slice line 33 40, slice line 40 47, slice line 47 54] ∧
    f = slice line 55 66 ∧ (∀ t ∈ cell, isFloat t = true) ∧
    (∀ i j, (slice line i j).toList = (line.toList.drop i).take (j - i)) := by
  unfold pdbCryst1 at h
  obtain ⟨a, h1, h⟩ := bind_ok.mp h
  obtain ⟨b, h2, h⟩ := bind_ok.mp h
  obtain ⟨c, h3, h⟩ := bind_ok.mp h
  obtain ⟨al, h4, h⟩ := bind_ok.mp h
  obtain ⟨be, h5, h⟩ := bind_ok.mp h
  obtain ⟨ga, h6, h⟩ := bind_ok.mp h
  obtain ⟨rfl, f1⟩ := pyFloat_ok.mp h1
  obtain ⟨rfl, f2⟩ := pyFloat_ok.mp h2
  obtain ⟨rfl, f3⟩ := pyFloat_ok.mp h3
  obtain ⟨rfl, f4⟩ := pyFloat_ok.mp h4
  obtain ⟨rfl, f5⟩ := pyFloat_ok.mp h5
  obtain ⟨rfl, f6⟩ := pyFloat_ok.mp h6
  have := pure_ok.mp h
  simp only [Prod.mk.injEq] at this
  obtain ⟨rfl, rfl⟩ := this
  refine ⟨rfl, rfl, ?_, ?_⟩
  · intro t ht
    simp only [List.mem_cons, List.not_mem_nil, or_false] at ht
    rcases ht with rfl | rfl | rfl | rfl | rfl | rfl
    · exact f1
    · exact f2
    · exact f3
    · exact f4
    · exact f5
    · exact f6
  · intro i j
    simp [slice, sliceL]

private theorem pdbCrystLoop_ok : ∀ (lines : List String) (st res : Option (List String × String)),
    pdbCrystLoop lines st = .ok res →
    (res = st ∧ ∀ l ∈ lines, startsWith l "CRYST1" = false) ∨
    (∃ pre l post r', lines = pre ++ l :: post ∧ startsWith l "CRYST1" = true ∧ pdbCryst1 l = .ok r' ∧ res = some r' ∧
       ∀ l' ∈ post, startsWith l' "CRYST1" = false)
  | [], st, res, h => by
    left
    have := pure_ok.mp (by simpa [pdbCrystLoop] using h : (pure st : Except Err _) = .ok res)
    simp [this]
  | l :: ls, st, res, h => by
    unfold pdbCrystLoop at h
    by_cases hs : startsWith l "CRYST1" = true
    · simp only [hs, if_true] at h
      obtain ⟨r', h1, h⟩ := bind_ok.mp h
      rcases pdbCrystLoop_ok ls (some r') res h with ⟨e, hn⟩ | ⟨pre, l', post, r'', e, h2, h3, h4, h5⟩
      · right; exact ⟨[], l, ls, r', rfl, hs, h1, e, hn⟩
      · right; exact ⟨l :: pre, l', post, r'', by simp [e], h2, h3, h4, h5⟩
    · simp only [hs, Bool.false_eq_true, if_false] at h
      rcases pdbCrystLoop_ok ls st res h with ⟨e, hn⟩ | ⟨pre, l', post, r'', e, h2, h3, h4, h5⟩
      · left
        refine ⟨e, ?_⟩
        intro l' hl'
        simp only [List.mem_cons] at hl'
        rcases hl' with rfl | hl'
        · simpa using hs
        · exact hn l' hl'
      · right; exact ⟨l :: pre, l', post, r'', by simp [e], h2, h3, h4, h5⟩

private theorem pdbAtomLoop_ok {keys : List String} {mult : Pos → String → Nat} {sg : String} {m : List (List String)} :
    ∀ (lines : List String) (atoms : List Atom), pdbAtomLoop keys mult sg m lines = .ok atoms →
      atoms.length = (lines.filter isAtomLine).length ∧
      ∀ p ∈ (lines.filter isAtomLine).zip atoms, pdbAtom keys mult sg m p.1 = .ok p.2
  | [], atoms, h => by
    have := pure_ok.mp (by simpa [pdbAtomLoop] using h : (pure [] : Except Err (List Atom)) = .ok atoms)
    subst this
    simp
  | l :: ls, atoms, h => by
    unfold pdbAtomLoop at h
    by_cases hs : isAtomLine l = true
    · rw [if_pos hs] at h
      obtain ⟨a, h1, h⟩ := bind_ok.mp h
      obtain ⟨rest, h2, h⟩ := bind_ok.mp h
      have := pure_ok.mp h
      subst this
      obtain ⟨hl, hz⟩ := pdbAtomLoop_ok ls rest h2
      simp only [List.filter_cons, hs, if_true, List.length_cons, List.zip_cons_cons, List.mem_cons]
      refine ⟨by omega, ?_⟩
      rintro p (rfl | hp)
      · exact h1
      · exact hz p hp
    · rw [if_neg hs] at h
      simp only [List.filter_cons, hs, Bool.false_eq_true, if_false]
      exact pdbAtomLoop_ok ls atoms h

/-- PDBread: the cell and the symbol come from the last CRYST1 record, the symbol normalised by `pdbSymbol`;
    the atoms are the ATOM/HETATM records in file order, each parsed by `pdbAtom` with the matrix of the SCALE records -/
theorem pdbread_spec {keys : List String} {mult : Pos → String → Nat} {lines : List String} {r : AtomList}
    (h : pdbread keys mult lines = .ok r) :
    (∃ pre l post f, lines = pre ++ l :: post ∧ startsWith l "CRYST1" = true ∧ (∀ l' ∈ post, startsWith l' "CRYST1" = false) ∧
        pdbCryst1 l = .ok (r.cell, f) ∧ r.sgname = pdbSymbol keys f) ∧
    (∃ m, pdbScaleLoop lines zeroScale = .ok m ∧
        r.atoms.length = (lines.filter isAtomLine).length ∧
        ∀ p ∈ (lines.filter isAtomLine).zip r.atoms, pdbAtom keys mult r.sgname m p.1 = .ok p.2) := by
  unfold pdbread at h
  obtain ⟨st, h1, h⟩ := bind_ok.mp h
  rcases pdbCrystLoop_ok lines none st h1 with ⟨e, _⟩ | ⟨pre, l, post, r', e, h2, h3, h4, h5⟩
  · subst e
    simp at h
  · subst h4
    obtain ⟨cell, f⟩ := r'
    simp only at h
    obtain ⟨m, h6, h⟩ := bind_ok.mp h
    obtain ⟨atoms, h7, h⟩ := bind_ok.mp h
    have := pure_ok.mp h
    subst this
    exact ⟨⟨pre, l, post, f, e, h2, h5, h3, rfl⟩, ⟨m, h6, pdbAtomLoop_ok lines atoms h7⟩⟩

/-- ATOM/HETATM: label = columns [12:16] without white space, element = columns [76:78] without white space, upper-cased;
    x, y, z = columns [30:38], [38:46], [46:54], position = scalemat·[x, y, z, 1]; occupancy = columns [54:60];
    B = columns [60:66] flagged "divide by 8π²" with adp type Uiso; multiplicity computed from that position -/
theorem pdb_atom_fields {keys : List String} {mult : Pos → String → Nat} {sg : String} {m : List (List String)}
    {line : String} {a : Atom} (h : pdbAtom keys mult sg m line = .ok a) :
    a.label = removeWs (slice line 12 16) ∧ a.atomtype = upper (removeWs (slice line 76 78)) ∧
    a.pos = .scaled m (slice line 30 38) (slice line 38 46) (slice line 46 54) ∧
    a.adpType = some "Uiso" ∧ a.adp = .iso (slice line 60 66) true ∧ a.occ = .tok (slice line 54 60) ∧
    a.multi = .computed a.pos sg (mult a.pos sg) ∧ keys.contains sg = true := by
  unfold pdbAtom at h
  simp only [pdbAtomFields] at h
  obtain ⟨x, h1, h⟩ := bind_ok.mp h
  obtain ⟨y, h2, h⟩ := bind_ok.mp h
  obtain ⟨z, h3, h⟩ := bind_ok.mp h
  obtain ⟨bb, h4, h⟩ := bind_ok.mp h
  obtain ⟨occ, h5, h⟩ := bind_ok.mp h
  obtain ⟨rfl, _⟩ := pyFloat_ok.mp h1
  obtain ⟨rfl, _⟩ := pyFloat_ok.mp h2
  obtain ⟨rfl, _⟩ := pyFloat_ok.mp h3
  obtain ⟨rfl, _⟩ := pyFloat_ok.mp h4
  obtain ⟨rfl, _⟩ := pyFloat_ok.mp h5
  by_cases hk : keys.contains sg = true
  · rw [if_pos hk] at h
    have := pure_ok.mp h
    subst this
    exact ⟨rfl, rfl, rfl, rfl, rfl, rfl, rfl, hk⟩
  · rw [if_neg hk] at h
    simp at h

/-! ## dispersion -/

private theorem beq_false_of_ne {a b : String} (h : a ≠ b) : (a == b) = false := beq_eq_false_iff_ne.mpr h

private theorem lookup_map_dictSet {β : Type} (k k' : String) (v : β) : ∀ d : List (String × β),
    (d.map (fun e => if e.1 = k then (k, v) else e)).lookup k' =
      if k' = k then (if (∃ e ∈ d, e.1 = k) then some v else none) else d.lookup k'
  | [] => by by_cases hk : k' = k <;> simp [hk]
  | (ek, ev) :: es => by
    have ih := lookup_map_dictSet k k' v es
    rw [List.map_cons, List.lookup_cons]
    by_cases hek : ek = k <;> by_cases hk : k' = k
    · subst hek; subst hk
      simp
    · subst hek
      rw [if_neg hk] at ih
      simp only [if_true, beq_false_of_ne hk, ih, if_neg hk, List.lookup_cons]
    · subst hk
      rw [if_pos rfl] at ih
      simp only [if_neg hek, beq_false_of_ne (Ne.symm hek), ih, if_true]
      have : (∃ e, e ∈ (ek, ev) :: es ∧ e.fst = k') ↔ ∃ e, e ∈ es ∧ e.fst = k' := by
        constructor
        · rintro ⟨e, he, hk⟩
          rcases List.mem_cons.mp he with rfl | he
          · exact absurd hk hek
          · exact ⟨e, he, hk⟩
        · rintro ⟨e, he, hk⟩
          exact ⟨e, List.mem_cons_of_mem _ he, hk⟩
      simp only [this]
    · rw [if_neg hk] at ih
      simp only [if_neg hek, ih, if_neg hk, List.lookup_cons]

private theorem lookup_none_of_not_mem {β : Type} (k : String) : ∀ d : List (String × β),
    (¬ ∃ e ∈ d, e.1 = k) → d.lookup k = none
  | [], _ => rfl
  | (ek, ev) :: es, h => by
    have h1 : k ≠ ek := by
      intro hh; apply h; exact ⟨(ek, ev), by simp, hh.symm⟩
    have h2 : ¬ ∃ e ∈ es, e.1 = k := by
      rintro ⟨e, he, hk⟩; apply h; exact ⟨e, by simp [he], hk⟩
    rw [List.lookup_cons, beq_false_of_ne h1]
    exact lookup_none_of_not_mem k es h2

private theorem dictSet_eq {β : Type} (d : List (String × β)) (k : String) (v : β) :
    dictSet d k v = if (∃ e ∈ d, e.1 = k) then d.map (fun e => if e.1 = k then (k, v) else e) else d ++ [(k, v)] := by
  unfold dictSet
  simp only [List.any_eq_true, beq_iff_eq]

private theorem lookup_dictSet {β : Type} (d : List (String × β)) (k k' : String) (v : β) :
    (dictSet d k v).lookup k' = if k' = k then some v else d.lookup k' := by
  rw [dictSet_eq]
  by_cases hany : ∃ e ∈ d, e.1 = k
  · rw [if_pos hany, lookup_map_dictSet, if_pos hany]
  · rw [if_neg hany]
    have hnone := lookup_none_of_not_mem k d hany
    by_cases hk : k' = k
    · subst hk
      simp [List.lookup_append, hnone, List.lookup_cons]
    · simp [List.lookup_append, List.lookup_cons, beq_false_of_ne hk, hk]


private theorem fold_lookup_skip {α β : Type} (key : α → String) (val : α → β) (K : String) :
    ∀ (post : List α) (d : List (String × β)), (∀ y ∈ post, key y ≠ K) →
      (post.foldl (fun d y => dictSet d (key y) (val y)) d).lookup K = d.lookup K
  | [], d, _ => rfl
  | y :: ys, d, h => by
    rw [List.foldl_cons, fold_lookup_skip key val K ys _ (fun z hz => h z (List.mem_cons_of_mem _ hz)), lookup_dictSet,
      if_neg (Ne.symm (h y (by simp)))]

private theorem fold_lookup_last {α β : Type} (key : α → String) (val : α → β) (pre post : List α) (x : α)
    (d : List (String × β)) (h : ∀ y ∈ post, key y ≠ key x) :
    ((pre ++ x :: post).foldl (fun d y => dictSet d (key y) (val y)) d).lookup (key x) = some (val x) := by
  rw [List.foldl_append, List.foldl_cons, fold_lookup_skip key val _ post _ h, lookup_dictSet, if_pos rfl]

private theorem mem_dictSet {β : Type} {d : List (String × β)} {k : String} {v : β} {p : String × β}
    (h : p ∈ dictSet d k v) : p ∈ d ∨ p = (k, v) := by
  rw [dictSet_eq] at h
  by_cases hany : ∃ e ∈ d, e.1 = k
  · rw [if_pos hany] at h
    obtain ⟨e, he, hp⟩ := List.mem_map.mp h
    by_cases hk : e.1 = k
    · right; rw [if_pos hk] at hp; exact hp.symm
    · left; rw [if_neg hk] at hp; rw [← hp]; exact he
  · rw [if_neg hany] at h
    rcases List.mem_append.mp h with h | h
    · left; exact h
    · right; simpa using h

private theorem mem_fold {α β : Type} (key : α → String) (val : α → β) {p : String × β} :
    ∀ (l : List α) (d : List (String × β)), p ∈ l.foldl (fun d y => dictSet d (key y) (val y)) d →
      p ∈ d ∨ ∃ y ∈ l, p = (key y, val y)
  | [], d, h => Or.inl h
  | y :: ys, d, h => by
    rw [List.foldl_cons] at h
    rcases mem_fold key val ys _ h with h | ⟨z, hz, hp⟩
    · rcases mem_dictSet h with h | h
      · exact Or.inl h
      · exact Or.inr ⟨y, by simp, h⟩
    · exact Or.inr ⟨z, List.mem_cons_of_mem _ hz, hp⟩

private theorem fold_lookup_mono {α β : Type} (key : α → String) (val : α → β) (K : String) :
    ∀ (l : List α) (d : List (String × β)), (d.lookup K).isSome = true →
      ((l.foldl (fun d y => dictSet d (key y) (val y)) d).lookup K).isSome = true
  | [], d, h => h
  | y :: ys, d, h => by
    rw [List.foldl_cons]
    apply fold_lookup_mono key val K ys
    rw [lookup_dictSet]
    by_cases hk : K = key y
    · rw [if_pos hk]; rfl
    · rw [if_neg hk]; exact h

private theorem fold_lookup_isSome {α β : Type} (key : α → String) (val : α → β) :
    ∀ (l : List α) (d : List (String × β)), ∀ y ∈ l,
      ((l.foldl (fun d y => dictSet d (key y) (val y)) d).lookup (key y)).isSome = true
  | a :: l, d, y, hy => by
    rw [List.foldl_cons]
    rcases List.mem_cons.mp hy with rfl | hy
    · apply fold_lookup_mono
      rw [lookup_dictSet, if_pos rfl]; rfl
    · exact fold_lookup_isSome key val l _ y hy

private theorem mem_of_lookup {β : Type} {K : String} {v : β} : ∀ {d : List (String × β)}, d.lookup K = some v → (K, v) ∈ d
  | (ek, ev) :: es, h => by
    rw [List.lookup_cons] at h
    by_cases hk : K = ek
    · subst hk
      simp at h
      simp [h]
    · rw [beq_false_of_ne hk] at h
      exact List.mem_cons_of_mem _ (mem_of_lookup h)

section cif
variable {mult : Pos → String → Nat} {b : Block} {r : AtomList}

/-- dispersion: without an `_atom_type_symbol` loop every element of the atom-site loop gets None (and nothing else is listed) -/
theorem cifread_dispersion_absent {tys : List String} (h : cifread mult b = .ok r)
    (h0 : b.lookup "_atom_type_symbol" = none) (ht : b.lookup "_atom_site_type_symbol" = some (.loop tys)) :
    (∀ t ∈ tys, r.dispersion.lookup (upper t) = some none) ∧
    (∀ p ∈ r.dispersion, p.2 = none ∧ ∃ t ∈ tys, p.1 = upper t) := by
  have hd := (cifread_ok h).2.2.1
  simp only [cifDispersion, h0, Block.get, ht, bind, Except.bind, pure, Except.pure, Val.items] at hd
  injection hd with hd
  have hb : ∀ p ∈ r.dispersion, p.2 = none ∧ ∃ t ∈ tys, p.1 = upper t := by
    intro p hp
    rw [← hd] at hp
    rcases mem_fold upper (fun _ => (none : Option (String × String))) tys [] hp with hp | ⟨t, ht', rfl⟩
    · simp at hp
    · exact ⟨rfl, t, ht', rfl⟩
  refine ⟨?_, hb⟩
  intro t ht'
  have := fold_lookup_isSome upper (fun _ => (none : Option (String × String))) tys [] t ht'
  rw [hd] at this
  cases hl : r.dispersion.lookup (upper t) with
  | none => simp [hl] at this
  | some v =>
    have := (hb _ (mem_of_lookup hl)).1
    simp at this
    rw [this]

end cif


section cif
variable {mult : Pos → String → Nat} {b : Block} {r : AtomList}

/-- dispersion: with an `_atom_type_symbol` loop the entry of an (upper-cased) symbol is the pair of the last row carrying it;
    nothing but the symbols of the loop is listed -/
theorem cifread_dispersion_present {pre post : List String} {s : String} (h : cifread mult b = .ok r)
    (hs : b.lookup "_atom_type_symbol" = some (.loop (pre ++ s :: post))) (hlast : ∀ t ∈ post, upper t ≠ upper s) :
    r.dispersion.lookup (upper s) = some (dispEntry b pre.length) ∧
    (∀ p ∈ r.dispersion, ∃ t ∈ pre ++ s :: post, p.1 = upper t) := by
  have hd := (cifread_ok h).2.2.1
  simp only [cifDispersion, hs, pure, Except.pure, Val.items] at hd
  injection hd with hd
  constructor
  · rw [← hd, List.zipIdx_append, List.zipIdx_cons]
    have := fold_lookup_last (fun si : String × Nat => upper si.1) (fun si => dispEntry b si.2)
      (pre.zipIdx) (post.zipIdx (0 + pre.length + 1)) (s, 0 + pre.length) []
      (by
        intro y hy
        have : y.1 ∈ post := by
          have := List.mem_zipIdx hy
          rw [this.2.2]
          exact List.getElem_mem _
        exact hlast _ this)
    simpa using this
  · intro p hp
    rw [← hd] at hp
    rcases mem_fold (fun si : String × Nat => upper si.1) (fun si => dispEntry b si.2) _ [] hp with hp | ⟨y, hy, rfl⟩
    · simp at hp
    · refine ⟨y.1, ?_, rfl⟩
      have := List.mem_zipIdx hy
      rw [this.2.2]
      exact List.getElem_mem _

/-- dispersion entry of row `i`: the pair (real, imaginary) without uncertainties when both are numbers, None otherwise
    (`?`, `.`) or when a column is missing -/
theorem disp_entry_spec (i : Nat) :
    (∀ (res ims : List String) (re im : String),
      b.lookup "_atom_type_scat_dispersion_real" = some (.loop res) → b.lookup "_atom_type_scat_dispersion_imag" = some (.loop ims) →
      res[i]? = some re → ims[i]? = some im →
      dispEntry b i = if isFloat (esdCut re) = true ∧ isFloat (esdCut im) = true then some (esdCut re, esdCut im) else none) ∧
    (b.lookup "_atom_type_scat_dispersion_real" = none → dispEntry b i = none) ∧
    (b.lookup "_atom_type_scat_dispersion_imag" = none → dispEntry b i = none) := by
  refine ⟨?_, ?_, ?_⟩
  · intro res ims re im h1 h2 h3 h4
    by_cases f1 : isFloat (esdCut re) = true <;> by_cases f2 : isFloat (esdCut im) = true <;>
      simp [dispEntry, cifNum, cifItem, Block.get, h1, h2, Val.get, Val.items, h3, h4, removeEsd, pyFloat, f1, f2, bind, Except.bind,
        pure, Except.pure]
  · intro h1
    simp [dispEntry, cifNum, cifItem, Block.get, h1, bind, Except.bind]
  · intro h2
    unfold dispEntry
    cases hre : cifNum b "_atom_type_scat_dispersion_real" i <;>
      simp [cifNum, cifItem, Block.get, h2, bind, Except.bind]

end cif


/-- SCALEn: a record whose white-space separated tokens are `SCALEn s1 s2 s3 u` (n = 1, 2, 3; the four values accepted by `float`)
    overwrites row n−1 of the 3×4 matrix with exactly these four tokens and leaves the other rows alone -/
theorem pdb_scale_record (line : String) (t0 : List Char) (s1 s2 s3 u : String) (r0 r1 r2 : List String)
    (hr0 : r0.length = 4) (hr1 : r1.length = 4) (hr2 : r2.length = 4)
    (hs : splitWsL line.toList = [t0, s1.toList, s2.toList, s3.toList, u.toList])
    (f1 : isFloat s1 = true) (f2 : isFloat s2 = true) (f3 : isFloat s3 = true) (f4 : isFloat u = true) :
    (t0.getLast? = some '1' → pdbScaleLine [r0, r1, r2] line = .ok [[s1, s2, s3, u], r1, r2]) ∧
    (t0.getLast? = some '2' → pdbScaleLine [r0, r1, r2] line = .ok [r0, [s1, s2, s3, u], r2]) ∧
    (t0.getLast? = some '3' → pdbScaleLine [r0, r1, r2] line = .ok [r0, r1, [s1, s2, s3, u]]) := by
  match r0, hr0, r1, hr1, r2, hr2 with
  | [a0, a1, a2, a3], _, [b0, b1, b2, b3], _, [c0, c1, c2, c3], _ =>
    refine ⟨?_, ?_, ?_⟩ <;> intro hd <;>
      simp [pdbScaleLine, hs, scaleRow, hd, scaleCols, scaleSet, pyFloat, f1, f2, f3, f4, bind, Except.bind, pure, Except.pure,
        List.getD, Char.isDigit]

example : pdbScaleLoop ["SCALE2      0.000000  0.097863  0.143385       -0.03093   \n",
                        "SCALE1      0.031745  0.002337  0.025356       -0.38679   \n", "TER\n",
                        "SCALE3      0.000000  0.000000  0.106470       -0.25343   \n"] zeroScale =
    .ok [["0.031745", "0.002337", "0.025356", "-0.38679"], ["0.000000", "0.097863", "0.143385", "-0.03093"],
         ["0.000000", "0.000000", "0.106470", "-0.25343"]] := by decide +kernel

/-- PDB dispersion: None for every element that occurs, nothing else -/
theorem pdbread_dispersion {keys : List String} {mult : Pos → String → Nat} {lines : List String} {r : AtomList}
    (h : pdbread keys mult lines = .ok r) :
    (∀ a ∈ r.atoms, r.dispersion.lookup a.atomtype = some none) ∧
    (∀ p ∈ r.dispersion, p.2 = none ∧ ∃ a ∈ r.atoms, p.1 = a.atomtype) := by
  unfold pdbread at h
  obtain ⟨st, h1, h⟩ := bind_ok.mp h
  cases st with
  | none => simp at h
  | some cf =>
    obtain ⟨cell, f⟩ := cf
    simp only at h
    obtain ⟨m, h6, h⟩ := bind_ok.mp h
    obtain ⟨atoms, h7, h⟩ := bind_ok.mp h
    have := pure_ok.mp h
    subst this
    simp only
    have hb : ∀ p ∈ atoms.foldl (fun d a => dictSet d a.atomtype (none : Option (String × String))) [],
        p.2 = none ∧ ∃ a ∈ atoms, p.1 = a.atomtype := by
      intro p hp
      rcases mem_fold (fun a : Atom => a.atomtype) (fun _ => (none : Option (String × String))) atoms [] hp with hp | ⟨a, ha, rfl⟩
      · simp at hp
      · exact ⟨rfl, a, ha, rfl⟩
    refine ⟨?_, hb⟩
    intro a ha
    have := fold_lookup_isSome (fun a : Atom => a.atomtype) (fun _ => (none : Option (String × String))) atoms [] a ha
    cases hl : (atoms.foldl (fun d a => dictSet d a.atomtype (none : Option (String × String))) []).lookup a.atomtype with
    | none => simp [hl] at this
    | some v =>
      have := (hb _ (mem_of_lookup hl)).1
      simp at this
      rw [this]


/-! ## well-formed blocks: `cifread` succeeds -/

/-- the data name is an item outside a loop whose value (uncertainty cut off) is a number -/
def numItemOk (b : Block) (tag : String) : Bool :=
  match b.lookup tag with
  | some (.str s) => isFloat (esdCut s)
  | _ => false

/-- the data name is a loop column of length `n` whose entries (uncertainties cut off) are numbers -/
def numColOk (b : Block) (tag : String) (n : Nat) : Bool :=
  match b.lookup tag with
  | some (.loop l) => l.length == n && l.all (fun s => isFloat (esdCut s))
  | _ => false

/-- entry `i` of the loop column is a number -/
def entryOk (b : Block) (tag : String) (i : Nat) : Bool :=
  match b.lookup tag with
  | some (.loop c) => match c[i]? with
    | some s => isFloat (esdCut s)
    | none => false
  | _ => false

/-- the aniso loop has a row for `label` whose six entries with prefix `p` are numbers -/
def anisoOk (b : Block) (p : String) (label : String) : Bool :=
  match b.lookup "_atom_site_aniso_label" with
  | some (.loop al) => match al.idxOf? label with
    | some k => entryOk b (p ++ "11") k && entryOk b (p ++ "22") k && entryOk b (p ++ "33") k &&
                entryOk b (p ++ "23") k && entryOk b (p ++ "13") k && entryOk b (p ++ "12") k
    | none => false
  | _ => false

/-- the displacement parameters that the adp type `t` of atom `i` (label `label`) refers to are present and numeric -/
def adpOk (b : Block) (i : Nat) (label t : String) : Bool :=
  if t = "Biso" then entryOk b "_atom_site_b_iso_or_equiv" i
  else if t = "Bani" then anisoOk b "_atom_site_aniso_b_" label
  else if t = "Uiso" then entryOk b "_atom_site_u_iso_or_equiv" i
  else if t = "Uani" then anisoOk b "_atom_site_aniso_u_" label
  else false

/-- Well-formed CIF block (decidable): numeric cell items, a symbol item, atom-site loop columns of one length `n` with numeric
    coordinates, multiplicity columns (if any) numeric of length `n`, and — if there is an adp-type column — every atom has one of
    the four types Uiso/Uani/Biso/Bani with its parameters present (aniso atoms: a row with their label in the aniso loop). -/
def wellFormed (b : Block) : Bool :=
  numItemOk b "_cell_length_a" && numItemOk b "_cell_length_b" && numItemOk b "_cell_length_c" &&
  numItemOk b "_cell_angle_alpha" && numItemOk b "_cell_angle_beta" && numItemOk b "_cell_angle_gamma" &&
  (match b.lookup "_symmetry_space_group_name_h-m" with
   | some (.str _) => true
   | _ => false) &&
  match b.lookup "_atom_site_type_symbol", b.lookup "_atom_site_label" with
  | some (.loop tys), some (.loop labels) =>
    labels.length == tys.length &&
    numColOk b "_atom_site_fract_x" tys.length && numColOk b "_atom_site_fract_y" tys.length &&
    numColOk b "_atom_site_fract_z" tys.length &&
    (!b.has "_atom_site_symmetry_multiplicity" || numColOk b "_atom_site_symmetry_multiplicity" tys.length) &&
    (b.has "_atom_site_symmetry_multiplicity" || !b.has "_atom_site_symetry_multiplicity" ||
      numColOk b "_atom_site_symetry_multiplicity" tys.length) &&
    (match b.lookup "_atom_site_adp_type" with
     | none => true
     | some (.loop ts) => ts.length == tys.length &&
        (List.range tys.length).all (fun i => match ts[i]?, labels[i]? with
          | some t, some label => adpOk b i label t
          | _, _ => false)
     | some (.str _) => false)
  | _, _ => false

private theorem numItemOk_spec {b : Block} {tag : String} (h : numItemOk b tag = true) :
    ∃ t, cifScalar b tag = .ok t := by
  unfold numItemOk at h
  split at h
  · next s hs => exact ⟨_, cifScalar_ok.mpr ⟨s, hs, rfl, h⟩⟩
  · simp at h

private theorem numColOk_spec {b : Block} {tag : String} {n : Nat} (h : numColOk b tag n = true) (i : Nat) (hi : i < n) :
    ∃ t, cifNum b tag i = .ok t := by
  unfold numColOk at h
  split at h
  · next l hl =>
    simp only [Bool.and_eq_true, beq_iff_eq, List.all_eq_true] at h
    have hil : i < l.length := by omega
    exact ⟨_, cifNum_ok.mpr ⟨.loop l, l[i], hl, by simp [Val.items, hil], rfl, h.2 _ (List.getElem_mem _)⟩⟩
  · simp at h

private theorem entryOk_spec {b : Block} {tag : String} {i : Nat} (h : entryOk b tag i = true) :
    ∃ t, cifNum b tag i = .ok t := by
  unfold entryOk at h
  split at h
  · next c hc =>
    split at h
    · next s hs => exact ⟨_, cifNum_ok.mpr ⟨.loop c, s, hc, by simpa [Val.items] using hs, rfl, h⟩⟩
    · simp at h
  · simp at h

private theorem anisoOk_spec {b : Block} {p label : String} (h : anisoOk b p label = true) :
    ∃ k l, anisoIndex b label = .ok k ∧ cifAniso b p k = .ok l := by
  unfold anisoOk at h
  split at h
  · next al hal =>
    split at h
    · next k hk =>
      simp only [Bool.and_eq_true] at h
      obtain ⟨⟨⟨⟨⟨e1, e2⟩, e3⟩, e4⟩, e5⟩, e6⟩ := h
      obtain ⟨a11, g1⟩ := entryOk_spec e1
      obtain ⟨a22, g2⟩ := entryOk_spec e2
      obtain ⟨a33, g3⟩ := entryOk_spec e3
      obtain ⟨a23, g4⟩ := entryOk_spec e4
      obtain ⟨a13, g5⟩ := entryOk_spec e5
      obtain ⟨a12, g6⟩ := entryOk_spec e6
      refine ⟨k, [a11, a22, a33, a23, a13, a12], ?_, ?_⟩
      · simp [anisoIndex, Block.get, hal, hk, bind, Except.bind, pure, Except.pure]
      · simp [cifAniso, g1, g2, g3, g4, g5, g6, bind, Except.bind, pure, Except.pure]
    · simp at h
  · simp at h

private theorem adpOk_spec {b : Block} {i : Nat} {label t : String} (h : adpOk b i label t = true) (prev : Option Adp) :
    ∃ ta, cifAdp b i label (some t) prev = .ok ta := by
  unfold adpOk at h
  unfold cifAdp
  simp only
  by_cases h1 : t = "Biso"
  · rw [if_pos h1] at h ⊢
    obtain ⟨v, hv⟩ := entryOk_spec h
    exact ⟨_, by simp [hv, bind, Except.bind, pure, Except.pure]; rfl⟩
  · rw [if_neg h1] at h ⊢
    by_cases h2 : t = "Bani"
    · rw [if_pos h2] at h ⊢
      obtain ⟨k, l, hk, hl⟩ := anisoOk_spec h
      exact ⟨_, by simp [hk, hl, bind, Except.bind, pure, Except.pure]; rfl⟩
    · rw [if_neg h2] at h ⊢
      by_cases h3 : t = "Uiso"
      · rw [if_pos h3] at h ⊢
        obtain ⟨v, hv⟩ := entryOk_spec h
        exact ⟨_, by simp [hv, bind, Except.bind, pure, Except.pure]; rfl⟩
      · rw [if_neg h3] at h ⊢
        by_cases h4 : t = "Uani"
        · rw [if_pos h4] at h ⊢
          obtain ⟨k, l, hk, hl⟩ := anisoOk_spec h
          exact ⟨_, by simp [hk, hl, bind, Except.bind, pure, Except.pure]; rfl⟩
        · rw [if_neg h4] at h
          simp at h


private theorem atoms_total {mult : Pos → String → Nat} {b : Block} {sg : String} {n : Nat}
    (hat : ∀ i, i < n → ∀ prev, ∃ a, cifAtom mult b sg i prev = .ok a) :
    ∀ k, k ≤ n → ∀ prev, ∃ l, cifAtomsFrom mult b sg n k prev = .ok l
  | 0, _, _ => ⟨[], rfl⟩
  | k + 1, hk, prev => by
    obtain ⟨a, ha⟩ := hat (n - (k + 1)) (by omega) prev
    obtain ⟨l, hl⟩ := atoms_total hat k (by omega) (some a.adp)
    exact ⟨a :: l, by simp [cifAtomsFrom, ha, hl, bind, Except.bind, pure, Except.pure]⟩

/-- CIFread succeeds on every well-formed block (so the field theorems above apply to it) -/
theorem cifread_total (mult : Pos → String → Nat) (b : Block) (h : wellFormed b = true) : ∃ r, cifread mult b = .ok r := by
  unfold wellFormed at h
  simp only [Bool.and_eq_true] at h
  obtain ⟨⟨⟨⟨⟨⟨⟨c1, c2⟩, c3⟩, c4⟩, c5⟩, c6⟩, hsg⟩, hat⟩ := h
  obtain ⟨a1, g1⟩ := numItemOk_spec c1
  obtain ⟨a2, g2⟩ := numItemOk_spec c2
  obtain ⟨a3, g3⟩ := numItemOk_spec c3
  obtain ⟨a4, g4⟩ := numItemOk_spec c4
  obtain ⟨a5, g5⟩ := numItemOk_spec c5
  obtain ⟨a6, g6⟩ := numItemOk_spec c6
  have hcell : cifCell b = .ok [a1, a2, a3, a4, a5, a6] := by
    simp [cifCell, g1, g2, g3, g4, g5, g6, bind, Except.bind, pure, Except.pure]
  obtain ⟨sg, hsg'⟩ : ∃ sg, cifSgname b = .ok sg := by
    split at hsg
    · next s hs => exact ⟨removeWs s, by simp [cifSgname, Block.get, hs, bind, Except.bind, pure, Except.pure]⟩
    · simp at hsg
  split at hat
  · next tys labels hty hlab =>
    simp only [Bool.and_eq_true, beq_iff_eq] at hat
    obtain ⟨⟨⟨⟨⟨⟨hlen, hx⟩, hy⟩, hz⟩, hm1⟩, hm2⟩, hadp⟩ := hat
    obtain ⟨disp, hdisp⟩ : ∃ d, cifDispersion b = .ok d := by
      unfold cifDispersion
      cases b.lookup "_atom_type_symbol" with
      | some syms => exact ⟨_, rfl⟩
      | none => exact ⟨_, by simp [Block.get, hty, bind, Except.bind, pure, Except.pure]; rfl⟩
    have hatom : ∀ i, i < tys.length → ∀ prev, ∃ a, cifAtom mult b sg i prev = .ok a := by
      intro i hi prev
      have hil : i < labels.length := by omega
      have e1 : cifItem b "_atom_site_label" i = .ok labels[i] :=
        cifItem_ok.mpr ⟨_, hlab, by simp [Val.items, hil]⟩
      have e2 : cifItem b "_atom_site_type_symbol" i = .ok tys[i] :=
        cifItem_ok.mpr ⟨_, hty, by simp [Val.items, hi]⟩
      obtain ⟨x, e3⟩ := numColOk_spec hx i hi
      obtain ⟨y, e4⟩ := numColOk_spec hy i hi
      obtain ⟨z, e5⟩ := numColOk_spec hz i hi
      obtain ⟨mu, e6⟩ : ∃ mu, cifMulti mult b sg i x y z = .ok mu := by
        unfold cifMulti
        by_cases k1 : b.has "_atom_site_symmetry_multiplicity" = true
        · rw [if_pos k1]
          simp only [k1, Bool.not_true, Bool.false_or] at hm1
          obtain ⟨t, ht⟩ := numColOk_spec hm1 i hi
          exact ⟨_, by simp [ht, bind, Except.bind, pure, Except.pure]; rfl⟩
        · rw [if_neg k1]
          by_cases k2 : b.has "_atom_site_symetry_multiplicity" = true
          · rw [if_pos k2]
            simp only [k1, k2, Bool.not_true, Bool.false_or, Bool.or_eq_true, Bool.false_eq_true, false_or] at hm2
            obtain ⟨t, ht⟩ := numColOk_spec hm2 i hi
            exact ⟨_, by simp [ht, bind, Except.bind, pure, Except.pure]; rfl⟩
          · rw [if_neg k2]
            exact ⟨_, rfl⟩
      obtain ⟨ta, e7⟩ : ∃ ta, cifAdp b i labels[i] (cifAdpType b i) prev = .ok ta := by
        split at hadp
        · next hnone =>
          rw [adpType_absent hnone]
          exact ⟨_, rfl⟩
        · next ts hts =>
          simp only [Bool.and_eq_true, beq_iff_eq, List.all_eq_true, List.mem_range] at hadp
          have hit : i < ts.length := by omega
          have := hadp.2 i hi
          simp only [List.getElem?_eq_getElem hit, List.getElem?_eq_getElem hil] at this
          rw [adpType_col hts (List.getElem?_eq_getElem hit)]
          exact adpOk_spec this prev
        · simp at hadp
      exact ⟨_, by simp [cifAtom, e1, e2, e3, e4, e5, e6, e7, bind, Except.bind, pure, Except.pure]; rfl⟩
    obtain ⟨atoms, hatoms⟩ := atoms_total hatom tys.length (Nat.le_refl _) none
    exact ⟨_, by simp [cifread, hcell, hsg', hdisp, Block.get, hty, Val.len, Val.items, hatoms, bind, Except.bind, pure, Except.pure]; rfl⟩
  · simp at hat


/-- a concrete block: shuffled aniso loop, uncertainties, a `?` occupancy, the old multiplicity spelling -/
def exampleBlock : Block := [
  ("_cell_length_a", .str "8.5312(15)"), ("_cell_length_b", .str "4.8321(8)"), ("_cell_length_c", .str "10.125(2)"),
  ("_cell_angle_alpha", .str "90.00"), ("_cell_angle_beta", .str "92.031(16)"), ("_cell_angle_gamma", .str "90"),
  ("_symmetry_space_group_name_h-m", .str " P 21/c "),
  ("_atom_type_symbol", .loop ["O", "Fe"]),
  ("_atom_type_scat_dispersion_real", .loop ["0.0106(2)", "?"]),
  ("_atom_type_scat_dispersion_imag", .loop ["0.0060", "?"]),
  ("_atom_site_label", .loop ["O1", "Fe2", "C3"]), ("_atom_site_type_symbol", .loop ["O", "Fe", "c"]),
  ("_atom_site_fract_x", .loop ["0.1234(5)", "0.5", "-0.0312"]), ("_atom_site_fract_y", .loop ["0.25", "0.5000(1)", "1.01"]),
  ("_atom_site_fract_z", .loop ["0.3(1)", "0", ".75"]),
  ("_atom_site_adp_type", .loop ["Uani", "Biso", "Bani"]),
  ("_atom_site_b_iso_or_equiv", .loop [".", "1.25(3)", "?"]),
  ("_atom_site_occupancy", .loop ["1", "0.50(2)", "?"]),
  ("_atom_site_symetry_multiplicity", .loop ["4", "2", "4"]),
  ("_atom_site_aniso_label", .loop ["C3", "O1"]),
  ("_atom_site_aniso_u_11", .loop [".", "0.011(1)"]), ("_atom_site_aniso_u_22", .loop [".", "0.022"]),
  ("_atom_site_aniso_u_33", .loop [".", "0.033"]), ("_atom_site_aniso_u_23", .loop [".", "0.023"]),
  ("_atom_site_aniso_u_13", .loop [".", "0.013"]), ("_atom_site_aniso_u_12", .loop [".", "0.012"]),
  ("_atom_site_aniso_b_11", .loop ["1.1", "?"]), ("_atom_site_aniso_b_22", .loop ["2.2", "?"]),
  ("_atom_site_aniso_b_33", .loop ["3.3", "?"]), ("_atom_site_aniso_b_23", .loop ["2.3", "?"]),
  ("_atom_site_aniso_b_13", .loop ["1.3", "?"]), ("_atom_site_aniso_b_12", .loop ["1.2(4)", "?"])]

example : wellFormed exampleBlock = true := by decide +kernel

example : cifread (fun _ _ => 0) exampleBlock = .ok
    { cell := ["8.5312", "4.8321", "10.125", "90.00", "92.031", "90"], sgname := "P21/c",
      dispersion := [("O", some ("0.0106", "0.0060")), ("FE", none)],
      atoms := [
        { label := "O1", atomtype := "O", pos := .frac "0.1234" "0.25" "0.3", adpType := some "Uani",
          adp := .ani ["0.011", "0.022", "0.033", "0.023", "0.013", "0.012"] false, occ := .tok "1", multi := .tok "4" },
        { label := "Fe2", atomtype := "FE", pos := .frac "0.5" "0.5000" "0", adpType := some "Uiso",
          adp := .iso "1.25" true, occ := .tok "0.50", multi := .tok "2" },
        { label := "C3", atomtype := "C", pos := .frac "-0.0312" "1.01" ".75", adpType := some "Uani",
          adp := .ani ["1.1", "2.2", "3.3", "2.3", "1.3", "1.2"] true, occ := .default, multi := .tok "4" }] } := by
  decide +kernel


/-! ## PDB: format ∘ parse -/

private theorem sliceL_append_right (a r : List Char) (i j : Nat) (h : a.length ≤ i) :
    sliceL (a ++ r) i j = sliceL r (i - a.length) (j - a.length) := by
  unfold sliceL
  rw [List.drop_append, List.drop_eq_nil_of_le h, List.nil_append]
  congr 1
  omega

private theorem sliceL_prefix (m c : List Char) (i j : Nat) (hi : i = 0) (h : j = m.length) : sliceL (m ++ c) i j = m := by
  subst h; subst hi
  simp [sliceL]

private theorem length_padLeft (w : Nat) (l : List Char) (h : l.length ≤ w) : (padLeft w l).length = w := by
  simp [padLeft]; omega

private theorem length_padRight (w : Nat) (l : List Char) (h : l.length ≤ w) : (padRight w l).length = w := by
  simp [padRight]; omega

private theorem dropWhile_ws_of_noWs (l : List Char) (h : ∀ c ∈ l, isWs c = false) : l.dropWhile isWs = l := by
  cases l with
  | nil => rfl
  | cons c cs => simp [List.dropWhile, h c (by simp)]

private theorem dropWhile_ws_replicate (n : Nat) (l : List Char) :
    (List.replicate n ' ' ++ l).dropWhile isWs = l.dropWhile isWs := by
  induction n with
  | zero => simp
  | succ n ih => simp [List.replicate_succ, List.dropWhile, isWs, ih]

private theorem stripL_padLeft (w : Nat) (l : List Char) (h : ∀ c ∈ l, isWs c = false) : stripL (padLeft w l) = l := by
  unfold stripL padLeft
  rw [dropWhile_ws_replicate, dropWhile_ws_of_noWs l h,
    dropWhile_ws_of_noWs l.reverse (by intro c hc; exact h c (List.mem_reverse.mp hc)), List.reverse_reverse]

private theorem filter_noWs (l : List Char) (h : ∀ c ∈ l, isWs c = false) : l.filter (fun c => !isWs c) = l := by
  apply List.filter_eq_self.mpr
  intro c hc; simp [h c hc]

private theorem filter_blanks (n : Nat) : (List.replicate n ' ').filter (fun c => !isWs c) = [] := by
  apply List.filter_eq_nil_iff.mpr
  intro c hc
  have := List.eq_of_mem_replicate hc
  subst this
  simp [isWs]

private theorem removeWsL_padRight (w : Nat) (l : List Char) (h : ∀ c ∈ l, isWs c = false) : removeWsL (padRight w l) = l := by
  unfold removeWsL padRight
  rw [List.filter_append, filter_noWs l h, filter_blanks, List.append_nil]

private theorem removeWsL_padLeft (w : Nat) (l : List Char) (h : ∀ c ∈ l, isWs c = false) : removeWsL (padLeft w l) = l := by
  unfold removeWsL padLeft
  rw [List.filter_append, filter_noWs l h, filter_blanks, List.nil_append]

/-- the fixed-column slices of a record written by `formatAtom` are exactly the padded fields -/
theorem pdb_format_fields (name x y z occ b el : String)
    (hn : name.length ≤ 4) (hx : x.length ≤ 8) (hy : y.length ≤ 8) (hz : z.length ≤ 8) (ho : occ.length ≤ 6) (hb : b.length ≤ 6)
    (he : el.length ≤ 2) :
    pdbAtomFields (formatAtom name x y z occ b el) =
      { label := String.ofList (padRight 4 name.toList), element := String.ofList (padLeft 2 el.toList),
        x := String.ofList (padLeft 8 x.toList), y := String.ofList (padLeft 8 y.toList), z := String.ofList (padLeft 8 z.toList),
        occ := String.ofList (padLeft 6 occ.toList), b := String.ofList (padLeft 6 b.toList) } := by
  have ln := length_padRight 4 name.toList (by rw [String.length_toList]; exact hn)
  have lx := length_padLeft 8 x.toList (by rw [String.length_toList]; exact hx)
  have ly := length_padLeft 8 y.toList (by rw [String.length_toList]; exact hy)
  have lz := length_padLeft 8 z.toList (by rw [String.length_toList]; exact hz)
  have lo := length_padLeft 6 occ.toList (by rw [String.length_toList]; exact ho)
  have lb := length_padLeft 6 b.toList (by rw [String.length_toList]; exact hb)
  have le := length_padLeft 2 el.toList (by rw [String.length_toList]; exact he)
  have l0 : fmtHead.length = 12 := by decide +kernel
  have l1 : fmtMid.length = 14 := by decide +kernel
  have l2 : fmtGap.length = 10 := by decide +kernel
  simp only [pdbAtomFields, formatAtom, formatAtomL, slice, String.toList_ofList, List.append_assoc]
  generalize fmtHead = s0 at l0 ⊢
  generalize fmtMid = s1 at l1 ⊢
  generalize fmtGap = s2 at l2 ⊢
  generalize fmtTail = s3
  generalize padRight 4 name.toList = fn at ln ⊢
  generalize padLeft 8 x.toList = fx at lx ⊢
  generalize padLeft 8 y.toList = fy at ly ⊢
  generalize padLeft 8 z.toList = fz at lz ⊢
  generalize padLeft 6 occ.toList = fo at lo ⊢
  generalize padLeft 6 b.toList = fb at lb ⊢
  generalize padLeft 2 el.toList = fe at le ⊢
  congr 1
  · rw [sliceL_append_right _ _ _ _ (by omega), sliceL_prefix _ _ _ _ (by omega) (by omega)]
  · rw [sliceL_append_right _ _ _ _ (by omega), sliceL_append_right _ _ _ _ (by omega), sliceL_append_right _ _ _ _ (by omega), sliceL_append_right _ _ _ _ (by omega), sliceL_append_right _ _ _ _ (by omega), sliceL_append_right _ _ _ _ (by omega), sliceL_append_right _ _ _ _ (by omega), sliceL_append_right _ _ _ _ (by omega), sliceL_append_right _ _ _ _ (by omega), sliceL_prefix _ _ _ _ (by omega) (by omega)]
  · rw [sliceL_append_right _ _ _ _ (by omega), sliceL_append_right _ _ _ _ (by omega), sliceL_append_right _ _ _ _ (by omega), sliceL_prefix _ _ _ _ (by omega) (by omega)]
  · rw [sliceL_append_right _ _ _ _ (by omega), sliceL_append_right _ _ _ _ (by omega), sliceL_append_right _ _ _ _ (by omega), sliceL_append_right _ _ _ _ (by omega), sliceL_prefix _ _ _ _ (by omega) (by omega)]
  · rw [sliceL_append_right _ _ _ _ (by omega), sliceL_append_right _ _ _ _ (by omega), sliceL_append_right _ _ _ _ (by omega), sliceL_append_right _ _ _ _ (by omega), sliceL_append_right _ _ _ _ (by omega), sliceL_prefix _ _ _ _ (by omega) (by omega)]
  · rw [sliceL_append_right _ _ _ _ (by omega), sliceL_append_right _ _ _ _ (by omega), sliceL_append_right _ _ _ _ (by omega), sliceL_append_right _ _ _ _ (by omega), sliceL_append_right _ _ _ _ (by omega), sliceL_append_right _ _ _ _ (by omega), sliceL_prefix _ _ _ _ (by omega) (by omega)]
  · rw [sliceL_append_right _ _ _ _ (by omega), sliceL_append_right _ _ _ _ (by omega), sliceL_append_right _ _ _ _ (by omega), sliceL_append_right _ _ _ _ (by omega), sliceL_append_right _ _ _ _ (by omega), sliceL_append_right _ _ _ _ (by omega), sliceL_append_right _ _ _ _ (by omega), sliceL_prefix _ _ _ _ (by omega) (by omega)]


/-- pdb_roundtrip: for fields without white space that fit their columns, parsing the record written by `formatAtom` gives back
    the label and the element, and — up to the padding blanks, which `float` ignores — exactly the decimal strings that were
    written (so each is accepted by `float` iff the original is, with the same value) -/
theorem pdb_roundtrip (name x y z occ b el : String)
    (hn : name.length ≤ 4) (hx : x.length ≤ 8) (hy : y.length ≤ 8) (hz : z.length ≤ 8) (ho : occ.length ≤ 6) (hb : b.length ≤ 6)
    (he : el.length ≤ 2)
    (wn : ∀ c ∈ name.toList, isWs c = false) (wx : ∀ c ∈ x.toList, isWs c = false) (wy : ∀ c ∈ y.toList, isWs c = false)
    (wz : ∀ c ∈ z.toList, isWs c = false) (wo : ∀ c ∈ occ.toList, isWs c = false) (wb : ∀ c ∈ b.toList, isWs c = false)
    (we : ∀ c ∈ el.toList, isWs c = false) :
    let f := pdbAtomFields (formatAtom name x y z occ b el)
    removeWs f.label = name ∧ removeWs f.element = el ∧
    stripL f.x.toList = x.toList ∧ stripL f.y.toList = y.toList ∧ stripL f.z.toList = z.toList ∧
    stripL f.occ.toList = occ.toList ∧ stripL f.b.toList = b.toList ∧
    isFloat f.x = isFloat x ∧ isFloat f.y = isFloat y ∧ isFloat f.z = isFloat z ∧ isFloat f.occ = isFloat occ ∧
    isFloat f.b = isFloat b := by
  intro f
  have hf : f = _ := pdb_format_fields name x y z occ b el hn hx hy hz ho hb he
  rw [hf]
  simp only [removeWs, isFloat, String.toList_ofList, removeWsL_padRight 4 _ wn, removeWsL_padLeft 2 _ we,
    stripL_padLeft 8 _ wx, stripL_padLeft 8 _ wy, stripL_padLeft 8 _ wz, stripL_padLeft 6 _ wo, stripL_padLeft 6 _ wb,
    String.ofList_toList, dropWhile_ws_of_noWs, and_self]
  simp only [stripL, dropWhile_ws_of_noWs _ wx, dropWhile_ws_of_noWs _ wy, dropWhile_ws_of_noWs _ wz, dropWhile_ws_of_noWs _ wo,
    dropWhile_ws_of_noWs _ wb,
    dropWhile_ws_of_noWs x.toList.reverse (by intro c hc; exact wx c (List.mem_reverse.mp hc)),
    dropWhile_ws_of_noWs y.toList.reverse (by intro c hc; exact wy c (List.mem_reverse.mp hc)),
    dropWhile_ws_of_noWs z.toList.reverse (by intro c hc; exact wz c (List.mem_reverse.mp hc)),
    dropWhile_ws_of_noWs occ.toList.reverse (by intro c hc; exact wo c (List.mem_reverse.mp hc)),
    dropWhile_ws_of_noWs b.toList.reverse (by intro c hc; exact wb c (List.mem_reverse.mp hc)),
    List.reverse_reverse, and_self]

example : pdbAtom ["p43212"] (fun _ _ => 8) "p43212" zeroScale (formatAtom "CA" "2.273" "-9.264" "10.697" "1.00" "8.97" "C") =
    .ok { label := "CA", atomtype := "C", pos := .scaled zeroScale "   2.273" "  -9.264" "  10.697", adpType := some "Uiso",
          adp := .iso "  8.97" true, occ := .tok "  1.00",
          multi := .computed (.scaled zeroScale "   2.273" "  -9.264" "  10.697") "p43212" 8 } := by decide +kernel


/-! ## PDB space-group symbols -/

/-- a whole file: cell, symbol 'P 31 2 1' ↦ p3121, SCALE matrix with origin shift, two atoms -/
example : pdbread (Sg.sgdic.map Prod.fst) (fun _ _ => 6)
    ["HEADER    TEST\n",
     "CRYST1   31.501   10.246   17.880  90.00  90.00 120.00 P 31 2 1      6          \n",
     "SCALE1      0.031745  0.018328  0.000000        0.00000                         \n",
     "SCALE2      0.000000  0.112700  0.000000        0.00000                         \n",
     "SCALE3      0.000000  0.000000  0.055928       -0.25000                         \n",
     "HETATM    1 CA   LYS A 215      20.980   1.459   1.889  0.22 13.42          Ca  \n",
     "ANISOU    1 CA   LYS A 215      100    200    300      1      2      3      Ca  \n",
     "ATOM      2  N  AGLY A  23       3.608  -2.564   3.051  1.00 95.72           N1+\n",
     "END\n"] =
    (let m := [["0.031745", "0.018328", "0.000000", "0.00000"], ["0.000000", "0.112700", "0.000000", "0.00000"],
               ["0.000000", "0.000000", "0.055928", "-0.25000"]]
     .ok { cell := ["   31.501", "   10.246", "   17.880", "  90.00", "  90.00", " 120.00"], sgname := "p3121",
           dispersion := [("CA", none), ("N", none)],
           atoms := [
             { label := "CA", atomtype := "CA", pos := .scaled m "  20.980" "   1.459" "   1.889", adpType := some "Uiso",
               adp := .iso " 13.42" true, occ := .tok "  0.22",
               multi := .computed (.scaled m "  20.980" "   1.459" "   1.889") "p3121" 6 },
             { label := "N", atomtype := "N", pos := .scaled m "   3.608" "  -2.564" "   3.051", adpType := some "Uiso",
               adp := .iso " 95.72" true, occ := .tok "  1.00",
               multi := .computed (.scaled m "   3.608" "  -2.564" "   3.051") "p3121" 6 }] }) := by
  decide +kernel

/-- the generated table lists the 230 sglib classes Sg1 … Sg230 in order -/
theorem pdb_symbol_table_complete :
    pdbSymbolTable.map Prod.snd = (List.range 230).map (fun i => "Sg" ++ toString (i + 1)) := by
  decide +kernel


/-- the class that `sgdic` gives for the normalised CRYST1 field, computed on code points:
    `dic` = sgdic with its keys as lists of code points -/
def pdbSymbolN (dic : List (List Nat × String)) (field : List Char) : Option String :=
  let toks := splitWsL field
  let full := lowerL toks.flatten
  let res := if (dic.map Prod.fst).contains (full.map Char.toNat) then full
    else lowerL (toks.filter (fun t => t != ['1'])).flatten
  dic.lookup (res.map Char.toNat)

private theorem ofList_beq (l : List Char) (k : String) : (String.ofList l == k) = (l == k.toList) := by
  by_cases h : l = k.toList
  · subst h; simp
  · have : String.ofList l ≠ k := by
      intro e; apply h; rw [← e]; simp
    rw [beq_eq_false_iff_ne.mpr this, beq_eq_false_iff_ne.mpr h]

private theorem codes_inj : ∀ (l₁ l₂ : List Char), l₁.map Char.toNat = l₂.map Char.toNat → l₁ = l₂
  | [], [], _ => rfl
  | [], _ :: _, h => by simp at h
  | _ :: _, [], h => by simp at h
  | a :: as, b :: bs, h => by
    simp only [List.map_cons, List.cons.injEq] at h
    rw [Char.toNat_inj.mp h.1, codes_inj as bs h.2]

private theorem codes_beq (l₁ l₂ : List Char) : (l₁ == l₂) = (l₁.map Char.toNat == l₂.map Char.toNat) := by
  by_cases h : l₁ = l₂
  · subst h; simp
  · have : l₁.map Char.toNat ≠ l₂.map Char.toNat := fun e => h (codes_inj _ _ e)
    rw [beq_eq_false_iff_ne.mpr this, beq_eq_false_iff_ne.mpr h]

/-- string-keyed dictionary ↔ code-point-keyed dictionary -/
private theorem lookup_codes (l : List Char) : ∀ d : List (List Char × String),
    (d.map (fun p => (String.ofList p.1, p.2))).lookup (String.ofList l) =
      (d.map (fun p => (p.1.map Char.toNat, p.2))).lookup (l.map Char.toNat)
  | [] => rfl
  | (a, c) :: d => by
    simp only [List.map_cons, List.lookup_cons, lookup_codes l d, ofList_beq, String.toList_ofList, codes_beq l a]

private theorem contains_codes (l : List Char) : ∀ d : List (List Char × String),
    ((d.map (fun p => (String.ofList p.1, p.2))).map Prod.fst).contains (String.ofList l) =
      ((d.map (fun p => (p.1.map Char.toNat, p.2))).map Prod.fst).contains (l.map Char.toNat)
  | [] => rfl
  | (a, c) :: d => by
    simp only [List.map_cons, List.contains_cons, contains_codes l d, ofList_beq, String.toList_ofList, codes_beq l a]

private theorem pdbSymbol_codes (d : List (List Char × String)) (field : List Char) :
    (d.map (fun p => (String.ofList p.1, p.2))).lookup
        (pdbSymbol ((d.map (fun p => (String.ofList p.1, p.2))).map Prod.fst) (String.ofList field)) =
      pdbSymbolN (d.map (fun p => (p.1.map Char.toNat, p.2))) field := by
  unfold pdbSymbol pdbSymbolN
  simp only [String.toList_ofList, contains_codes]
  split <;> simp only [lookup_codes]

/-- the character-list / code-point copies in the generated file are the string tables `pdbSymbolTable` and `Sg.sgdic`
    (the latter exported from `xfab/sg.py` by gen_tables.py) -/
theorem pdb_symbol_tables :
    pdbSymbolTable = pdbSymbolCerts.map (fun e => (String.ofList e.1, e.2.2.2)) ∧
    Sg.sgdic = sgdicL.map (fun p => (String.ofList p.1, p.2)) ∧
    sgdicN = sgdicL.map (fun p => (p.1.map Char.toNat, p.2)) := by
  refine ⟨?_, ?_, ?_⟩ <;> decide +kernel

/-- kernel-evaluated check of one certificate: both token concatenations of `field` have the stated code points, and `dic`
    maps the one that `pdbSymbol` selects to `cls` -/
def certOk (dic : List (List Nat × String)) (field : List Char) (fullN redN : List Nat) (cls : String) : Bool :=
  (lowerL (splitWsL field).flatten).map Char.toNat == fullN &&
  (lowerL ((splitWsL field).filter (fun t => t != ['1'])).flatten).map Char.toNat == redN &&
  dic.lookup (if (dic.map Prod.fst).contains fullN then fullN else redN) == some cls

private theorem certOk_sound {dic : List (List Nat × String)} {field : List Char} {fullN redN : List Nat} {cls : String}
    (h : certOk dic field fullN redN cls = true) : pdbSymbolN dic field = some cls := by
  unfold certOk at h
  simp only [Bool.and_eq_true, beq_iff_eq] at h
  obtain ⟨⟨h1, h2⟩, h3⟩ := h
  unfold pdbSymbolN
  simp only [h1]
  split
  · next hc => rw [if_pos hc] at h3; rw [h1]; exact h3
  · next hc => rw [if_neg hc] at h3; rw [h2]; exact h3

set_option maxRecDepth 100000 in
private theorem pdb_symbol_certs :
    (pdbSymbolCerts.all fun e =>
      certOk sgdicN e.1 e.2.1 e.2.2.1 e.2.2.2 && certOk sgdicN (padRight 11 e.1) e.2.1 e.2.2.1 e.2.2.2) = true := by
  decide +kernel

/-- pdb_symbol: for the PDB spelling of each of the 230 Hermann-Mauguin symbols — as such and padded to the 11 columns of the
    CRYST1 field — the normalised symbol is a key of `sgdic` that maps to the intended sglib class
    (e.g. 'P 31 2 1' ↦ Sg152, 'P 3 1 2' ↦ Sg149, 'P 1' ↦ Sg1, 'P 1 21/c 1' ↦ Sg14) -/
theorem pdb_symbol : ∀ p ∈ pdbSymbolTable,
    Sg.sgdic.lookup (pdbSymbol (Sg.sgdic.map Prod.fst) p.1) = some p.2 ∧
    Sg.sgdic.lookup (pdbSymbol (Sg.sgdic.map Prod.fst) (String.ofList (padRight 11 p.1.toList))) = some p.2 := by
  intro p hp
  rw [pdb_symbol_tables.1] at hp
  obtain ⟨e, he, rfl⟩ := List.mem_map.mp hp
  have := (List.all_eq_true.mp pdb_symbol_certs) e he
  simp only [Bool.and_eq_true] at this
  simp only [String.toList_ofList]
  rw [pdb_symbol_tables.2.1, pdbSymbol_codes, pdbSymbol_codes, ← pdb_symbol_tables.2.2]
  exact ⟨certOk_sound this.1, certOk_sound this.2⟩

example : Sg.sgdic.lookup (pdbSymbol (Sg.sgdic.map Prod.fst) "P 31 2 1   ") = some "Sg152" ∧
    Sg.sgdic.lookup (pdbSymbol (Sg.sgdic.map Prod.fst) "P 3 1 2    ") = some "Sg149" ∧
    Sg.sgdic.lookup (pdbSymbol (Sg.sgdic.map Prod.fst) "P 1") = some "Sg1" ∧
    Sg.sgdic.lookup (pdbSymbol (Sg.sgdic.map Prod.fst) "P 1 21/c 1 ") = some "Sg14" := by decide +kernel


/-- the model's case mapping on code points is `Char.toLower` / `Char.toUpper` (checked on all code points below 256;
    above, both leave the character unchanged in the ASCII-only mapping) -/
theorem case_maps_latin1 :
    ∀ n < 256, lowerC (Char.ofNat n) = (Char.ofNat n).toLower ∧ upperC (Char.ofNat n) = (Char.ofNat n).toUpper := by
  decide +kernel

end CifPdb
