/-
C18 — `reduce_cell(unit_cell, uvw = 3)` of xfab.tools / xfab.laue.

Property: "reduce_cell returns the six parameters of a basis of the same lattice as the input: same volume, and a
metric tensor related to the input's by an integer matrix of determinant ±1, built from the shortest non-coplanar
lattice vectors within the search range."

`reduce_cell` itself (sort + two search loops) is not traceable; it is modelled by hand in `XfabVerif/Model/Reduce.lean`
(selection of the three index vectors `M`, validated against the implementation by the harness) composed with the
TRACED `Tools.form_a_mat`, `Tools.a_to_cell` (`Laue.*` are syntactically the same definitions):

    red_a_mat = M · Aᵀ          (rows = selected lattice vectors `A mᵢ`)          `C18.redAMat`
    return a_to_cell(red_a_mat)                                                   `C18.reduceAsCoded`

whereas `a_to_cell` reads COLUMNS (it computes `XᵀX`); the call that was intended is `a_to_cell(A · Mᵀ)`
(`C18.reduceIntended`).

Results
* `reduce_metric*`                 intended call: metric `M G Mᵀ`, volume `|det M|·V`.
* `same_lattice_of_unimodular`     `det M = ±1` ⇒ the integer spans of `A` and `A·Mᵀ` coincide.
* `reduce_cell_as_coded*`          what the code returns has metric `A MᵀM Aᵀ = (A Mᵀ)(A Mᵀ)ᵀ` (transposed Gram matrix).
* `reduce_cell_volume_preserved*`  … and the same volume `|det M|·V`.
* `reduce_cell_violates_witness*`  for the valid cell `[4,5,6,90,90,60]` and EVERY admissible selection of the model
                                    the returned metric is not `P G Pᵀ` for any integer `P` (its first diagonal entry
                                    is `73/4`, but `G` is integral): the property fails (known finding C18-ROWS);
                                    the intended call would satisfy it (`reduce_intended_witness`).
* `cartesian_tests_exact`          the code's Cartesian collinearity / side tests are the model's integer tests.
* `selection_sound`                whatever `Reduce.select` returns: index vectors within range, not collinear,
                                    positive side, lengths non-decreasing in selection order.
* `selectFrom_mem_admissible`      the code's loops on ANY length-sorted permutation of the candidates (numpy's argsort
                                    is not stable) return a member of `Reduce.admissible` (positive definite metric);
                                    `select_mem_admissible`: so does the canonical (stable) order;
                                    `admissible_sound`: every admissible outcome has the `selection_sound` properties.
NOT proved (`selected_basis`): that the three selected vectors form a basis (`det M = ±1`) for every cell whose reduced
basis lies in the search range — this is the theorem that successive minima of a 3-D lattice form a basis (geometry of
numbers), outside this effort.  `det M` is computed per input by the model (`Reduce.Sel.det`) and checked by the harness.
-/
import XfabVerif.Proofs.C01
import XfabVerif.Model.Reduce
import Mathlib.LinearAlgebra.Matrix.Adjugate
import Mathlib.LinearAlgebra.Matrix.Nondegenerate
import Mathlib.LinearAlgebra.Matrix.Symmetric
import Mathlib.LinearAlgebra.Matrix.DotProduct
set_option linter.unusedVariables false
set_option linter.style.longLine false
open Matrix

noncomputable section
namespace C18

/-- integer matrix as a real matrix -/
def toR (M : Matrix (Fin 3) (Fin 3) ℤ) : Matrix (Fin 3) (Fin 3) ℝ := M.map (Int.castRingHom ℝ)

lemma det_toR (M : Matrix (Fin 3) (Fin 3) ℤ) : (toR M).det = (M.det : ℝ) :=
  ((Int.castRingHom ℝ).map_det M).symm

lemma toR_mul (M N : Matrix (Fin 3) (Fin 3) ℤ) : toR (M * N) = toR M * toR N := Matrix.map_mul

lemma toR_transpose (M : Matrix (Fin 3) (Fin 3) ℤ) : toR Mᵀ = (toR M)ᵀ := Matrix.transpose_map

lemma toR_apply (M : Matrix (Fin 3) (Fin 3) ℤ) (i j : Fin 3) : toR M i j = (M i j : ℝ) := rfl

/-- the matrix whose COLUMNS are the selected lattice vectors `A mᵢ` (`mᵢ` = rows of `M`): what `a_to_cell` expects -/
def intendedMat (A : Matrix (Fin 3) (Fin 3) ℝ) (M : Matrix (Fin 3) (Fin 3) ℤ) : Matrix (Fin 3) (Fin 3) ℝ :=
  A * (toR M)ᵀ

/-- `red_a_mat` of the code: the ROWS are the selected lattice vectors `A mᵢ` -/
def redAMat (A : Matrix (Fin 3) (Fin 3) ℝ) (M : Matrix (Fin 3) (Fin 3) ℤ) : Matrix (Fin 3) (Fin 3) ℝ :=
  toR M * Aᵀ

lemma redAMat_row (A : Matrix (Fin 3) (Fin 3) ℝ) (M : Matrix (Fin 3) (Fin 3) ℤ) (i : Fin 3) :
    redAMat A M i = A *ᵥ (fun j => (M i j : ℝ)) := by
  funext k
  simp [redAMat, Matrix.mul_apply, Matrix.mulVec, dotProduct, toR_apply, mul_comm]

lemma redAMat_eq_transpose (A : Matrix (Fin 3) (Fin 3) ℝ) (M : Matrix (Fin 3) (Fin 3) ℤ) :
    redAMat A M = (intendedMat A M)ᵀ := by
  simp [redAMat, intendedMat, Matrix.transpose_mul]

/-- last line of `tools.reduce_cell`, given the selection `M` -/
def reduceAsCoded (cell : Fin 6 → ℝ) (M : Matrix (Fin 3) (Fin 3) ℤ) : Fin 6 → ℝ :=
  Tools.a_to_cell (redAMat (Tools.form_a_mat cell) M)

/-- last line of `laue.reduce_cell`, given the selection `M` -/
def reduceAsCodedLaue (cell : Fin 6 → ℝ) (M : Matrix (Fin 3) (Fin 3) ℤ) : Fin 6 → ℝ :=
  Laue.a_to_cell (redAMat (Laue.form_a_mat cell) M)

/-- the call that was intended: columns = selected vectors -/
def reduceIntended (cell : Fin 6 → ℝ) (M : Matrix (Fin 3) (Fin 3) ℤ) : Fin 6 → ℝ :=
  Tools.a_to_cell (intendedMat (Tools.form_a_mat cell) M)

lemma reduceAsCodedLaue_eq : reduceAsCodedLaue = reduceAsCoded := rfl
lemma laue_vol : Laue.cell_volume = Tools.cell_volume := rfl

/-! ### `a_to_cell` of an arbitrary non-singular matrix -/

section atocell
variable {X : Matrix (Fin 3) (Fin 3) ℝ}

lemma gram_pos (hX : X.det ≠ 0) {v : Fin 3 → ℝ} (hv : v ≠ 0) : 0 < v ⬝ᵥ ((Xᵀ * X) *ᵥ v) := by
  rw [← C01.mulVec_dot_self]
  have h0 : X *ᵥ v ≠ 0 := fun h => hv (Matrix.eq_zero_of_mulVec_eq_zero hX h)
  have h1 := C01.dot_self_nonneg (X *ᵥ v)
  rcases h1.lt_or_eq with h | h
  · exact h
  · exact absurd (dotProduct_self_eq_zero.mp h.symm) h0

lemma gram_symm (X : Matrix (Fin 3) (Fin 3) ℝ) (i j : Fin 3) : (Xᵀ * X) i j = (Xᵀ * X) j i :=
  ((Matrix.isSymm_transpose_mul_self X).apply i j).symm

/-- positivity facts of the Gram matrix `g = XᵀX` of a non-singular `X` -/
lemma gram_facts (hX : X.det ≠ 0) :
    0 < (Xᵀ * X) 0 0 ∧ 0 < (Xᵀ * X) 1 1 ∧ 0 < (Xᵀ * X) 2 2 ∧
    (Xᵀ * X) 1 2 ^ 2 < (Xᵀ * X) 1 1 * (Xᵀ * X) 2 2 ∧
    (Xᵀ * X) 0 2 ^ 2 < (Xᵀ * X) 0 0 * (Xᵀ * X) 2 2 ∧
    (Xᵀ * X) 0 1 ^ 2 < (Xᵀ * X) 0 0 * (Xᵀ * X) 1 1 := by
  have P : ∀ v : Fin 3 → ℝ, v ≠ 0 → 0 < v ⬝ᵥ ((Xᵀ * X) *ᵥ v) := fun v hv => gram_pos hX hv
  have s10 := gram_symm X 1 0; have s20 := gram_symm X 2 0; have s21 := gram_symm X 2 1
  generalize Xᵀ * X = g at P s10 s20 s21 ⊢
  have ne : ∀ (a b c : ℝ), (a ≠ 0 ∨ b ≠ 0 ∨ c ≠ 0) → (![a, b, c] : Fin 3 → ℝ) ≠ 0 := by
    intro a b c h e
    have e0 := congrFun e 0; have e1 := congrFun e 1; have e2 := congrFun e 2
    simp at e0 e1 e2
    rcases h with h | h | h <;> contradiction
  have h00 := P ![1, 0, 0] (ne _ _ _ (Or.inl one_ne_zero))
  have h11 := P ![0, 1, 0] (ne _ _ _ (Or.inr (Or.inl one_ne_zero)))
  have h22 := P ![0, 0, 1] (ne _ _ _ (Or.inr (Or.inr one_ne_zero)))
  simp [dotProduct, Matrix.mulVec, Fin.sum_univ_three] at h00 h11 h22
  have m12 := P ![0, g 2 2, -g 1 2] (ne _ _ _ (Or.inr (Or.inl h22.ne')))
  have m02 := P ![g 2 2, 0, -g 0 2] (ne _ _ _ (Or.inl h22.ne'))
  have m01 := P ![g 1 1, -g 0 1, 0] (ne _ _ _ (Or.inl h11.ne'))
  simp [dotProduct, Matrix.mulVec, Fin.sum_univ_three] at m12 m02 m01
  rw [s21] at m12; rw [s20] at m02; rw [s10] at m01
  refine ⟨h00, h11, h22, ?_, ?_, ?_⟩
  · have : 0 < g 2 2 * (g 1 1 * g 2 2 - g 1 2 ^ 2) := by linarith [m12]
    have := (mul_pos_iff_of_pos_left h22).mp this
    linarith
  · have : 0 < g 2 2 * (g 0 0 * g 2 2 - g 0 2 ^ 2) := by linarith [m02]
    have := (mul_pos_iff_of_pos_left h22).mp this
    linarith
  · have : 0 < g 1 1 * (g 0 0 * g 1 1 - g 0 1 ^ 2) := by linarith [m01]
    have := (mul_pos_iff_of_pos_left h11).mp this
    linarith

lemma metric_cellOf {a b c x y z : ℝ} (hx : -1 ≤ x ∧ x ≤ 1) (hy : -1 ≤ y ∧ y ≤ 1) (hz : -1 ≤ z ∧ z ≤ 1) :
    Spec.metric (C01.cellOf a b c x y z) = C01.Gmat a b c x y z := by
  have c3 : Real.cos (Spec.rad (C01.cellOf a b c x y z 3)) = x := by
    show Real.cos (Spec.rad (Real.arccos x * 180 / Real.pi)) = x
    rw [C01.rad_arccos, Real.cos_arccos hx.1 hx.2]
  have c4 : Real.cos (Spec.rad (C01.cellOf a b c x y z 4)) = y := by
    show Real.cos (Spec.rad (Real.arccos y * 180 / Real.pi)) = y
    rw [C01.rad_arccos, Real.cos_arccos hy.1 hy.2]
  have c5 : Real.cos (Spec.rad (C01.cellOf a b c x y z 5)) = z := by
    show Real.cos (Spec.rad (Real.arccos z * 180 / Real.pi)) = z
    rw [C01.rad_arccos, Real.cos_arccos hz.1 hz.2]
  rw [C01.metric_eq, c3, c4, c5]
  rfl

lemma sq_lt_one_of {p q r : ℝ} (hq : 0 < q) (hr : 0 < r) (h : p ^ 2 < q * r) :
    -1 < p / Real.sqrt q / Real.sqrt r ∧ p / Real.sqrt q / Real.sqrt r < 1 := by
  have hsq := Real.sqrt_pos.mpr hq
  have hsr := Real.sqrt_pos.mpr hr
  have e : (p / Real.sqrt q / Real.sqrt r) ^ 2 = p ^ 2 / (q * r) := by
    rw [div_pow, div_pow, Real.sq_sqrt hq.le, Real.sq_sqrt hr.le, div_div]
  have h1 : (p / Real.sqrt q / Real.sqrt r) ^ 2 < 1 := by
    rw [e, div_lt_one (mul_pos hq hr)]; exact h
  constructor <;> nlinarith

/-- the data `a_to_cell` extracts from a non-singular matrix: everything needed about `a_to_cell X` -/
lemma a_to_cell_spec (hX : X.det ≠ 0) :
    Spec.ValidCell (Tools.a_to_cell X) ∧ Spec.metric (Tools.a_to_cell X) = Xᵀ * X := by
  obtain ⟨h00, h11, h22, m12, m02, m01⟩ := gram_facts hX
  have s10 := gram_symm X 1 0; have s20 := gram_symm X 2 0; have s21 := gram_symm X 2 1
  have hdet : (Xᵀ * X).det = X.det ^ 2 := by rw [Matrix.det_mul, Matrix.det_transpose]; ring
  have hdpos : 0 < (Xᵀ * X).det := by rw [hdet]; positivity
  have hcell : Tools.a_to_cell X = C01.cellOf (Real.sqrt ((Xᵀ * X) 0 0)) (Real.sqrt ((Xᵀ * X) 1 1))
      (Real.sqrt ((Xᵀ * X) 2 2)) ((Xᵀ * X) 1 2 / Real.sqrt ((Xᵀ * X) 1 1) / Real.sqrt ((Xᵀ * X) 2 2))
      ((Xᵀ * X) 0 2 / Real.sqrt ((Xᵀ * X) 0 0) / Real.sqrt ((Xᵀ * X) 2 2))
      ((Xᵀ * X) 0 1 / Real.sqrt ((Xᵀ * X) 0 0) / Real.sqrt ((Xᵀ * X) 1 1)) := rfl
  rw [hcell]
  generalize Xᵀ * X = g at *
  have ha := Real.sqrt_pos.mpr h00; have hb := Real.sqrt_pos.mpr h11; have hc := Real.sqrt_pos.mpr h22
  have hx := sq_lt_one_of h11 h22 m12
  have hy := sq_lt_one_of h00 h22 m02
  have hz := sq_lt_one_of h00 h11 m01
  have hG : C01.Gmat (Real.sqrt (g 0 0)) (Real.sqrt (g 1 1)) (Real.sqrt (g 2 2))
      (g 1 2 / Real.sqrt (g 1 1) / Real.sqrt (g 2 2)) (g 0 2 / Real.sqrt (g 0 0) / Real.sqrt (g 2 2))
      (g 0 1 / Real.sqrt (g 0 0) / Real.sqrt (g 1 1)) = g := by
    have ha' := ha.ne'; have hb' := hb.ne'; have hc' := hc.ne'
    ext i j; fin_cases i <;> fin_cases j <;> simp [C01.Gmat, s10, s20, s21]
    · exact Real.mul_self_sqrt h00.le
    · field_simp
    · field_simp
    · field_simp
    · exact Real.mul_self_sqrt h11.le
    · field_simp
    · field_simp
    · field_simp
    · exact Real.mul_self_sqrt h22.le
  refine ⟨?_, ?_⟩
  · apply C01.validCell_cellOf ha hb hc hx hy hz
    have hd : g.det = (Real.sqrt (g 0 0) * Real.sqrt (g 1 1) * Real.sqrt (g 2 2)) ^ 2 *
        (1 - (g 1 2 / Real.sqrt (g 1 1) / Real.sqrt (g 2 2)) ^ 2 - (g 0 2 / Real.sqrt (g 0 0) / Real.sqrt (g 2 2)) ^ 2
          - (g 0 1 / Real.sqrt (g 0 0) / Real.sqrt (g 1 1)) ^ 2
          + 2 * (g 1 2 / Real.sqrt (g 1 1) / Real.sqrt (g 2 2)) * (g 0 2 / Real.sqrt (g 0 0) / Real.sqrt (g 2 2))
            * (g 0 1 / Real.sqrt (g 0 0) / Real.sqrt (g 1 1))) := by
      conv_lhs => rw [← hG]
      simp [C01.Gmat, Matrix.det_fin_three]
      ring
    rw [hd] at hdpos
    have hp : 0 < (Real.sqrt (g 0 0) * Real.sqrt (g 1 1) * Real.sqrt (g 2 2)) ^ 2 := by positivity
    exact (mul_pos_iff_of_pos_left hp).mp hdpos
  · rw [metric_cellOf ⟨hx.1.le, hx.2.le⟩ ⟨hy.1.le, hy.2.le⟩ ⟨hz.1.le, hz.2.le⟩, hG]

/-- `a_to_cell X` is a valid cell when `X` is non-singular -/
lemma validCell_a_to_cell (hX : X.det ≠ 0) : Spec.ValidCell (Tools.a_to_cell X) := (a_to_cell_spec hX).1

/-- the metric tensor of `a_to_cell X` is `XᵀX` (the Gram matrix of the COLUMNS of `X`) -/
lemma metric_a_to_cell (hX : X.det ≠ 0) : Spec.metric (Tools.a_to_cell X) = Xᵀ * X := (a_to_cell_spec hX).2

/-- the volume of `a_to_cell X` is `|det X|` -/
lemma volume_a_to_cell (hX : X.det ≠ 0) : Tools.cell_volume (Tools.a_to_cell X) = |X.det| := by
  have hv := validCell_a_to_cell hX
  have h1 := cell_volume_sq_tools hv
  have h2 := cell_volume_pos_tools hv
  rw [metric_a_to_cell hX, Matrix.det_mul, Matrix.det_transpose, ← sq] at h1
  rw [← abs_of_pos h2]
  exact (sq_eq_sq_iff_abs_eq_abs _ _).mp h1

end atocell

/-- integer span of the columns of `B` -/
def lattice (B : Matrix (Fin 3) (Fin 3) ℝ) : Set (Fin 3 → ℝ) :=
  Set.range fun z : Fin 3 → ℤ => B *ᵥ (fun i => (z i : ℝ))

lemma toR_mulVec (M : Matrix (Fin 3) (Fin 3) ℤ) (z : Fin 3 → ℤ) :
    toR M *ᵥ (fun i => (z i : ℝ)) = fun i => ((M *ᵥ z) i : ℝ) := by
  funext i
  simp [Matrix.mulVec, dotProduct, toR_apply]

lemma det_intendedMat {cell : Fin 6 → ℝ} (h : Spec.ValidCell cell) (M : Matrix (Fin 3) (Fin 3) ℤ) :
    (intendedMat (Tools.form_a_mat cell) M).det = Tools.cell_volume cell * (M.det : ℝ) := by
  rw [intendedMat, Matrix.det_mul, Matrix.det_transpose, det_toR, det_formA_tools h]

lemma det_intendedMat_ne {cell : Fin 6 → ℝ} (h : Spec.ValidCell cell) {M : Matrix (Fin 3) (Fin 3) ℤ} (hM : M.det ≠ 0) :
    (intendedMat (Tools.form_a_mat cell) M).det ≠ 0 := by
  rw [det_intendedMat h]
  exact mul_ne_zero (cell_volume_pos_tools h).ne' (Int.cast_ne_zero.mpr hM)

lemma det_redAMat_ne {cell : Fin 6 → ℝ} (h : Spec.ValidCell cell) {M : Matrix (Fin 3) (Fin 3) ℤ} (hM : M.det ≠ 0) :
    (redAMat (Tools.form_a_mat cell) M).det ≠ 0 := by
  rw [redAMat_eq_transpose, Matrix.det_transpose]; exact det_intendedMat_ne h hM

end C18

/-! ## Property theorems -/
open C18

variable {cell : Fin 6 → ℝ}

/-- C18 (algebra): the Gram matrix of the columns of `A·N` is `Nᵀ(AᵀA)N`. -/
theorem reduce_metric (A N : Matrix (Fin 3) (Fin 3) ℝ) : (A * N)ᵀ * (A * N) = Nᵀ * (Aᵀ * A) * N := by
  rw [Matrix.transpose_mul]; simp only [Matrix.mul_assoc]

/-- C18 (tools, intended call): the cell built from the lattice vectors `A mᵢ` (columns of `A·Mᵀ`) is a valid cell
with metric tensor `M G Mᵀ`. -/
theorem reduce_metric_tools (h : Spec.ValidCell cell) (M : Matrix (Fin 3) (Fin 3) ℤ) (hM : M.det ≠ 0) :
    Spec.ValidCell (Tools.a_to_cell (Tools.form_a_mat cell * (toR M)ᵀ)) ∧
    Spec.metric (Tools.a_to_cell (Tools.form_a_mat cell * (toR M)ᵀ)) = toR M * Spec.metric cell * (toR M)ᵀ := by
  have hd : (Tools.form_a_mat cell * (toR M)ᵀ).det ≠ 0 := det_intendedMat_ne h hM
  refine ⟨validCell_a_to_cell hd, ?_⟩
  rw [metric_a_to_cell hd, reduce_metric, formA_gram_tools h, Matrix.transpose_transpose]

/-- C18 (laue, intended call): valid cell with metric tensor `M G Mᵀ`. -/
theorem reduce_metric_laue (h : Spec.ValidCell cell) (M : Matrix (Fin 3) (Fin 3) ℤ) (hM : M.det ≠ 0) :
    Spec.ValidCell (Laue.a_to_cell (Laue.form_a_mat cell * (toR M)ᵀ)) ∧
    Spec.metric (Laue.a_to_cell (Laue.form_a_mat cell * (toR M)ᵀ)) = toR M * Spec.metric cell * (toR M)ᵀ :=
  reduce_metric_tools h M hM

/-- C18 (tools, intended call): the volume of that cell is `|det M|·V`. -/
theorem reduce_volume_tools (h : Spec.ValidCell cell) (M : Matrix (Fin 3) (Fin 3) ℤ) (hM : M.det ≠ 0) :
    Tools.cell_volume (Tools.a_to_cell (Tools.form_a_mat cell * (toR M)ᵀ)) = |(M.det : ℝ)| * Tools.cell_volume cell := by
  have hd : (Tools.form_a_mat cell * (toR M)ᵀ).det ≠ 0 := det_intendedMat_ne h hM
  have e : (Tools.form_a_mat cell * (toR M)ᵀ).det = Tools.cell_volume cell * (M.det : ℝ) := det_intendedMat h M
  have := volume_a_to_cell hd
  rw [e, abs_mul, abs_of_pos (cell_volume_pos_tools h), mul_comm] at this
  exact this

/-- C18 (laue, intended call): the volume of that cell is `|det M|·V`. -/
theorem reduce_volume_laue (h : Spec.ValidCell cell) (M : Matrix (Fin 3) (Fin 3) ℤ) (hM : M.det ≠ 0) :
    Laue.cell_volume (Laue.a_to_cell (Laue.form_a_mat cell * (toR M)ᵀ)) = |(M.det : ℝ)| * Laue.cell_volume cell :=
  reduce_volume_tools h M hM

/-- C18: a unimodular integer change of basis does not change the lattice: the integer spans of the columns of
`B` and of `B·Mᵀ` coincide when `det M = ±1` (`M⁻¹ = det M • adjugate M` is integral). -/
theorem same_lattice_of_unimodular (B : Matrix (Fin 3) (Fin 3) ℝ) (M : Matrix (Fin 3) (Fin 3) ℤ)
    (hM : M.det = 1 ∨ M.det = -1) : lattice (B * (toR M)ᵀ) = lattice B := by
  have hsq : M.det * M.det = 1 := by rcases hM with h | h <;> rw [h] <;> norm_num
  apply Set.eq_of_subset_of_subset
  · rintro _ ⟨z, rfl⟩
    refine ⟨Mᵀ *ᵥ z, ?_⟩
    show B *ᵥ (fun i => ((Mᵀ *ᵥ z) i : ℝ)) = (B * (toR M)ᵀ) *ᵥ (fun i => (z i : ℝ))
    rw [← toR_mulVec, toR_transpose, Matrix.mulVec_mulVec]
  · rintro _ ⟨z, rfl⟩
    have hinv : Mᵀ * (M.det • Matrix.adjugate M)ᵀ = 1 := by
      rw [← Matrix.transpose_mul, Matrix.smul_mul, Matrix.adjugate_mul, smul_smul, hsq, one_smul,
        Matrix.transpose_one]
    refine ⟨(M.det • Matrix.adjugate M)ᵀ *ᵥ z, ?_⟩
    show (B * (toR M)ᵀ) *ᵥ (fun i => (((M.det • Matrix.adjugate M)ᵀ *ᵥ z) i : ℝ)) = B *ᵥ (fun i => (z i : ℝ))
    rw [← toR_mulVec, ← Matrix.mulVec_mulVec, ← toR_transpose, Matrix.mulVec_mulVec _ (toR Mᵀ), ← toR_mul, hinv]
    congr 1
    funext i
    simp [toR, Matrix.mulVec, dotProduct, Matrix.one_apply]

/-- C18 (tools, as coded): `red_a_mat` holds the selected vectors as ROWS, i.e. it is the TRANSPOSE of the matrix the
intended call would pass, so the returned cell is a valid cell whose metric tensor is the transposed Gram matrix
`(A Mᵀ)(A Mᵀ)ᵀ = A (MᵀM) Aᵀ` instead of `(A Mᵀ)ᵀ(A Mᵀ) = M G Mᵀ`. -/
theorem reduce_cell_as_coded_tools (h : Spec.ValidCell cell) (M : Matrix (Fin 3) (Fin 3) ℤ) (hM : M.det ≠ 0) :
    (∀ i, redAMat (Tools.form_a_mat cell) M i = Tools.form_a_mat cell *ᵥ (fun j => (M i j : ℝ))) ∧
    reduceAsCoded cell M = Tools.a_to_cell ((Tools.form_a_mat cell * (toR M)ᵀ)ᵀ) ∧
    Spec.ValidCell (reduceAsCoded cell M) ∧
    Spec.metric (reduceAsCoded cell M) = (Tools.form_a_mat cell * (toR M)ᵀ) * (Tools.form_a_mat cell * (toR M)ᵀ)ᵀ ∧
    Spec.metric (reduceAsCoded cell M) = Tools.form_a_mat cell * ((toR M)ᵀ * toR M) * (Tools.form_a_mat cell)ᵀ := by
  have hd := det_redAMat_ne h hM
  have e : reduceAsCoded cell M = Tools.a_to_cell ((Tools.form_a_mat cell * (toR M)ᵀ)ᵀ) := by
    unfold reduceAsCoded; rw [redAMat_eq_transpose]; rfl
  refine ⟨redAMat_row _ M, e, validCell_a_to_cell hd, ?_, ?_⟩
  · unfold reduceAsCoded
    rw [metric_a_to_cell hd, redAMat_eq_transpose, Matrix.transpose_transpose]; rfl
  · unfold reduceAsCoded
    rw [metric_a_to_cell hd, redAMat, Matrix.transpose_mul, Matrix.transpose_transpose]
    simp only [Matrix.mul_assoc]

/-- C18 (laue, as coded): same statement for `laue.reduce_cell`. -/
theorem reduce_cell_as_coded_laue (h : Spec.ValidCell cell) (M : Matrix (Fin 3) (Fin 3) ℤ) (hM : M.det ≠ 0) :
    (∀ i, redAMat (Laue.form_a_mat cell) M i = Laue.form_a_mat cell *ᵥ (fun j => (M i j : ℝ))) ∧
    reduceAsCodedLaue cell M = Laue.a_to_cell ((Laue.form_a_mat cell * (toR M)ᵀ)ᵀ) ∧
    Spec.ValidCell (reduceAsCodedLaue cell M) ∧
    Spec.metric (reduceAsCodedLaue cell M) = (Laue.form_a_mat cell * (toR M)ᵀ) * (Laue.form_a_mat cell * (toR M)ᵀ)ᵀ ∧
    Spec.metric (reduceAsCodedLaue cell M) = Laue.form_a_mat cell * ((toR M)ᵀ * toR M) * (Laue.form_a_mat cell)ᵀ :=
  reduce_cell_as_coded_tools h M hM

/-- C18 (algebra): the two Gram matrices `V Vᵀ` and `VᵀV` have the same determinant. -/
theorem gram_transpose_det (V : Matrix (Fin 3) (Fin 3) ℝ) : (V * Vᵀ).det = (Vᵀ * V).det := by
  rw [Matrix.det_mul, Matrix.det_mul, mul_comm]

/-- C18 (tools, as coded): the volume IS preserved by the defect: the returned cell has volume `|det M|·V`,
the volume of the intended cell (`= V` for a unimodular selection). -/
theorem reduce_cell_volume_preserved_tools (h : Spec.ValidCell cell) (M : Matrix (Fin 3) (Fin 3) ℤ) (hM : M.det ≠ 0) :
    Tools.cell_volume (reduceAsCoded cell M) = |(M.det : ℝ)| * Tools.cell_volume cell ∧
    Tools.cell_volume (reduceAsCoded cell M) = Tools.cell_volume (Tools.a_to_cell (Tools.form_a_mat cell * (toR M)ᵀ)) := by
  have hd := det_redAMat_ne h hM
  have e : Tools.cell_volume (reduceAsCoded cell M) = |(M.det : ℝ)| * Tools.cell_volume cell := by
    unfold reduceAsCoded
    rw [volume_a_to_cell hd, redAMat_eq_transpose, Matrix.det_transpose, det_intendedMat h, abs_mul,
      abs_of_pos (cell_volume_pos_tools h), mul_comm]
  exact ⟨e, by rw [e, reduce_volume_tools h M hM]⟩

/-- C18 (laue, as coded): the volume is preserved. -/
theorem reduce_cell_volume_preserved_laue (h : Spec.ValidCell cell) (M : Matrix (Fin 3) (Fin 3) ℤ) (hM : M.det ≠ 0) :
    Laue.cell_volume (reduceAsCodedLaue cell M) = |(M.det : ℝ)| * Laue.cell_volume cell ∧
    Laue.cell_volume (reduceAsCodedLaue cell M) = Laue.cell_volume (Laue.a_to_cell (Laue.form_a_mat cell * (toR M)ᵀ)) :=
  reduce_cell_volume_preserved_tools h M hM

/-! ### the witness: `[4, 5, 6, 90, 90, 60]` -/
namespace C18

/-- integer matrix whose rows are the selected index vectors -/
def selMat (s : Reduce.Sel) : Matrix (Fin 3) (Fin 3) ℤ :=
  !![s.v1.x, s.v1.y, s.v1.z; s.v2.x, s.v2.y, s.v2.z; s.v3.x, s.v3.y, s.v3.z]

def witnessCell : Fin 6 → ℝ := ![4, 5, 6, 90, 90, 60]

/-- the (integral) metric tensor of the witness cell, as the model's input -/
def witnessMetric : Reduce.Metric := { xx := 16, yy := 25, zz := 36, yz := 0, xz := 0, xy := 10 }

lemma cos_rad_90 : Real.cos (Spec.rad 90) = 0 := by
  rw [show Spec.rad 90 = Real.pi / 2 by unfold Spec.rad; ring, Real.cos_pi_div_two]

lemma cos_rad_60 : Real.cos (Spec.rad 60) = 1 / 2 := by
  rw [show Spec.rad 60 = Real.pi / 3 by unfold Spec.rad; ring, Real.cos_pi_div_three]

lemma witness_valid : Spec.ValidCell witnessCell := validCell_example

lemma metric_witness : Spec.metric witnessCell = !![16, 10, 0; 10, 25, 0; 0, 0, 36] := by
  have e : Spec.metric witnessCell =
      !![4 * 4, 4 * 5 * Real.cos (Spec.rad 60), 4 * 6 * Real.cos (Spec.rad 90);
         4 * 5 * Real.cos (Spec.rad 60), 5 * 5, 5 * 6 * Real.cos (Spec.rad 90);
         4 * 6 * Real.cos (Spec.rad 90), 5 * 6 * Real.cos (Spec.rad 90), 6 * 6] := rfl
  rw [e, cos_rad_90, cos_rad_60]
  ext i j; fin_cases i <;> fin_cases j <;> norm_num

/-- the model's metric is the metric tensor of the witness cell -/
lemma witnessMetric_eq : Spec.metric witnessCell =
    !![(witnessMetric.xx : ℝ), witnessMetric.xy, witnessMetric.xz;
       witnessMetric.xy, witnessMetric.yy, witnessMetric.yz;
       witnessMetric.xz, witnessMetric.yz, witnessMetric.zz] := by
  rw [metric_witness]
  ext i j; fin_cases i <;> fin_cases j <;> simp [witnessMetric]

/-- all outcomes of the selection for the witness (the four sign choices of the tied `±v₁`, `±v₂`) -/
lemma admissible_witness : Reduce.admissible witnessMetric 3 =
    [⟨⟨-1, 0, 0⟩, ⟨-1, 1, 0⟩, ⟨0, 0, 1⟩⟩, ⟨⟨-1, 0, 0⟩, ⟨1, -1, 0⟩, ⟨0, 0, -1⟩⟩,
     ⟨⟨1, 0, 0⟩, ⟨-1, 1, 0⟩, ⟨0, 0, -1⟩⟩, ⟨⟨1, 0, 0⟩, ⟨1, -1, 0⟩, ⟨0, 0, 1⟩⟩] := by
  decide +kernel

end C18

namespace C18

lemma wA00 : Tools.form_a_mat witnessCell 0 0 = 4 := rfl
lemma wA01 : Tools.form_a_mat witnessCell 0 1 = 5 * Real.cos (Spec.rad 60) := rfl
lemma wA02 : Tools.form_a_mat witnessCell 0 2 = 6 * Real.cos (Spec.rad 90) := rfl

/-- first diagonal entry of the metric of the returned cell: the squared length of the first COLUMN of `red_a_mat` -/
lemma coded00 (M : Matrix (Fin 3) (Fin 3) ℤ) (hM : M.det ≠ 0) :
    Spec.metric (reduceAsCoded witnessCell M) 0 0 =
      (4 * (M 0 0 : ℝ) + 5 / 2 * M 0 1) ^ 2 + (4 * (M 1 0 : ℝ) + 5 / 2 * M 1 1) ^ 2
        + (4 * (M 2 0 : ℝ) + 5 / 2 * M 2 1) ^ 2 := by
  rw [(reduce_cell_as_coded_tools witness_valid M hM).2.2.2.2]
  simp only [Matrix.mul_apply, Fin.sum_univ_three, Matrix.transpose_apply, toR_apply, wA00, wA01, wA02,
    cos_rad_90, cos_rad_60]
  ring

/-- an integral form cannot take the value `73/4` -/
lemma no_congruence (M : Matrix (Fin 3) (Fin 3) ℤ) (hM : M.det ≠ 0)
    (hval : Spec.metric (reduceAsCoded witnessCell M) 0 0 = 73 / 4) :
    ¬ ∃ P : Matrix (Fin 3) (Fin 3) ℤ,
      Spec.metric (reduceAsCoded witnessCell M) = toR P * Spec.metric witnessCell * (toR P)ᵀ := by
  rintro ⟨P, hP⟩
  have h := congrFun (congrFun hP 0) 0
  rw [hval, metric_witness] at h
  have hR : (toR P * (!![16, 10, 0; 10, 25, 0; 0, 0, 36] : Matrix (Fin 3) (Fin 3) ℝ) * (toR P)ᵀ) 0 0 =
      ((16 * P 0 0 ^ 2 + 20 * P 0 0 * P 0 1 + 25 * P 0 1 ^ 2 + 36 * P 0 2 ^ 2 : ℤ) : ℝ) := by
    simp [Matrix.mul_apply, Fin.sum_univ_three, toR_apply]
    ring
  rw [hR] at h
  have h4 : ((73 : ℤ) : ℝ) = ((4 * (16 * P 0 0 ^ 2 + 20 * P 0 0 * P 0 1 + 25 * P 0 1 ^ 2 + 36 * P 0 2 ^ 2) : ℤ) : ℝ) := by
    push_cast at h ⊢
    linarith
  have := Int.cast_injective h4
  omega

lemma witness_step (s : Reduce.Sel) (hd : (selMat s).det = 1 ∨ (selMat s).det = -1)
    (hv : (4 * ((selMat s) 0 0 : ℝ) + 5 / 2 * (selMat s) 0 1) ^ 2 + (4 * ((selMat s) 1 0 : ℝ) + 5 / 2 * (selMat s) 1 1) ^ 2
        + (4 * ((selMat s) 2 0 : ℝ) + 5 / 2 * (selMat s) 2 1) ^ 2 = 73 / 4) :
    ((selMat s).det = 1 ∨ (selMat s).det = -1) ∧
      ¬ ∃ P : Matrix (Fin 3) (Fin 3) ℤ,
        Spec.metric (reduceAsCoded witnessCell (selMat s)) = toR P * Spec.metric witnessCell * (toR P)ᵀ := by
  have hne : (selMat s).det ≠ 0 := by rcases hd with h | h <;> rw [h] <;> norm_num
  exact ⟨hd, no_congruence _ hne (by rw [coded00 _ hne, hv])⟩

end C18

/-- C18 (tools, NEGATION of the property on a witness): for the valid cell `[4, 5, 6, 90, 90, 60]` (integral metric
tensor `witnessMetric`) and EVERY outcome `s` of the selection the model admits (any order of tied lengths), the
selected vectors do form a basis (`det = ±1`), but the metric tensor of the cell that `tools.reduce_cell` returns is
not `P G Pᵀ` for ANY integer matrix `P` (unimodular or not): the returned cell is not a cell of the input lattice. -/
theorem reduce_cell_violates_witness_tools :
    Spec.ValidCell witnessCell ∧
    ∀ s ∈ Reduce.admissible witnessMetric 3,
      ((selMat s).det = 1 ∨ (selMat s).det = -1) ∧
      ¬ ∃ P : Matrix (Fin 3) (Fin 3) ℤ,
        Spec.metric (reduceAsCoded witnessCell (selMat s)) = toR P * Spec.metric witnessCell * (toR P)ᵀ := by
  refine ⟨witness_valid, ?_⟩
  rw [admissible_witness]
  intro s hs
  simp only [List.mem_cons, List.mem_nil_iff, or_false] at hs
  rcases hs with rfl | rfl | rfl | rfl
  all_goals
    refine witness_step _ ?_ ?_
    · simp [selMat, Matrix.det_fin_three]
    · simp [selMat]
      norm_num

/-- C18 (laue, negation of the property on the witness). -/
theorem reduce_cell_violates_witness_laue :
    Spec.ValidCell witnessCell ∧
    ∀ s ∈ Reduce.admissible witnessMetric 3,
      ((selMat s).det = 1 ∨ (selMat s).det = -1) ∧
      ¬ ∃ P : Matrix (Fin 3) (Fin 3) ℤ,
        Spec.metric (reduceAsCodedLaue witnessCell (selMat s)) = toR P * Spec.metric witnessCell * (toR P)ᵀ :=
  reduce_cell_violates_witness_tools

/-- C18 (the intended call on the witness): with the matrix transposed the property holds for every admissible
selection: valid cell, metric `M G Mᵀ` with `M` integer unimodular, same volume, same lattice. -/
theorem reduce_intended_witness :
    ∀ s ∈ Reduce.admissible witnessMetric 3,
      Spec.metric (Tools.a_to_cell (Tools.form_a_mat witnessCell * (toR (selMat s))ᵀ))
        = toR (selMat s) * Spec.metric witnessCell * (toR (selMat s))ᵀ ∧
      ((selMat s).det = 1 ∨ (selMat s).det = -1) ∧
      Tools.cell_volume (Tools.a_to_cell (Tools.form_a_mat witnessCell * (toR (selMat s))ᵀ))
        = Tools.cell_volume witnessCell ∧
      lattice (Tools.form_a_mat witnessCell * (toR (selMat s))ᵀ) = lattice (Tools.form_a_mat witnessCell) := by
  intro s hs
  obtain ⟨hd, -⟩ := reduce_cell_violates_witness_tools.2 s hs
  have hne : (selMat s).det ≠ 0 := by rcases hd with h | h <;> rw [h] <;> norm_num
  refine ⟨(reduce_metric_tools witness_valid _ hne).2, hd, ?_, same_lattice_of_unimodular _ _ hd⟩
  rw [reduce_volume_tools witness_valid _ hne]
  rcases hd with h | h <;> rw [h] <;> norm_num

/-! ### the Cartesian tests of the code are the integer tests of the model -/
namespace C18

/-- index vector as a real vector -/
def vecR (v : Reduce.Vec) : Fin 3 → ℝ := ![(v.x : ℝ), v.y, v.z]

lemma triple_mulVec (A : Matrix (Fin 3) (Fin 3) ℝ) (u v w : Fin 3 → ℝ) :
    ((A *ᵥ u) ⨯₃ (A *ᵥ v)) ⬝ᵥ (A *ᵥ w) = A.det * ((u ⨯₃ v) ⬝ᵥ w) := by
  simp [cross_apply, Matrix.mulVec, dotProduct, Fin.sum_univ_three, Matrix.det_fin_three]
  ring

lemma cross_vecR (u v : Reduce.Vec) : vecR u ⨯₃ vecR v = vecR (Reduce.cross u v) := by
  simp [cross_apply, vecR, Reduce.cross]

lemma dot_vecR (u v : Reduce.Vec) : vecR u ⬝ᵥ vecR v = (Reduce.dot u v : ℝ) := by
  simp [vecR, Reduce.dot, dotProduct, Fin.sum_univ_three]

lemma vecR_eq_zero {v : Reduce.Vec} : vecR v = 0 ↔ v = Reduce.Vec.zero := by
  constructor
  · intro h
    have h0 := congrFun h 0; have h1 := congrFun h 1; have h2 := congrFun h 2
    simp [vecR] at h0 h1 h2
    cases v; simp_all [Reduce.Vec.zero]
  · rintro rfl; funext i; fin_cases i <;> simp [vecR, Reduce.Vec.zero]

lemma cross_mulVec_eq_zero_iff {A : Matrix (Fin 3) (Fin 3) ℝ} (hA : A.det ≠ 0) (u v : Fin 3 → ℝ) :
    (A *ᵥ u) ⨯₃ (A *ᵥ v) = 0 ↔ u ⨯₃ v = 0 := by
  constructor
  · intro h
    have := triple_mulVec A u v (u ⨯₃ v)
    rw [h, zero_dotProduct] at this
    have h2 : (u ⨯₃ v) ⬝ᵥ (u ⨯₃ v) = 0 := by
      rcases mul_eq_zero.mp this.symm with h' | h'
      · exact absurd h' hA
      · exact h'
    exact dotProduct_self_eq_zero.mp h2
  · intro h
    have := triple_mulVec A u v (A⁻¹ *ᵥ ((A *ᵥ u) ⨯₃ (A *ᵥ v)))
    rw [h, zero_dotProduct, mul_zero, Matrix.mulVec_mulVec, Matrix.mul_nonsing_inv _ hA.isUnit, Matrix.one_mulVec] at this
    exact dotProduct_self_eq_zero.mp this

end C18

/-- C18 (model ↔ code, tests): for a matrix `A` with `det A > 0` (`form_a_mat` of a valid cell, `det_formA_tools`)
the Cartesian collinearity test of the code (`cross(A m, A m₁) ≠ 0`, thresholds replaced by 0) is the model's
`notCollinear`, and the sign of `cross(A m₂, A m₁)·(A m)` (numerator of `dist`; the denominator is a positive norm)
is the model's `positiveSide`. -/
theorem cartesian_tests_exact (A : Matrix (Fin 3) (Fin 3) ℝ) (hA : 0 < A.det) (v1 v2 v : Reduce.Vec) :
    ((A *ᵥ vecR v) ⨯₃ (A *ᵥ vecR v1) ≠ 0 ↔ Reduce.notCollinear v1 v = true) ∧
    (0 < ((A *ᵥ vecR v2) ⨯₃ (A *ᵥ vecR v1)) ⬝ᵥ (A *ᵥ vecR v) ↔ Reduce.positiveSide v1 v2 v = true) := by
  constructor
  · rw [Ne, cross_mulVec_eq_zero_iff hA.ne', cross_vecR, vecR_eq_zero]
    simp [Reduce.notCollinear]
  · rw [triple_mulVec, cross_vecR, dot_vecR, mul_pos_iff_of_pos_left hA]
    simp [Reduce.positiveSide]

/-! ### the selection model -/
namespace C18
open Reduce

/-- the search range of the code: `arange(-uvw, uvw)` in every coordinate -/
def InRange (uvw : Nat) (v : Vec) : Prop :=
  (-(uvw : Int) ≤ v.x ∧ v.x < uvw) ∧ (-(uvw : Int) ≤ v.y ∧ v.y < uvw) ∧ (-(uvw : Int) ≤ v.z ∧ v.z < uvw)

lemma mem_rng {uvw : Nat} {i : Int} : i ∈ rng uvw ↔ -(uvw : Int) ≤ i ∧ i < uvw := by
  simp only [rng, List.mem_map, List.mem_range]
  constructor
  · rintro ⟨n, hn, rfl⟩
    constructor <;> simp only [Int.ofNat_eq_natCast] <;> omega
  · rintro ⟨h1, h2⟩
    refine ⟨(i + uvw).toNat, ?_, ?_⟩
    · omega
    · simp only [Int.ofNat_eq_natCast]; omega

lemma mem_candidates {uvw : Nat} {v : Vec} : v ∈ candidates uvw ↔ InRange uvw v := by
  simp only [candidates, List.mem_flatMap, List.mem_map, mem_rng, InRange]
  constructor
  · rintro ⟨i, hi, j, hj, k, hk, rfl⟩
    exact ⟨hi, hj, hk⟩
  · rintro ⟨hi, hj, hk⟩
    exact ⟨v.x, hi, v.y, hj, v.z, hk, rfl⟩

lemma qform_zero (g : Metric) : qform g Vec.zero = 0 := by simp [qform, bil, Vec.zero]

lemma dropUntil_spec {α : Type} (p : α → Bool) : ∀ (l : List α) (y : α) (ys : List α), dropUntil p l = y :: ys →
    ∃ pre, l = pre ++ y :: ys ∧ p y = true ∧ ∀ x ∈ pre, p x = false
  | [], y, ys, h => by simp [dropUntil] at h
  | x :: xs, y, ys, h => by
    by_cases hx : p x = true
    · simp only [dropUntil, hx, if_true, List.cons.injEq] at h
      obtain ⟨rfl, rfl⟩ := h
      exact ⟨[], rfl, hx, by simp⟩
    · simp only [dropUntil, hx] at h
      obtain ⟨pre, e, hy, hpre⟩ := dropUntil_spec p xs y ys h
      refine ⟨x :: pre, by rw [e]; rfl, hy, ?_⟩
      intro z hz
      rcases List.mem_cons.mp hz with rfl | hz
      · simpa using hx
      · exact hpre z hz

/-- shape of the sorted list around a successful run of the three loops -/
lemma selectFrom_spec : ∀ {l : List Vec} {s : Sel}, selectFrom l = some s →
    ∃ e0 pre rest2 as bs, l = e0 :: s.v1 :: (pre ++ s.v2 :: rest2) ∧ notCollinear s.v1 s.v2 = true ∧
      (∀ x ∈ pre, notCollinear s.v1 x = false) ∧ s.v2 :: rest2 = as ++ s.v3 :: bs ∧
      positiveSide s.v1 s.v2 s.v3 = true ∧ ∀ a ∈ as, positiveSide s.v1 s.v2 a = false
  | [], s, h => by simp [selectFrom] at h
  | [_], s, h => by simp [selectFrom] at h
  | e0 :: v1 :: rest, s, h => by
    simp only [selectFrom] at h
    cases hd : dropUntil (notCollinear v1) rest with
    | nil => simp [hd] at h
    | cons v2 rest2 =>
      rw [hd] at h
      simp only at h
      cases hf : (v2 :: rest2).find? (positiveSide v1 v2) with
      | none => simp [hf] at h
      | some v3 =>
        rw [hf] at h
        simp only [Option.some.injEq] at h
        subst h
        obtain ⟨pre, e, hy, hpre⟩ := dropUntil_spec _ _ _ _ hd
        obtain ⟨hp3, as, bs, e2, has⟩ := List.find?_eq_some_iff_append.mp hf
        exact ⟨e0, pre, rest2, as, bs, by rw [e], hy, hpre, e2, hp3, by simpa using has⟩

lemma le_trans' (g : Metric) (a b c : Vec) : le g a b = true → le g b c = true → le g a c = true := by
  simp only [le, decide_eq_true_eq]; exact Int.le_trans

lemma le_total' (g : Metric) (a b : Vec) : (le g a b || le g b a) = true := by
  simp only [le, Bool.or_eq_true, decide_eq_true_eq]; exact Int.le_total _ _

lemma sorted_perm (g : Metric) (uvw : Nat) : (sorted g uvw).Perm (candidates uvw) := List.mergeSort_perm _ _

lemma sorted_pairwise (g : Metric) (uvw : Nat) :
    (sorted g uvw).Pairwise (fun a b => qform g a ≤ qform g b) := by
  have := List.pairwise_mergeSort (le := le g) (le_trans' g) (le_total' g) (candidates uvw)
  exact this.imp (by intro a b h; simpa [le] using h)

/-- facts about any run of the loops on a length-sorted list whose members are the candidates -/
lemma selectFrom_sound {g : Metric} {uvw : Nat} {l : List Vec} (hmem : ∀ v, v ∈ l ↔ v ∈ candidates uvw)
    (hsorted : l.Pairwise (fun a b => qform g a ≤ qform g b)) {s : Sel} (h : selectFrom l = some s) :
    InRange uvw s.v1 ∧ InRange uvw s.v2 ∧ InRange uvw s.v3 ∧ notCollinear s.v1 s.v2 = true ∧
      positiveSide s.v1 s.v2 s.v3 = true ∧ qform g s.v1 ≤ qform g s.v2 ∧ qform g s.v2 ≤ qform g s.v3 := by
  obtain ⟨e0, pre, rest2, as, bs, hl, hnc, hpre, hsplit, hps, has⟩ := selectFrom_spec h
  have hv3 : s.v3 ∈ s.v2 :: rest2 := by rw [hsplit]; simp
  have m1 : s.v1 ∈ l := by rw [hl]; simp
  have m2 : s.v2 ∈ l := by rw [hl]; simp
  have m3 : s.v3 ∈ l := by
    rw [hl]; rcases List.mem_cons.mp hv3 with h | h
    · simp [h]
    · simp [h]
  rw [hl] at hsorted
  have hs1 := (List.pairwise_cons.mp hsorted).2
  have hs2 := List.pairwise_cons.mp hs1
  have hs3 := List.pairwise_cons.mp (List.pairwise_append.mp hs2.2).2.1
  refine ⟨mem_candidates.mp ((hmem _).mp m1), mem_candidates.mp ((hmem _).mp m2), mem_candidates.mp ((hmem _).mp m3),
    hnc, hps, hs2.1 _ (by simp), ?_⟩
  rcases List.mem_cons.mp hv3 with h | h
  · rw [h]
  · exact hs3.1 _ h

end C18

/-- C18 (model, `selection_sound`): whatever the model's canonical selection returns consists of index vectors within
the search range `[-uvw, uvw)³` (so `A mᵢ` are lattice vectors), the second is not collinear with the first, the third
lies on the positive side of `v₂ × v₁` (in particular the three are not coplanar), and the lengths are non-decreasing
in selection order.  (That they form a BASIS, `det = ±1`, is not proved in general: see the file header.) -/
theorem selection_sound (g : Reduce.Metric) (uvw : Nat) (s : Reduce.Sel) (h : Reduce.select g uvw = some s) :
    InRange uvw s.v1 ∧ InRange uvw s.v2 ∧ InRange uvw s.v3 ∧ Reduce.notCollinear s.v1 s.v2 = true ∧
      Reduce.positiveSide s.v1 s.v2 s.v3 = true ∧ Reduce.qform g s.v1 ≤ Reduce.qform g s.v2 ∧
      Reduce.qform g s.v2 ≤ Reduce.qform g s.v3 :=
  selectFrom_sound (fun v => (sorted_perm g uvw).mem_iff) (sorted_pairwise g uvw) h

/-! ### ties: every length-sorted order of the candidates gives an admissible outcome -/
namespace C18
open Reduce

lemma foldl_min_le (q : Vec → Int) : ∀ (xs : List Vec) (m0 : Int),
    xs.foldl (fun m v => if q v < m then q v else m) m0 ≤ m0 ∧
    ∀ w ∈ xs, xs.foldl (fun m v => if q v < m then q v else m) m0 ≤ q w
  | [], m0 => by simp
  | x :: xs, m0 => by
    simp only [List.foldl_cons, List.mem_cons]
    by_cases hc : q x < m0
    · simp only [hc, if_true]
      obtain ⟨h1, h2⟩ := foldl_min_le q xs (q x)
      refine ⟨by omega, ?_⟩
      rintro w (rfl | hw)
      · exact h1
      · exact h2 w hw
    · simp only [hc, if_false]
      obtain ⟨h1, h2⟩ := foldl_min_le q xs m0
      refine ⟨h1, ?_⟩
      rintro w (rfl | hw)
      · omega
      · exact h2 w hw

lemma foldl_min_mem (q : Vec → Int) : ∀ (xs : List Vec) (m0 : Int),
    xs.foldl (fun m v => if q v < m then q v else m) m0 = m0 ∨
    ∃ w ∈ xs, xs.foldl (fun m v => if q v < m then q v else m) m0 = q w
  | [], m0 => by simp
  | x :: xs, m0 => by
    simp only [List.foldl_cons, List.mem_cons]
    by_cases hc : q x < m0
    · simp only [hc, if_true]
      rcases foldl_min_mem q xs (q x) with h | ⟨w, hw, h⟩
      · exact Or.inr ⟨x, Or.inl rfl, h⟩
      · exact Or.inr ⟨w, Or.inr hw, h⟩
    · simp only [hc, if_false]
      rcases foldl_min_mem q xs m0 with h | ⟨w, hw, h⟩
      · exact Or.inl h
      · exact Or.inr ⟨w, Or.inr hw, h⟩

lemma mem_argmins {q : Vec → Int} {l : List Vec} {v : Vec} :
    v ∈ argmins q l ↔ v ∈ l ∧ ∀ w ∈ l, q v ≤ q w := by
  cases l with
  | nil => simp [argmins]
  | cons x xs =>
    simp only [argmins, List.mem_filter, beq_iff_eq]
    obtain ⟨h1, h2⟩ := foldl_min_le q xs (q x)
    constructor
    · rintro ⟨hv, he⟩
      refine ⟨hv, ?_⟩
      intro w hw
      rw [he]
      rcases List.mem_cons.mp hw with rfl | hw
      · exact h1
      · exact h2 w hw
    · rintro ⟨hv, hmin⟩
      refine ⟨hv, ?_⟩
      apply Int.le_antisymm
      · rcases foldl_min_mem q xs (q x) with h | ⟨w, hw, h⟩
        · rw [h]; exact hmin x (by simp)
        · rw [h]; exact hmin w (by simp [hw])
      · rcases List.mem_cons.mp hv with rfl | hv'
        · exact h1
        · exact h2 v hv'

lemma mem_admissible {g : Metric} {uvw : Nat} {s : Sel} :
    s ∈ admissible g uvw ↔
      s.v1 ∈ argmins (qform g) ((candidates uvw).filter fun v => decide (v ≠ Vec.zero)) ∧
      s.v2 ∈ argmins (qform g) ((candidates uvw).filter (notCollinear s.v1)) ∧
      s.v3 ∈ argmins (qform g) ((candidates uvw).filter (positiveSide s.v1 s.v2)) := by
  simp only [admissible, List.mem_flatMap, List.mem_map]
  constructor
  · rintro ⟨v1, h1, v2, h2, v3, h3, rfl⟩
    exact ⟨h1, h2, h3⟩
  · rintro ⟨h1, h2, h3⟩
    exact ⟨s.v1, h1, s.v2, h2, s.v3, h3, rfl⟩

/-- Sylvester: positive leading minors ⇒ the quadratic form is positive -/
lemma qform_pos_of_posDef {g : Metric} (hg : posDef g = true) {v : Vec} (hv : v ≠ Vec.zero) : 0 < qform g v := by
  simp only [posDef, minors, Bool.and_eq_true, decide_eq_true_eq] at hg
  obtain ⟨⟨⟨h1, h2⟩, h3⟩, -⟩ := hg
  replace h1 := of_decide_eq_true h1
  replace h2 := of_decide_eq_true h2
  replace h3 := of_decide_eq_true h3
  have key : g.xx * (g.xx * g.yy - g.xy * g.xy) * qform g v =
      (g.xx * g.yy - g.xy * g.xy) * (g.xx * v.x + g.xy * v.y + g.xz * v.z) ^ 2
      + ((g.xx * g.yy - g.xy * g.xy) * v.y + (g.xx * g.yz - g.xy * g.xz) * v.z) ^ 2
      + g.xx * (g.xx * (g.yy * g.zz - g.yz * g.yz) - g.xy * (g.xy * g.zz - g.yz * g.xz)
          + g.xz * (g.xy * g.yz - g.yy * g.xz)) * v.z ^ 2 := by
    simp only [qform, bil]; ring
  generalize g.xx * (g.yy * g.zz - g.yz * g.yz) - g.xy * (g.xy * g.zz - g.yz * g.xz)
          + g.xz * (g.xy * g.yz - g.yy * g.xz) = p3 at h3 key
  generalize g.xx * g.yy - g.xy * g.xy = p2 at h2 key
  by_contra hn
  have hq : qform g v ≤ 0 := not_lt.mp hn
  have hL : g.xx * p2 * qform g v ≤ 0 := mul_nonpos_of_nonneg_of_nonpos (mul_pos h1 h2).le hq
  have t1 : 0 ≤ p2 * (g.xx * v.x + g.xy * v.y + g.xz * v.z) ^ 2 := mul_nonneg h2.le (sq_nonneg _)
  have t2 : 0 ≤ (p2 * v.y + (g.xx * g.yz - g.xy * g.xz) * v.z) ^ 2 := sq_nonneg _
  have t3 : 0 ≤ g.xx * p3 * v.z ^ 2 := mul_nonneg (mul_pos h1 h3).le (sq_nonneg _)
  have z3 : g.xx * p3 * v.z ^ 2 = 0 := by linarith
  have z2 : (p2 * v.y + (g.xx * g.yz - g.xy * g.xz) * v.z) ^ 2 = 0 := by linarith
  have z1 : p2 * (g.xx * v.x + g.xy * v.y + g.xz * v.z) ^ 2 = 0 := by linarith
  have hz : v.z = 0 := by
    rcases mul_eq_zero.mp z3 with h | h
    · exact absurd h (mul_pos h1 h3).ne'
    · exact pow_eq_zero_iff (two_ne_zero) |>.mp h
  have hy : v.y = 0 := by
    have := pow_eq_zero_iff (two_ne_zero) |>.mp z2
    rw [hz, mul_zero, add_zero] at this
    rcases mul_eq_zero.mp this with h | h
    · exact absurd h h2.ne'
    · exact h
  have hx : v.x = 0 := by
    rcases mul_eq_zero.mp z1 with h | h
    · exact absurd h h2.ne'
    · have := pow_eq_zero_iff (two_ne_zero) |>.mp h
      rw [hz, hy, mul_zero, mul_zero, add_zero, add_zero] at this
      rcases mul_eq_zero.mp this with h | h
      · exact absurd h h1.ne'
      · exact h
  apply hv
  cases v
  simp_all [Vec.zero]

lemma notCollinear_ne_zero {v1 v : Vec} (h : notCollinear v1 v = true) : v ≠ Vec.zero ∧ v ≠ v1 ∧ v1 ≠ Vec.zero := by
  simp only [notCollinear, decide_eq_true_eq] at h
  refine ⟨?_, ?_, ?_⟩
  · rintro rfl; apply h; simp [cross, Vec.zero]
  · rintro rfl; apply h; simp [cross, Vec.zero, Int.mul_comm]
  · rintro rfl; apply h; simp [cross, Vec.zero]

lemma positiveSide_notCollinear {v1 v2 v : Vec} (h : positiveSide v1 v2 v = true) : notCollinear v1 v = true := by
  simp only [positiveSide, decide_eq_true_eq] at h
  simp only [notCollinear, decide_eq_true_eq]
  intro hc
  simp only [cross, Vec.zero, Vec.mk.injEq] at hc
  obtain ⟨c1, c2, c3⟩ := hc
  have : dot (cross v2 v1) v = 0 := by
    simp only [dot, cross]
    linear_combination (-v2.x) * c1 + (-v2.y) * c2 + (-v2.z) * c3
  omega

end C18

/-- C18 (model, ties): numpy's `argsort` is not stable, so the order of entries of equal length is unspecified.  For a
positive definite metric, run the code's three loops (`Reduce.selectFrom`) on ANY permutation `res` of the candidates
that is sorted by length: whenever they succeed, the outcome is a member of `Reduce.admissible` (the list the harness
compares the implementation with). -/
theorem selectFrom_mem_admissible (g : Reduce.Metric) (uvw : Nat) (hg : Reduce.posDef g = true) (huvw : 0 < uvw)
    (res : List Reduce.Vec) (hperm : res.Perm (Reduce.candidates uvw))
    (hsorted : res.Pairwise (fun a b => Reduce.qform g a ≤ Reduce.qform g b))
    (s : Reduce.Sel) (h : Reduce.selectFrom res = some s) : s ∈ Reduce.admissible g uvw := by
  have hmem : ∀ v, v ∈ res ↔ v ∈ Reduce.candidates uvw := fun v => hperm.mem_iff
  obtain ⟨r1, r2, r3, hnc, hps, -, -⟩ := selectFrom_sound hmem hsorted h
  obtain ⟨e0, pre, rest2, as, bs, hl, -, hpre, hsplit, -, has⟩ := selectFrom_spec h
  have hzero : Reduce.Vec.zero ∈ res := by
    rw [hmem, mem_candidates]
    simp only [InRange, Reduce.Vec.zero]
    omega
  have hs0 := hsorted
  rw [hl] at hs0
  have hs1 := List.pairwise_cons.mp hs0
  have hs2 := List.pairwise_cons.mp hs1.2
  have hs3 := List.pairwise_cons.mp (List.pairwise_append.mp hs2.2).2.1
  have hs3' : (s.v2 :: rest2).Pairwise (fun a b => Reduce.qform g a ≤ Reduce.qform g b) :=
    (List.pairwise_append.mp hs2.2).2.1
  rw [hsplit] at hs3'
  have hs4 := List.pairwise_cons.mp (List.pairwise_append.mp hs3').2.1
  -- entry 0 is the zero vector
  have he0 : e0 = Reduce.Vec.zero := by
    by_contra hne
    have hin : Reduce.Vec.zero ∈ s.v1 :: (pre ++ s.v2 :: rest2) := by
      rw [hl] at hzero
      rcases List.mem_cons.mp hzero with h | h
      · exact absurd h.symm hne
      · exact h
    have := hs1.1 _ hin
    rw [qform_zero] at this
    have := qform_pos_of_posDef hg hne
    omega
  have inTail : ∀ w ∈ Reduce.candidates uvw, w ≠ Reduce.Vec.zero → w ∈ s.v1 :: (pre ++ s.v2 :: rest2) := by
    intro w hw hw0
    have := (hmem w).mpr hw
    rw [hl, he0] at this
    rcases List.mem_cons.mp this with h | h
    · exact absurd h hw0
    · exact h
  have inRest : ∀ w ∈ Reduce.candidates uvw, Reduce.notCollinear s.v1 w = true → w ∈ s.v2 :: rest2 := by
    intro w hw hwc
    obtain ⟨w0, w1, -⟩ := notCollinear_ne_zero hwc
    rcases List.mem_cons.mp (inTail w hw w0) with h | h
    · exact absurd h w1
    · rcases List.mem_append.mp h with h | h
      · have := hpre w h; rw [hwc] at this; exact absurd this (by simp)
      · exact h
  rw [mem_admissible]
  refine ⟨?_, ?_, ?_⟩
  · rw [mem_argmins]
    refine ⟨List.mem_filter.mpr ⟨mem_candidates.mpr r1, by simpa using (notCollinear_ne_zero hnc).2.2⟩, ?_⟩
    intro w hw
    obtain ⟨hw, hw0⟩ := List.mem_filter.mp hw
    rcases List.mem_cons.mp (inTail w hw (by simpa using hw0)) with h | h
    · rw [h]
    · exact hs2.1 _ h
  · rw [mem_argmins]
    refine ⟨List.mem_filter.mpr ⟨mem_candidates.mpr r2, hnc⟩, ?_⟩
    intro w hw
    obtain ⟨hw, hwc⟩ := List.mem_filter.mp hw
    rcases List.mem_cons.mp (inRest w hw hwc) with h | h
    · rw [h]
    · exact hs3.1 _ h
  · rw [mem_argmins]
    refine ⟨List.mem_filter.mpr ⟨mem_candidates.mpr r3, hps⟩, ?_⟩
    intro w hw
    obtain ⟨hw, hwp⟩ := List.mem_filter.mp hw
    have h := inRest w hw (positiveSide_notCollinear hwp)
    rw [hsplit] at h
    rcases List.mem_append.mp h with h | h
    · have := has w h; rw [hwp] at this; exact absurd this (by simp)
    · rcases List.mem_cons.mp h with h | h
      · rw [h]
      · exact hs4.1 _ h

/-- C18 (model, ties): in particular the canonical outcome (stable sort) is admissible. -/
theorem select_mem_admissible (g : Reduce.Metric) (uvw : Nat) (hg : Reduce.posDef g = true) (huvw : 0 < uvw)
    (s : Reduce.Sel) (h : Reduce.select g uvw = some s) : s ∈ Reduce.admissible g uvw :=
  selectFrom_mem_admissible g uvw hg huvw _ (sorted_perm g uvw) (sorted_pairwise g uvw) s h

/-- C18 (model): every admissible outcome has the properties of `selection_sound`. -/
theorem admissible_sound (g : Reduce.Metric) (uvw : Nat) (s : Reduce.Sel) (h : s ∈ Reduce.admissible g uvw) :
    InRange uvw s.v1 ∧ InRange uvw s.v2 ∧ InRange uvw s.v3 ∧ Reduce.notCollinear s.v1 s.v2 = true ∧
      Reduce.positiveSide s.v1 s.v2 s.v3 = true ∧ Reduce.qform g s.v1 ≤ Reduce.qform g s.v2 ∧
      Reduce.qform g s.v2 ≤ Reduce.qform g s.v3 := by
  obtain ⟨h1, h2, h3⟩ := mem_admissible.mp h
  rw [mem_argmins] at h1 h2 h3
  obtain ⟨m1, n1⟩ := List.mem_filter.mp h1.1
  obtain ⟨m2, n2⟩ := List.mem_filter.mp h2.1
  obtain ⟨m3, n3⟩ := List.mem_filter.mp h3.1
  refine ⟨mem_candidates.mp m1, mem_candidates.mp m2, mem_candidates.mp m3, n2, n3, ?_, ?_⟩
  · exact h1.2 _ (List.mem_filter.mpr ⟨m2, by simpa using (notCollinear_ne_zero n2).1⟩)
  · exact h2.2 _ (List.mem_filter.mpr ⟨m3, positiveSide_notCollinear n3⟩)

/-! ### the hypotheses are satisfiable -/

example : Reduce.posDef witnessMetric = true := by decide

example : (⟨⟨-1, 0, 0⟩, ⟨-1, 1, 0⟩, ⟨0, 0, 1⟩⟩ : Reduce.Sel) ∈ Reduce.admissible witnessMetric 3 := by
  rw [admissible_witness]; simp

example : Spec.metric (Tools.a_to_cell (Tools.form_a_mat witnessCell * (toR !![1, 0, 0; -1, 1, 0; 0, 0, -1])ᵀ))
    = toR !![1, 0, 0; -1, 1, 0; 0, 0, -1] * Spec.metric witnessCell * (toR !![1, 0, 0; -1, 1, 0; 0, 0, -1])ᵀ :=
  (reduce_metric_tools witness_valid _ (by simp [Matrix.det_fin_three])).2

example : Tools.cell_volume (reduceAsCoded witnessCell !![1, 0, 0; -1, 1, 0; 0, 0, -1]) = Tools.cell_volume witnessCell := by
  rw [(reduce_cell_volume_preserved_tools witness_valid _ (by simp [Matrix.det_fin_three])).1]
  simp [Matrix.det_fin_three]
