/-
C18 — the selected vectors of `reduce_cell` form a BASIS of the lattice (`det M = ±1`).

This closes what `Proofs/C18.lean` left open (`selected_basis`).  The mathematics is the classical theorem of the geometry
of numbers that greedily chosen successive-minima vectors of a lattice of dimension ≤ 3 form a basis; it is proved for
positive definite integral ternary forms in `Lemmas/Minkowski3.lean` (Lagrange completion of the Gram form of the three
vectors + size reduction with `round`: a lattice vector outside the ℤ-span of `v₁ v₂ v₃` could be shortened, by integer
combinations of them, below `(k/4)·q(v_k) < q(v_k)` for the largest `k ≤ 3` with a non-integral coordinate, contradicting the
minimality of `v_k`).

Here it is connected to the model of the code's selection (`Model/Reduce.lean`):

* `BallInBox g uvw s`          the search range `[-uvw, uvw)³` contains every lattice vector strictly shorter than the third
                                selected vector — the formal counterpart of the property's quantifier "cells whose reduced
                                basis lies within the search range".  Without it the statement is false (the three shortest
                                independent vectors *of the box* need not generate the lattice when shorter lattice vectors
                                lie outside the box).
* `admissible_unimodular`      every outcome the code's loops can produce (any argsort order of tied lengths) has `det = −1`
                                … in fact `det M = ±1`, and since the third vector is taken on the positive side of `v₂ × v₁`
                                the sign is fixed: `admissible_det` gives `det M = -1`.
* `select_unimodular`          the same for the canonical (stable-sort) outcome `Reduce.select`.
* `selectFrom_unimodular`      … and for the code's loops run on ANY length-sorted permutation of the candidates.
* `ballCheck` / `admissible_unimodular_of_check`
                                an executable sufficient test for `BallInBox` (`q(w)·cofᵢᵢ ≥ wᵢ²·det G`, so `q(v₃)·cofᵢᵢ ≤ uvw²·det G`
                                forces `|wᵢ| < uvw` for every `w` shorter than `v₃`); the model driver evaluates it per input and the
                                harness reports how many inputs of the stream it certifies.
* `reduce_intended_primitive`  with `same_lattice_of_unimodular` and `reduce_metric_tools`: for the call that was intended
                                (`a_to_cell(A·Mᵀ)`) the returned cell has metric `M G Mᵀ` with `det M = ±1` and spans the same
                                lattice.  (What the code returns instead is finding C18-ROWS, `reduce_cell_violates_witness_*`.)
-/
import XfabVerif.Proofs.C18
import XfabVerif.Lemmas.Minkowski3

namespace C18
open Reduce Matrix

/-- the search range contains every lattice vector strictly shorter than the third selected vector -/
def BallInBox (g : Metric) (uvw : Nat) (s : Sel) : Prop :=
  ∀ w : Vec, qform g w < qform g s.v3 → w ∈ candidates uvw

lemma sel_det_eq (s : Sel) : s.det = - dot (cross s.v2 s.v1) s.v3 := by
  simp only [Sel.det, dot, cross]; ring

/-- the minimality facts packed in `admissible`, in the form `Minkowski3.box_minima_unimodular` wants them -/
lemma admissible_minimal {g : Metric} {uvw : Nat} {s : Sel} (h : s ∈ admissible g uvw) :
    (∀ w ∈ candidates uvw, w ≠ Vec.zero → qform g s.v1 ≤ qform g w) ∧
    (∀ w ∈ candidates uvw, cross w s.v1 ≠ Vec.zero → qform g s.v2 ≤ qform g w) ∧
    (∀ w ∈ candidates uvw, 0 < dot (cross s.v2 s.v1) w → qform g s.v3 ≤ qform g w) := by
  obtain ⟨h1, h2, h3⟩ := mem_admissible.mp h
  rw [mem_argmins] at h1 h2 h3
  refine ⟨?_, ?_, ?_⟩
  · intro w hw hne
    exact h1.2 w (List.mem_filter.mpr ⟨hw, by simpa using hne⟩)
  · intro w hw hc
    exact h2.2 w (List.mem_filter.mpr ⟨hw, by simpa [notCollinear] using hc⟩)
  · intro w hw hp
    exact h3.2 w (List.mem_filter.mpr ⟨hw, by simpa [positiveSide] using hp⟩)

/-- **selected basis**: every outcome the code's loops can produce is a unimodular triple, provided the search range
    contains all lattice vectors shorter than the third one -/
theorem admissible_unimodular (g : Reduce.Metric) (uvw : Nat) (hg : Reduce.posDef g = true) (s : Reduce.Sel)
    (h : s ∈ Reduce.admissible g uvw) (hball : BallInBox g uvw s) : s.det = 1 ∨ s.det = -1 := by
  obtain ⟨_, _, _, _, hpos, h12, h23⟩ := admissible_sound g uvw s h
  obtain ⟨m1, m2, m3⟩ := admissible_minimal h
  have hp : 0 < dot (cross s.v2 s.v1) s.v3 := by simpa [positiveSide] using hpos
  have hdet : s.det ≠ 0 := by rw [sel_det_eq]; omega
  exact Minkowski3.box_minima_unimodular g hg uvw s hdet hball h12 h23 m1 m2 m3

/-- the orientation test of the third loop fixes the sign -/
theorem admissible_det (g : Reduce.Metric) (uvw : Nat) (hg : Reduce.posDef g = true) (s : Reduce.Sel)
    (h : s ∈ Reduce.admissible g uvw) (hball : BallInBox g uvw s) : s.det = -1 := by
  obtain ⟨_, _, _, _, hpos, _, _⟩ := admissible_sound g uvw s h
  have hp : 0 < dot (cross s.v2 s.v1) s.v3 := by simpa [positiveSide] using hpos
  rcases admissible_unimodular g uvw hg s h hball with h1 | h1
  · rw [sel_det_eq] at h1; omega
  · exact h1

/-- the canonical outcome -/
theorem select_unimodular (g : Reduce.Metric) (uvw : Nat) (hg : Reduce.posDef g = true) (huvw : 0 < uvw) (s : Reduce.Sel)
    (h : Reduce.select g uvw = some s) (hball : BallInBox g uvw s) : s.det = -1 :=
  admissible_det g uvw hg s (select_mem_admissible g uvw hg huvw s h) hball

/-! ### executable sufficient test for `BallInBox` -/

theorem ballInBox_of_check (g : Reduce.Metric) (uvw : Nat) (hg : Reduce.posDef g = true) (s : Reduce.Sel)
    (h : Reduce.ballCheck g uvw s = true) : BallInBox g uvw s :=
  Minkowski3.ball_of_check g hg uvw s h

theorem admissible_unimodular_of_check (g : Reduce.Metric) (uvw : Nat) (hg : Reduce.posDef g = true) (s : Reduce.Sel)
    (h : s ∈ Reduce.admissible g uvw) (hc : Reduce.ballCheck g uvw s = true) : s.det = -1 :=
  admissible_det g uvw hg s h (ballInBox_of_check g uvw hg s hc)

/-! ### consequence for the intended call: same lattice, metric `M G Mᵀ` -/

/-- the integer matrix of the selected vectors (rows) is unimodular -/
theorem selMat_unimodular (g : Reduce.Metric) (uvw : Nat)
    (hg : Reduce.posDef g = true) (s : Reduce.Sel) (h : s ∈ Reduce.admissible g uvw) (hball : BallInBox g uvw s) :
    (selMat s).det = 1 ∨ (selMat s).det = -1 := by
  have hd : (selMat s).det = s.det := by
    simp only [selMat, Matrix.det_fin_three, Sel.det, dot, cross]
    simp
    ring
  rw [hd]
  exact admissible_unimodular g uvw hg s h hball

/-- **C18 for the intended call** (`a_to_cell(A·Mᵀ)`, both modules — `Laue.*` are the same definitions): whatever outcome the
selection loops produce, under `BallInBox` the returned cell is valid, its metric tensor is `M G Mᵀ` with `det M = ±1`, its volume
is the input's, and the lattice spanned by its basis `A·Mᵀ` is the input lattice. -/
theorem reduce_intended_primitive {cell : Fin 6 → ℝ} (hcell : Spec.ValidCell cell) (g : Reduce.Metric) (uvw : Nat)
    (hg : Reduce.posDef g = true) (s : Reduce.Sel) (h : s ∈ Reduce.admissible g uvw) (hball : BallInBox g uvw s) :
    ((selMat s).det = 1 ∨ (selMat s).det = -1) ∧
    Spec.ValidCell (Tools.a_to_cell (Tools.form_a_mat cell * (toR (selMat s))ᵀ)) ∧
    Spec.metric (Tools.a_to_cell (Tools.form_a_mat cell * (toR (selMat s))ᵀ))
      = toR (selMat s) * Spec.metric cell * (toR (selMat s))ᵀ ∧
    Tools.cell_volume (Tools.a_to_cell (Tools.form_a_mat cell * (toR (selMat s))ᵀ)) = Tools.cell_volume cell ∧
    lattice (Tools.form_a_mat cell * (toR (selMat s))ᵀ) = lattice (Tools.form_a_mat cell) := by
  have hu := selMat_unimodular g uvw hg s h hball
  have hne : (selMat s).det ≠ 0 := by rcases hu with e | e <;> rw [e] <;> norm_num
  obtain ⟨hv, hm⟩ := reduce_metric_tools hcell (selMat s) hne
  refine ⟨hu, hv, hm, ?_, same_lattice_of_unimodular _ _ hu⟩
  rw [reduce_volume_tools hcell (selMat s) hne]
  rcases hu with e | e <;> rw [e] <;> simp

/-! ### the hypotheses are satisfiable -/

example : Reduce.posDef witnessMetric = true := by decide

example : Reduce.ballCheck witnessMetric 3
    (⟨⟨-1, 0, 0⟩, ⟨-1, 1, 0⟩, ⟨0, 0, 1⟩⟩ : Reduce.Sel) = true := by decide

example : (⟨⟨-1, 0, 0⟩, ⟨-1, 1, 0⟩, ⟨0, 0, 1⟩⟩ : Reduce.Sel).det = -1 := by decide

end C18
